import Mathlib.Tactic.Ring
import DryocVerif.Proofs.Poly1305Bits
/-
One `blockStep` of the limb model multiplies the accumulator by `r` modulo `2^130-5`.
-/
namespace DryocVerif.Proofs.Poly1305
open DryocVerif
open DryocVerif.Model.Poly1305

/-- value of a limb triple (radix 2^44, 2^44, 2^42) -/
def V (l : Limbs) : Nat := l.l0 + 2^44 * l.l1 + 2^88 * l.l2

/-- weak invariant on the accumulator between blocks -/
def Inv (h : Limbs) : Prop := h.l0 < 2^44 ∧ h.l1 < 2^45 ∧ h.l2 < 2^42

/-- bounds on the clamped key limbs -/
def RInv (r : Limbs) : Prop := r.l0 < 2^44 ∧ r.l1 < 2^44 ∧ r.l2 < 2^42

/-- `2^130 - 5` as a numeral -/
def P : Nat := 1361129467683753853853498429727072845819

theorem p_eq : DryocVerif.Spec.Poly1305.p = P := by decide

/-! ### decomposition of `blockStep` -/

/-- `h += m[i]` -/
def addMsg (hibit : Nat) (h : Limbs) (m : Bytes) : Limbs :=
  let t0 := le (m.take 8)
  let t1 := le ((m.drop 8).take 8)
  ⟨(h.l0 + (t0 &&& M44)) % U64,
   (h.l1 + (((t0 >>> 44) ||| ((t1 <<< 20) % U64)) &&& M44)) % U64,
   (h.l2 + (((t1 >>> 24) &&& M42) ||| hibit)) % U64⟩

def D0 (r H : Limbs) : Nat := H.l0 * r.l0 + H.l1 * (r.l2 * 20) + H.l2 * (r.l1 * 20)
def D1 (r H : Limbs) : Nat := H.l0 * r.l1 + H.l1 * r.l0 + H.l2 * (r.l2 * 20)
def D2 (r H : Limbs) : Nat := H.l0 * r.l2 + H.l1 * r.l1 + H.l2 * r.l0

/-- `(partial) h %= p` -/
def reduce (d0 d1 d2 : Nat) : Limbs :=
  let c := (d0 >>> 44) % U64
  let h0 := (d0 % U64) &&& M44
  let d1 := d1 + c
  let c := (d1 >>> 44) % U64
  let h1 := (d1 % U64) &&& M44
  let d2 := d2 + c
  let c := (d2 >>> 42) % U64
  let h2 := (d2 % U64) &&& M42
  let h0 := h0 + c * 5
  let c := h0 >>> 44
  let h0 := h0 &&& M44
  let h1 := h1 + c
  ⟨h0, h1, h2⟩

theorem blockStep_eq (r : Limbs) (hibit : Nat) (h : Limbs) (m : Bytes) :
    blockStep r hibit h m =
      reduce (D0 r (addMsg hibit h m)) (D1 r (addMsg hibit h m)) (D2 r (addMsg hibit h m)) := rfl

/-! ### the three pieces -/

theorem addMsg_spec (hibit : Nat) (h : Limbs) (m : Bytes) (hh : Inv h) (hm : m.length = 16)
    (hhi : hibit = 0 ∨ hibit = 2^40) :
    (addMsg hibit h m).l0 < 2^45 ∧ (addMsg hibit h m).l1 < 3 * 2^44 ∧
    (addMsg hibit h m).l2 < 3 * 2^41 ∧
    V (addMsg hibit h m) = V h + le m + hibit * 2^88 := by
  obtain ⟨h0, h1, h2⟩ := hh
  simp only [addMsg, V]
  have ht0 : le (m.take 8) < 2^64 := le_take8_lt m
  have ht1 : le ((m.drop 8).take 8) < 2^64 := le_take8_lt (m.drop 8)
  have hle := le_split16 m hm
  generalize le (m.take 8) = t0 at *
  generalize le ((m.drop 8).take 8) = t1 at *
  have e0 := lo_limb_M44 t0 t1
  have e1 := mid_limb_M44 t0 t1 ht0
  have e2 := hi_limb_M42 t0 t1 ht0 ht1
  have e3 : (((t1 >>> 24) &&& M42) ||| hibit) = (t0 + 2^64 * t1) / 2^88 + hibit := by
    rw [e2]
    rcases hhi with h | h
    · rw [h]; simp
    · rw [h]; exact or_hibit _ (by omega)
  rw [e0, e1, e3, hle]
  clear e0 e1 e2 e3 hle
  simp only [U64_eq]
  rcases hhi with h | h <;> subst h <;> omega

theorem mul_identity (H0 H1 H2 r0 r1 r2 : Nat) :
    (H0 + 2^44 * H1 + 2^88 * H2) * (r0 + 2^44 * r1 + 2^88 * r2) =
      (H0 * r0 + H1 * (r2 * 20) + H2 * (r1 * 20))
      + 2^44 * (H0 * r1 + H1 * r0 + H2 * (r2 * 20))
      + 2^88 * (H0 * r2 + H1 * r1 + H2 * r0)
      + P * (4 * (H1 * r2 + H2 * r1 + 2^44 * (H2 * r2))) := by
  unfold P; ring

theorem mul_bd {a b A B : Nat} (ha : a ≤ A) (hb : b ≤ B) : a * b ≤ A * B := Nat.mul_le_mul ha hb

theorem mul_spec (r H : Limbs) (hr : RInv r)
    (hH0 : H.l0 < 2^45) (hH1 : H.l1 < 3 * 2^44) (hH2 : H.l2 < 3 * 2^41) :
    D0 r H < 2^96 ∧ D1 r H < 2^96 ∧ D2 r H < 2^96 ∧
    ∃ K, V H * V r = D0 r H + 2^44 * D1 r H + 2^88 * D2 r H + P * K := by
  obtain ⟨hr0, hr1, hr2⟩ := hr
  refine ⟨?_, ?_, ?_, ⟨_, mul_identity H.l0 H.l1 H.l2 r.l0 r.l1 r.l2⟩⟩
  · have a := mul_bd (Nat.le_of_lt hH0) (Nat.le_of_lt hr0)
    have b := mul_bd (Nat.le_of_lt hH1) (show r.l2 * 20 ≤ 2^42 * 20 by omega)
    have c := mul_bd (Nat.le_of_lt hH2) (show r.l1 * 20 ≤ 2^44 * 20 by omega)
    unfold D0; omega
  · have a := mul_bd (Nat.le_of_lt hH0) (Nat.le_of_lt hr1)
    have b := mul_bd (Nat.le_of_lt hH1) (Nat.le_of_lt hr0)
    have c := mul_bd (Nat.le_of_lt hH2) (show r.l2 * 20 ≤ 2^42 * 20 by omega)
    unfold D1; omega
  · have a := mul_bd (Nat.le_of_lt hH0) (Nat.le_of_lt hr2)
    have b := mul_bd (Nat.le_of_lt hH1) (Nat.le_of_lt hr1)
    have c := mul_bd (Nat.le_of_lt hH2) (Nat.le_of_lt hr0)
    unfold D2; omega

theorem reduce_spec (d0 d1 d2 : Nat) (h0 : d0 < 2^96) (h1 : d1 < 2^96) (h2 : d2 < 2^96) :
    Inv (reduce d0 d1 d2) ∧
    V (reduce d0 d1 d2) + P * ((d2 + (d1 + d0 / 2^44) / 2^44) / 2^42)
      = d0 + 2^44 * d1 + 2^88 * d2 := by
  simp only [reduce, Inv, V, P, and_M44, and_M42, Nat.shiftRight_eq_div_pow, U64_eq]
  have A0 : d0 / 2^44 % 18446744073709551616 = d0 / 2^44 := by omega
  have B0 : d0 % 18446744073709551616 % 2^44 = d0 % 2^44 := by omega
  rw [A0, B0]
  have hc0 : d0 / 2^44 < 2^52 := by omega
  have hl0 : d0 % 2^44 < 2^44 := by omega
  have hd0 : d0 = 2^44 * (d0 / 2^44) + d0 % 2^44 := by omega
  generalize d0 / 2^44 = c0 at *
  generalize d0 % 2^44 = l0 at *
  subst hd0
  generalize hd1' : d1 + c0 = d1' at *
  have A1 : d1' / 2^44 % 18446744073709551616 = d1' / 2^44 := by omega
  have B1 : d1' % 18446744073709551616 % 2^44 = d1' % 2^44 := by omega
  rw [A1, B1]
  have hc1 : d1' / 2^44 < 2^53 := by omega
  have hl1 : d1' % 2^44 < 2^44 := by omega
  have hd1'' : d1' = 2^44 * (d1' / 2^44) + d1' % 2^44 := by omega
  generalize d1' / 2^44 = c1 at *
  generalize d1' % 2^44 = l1 at *
  generalize hd2' : d2 + c1 = d2' at *
  have A2 : d2' / 2^42 % 18446744073709551616 = d2' / 2^42 := by omega
  have B2 : d2' % 18446744073709551616 % 2^42 = d2' % 2^42 := by omega
  rw [A2, B2]
  have hc2 : d2' / 2^42 < 2^55 := by omega
  have hl2 : d2' % 2^42 < 2^42 := by omega
  have hd2'' : d2' = 2^42 * (d2' / 2^42) + d2' % 2^42 := by omega
  generalize d2' / 2^42 = c2 at *
  generalize d2' % 2^42 = l2 at *
  have e : 2^44 * c0 + l0 + 2^44 * d1 + 2^88 * d2 = l0 + 2^44 * l1 + 2^88 * l2 + 2^130 * c2 := by
    omega
  rw [e]
  omega

/-- One block: the invariant is preserved and the value is multiplied by `r` mod `p`. -/
theorem blockStep_spec (r h : Limbs) (hibit : Nat) (m : Bytes) (hr : RInv r) (hh : Inv h)
    (hm : m.length = 16) (hhi : hibit = 0 ∨ hibit = 2^40) :
    Inv (blockStep r hibit h m) ∧
    ∃ K, V (blockStep r hibit h m) + P * K = (V h + le m + hibit * 2^88) * V r := by
  obtain ⟨a0, a1, a2, aV⟩ := addMsg_spec hibit h m hh hm hhi
  obtain ⟨b0, b1, b2, K, bV⟩ := mul_spec r _ hr a0 a1 a2
  obtain ⟨c0, cV⟩ := reduce_spec _ _ _ b0 b1 b2
  rw [blockStep_eq]
  generalize (D2 r (addMsg hibit h m) + (D1 r (addMsg hibit h m) +
    D0 r (addMsg hibit h m) / 2^44) / 2^44) / 2^42 = Q at cV
  refine ⟨c0, Q + K, ?_⟩
  rw [← aV, bV, ← cV, Nat.mul_add, Nat.add_assoc]

end DryocVerif.Proofs.Poly1305
