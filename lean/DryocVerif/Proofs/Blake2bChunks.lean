import DryocVerif.Model.Blake2b
import DryocVerif.Proofs.Poly1305Bits
/-
BLAKE2b buffering (`update` / `finalize` / keyed `init`) for an ARBITRARY compression
function `C`: the state after any sequence of `update`s depends only on the concatenation
of the inputs (`updateC_stateAfter`), the buffer never exceeds one block (`buf_le_128`), and
`finalize` computes the abstract absorb semantics `absorbSpec` (`finalizeC_stateAfter`).
Core only.
-/
namespace DryocVerif.Proofs.Blake2b
open DryocVerif
open DryocVerif.Model.Blake2b
open DryocVerif.Model.Utils (slice)
open DryocVerif.Proofs.Poly1305 (chunks_nil chunks_single chunks_append chunks_cons_block)

/-! ### `chunksExact` -/

theorem chunksExactAux_short (n f : Nat) (bs : Bytes) (h : bs.length < n) :
    chunksExactAux n f bs = [] := by
  cases f <;> simp [chunksExactAux, h]

theorem chunksExactAux_fuel (n : Nat) (hn : 0 < n) :
    ∀ (f f' : Nat) (bs : Bytes), bs.length ≤ f → bs.length ≤ f' →
      chunksExactAux n f bs = chunksExactAux n f' bs := by
  intro f
  induction f with
  | zero =>
    intro f' bs h _
    have : bs.length < n := by omega
    rw [chunksExactAux_short n _ bs this, chunksExactAux_short n _ bs this]
  | succ f ih =>
    intro f' bs h h'
    by_cases hs : bs.length < n
    · rw [chunksExactAux_short n _ bs hs, chunksExactAux_short n _ bs hs]
    · cases f' with
      | zero => omega
      | succ f' =>
        simp only [chunksExactAux, hs, if_false]
        congr 1
        apply ih
        · simp only [List.length_drop]; omega
        · simp only [List.length_drop]; omega

theorem chunksExact_short (n : Nat) (bs : Bytes) (h : bs.length < n) : chunksExact n bs = [] :=
  chunksExactAux_short n _ bs h

theorem chunksExact_nil (n : Nat) (hn : 0 < n) : chunksExact n [] = [] :=
  chunksExact_short n [] (by simpa using hn)

theorem chunksExact_cons_block (n : Nat) (hn : 0 < n) (a b : Bytes) (ha : a.length = n) :
    chunksExact n (a ++ b) = a :: chunksExact n b := by
  unfold chunksExact
  have hl : (a ++ b).length = (b.length + (n - 1)) + 1 := by
    rw [List.length_append]; omega
  rw [hl]
  have hs : ¬ (a ++ b).length < n := by rw [List.length_append]; omega
  simp only [chunksExactAux, hs, if_false]
  rw [List.take_left' ha, List.drop_left' ha]
  congr 1
  apply chunksExactAux_fuel n hn <;> omega

theorem chunksExact_block (n : Nat) (hn : 0 < n) (a : Bytes) (ha : a.length = n) :
    chunksExact n a = [a] := by
  have := chunksExact_cons_block n hn a [] ha
  rwa [List.append_nil, chunksExact_nil n hn] at this

/-- on a whole number of blocks: `chunks_exact` distributes over `++`, agrees with `chunks`,
and all pieces are full blocks -/
theorem chunksExact_blocks (n : Nat) (hn : 0 < n) :
    ∀ (k : Nat) (P : Bytes), P.length = n * k →
      (∀ Q, chunksExact n (P ++ Q) = chunksExact n P ++ chunksExact n Q)
      ∧ chunksExact n P = chunks n P
      ∧ (∀ b ∈ chunksExact n P, b.length = n) := by
  intro k
  induction k with
  | zero =>
    intro P hP
    have : P = [] := List.eq_nil_of_length_eq_zero (by simpa using hP)
    subst this
    simp [chunksExact_nil n hn, chunks_nil]
  | succ k ih =>
    intro P hP
    have hlen : n ≤ P.length := by rw [hP, Nat.mul_succ]; omega
    have htake : (P.take n).length = n := by simp; omega
    have hdrop : (P.drop n).length = n * k := by
      simp only [List.length_drop, hP, Nat.mul_succ]; omega
    have hsplit : P = P.take n ++ P.drop n := (List.take_append_drop n P).symm
    obtain ⟨ih1, ih2, ih3⟩ := ih (P.drop n) hdrop
    have hP' : chunksExact n P = P.take n :: chunksExact n (P.drop n) := by
      conv => lhs; rw [hsplit]
      exact chunksExact_cons_block n hn _ _ htake
    refine ⟨?_, ?_, ?_⟩
    · intro Q
      have : P ++ Q = P.take n ++ (P.drop n ++ Q) := by
        rw [← List.append_assoc, List.take_append_drop]
      rw [this, chunksExact_cons_block n hn _ _ htake, ih1 Q, hP', List.cons_append]
    · rw [hP', ih2]
      conv => rhs; rw [hsplit]
      exact (chunks_cons_block n hn _ _ htake).symm
    · intro b hb
      rw [hP'] at hb
      rcases List.mem_cons.mp hb with h | h
      · rw [h]; exact htake
      · exact ih3 b h

theorem len_eq_mul (n : Nat) (P : Bytes) (hP : P.length % n = 0) : P.length = n * (P.length / n) := by
  have := Nat.mod_add_div P.length n; omega

theorem chunksExact_append (n : Nat) (hn : 0 < n) (P Q : Bytes) (hP : P.length % n = 0) :
    chunksExact n (P ++ Q) = chunksExact n P ++ chunksExact n Q :=
  (chunksExact_blocks n hn _ P (len_eq_mul n P hP)).1 Q

theorem chunksExact_eq_chunks (n : Nat) (hn : 0 < n) (P : Bytes) (hP : P.length % n = 0) :
    chunksExact n P = chunks n P :=
  (chunksExact_blocks n hn _ P (len_eq_mul n P hP)).2.1

theorem chunksExact_all_len (n : Nat) (hn : 0 < n) (P : Bytes) (hP : P.length % n = 0) :
    ∀ b ∈ chunksExact n P, b.length = n :=
  (chunksExact_blocks n hn _ P (len_eq_mul n P hP)).2.2

theorem chunksExact_length (n : Nat) (hn : 0 < n) :
    ∀ (k : Nat) (P : Bytes), P.length = n * k → (chunksExact n P).length = k := by
  intro k
  induction k with
  | zero =>
    intro P hP
    have : P = [] := List.eq_nil_of_length_eq_zero (by simpa using hP)
    subst this
    simp [chunksExact_nil n hn]
  | succ k ih =>
    intro P hP
    have hlen : n ≤ P.length := by rw [hP, Nat.mul_succ]; omega
    have htake : (P.take n).length = n := by simp; omega
    have hdrop : (P.drop n).length = n * k := by
      simp only [List.length_drop, hP, Nat.mul_succ]; omega
    have hsplit : P = P.take n ++ P.drop n := (List.take_append_drop n P).symm
    rw [hsplit, chunksExact_cons_block n hn _ _ htake, List.length_cons, ih _ hdrop]

/-! ### `slice` -/

theorem slice_zero (bs : Bytes) (b : Nat) : slice bs 0 b = bs.take b := rfl

theorem slice_to_end (bs : Bytes) (a : Nat) : slice bs a bs.length = bs.drop a := by
  unfold slice; rw [List.take_length]

theorem length_slice (bs : Bytes) (a b : Nat) (hb : b ≤ bs.length) : (slice bs a b).length = b - a := by
  unfold slice; simp only [List.length_drop, List.length_take]; omega

/-- `I = I[..a] ‖ I[a..b] ‖ I[b..]` -/
theorem slice_split (I : Bytes) (a b : Nat) (hab : a ≤ b) :
    I = I.take a ++ slice I a b ++ slice I b I.length := by
  rw [slice_to_end]
  unfold slice
  have h1 : I.take a = (I.take b).take a := by
    rw [List.take_take, Nat.min_eq_left hab]
  rw [h1, List.take_append_drop, List.take_append_drop]

/-! ### the canonical state after absorbing `D` -/

/-- number of bytes already compressed once `n` bytes have been absorbed: everything
except the held-back tail of `1 … 128` bytes (`0` bytes when nothing was absorbed) -/
def consumed (n : Nat) : Nat := 128 * ((n - 1) / 128)

/-- length of the held-back tail -/
def held (n : Nat) : Nat := n - consumed n

theorem consumed_le (n : Nat) : consumed n ≤ n := by unfold consumed; omega
theorem consumed_mod (n : Nat) : consumed n % 128 = 0 := by unfold consumed; omega
theorem held_le (n : Nat) : held n ≤ 128 := by unfold held consumed; omega
theorem held_pos (n : Nat) (h : 0 < n) : 1 ≤ held n := by unfold held consumed; omega
theorem held_zero : held 0 = 0 := by decide
theorem held_eq_128_iff (n : Nat) : held n = 128 ↔ (0 < n ∧ n % 128 = 0) := by
  unfold held consumed; omega
theorem held_eq_mod (n : Nat) (h : n % 128 ≠ 0) : held n = n % 128 := by
  unfold held consumed; omega

/-- `{ s with buf := X }` -/
def setBuf (s : State) (X : Bytes) : State := { s with buf := X }

theorem setBuf_setBuf (s : State) (X Y : Bytes) : setBuf (setBuf s X) Y = setBuf s Y := rfl
theorem setBuf_buf (s : State) (X : Bytes) : (setBuf s X).buf = X := rfl
theorem setBuf_self (s : State) : setBuf s s.buf = s := rfl

/-- the state after absorbing the data `D` (all chunks so far, concatenated) into `s0`
(a state with an empty buffer): `buf` is the held-back tail of `D`, `h`/`t` are the fold of
the block step over the consumed prefix.  Depends on `D` only. -/
def stateAfter (C : Compress) (s0 : State) (D : Bytes) : State :=
  setBuf ((chunksExact 128 (D.take (consumed D.length))).foldl (stepC C) s0)
    (D.drop (consumed D.length))

theorem foldl_stepC_buf (C : Compress) (X : Bytes) (cs : List Bytes) :
    ∀ s : State, cs.foldl (stepC C) (setBuf s X) = setBuf (cs.foldl (stepC C) s) X := by
  induction cs with
  | nil => intro s; rfl
  | cons c cs ih =>
    intro s
    simp only [List.foldl_cons]
    have : stepC C (setBuf s X) c = setBuf (stepC C s c) X := rfl
    rw [this, ih]

theorem foldl_stepC_fields (C : Compress) (cs : List Bytes) :
    ∀ s : State, (cs.foldl (stepC C) s).f0 = s.f0 ∧ (cs.foldl (stepC C) s).f1 = s.f1
      ∧ (cs.foldl (stepC C) s).lastNode = s.lastNode ∧ (cs.foldl (stepC C) s).buf = s.buf := by
  induction cs with
  | nil => intro s; exact ⟨rfl, rfl, rfl, rfl⟩
  | cons c cs ih =>
    intro s
    simp only [List.foldl_cons]
    obtain ⟨h1, h2, h3, h4⟩ := ih (stepC C s c)
    exact ⟨h1, h2, h3, h4⟩

/-- `stateAfter` of data presented as (whole blocks `P`) ‖ (tail `B`) -/
theorem stateAfter_split (C : Compress) (s0 : State) (P B : Bytes)
    (hP : P.length % 128 = 0) (hB : B.length ≤ 128) (hB0 : B.length = 0 → P.length = 0) :
    stateAfter C s0 (P ++ B) = setBuf ((chunksExact 128 P).foldl (stepC C) s0) B := by
  have hc : consumed (P ++ B).length = P.length := by
    rw [List.length_append]; unfold consumed; omega
  unfold stateAfter
  rw [hc, List.take_left' rfl, List.drop_left' rfl]

theorem stateAfter_nil (C : Compress) (s0 : State) (h0 : s0.buf = []) : stateAfter C s0 [] = s0 := by
  have := stateAfter_split C s0 [] [] (by simp) (by simp) (by simp)
  rw [List.append_nil] at this
  rw [this, chunksExact_nil 128 (by omega), List.foldl_nil, ← h0, setBuf_self]

theorem stateAfter_buf_length (C : Compress) (s0 : State) (D : Bytes) :
    (stateAfter C s0 D).buf.length = held D.length := by
  have := consumed_le D.length
  simp only [stateAfter, setBuf_buf, List.length_drop, held]

/-! ### `update` -/

theorem updateC_empty (C : Compress) (st : State) (I : Bytes) (h0 : I.length = 0) :
    updateC C st I = st := by
  unfold updateC; rw [if_pos h0]

theorem updateC_fit (C : Compress) (st : State) (I : Bytes) (h0 : I.length ≠ 0)
    (h1 : I.length + st.buf.length ≤ 128) : updateC C st I = setBuf st (st.buf ++ I) := by
  unfold updateC
  have h1' : I.length + st.buf.length ≤ BLOCKBYTES := h1
  rw [if_neg h0, if_pos h1']
  rfl

theorem updateC_big (C : Compress) (st : State) (I : Bytes) (start e : Nat)
    (h0 : I.length ≠ 0) (h1 : ¬ I.length + st.buf.length ≤ 128)
    (hstart : (if st.buf.length ≠ 0 ∧ st.buf.length < 128 then 128 - st.buf.length else 0) = start)
    (hend : (if I.length - start > 128 ∧ (I.length - start) % 128 = 0 then I.length - 128
      else if I.length - start > 128 then I.length - (I.length - start) % 128 else start) = e) :
    updateC C st I =
      setBuf ((chunksExact 128 (slice I start e)).foldl (stepC C)
          ((chunksExact 128 (st.buf ++ I.take start)).foldl (stepC C) st))
        (slice I e I.length) := by
  have hb : (if st.buf.length ≠ 0 ∧ st.buf.length < 128 then st.buf ++ slice I 0 start else st.buf)
      = st.buf ++ I.take start := by
    by_cases hc : st.buf.length ≠ 0 ∧ st.buf.length < 128
    · rw [if_pos hc]; rfl
    · rw [if_neg hc]
      rw [if_neg hc] at hstart
      rw [← hstart, List.take_zero, List.append_nil]
  rw [← hb]
  subst hend; subst hstart
  unfold updateC
  have h1' : ¬ I.length + st.buf.length ≤ BLOCKBYTES := h1
  rw [if_neg h0, if_neg h1']
  rfl

/-- **The `update` invariant.**  Absorbing `I` into the canonical state for `D` gives the
canonical state for `D ++ I` — whatever the fill level of the buffer (empty / partly full /
exactly full) and the length of `I` (empty, shorter than, equal to, longer than, or a
multiple of a block).  Holds for every compression function. -/
theorem updateC_stateAfter (C : Compress) (s0 : State) (D I : Bytes) :
    updateC C (stateAfter C s0 D) I = stateAfter C s0 (D ++ I) := by
  -- name the pieces of `D`
  have hcl := consumed_le D.length
  have hcm := consumed_mod D.length
  have hD : D = D.take (consumed D.length) ++ D.drop (consumed D.length) :=
    (List.take_append_drop _ _).symm
  generalize hPdef : D.take (consumed D.length) = P at hD
  generalize hBdef : D.drop (consumed D.length) = B at hD
  have hPl : P.length = consumed D.length := by rw [← hPdef, List.length_take]; omega
  have hBl : B.length = D.length - consumed D.length := by rw [← hBdef, List.length_drop]
  have hB128 : B.length ≤ 128 := by rw [hBl]; exact held_le _
  have hB0 : B.length = 0 → P.length = 0 := by
    rw [hBl, hPl]; unfold consumed; omega
  have hPm : P.length % 128 = 0 := by rw [hPl]; exact hcm
  have hst : stateAfter C s0 D = setBuf ((chunksExact 128 P).foldl (stepC C) s0) B := by
    unfold stateAfter; rw [hPdef, hBdef]
  rw [hst]
  by_cases hI0 : I.length = 0
  · -- empty input
    rw [updateC_empty C _ I hI0]
    have : I = [] := List.eq_nil_of_length_eq_zero hI0
    subst this
    rw [List.append_nil, hst]
  by_cases hfit : I.length + B.length ≤ 128
  · -- input fits into the buffer
    rw [updateC_fit C _ I hI0 hfit, setBuf_buf, setBuf_setBuf]
    rw [hD, List.append_assoc,
      stateAfter_split C s0 P (B ++ I) hPm (by rw [List.length_append]; omega)
        (by rw [List.length_append]; omega)]
  -- at least one block gets compressed
  generalize hstart : (if B.length ≠ 0 ∧ B.length < 128 then 128 - B.length else 0) = start
  generalize hend : (if I.length - start > 128 ∧ (I.length - start) % 128 = 0 then I.length - 128
      else if I.length - start > 128 then I.length - (I.length - start) % 128 else start) = e
  rw [updateC_big C _ I start e hI0 hfit hstart hend]
  simp only [setBuf_buf]
  -- arithmetic facts about `start` and `end`
  have hs1 : start ≤ I.length := by
    by_cases hc : B.length ≠ 0 ∧ B.length < 128
    · rw [if_pos hc] at hstart; omega
    · rw [if_neg hc] at hstart; omega
  have hs2 : (B.length + start) % 128 = 0 := by
    by_cases hc : B.length ≠ 0 ∧ B.length < 128
    · rw [if_pos hc] at hstart; omega
    · rw [if_neg hc] at hstart; omega
  have hs3 : B.length + start = 0 → P.length = 0 := by omega
  have hs4 : start < I.length := by
    by_cases hc : B.length ≠ 0 ∧ B.length < 128
    · rw [if_pos hc] at hstart; omega
    · rw [if_neg hc] at hstart; omega
  have he1 : start ≤ e ∧ e < I.length ∧ I.length - e ≤ 128 ∧ (e - start) % 128 = 0 := by
    by_cases hc1 : I.length - start > 128 ∧ (I.length - start) % 128 = 0
    · rw [if_pos hc1] at hend; omega
    · rw [if_neg hc1] at hend
      by_cases hc2 : I.length - start > 128
      · rw [if_pos hc2] at hend; omega
      · rw [if_neg hc2] at hend; omega
  obtain ⟨he1, he2, he3, he4⟩ := he1
  -- the new consumed prefix
  have hsl : (slice I start e).length = e - start := length_slice I start e (by omega)
  have htl : (I.take start).length = start := by rw [List.length_take]; omega
  have hb1m : (B ++ I.take start).length % 128 = 0 := by
    rw [List.length_append, htl]; exact hs2
  have hsplitI := slice_split I start e he1
  have hDI : D ++ I = (P ++ (B ++ I.take start) ++ slice I start e) ++ slice I e I.length := by
    conv => lhs; rw [hD, hsplitI]
    simp only [List.append_assoc]
  have hP'm : (P ++ (B ++ I.take start) ++ slice I start e).length % 128 = 0 := by
    rw [List.length_append, List.length_append, hsl]; omega
  have htail : (slice I e I.length).length = I.length - e := length_slice I e I.length (Nat.le_refl _)
  rw [hDI, stateAfter_split C s0 _ _ hP'm (by rw [htail]; exact he3) (by rw [htail]; omega)]
  have hPb1m : (P ++ (B ++ I.take start)).length % 128 = 0 := by
    rw [List.length_append]; omega
  rw [chunksExact_append 128 (by omega) (P ++ (B ++ I.take start)) (slice I start e) hPb1m,
    chunksExact_append 128 (by omega) P (B ++ I.take start) hPm, List.foldl_append, List.foldl_append]
  rw [foldl_stepC_buf, foldl_stepC_buf, setBuf_setBuf]

/-- any sequence of `update`s = the canonical state of the concatenation -/
theorem foldl_updateC_stateAfter (C : Compress) (s0 : State) (cs : List Bytes) :
    ∀ D : Bytes, cs.foldl (updateC C) (stateAfter C s0 D) = stateAfter C s0 (D ++ cs.flatten) := by
  induction cs with
  | nil => intro D; simp
  | cons c cs ih =>
    intro D
    rw [List.foldl_cons, updateC_stateAfter, ih, List.flatten_cons, List.append_assoc]

/-! ### abstract absorb semantics -/

/-- absorb a non-empty block list: every block but the last is compressed with
`t += 128`, `f0 = 0`; the last one, zero padded to 128 bytes, with `t +=` its length and
`f0 = 0xffff…` -/
def absorbBlocks (C : Compress) (h : Array UInt64) (t0 t1 f1 : UInt64) : List Bytes → Array UInt64
  | [] => h
  | [b] =>
    let t := incrementCounter t0 t1 b.length
    C h t.1 t.2 allOnes f1 (b ++ zeros (128 - b.length))
  | b :: b' :: rest =>
    let t := incrementCounter t0 t1 128
    absorbBlocks C (C h t.1 t.2 0 f1 b) t.1 t.2 f1 (b' :: rest)

/-- the message cut into 128-byte blocks: the last block may be partial; the empty message
is one empty block; an exact multiple of 128 keeps its last full block as the final block -/
def blocks (data : Bytes) : List Bytes := if data.isEmpty then [[]] else chunks 128 data

/-- **abstract absorb semantics** of BLAKE2b over a compression function `C`, starting from
chaining value `h` and counter `(t0, t1)` -/
def absorbSpec (C : Compress) (h : Array UInt64) (t0 t1 : UInt64) (data : Bytes) : Array UInt64 :=
  absorbBlocks C h t0 t1 0 (blocks data)

theorem blocks_split (P B : Bytes) (hP : P.length % 128 = 0) (hB : B.length ≤ 128)
    (hB0 : B.length = 0 → P.length = 0) : blocks (P ++ B) = chunksExact 128 P ++ [B] := by
  unfold blocks
  by_cases hB' : B.length = 0
  · have hB'' : B = [] := List.eq_nil_of_length_eq_zero hB'
    have hP'' : P = [] := List.eq_nil_of_length_eq_zero (hB0 hB')
    subst hB''; subst hP''
    simp [chunksExact_nil]
  · have hne : (P ++ B).isEmpty = false := by
      cases B with
      | nil => simp at hB'
      | cons b B => cases P <;> simp
    rw [hne]
    simp only [Bool.false_eq_true, if_false]
    rw [chunks_append 128 (by omega) P B hP, chunks_single 128 B (by omega) hB,
      chunksExact_eq_chunks 128 (by omega) P hP]

theorem absorbBlocks_snoc (C : Compress) (f1 : UInt64) (B : Bytes) (xs : List Bytes) :
    ∀ (s : State), (∀ x ∈ xs, x.length = 128) → s.f0 = 0 → s.f1 = f1 →
      absorbBlocks C s.h s.t0 s.t1 f1 (xs ++ [B]) =
        (let s' := xs.foldl (stepC C) s
         let t := incrementCounter s'.t0 s'.t1 B.length
         C s'.h t.1 t.2 allOnes f1 (B ++ zeros (128 - B.length))) := by
  induction xs with
  | nil => intro s _ _ _; rfl
  | cons x xs ih =>
    intro s hx hf0 hf1
    have hxs : ∀ y ∈ xs, y.length = 128 := fun y hy => hx y (List.mem_cons_of_mem _ hy)
    have step : absorbBlocks C s.h s.t0 s.t1 f1 (x :: xs ++ [B]) =
        absorbBlocks C (stepC C s x).h (stepC C s x).t0 (stepC C s x).t1 f1 (xs ++ [B]) := by
      cases xs with
      | nil => simp only [List.cons_append, List.nil_append, absorbBlocks, stepC, BLOCKBYTES, hf0, hf1]
      | cons y ys => simp only [List.cons_append, absorbBlocks, stepC, BLOCKBYTES, hf0, hf1]
    rw [step, ih (stepC C s x) hxs (by simpa [stepC] using hf0) (by simpa [stepC] using hf1)]
    rfl

theorem resize_short (B : Bytes) (n : Nat) (h : B.length ≤ n) : resize B n = B ++ zeros (n - B.length) := by
  unfold resize; rw [List.take_of_length_le h]

/-- **`finalize` = abstract absorb.**  From the canonical state for `D`, `finalize` returns
the first `outLen` bytes of the serialised `absorbSpec` of `D`. -/
theorem finalizeC_stateAfter (C : Compress) (s0 : State) (D : Bytes) (outLen : Nat)
    (hf0 : s0.f0 = 0) (hf1 : s0.f1 = 0) (hln : s0.lastNode = 0)
    (ho : 1 ≤ outLen ∧ outLen ≤ 64) :
    finalizeC C (stateAfter C s0 D) outLen =
      .ok ((stateBytes (absorbSpec C s0.h s0.t0 s0.t1 D)).take outLen) := by
  have hcl := consumed_le D.length
  have hcm := consumed_mod D.length
  have hD : D = D.take (consumed D.length) ++ D.drop (consumed D.length) :=
    (List.take_append_drop _ _).symm
  generalize hPdef : D.take (consumed D.length) = P at hD
  generalize hBdef : D.drop (consumed D.length) = B at hD
  have hPl : P.length = consumed D.length := by rw [← hPdef, List.length_take]; omega
  have hBl : B.length = D.length - consumed D.length := by rw [← hBdef, List.length_drop]
  have hB128 : B.length ≤ 128 := by rw [hBl]; exact held_le _
  have hB0 : B.length = 0 → P.length = 0 := by
    rw [hBl, hPl]; unfold consumed; omega
  have hPm : P.length % 128 = 0 := by rw [hPl]; exact hcm
  have hst : stateAfter C s0 D = setBuf ((chunksExact 128 P).foldl (stepC C) s0) B := by
    unfold stateAfter; rw [hPdef, hBdef]
  obtain ⟨g0, g1, g2, _⟩ := foldl_stepC_fields C (chunksExact 128 P) s0
  rw [hst]
  unfold absorbSpec
  rw [hD, blocks_split P B hPm hB128 hB0,
    absorbBlocks_snoc C 0 B (chunksExact 128 P) s0 (chunksExact_all_len 128 (by omega) P hPm) hf0 hf1]
  generalize (chunksExact 128 P).foldl (stepC C) s0 = s at g0 g1 g2
  rw [hf0] at g0; rw [hf1] at g1; rw [hln] at g2
  unfold finalizeC
  have h1 : ¬ (outLen = 0 ∨ outLen > OUTBYTES) := by simp only [OUTBYTES]; omega
  rw [if_neg h1]
  have h2 : isLastblock (setBuf s B) = false := by simp [isLastblock, setBuf, g0]
  rw [h2]
  simp only [Bool.false_eq_true, if_false]
  have h3 : ¬ ((setBuf s B).buf.length > BLOCKBYTES) := by simp only [setBuf_buf, BLOCKBYTES]; omega
  rw [if_neg h3]
  simp only [setBuf, setLastblock, g2, bne_self_eq_false, Bool.false_eq_true, if_false, BLOCKBYTES,
    resize_short B 128 hB128, slice_zero, g1]

/-! ### `init`, reachable states, the chunking law -/

/-- the 128-byte key block absorbed by a keyed `init` -/
def keyBlock : Option Bytes → Bytes
  | some key => key ++ zeros (128 - key.length)
  | none => []

/-- `key.len() as u8`, `0` for `None` -/
def keyLength : Option Bytes → Nat
  | some key => key.length % 256
  | none => 0

/-- `*salt` for `Some(salt)`, `[0u8; n]` for `None` -/
def orZeros (o : Option Bytes) (n : Nat) : Bytes :=
  match o with
  | some s => s
  | none => zeros n

/-- the state built by `init_param` inside `init` -/
def initS0 (outlen : Nat) (key salt personal : Option Bytes) : State :=
  initParam (paramBytes (UInt8.ofNat outlen) (UInt8.ofNat (keyLength key))
    (orZeros salt SALTBYTES) (orZeros personal PERSONALBYTES))

theorem initParam_fields (p : Bytes) :
    (initParam p).buf = [] ∧ (initParam p).f0 = 0 ∧ (initParam p).f1 = 0
    ∧ (initParam p).lastNode = 0 ∧ (initParam p).t0 = 0 ∧ (initParam p).t1 = 0 :=
  ⟨rfl, rfl, rfl, rfl, rfl, rfl⟩

theorem initS0_fields (outlen : Nat) (key salt personal : Option Bytes) :
    (initS0 outlen key salt personal).buf = [] ∧ (initS0 outlen key salt personal).f0 = 0
    ∧ (initS0 outlen key salt personal).f1 = 0 ∧ (initS0 outlen key salt personal).lastNode = 0
    ∧ (initS0 outlen key salt personal).t0 = 0 ∧ (initS0 outlen key salt personal).t1 = 0 := by
  unfold initS0; exact initParam_fields _

/-- `init` either fails (independently of anything absorbed later) or returns the canonical
state for the key block -/
theorem initC_cases (C : Compress) (outlen : Nat) (key salt personal : Option Bytes) :
    initC C outlen key salt personal = .err ∨ initC C outlen key salt personal = .panic ∨
    initC C outlen key salt personal =
      .ok (stateAfter C (initS0 outlen key salt personal) (keyBlock key)) := by
  unfold initC
  by_cases h1 : outlen = 0 ∨ outlen > OUTBYTES
  · left; rw [if_pos h1]
  rw [if_neg h1]
  cases key with
  | none =>
    right; right
    simp only [Nat.not_lt_zero, if_false, keyBlock]
    rw [stateAfter_nil C _ (initS0_fields _ _ _ _).1]
    rfl
  | some key =>
    simp only
    by_cases h2 : key.length % 256 > KEYBYTES
    · left; rw [if_pos h2]
    rw [if_neg h2]
    by_cases h3 : key.length > BLOCKBYTES
    · right; left; rw [if_pos h3]
    right; right
    rw [if_neg h3]
    have := updateC_stateAfter C (initS0 outlen (some key) salt personal) []
      (key ++ zeros (BLOCKBYTES - key.length))
    rw [stateAfter_nil C _ (initS0_fields _ _ _ _).1, List.nil_append] at this
    exact congrArg Outcome.ok this

/-- states reachable through the API: `init`, then any number of `update`s -/
inductive Reachable (C : Compress) : State → Prop where
  | init (outlen : Nat) (key salt personal : Option Bytes) (st : State) :
      initC C outlen key salt personal = .ok st → Reachable C st
  | update (st : State) (input : Bytes) : Reachable C st → Reachable C (updateC C st input)

/-- every reachable state is the canonical state of (key block ‖ everything absorbed) -/
theorem reachable_stateAfter (C : Compress) (st : State) (h : Reachable C st) :
    ∃ (p D : Bytes), st = stateAfter C (initParam p) D := by
  induction h with
  | init outlen key salt personal st hi =>
    rcases initC_cases C outlen key salt personal with h | h | h
    · rw [h] at hi; cases hi
    · rw [h] at hi; cases hi
    · rw [h] at hi
      injection hi with hi
      exact ⟨_, keyBlock key, hi.symm⟩
  | update st input _ ih =>
    obtain ⟨p, D, hD⟩ := ih
    exact ⟨p, D ++ input, by rw [hD, updateC_stateAfter]⟩

/-- **`buf_le_128`**: the buffer of a reachable state never exceeds one block, so the
`self.buf.len() > BLOCKBYTES` branch of `finalize` is dead code -/
theorem buf_le_128 (C : Compress) (st : State) (h : Reachable C st) : st.buf.length ≤ 128 := by
  obtain ⟨p, D, hD⟩ := reachable_stateAfter C st h
  rw [hD, stateAfter_buf_length]
  exact held_le _

theorem finalize_long_branch_unreachable (C : Compress) (st : State) (h : Reachable C st) :
    ¬ (st.buf.length > BLOCKBYTES) := by
  have := buf_le_128 C st h
  simp only [BLOCKBYTES]; omega

/-- reachable states never have the last-block flag set (`finalize` consumes the state), and
`last_node` is never set -/
theorem reachable_flags (C : Compress) (st : State) (h : Reachable C st) :
    st.f0 = 0 ∧ st.f1 = 0 ∧ st.lastNode = 0 := by
  obtain ⟨p, D, hD⟩ := reachable_stateAfter C st h
  obtain ⟨g0, g1, g2, _⟩ := foldl_stepC_fields C (chunksExact 128 (D.take (consumed D.length))) (initParam p)
  rw [hD]
  exact ⟨g0, g1, g2⟩

/-- **Chunking law (state level)**: the state after `init` and the updates `c₁ … cₙ` depends
only on `c₁ ++ … ++ cₙ` -/
theorem foldl_updateC_eq (C : Compress) (st : State) (h : Reachable C st) (cs : List Bytes) :
    cs.foldl (updateC C) st = updateC C st cs.flatten := by
  obtain ⟨p, D, hD⟩ := reachable_stateAfter C st h
  rw [hD, foldl_updateC_stateAfter, updateC_stateAfter]

/-- **Chunking law**, for every compression function, every chunk list (empty chunks
allowed), every key / salt / personalisation option and every output length (including the
ones for which `init` or `finalize` fail): hashing the chunks one `update` at a time equals
hashing their concatenation with a single `update`. -/
theorem hashChunksC_eq (C : Compress) (outLen : Nat) (key salt personal : Option Bytes)
    (cs : List Bytes) :
    hashChunksC C outLen key salt personal cs
      = hashChunksC C outLen key salt personal [cs.flatten] := by
  unfold hashChunksC
  by_cases h1 : outLen > OUTBYTES
  · rw [if_pos h1, if_pos h1]
  rw [if_neg h1, if_neg h1]
  rcases initC_cases C (outLen % 256) key salt personal with h | h | h
  · rw [h]
  · rw [h]
  · rw [h]
    simp only
    rw [foldl_updateC_stateAfter, foldl_updateC_stateAfter]
    simp

/-- the digest is the abstract absorb semantics of (key block ‖ concatenated chunks) -/
theorem hashChunksC_eq_absorbSpec (C : Compress) (outLen : Nat) (key salt personal : Option Bytes)
    (cs : List Bytes) (st : State) (ho : 1 ≤ outLen ∧ outLen ≤ 64)
    (hinit : initC C (outLen % 256) key salt personal = .ok st) :
    hashChunksC C outLen key salt personal cs =
      .ok ((stateBytes (absorbSpec C (initS0 (outLen % 256) key salt personal).h 0 0
        (keyBlock key ++ cs.flatten))).take outLen) := by
  unfold hashChunksC
  have h1 : ¬ outLen > OUTBYTES := by simp only [OUTBYTES]; omega
  rw [if_neg h1]
  rcases initC_cases C (outLen % 256) key salt personal with h | h | h
  · rw [h] at hinit; cases hinit
  · rw [h] at hinit; cases hinit
  · rw [h]
    simp only
    rw [foldl_updateC_stateAfter]
    obtain ⟨_, f0, f1, ln, t0, t1⟩ := initS0_fields (outLen % 256) key salt personal
    rw [finalizeC_stateAfter C (initS0 (outLen % 256) key salt personal)
      (keyBlock key ++ cs.flatten) outLen f0 f1 ln ho, t0, t1]

end DryocVerif.Proofs.Blake2b
