import DryocVerif.Model.OnetimeAuth
/-
`subtle`'s `ConstantTimeEq for [u8]` as modelled in `Model.OnetimeAuth.ctEq` decides byte-string equality.
Core only (no Mathlib): split out of `Proofs/OnetimeAuth.lean` so that `Proofs/Core.lean` (HMAC verification,
which takes its decision through the same `ct_eq`) can use it without importing the Poly1305 proofs.
The lemmas keep their namespace `DryocVerif.Proofs.OnetimeAuth`.
-/
namespace DryocVerif.Proofs.OnetimeAuth
open DryocVerif
open DryocVerif.Model.OnetimeAuth

/-! ### `subtle`'s constant-time comparison decides equality -/

theorem ctEqU8_aux : ∀ n, n < 256 →
    (((UInt8.ofNat n ||| (0 - UInt8.ofNat n)) >>> 7) ^^^ 1) = if UInt8.ofNat n = 0 then 1 else 0 := by
  decide +kernel

theorem ctEqU8_zero (x : UInt8) : (((x ||| (0 - x)) >>> 7) ^^^ 1) = if x = 0 then 1 else 0 := by
  have h := ctEqU8_aux x.toNat x.toNat_lt
  rw [UInt8.ofNat_toNat] at h
  exact h

theorem ctEqU8_eq (a b : UInt8) : ctEqU8 a b = if a = b then 1 else 0 := by
  show ((((a ^^^ b) ||| (0 - (a ^^^ b))) >>> 7) ^^^ 1) = _
  rw [ctEqU8_zero]
  simp only [UInt8.xor_eq_zero_iff]

theorem foldl_ct (l : List (UInt8 × UInt8)) : ∀ (x : UInt8), (x = 0 ∨ x = 1) →
    l.foldl (fun x p => x &&& ctEqU8 p.1 p.2) x = if x = 1 ∧ ∀ p ∈ l, p.1 = p.2 then 1 else 0 := by
  induction l with
  | nil =>
    intro x hx
    rcases hx with h | h <;> subst h <;> simp
  | cons p l ih =>
    intro x hx
    rw [List.foldl_cons, ctEqU8_eq]
    by_cases hp : p.1 = p.2
    · rw [if_pos hp]
      have e : x &&& 1 = x := by rcases hx with h | h <;> subst h <;> decide
      rw [e, ih x hx]
      have key : (∀ q ∈ l, q.1 = q.2) ↔ (∀ q ∈ p :: l, q.1 = q.2) := by
        constructor
        · intro h q hq
          rcases List.mem_cons.mp hq with hq | hq
          · rw [hq]; exact hp
          · exact h q hq
        · intro h q hq
          exact h q (List.mem_cons_of_mem _ hq)
      simp only [key]
    · rw [if_neg hp, UInt8.and_zero, ih 0 (Or.inl rfl)]
      have h0 : ¬ ((0 : UInt8) = 1 ∧ ∀ q ∈ l, q.1 = q.2) := fun h => absurd h.1 (by decide)
      have h1 : ¬ (x = 1 ∧ ∀ q ∈ p :: l, q.1 = q.2) := fun h => hp (h.2 p (List.mem_cons_self ..))
      rw [if_neg h0, if_neg h1]

theorem zip_all_eq : ∀ (a b : Bytes), a.length = b.length → (∀ p ∈ List.zip a b, p.1 = p.2) → a = b := by
  intro a
  induction a with
  | nil => intro b hl _; cases b with
    | nil => rfl
    | cons _ _ => cases hl
  | cons x a ih =>
    intro b hl h
    cases b with
    | nil => cases hl
    | cons y b =>
      have h1 : x = y := h (x, y) (by simp)
      have h2 : a = b := ih b (by simpa using hl) (fun p hp => h p (by simp [hp]))
      rw [h1, h2]

theorem zip_self_all_eq (a : Bytes) : ∀ p ∈ List.zip a a, p.1 = p.2 := by
  induction a with
  | nil => intro p hp; cases hp
  | cons x a ih =>
    intro p hp
    simp only [List.zip_cons_cons, List.mem_cons] at hp
    rcases hp with h | h
    · rw [h]
    · exact ih p h

/-- **`ct_eq` returns 1 exactly on equal slices** (and 0 otherwise) -/
theorem ctEq_eq (a b : Bytes) : ctEq a b = if a = b then 1 else 0 := by
  unfold ctEq
  by_cases hl : a.length = b.length
  · rw [if_neg (by simpa using hl), foldl_ct _ 1 (Or.inr rfl)]
    by_cases hab : a = b
    · subst hab
      rw [if_pos ⟨rfl, zip_self_all_eq a⟩, if_pos rfl]
    · rw [if_neg hab, if_neg]
      intro ⟨_, h⟩
      exact hab (zip_all_eq a b hl h)
  · rw [if_pos hl, if_neg]
    intro h; exact hl (by rw [h])

theorem ctEq_one_iff (a b : Bytes) : ctEq a b = 1 ↔ a = b := by
  rw [ctEq_eq]
  by_cases h : a = b
  · simp [h]
  · have : ¬ ((0 : UInt8) = 1) := by decide
    simp [h, this]

end DryocVerif.Proofs.OnetimeAuth
