import DryocVerif.Model.RawOps
import DryocVerif.Model.SecretStreamRaw
import DryocVerif.Proofs.SecretStream
import DryocVerif.Proofs.SecretStreamExtra
/-
C04 helper lemmas: the code-shaped (`…Raw`) models, in which every Rust operation that can panic is
an explicit `Outcome.panic` branch, equal the total models — i.e. the guards of the source make
every panic branch unreachable.  Core only.
-/
namespace DryocVerif.Proofs.Raw
open DryocVerif DryocVerif.Model.Raw
open scoped DryocVerif.Model.Raw

@[simp] theorem ok_bind {α β} (a : α) (f : α → Outcome β) : (Outcome.ok a >>= f) = f a := rfl
@[simp] theorem err_bind {α β} (f : α → Outcome β) : ((Outcome.err : Outcome α) >>= f) = .err := rfl
@[simp] theorem panic_bind {α β} (f : α → Outcome β) : ((Outcome.panic : Outcome α) >>= f) = .panic := rfl
@[simp] theorem pure_eq {α} (a : α) : (pure a : Outcome α) = .ok a := rfl

theorem checkedSub_ok {a b : Nat} (h : b ≤ a) : checkedSub a b = .ok (a - b) := by
  unfold checkedSub; rw [if_neg (by omega)]
theorem checkedSub_panic {a b : Nat} (h : a < b) : checkedSub a b = .panic := by
  unfold checkedSub; rw [if_pos h]
theorem checkedAdd_ok {a b : Nat} (h : a + b < 2 ^ 64) : checkedAdd a b = .ok (a + b) := by
  unfold checkedAdd USIZE; rw [if_pos h]
theorem errIf_pos {c : Prop} [Decidable c] (h : c) : errIf c = .err := by unfold errIf; rw [if_pos h]
theorem errIf_neg {c : Prop} [Decidable c] (h : ¬ c) : errIf c = .ok () := by unfold errIf; rw [if_neg h]
theorem slice_ok {x : Bytes} {a b : Nat} (h1 : a ≤ b) (h2 : b ≤ x.length) :
    slice x a b = .ok ((x.drop a).take (b - a)) := by
  unfold slice; rw [if_neg (by omega), if_neg (by omega)]
theorem sliceFrom_ok {x : Bytes} {a : Nat} (h : a ≤ x.length) : sliceFrom x a = .ok (x.drop a) := by
  unfold sliceFrom; rw [if_neg (by omega)]
theorem sliceTo_ok {x : Bytes} {b : Nat} (h : b ≤ x.length) : sliceTo x b = .ok (x.take b) := by
  unfold sliceTo; rw [if_neg (by omega)]
theorem splitAt_ok {x : Bytes} {mid : Nat} (h : mid ≤ x.length) : splitAt x mid = .ok (x.take mid, x.drop mid) := by
  unfold splitAt; rw [if_neg (by omega)]
theorem splitAt_panic {x : Bytes} {mid : Nat} (h : x.length < mid) : splitAt x mid = .panic := by
  unfold splitAt; rw [if_pos h]
theorem copyFromSlice_ok {dst src : Bytes} (h : dst.length = src.length) : copyFromSlice dst src = .ok src := by
  unfold copyFromSlice; rw [if_neg (by omega)]
theorem index_cons_zero (b : UInt8) (x : Bytes) : index (b :: x) 0 = .ok b := rfl
theorem index_nil (i : Nat) : index [] i = .panic := rfl

theorem checkedAddI64_ok {a b : Int} (h : -(2 ^ 63 : Int) ≤ a + b ∧ a + b < (2 ^ 63 : Int)) :
    checkedAddI64 a b = .ok (a + b) := by
  unfold checkedAddI64; rw [if_pos h]

theorem blocksOf_le_iff (n k : Nat) : blocksOf n ≤ k ↔ n ≤ 64 * k := by
  unfold blocksOf
  split <;> omega

/-- `check_remaining` at a block boundary: the request fails iff it needs more than `remBlocks` blocks -/
theorem checkRemaining_zero (r len : Nat) :
    checkRemaining r 0 len = if 64 * r < len then .panic else .ok () := by
  unfold checkRemaining
  rw [if_pos rfl]
  by_cases h : 64 * r < len
  · rw [if_pos h, if_pos (by have := blocksOf_le_iff len r; omega)]
  · rw [if_neg h, if_neg (by have := blocksOf_le_iff len r; omega)]

/-- `check_remaining` inside a block (`0 < bytePos < 64`) -/
theorem checkRemaining_mid {r bytePos len : Nat} (hb : bytePos ≠ 0) (h : len ≤ 64 * r) :
    checkRemaining r bytePos len = .ok () := by
  unfold checkRemaining
  rw [if_neg hb]
  simp only []
  split
  · rw [if_neg (by have := blocksOf_le_iff (len - (64 - bytePos)) r; omega)]
  · rfl

theorem asArray_ok {n : Nat} {x : Bytes} (h : n ≤ x.length) : asArray n x = .ok (x.take n) := by
  unfold asArray; rw [if_neg (by omega)]
theorem asArray_panic {n : Nat} {x : Bytes} (h : x.length < n) : asArray n x = .panic := by
  unfold asArray; rw [if_pos h]
theorem rotateLeftChecked_ok {x : Bytes} {k : Nat} (h : k ≤ x.length) :
    rotateLeftChecked x k = .ok (x.drop k ++ x.take k) := by
  unfold rotateLeftChecked; rw [if_neg (by omega)]
theorem setIndex_ok' {x : Bytes} {i : Nat} (v : UInt8) (h : i < x.length) : setIndex x i v = .ok (x.set i v) := by
  unfold setIndex; rw [if_pos h]

theorem asI64_small {n : Nat} (h : n < 2 ^ 63) : asI64 n = (n : Int) := by
  unfold asI64 USIZE
  rw [Nat.mod_eq_of_lt (by omega), if_pos h]

end DryocVerif.Proofs.Raw

namespace DryocVerif.Proofs.SecretStream
open DryocVerif DryocVerif.Model.Utils DryocVerif.Model.SecretStream DryocVerif.Model.Raw DryocVerif.Proofs.Raw
open scoped DryocVerif.Model.Raw

/-- the crate's rule at a block boundary: `len` bytes from block `pos / 64` are handed out iff
`len ≤ 64 · (2^32 − 1 − pos / 64)` -/
theorem keystream_eq (P : Prims) (s : State) (pos len : Nat) :
    keystream P s pos len =
      if 64 * (2 ^ 32 - 1 - pos / 64) < len then .panic else .ok (P.chacha s.k s.nonce (pos / 64) len) := by
  unfold keystream U32_MAX
  rw [checkRemaining_zero]
  split <;> rfl

theorem keystream_ok (P : Prims) (s : State) {pos len : Nat} (h : len ≤ 64 * (2 ^ 32 - 1 - pos / 64)) :
    keystream P s pos len = .ok (P.chacha s.k s.nonce (pos / 64) len) := by
  rw [keystream_eq, if_neg (by omega)]

theorem keystream_panic (P : Prims) (s : State) {pos len : Nat} (h : 64 * (2 ^ 32 - 1 - pos / 64) < len) :
    keystream P s pos len = .panic := by
  rw [keystream_eq, if_pos h]

theorem STREAM_BODY_MAX_eq : STREAM_BODY_MAX = 274877906752 := by decide
theorem MESSAGEBYTES_MAX_RAW_eq : MESSAGEBYTES_MAX_RAW = 274877906816 := by decide

/-- the constant of the fixed source, `KEYSTREAM_MESSAGEBYTES_MAX = MESSAGEBYTES_MAX − 64`, IS the crate's
key-stream limit after `seek(128)` -/
theorem KEYSTREAM_MESSAGEBYTES_MAX_eq : KEYSTREAM_MESSAGEBYTES_MAX = STREAM_BODY_MAX := by decide

/-- the longest MESSAGE the length guard of `push` lets through: current source / before fix E16 -/
def pushMax (fix16 : Bool) : Nat := if fix16 then STREAM_BODY_MAX else MESSAGEBYTES_MAX_RAW

/-- the longest CIPHERTEXT the third length guard of `pull` lets through: current source (`mlen` is compared)
/ before fix E16 (`ciphertext.len()` is compared) -/
def pullMax (fix16 : Bool) : Nat := if fix16 then STREAM_BODY_MAX + 17 else MESSAGEBYTES_MAX_RAW

theorem pushMax_true : pushMax true = 274877906752 := by decide
theorem pushMax_false : pushMax false = 274877906816 := by decide
theorem pullMax_true : pullMax true = 274877906752 + 17 := by decide
theorem pullMax_false : pullMax false = 274877906816 := by decide

theorem pushMax_le (f : Bool) : pushMax f ≤ 274877906816 := by
  cases f
  · rw [pushMax_false]; omega
  · rw [pushMax_true]; omega

theorem pullMax_le (f : Bool) : pullMax f ≤ 274877906816 := by
  cases f
  · rw [pullMax_false]; omega
  · rw [pullMax_true]; omega

theorem pushMaxGuard_eq (f : Bool) (n : Nat) :
    pushMaxGuard f n = if pushMax f < n then .err else .ok () := by
  cases f <;> rfl

theorem pullMaxGuard_eq (f : Bool) (n : Nat) (h1 : 17 ≤ n) :
    pullMaxGuard f n = if pullMax f < n then .err else .ok () := by
  cases f
  · rfl
  · have hB := STREAM_BODY_MAX_eq
    unfold pullMaxGuard pullMax
    simp only [if_true]
    unfold ABYTES
    rw [checkedSub_ok h1, ok_bind]
    unfold errIf
    by_cases h : STREAM_BODY_MAX + 17 < n
    · rw [if_pos h, if_pos (by omega)]
    · rw [if_neg h, if_neg (by omega)]

theorem zeros_take (n k : Nat) (h : k ≤ n) : (zeros n).take k = zeros k := by
  unfold zeros; rw [List.take_replicate, Nat.min_eq_left h]

theorem sizeDataRaw_eq (a b : Nat) : sizeDataRaw a b = .ok (toLE 8 a ++ toLE 8 b) := by
  unfold sizeDataRaw
  simp only []
  rw [sliceTo_ok (by simp [zeros]), ok_bind, copyFromSlice_ok (by simp [zeros, toLE_length]), ok_bind]
  rw [slice_ok (by omega) (by simp [zeros, toLE_length]), ok_bind,
    copyFromSlice_ok (by simp [zeros, toLE_length]), ok_bind, pure_eq]
  congr 1

theorem tagBlockRaw_eq (P : Prims) (s : State) (c0 : UInt8) (rest : Bytes) :
    tagBlockRaw P s (c0 :: rest) = .ok (pullTag P s (c0 :: rest), pullBlock P s (c0 :: rest)) := by
  unfold tagBlockRaw
  simp only []
  rw [index_cons_zero, ok_bind, keystream_ok P s (by omega), ok_bind]
  rfl

theorem pad16_le (n : Nat) : pad16 n ≤ 16 := by rw [pad16_eq]; omega

/-- the code-shaped body (current source `f = true`, before fix E16 `f = false`) for every length the three
guards let through, up to the last key-stream request
(`cipher.seek(128); cipher.apply_keystream(&mut message[..mlen])`), which is left as it is: every checked
operation in front of it succeeds -/
theorem pullRawBodyWith_mid (g f : Bool) (P : Prims) (s : State) (m ct ad : Bytes)
    (h1 : 17 ≤ ct.length) (h2 : ct.length - 17 ≤ m.length) (h3 : ct.length ≤ pullMax f) :
    pullRawBodyWith g f P s m ct ad =
      if ct.drop (1 + (ct.length - 17)) ≠ pullMac P s ct ad then .err
      else (keystream P s 128 (ct.length - 17)) >>= fun ks =>
        .ok ⟨.ok (ct.length - 17),
            xorBytes ((ct.drop 1).take (ct.length - 17)) ks ++ m.drop (ct.length - 17),
            pullTag P s ct, advance P s (pullMac P s ct ad) (pullTag P s ct)⟩ := by
  obtain ⟨c0, rest, rfl⟩ : ∃ c0 rest, ct = c0 :: rest := by
    cases ct with
    | nil => simp at h1
    | cons a b => exact ⟨a, b, rfl⟩
  have hM := pullMax_le f
  generalize hct : (c0 :: rest) = ct at *
  have hg : errIfWhen g (ct.length < ABYTES) = Outcome.ok () := by
    cases g
    · rfl
    · exact errIf_neg (by unfold ABYTES; omega)
  have hmg : pullMaxGuard f ct.length = Outcome.ok () := by
    rw [pullMaxGuard_eq f _ h1, if_neg (by omega)]
  unfold pullRawBodyWith
  simp only []
  rw [hg, ok_bind, hmg]
  unfold ABYTES
  rw [checkedSub_ok h1, ok_bind, errIf_neg (by omega), ok_bind, ok_bind,
    keystream_ok P s (by omega), ok_bind, sliceTo_ok (by rw [zeros_length]; exact pad16_le _), ok_bind]
  subst hct
  rw [tagBlockRaw_eq, ok_bind]
  generalize hct : (c0 :: rest) = ct at *
  simp only []
  have hclen : ((ct.drop 1).take (ct.length - 17)).length = ct.length - 17 := by
    rw [List.length_take, List.length_drop]; omega
  have hpadle : bufferMacPad (ct.length - 17) ≤ 16 := by rw [bufferMacPad_eq]; omega
  rw [ok_bind, asI64_small (by omega), checkedAddI64_ok (by omega), ok_bind,
    checkedAdd_ok (by omega), checkedAdd_ok (by omega)]
  simp only [ok_bind]
  have hpad : ((16 - 64 + ((ct.length - 17 : Nat) : Int)) % 16).toNat = bufferMacPad (ct.length - 17) := rfl
  rw [slice_ok (by omega) (by omega), hpad, sliceTo_ok (by rw [zeros_length]; exact hpadle),
    sizeDataRaw_eq, sliceFrom_ok (by omega)]
  simp only [ok_bind]
  rw [zeros_take 16 _ (pad16_le _), zeros_take 16 _ hpadle, Nat.add_sub_cancel_left]
  have hmac : P.mac (P.chacha s.k s.nonce (0 / 64) 32)
      (ad ++ zeros (pad16 ad.length) ++ pullBlock P s ct ++ (ct.drop 1).take (ct.length - 17)
        ++ zeros (bufferMacPad (ct.length - 17)) ++ (toLE 8 ad.length ++ toLE 8 (64 + (ct.length - 17))))
      = pullMac P s ct ad := by
    unfold pullMac macKey macInput
    rw [hclen]
    simp only [List.append_assoc, Nat.zero_div]
  rw [hmac]
  by_cases hauth : ct.drop (1 + (ct.length - 17)) = pullMac P s ct ad
  · rw [errIf_neg (by simpa using hauth), ok_bind, if_neg (by simpa using hauth), sliceTo_ok h2]
    simp only [ok_bind]
    rw [copyFromSlice_ok (by rw [hclen, List.length_take]; omega), ok_bind,
      List.length_take, Nat.min_eq_left h2]
    rfl
  · rw [errIf_pos (by simpa using hauth), err_bind, if_pos (by simpa using hauth)]

/-- the accepted-lengths path of the code-shaped body (either version): every checked operation succeeds.  The
length hypothesis is the crate's key-stream limit (`STREAM_BODY_MAX + 17`) — for the current source that is
exactly what the third guard lets through. -/
theorem pullRawBodyWith_main (g f : Bool) (P : Prims) (s : State) (m ct ad : Bytes)
    (h1 : 17 ≤ ct.length) (h2 : ct.length - 17 ≤ m.length) (h3 : ct.length ≤ STREAM_BODY_MAX + 17) :
    pullRawBodyWith g f P s m ct ad =
      if ct.drop (1 + (ct.length - 17)) ≠ pullMac P s ct ad then .err
      else .ok ⟨.ok (ct.length - 17),
            xorBytes ((ct.drop 1).take (ct.length - 17)) (P.chacha s.k s.nonce 2 (ct.length - 17))
              ++ m.drop (ct.length - 17),
            pullTag P s ct, advance P s (pullMac P s ct ad) (pullTag P s ct)⟩ := by
  have hB := STREAM_BODY_MAX_eq
  have h3' : ct.length ≤ pullMax f := by
    cases f
    · rw [pullMax_false]; omega
    · rw [pullMax_true]; omega
  rw [pullRawBodyWith_mid g f P s m ct ad h1 h2 h3', keystream_ok P s (by omega), ok_bind]

theorem pullRawBody_main (g : Bool) (P : Prims) (s : State) (m ct ad : Bytes)
    (h1 : 17 ≤ ct.length) (h2 : ct.length - 17 ≤ m.length) (h3 : ct.length ≤ STREAM_BODY_MAX + 17) :
    pullRawBody g P s m ct ad =
      if ct.drop (1 + (ct.length - 17)) ≠ pullMac P s ct ad then .err
      else .ok ⟨.ok (ct.length - 17),
            xorBytes ((ct.drop 1).take (ct.length - 17)) (P.chacha s.k s.nonce 2 (ct.length - 17))
              ++ m.drop (ct.length - 17),
            pullTag P s ct, advance P s (pullMac P s ct ad) (pullTag P s ct)⟩ :=
  pullRawBodyWith_main g true P s m ct ad h1 h2 h3

/-- **pre-fix code (E16): the window between the crate's limit and the old guard**: the lengths pass all three
guards, the authenticator verifies, and `cipher.apply_keystream(&mut message[..mlen])` asks for more blocks
than `remaining_blocks()` — the `unwrap()` inside `apply_keystream` panics -/
theorem pullRawBodyOld16_near_max (g : Bool) (P : Prims) (s : State) (m ct ad : Bytes)
    (h1 : STREAM_BODY_MAX + 17 < ct.length) (h3 : ct.length ≤ MESSAGEBYTES_MAX_RAW)
    (h2 : ct.length - 17 ≤ m.length)
    (hauth : ct.drop (1 + (ct.length - 17)) = pullMac P s ct ad) :
    pullRawBodyOld16 g P s m ct ad = .panic := by
  have hB := STREAM_BODY_MAX_eq
  unfold pullRawBodyOld16
  rw [pullRawBodyWith_mid g false P s m ct ad (by omega) h2 h3, if_neg (by simpa using hauth),
    keystream_panic P s (by omega), panic_bind]

/-- … while a ciphertext in the window whose authenticator does NOT verify is an ordinary `Err` -/
theorem pullRawBodyOld16_near_max_forged (g : Bool) (P : Prims) (s : State) (m ct ad : Bytes)
    (h1 : 17 ≤ ct.length) (h3 : ct.length ≤ MESSAGEBYTES_MAX_RAW) (h2 : ct.length - 17 ≤ m.length)
    (hauth : ct.drop (1 + (ct.length - 17)) ≠ pullMac P s ct ad) :
    pullRawBodyOld16 g P s m ct ad = .err := by
  unfold pullRawBodyOld16
  rw [pullRawBodyWith_mid g false P s m ct ad h1 h2 h3, if_pos hauth]

theorem pullRawBodyWith_short (f : Bool) (P : Prims) (s : State) (m ct ad : Bytes) (h : ct.length < 17) :
    pullRawBodyWith true f P s m ct ad = .err := by
  unfold pullRawBodyWith
  simp only []
  have : errIfWhen true (ct.length < ABYTES) = .err := errIf_pos (by unfold ABYTES; exact h)
  rw [this, err_bind]

theorem pullRawBody_short (P : Prims) (s : State) (m ct ad : Bytes) (h : ct.length < 17) :
    pullRawBody true P s m ct ad = .err := pullRawBodyWith_short true P s m ct ad h

/-- before fix E5: the subtraction `ciphertext.len() - ABYTES` is the first thing evaluated -/
theorem pullRawBody_old_short (P : Prims) (s : State) (m ct ad : Bytes) (h : ct.length < 17) :
    pullRawBody false P s m ct ad = .panic := by
  unfold pullRawBody pullRawBodyWith
  simp only []
  have : errIfWhen false (ct.length < ABYTES) = .ok () := rfl
  rw [this, ok_bind, checkedSub_panic (by unfold ABYTES; exact h), panic_bind]

theorem pullRawBodyWith_smallbuf (g f : Bool) (P : Prims) (s : State) (m ct ad : Bytes)
    (h1 : 17 ≤ ct.length) (h2 : m.length < ct.length - 17) :
    pullRawBodyWith g f P s m ct ad = .err := by
  have hg : errIfWhen g (ct.length < ABYTES) = Outcome.ok () := by
    cases g
    · rfl
    · exact errIf_neg (by unfold ABYTES; omega)
  unfold pullRawBodyWith
  simp only []
  rw [hg, ok_bind]
  unfold ABYTES
  rw [checkedSub_ok h1, ok_bind, errIf_pos h2, err_bind]

theorem pullRawBody_smallbuf (g : Bool) (P : Prims) (s : State) (m ct ad : Bytes)
    (h1 : 17 ≤ ct.length) (h2 : m.length < ct.length - 17) :
    pullRawBody g P s m ct ad = .err := pullRawBodyWith_smallbuf g true P s m ct ad h1 h2

/-- the third guard (either version) rejects -/
theorem pullRawBodyWith_long (g f : Bool) (P : Prims) (s : State) (m ct ad : Bytes)
    (h1 : 17 ≤ ct.length) (h3 : pullMax f < ct.length) : pullRawBodyWith g f P s m ct ad = .err := by
  have hg : errIfWhen g (ct.length < ABYTES) = Outcome.ok () := by
    cases g
    · rfl
    · exact errIf_neg (by unfold ABYTES; omega)
  have hmg : pullMaxGuard f ct.length = Outcome.err := by
    rw [pullMaxGuard_eq f _ h1, if_pos h3]
  unfold pullRawBodyWith
  simp only []
  rw [hg, ok_bind, hmg]
  unfold ABYTES
  rw [checkedSub_ok h1, ok_bind]
  by_cases h2 : m.length < ct.length - 17
  · rw [errIf_pos h2, err_bind]
  · rw [errIf_neg h2, ok_bind, err_bind]

/-- the fixed third guard: a ciphertext of more than `STREAM_BODY_MAX + 17` bytes is an `Err` -/
theorem pullRawBody_long (g : Bool) (P : Prims) (s : State) (m ct ad : Bytes)
    (h3 : STREAM_BODY_MAX + 17 < ct.length) : pullRawBody g P s m ct ad = .err :=
  pullRawBodyWith_long g true P s m ct ad (by omega) (by rw [pullMax_true, ← STREAM_BODY_MAX_eq]; exact h3)

/-- the third guard before fix E16 -/
theorem pullRawBodyOld16_long (g : Bool) (P : Prims) (s : State) (m ct ad : Bytes)
    (h3 : MESSAGEBYTES_MAX_RAW < ct.length) : pullRawBodyOld16 g P s m ct ad = .err := by
  have hM := MESSAGEBYTES_MAX_RAW_eq
  exact pullRawBodyWith_long g false P s m ct ad (by omega) (by rw [pullMax_false, ← hM]; exact h3)

/-- for ciphertexts of at least 17 bytes the code before fix E5 is the current code -/
theorem pullRawBody_old_eq (P : Prims) (s : State) (m ct ad : Bytes) (h1 : 17 ≤ ct.length) :
    pullRawBody false P s m ct ad = pullRawBody true P s m ct ad := by
  unfold pullRawBody
  by_cases h3 : pullMax true < ct.length
  · rw [pullRawBodyWith_long _ _ P s m ct ad h1 h3, pullRawBodyWith_long _ _ P s m ct ad h1 h3]
  by_cases h2 : m.length < ct.length - 17
  · rw [pullRawBodyWith_smallbuf _ _ P s m ct ad h1 h2, pullRawBodyWith_smallbuf _ _ P s m ct ad h1 h2]
  · rw [pullRawBodyWith_mid _ _ P s m ct ad h1 (by omega) (by omega),
      pullRawBodyWith_mid _ _ P s m ct ad h1 (by omega) (by omega)]

/-- **the code-shaped `pull` is the guarded total model, for EVERY input** (since fix E16): with the three
guards of the source in place, no checked subtraction, addition, slice, index, `copy_from_slice` or key-stream
request fails, for any ciphertext (any length), associated data, message buffer and state; and the guards are
those of `pullChecked`.  No hypothesis.

What this theorem does NOT see: `pullRawWith` maps every `.err` of the body to the untouched buffers by
construction (every `return Err` of the Rust precedes its first write, and the model is written in that
order), so a mutation that moved `*tag = decrypted_tag` in front of the MAC comparison would need a changed
hand model to be noticed here — it is caught by the differential run of C17 only. -/
theorem pullRaw_eq_pullChecked (P : Prims) (s : State) (m : Bytes) (tagv : UInt8) (ct ad : Bytes) :
    pullRaw P s m tagv ct ad = pullChecked P s m tagv ct ad := by
  have hB := STREAM_BODY_MAX_eq
  have hK := KEYSTREAM_MESSAGEBYTES_MAX_eq
  unfold pullRaw pullRawWith pullChecked
  unfold ABYTES
  by_cases h1 : ct.length < 17
  · rw [pullRawBody_short P s m ct ad h1, if_pos h1]
  rw [if_neg h1]
  by_cases h2 : m.length < ct.length - 17
  · rw [pullRawBody_smallbuf _ P s m ct ad (by omega) h2, if_pos h2]
  rw [if_neg h2]
  by_cases h3 : ct.length - 17 > KEYSTREAM_MESSAGEBYTES_MAX
  · rw [if_pos h3, pullRawBody_long _ P s m ct ad (by omega)]
  rw [if_neg h3, pull_eq, if_neg h1, if_neg h2, pullRawBody_main _ P s m ct ad (by omega) (by omega) (by omega)]
  by_cases hauth : ct.drop (1 + (ct.length - 17)) ≠ pullMac P s ct ad
  · rw [if_pos hauth, if_pos hauth]
  · rw [if_neg hauth, if_neg hauth]

/-- **the code-shaped `pull` is the guard-free total model** `pull` for every ciphertext the third guard lets
through (`ciphertext.len() − 17 ≤ STREAM_BODY_MAX`).  The hypothesis is needed only because `pull` has no
length guard (beyond it `pullRaw` is an `Err`, `pullRaw_err_near_max`, and `pull` computes); with the guard in
the model no hypothesis is needed: `pullRaw_eq_pullChecked`. -/
theorem pullRaw_eq_pull (P : Prims) (s : State) (m : Bytes) (tagv : UInt8) (ct ad : Bytes)
    (h3 : ct.length ≤ STREAM_BODY_MAX + 17) : pullRaw P s m tagv ct ad = pull P s m tagv ct ad := by
  rw [pullRaw_eq_pullChecked, pullChecked_eq_pull P s m tagv ct ad (by rw [KEYSTREAM_MESSAGEBYTES_MAX_eq]; exact h3)]

/-- **fixed code (E16): the third guard.**  A ciphertext of more than `STREAM_BODY_MAX + 17` bytes — the
lengths on which the code before the fix panicked included — is an `Err` that leaves state, message buffer and
tag variable as they were, whatever the buffer size and the authenticator. -/
theorem pullRaw_err_near_max (P : Prims) (s : State) (m : Bytes) (tagv : UInt8) (ct ad : Bytes)
    (h3 : STREAM_BODY_MAX + 17 < ct.length) : pullRaw P s m tagv ct ad = ⟨.err, m, tagv, s⟩ := by
  unfold pullRaw pullRawWith
  rw [pullRawBody_long _ P s m ct ad h3]

theorem pullRaw_too_long (P : Prims) (s : State) (m : Bytes) (tagv : UInt8) (ct ad : Bytes)
    (h3 : STREAM_BODY_MAX + 17 < ct.length) : pullRaw P s m tagv ct ad = ⟨.err, m, tagv, s⟩ :=
  pullRaw_err_near_max P s m tagv ct ad h3

/-- **the classic `pull`, as written, cannot panic** — any ciphertext (any length), buffer, AD, state -/
theorem pullRaw_never_panics (P : Prims) (s : State) (m : Bytes) (tagv : UInt8) (ct ad : Bytes) :
    (pullRaw P s m tagv ct ad).res ≠ .panic := by
  rw [pullRaw_eq_pullChecked]
  rcases pullChecked_cases P s m tagv ct ad with e | e
  · rw [e, pull_eq]
    split; · simp
    split; · simp
    split <;> simp
  · rw [e]; simp

/-- kept under its old name: since fix E16 there is no window of lengths to stay out of -/
theorem pullRaw_never_panics_outside_window (P : Prims) (s : State) (m : Bytes) (tagv : UInt8) (ct ad : Bytes) :
    (pullRaw P s m tagv ct ad).res ≠ .panic := pullRaw_never_panics P s m tagv ct ad

/-- whatever the length: an `Err` of the classic `pull` as written leaves state, buffer and tag variable -/
theorem pullRaw_err_untouched (P : Prims) (s : State) (m : Bytes) (tagv : UInt8) (ct ad : Bytes)
    (h : (pullRaw P s m tagv ct ad).res = .err) :
    (pullRaw P s m tagv ct ad).st = s ∧ (pullRaw P s m tagv ct ad).buf = m ∧
      (pullRaw P s m tagv ct ad).tag = tagv := by
  rw [pullRaw_eq_pullChecked] at h ⊢
  rcases pullChecked_cases P s m tagv ct ad with e | e
  · rw [e] at h ⊢
    rw [pull_eq] at h ⊢
    by_cases a1 : ct.length < 17
    · rw [if_pos a1]; exact ⟨rfl, rfl, rfl⟩
    rw [if_neg a1] at h ⊢
    by_cases a2 : m.length < ct.length - 17
    · rw [if_pos a2]; exact ⟨rfl, rfl, rfl⟩
    rw [if_neg a2] at h ⊢
    by_cases a3 : ct.drop (1 + (ct.length - 17)) ≠ pullMac P s ct ad
    · rw [if_pos a3]; exact ⟨rfl, rfl, rfl⟩
    · rw [if_neg a3] at h; cases h
  · rw [e]; exact ⟨rfl, rfl, rfl⟩

/-! #### the classic `pull` before fix E16 (counter-model `pullRawOld16`) -/

/-- pre-fix code (E16): below the crate's limit the old code is the total model -/
theorem pullRawOld16_eq_pull (P : Prims) (s : State) (m : Bytes) (tagv : UInt8) (ct ad : Bytes)
    (h3 : ct.length ≤ STREAM_BODY_MAX + 17) : pullRawOld16 P s m tagv ct ad = pull P s m tagv ct ad := by
  unfold pullRawOld16 pullRawWithOld16 pullRawBodyOld16
  rw [pull_eq]
  by_cases h1 : ct.length < 17
  · rw [pullRawBodyWith_short _ P s m ct ad h1, if_pos h1]
  rw [if_neg h1]
  by_cases h2 : m.length < ct.length - 17
  · rw [pullRawBodyWith_smallbuf _ _ P s m ct ad (by omega) h2, if_pos h2]
  rw [if_neg h2, pullRawBodyWith_main _ _ P s m ct ad (by omega) (by omega) h3]
  by_cases hauth : ct.drop (1 + (ct.length - 17)) ≠ pullMac P s ct ad
  · rw [if_pos hauth, if_pos hauth]
  · rw [if_neg hauth, if_neg hauth]

/-- pre-fix code (E16): the old guard `ciphertext.len() > MESSAGEBYTES_MAX` -/
theorem pullRawOld16_too_long (P : Prims) (s : State) (m : Bytes) (tagv : UInt8) (ct ad : Bytes)
    (h3 : MESSAGEBYTES_MAX_RAW < ct.length) : pullRawOld16 P s m tagv ct ad = ⟨.err, m, tagv, s⟩ := by
  unfold pullRawOld16 pullRawWithOld16
  rw [pullRawBodyOld16_long _ P s m ct ad h3]

/-- **pre-fix code (E16), the defect**: a ciphertext whose length lies strictly between the crate's key-stream
limit and the old guard of the source, whose authenticator verifies, into a buffer that is large enough: PANIC -/
theorem pullRawOld16_panics_near_max (P : Prims) (s : State) (m : Bytes) (tagv : UInt8) (ct ad : Bytes)
    (h1 : STREAM_BODY_MAX + 17 < ct.length) (h3 : ct.length ≤ MESSAGEBYTES_MAX_RAW)
    (h2 : ct.length - 17 ≤ m.length)
    (hauth : ct.drop (1 + (ct.length - 17)) = pullMac P s ct ad) :
    pullRawOld16 P s m tagv ct ad = ⟨.panic, m, tagv, s⟩ := by
  unfold pullRawOld16 pullRawWithOld16
  rw [pullRawBodyOld16_near_max _ P s m ct ad h1 h3 h2 hauth]

/-- pre-fix code (E16): exactly when the classic `pull` before the fix panics -/
theorem pullRawOld16_panic_iff (P : Prims) (s : State) (m : Bytes) (tagv : UInt8) (ct ad : Bytes) :
    (pullRawOld16 P s m tagv ct ad).res = .panic ↔
      STREAM_BODY_MAX + 17 < ct.length ∧ ct.length ≤ MESSAGEBYTES_MAX_RAW ∧ ct.length - 17 ≤ m.length ∧
        ct.drop (1 + (ct.length - 17)) = pullMac P s ct ad := by
  have hB := STREAM_BODY_MAX_eq
  have hM := MESSAGEBYTES_MAX_RAW_eq
  constructor
  · intro h
    by_cases h3 : MESSAGEBYTES_MAX_RAW < ct.length
    · rw [pullRawOld16_too_long P s m tagv ct ad h3] at h; cases h
    by_cases h1 : ct.length ≤ STREAM_BODY_MAX + 17
    · rw [pullRawOld16_eq_pull P s m tagv ct ad h1, pull_eq] at h
      split at h; · cases h
      split at h; · cases h
      split at h <;> cases h
    by_cases h2 : m.length < ct.length - 17
    · unfold pullRawOld16 pullRawWithOld16 pullRawBodyOld16 at h
      rw [pullRawBodyWith_smallbuf _ _ P s m ct ad (by omega) h2] at h; cases h
    by_cases hauth : ct.drop (1 + (ct.length - 17)) = pullMac P s ct ad
    · exact ⟨by omega, by omega, by omega, hauth⟩
    · unfold pullRawOld16 pullRawWithOld16 at h
      rw [pullRawBodyOld16_near_max_forged _ P s m ct ad (by omega) (by omega) (by omega) hauth] at h; cases h
  · rintro ⟨h1, h3, h2, hauth⟩
    rw [pullRawOld16_panics_near_max P s m tagv ct ad h1 h3 h2 hauth]

/-- pre-fix code (E16): alias of `pullRawOld16_panics_near_max` under the name the theorem had when `pullRaw` still
was that code — a statement about the counter-model `pullRawOld16` -/
theorem pullRaw_panics_near_max (P : Prims) (s : State) (m : Bytes) (tagv : UInt8) (ct ad : Bytes)
    (h1 : STREAM_BODY_MAX + 17 < ct.length) (h3 : ct.length ≤ MESSAGEBYTES_MAX_RAW)
    (h2 : ct.length - 17 ≤ m.length)
    (hauth : ct.drop (1 + (ct.length - 17)) = pullMac P s ct ad) :
    pullRawOld16 P s m tagv ct ad = ⟨.panic, m, tagv, s⟩ :=
  pullRawOld16_panics_near_max P s m tagv ct ad h1 h3 h2 hauth

/-- pre-fix code (E16): alias of `pullRawOld16_panic_iff` (old name; about the counter-model `pullRawOld16`) -/
theorem pullRaw_panic_iff (P : Prims) (s : State) (m : Bytes) (tagv : UInt8) (ct ad : Bytes) :
    (pullRawOld16 P s m tagv ct ad).res = .panic ↔
      STREAM_BODY_MAX + 17 < ct.length ∧ ct.length ≤ MESSAGEBYTES_MAX_RAW ∧ ct.length - 17 ≤ m.length ∧
        ct.drop (1 + (ct.length - 17)) = pullMac P s ct ad :=
  pullRawOld16_panic_iff P s m tagv ct ad

/-- pre-fix code (E16): no panic on a ciphertext of at most `64·(2^32 − 3) + 17` bytes, nor on one longer than
`MESSAGEBYTES_MAX_RAW` (the weakest hypothesis on the length alone: the 47 lengths in between DID panic when
the authenticator verified) -/
theorem pullRawOld16_never_panics_outside_window (P : Prims) (s : State) (m : Bytes) (tagv : UInt8) (ct ad : Bytes)
    (h : ct.length ≤ STREAM_BODY_MAX + 17 ∨ MESSAGEBYTES_MAX_RAW < ct.length) :
    (pullRawOld16 P s m tagv ct ad).res ≠ .panic := by
  intro hp
  have := (pullRawOld16_panic_iff P s m tagv ct ad).mp hp
  omega

/-- what fix E16 changed, exactly: outside the 47-length window the code before the fix IS the current code
(so every theorem about `pullRaw` below the limit was a theorem about the old code too) -/
theorem pullRawOld16_eq_pullRaw (P : Prims) (s : State) (m : Bytes) (tagv : UInt8) (ct ad : Bytes)
    (h : ct.length ≤ STREAM_BODY_MAX + 17 ∨ MESSAGEBYTES_MAX_RAW < ct.length) :
    pullRawOld16 P s m tagv ct ad = pullRaw P s m tagv ct ad := by
  have hB := STREAM_BODY_MAX_eq
  have hM := MESSAGEBYTES_MAX_RAW_eq
  rcases h with h | h
  · rw [pullRawOld16_eq_pull P s m tagv ct ad h, pullRaw_eq_pull P s m tagv ct ad h]
  · rw [pullRawOld16_too_long P s m tagv ct ad h, pullRaw_err_near_max P s m tagv ct ad (by omega)]

/-- counter-model: the code before fix E5 panics on every ciphertext shorter than 17 bytes -/
theorem pullRawOld_short_panics (P : Prims) (s : State) (m : Bytes) (tagv : UInt8) (ct ad : Bytes)
    (h : ct.length < 17) : pullRawOld P s m tagv ct ad = ⟨.panic, m, tagv, s⟩ := by
  unfold pullRawOld pullRawWith
  rw [pullRawBody_old_short P s m ct ad h]

theorem pullRawOld_eq_of_long (P : Prims) (s : State) (m : Bytes) (tagv : UInt8) (ct ad : Bytes)
    (h : 17 ≤ ct.length) : pullRawOld P s m tagv ct ad = pullRaw P s m tagv ct ad := by
  unfold pullRawOld pullRaw pullRawWith
  rw [pullRawBody_old_eq P s m ct ad h]

/-! ### object layer -/

/-- `objPullChecked` (the guarded total model with the state threaded) is `objPullRaw` up to the limit … -/
theorem objPullChecked_eq_objPullRaw (P : Prims) (s : State) (ct ad : Bytes)
    (h3 : ct.length ≤ STREAM_BODY_MAX + 17) : objPullChecked P s ct ad = objPullRaw P s ct ad := by
  unfold objPullChecked objPullRaw
  rw [pullChecked_eq_pull P s _ 0 ct ad (by rw [KEYSTREAM_MESSAGEBYTES_MAX_eq]; exact h3)]

/-- … and a plain `Err` with the state untouched beyond it -/
theorem objPullChecked_too_long (P : Prims) (s : State) (ct ad : Bytes)
    (h3 : STREAM_BODY_MAX + 17 < ct.length) : objPullChecked P s ct ad = (.err, s) := by
  have hB := STREAM_BODY_MAX_eq
  unfold objPullChecked
  rw [if_neg (by unfold ABYTES; omega),
    pullChecked_too_long P s _ 0 ct ad (by rw [KEYSTREAM_MESSAGEBYTES_MAX_eq]; exact h3)]

/-- **`DryocStream::pull` in source order (state threaded through the `?`) is the guarded total model
`objPullChecked`, for every ciphertext** (any length) -/
theorem objPullCode_eq_objPullChecked (P : Prims) (s : State) (ct ad : Bytes) :
    objPullCode P s ct ad = objPullChecked P s ct ad := by
  unfold objPullCode objPullRawWith objPullRawGen objPullChecked
  by_cases h1 : ct.length < ABYTES
  · rw [if_pos ⟨rfl, h1⟩, if_pos h1]
  · rw [if_neg (fun h => h1 h.2), if_neg h1, checkedSub_ok (by omega)]
    simp only [if_true]
    have : pullRawWith true P s (zeros (ct.length - ABYTES)) 0 ct ad
        = pullChecked P s (zeros (ct.length - ABYTES)) 0 ct ad := pullRaw_eq_pullChecked P s _ 0 ct ad
    rw [this]
    generalize pullChecked P s (zeros (ct.length - ABYTES)) 0 ct ad = r
    rcases r with ⟨res, buf, tag, st⟩
    cases res <;> rfl

/-- `DryocStream::pull` in source order is the model function `objPullRaw`, which threads the state of the
guard-free total `pull` in the same way — up to the limit the third guard enforces (beyond it `objPullCode` is
an `Err`, `objPullCode_too_long`, and the guard-free model computes) -/
theorem objPullCode_eq_objPullRaw (P : Prims) (s : State) (ct ad : Bytes) (h3 : ct.length ≤ STREAM_BODY_MAX + 17) :
    objPullCode P s ct ad = objPullRaw P s ct ad := by
  rw [objPullCode_eq_objPullChecked, objPullChecked_eq_objPullRaw P s ct ad h3]

theorem objPullCode_eq_objPull (P : Prims) (s : State) (ct ad : Bytes) (h3 : ct.length ≤ STREAM_BODY_MAX + 17) :
    objPullCode P s ct ad = objPull P s ct ad := by
  rw [objPullCode_eq_objPullRaw P s ct ad h3, objPullRaw_eq_objPull]

/-- fixed code (E16): beyond the limit `DryocStream::pull` is an `Err`, state untouched -/
theorem objPullCode_too_long (P : Prims) (s : State) (ct ad : Bytes) (h3 : STREAM_BODY_MAX + 17 < ct.length) :
    objPullCode P s ct ad = (.err, s) := by
  rw [objPullCode_eq_objPullChecked, objPullChecked_too_long P s ct ad h3]

/-- **`DryocStream::pull` as written never panics**, for every ciphertext (any length), AD and state -/
theorem objPullCode_never_panics (P : Prims) (s : State) (ct ad : Bytes) :
    (objPullCode P s ct ad).1 ≠ .panic := by
  by_cases h3 : ct.length ≤ STREAM_BODY_MAX + 17
  · rw [objPullCode_eq_objPull P s ct ad h3]
    rcases objPull_cases P s ct ad with h | ⟨r, _, _, h⟩ <;> rw [h] <;> simp
  · rw [objPullCode_too_long P s ct ad (by omega)]; simp

/-- a rejected `DryocStream::pull`, statement by statement, leaves the stream state as it was — every length -/
theorem objPullCode_err_state (P : Prims) (s : State) (ct ad : Bytes)
    (h : (objPullCode P s ct ad).1 = .err) : (objPullCode P s ct ad).2 = s := by
  by_cases h3 : ct.length ≤ STREAM_BODY_MAX + 17
  · rw [objPullCode_eq_objPull P s ct ad h3] at h ⊢
    exact objPull_err_state P s ct ad h
  · rw [objPullCode_too_long P s ct ad (by omega)]

/-- pre-fix code (E16): the object layer inherited the defect: a ciphertext in the window whose authenticator
verifies -/
theorem objPullCodeOld16_panics_near_max (P : Prims) (s : State) (ct ad : Bytes)
    (h1 : STREAM_BODY_MAX + 17 < ct.length) (h3 : ct.length ≤ MESSAGEBYTES_MAX_RAW)
    (hauth : ct.drop (1 + (ct.length - 17)) = pullMac P s ct ad) :
    objPullCodeOld16 P s ct ad = (.panic, s) := by
  have hB := STREAM_BODY_MAX_eq
  unfold objPullCodeOld16 objPullRawGen
  rw [if_neg (by unfold ABYTES; omega), checkedSub_ok (by unfold ABYTES; omega)]
  have : pullRawWithOld16 true P s (zeros (ct.length - ABYTES)) 0 ct ad = ⟨.panic, _, 0, s⟩ :=
    pullRawOld16_panics_near_max P s _ 0 ct ad h1 h3 (by rw [zeros_length]; unfold ABYTES; omega) hauth
  simp only [this]

/-- pre-fix code (E16): alias of `objPullCodeOld16_panics_near_max` (old name; about `objPullCodeOld16`) -/
theorem objPullCode_panics_near_max (P : Prims) (s : State) (ct ad : Bytes)
    (h1 : STREAM_BODY_MAX + 17 < ct.length) (h3 : ct.length ≤ MESSAGEBYTES_MAX_RAW)
    (hauth : ct.drop (1 + (ct.length - 17)) = pullMac P s ct ad) :
    objPullCodeOld16 P s ct ad = (.panic, s) :=
  objPullCodeOld16_panics_near_max P s ct ad h1 h3 hauth

/-- pre-fix code (E16): outside the window the object layer before the fix is the current one -/
theorem objPullCodeOld16_eq_objPullCode (P : Prims) (s : State) (ct ad : Bytes)
    (h : ct.length ≤ STREAM_BODY_MAX + 17 ∨ MESSAGEBYTES_MAX_RAW < ct.length) :
    objPullCodeOld16 P s ct ad = objPullCode P s ct ad := by
  unfold objPullCodeOld16 objPullCode objPullRawWith objPullRawGen
  have : ∀ n, pullRawWithOld16 true P s (zeros n) 0 ct ad = pullRawWith true P s (zeros n) 0 ct ad :=
    fun n => pullRawOld16_eq_pullRaw P s (zeros n) 0 ct ad h
  simp only [this]

/-- what the `expect` of the code before the fix "pull keeps undefined tag bits" does to the current result: an accepted message whose tag
byte has a bit outside `0b11` becomes a panic — after the state has advanced -/
theorem objPullOld_eq (P : Prims) (s : State) (ct ad : Bytes) :
    objPullOld P s ct ad =
      match objPullCode P s ct ad with
      | (.ok (msg, t), st) => if t &&& 0xFC = 0 then (.ok (msg, t), st) else (.panic, st)
      | r => r := by
  unfold objPullOld objPullCode objPullRawWith objPullRawGen
  by_cases h1 : ct.length < ABYTES
  · simp [h1]
  · simp only [h1, and_false, if_false, if_true]
    rw [checkedSub_ok (by omega)]
    simp only []
    generalize pullRawWith true P s (zeros (ct.length - ABYTES)) 0 ct ad = r
    rcases r with ⟨res, buf, tag, st⟩
    cases res with
    | ok n =>
      simp only [Bool.false_eq_true, if_false]
      unfold tagFromBits
      by_cases ht : tag &&& 0xFC = 0
      · rw [if_pos ht, if_pos ht]; rfl
      · rw [if_neg ht, if_neg ht]; rfl
    | err => rfl
    | panic => rfl

theorem objPullNoGuard_short_panics (P : Prims) (s : State) (ct ad : Bytes) (h : ct.length < 17) :
    objPullNoGuard P s ct ad = (.panic, s) := by
  unfold objPullNoGuard objPullRawWith objPullRawGen
  rw [if_neg (by simp), checkedSub_panic (by unfold ABYTES; exact h)]

/-! ### a concrete (toy) instantiation for the non-vacuity examples

The key stream depends on the block counter and the authenticator on key length, message length and
byte sum, so that a tampered ciphertext IS rejected; small enough for kernel evaluation (`decide`). -/

def toyPrims : Prims where
  chacha := fun _ _ ctr len => List.replicate len (UInt8.ofNat (0x5a + ctr))
  hchacha := fun k _ => k
  mac := fun k m => toLE 16 (k.length + 7 * m.length + m.foldl (fun a b => a + b.toNat) 0)

def toyState : State := ⟨zeros 32, [1, 0, 0, 0, 9, 9, 9, 9, 9, 9, 9, 9]⟩

/-- `DryocStream::push` of the message "ABC" with tag byte `tag`: (ciphertext, sender state afterwards) -/
def toyPushed (tag : UInt8) : Bytes × State :=
  match objPush toyPrims toyState [0x41, 0x42, 0x43] [] tag with
  | .ok r => r
  | _ => ([], toyState)

end DryocVerif.Proofs.SecretStream
