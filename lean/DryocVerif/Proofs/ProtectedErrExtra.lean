import DryocVerif.Proofs.ProtectedRelExtra
/-
C19 helpers, second part: what an `err` OUTCOME (not the oracle's answer) implies.
-/
namespace DryocVerif.Proofs.Protected
open DryocVerif DryocVerif.Model.Protected

theorem failOracle_iff (K : Int) (i : Nat) : failOracle K i = false ↔ 1 ≤ K ∧ K ≤ (i : Int) := by
  simp [failOracle]

/-! ### pages outside the live blocks -/

theorem inv_unowned' {c : Cfg} {s : State} (h : Inv c s) {p : Nat}
    (hp : ∀ (i : Nat) (sl : Slot), s.slots[i]? = some sl → sl.gone = false → ¬ inBlock c.P sl.o.v p) :
    s.m.k.perm p = .rw := by
  apply h.outside p
  intro b hb
  obtain ⟨sl, hsl, rfl⟩ := List.mem_map.mp hb
  have hm := List.mem_filter.mp hsl
  obtain ⟨i, hi⟩ := List.getElem?_of_mem hm.1
  exact hp i sl hi (by simpa using hm.2)

theorem tight_unowned' {c : Cfg} {s : State} (h : Tight c s) {p : Nat}
    (hp : ∀ (i : Nat) (sl : Slot), s.slots[i]? = some sl → sl.gone = false → ¬ inBlock c.P sl.o.v p) :
    s.m.k.locked p = false := by
  apply h p
  intro b hb
  obtain ⟨sl, hsl, rfl⟩ := List.mem_map.mp hb
  have hm := List.mem_filter.mp hsl
  obtain ⟨i, hi⟩ := List.getElem?_of_mem hm.1
  exact hp i sl hi (by simpa using hm.2)

/-! ### a failed `lock`, from the outcome -/

theorem lockV_fail {c : Cfg} {m : Mach} {v : PVec} {pm : LM × PM} (h : (lockV c m v pm).2 = false) :
    (dryocMlock c m (ptr c v) v.len).2 = false ∧
    (lockV c m v pm).1 = protDrop c (dryocMlock c m (ptr c v) v.len).1 v pm.1 pm.2 := by
  unfold lockV at h ⊢
  by_cases hr : (dryocMlock c m (ptr c v) v.len).2 = true
  · simp [hr] at h
  · simp [hr]

/-- `lock` answered `err` on a live slot: the slot was in an unlocked state, the lock request
failed (refused, or failed in the kernel), and the slot is consumed -/
theorem lock_err_eq {c : Cfg} {s : State} {i : Nat} {sl : Slot} (hi : s.slots[i]? = some sl)
    (hg : sl.gone = false) (he : (step c s ⟨.lock, i⟩).1 = .err) :
    isUnlockedSt sl.o.st = true ∧ (lockV c (resetRel s).m sl.o.v (recOfLock sl.o)).2 = false ∧
    step c s ⟨.lock, i⟩ =
      (.err, setSlot (resetRel s) (lockV c (resetRel s).m sl.o.v (recOfLock sl.o)).1 i { sl with gone := true }) := by
  have hstep : step c s ⟨.lock, i⟩ = opLock c (resetRel s) i := rfl
  rw [hstep] at he ⊢
  by_cases hu : isUnlockedSt sl.o.st = true
  · rw [opLock_eq (s := resetRel s) hi hg hu] at he ⊢
    unfold doLock at he ⊢
    by_cases hr : (lockV c (resetRel s).m sl.o.v (recOfLock sl.o)).2 = true
    · simp [hr] at he
    · simp only [hr] at he ⊢
      exact ⟨hu, trivial, rfl⟩
  · exfalso
    unfold opLock at he
    rw [withLive_eq (s := resetRel s) hi hg] at he
    cases hst : sl.o.st with
    | plain => simp [hst, isUnlockedSt] at hu
    | prot lm pm =>
      cases lm
      · simp [hst, isUnlockedSt] at hu
      · simp [hst] at he

theorem blkOf_unlocked {o : Obj} (hu : isUnlockedSt o.st = true) :
    blkOf o = ⟨o.v, (pmOf o.st).perm, false⟩ := by
  unfold blkOf
  cases hst : o.st with
  | plain => rfl
  | prot lm pm =>
    cases lm
    · rfl
    · simp [hst, isUnlockedSt] at hu

/-- After a `lock` that answered `err` — whatever the cause — the consumed region is gone, its
block was released exactly once, zeroed, and every page of it is `rw` and unlocked.  The lock
flags need the repaired `dryoc_mlock` (`c.undo`), or a region that is not `NoAccess`. -/
theorem lock_err_cleans {c : Cfg} (hP : 0 < c.P) (hw : c.wipe = true) {s : State} (h : Inv c s)
    {i : Nat} {sl : Slot} (hi : s.slots[i]? = some sl) (hg : sl.gone = false)
    (he : (step c s ⟨.lock, i⟩).1 = .err)
    (hna : c.undo = true ∨ ((pmOf sl.o.st).perm ≠ .none ∧ s.m.oracle (s.m.cnt + 1) ≠ .failFlagged) ∨
      sl.o.v.len = 0) :
    (step c s ⟨.lock, i⟩).2.slots[i]? = some { sl with gone := true } ∧
    (step c s ⟨.lock, i⟩).2.m.rel = relOf sl.o.v.cap ∧
    (∀ p, inBlock c.P sl.o.v p →
      (step c s ⟨.lock, i⟩).2.m.k.perm p = .rw ∧ (step c s ⟨.lock, i⟩).2.m.k.locked p = false) := by
  have hinv := inv_step hP h ⟨.lock, i⟩ (fun hh => by simpa using hh.1)
  obtain ⟨hu, hf, heq⟩ := lock_err_eq hi hg he
  have hrcu : (recOfLock sl.o).1 = .unlocked := by
    unfold recOfLock
    cases hst : sl.o.st with
    | plain => rfl
    | prot lm pm =>
      cases lm
      · simp only []
        rw [h.rcd sl (List.mem_of_getElem? hi) hg _ _ hst]
      · simp [hst, isUnlockedSt] at hu
  obtain ⟨hf1, hf2⟩ := lockV_fail hf
  have hlt : i < s.slots.length := by
    rcases Nat.lt_or_ge i s.slots.length with h1 | h1
    · exact h1
    · rw [List.getElem?_eq_none h1] at hi; simp at hi
  rw [heq] at hinv ⊢
  refine ⟨?_, ?_, fun p hp => ⟨?_, ?_⟩⟩
  · simp [setSlot, resetRel, hlt]
  · simp only [setSlot]
    rw [lockV_rel c hw, hf]; simp [resetRel]
  · apply inv_unowned' hinv
    intro j sl' hj hg' hb
    simp only [setSlot, resetRel] at hj
    by_cases hji : j = i
    · subst hji
      rw [List.getElem?_set_self hlt] at hj
      simp at hj; rw [← hj] at hg'; simp at hg'
    · rw [List.getElem?_set_ne (by omega)] at hj
      exact Proofs.Protected.inv_disjoint h hi hj (by omega) hg hg' p ⟨hp, hb⟩
  · simp only [setSlot]
    rw [hf2, hrcu, protDrop_unlocked_locked]
    obtain ⟨l1, l2, hs, _⟩ := slot_split hi
    have g := good_head hs hg h.k
    rw [blkOf_unlocked hu] at g
    have gm := (good_dryocMlock hP (m := (resetRel s).m) g).1
    have hflag := dryocMlock_fail_flag hP (m := (resetRel s).m) g hna hf1
    rw [hflag] at gm
    exact (gm.ok _ List.mem_cons_self).all_unlocked rfl hp

/-- WITHOUT the undo `munlock` (`c.undo = false`) a `failFlagged` answer — the kernel flags the pages, then fails —
makes `lock` answer `err`, consume the region, and leave every data page of it flagged locked -/
theorem lock_failFlagged_leaks {c : Cfg} (hP : 0 < c.P) (hu : c.undo = false) {s : State} (hrec : RecOK s)
    {i : Nat} {sl : Slot} (hi : s.slots[i]? = some sl) (hg : sl.gone = false)
    (hus : isUnlockedSt sl.o.st = true) (hl : 0 < sl.o.v.len)
    (hor : s.m.oracle (s.m.cnt + 1) = .failFlagged) :
    (step c s ⟨.lock, i⟩).1 = .err ∧
    (step c s ⟨.lock, i⟩).2.slots[i]? = some { sl with gone := true } ∧
    ∀ p, sl.o.v.base + 1 ≤ p → p < sl.o.v.base + 1 + pagesOf c.P sl.o.v.len →
      (step c s ⟨.lock, i⟩).2.m.k.locked p = true := by
  have hrcu : (recOfLock sl.o).1 = .unlocked := by
    unfold recOfLock
    cases hst : sl.o.st with
    | plain => rfl
    | prot lm pm =>
      cases lm
      · simp only []
        rw [hrec sl (List.mem_of_getElem? hi) hg _ _ hst]
      · simp [hst, isUnlockedSt] at hus
  have hlt : i < s.slots.length := by
    rcases Nat.lt_or_ge i s.slots.length with h1 | h1
    · exact h1
    · rw [List.getElem?_eq_none h1] at hi; simp at hi
  have hm : dryocMlock c (resetRel s).m (ptr c sl.o.v) sl.o.v.len =
      (failedLock c (resetRel s).m
        (mlockK c.P (madviseK c.P s.m.k (ptr c sl.o.v) sl.o.v.len true) (ptr c sl.o.v) sl.o.v.len).1
        (ptr c sl.o.v) sl.o.v.len, false) := by
    have hor' : (resetRel s).m.oracle ((resetRel s).m.cnt + 1) = .failFlagged := hor
    unfold dryocMlock
    rw [if_neg (show sl.o.v.len ≠ 0 by omega)]
    simp only [hor']
    rfl
  have hstep : step c s ⟨.lock, i⟩ = opLock c (resetRel s) i := rfl
  rw [hstep, opLock_eq (s := resetRel s) hi hg hus]
  unfold doLock lockV
  simp only [hm, Bool.false_eq_true, if_false]
  refine ⟨trivial, by simp [setSlot, resetRel, hlt], fun p h1 h2 => ?_⟩
  simp only [setSlot]
  rw [hrcu, protDrop_unlocked_locked]
  simp only [failedLock, hu, Bool.false_eq_true, if_false, ptr_eq]
  rw [mlockK_locked hP]; simp [h1, h2]

/-- `mlock` on a non-empty region whose data pages are `PROT_NONE` fails, whatever the oracle answers: refused, or
failing in the kernel (the pages cannot be populated) -/
theorem dryocMlock_na_fails {c : Cfg} (hP : 0 < c.P) {m : Mach} {v : PVec} {dl : Bool} {R : List Blk}
    (g : GoodL c.P m.k (⟨v, .none, dl⟩ :: R)) (hl : 0 < v.len) : (dryocMlock c m (ptr c v) v.len).2 = false := by
  have ho := g.ok _ (List.mem_cons_self)
  unfold dryocMlock
  rw [if_neg (by omega)]
  simp only []
  cases hor : m.oracle (m.cnt + 1) with
  | grant =>
    simp only [mlockK_madvise_snd]
    by_cases hk : (mlockK c.P m.k (ptr c v) v.len).2 = true
    · exfalso
      rw [ptr_eq, mlockK_ok_iff hP] at hk
      have hpos := pagesOf_pos hP hl
      have hd := ho.data (v.base + 1) (Nat.le_refl _) (by simp only []; omega)
      exact hk (v.base + 1) (Nat.le_refl _) (by omega) hd.1
    · simp [hk]
  | refuse => rfl
  | failFlagged => rfl

/-- **`lock` on a non-empty `NoAccess` region always answers `err`** (state satisfying `Inv`, any oracle): the kernel
model never reaches "`PROT_NONE` and locked" for a non-empty region, although the table (`permits … .lock`) offers
the transition for `pm = NoAccess` -/
theorem lock_na_errs {c : Cfg} (hP : 0 < c.P) {s : State} (h : Inv c s) {i : Nat} {sl : Slot}
    (hi : s.slots[i]? = some sl) (hg : sl.gone = false) (hl : 0 < sl.o.v.len)
    (hst : sl.o.st = .prot .unlocked .na) : (step c s ⟨.lock, i⟩).1 = .err := by
  have hi' : (resetRel s).slots[i]? = some sl := hi
  obtain ⟨l1, l2, hs, _⟩ := slot_split hi
  have g := good_head (s := resetRel s) hs hg h.resetRel.k
  simp only [blkOf, hst, stPerm, PM.perm] at g
  have hf := dryocMlock_na_fails hP g hl
  show (opLock c (resetRel s) i).1 = .err
  rw [opLock_eq (s := resetRel s) hi' hg (by rw [hst]; rfl)]
  unfold doLock lockV
  simp [hf]

/-! ### failed constructors -/

/-- `zeroize` never answers `err` -/
theorem zeroize_not_err (c : Cfg) (s : State) (t : Tok) (he : (step c s t).1 = .err) : t.op ≠ .zeroize := by
  intro hop
  have : (step c s t).1 = (opZeroize c (resetRel s) t.idx).1 := by
    unfold step stepCore; rw [hop]
  rw [this] at he
  revert he
  unfold opZeroize
  apply withLive_elim (Q := fun r => r.1 = .err → False)
  · simp
  · simp
  · intro sl _ _ _ _ _; split <;> simp

theorem countP_range_extend (f : Nat → Bool) (b : Nat) (hf : ∀ p, b ≤ p → f p = false) (d : Nat) :
    (List.range (b + d)).countP f = (List.range b).countP f := by
  induction d with
  | zero => rfl
  | succ d ih =>
    rw [← Nat.add_assoc, List.range_succ, List.countP_append, ih]
    simp [hf (b + d) (by omega)]

theorem lockedPages_eq {k k' : Kernel} (hl : ∀ p, k'.locked p = k.locked p)
    (hf : ∀ p, k.brk ≤ p → k.locked p = false) (hf' : ∀ p, k'.brk ≤ p → k'.locked p = false) :
    lockedPages k' = lockedPages k := by
  unfold lockedPages
  have e : (fun i => k'.locked i) = fun i => k.locked i := funext hl
  rw [e]
  rcases Nat.le_total k.brk k'.brk with h | h
  · obtain ⟨d, hd⟩ := Nat.exists_eq_add_of_le h
    rw [hd, countP_range_extend _ _ hf]
  · obtain ⟨d, hd⟩ := Nat.exists_eq_add_of_le h
    rw [hd, countP_range_extend _ _ (fun p hp => by rw [← hl]; exact hf' p hp)]

/-- two states with the SAME slots that both satisfy `Inv` and `Tight` have the same kernel, page by page: the
slots determine every page of their blocks, and everything else is `rw`, unlocked -/
theorem same_slots_same_kernel {c : Cfg} {s s' : State} (h : Inv c s) (ht : Tight c s) (hinv : Inv c s')
    (htight : Tight c s') (hslots : s'.slots = s.slots) :
    (∀ p, s'.m.k.perm p = s.m.k.perm p ∧ s'.m.k.locked p = s.m.k.locked p) ∧
    lockedPages s'.m.k = lockedPages s.m.k := by
  have hpt : ∀ p, s'.m.k.perm p = s.m.k.perm p ∧ s'.m.k.locked p = s.m.k.locked p := by
    intro p
    by_cases hex : ∃ (j : Nat) (sl : Slot), s.slots[j]? = some sl ∧ sl.gone = false ∧ inBlock c.P sl.o.v p
    · obtain ⟨j, sl, hj, hg, hp⟩ := hex
      exact others_untouched h hinv hj (by rw [hslots]; exact hj) hg hp
    · have hno : ∀ (j : Nat) (sl : Slot), s.slots[j]? = some sl → sl.gone = false → ¬ inBlock c.P sl.o.v p :=
        fun j sl hj hg hp => hex ⟨j, sl, hj, hg, hp⟩
      have hno' : ∀ (j : Nat) (sl : Slot), s'.slots[j]? = some sl → sl.gone = false →
          ¬ inBlock c.P sl.o.v p := by rw [hslots]; exact hno
      rw [inv_unowned' h hno, inv_unowned' hinv hno', tight_unowned' ht hno, tight_unowned' htight hno']
      exact ⟨rfl, rfl⟩
  exact ⟨hpt, lockedPages_eq (fun p => (hpt p).2) (fun p hp => (h.fresh p hp).2)
    (fun p hp => (hinv.fresh p hp).2)⟩

/-- a token that answers `err` and is not `lock` (a failed constructor: `fsl`, `fsro`, `newlocked`,
`genlocked`, `newrolocked`, `genrolocked`, `stacklock`, `serde`) leaves the slots AND every page of the kernel as
they were: the half-built region has been unlocked, made `rw` and released -/
theorem err_create_kernel {c : Cfg} (hP : 0 < c.P) {s : State} (h : Inv c s) (ht : Tight c s)
    (hl : Leakless c s.m) (t : Tok) (hop : t.op ≠ .lock) (he : (step c s t).1 = .err) :
    (step c s t).2.slots = s.slots ∧
    (∀ p, (step c s t).2.m.k.perm p = s.m.k.perm p ∧ (step c s t).2.m.k.locked p = s.m.k.locked p) ∧
    lockedPages (step c s t).2.m.k = lockedPages s.m.k := by
  have hslots : (step c s t).2.slots = s.slots := by
    rcases err_shape c (resetRel s) t he with h1 | ⟨h1, _⟩
    · exact h1
    · exact absurd h1 hop
  have hinv := inv_step hP h t (fun hh => zeroize_not_err c s t he hh.1)
  have htight := tight_step hP h ht t (hl.imp id (fun hn => ⟨fun hl => hop hl.1, hn⟩))
  exact ⟨hslots, same_slots_same_kernel h ht hinv htight hslots⟩

/-- the release log of a failed creation: exactly the block of the container that could not be locked -/
theorem doNewLocked_err_rel (c : Cfg) (hw : c.wipe = true) (s : State) (m : Mach) (v : PVec)
    (src : Option Bytes) (ro rnd : Bool) (he : (doNewLocked c s m v src ro rnd).1 = .err) :
    (doNewLocked c s m v src ro rnd).2.m.rel = m.rel ++ relOf v.cap := by
  unfold doNewLocked at he ⊢
  by_cases hr : (lockV c m v recNew).2 = true
  · simp [hr] at he
  · simp only [hr, if_false, Bool.false_eq_true]
    rw [lockV_rel c hw]; simp [hr]

/-- `from_slice_into_locked` on a resizable container: a refusal releases exactly the freshly
sized block (`growCap 0 n` bytes, zeroed) -/
theorem fsl_err_rel (c : Cfg) (hw : c.wipe = true) (ha : c.isArr = false) (s : State) (n : Nat) (ro : Bool)
    (hm : s.m.rel = []) (he : (doFromSlice c s n ro).1 = .err) :
    (doFromSlice c s n ro).2.m.rel = relOf (if n = 0 then 0 else growCap 0 n) := by
  unfold doFromSlice at he ⊢
  simp only [ha, Bool.false_eq_true, if_false] at he ⊢
  rw [doNewLocked_err_rel c hw _ _ _ _ _ _ he, vecResize_empty_rel c hw, vecResize_empty_cap, hm]
  rfl

end DryocVerif.Proofs.Protected
