import DryocVerif.Proofs.Protected
import DryocVerif.Proofs.ProtectedErr
/-
What the probe tokens (`wprobe`, `rprobe`, `gprobe`) answer in a state satisfying `Inv`:
the answer is determined by the type state of the probed slot.  (C14 item "a write to a
read-only region / any access to a no-access region faults", and the bridge used by C20.)
-/
namespace DryocVerif.Proofs.Protected
open DryocVerif DryocVerif.Model.Protected

/-- the character the harness prints for a mapped page with permission `p` -/
def permCh : Perm → Char
  | .rw => 'w' | .r => 'r' | .none => 'n'

theorem permChar_in {k : Kernel} {p : Nat} (h1 : startPage ≤ p) (h2 : p < k.brk) :
    permChar k p = permCh (k.perm p) := by
  unfold permChar permCh
  rw [if_neg (by omega)]
  cases k.perm p <;> rfl

theorem probe_page {c : Cfg} (hP : 0 < c.P) (v : PVec) (off : Nat) :
    probeAddrPage c v off = v.base + 1 + off / c.P := by
  unfold probeAddrPage; rw [ptr_eq, div_aligned_add hP]

theorem off_div_lt {P : Nat} (hP : 0 < P) {off len : Nat} (h : off < len) : off / P < pagesOf P len := by
  unfold pagesOf
  have h1 : off / P ≤ (len - 1) / P := Nat.div_le_div_right (by omega)
  have e : len + P - 1 = (len - 1) + P := by omega
  rw [e, Nat.add_div_right _ hP]; omega

/-- the page holding byte `off` of a live region shows the permission of the region's type state -/
theorem data_page_char {c : Cfg} (hP : 0 < c.P) {s : State} (h : Inv c s) {i : Nat} {sl : Slot}
    (hi : s.slots[i]? = some sl) (hg : sl.gone = false) {off : Nat} (hoff : off < sl.o.v.len) :
    permChar s.m.k (probeAddrPage c sl.o.v off) = permCh (stPerm sl.o.st) := by
  have hb := inv_block h hi hg
  have hlen : sl.o.v.len ≤ sl.o.v.cap := hb.lenle
  have hc : 0 < sl.o.v.cap := by omega
  have h1 := off_div_lt hP hoff
  have h2 := pagesOf_le hP hlen
  have hlo : startPage ≤ sl.o.v.base := hb.lo hc
  have hhi : sl.o.v.base + sl.o.v.cap / c.P + 3 ≤ s.m.k.brk := hb.hi hc
  have hz := Nat.zero_le (sl.o.v.cap / c.P)
  have hz' := Nat.zero_le (off / c.P)
  rw [probe_page hP, permChar_in (by omega) (by omega)]
  have := (hb.data (sl.o.v.base + 1 + off / c.P) (by simp only [blkOf]; omega)
    (by simp only [blkOf]; omega)).1
  rw [this]; rfl

theorem step_wprobe (c : Cfg) (s : State) (i off : Nat) :
    step c s ⟨.wprobe off, i⟩ = opWProbe c (resetRel s) i off := rfl
theorem step_rprobe (c : Cfg) (s : State) (i off : Nat) :
    step c s ⟨.rprobe off, i⟩ = opRProbe c (resetRel s) i off := rfl
theorem step_gprobe (c : Cfg) (s : State) (i : Nat) (fore : Bool) :
    step c s ⟨.gprobe fore, i⟩ = opGProbe c (resetRel s) i fore := rfl

/-- a write probe at a valid offset succeeds iff the region's pages are `rw` -/
theorem opWProbe_eq {c : Cfg} (hP : 0 < c.P) {s : State} (h : Inv c s) {i : Nat} {sl : Slot}
    (hi : s.slots[i]? = some sl) (hg : sl.gone = false) {off : Nat} (hoff : off < sl.o.v.len) :
    opWProbe c s i off = (if stPerm sl.o.st = .rw then .ok else .segv, s) := by
  unfold opWProbe
  rw [withLive_eq hi hg, if_neg (by omega), data_page_char hP h hi hg hoff]
  cases stPerm sl.o.st <;> simp [permCh]

/-- a read probe at a valid offset succeeds iff the region's pages are not `PROT_NONE` -/
theorem opRProbe_eq {c : Cfg} (hP : 0 < c.P) {s : State} (h : Inv c s) {i : Nat} {sl : Slot}
    (hi : s.slots[i]? = some sl) (hg : sl.gone = false) {off : Nat} (hoff : off < sl.o.v.len) :
    opRProbe c s i off = (if stPerm sl.o.st = .none then .segv else .ok, s) := by
  unfold opRProbe
  rw [withLive_eq hi hg, if_neg (by omega), data_page_char hP h hi hg hoff]
  cases stPerm sl.o.st <;> simp [permCh, accessible]

/-! ### guard pages -/

theorem scanAfter_hit (k : Kernel) (fuel : Nat) : ∀ (p q : Nat), p ≤ q → q - p < fuel →
    (∀ x, p ≤ x → x < q → accessible (permChar k x) = true) →
    accessible (permChar k q) = false → (scanAfter k fuel p).2 = q := by
  induction fuel with
  | zero => intro p q _ hf; omega
  | succ fuel ih =>
    intro p q hpq hf hacc hq
    simp only [scanAfter]
    by_cases hp : p = q
    · subst hp; simp [hq]
    · have ha := hacc p (Nat.le_refl _) (by omega)
      simp only [ha, if_true]
      exact ih (p + 1) q (by omega) (by omega) (fun x h1 h2 => hacc x (by omega) h2) hq

/-- the page before the data of a live non-empty region is inaccessible -/
theorem fore_guard_char {c : Cfg} {s : State} (h : Inv c s) {i : Nat} {sl : Slot}
    (hi : s.slots[i]? = some sl) (hg : sl.gone = false) (hl : 0 < sl.o.v.len) :
    permChar s.m.k sl.o.v.base = 'n' := by
  have hb := inv_block h hi hg
  have hlen : sl.o.v.len ≤ sl.o.v.cap := hb.lenle
  have hc : 0 < sl.o.v.cap := by omega
  have hlo : startPage ≤ sl.o.v.base := hb.lo hc
  have hhi : sl.o.v.base + sl.o.v.cap / c.P + 3 ≤ s.m.k.brk := hb.hi hc
  have hz := Nat.zero_le (sl.o.v.cap / c.P)
  rw [permChar_in hlo (by omega)]
  have : s.m.k.perm sl.o.v.base = .none := (hb.fore hc).1
  rw [this]; rfl

/-- the scan for the first inaccessible page after the data ends on the trailing guard page,
provided the spare capacity is shorter than the 40 pages the harness looks at -/
theorem aft_scan {c : Cfg} (hP : 0 < c.P) {s : State} (h : Inv c s) {i : Nat} {sl : Slot}
    (hi : s.slots[i]? = some sl) (hg : sl.gone = false) (hl : 0 < sl.o.v.len)
    (hsp : sl.o.v.cap / c.P + 1 < pagesOf c.P sl.o.v.len + 40) :
    (scanAfter s.m.k 40 (sl.o.v.base + 1 + pagesOf c.P sl.o.v.len)).2 = sl.o.v.base + sl.o.v.cap / c.P + 2 ∧
    permChar s.m.k (sl.o.v.base + sl.o.v.cap / c.P + 2) = 'n' := by
  have hb := inv_block h hi hg
  have hlen : sl.o.v.len ≤ sl.o.v.cap := hb.lenle
  have hc : 0 < sl.o.v.cap := by omega
  have h2 := pagesOf_le hP hlen
  have hlo : startPage ≤ sl.o.v.base := hb.lo hc
  have hhi : sl.o.v.base + sl.o.v.cap / c.P + 3 ≤ s.m.k.brk := hb.hi hc
  have hz := Nat.zero_le (sl.o.v.cap / c.P)
  have hq : permChar s.m.k (sl.o.v.base + sl.o.v.cap / c.P + 2) = 'n' := by
    rw [permChar_in (by omega) (by omega)]
    have : s.m.k.perm (sl.o.v.base + sl.o.v.cap / c.P + 2) = .none := (hb.aft hc).1
    rw [this]; rfl
  refine ⟨scanAfter_hit _ _ _ _ (by omega) (by omega) ?_ (by rw [hq]; decide), hq⟩
  intro x h1 h3
  rw [permChar_in (by omega) (by omega)]
  have : s.m.k.perm x = .rw := (hb.spare hc x (by simp only [blkOf]; omega) (by simp only [blkOf]; omega)).1
  rw [this]; decide

theorem opGProbe_fore {c : Cfg} {s : State} (h : Inv c s) {i : Nat} {sl : Slot}
    (hi : s.slots[i]? = some sl) (hg : sl.gone = false) (hl : 0 < sl.o.v.len) :
    opGProbe c s i true = (.segv, s) := by
  unfold opGProbe
  rw [withLive_eq hi hg, if_neg (by omega)]
  simp only [if_true, fore_guard_char h hi hg hl]
  rfl

theorem opGProbe_aft {c : Cfg} (hP : 0 < c.P) {s : State} (h : Inv c s) {i : Nat} {sl : Slot}
    (hi : s.slots[i]? = some sl) (hg : sl.gone = false) (hl : 0 < sl.o.v.len)
    (hsp : sl.o.v.cap / c.P + 1 < pagesOf c.P sl.o.v.len + 40) :
    opGProbe c s i false = (.segv, s) := by
  have ha := aft_scan hP h hi hg hl hsp
  unfold opGProbe
  rw [withLive_eq hi hg, if_neg (by omega)]
  simp only [Bool.false_eq_true, if_false, ha.1, ha.2]
  rfl

/-- a block that was never shrunk (`cap = len`) has at most one spare page -/
theorem spare_small {P : Nat} (hP : 0 < P) (n : Nat) : n / P + 1 < pagesOf P n + 40 := by
  unfold pagesOf
  have : n / P ≤ (n + P - 1) / P := Nat.div_le_div_right (by omega)
  omega

end DryocVerif.Proofs.Protected
