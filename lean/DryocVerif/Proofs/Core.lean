import DryocVerif.Model.Core
import DryocVerif.Spec.Salsa20
import DryocVerif.Spec.ChaCha20
import DryocVerif.Spec.SipHash
import DryocVerif.Spec.Hmac
import DryocVerif.Proofs.Blake2bCompress
import DryocVerif.Proofs.CtEq
/-
`Model.Core` (the shape of crypto_core.rs / siphash24.rs / crypto_auth.rs) equals the executable
specifications `Spec.Salsa20.hsalsa20`, `Spec.ChaCha20.hchacha20`, `Spec.SipHash.siphash24`,
`Spec.Hmac.hmacSha512256`.  Core only.
-/
namespace DryocVerif.Proofs.Core
open DryocVerif
open DryocVerif.Model.Core
open DryocVerif.Model.Utils (loadU64LE slice)
open DryocVerif.Proofs.Poly1305 (or_mul_two_pow)

/-! ### `load_u32_le` -/

theorem or4 (b0 b1 b2 b3 : Nat) (h0 : b0 < 256) (h1 : b1 < 256) (h2 : b2 < 256) (h3 : b3 < 256) :
    b0 ||| b1 <<< 8 % 2^32 ||| b2 <<< 16 % 2^32 ||| b3 <<< 24 % 2^32
    = (b0 + 256 * (b1 + 256 * (b2 + 256 * (b3 + 256 * 0)))) % 2^32 := by
  simp only [Nat.shiftLeft_eq]
  have e1 : b1 * 2^8 % 2^32 = b1 * 2^8 := Nat.mod_eq_of_lt (by omega)
  have e2 : b2 * 2^16 % 2^32 = b2 * 2^16 := Nat.mod_eq_of_lt (by omega)
  have e3 : b3 * 2^24 % 2^32 = b3 * 2^24 := Nat.mod_eq_of_lt (by omega)
  rw [e1, e2, e3]
  rw [or_mul_two_pow _ _ 8 (by omega), or_mul_two_pow _ _ 16 (by omega),
    or_mul_two_pow _ _ 24 (by omega)]
  omega

theorem loadU32LE_eq4 (b0 b1 b2 b3 : UInt8) :
    loadU32LE [b0, b1, b2, b3] = UInt32.ofNat (le [b0, b1, b2, b3]) := by
  apply UInt32.toNat.inj
  simp only [loadU32LE, le, List.getD_cons_zero, List.getD_cons_succ, UInt32.toNat_or, UInt32.toNat_shiftLeft,
    UInt8.toNat_toUInt32, UInt32.toNat_ofNat']
  exact or4 _ _ _ _ b0.toNat_lt b1.toNat_lt b2.toNat_lt b3.toNat_lt

theorem loadU32LE_eq (xs : Bytes) (h : xs.length = 4) : loadU32LE xs = UInt32.ofNat (le xs) := by
  match xs, h with
  | [b0, b1, b2, b3], _ => exact loadU32LE_eq4 b0 b1 b2 b3

theorem list16 (l : Bytes) (h : l.length = 16) :
    ∃ a0 a1 a2 a3 a4 a5 a6 a7 a8 a9 a10 a11 a12 a13 a14 a15,
      l = [a0, a1, a2, a3, a4, a5, a6, a7, a8, a9, a10, a11, a12, a13, a14, a15] := by
  match l, h with
  | [a0, a1, a2, a3, a4, a5, a6, a7, a8, a9, a10, a11, a12, a13, a14, a15], _ =>
    exact ⟨a0, a1, a2, a3, a4, a5, a6, a7, a8, a9, a10, a11, a12, a13, a14, a15, rfl⟩

theorem list32 (l : Bytes) (h : l.length = 32) :
    ∃ a b : Bytes, a.length = 16 ∧ b.length = 16 ∧ l = a ++ b :=
  ⟨l.take 16, l.drop 16, by simp [h], by simp [h], (List.take_append_drop 16 l).symm⟩

/-- the sixteen variables as the specification's state array -/
def toArr (s : X16) : Array UInt32 :=
  #[s.x0, s.x1, s.x2, s.x3, s.x4, s.x5, s.x6, s.x7, s.x8, s.x9, s.x10, s.x11, s.x12, s.x13, s.x14, s.x15]

theorem repeat_toArr (f : X16 → X16) (g : Array UInt32 → Array UInt32)
    (h : ∀ s, toArr (f s) = g (toArr s)) (n : Nat) (s : X16) :
    toArr (Nat.repeat f n s) = Nat.repeat g n (toArr s) := by
  induction n with
  | zero => rfl
  | succ n ih => simp only [Nat.repeat, h, ih]

/-- the word `load_u32_le(&c[4 * i..4 * i + 4])` of a 16-byte constant -/
def constWord (c : Bytes) (i : Nat) : UInt32 := loadU32LE (slice c (4 * i) (4 * i + 4))

/-- a 16-byte constant as the `Option<(u32, u32, u32, u32)>` argument -/
def constOfBytes (c : Bytes) : Option (UInt32 × UInt32 × UInt32 × UInt32) :=
  some (constWord c 0, constWord c 1, constWord c 2, constWord c 3)

/-! ### HSalsa20 -/

section Salsa

/-- the 32 statements regrouped as eight Salsa20 quarter-rounds -/
def salsaBodyQ (s : X16) : X16 :=
  let ⟨x0, x1, x2, x3, x4, x5, x6, x7, x8, x9, x10, x11, x12, x13, x14, x15⟩ := s
  let (x0, x4, x8, x12) := Spec.Salsa20.qr x0 x4 x8 x12
  let (x5, x9, x13, x1) := Spec.Salsa20.qr x5 x9 x13 x1
  let (x10, x14, x2, x6) := Spec.Salsa20.qr x10 x14 x2 x6
  let (x15, x3, x7, x11) := Spec.Salsa20.qr x15 x3 x7 x11
  let (x0, x1, x2, x3) := Spec.Salsa20.qr x0 x1 x2 x3
  let (x5, x6, x7, x4) := Spec.Salsa20.qr x5 x6 x7 x4
  let (x10, x11, x8, x9) := Spec.Salsa20.qr x10 x11 x8 x9
  let (x15, x12, x13, x14) := Spec.Salsa20.qr x15 x12 x13 x14
  ⟨x0, x1, x2, x3, x4, x5, x6, x7, x8, x9, x10, x11, x12, x13, x14, x15⟩

theorem hsalsa20Body_eq_Q (s : X16) : hsalsa20Body s = salsaBodyQ s := by
  obtain ⟨x0, x1, x2, x3, x4, x5, x6, x7, x8, x9, x10, x11, x12, x13, x14, x15⟩ := s
  rfl

open Spec.Salsa20 in
/-- one iteration of the code's loop = `doubleround` on the state array -/
theorem hsalsa20Body_eq_doubleRound (s : X16) :
    toArr (hsalsa20Body s) = Spec.Salsa20.doubleRound (toArr s) := by
  rw [hsalsa20Body_eq_Q]
  obtain ⟨x0, x1, x2, x3, x4, x5, x6, x7, x8, x9, x10, x11, x12, x13, x14, x15⟩ := s
  simp [doubleRound, rowRound, columnRound, applyTable, rowIdx, colIdx, quarterRound, toArr, salsaBodyQ]

theorem hsalsa20_rounds (s : X16) :
    toArr (Nat.repeat hsalsa20Body 10 s) = Spec.Salsa20.rounds20 (toArr s) :=
  repeat_toArr _ _ hsalsa20Body_eq_doubleRound 10 s

open Spec.Salsa20 in
theorem hsalsa20_init (key inp c : Bytes) (hk : key.length = 32) (hi : inp.length = 16) (hc : c.length = 16) :
    toArr (hsalsa20Init key inp (constOfBytes c)) = wordsOfBytes (expandInput key inp c) := by
  obtain ⟨ka, kb, hka, hkb, rfl⟩ := list32 key hk
  obtain ⟨a0, a1, a2, a3, a4, a5, a6, a7, a8, a9, a10, a11, a12, a13, a14, a15, rfl⟩ := list16 ka hka
  obtain ⟨b0, b1, b2, b3, b4, b5, b6, b7, b8, b9, b10, b11, b12, b13, b14, b15, rfl⟩ := list16 kb hkb
  obtain ⟨i0, i1, i2, i3, i4, i5, i6, i7, i8, i9, i10, i11, i12, i13, i14, i15, rfl⟩ := list16 inp hi
  obtain ⟨c0, c1, c2, c3, c4, c5, c6, c7, c8, c9, c10, c11, c12, c13, c14, c15, rfl⟩ := list16 c hc
  show #[loadU32LE [c0, c1, c2, c3], loadU32LE [a0, a1, a2, a3], loadU32LE [a4, a5, a6, a7],
      loadU32LE [a8, a9, a10, a11], loadU32LE [a12, a13, a14, a15], loadU32LE [c4, c5, c6, c7],
      loadU32LE [i0, i1, i2, i3], loadU32LE [i4, i5, i6, i7], loadU32LE [i8, i9, i10, i11],
      loadU32LE [i12, i13, i14, i15], loadU32LE [c8, c9, c10, c11], loadU32LE [b0, b1, b2, b3],
      loadU32LE [b4, b5, b6, b7], loadU32LE [b8, b9, b10, b11], loadU32LE [b12, b13, b14, b15],
      loadU32LE [c12, c13, c14, c15]] = _
  simp only [loadU32LE_eq4]
  rfl

theorem sigma_const : constantsOrDefault none = constantsOrDefault (constOfBytes Spec.Salsa20.sigma) := by
  decide

theorem toArr_get (s : X16) :
    (toArr s)[0]! = s.x0 ∧ (toArr s)[5]! = s.x5 ∧ (toArr s)[10]! = s.x10 ∧ (toArr s)[15]! = s.x15 ∧
    (toArr s)[6]! = s.x6 ∧ (toArr s)[7]! = s.x7 ∧ (toArr s)[8]! = s.x8 ∧ (toArr s)[9]! = s.x9 :=
  ⟨rfl, rfl, rfl, rfl, rfl, rfl, rfl, rfl⟩

/-- HSalsa20 with an explicit 16-byte constant -/
theorem hsalsa20_const_eq_spec (key inp c : Bytes) (hk : key.length = 32) (hi : inp.length = 16)
    (hc : c.length = 16) :
    hsalsa20 key inp (constOfBytes c) = Spec.Salsa20.hsalsa20 key inp c := by
  unfold hsalsa20 Spec.Salsa20.hsalsa20
  simp only []
  rw [← hsalsa20_init key inp c hk hi hc, ← hsalsa20_rounds]
  obtain ⟨h0, h5, h10, h15, h6, h7, h8, h9⟩ := toArr_get (Nat.repeat hsalsa20Body 10 (hsalsa20Init key inp (constOfBytes c)))
  rw [h0, h5, h10, h15, h6, h7, h8, h9]
  simp [Spec.Salsa20.bytesOfWords, u32ToLE]

theorem hsalsa20Init_none (key inp : Bytes) :
    hsalsa20Init key inp none = hsalsa20Init key inp (constOfBytes Spec.Salsa20.sigma) := by
  unfold hsalsa20Init; rw [sigma_const]

/-- HSalsa20 with the default constant "expand 32-byte k" -/
theorem hsalsa20_eq_spec (key inp : Bytes) (hk : key.length = 32) (hi : inp.length = 16) :
    hsalsa20 key inp none = Spec.Salsa20.hsalsa20 key inp := by
  rw [← hsalsa20_const_eq_spec key inp Spec.Salsa20.sigma hk hi rfl]
  unfold hsalsa20; rw [hsalsa20Init_none]

theorem loadU32LE_u32ToLE (c : UInt32) : loadU32LE (u32ToLE c) = c := by
  have e : u32ToLE c = [UInt8.ofNat (c.toNat % 256), UInt8.ofNat (c.toNat / 256 % 256),
      UInt8.ofNat (c.toNat / 256 / 256 % 256), UInt8.ofNat (c.toNat / 256 / 256 / 256 % 256)] := rfl
  rw [e, loadU32LE_eq4]
  apply UInt32.toNat.inj
  have := c.toNat_lt
  simp only [le, UInt32.toNat_ofNat', UInt8.toNat_ofNat']
  omega

/-- the byte string the four constant words stand for -/
def constBytes (c : UInt32 × UInt32 × UInt32 × UInt32) : Bytes :=
  u32ToLE c.1 ++ u32ToLE c.2.1 ++ u32ToLE c.2.2.1 ++ u32ToLE c.2.2.2

theorem constOfBytes_constBytes (c : UInt32 × UInt32 × UInt32 × UInt32) :
    constOfBytes (constBytes c) = some c := by
  obtain ⟨c0, c1, c2, c3⟩ := c
  have e0 : constWord (constBytes (c0, c1, c2, c3)) 0 = loadU32LE (u32ToLE c0) := rfl
  have e1 : constWord (constBytes (c0, c1, c2, c3)) 1 = loadU32LE (u32ToLE c1) := rfl
  have e2 : constWord (constBytes (c0, c1, c2, c3)) 2 = loadU32LE (u32ToLE c2) := rfl
  have e3 : constWord (constBytes (c0, c1, c2, c3)) 3 = loadU32LE (u32ToLE c3) := rfl
  simp only [constOfBytes, e0, e1, e2, e3, loadU32LE_u32ToLE]

theorem constBytes_length (c : UInt32 × UInt32 × UInt32 × UInt32) : (constBytes c).length = 16 := rfl

/-- HSalsa20 with the constants given as four words (the Rust signature) -/
theorem hsalsa20_words_eq_spec (key inp : Bytes) (c : UInt32 × UInt32 × UInt32 × UInt32)
    (hk : key.length = 32) (hi : inp.length = 16) :
    hsalsa20 key inp (some c) = Spec.Salsa20.hsalsa20 key inp (constBytes c) := by
  rw [← hsalsa20_const_eq_spec key inp _ hk hi (constBytes_length c), constOfBytes_constBytes]

end Salsa

/-! ### HChaCha20 -/

section ChaCha

theorem chachaQR_eq (a b c d : UInt32) : chacha20QuarterRound a b c d = Spec.ChaCha20.qr a b c d := rfl

open Spec.ChaCha20 in
/-- one iteration of the code's loop = `inner_block` on the state array -/
theorem hchacha20Body_eq_innerBlock (s : X16) :
    toArr (hchacha20Body s) = Spec.ChaCha20.innerBlock (toArr s) := by
  obtain ⟨x0, x1, x2, x3, x4, x5, x6, x7, x8, x9, x10, x11, x12, x13, x14, x15⟩ := s
  simp [innerBlock, innerIdx, quarterRound, toArr, hchacha20Body, chachaQR_eq]

theorem hchacha20_rounds (s : X16) :
    toArr (Nat.repeat hchacha20Body 10 s) = Spec.ChaCha20.rounds20 (toArr s) :=
  repeat_toArr _ _ hchacha20Body_eq_innerBlock 10 s

open Spec.ChaCha20 in
theorem hchacha20_init (key inp : Bytes) (c : UInt32 × UInt32 × UInt32 × UInt32)
    (hk : key.length = 32) (hi : inp.length = 16) :
    toArr (hchacha20Init key inp (some c)) =
      #[c.1, c.2.1, c.2.2.1, c.2.2.2] ++ wordsOfBytes (key.take 32) ++ wordsOfBytes (inp.take 16) := by
  obtain ⟨c0, c1, c2, c3⟩ := c
  obtain ⟨ka, kb, hka, hkb, rfl⟩ := list32 key hk
  obtain ⟨a0, a1, a2, a3, a4, a5, a6, a7, a8, a9, a10, a11, a12, a13, a14, a15, rfl⟩ := list16 ka hka
  obtain ⟨b0, b1, b2, b3, b4, b5, b6, b7, b8, b9, b10, b11, b12, b13, b14, b15, rfl⟩ := list16 kb hkb
  obtain ⟨i0, i1, i2, i3, i4, i5, i6, i7, i8, i9, i10, i11, i12, i13, i14, i15, rfl⟩ := list16 inp hi
  show #[c0, c1, c2, c3, loadU32LE [a0, a1, a2, a3], loadU32LE [a4, a5, a6, a7],
      loadU32LE [a8, a9, a10, a11], loadU32LE [a12, a13, a14, a15], loadU32LE [b0, b1, b2, b3],
      loadU32LE [b4, b5, b6, b7], loadU32LE [b8, b9, b10, b11], loadU32LE [b12, b13, b14, b15],
      loadU32LE [i0, i1, i2, i3], loadU32LE [i4, i5, i6, i7], loadU32LE [i8, i9, i10, i11],
      loadU32LE [i12, i13, i14, i15]] = _
  simp only [loadU32LE_eq4]
  rfl

theorem toArr_extract (s : X16) :
    (toArr s).extract 0 4 ++ (toArr s).extract 12 16 =
      #[s.x0, s.x1, s.x2, s.x3, s.x12, s.x13, s.x14, s.x15] := by
  simp [toArr]

/-- HChaCha20 with arbitrary constant words: the draft's construction on the state
`c0 c1 c2 c3 | key | input` -/
theorem hchacha20_words_eq (key inp : Bytes) (c : UInt32 × UInt32 × UInt32 × UInt32)
    (hk : key.length = 32) (hi : inp.length = 16) :
    hchacha20 key inp (some c) =
      (let z := Spec.ChaCha20.rounds20 (#[c.1, c.2.1, c.2.2.1, c.2.2.2] ++
          Spec.ChaCha20.wordsOfBytes (key.take 32) ++ Spec.ChaCha20.wordsOfBytes (inp.take 16))
       Spec.ChaCha20.bytesOfWords (z.extract 0 4 ++ z.extract 12 16)) := by
  simp only []
  rw [← hchacha20_init key inp c hk hi, ← hchacha20_rounds, toArr_extract]
  simp [hchacha20, Spec.ChaCha20.bytesOfWords, u32ToLE]

theorem hchacha20_none (key inp : Bytes) :
    hchacha20 key inp none = hchacha20 key inp (some (0x61707865, 0x3320646e, 0x79622d32, 0x6b206574)) := rfl

/-- HChaCha20 with the default constants = draft-irtf-cfrg-xchacha §2.2 -/
theorem hchacha20_eq_spec (key inp : Bytes) (hk : key.length = 32) (hi : inp.length = 16) :
    hchacha20 key inp none = Spec.ChaCha20.hchacha20 key inp := by
  rw [hchacha20_none, hchacha20_words_eq key inp _ hk hi]
  rfl

end ChaCha

/-! ### SipHash-2-4 -/

section SipHash
open DryocVerif.Proofs.Blake2b (loadU64LE_eq)
set_option linter.unusedSimpArgs false

def toS (s : V4) : Spec.SipHash.State := ⟨s.v0, s.v1, s.v2, s.v3⟩

theorem round_eq (s : V4) : toS (round s) = Spec.SipHash.sipRound (toS s) := by
  obtain ⟨v0, v1, v2, v3⟩ := s
  rfl

theorem sipChunk_eq (s : V4) (chunk : Bytes) :
    toS (sipChunk s chunk) = Spec.SipHash.compress 2 (toS s) (loadU64LE chunk) := by
  obtain ⟨v0, v1, v2, v3⟩ := s
  rfl

/-- the code after the chunk loop, as a function of the state and the last word -/
def sipFinish (s : V4) (b : UInt64) : UInt64 :=
  let s := { s with v3 := s.v3 ^^^ b }
  let s := round s
  let s := round s
  let s := { s with v0 := s.v0 ^^^ b }
  let s := { s with v2 := s.v2 ^^^ 0xff }
  let s := round s
  let s := round s
  let s := round s
  let s := round s
  s.v0 ^^^ s.v1 ^^^ s.v2 ^^^ s.v3

/-- `v3 ^= m; round; round; v0 ^= m` -/
def sipWord (s : V4) (m : UInt64) : V4 :=
  let s := { s with v3 := s.v3 ^^^ m }
  let s := round s
  let s := round s
  { s with v0 := s.v0 ^^^ m }

def sipFinalize (s : V4) : UInt64 :=
  let s := { s with v2 := s.v2 ^^^ 0xff }
  let s := round s
  let s := round s
  let s := round s
  let s := round s
  s.v0 ^^^ s.v1 ^^^ s.v2 ^^^ s.v3

theorem sipFinish_split (s : V4) (b : UInt64) : sipFinish s b = sipFinalize (sipWord s b) := rfl

theorem sipWord_eq (s : V4) (m : UInt64) : toS (sipWord s m) = Spec.SipHash.compress 2 (toS s) m := by
  obtain ⟨v0, v1, v2, v3⟩ := s
  rfl

theorem sipFinalize_eq (s : V4) : sipFinalize s = Spec.SipHash.finalize 4 (toS s) := by
  have h : ∀ t : V4, toS (round (round (round (round t)))) = Nat.repeat Spec.SipHash.sipRound 4 (toS t) := by
    intro t; simp only [Nat.repeat, round_eq]
  show _ = (let S := Nat.repeat Spec.SipHash.sipRound 4 (toS { s with v2 := s.v2 ^^^ 0xff }); S.v0 ^^^ S.v1 ^^^ S.v2 ^^^ S.v3)
  rw [← h]
  unfold sipFinalize
  simp only []
  generalize round (round (round (round { s with v2 := s.v2 ^^^ 0xff }))) = X
  rfl

theorem sipFinish_eq (s : V4) (b : UInt64) :
    sipFinish s b = Spec.SipHash.finalize 4 (Spec.SipHash.compress 2 (toS s) b) := by
  rw [sipFinish_split, sipFinalize_eq, sipWord_eq]

/-! chunks_exact -/

theorem chunksExactAux_short (f : Nat) (bs : Bytes) (h : bs.length < 8) : chunksExactAux 8 f bs = [] := by
  cases f <;> simp [chunksExactAux, h]

theorem chunksExactAux_fuel : ∀ (f f' : Nat) (bs : Bytes), bs.length ≤ f → bs.length ≤ f' →
    chunksExactAux 8 f bs = chunksExactAux 8 f' bs := by
  intro f
  induction f with
  | zero =>
    intro f' bs h _
    rw [chunksExactAux_short _ _ (by omega), chunksExactAux_short _ _ (by omega)]
  | succ f ih =>
    intro f' bs h h'
    by_cases hs : bs.length < 8
    · rw [chunksExactAux_short _ _ hs, chunksExactAux_short _ _ hs]
    · cases f' with
      | zero => omega
      | succ f' =>
        simp only [chunksExactAux, hs, if_false]
        congr 1
        apply ih <;> (simp only [List.length_drop]; omega)

theorem chunksExact_short (bs : Bytes) (h : bs.length < 8) : chunksExact 8 bs = [] :=
  chunksExactAux_short _ _ h

theorem chunksExact_cons (a b : Bytes) (ha : a.length = 8) :
    chunksExact 8 (a ++ b) = a :: chunksExact 8 b := by
  unfold chunksExact
  have hl : (a ++ b).length = (b.length + 7) + 1 := by rw [List.length_append]; omega
  rw [hl]
  have hn : ¬ (a ++ b).length < 8 := by rw [List.length_append]; omega
  simp only [chunksExactAux, hn, if_false]
  rw [List.take_left' ha, List.drop_left' ha]
  congr 1
  exact chunksExactAux_fuel (b.length + 7) b.length b (by omega) (Nat.le_refl _)

theorem remainder_short (bs : Bytes) (h : bs.length < 8) : chunksExactRemainder 8 bs = bs := by
  unfold chunksExactRemainder
  have : bs.length / 8 * 8 = 0 := by omega
  rw [this]; rfl

theorem remainder_cons (a b : Bytes) (ha : a.length = 8) :
    chunksExactRemainder 8 (a ++ b) = chunksExactRemainder 8 b := by
  unfold chunksExactRemainder
  have : (a ++ b).length / 8 * 8 = 8 + b.length / 8 * 8 := by rw [List.length_append]; omega
  rw [this, ← List.drop_drop, List.drop_left' ha]

/-- the specification's word sequence for a message `m` whose length byte is `L % 256` -/
def specWords (L : Nat) (m : Bytes) : List UInt64 :=
  (chunks 8 (m ++ zeros (7 - m.length % 8) ++ [UInt8.ofNat (L % 256)])).map (fun c => UInt64.ofNat (le c))

theorem parse_eq (msg : Bytes) : Spec.SipHash.parse msg = specWords msg.length msg := rfl

/-- what the code feeds to the compression: the `chunks_exact(8)` words, then `b` -/
def codeWords (L : Nat) (m : Bytes) : List UInt64 :=
  (chunksExact 8 m).map loadU64LE ++ [sipLastWord L (chunksExactRemainder 8 m)]
theorem or_left_comm64 (a b c : UInt64) : a ||| (b ||| c) = b ||| (a ||| c) := by
  rw [← UInt64.or_assoc, UInt64.or_comm a b, UInt64.or_assoc]

theorem top_byte (L : Nat) : UInt64.ofNat L <<< 56 = (UInt8.ofNat (L % 256)).toUInt64 <<< 56 := by
  apply UInt64.toNat.inj
  have h56 : (56 : UInt64).toNat % 64 = 56 := by decide
  simp only [UInt64.toNat_shiftLeft, UInt64.toNat_ofNat', UInt8.toNat_toUInt64, UInt8.toNat_ofNat', Nat.shiftLeft_eq, h56]
  omega

theorem lastWord_eq (L : Nat) (rem : Bytes) (hr : rem.length < 8) :
    sipLastWord L rem = UInt64.ofNat (le (rem ++ zeros (7 - rem.length) ++ [UInt8.ofNat (L % 256)])) := by
  rw [← loadU64LE_eq _ (by simp [zeros]; omega)]
  unfold sipLastWord
  rw [top_byte]
  generalize UInt8.ofNat (L % 256) = t
  match rem, hr with
  | [], _ => simp [loadU64LE, zeros, List.range, List.range.loop]
  | [a0], _ => simp [loadU64LE, zeros, List.range, List.range.loop] <;> simp only [UInt64.or_assoc, UInt64.or_comm, or_left_comm64]
  | [a0, a1], _ => simp [loadU64LE, zeros, List.range, List.range.loop] <;> simp only [UInt64.or_assoc, UInt64.or_comm, or_left_comm64]
  | [a0, a1, a2], _ => simp [loadU64LE, zeros, List.range, List.range.loop] <;> simp only [UInt64.or_assoc, UInt64.or_comm, or_left_comm64]
  | [a0, a1, a2, a3], _ => simp [loadU64LE, zeros, List.range, List.range.loop] <;> simp only [UInt64.or_assoc, UInt64.or_comm, or_left_comm64]
  | [a0, a1, a2, a3, a4], _ => simp [loadU64LE, zeros, List.range, List.range.loop] <;> simp only [UInt64.or_assoc, UInt64.or_comm, or_left_comm64]
  | [a0, a1, a2, a3, a4, a5], _ => simp [loadU64LE, zeros, List.range, List.range.loop] <;> simp only [UInt64.or_assoc, UInt64.or_comm, or_left_comm64]
  | [a0, a1, a2, a3, a4, a5, a6], _ => simp [loadU64LE, zeros, List.range, List.range.loop] <;> simp only [UInt64.or_assoc, UInt64.or_comm, or_left_comm64]
  | _ :: _ :: _ :: _ :: _ :: _ :: _ :: _ :: _, h => simp at h; omega

theorem words_short (L : Nat) (m : Bytes) (h : m.length < 8) : specWords L m = codeWords L m := by
  unfold specWords codeWords
  rw [chunksExact_short m h, remainder_short m h, lastWord_eq L m h, Nat.mod_eq_of_lt h]
  rw [Proofs.Poly1305.chunks_single 8 _ (by simp; omega) (by simp [zeros]; omega)]
  rfl

theorem words_cons (L : Nat) (a b : Bytes) (ha : a.length = 8) :
    specWords L (a ++ b) = loadU64LE a :: specWords L b := by
  unfold specWords
  have hm : (a ++ b).length % 8 = b.length % 8 := by rw [List.length_append]; omega
  rw [hm, List.append_assoc, List.append_assoc, ← List.append_assoc b,
    Proofs.Poly1305.chunks_cons_block 8 (by decide) _ _ ha, List.map_cons, loadU64LE_eq a ha]

theorem siphash_words_aux (L : Nat) : ∀ (n : Nat) (m : Bytes), m.length < 8 * (n + 1) →
    specWords L m = codeWords L m := by
  intro n
  induction n with
  | zero => intro m h; exact words_short L m (by omega)
  | succ n ih =>
    intro m h
    by_cases hs : m.length < 8
    · exact words_short L m hs
    · have hsplit : m = m.take 8 ++ m.drop 8 := (List.take_append_drop 8 m).symm
      have ht : (m.take 8).length = 8 := by simp; omega
      have hd : (m.drop 8).length < 8 * (n + 1) := by simp only [List.length_drop]; omega
      rw [hsplit, words_cons L _ _ ht, ih _ hd]
      unfold codeWords
      rw [chunksExact_cons _ _ ht, remainder_cons _ _ ht]
      rfl

/-- **the heart**: the `chunks_exact(8)` loop, the remainder loop and `len << 56` produce exactly the
specification's word sequence `parse msg` -/
theorem siphash_words (msg : Bytes) :
    Spec.SipHash.parse msg =
      (chunksExact 8 msg).map loadU64LE ++ [sipLastWord msg.length (chunksExactRemainder 8 msg)] := by
  rw [parse_eq]
  exact siphash_words_aux msg.length msg.length msg (by omega)

theorem foldl_sipChunk (cs : List Bytes) (s : V4) :
    toS (cs.foldl sipChunk s) = (cs.map loadU64LE).foldl (Spec.SipHash.compress 2) (toS s) := by
  induction cs generalizing s with
  | nil => rfl
  | cons c cs ih => simp only [List.foldl, List.map, ih, sipChunk_eq]

/-- the variable initialisation of siphash24.rs -/
def sipInit (key : Bytes) : V4 :=
  let k0 := loadU64LE (key.take 8)
  let k1 := loadU64LE (key.drop 8)
  ⟨0x736f6d6570736575 ^^^ k0, 0x646f72616e646f6d ^^^ k1, 0x6c7967656e657261 ^^^ k0, 0x7465646279746573 ^^^ k1⟩

theorem sipInit_eq (key : Bytes) (hk : key.length = 16) : toS (sipInit key) = Spec.SipHash.init key := by
  have h1 : loadU64LE (key.take 8) = UInt64.ofNat (le (key.take 8)) := loadU64LE_eq _ (by simp; omega)
  have h2 : loadU64LE (key.drop 8) = UInt64.ofNat (le ((key.drop 8).take 8)) := by
    rw [List.take_of_length_le (by simp; omega)]
    exact loadU64LE_eq _ (by simp; omega)
  unfold sipInit Spec.SipHash.init toS
  simp only [h1, h2]
  congr 1 <;> exact UInt64.xor_comm _ _

theorem siphash24_unfold (key msg : Bytes) :
    siphash24 key msg = u64ToLE (sipFinish ((chunksExact 8 msg).foldl sipChunk (sipInit key))
      (sipLastWord msg.length (chunksExactRemainder 8 msg))) := rfl

theorem siphash24_eq_spec (key msg : Bytes) (hk : key.length = 16) :
    siphash24 key msg = Spec.SipHash.siphash24 key msg := by
  rw [siphash24_unfold, sipFinish_eq, foldl_sipChunk, sipInit_eq key hk]
  unfold Spec.SipHash.siphash24 Spec.SipHash.siphashWord
  rw [siphash_words, List.foldl_append]
  rfl

end SipHash

/-! ### HMAC-SHA-512-256 (`crypto_auth`) -/

section Hmac

/-- one iteration `pad[i] ^= key[i]` -/
def xorStep (key : Bytes) (pad : Bytes) (i : Nat) : Option Bytes :=
  match pad[i]?, key[i]? with
  | some p, some k => some (pad.set i (p ^^^ k))
  | _, _ => none

theorem xorLoop_def (pad key : Bytes) (n : Nat) : xorLoop pad key n = (List.range n).foldlM (xorStep key) pad := rfl

theorem xorLoop_succ (pad key : Bytes) (n : Nat) :
    xorLoop pad key (n + 1) = (xorLoop pad key n).bind (fun P => xorStep key P n) := by
  simp only [xorLoop_def, List.range_succ, List.foldlM_append, List.foldlM_cons, List.foldlM_nil]
  cases List.foldlM (xorStep key) pad (List.range n) with
  | none => rfl
  | some P => simp only [bind, Option.bind]; cases xorStep key P n <;> rfl

theorem xorLoop_spec (pad key : Bytes) : ∀ n, n ≤ pad.length → n ≤ key.length →
    ∃ R, xorLoop pad key n = some R ∧ R.length = pad.length ∧
      (∀ i, i < n → R[i]? = some (pad.getD i 0 ^^^ key.getD i 0)) ∧ (∀ i, n ≤ i → R[i]? = pad[i]?) := by
  intro n
  induction n with
  | zero => intro _ _; exact ⟨pad, rfl, rfl, by intro i h; omega, by intro i _; rfl⟩
  | succ n ih =>
    intro hp hk
    obtain ⟨R, hR, hlen, hlo, hhi⟩ := ih (by omega) (by omega)
    have hRn : R[n]? = some (pad.getD n 0) := by
      rw [hhi n (Nat.le_refl _), List.getD_eq_getElem?_getD, List.getElem?_eq_getElem (by omega)]; rfl
    have hkn : key[n]? = some (key.getD n 0) := by
      rw [List.getD_eq_getElem?_getD, List.getElem?_eq_getElem (by omega)]; rfl
    refine ⟨R.set n (pad.getD n 0 ^^^ key.getD n 0), ?_, by simp [hlen], ?_, ?_⟩
    · rw [xorLoop_succ, hR]
      simp only [Option.bind, xorStep, hRn, hkn]
    · intro i hi
      by_cases h : i = n
      · subst h; rw [List.getElem?_set_self (by omega)]
      · rw [List.getElem?_set_ne (by omega)]; exact hlo i (by omega)
    · intro i hi
      rw [List.getElem?_set_ne (by omega)]; exact hhi i (by omega)

theorem xorLoop_pad (key : Bytes) (c : UInt8) (hk : key.length ≤ 128) :
    xorLoop (List.replicate 128 c) key key.length =
      some (xorBytes (key ++ zeros (128 - key.length)) (List.replicate 128 c)) := by
  obtain ⟨R, hR, hlen, hlo, hhi⟩ := xorLoop_spec (List.replicate 128 c) key key.length (by simpa using hk) (Nat.le_refl _)
  rw [hR]
  congr 1
  apply List.ext_getElem?
  intro i
  unfold xorBytes zeros
  rw [List.getElem?_zipWith]
  by_cases h1 : i < key.length
  · rw [hlo i h1, List.getElem?_append_left h1, List.getElem?_replicate]
    have h2 : i < 128 := by omega
    simp only [h2, if_true, List.getD_eq_getElem?_getD, List.getElem?_replicate, List.getElem?_eq_getElem h1,
      Option.getD_some]
    exact congrArg some (UInt8.xor_comm _ _)
  · rw [hhi i (by omega), List.getElem?_append_right (by omega), List.getElem?_replicate, List.getElem?_replicate]
    by_cases h2 : i < 128
    · have h3 : i - key.length < 128 - key.length := by omega
      simp [h2, h3]
    · have h3 : ¬ (i - key.length < 128 - key.length) := by omega
      simp [h2, h3]

/-- RFC 2104's zero-padded key for a key of at most one block -/
def padKey (key : Bytes) : Bytes := key ++ zeros (128 - key.length)

theorem hmacInit_ok (H : Bytes → Bytes) (key : Bytes) (hk : key.length ≤ 128) :
    hmacInit H key = .ok { octx := xorBytes (padKey key) Spec.Hmac.opad, ictx := xorBytes (padKey key) Spec.Hmac.ipad } := by
  have hn : ¬ key.length > 128 := by omega
  unfold hmacInit
  simp only [hn, if_false, xorLoop_pad key _ hk, List.nil_append]
  rfl

theorem hmac_ok (H : Bytes → Bytes) (key msg : Bytes) (hk : key.length ≤ 128) :
    hmac H key msg = .ok ((H (xorBytes (padKey key) Spec.Hmac.opad ++
      H (xorBytes (padKey key) Spec.Hmac.ipad ++ msg))).take 32) := by
  unfold hmac
  rw [hmacInit_ok H key hk]
  rfl

theorem normKey_short (key : Bytes) (hk : key.length ≤ 128) : Spec.Hmac.normKey key = padKey key := by
  have hn : ¬ key.length > Spec.Hmac.blockSize := by unfold Spec.Hmac.blockSize; omega
  unfold Spec.Hmac.normKey
  simp only [hn, if_false]
  rfl

theorem hmac_eq_spec_le (key msg : Bytes) (hk : key.length ≤ 128) :
    hmac Spec.Sha512.sha512 key msg = .ok (Spec.Hmac.hmacSha512256 key msg) := by
  rw [hmac_ok _ key msg hk]
  unfold Spec.Hmac.hmacSha512256 Spec.Hmac.hmacSha512
  rw [normKey_short key hk]

theorem hmacUpdate_nil (st : HmacState) : hmacUpdate st [] = st := by
  unfold hmacUpdate; rw [List.append_nil]

theorem hmacUpdate_append (st : HmacState) (a b : Bytes) :
    hmacUpdate (hmacUpdate st a) b = hmacUpdate st (a ++ b) := by
  unfold hmacUpdate; simp only [List.append_assoc]

theorem hmac_updates (st : HmacState) (cs : List Bytes) :
    cs.foldl hmacUpdate st = hmacUpdate st cs.flatten := by
  induction cs generalizing st with
  | nil => exact (hmacUpdate_nil st).symm
  | cons c cs ih => rw [List.foldl_cons, ih, hmacUpdate_append, List.flatten_cons]

theorem hmacChunks_eq (H : Bytes → Bytes) (key : Bytes) (cs : List Bytes) :
    hmacChunks H key cs = hmac H key cs.flatten := by
  unfold hmacChunks hmac
  cases hmacInit H key with
  | ok st => simp only [hmac_updates]
  | err => rfl
  | panic => rfl

theorem xorLoop_none_succ (pad key : Bytes) (n : Nat) (h : xorLoop pad key n = none) :
    xorLoop pad key (n + 1) = none := by
  rw [xorLoop_succ, h]; rfl

theorem xorLoop_oob (pad key : Bytes) (n : Nat) (hp : key.length ≤ pad.length) (hn : key.length < n) :
    xorLoop pad key n = none := by
  have h1 : xorLoop pad key (key.length + 1) = none := by
    obtain ⟨R, hR, _, _, _⟩ := xorLoop_spec pad key key.length hp (Nat.le_refl _)
    rw [xorLoop_succ, hR]
    have : key[key.length]? = none := List.getElem?_eq_none (Nat.le_refl _)
    simp only [Option.bind, xorStep, this]
    cases R[key.length]? <;> rfl
  have : ∀ m, xorLoop pad key (key.length + 1 + m) = none := by
    intro m
    induction m with
    | zero => exact h1
    | succ m ih => exact xorLoop_none_succ _ _ _ ih
  have e : n = key.length + 1 + (n - key.length - 1) := by omega
  rw [e]; exact this _

/-- the `keylen > 128` branch of `crypto_auth_hmacsha512256_init` indexes the 64-byte `khash` with
`i` up to `keylen - 1`: out-of-bounds panic (unreachable: the public API's key is `[u8; 32]`) -/
theorem hmacInit_long_key_panics (H : Bytes → Bytes) (key : Bytes) (hk : key.length > 128)
    (hH : (H key).length = 64) : hmacInit H key = .panic := by
  unfold hmacInit
  simp only [hk, if_true]
  rw [xorLoop_oob _ (H key) key.length (by simp [hH]) (by omega)]

theorem hmacVerify_ok_iff (key msg mac : Bytes) (hk : key.length ≤ 128) :
    hmacVerify Spec.Sha512.sha512 mac msg key = .ok () ↔ mac = Spec.Hmac.hmacSha512256 key msg := by
  unfold hmacVerify
  rw [hmac_eq_spec_le key msg hk]
  simp only [Proofs.OnetimeAuth.ctEq_eq]
  by_cases h : mac = Spec.Hmac.hmacSha512256 key msg
  · simp [h]
  · simp [h]

/-- `crypto_auth_verify` returns `Err` exactly on every other `mac` (the decision is taken by `subtle`'s `ct_eq`,
`Model.OnetimeAuth.ctEq`; that it is byte-string equality is `ctEq_one_iff`) -/
theorem hmacVerify_err_iff (key msg mac : Bytes) (hk : key.length ≤ 128) :
    hmacVerify Spec.Sha512.sha512 mac msg key = .err ↔ mac ≠ Spec.Hmac.hmacSha512256 key msg := by
  unfold hmacVerify
  rw [hmac_eq_spec_le key msg hk]
  simp only [Proofs.OnetimeAuth.ctEq_eq]
  by_cases h : mac = Spec.Hmac.hmacSha512256 key msg
  · simp [h]
  · simp [h]

/-- the model's decision written with `=` (what the definition said before it was switched to `ct_eq`) -/
theorem hmacVerify_eq_if (H : Bytes → Bytes) (mac msg key : Bytes) :
    hmacVerify H mac msg key =
      match hmac H key msg with
      | .ok computed => if mac = computed then .ok () else .err
      | .err => .err
      | .panic => .panic := by
  unfold hmacVerify
  cases hmac H key msg with
  | ok c => simp only [Proofs.OnetimeAuth.ctEq_eq]; by_cases h : mac = c <;> simp [h]
  | err => rfl
  | panic => rfl

end Hmac

#print axioms hsalsa20Body_eq_doubleRound
#print axioms hsalsa20_eq_spec
#print axioms hsalsa20_words_eq_spec
#print axioms hchacha20Body_eq_innerBlock
#print axioms hchacha20_eq_spec
#print axioms siphash_words
#print axioms siphash24_eq_spec
#print axioms hmac_eq_spec_le
#print axioms hmacInit_long_key_panics
#print axioms hmacChunks_eq

end DryocVerif.Proofs.Core
