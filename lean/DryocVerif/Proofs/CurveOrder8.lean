import Mathlib.Data.ZMod.Basic
import Mathlib.Tactic.Ring
import Mathlib.Tactic.LinearCombination
import DryocVerif.Proofs.CurveExtra
/-
The two u-coordinates of order 8 on Curve25519 are sent to 0 by every scalar that is a multiple
of 8 (hence by every clamped scalar).  Together with `Proofs/CurveExtra.lean` (orders 1, 2, 4) this
covers the whole small-order table of X25519.

Method: a loop invariant of the RFC 7748 ladder in the field `ZMod p` (this is the one place where
commutative-ring normalisation is really needed, hence the three Mathlib imports).  Let `P` have
u-coordinate `c` and order 8; then `2P` has u = 1, `3P` has u = `c' = 1/c`, `4P = (0,0)`.  Projectively,
a register `(x : z)` is in class `O` (z = 0), `T` (x = 0), `Q` (x = z), `R` (x = c z) or `R'` (x = c' z).
The two ladder registers always hold consecutive multiples, i.e. one of the unordered pairs
`{O,R}`, `{R,Q}`, `{Q,R'}`, `{R',T}`; doubling maps `R,R' ↦ Q ↦ T ↦ O ↦ O` and the differential
addition maps these pairs to `R, R', R', R`.  Three final steps with scalar bit 0 double the
register `(x2 : z2)` three times: it ends in class `O`, and `x2 · z2^(p−2) = 0`.
Only two numerical facts about `c` enter: `c · c' = 1` and
`(c+1)²(c−1)² = 4c((c+1)² + 4·a24·c)` ("the double of `P` has u = 1"), both checked by `decide`.
-/
namespace DryocVerif.Proofs.CurveOrder8
open DryocVerif DryocVerif.Spec.X25519 DryocVerif.Proofs.Curve DryocVerif.Proofs.CurveExtra

/-! ### ring identities (any commutative ring) -/

section Ring
variable {R : Type} [CommRing R]

def dX (x z : R) : R := (x + z) ^ 2 * (x - z) ^ 2
def dZ (a x z : R) : R := ((x + z) ^ 2 - (x - z) ^ 2) * ((x + z) ^ 2 + a * ((x + z) ^ 2 - (x - z) ^ 2))
def aX (x2 z2 x3 z3 : R) : R := ((x3 - z3) * (x2 + z2) + (x3 + z3) * (x2 - z2)) ^ 2
def aZ (c x2 z2 x3 z3 : R) : R := c * ((x3 - z3) * (x2 + z2) - (x3 + z3) * (x2 - z2)) ^ 2

theorem aX_symm (x2 z2 x3 z3 : R) : aX x3 z3 x2 z2 = aX x2 z2 x3 z3 := by unfold aX; ring
theorem aZ_symm (c x2 z2 x3 z3 : R) : aZ c x3 z3 x2 z2 = aZ c x2 z2 x3 z3 := by unfold aZ; ring

theorem dZ_of_z (a x : R) : dZ a x 0 = 0 := by unfold dZ; ring
theorem dZ_of_x (a z : R) : dZ a 0 z = 0 := by unfold dZ; ring
theorem dX_of_eq (z : R) : dX z z = 0 := by unfold dX; ring

/-- doubling a point with u = c, where `c` satisfies the "2P has u = 1" identity, gives u = 1 -/
theorem dbl_R (a c z : R) (hK : (c + 1) ^ 2 * (c - 1) ^ 2 = 4 * c * ((c + 1) ^ 2 + 4 * a * c)) :
    dX (c * z) z = dZ a (c * z) z := by
  unfold dX dZ; linear_combination (z ^ 4) * hK

/-- the constants of the invariant -/
structure Consts (a c c' : R) : Prop where
  inv : c * c' = 1
  K : (c + 1) ^ 2 * (c - 1) ^ 2 = 4 * c * ((c + 1) ^ 2 + 4 * a * c)
  K' : (c' + 1) ^ 2 * (c' - 1) ^ 2 = 4 * c' * ((c' + 1) ^ 2 + 4 * a * c')

/-- ordered pair types `(mP, (m+1)P)`, m = 0, 1, 2, 3 -/
def PT (c c' x2 z2 x3 z3 : R) : Prop :=
  (z2 = 0 ∧ x3 = c * z3) ∨ (x2 = c * z2 ∧ x3 = z3) ∨ (x2 = z2 ∧ x3 = c' * z3) ∨ (x2 = c' * z2 ∧ x3 = 0)

/-- … in either order -/
def SInv (c c' x2 z2 x3 z3 : R) : Prop := PT c c' x2 z2 x3 z3 ∨ PT c c' x3 z3 x2 z2

theorem SInv_symm {c c' x2 z2 x3 z3 : R} (h : SInv c c' x2 z2 x3 z3) : SInv c c' x3 z3 x2 z2 :=
  h.symm

/-- the five classes -/
def Cls5 (c c' x z : R) : Prop := z = 0 ∨ x = 0 ∨ x = z ∨ x = c * z ∨ x = c' * z

theorem SInv_cls {c c' x2 z2 x3 z3 : R} (h : SInv c c' x2 z2 x3 z3) :
    Cls5 c c' x2 z2 ∧ Cls5 c c' x3 z3 := by
  unfold Cls5
  rcases h with h | h <;> rcases h with ⟨h1, h2⟩ | ⟨h1, h2⟩ | ⟨h1, h2⟩ | ⟨h1, h2⟩ <;>
    simp [h1, h2]

/-- one ladder step that doubles the first register: the pair type is preserved -/
theorem step_SInv {a c c' : R} (hC : Consts a c c') {x2 z2 x3 z3 : R}
    (h : SInv c c' x2 z2 x3 z3) :
    SInv c c' (dX x2 z2) (dZ a x2 z2) (aX x2 z2 x3 z3) (aZ c x2 z2 x3 z3) := by
  have hi := hC.inv
  rcases h with h | h <;> rcases h with ⟨h1, h2⟩ | ⟨h1, h2⟩ | ⟨h1, h2⟩ | ⟨h1, h2⟩
  · -- (O, R) ↦ (O, R)
    rw [h1, h2]
    exact Or.inl (Or.inl ⟨dZ_of_z _ _, by unfold aX aZ; ring⟩)
  · -- (R, Q) ↦ (Q, R')
    rw [h1, h2]
    refine Or.inl (Or.inr (Or.inr (Or.inl ⟨dbl_R a c z2 hC.K, ?_⟩)))
    unfold aX aZ
    linear_combination (-(4 * z3 ^ 2 * (c - 1) ^ 2 * z2 ^ 2)) * hi
  · -- (Q, R') ↦ (T, R')
    rw [h1, h2]
    refine Or.inr (Or.inr (Or.inr (Or.inr ⟨?_, dX_of_eq _⟩)))
    unfold aX aZ
    linear_combination (-(4 * z2 ^ 2 * (c' - 1) ^ 2 * z3 ^ 2)) * hi
  · -- (R', T) ↦ (Q, R)
    rw [h1, h2]
    refine Or.inr (Or.inr (Or.inl ⟨?_, dbl_R a c' z2 hC.K'⟩))
    unfold aX aZ
    linear_combination (-(4 * z2 ^ 2 * z3 ^ 2 * c * c')) * hi - (4 * z2 ^ 2 * z3 ^ 2) * hi
  · -- first register R, second O ↦ (Q, R)
    rw [h1, h2]
    refine Or.inr (Or.inr (Or.inl ⟨?_, dbl_R a c z2 hC.K⟩))
    unfold aX aZ; ring
  · -- first Q, second R ↦ (T, R')
    rw [h1, h2]
    refine Or.inr (Or.inr (Or.inr (Or.inr ⟨?_, dX_of_eq _⟩)))
    unfold aX aZ
    linear_combination (-(4 * z3 ^ 2 * (c - 1) ^ 2 * z2 ^ 2)) * hi
  · -- first R', second Q ↦ (Q, R')
    rw [h1, h2]
    refine Or.inl (Or.inr (Or.inr (Or.inl ⟨dbl_R a c' z2 hC.K', ?_⟩)))
    unfold aX aZ
    linear_combination (-(4 * z3 ^ 2 * (c' - 1) ^ 2 * z2 ^ 2)) * hi
  · -- first T, second R' ↦ (O, R)
    rw [h1, h2]
    refine Or.inl (Or.inl ⟨dZ_of_x _ _, ?_⟩)
    unfold aX aZ
    linear_combination (-(4 * z2 ^ 2 * z3 ^ 2 * c * c')) * hi - (4 * z2 ^ 2 * z3 ^ 2) * hi

/-- doubling a class member: `O`, `Q` or `T` -/
theorem dbl_cls1 {a c c' : R} (hC : Consts a c c') {x z : R} (h : Cls5 c c' x z) :
    dZ a x z = 0 ∨ dX x z = dZ a x z ∨ dX x z = 0 := by
  rcases h with h | h | h | h | h <;> subst h
  · exact Or.inl (dZ_of_z _ _)
  · exact Or.inl (dZ_of_x _ _)
  · exact Or.inr (Or.inr (dX_of_eq _))
  · exact Or.inr (Or.inl (dbl_R a c z hC.K))
  · exact Or.inr (Or.inl (dbl_R a c' z hC.K'))

/-- doubling `O`, `Q` or `T`: `O` or `T` -/
theorem dbl_cls2 (a : R) {x z : R} (h : z = 0 ∨ x = z ∨ x = 0) : dZ a x z = 0 ∨ dX x z = 0 := by
  rcases h with h | h | h <;> subst h
  · exact Or.inl (dZ_of_z _ _)
  · exact Or.inr (dX_of_eq _)
  · exact Or.inl (dZ_of_x _ _)

/-- doubling `O` or `T`: `O` -/
theorem dbl_cls3 (a : R) {x z : R} (h : z = 0 ∨ x = 0) : dZ a x z = 0 := by
  rcases h with h | h <;> subst h
  · exact dZ_of_z _ _
  · exact dZ_of_x _ _

end Ring

/-! ### the ladder in `ZMod p` -/

abbrev F := ZMod p

theorem p_pos : 0 < p := by decide

theorem cast_fadd (a b : ℕ) : ((fadd a b : ℕ) : F) = (a : F) + b := by
  simp [fadd, ZMod.natCast_mod]

theorem cast_fmul (a b : ℕ) : ((fmul a b : ℕ) : F) = (a : F) * b := by
  simp [fmul, ZMod.natCast_mod]

theorem cast_fsq (a : ℕ) : ((fsq a : ℕ) : F) = (a : F) ^ 2 := by
  simp [fsq, ZMod.natCast_mod, sq]

theorem cast_fsub (a b : ℕ) : ((fsub a b : ℕ) : F) = (a : F) - b := by
  unfold fsub
  rw [ZMod.natCast_mod, Nat.cast_add, Nat.cast_sub (Nat.le_of_lt (Nat.mod_lt _ p_pos)),
    ZMod.natCast_self, ZMod.natCast_mod]
  ring

theorem cast_dblX (x z : ℕ) : ((dblX x z : ℕ) : F) = dX (x : F) z := by
  simp only [dblX, dX, cast_fmul, cast_fsq, cast_fadd, cast_fsub]

theorem cast_dblZ (x z : ℕ) : ((dblZ x z : ℕ) : F) = dZ ((a24 : ℕ) : F) (x : F) z := by
  simp only [dblZ, dZ, cast_fmul, cast_fsq, cast_fadd, cast_fsub]

theorem cast_addX (x2 z2 x3 z3 : ℕ) : ((addX x2 z2 x3 z3 : ℕ) : F) = aX (x2 : F) z2 x3 z3 := by
  simp only [addX, aX, cast_fmul, cast_fsq, cast_fadd, cast_fsub]

theorem cast_addZ (x1 x2 z2 x3 z3 : ℕ) :
    ((addZ x1 x2 z2 x3 z3 : ℕ) : F) = aZ (x1 : F) (x2 : F) z2 x3 z3 := by
  simp only [addZ, aZ, cast_fmul, cast_fsq, cast_fadd, cast_fsub]

theorem dblZ_lt (x z : ℕ) : dblZ x z < p := Nat.mod_lt _ p_pos
theorem dblX_lt (x z : ℕ) : dblX x z < p := Nat.mod_lt _ p_pos

theorem eq_zero_of_cast {n : ℕ} (hn : n < p) (h : (n : F) = 0) : n = 0 := by
  rw [ZMod.natCast_eq_zero_iff] at h
  exact Nat.eq_zero_of_dvd_of_lt h hn

/-- the invariant on a ladder state -/
def Inv8 (c c' : ℕ) (s : LadderState) : Prop :=
  SInv (c : F) (c' : F) (s.x2 : F) (s.z2 : F) (s.x3 : F) (s.z3 : F)

theorem stepCore_inv8 {c c' : ℕ} (hC : Consts ((a24 : ℕ) : F) (c : F) (c' : F)) (kt : ℕ)
    (s : LadderState) (h : Inv8 c c' s) : Inv8 c c' (stepCore kt c s) := by
  unfold Inv8 at *
  by_cases hc : s.swap ^^^ kt = 1
  · rw [stepCore_swap _ _ _ hc]
    simp only [cast_dblX, cast_dblZ, cast_addX, cast_addZ]
    exact step_SInv hC (SInv_symm h)
  · rw [stepCore_noswap _ _ _ hc]
    simp only [cast_dblX, cast_dblZ, cast_addX, cast_addZ]
    exact step_SInv hC h

theorem ladderLoop_last3 {c c' : ℕ} (hC : Consts ((a24 : ℕ) : F) (c : F) (c' : F)) (k : ℕ) :
    ∀ (n : ℕ) (s : LadderState), Inv8 c c' s →
      ∃ s', Inv8 c c' s' ∧ ladderLoop k c (n + 3) s = ladderLoop k c 3 s' := by
  intro n
  induction n with
  | zero => intro s h; exact ⟨s, h, rfl⟩
  | succ n ih =>
    intro s h
    have e : n + 1 + 3 = (n + 3) + 1 := by omega
    rw [e, ladderLoop_succ, ladderStep_eq]
    exact ih _ (stepCore_inv8 hC _ s h)

/-- generic form: a multiple of 8 maps the order-8 point to 0 -/
theorem ladder_order8 {c c' : ℕ} (hC : Consts ((a24 : ℕ) : F) (c : F) (c' : F))
    (k : ℕ) (hk : k % 8 = 0) : ladder k c = 0 := by
  have h0 : Inv8 c c' { x2 := 1, z2 := 0, x3 := c, z3 := 1, swap := 0 } := by
    unfold Inv8
    exact Or.inl (Or.inl ⟨by simp, by simp⟩)
  obtain ⟨s', hs', he⟩ := ladderLoop_last3 hC k 252 _ h0
  have b2 : (k >>> 2) % 2 = 0 := by rw [Nat.shiftRight_eq_div_pow]; omega
  have b1 : (k >>> 1) % 2 = 0 := by rw [Nat.shiftRight_eq_div_pow]; omega
  have b0 : (k >>> 0) % 2 = 0 := by rw [Nat.shiftRight_eq_div_pow]; omega
  have e3 : ladderLoop k c 3 s' = stepCore 0 c (stepCore 0 c (stepCore 0 c s')) := by
    rw [show (3 : ℕ) = 2 + 1 from rfl, ladderLoop_succ, ladderStep_eq, b2,
      show (2 : ℕ) = 1 + 1 from rfl, ladderLoop_succ, ladderStep_eq, b1,
      show (1 : ℕ) = 0 + 1 from rfl, ladderLoop_succ, ladderStep_eq, b0]
    rfl
  have he' : ladderLoop k c 255 { x2 := 1, z2 := 0, x3 := c, z3 := 1, swap := 0 } =
      stepCore 0 c (stepCore 0 c (stepCore 0 c s')) := by rw [← e3]; exact he
  -- first of the three steps: some register of `s'` is doubled
  obtain ⟨c2, c3⟩ := SInv_cls hs'
  have h1 : ∃ x z, stepCore 0 c s' =
      { x2 := dblX x z, z2 := dblZ x z, x3 := (stepCore 0 c s').x3, z3 := (stepCore 0 c s').z3, swap := 0 } ∧
      Cls5 (c : F) (c' : F) (x : F) (z : F) := by
    by_cases hc : s'.swap ^^^ 0 = 1
    · exact ⟨s'.x3, s'.z3, by rw [stepCore_swap _ _ _ hc], c3⟩
    · exact ⟨s'.x2, s'.z2, by rw [stepCore_noswap _ _ _ hc], c2⟩
  obtain ⟨x, z, hs1, hcl⟩ := h1
  have w1 := dbl_cls1 hC hcl
  rw [← cast_dblZ, ← cast_dblX] at w1
  -- second and third step: `swap = 0`, the register `(x2 : z2)` is doubled
  have hn : ∀ (t : LadderState), t.swap = 0 → stepCore 0 c t =
      { x2 := dblX t.x2 t.z2, z2 := dblZ t.x2 t.z2, x3 := (stepCore 0 c t).x3,
        z3 := (stepCore 0 c t).z3, swap := 0 } := by
    intro t ht
    rw [stepCore_noswap _ _ _ (by rw [ht]; decide)]
  have hsw1 : (stepCore 0 c s').swap = 0 := by rw [hs1]
  have hs2 := hn _ hsw1
  have hx1 : (stepCore 0 c s').x2 = dblX x z := by rw [hs1]
  have hz1 : (stepCore 0 c s').z2 = dblZ x z := by rw [hs1]
  rw [hx1, hz1] at hs2
  have w2 := dbl_cls2 ((a24 : ℕ) : F) (x := ((dblX x z : ℕ) : F)) (z := ((dblZ x z : ℕ) : F))
    (by rcases w1 with h | h | h
        · exact Or.inl h
        · exact Or.inr (Or.inl h)
        · exact Or.inr (Or.inr h))
  rw [← cast_dblZ, ← cast_dblX] at w2
  have hsw2 : (stepCore 0 c (stepCore 0 c s')).swap = 0 := by rw [hs2]
  have hs3 := hn _ hsw2
  have hx2 : (stepCore 0 c (stepCore 0 c s')).x2 = dblX (dblX x z) (dblZ x z) := by rw [hs2]
  have hz2 : (stepCore 0 c (stepCore 0 c s')).z2 = dblZ (dblX x z) (dblZ x z) := by rw [hs2]
  rw [hx2, hz2] at hs3
  have w3 := dbl_cls3 ((a24 : ℕ) : F)
    (x := ((dblX (dblX x z) (dblZ x z) : ℕ) : F)) (z := ((dblZ (dblX x z) (dblZ x z) : ℕ) : F))
    (by rcases w2 with h | h
        · exact Or.inl h
        · exact Or.inr h)
  rw [← cast_dblZ] at w3
  have hz : dblZ (dblX (dblX x z) (dblZ x z)) (dblZ (dblX x z) (dblZ x z)) = 0 :=
    eq_zero_of_cast (dblZ_lt _ _) w3
  unfold ladder
  rw [he', hs3]
  simp [cswap, hz, fpow_zero_inv, fmul_zero_right]

/-! ### the two constants -/

def c1 : ℕ := 325606250916557431795983626356110631294008115727848805560023387167927233504
def c2 : ℕ := 39382357235489614581723060781553021112529911719440698176882885853963445705823

theorem consts_nat :
    (c1 * c2) % p = 1 % p ∧
    ((c1 + 1) ^ 2 * (c1 + (p - 1)) ^ 2) % p = (4 * c1 * ((c1 + 1) ^ 2 + 4 * a24 * c1)) % p ∧
    ((c2 + 1) ^ 2 * (c2 + (p - 1)) ^ 2) % p = (4 * c2 * ((c2 + 1) ^ 2 + 4 * a24 * c2)) % p := by
  decide

theorem cast_pm1 : ((p - 1 : ℕ) : F) = -1 := by
  rw [Nat.cast_sub (by decide : 1 ≤ p), ZMod.natCast_self]; simp

theorem consts12 : Consts ((a24 : ℕ) : F) (c1 : F) (c2 : F) := by
  obtain ⟨h1, h2, h3⟩ := consts_nat
  have e1 := (ZMod.natCast_eq_natCast_iff' (c1 * c2) 1 p).2 h1
  have e2 := (ZMod.natCast_eq_natCast_iff' _ _ p).2 h2
  have e3 := (ZMod.natCast_eq_natCast_iff' _ _ p).2 h3
  push_cast at e1 e2 e3
  rw [cast_pm1] at e2 e3
  refine ⟨e1, ?_, ?_⟩
  · linear_combination e2
  · linear_combination e3

theorem consts21 : Consts ((a24 : ℕ) : F) (c2 : F) (c1 : F) :=
  ⟨by rw [mul_comm]; exact consts12.inv, consts12.K', consts12.K⟩

/-- X25519 of the first order-8 u-coordinate is 0 for every scalar that is a multiple of 8 -/
theorem ladder_c1 (k : ℕ) (hk : k % 8 = 0) : ladder k c1 = 0 := ladder_order8 consts12 k hk

/-- … and of the second -/
theorem ladder_c2 (k : ℕ) (hk : k % 8 = 0) : ladder k c2 = 0 := ladder_order8 consts21 k hk

/-- the whole small-order table: u ≡ 0, 1, −1, c1, c2 (mod p) and a scalar divisible by 8 -/
theorem ladder_small_order (k u : ℕ) (hk : k % 8 = 0)
    (hu : u % p = 0 ∨ u % p = 1 ∨ u % p = p - 1 ∨ u % p = c1 ∨ u % p = c2) : ladder k u = 0 := by
  have hk2 : k % 2 = 0 := by omega
  rcases hu with h | h | h | h | h
  · exact ladder_low_order_even k u hk2 (Or.inl h)
  · exact ladder_low_order_even k u hk2 (Or.inr (Or.inl h))
  · exact ladder_low_order_even k u hk2 (Or.inr (Or.inr h))
  · rw [← ladder_mod_p, h]; exact ladder_c1 k hk
  · rw [← ladder_mod_p, h]; exact ladder_c2 k hk

end DryocVerif.Proofs.CurveOrder8
