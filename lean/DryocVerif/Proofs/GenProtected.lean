import DryocVerif.Gen.Protected
import DryocVerif.Model.Protected
/-
The integer arithmetic of the page-aligned allocator and the arguments of the system calls, as translated from
`/repo/src/protected.rs` by `tools/rs2lean.py` (regenerated on every run), equal what the hand-written model of the
protected-memory module uses.  An edit such as `data.len() - 1`, `_page_round(..) + pagesize`, a different protection
flag or a changed rounding formula changes the generated definition and these equalities stop checking.
-/
namespace DryocVerif.Proofs.GenProtected
open DryocVerif DryocVerif.Model.Protected

/-- `_page_round` as translated = the model's `pageRound` -/
theorem page_round_eq_model (size P : Nat) : Gen.Protected._page_round size P = pageRound P size := rfl

/-- the size requested from `posix_memalign` = data pages rounded up + the two guard pages -/
theorem allocate_size_eq_model (size P : Nat) : Gen.Protected.allocate_size size P = pageRound P size + 2 * P := rfl

/-- the offset of the trailing guard page in `allocate` and in `deallocate` -/
theorem allocate_aft_offset_eq_model (size P : Nat) : Gen.Protected.allocate_aft_offset size P = P + pageRound P size := rfl
theorem deallocate_aft_offset_eq_model (size P : Nat) : Gen.Protected.deallocate_aft_offset size P = P + pageRound P size := rfl

/-- the model's `alloc`, restated through the translated arithmetic -/
theorem alloc_eq_gen (c : Cfg) (m : Mach) (size : Nat) :
    alloc c m size =
      (let P := c.P
       let base := m.k.brk
       let a := base * P
       let k0 : Kernel := { m.k with brk := base + Gen.Protected.allocate_size size P / P,
                                     al := m.k.al ++ [(base, size)] }
       let k1 := mprotect P k0 a P .none
       let k2 := mprotect P k1 (a + Gen.Protected.allocate_aft_offset size P) P .none
       let k3 := mprotect P k2 (a + P) size .rw
       ({ m with k := k3 }, base)) := rfl

/-- every wrapper hands the system call the full length of the slice (`data.len()`), which is what the model passes -/
theorem syscall_lengths (data : Bytes) :
    Gen.Protected.mlock_len data = data.length ∧ Gen.Protected.mlock_undo_len data = data.length
    ∧ Gen.Protected.munlock_len data = data.length ∧ Gen.Protected.mprotect_readonly_len data = data.length
    ∧ Gen.Protected.mprotect_readwrite_len data = data.length ∧ Gen.Protected.mprotect_noaccess_len data = data.length :=
  ⟨rfl, rfl, rfl, rfl, rfl, rfl⟩

/-- the libc protection flags of a model permission -/
def permFlags : Perm → List String
  | .none => ["PROT_NONE"]
  | .r => ["PROT_READ"]
  | .rw => ["PROT_READ", "PROT_WRITE"]

/-- the three `mprotect` wrappers use exactly the flags of the permission the model applies for them -/
theorem syscall_flags :
    Gen.Protected.mprotect_readonly_prot = permFlags .r ∧ Gen.Protected.mprotect_readwrite_prot = permFlags .rw
    ∧ Gen.Protected.mprotect_noaccess_prot = permFlags .none := ⟨rfl, rfl, rfl⟩

/-- `deallocate` wipes the whole allocation (`layout.size()` bytes from its pointer) and does so before `free` -/
theorem deallocate_wipe (cap : Nat) :
    Gen.Protected.deallocate_wipe_len cap = cap ∧ Gen.Protected.deallocate_wipes_before_free = true := ⟨rfl, rfl⟩

/-- sanity test (a test, not a theorem about all inputs): one page-multiple and one odd size -/
example : Gen.Protected._page_round 4096 4096 = 8192 ∧ Gen.Protected.allocate_size 5 4096 = 12288 := by decide

end DryocVerif.Proofs.GenProtected
