import DryocVerif.Proofs.Sign
import DryocVerif.Proofs.Curve
/-!
The libsodium-style verifier `Spec.Ed25519.verifyCore` rejects every NON-CANONICAL point encoding
(y-coordinate ≥ p), as public key (explicit `ge25519_is_canonical` test) and as `R` (implicitly: the recomputed
`R'` is re-encoded canonically and compared bytewise).  Core only.
-/
namespace DryocVerif.Proofs.SignCanon
open DryocVerif DryocVerif.Spec.Ed25519 DryocVerif.Proofs.Sign

/-- libsodium side: a public key that fails `ge25519_is_canonical` is rejected, for every signature and message -/
theorem noncanonical_pk_rejected_spec (dom pk m sig : Bytes) (h : isCanonicalPoint pk = false) :
    verifyCore dom pk m sig = false := by
  rw [← Bool.not_eq_true, verifyCore_true_iff]
  rintro ⟨-, -, -, -, hc, -⟩
  rw [h] at hc; cases hc

/-! ### `encodePoint` always produces a canonical encoding -/

theorem and7f_aux : ∀ n, n < 256 → (UInt8.ofNat n &&& 0x7f) = 0x7f → n % 128 = 127 := by decide +kernel

theorem and7f_toNat (b : UInt8) (h : (b &&& 0x7f) = 0x7f) : b.toNat % 128 = 127 := by
  have := and7f_aux b.toNat b.toNat_lt
  rw [UInt8.ofNat_toNat] at this
  exact this h

theorem ge_ed_toNat (b : UInt8) (h : b ≥ 0xed) : 237 ≤ b.toNat := UInt8.le_iff_toNat_le.mp h

theorem le_replicate_ff : le (List.replicate 30 0xff) = 256 ^ 30 - 1 := by decide +kernel

theorem drop31 (s : Bytes) (h : s.length = 32) : s.drop 31 = [s.getD 31 0] := by
  rw [List.drop_eq_getElem_cons (by omega)]
  have : s.drop 32 = [] := List.drop_eq_nil_of_le (by omega)
  rw [this]
  simp [List.getD_eq_getElem?_getD, List.getElem?_eq_getElem (show 31 < s.length by omega)]

theorem take1 (s : Bytes) (h : s.length = 32) : s.take 1 = [s.getD 0 0] := by
  cases s with
  | nil => simp at h
  | cons b t => simp

/-- numeric meaning of a FAILED `ge25519_is_canonical`: the y-coordinate (bit 255 masked) is at least `p` -/
theorem noncanonical_y_ge_p (s : Bytes) (hl : s.length = 32) (h : isCanonicalPoint s = false) :
    p ≤ le s % 2 ^ 255 := by
  unfold isCanonicalPoint at h
  simp only [hl, beq_self_eq_true, Bool.true_and, Bool.not_eq_false', Bool.and_eq_true, beq_iff_eq,
    List.all_eq_true, decide_eq_true_eq] at h
  obtain ⟨⟨h31, hmid⟩, h0⟩ := h
  have hmid' : (s.drop 1).take 30 = List.replicate 30 0xff := by
    rw [List.eq_replicate_iff]
    refine ⟨by rw [List.length_take, List.length_drop]; omega, hmid⟩
  have e1 : s = s.take 1 ++ ((s.drop 1).take 30 ++ s.drop 31) := by
    have : s.drop 31 = (s.drop 1).drop 30 := by rw [List.drop_drop]
    rw [this, List.take_append_drop, List.take_append_drop]
  have hle : le s = (s.getD 0 0).toNat + 256 * (256 ^ 30 - 1 + 256 ^ 30 * (s.getD 31 0).toNat) := by
    conv => lhs; rw [e1]
    rw [Proofs.Curve.le_append, Proofs.Curve.le_append, hmid', take1 s hl, drop31 s hl, le_replicate_ff]
    simp [le]
  have a := and7f_toNat _ h31
  have b := ge_ed_toNat _ h0
  have c := (s.getD 0 0).toNat_lt
  have d := (s.getD 31 0).toNat_lt
  rw [hle]
  have hp : p = 2 ^ 255 - 19 := by decide
  rw [hp]
  generalize (s.getD 0 0).toNat = x at *
  generalize (s.getD 31 0).toNat = y at *
  have hy : y = 127 ∨ y = 255 := by omega
  rcases hy with hy | hy <;> subst hy <;> omega

theorem encodePoint_y_lt_p (P : Point) : le (encodePoint P) % 2 ^ 255 < p := by
  show le (toLE 32 (Spec.X25519.fmul P.Y (Spec.X25519.finv P.Z)
    + 2 ^ 255 * (Spec.X25519.fmul P.X (Spec.X25519.finv P.Z) % 2))) % 2 ^ 255 < p
  have hy : Spec.X25519.fmul P.Y (Spec.X25519.finv P.Z) < p := Nat.mod_lt _ (by decide)
  have hp : p = 2 ^ 255 - 19 := by decide
  have hb : Spec.X25519.fmul P.X (Spec.X25519.finv P.Z) % 2 < 2 := Nat.mod_lt _ (by decide)
  generalize Spec.X25519.fmul P.Y (Spec.X25519.finv P.Z) = y at *
  generalize Spec.X25519.fmul P.X (Spec.X25519.finv P.Z) % 2 = b at *
  rw [le_toLE_of_lt (by rw [hp] at hy; omega)]
  rw [hp] at hy ⊢
  omega

/-- every output of `encodePoint` passes `ge25519_is_canonical` -/
theorem encodePoint_canonical (P : Point) : isCanonicalPoint (encodePoint P) = true := by
  cases h : isCanonicalPoint (encodePoint P) with
  | true => rfl
  | false =>
    have h1 := noncanonical_y_ge_p _ (encodePoint_length P) h
    have h2 := encodePoint_y_lt_p P
    omega

/-- libsodium side: a signature whose `R` part is a non-canonical point encoding is rejected, for every public
key and message — not by an explicit test but because the recomputed `R'` is compared BYTEWISE with `sig[0..32]`
after a canonical re-encoding -/
theorem noncanonical_R_rejected_spec (dom pk m sig : Bytes) (h : isCanonicalPoint (sig.take 32) = false) :
    verifyCore dom pk m sig = false := by
  rw [← Bool.not_eq_true, verifyCore_true_iff]
  rintro ⟨-, -, -, -, -, -, A, -, heq⟩
  rw [← heq, encodePoint_canonical] at h
  cases h

#print axioms noncanonical_pk_rejected_spec
#print axioms noncanonical_R_rejected_spec

end DryocVerif.Proofs.SignCanon
