import DryocVerif.Model.SecretStreamStore
import DryocVerif.Proofs.RawExtra
/-
The store-passing model of the classic stream `pull` (`Model/SecretStreamStore.lean`): closed forms, "an `Err` returns
the store untouched" as a theorem about the ORDER of the statements, equality with `pullRaw`, and the counter-models
(order before fix E8; `xor_buf(inonce, &mac)` moved above the comparison) that violate it.  Core only.
-/
namespace DryocVerif.Proofs.Raw
open DryocVerif DryocVerif.Model.Raw

/-! ### running statements -/

theorem run_pure {σ α : Type} (a : α) (μ : σ) : (pure a : Stmt σ α).run μ = (.ok a, μ) := rfl

theorem run_eval {σ α : Type} (x : Outcome α) (μ : σ) : (Stmt.eval x : Stmt σ α).run μ = (x, μ) := rfl

theorem run_bind_of_ok {σ α β : Type} {x : Stmt σ α} {f : α → Stmt σ β} {μ μ' : σ} {a : α}
    (h : x.run μ = (.ok a, μ')) : (x >>= f).run μ = (f a).run μ' := by
  show Stmt.seq x f μ = f a μ'
  unfold Stmt.seq
  have h' : x μ = (.ok a, μ') := h
  rw [h']

theorem run_bind_of_err {σ α β : Type} {x : Stmt σ α} {f : α → Stmt σ β} {μ μ' : σ}
    (h : x.run μ = (.err, μ')) : (x >>= f).run μ = (.err, μ') := by
  show Stmt.seq x f μ = _
  unfold Stmt.seq
  have h' : x μ = (.err, μ') := h
  rw [h']

theorem run_bind_of_panic {σ α β : Type} {x : Stmt σ α} {f : α → Stmt σ β} {μ μ' : σ}
    (h : x.run μ = (.panic, μ')) : (x >>= f).run μ = (.panic, μ') := by
  show Stmt.seq x f μ = _
  unfold Stmt.seq
  have h' : x μ = (.panic, μ') := h
  rw [h']

theorem run_eval_bind_ok {σ α β : Type} {x : Outcome α} {a : α} (h : x = .ok a) (f : α → Stmt σ β) (μ : σ) :
    (Stmt.eval x >>= f).run μ = (f a).run μ :=
  run_bind_of_ok (by rw [run_eval, h])

theorem run_eval_bind_err {σ α β : Type} {x : Outcome α} (h : x = .err) (f : α → Stmt σ β) (μ : σ) :
    (Stmt.eval x >>= f).run μ = (.err, μ) :=
  run_bind_of_err (by rw [run_eval, h])

theorem run_eval_bind_panic {σ α β : Type} {x : Outcome α} (h : x = .panic) (f : α → Stmt σ β) (μ : σ) :
    (Stmt.eval x >>= f).run μ = (.panic, μ) :=
  run_bind_of_panic (by rw [run_eval, h])

theorem run_read_bind {σ β : Type} (f : σ → Stmt σ β) (μ : σ) : (Stmt.read >>= f).run μ = (f μ).run μ := rfl

theorem run_write_bind {σ β : Type} (g : σ → σ) (f : Unit → Stmt σ β) (μ : σ) :
    (Stmt.write g >>= f).run μ = (f ()).run (g μ) := rfl

theorem run_write {σ : Type} (g : σ → σ) (μ : σ) : (Stmt.write g).run μ = (.ok (), g μ) := rfl

end DryocVerif.Proofs.Raw

namespace DryocVerif.Proofs.SecretStream
open DryocVerif DryocVerif.Model.Utils DryocVerif.Model.SecretStream DryocVerif.Model.Raw DryocVerif.Proofs.Raw
open scoped DryocVerif.Model.Raw

/-! ### the three pure statement ranges, in closed form -/

/-- the three length guards of `pull` -/
theorem pullGuardsRaw_eq (n : Nat) (ct : Bytes) :
    pullGuardsRaw n ct =
      if ct.length < 17 then .err else if n < ct.length - 17 then .err
      else if STREAM_BODY_MAX + 17 < ct.length then .err else .ok () := by
  unfold pullGuardsRaw ABYTES
  by_cases h1 : ct.length < 17
  · rw [errIf_pos h1, err_bind, if_pos h1]
  rw [errIf_neg h1, ok_bind, checkedSub_ok (by omega), ok_bind, if_neg h1]
  by_cases h2 : n < ct.length - 17
  · rw [errIf_pos h2, err_bind, if_pos h2]
  rw [errIf_neg h2, ok_bind, if_neg h2, pullMaxGuard_eq true _ (by omega), pullMax_true, ← STREAM_BODY_MAX_eq]

/-- the MAC computation for every length the guards let through: every checked operation succeeds, the locals are
`mlen = ct.len() − 17`, the decrypted tag byte and the expected authenticator -/
theorem pullMacRaw_eq (P : Prims) (s : State) (ct ad : Bytes) (h1 : 17 ≤ ct.length)
    (h3 : ct.length ≤ STREAM_BODY_MAX + 17) :
    pullMacRaw P s ct ad = .ok ⟨ct.length - 17, pullTag P s ct, pullMac P s ct ad⟩ := by
  have hB := STREAM_BODY_MAX_eq
  obtain ⟨c0, rest, rfl⟩ : ∃ c0 rest, ct = c0 :: rest := by
    cases ct with
    | nil => simp at h1
    | cons a b => exact ⟨a, b, rfl⟩
  unfold pullMacRaw
  simp only []
  rw [keystream_ok P s (by omega), ok_bind, sliceTo_ok (by rw [zeros_length]; exact pad16_le _), ok_bind,
    tagBlockRaw_eq, ok_bind]
  generalize hct : (c0 :: rest) = ct at *
  unfold ABYTES
  simp only []
  have hclen : ((ct.drop 1).take (ct.length - 17)).length = ct.length - 17 := by
    rw [List.length_take, List.length_drop]; omega
  have hpadle : bufferMacPad (ct.length - 17) ≤ 16 := by rw [bufferMacPad_eq]; omega
  rw [checkedSub_ok h1, ok_bind, asI64_small (by omega), checkedAddI64_ok (by omega), ok_bind,
    checkedAdd_ok (by omega), checkedAdd_ok (by omega)]
  simp only [ok_bind]
  have hpad : ((16 - 64 + ((ct.length - 17 : Nat) : Int)) % 16).toNat = bufferMacPad (ct.length - 17) := rfl
  rw [slice_ok (by omega) (by omega), hpad, sliceTo_ok (by rw [zeros_length]; exact hpadle), sizeDataRaw_eq]
  simp only [ok_bind, pure_eq]
  rw [zeros_take 16 _ (pad16_le _), zeros_take 16 _ hpadle, Nat.add_sub_cancel_left]
  have hmac : P.mac (P.chacha s.k s.nonce (0 / 64) 32)
      (ad ++ zeros (pad16 ad.length) ++ pullBlock P s ct ++ (ct.drop 1).take (ct.length - 17)
        ++ zeros (bufferMacPad (ct.length - 17)) ++ (toLE 8 ad.length ++ toLE 8 (64 + (ct.length - 17))))
      = pullMac P s ct ad := by
    unfold pullMac macKey macInput
    rw [hclen]
    simp only [List.append_assoc, Nat.zero_div]
  rw [hmac]

/-- the constant-time comparison -/
theorem pullCompareRaw_eq (ct : Bytes) (n : Nat) (t : UInt8) (mac : Bytes) (h1 : 1 + n ≤ ct.length)
    (h3 : ct.length < 2 ^ 64) :
    pullCompareRaw ct ⟨n, t, mac⟩ = if ct.drop (1 + n) ≠ mac then .err else .ok () := by
  unfold pullCompareRaw
  simp only []
  rw [checkedAdd_ok (by omega), ok_bind, sliceFrom_ok h1, ok_bind]
  rfl

/-! ### the two writing statement ranges -/

/-- the release of tag and plaintext on any store whose message buffer holds `mlen` bytes: three writes, no failure -/
theorem releaseStmts_run (P : Prims) (s0 : State) (ct : Bytes) (n : Nat) (t : UInt8) (mac : Bytes) (μ : Mem)
    (h1 : 1 + n ≤ ct.length) (h2 : n ≤ μ.buf.length) (h3 : n ≤ STREAM_BODY_MAX) :
    (releaseStmts P s0 ct ⟨n, t, mac⟩).run μ =
      (.ok (), { μ with tag := t,
                        buf := xorBytes ((ct.drop 1).take n) (P.chacha s0.k s0.nonce 2 n) ++ μ.buf.drop n }) := by
  have hB := STREAM_BODY_MAX_eq
  have hclen : ((ct.drop 1).take n).length = n := by
    rw [List.length_take, List.length_drop]; omega
  unfold releaseStmts
  simp only []
  rw [run_write_bind, run_read_bind,
    run_eval_bind_ok (sliceTo_ok h2), run_eval_bind_ok (checkedAdd_ok (by omega)),
    run_eval_bind_ok (slice_ok (by omega) (by omega)),
    run_eval_bind_ok (copyFromSlice_ok (by rw [Nat.add_sub_cancel_left, hclen, List.length_take]; omega)),
    run_write_bind, run_read_bind]
  simp only [Nat.add_sub_cancel_left]
  have hl2 : n ≤ ((ct.drop 1).take n ++ μ.buf.drop n).length := by
    rw [List.length_append, hclen]; omega
  rw [run_eval_bind_ok (sliceTo_ok hl2)]
  have ht : ((ct.drop 1).take n ++ μ.buf.drop n).take n = (ct.drop 1).take n := by
    rw [List.take_left' hclen]
  have hd : ((ct.drop 1).take n ++ μ.buf.drop n).drop n = μ.buf.drop n := by
    rw [List.drop_left' hclen]
  rw [ht, hclen, run_eval_bind_ok (keystream_ok P s0 (by omega)), run_write, hd]

/-- the first two state writes leave counter and inner nonce as `advance` computes them (no hypothesis on the state:
the nonce is read as `counter ‖ inonce`, bytes beyond the twelfth are dropped by both) -/
theorem nonce_writes (s : State) (mac : Bytes) :
    ({ s with nonce := s.counter ++ xorBuf s.inonce mac } : State).counter = s.counter ∧
    ({ s with nonce := s.counter ++ xorBuf s.inonce mac } : State).inonce = xorBuf s.inonce mac := by
  have hil : (xorBuf s.inonce mac).length ≤ 8 := by
    rw [xorBuf_length]; unfold State.inonce; rw [List.length_take]; omega
  by_cases h : 4 ≤ s.nonce.length
  · have hc : s.counter.length = 4 := by unfold State.counter; rw [List.length_take]; omega
    constructor
    · show (s.counter ++ xorBuf s.inonce mac).take 4 = s.counter
      exact List.take_left' hc
    · show ((s.counter ++ xorBuf s.inonce mac).drop 4).take 8 = xorBuf s.inonce mac
      rw [List.drop_left' hc, List.take_of_length_le hil]
  · have hc : s.counter = s.nonce := by unfold State.counter; exact List.take_of_length_le (by omega)
    have hi : s.inonce = [] := by
      unfold State.inonce
      rw [List.drop_eq_nil_of_le (by omega)]; rfl
    have hx : xorBuf s.inonce mac = [] := by
      rw [hi]; unfold xorBuf; simp [xorBytes]
    constructor
    · show (s.counter ++ xorBuf s.inonce mac).take 4 = s.counter
      rw [hx, List.append_nil, hc]; exact List.take_of_length_le (by omega)
    · show ((s.counter ++ xorBuf s.inonce mac).drop 4).take 8 = xorBuf s.inonce mac
      rw [hx, List.append_nil, hc, List.drop_eq_nil_of_le (by omega)]; rfl

theorem counter_of_increment (s : State) (mac : Bytes) :
    ({ s with nonce := incrementBytes s.counter ++ xorBuf s.inonce mac } : State).counter = incrementBytes s.counter := by
  show (incrementBytes s.counter ++ xorBuf s.inonce mac).take 4 = incrementBytes s.counter
  by_cases h : 4 ≤ s.nonce.length
  · have hc : (incrementBytes s.counter).length = 4 := by
      rw [incrementBytes_length]; unfold State.counter; rw [List.length_take]; omega
    exact List.take_left' hc
  · have hi : s.inonce = [] := by
      unfold State.inonce
      rw [List.drop_eq_nil_of_le (by omega)]; rfl
    have hx : xorBuf s.inonce mac = [] := by
      rw [hi]; unfold xorBuf; simp [xorBytes]
    rw [hx, List.append_nil]
    apply List.take_of_length_le
    rw [incrementBytes_length]; unfold State.counter; rw [List.length_take]; omega

/-- the state update, statement by statement, is `advance` on the tag byte read back from the caller's variable -/
theorem advanceStmts_run (P : Prims) (n : Nat) (t : UInt8) (mac : Bytes) (μ : Mem) :
    (advanceStmts P ⟨n, t, mac⟩).run μ = (.ok (), { μ with st := advance P μ.st mac μ.tag }) := by
  obtain ⟨s, buf, tag⟩ := μ
  obtain ⟨hc1, hi1⟩ := nonce_writes s mac
  unfold advanceStmts
  simp only []
  rw [run_write_bind, run_write_bind, run_read_bind]
  simp only [hc1, hi1]
  have hcnt := counter_of_increment s mac
  unfold advance
  simp only []
  by_cases hr : tag.toNat &&& TAG_REKEY = TAG_REKEY ∨ incrementBytes s.counter = [0, 0, 0, 0]
  · rw [if_pos (by rw [hcnt]; exact hr), if_pos hr]; rfl
  · rw [if_neg (by rw [hcnt]; exact hr), if_neg hr]; rfl

/-! ### the current source -/

/-- **closed form of the store-passing `pull`** (current source): the four `return Err` leave the store as it is;
an accepted ciphertext writes tag, plaintext and the advanced state -/
theorem pullStmts_closed (P : Prims) (ct ad : Bytes) (μ : Mem) :
    pullStmts P ct ad μ =
      if ct.length < 17 then (.err, μ) else if μ.buf.length < ct.length - 17 then (.err, μ)
      else if STREAM_BODY_MAX + 17 < ct.length then (.err, μ)
      else if ct.drop (1 + (ct.length - 17)) ≠ pullMac P μ.st ct ad then (.err, μ)
      else (.ok (ct.length - 17),
            ⟨advance P μ.st (pullMac P μ.st ct ad) (pullTag P μ.st ct),
             xorBytes ((ct.drop 1).take (ct.length - 17)) (P.chacha μ.st.k μ.st.nonce 2 (ct.length - 17))
               ++ μ.buf.drop (ct.length - 17),
             pullTag P μ.st ct⟩) := by
  have hB := STREAM_BODY_MAX_eq
  unfold pullStmts pullStmtsM
  rw [run_read_bind]
  have hg := pullGuardsRaw_eq μ.buf.length ct
  by_cases h1 : ct.length < 17
  · rw [if_pos h1] at hg; rw [run_eval_bind_err hg, if_pos h1]
  rw [if_neg h1] at hg ⊢
  by_cases h2 : μ.buf.length < ct.length - 17
  · rw [if_pos h2] at hg; rw [run_eval_bind_err hg, if_pos h2]
  rw [if_neg h2] at hg ⊢
  by_cases h3 : STREAM_BODY_MAX + 17 < ct.length
  · rw [if_pos h3] at hg; rw [run_eval_bind_err hg, if_pos h3]
  rw [if_neg h3] at hg ⊢
  rw [run_eval_bind_ok hg, run_eval_bind_ok (pullMacRaw_eq P μ.st ct ad (by omega) (by omega))]
  have hc := pullCompareRaw_eq ct (ct.length - 17) (pullTag P μ.st ct) (pullMac P μ.st ct ad) (by omega) (by omega)
  by_cases h4 : ct.drop (1 + (ct.length - 17)) ≠ pullMac P μ.st ct ad
  · rw [if_pos h4] at hc; rw [run_eval_bind_err hc, if_pos h4]
  rw [if_neg h4] at hc ⊢
  rw [run_eval_bind_ok hc,
    run_bind_of_ok (releaseStmts_run P μ.st ct _ _ _ μ (by omega) (by omega) (by omega)),
    run_bind_of_ok (advanceStmts_run P _ _ _ _), run_pure]

/-- **a rejected `pull` returns the store untouched** — state, message buffer and tag variable.  Here this is NOT the
shape of a definition: `Err` returns whatever the store is when the `return Err(..)` executes, and the theorem holds
because each of the four `return Err` of the source precedes its first write (`pullStmtsOld8_violates`,
`pullStmtsEarlyState_violates`: with a write moved in front of the comparison it fails). -/
theorem pullStmts_err_untouched (P : Prims) (ct ad : Bytes) (μ : Mem)
    (h : (pullStmts P ct ad μ).1 = .err) : (pullStmts P ct ad μ).2 = μ := by
  rw [pullStmts_closed] at h ⊢
  split; · rfl
  split; · rfl
  split; · rfl
  split; · rfl
  rename_i a1 a2 a3 a4
  rw [if_neg a1, if_neg a2, if_neg a3, if_neg a4] at h
  cases h

/-- the store-passing `pull` never panics -/
theorem pullStmts_never_panics (P : Prims) (ct ad : Bytes) (μ : Mem) : (pullStmts P ct ad μ).1 ≠ .panic := by
  rw [pullStmts_closed]
  split; · simp
  split; · simp
  split; · simp
  split <;> simp

/-- **the store-passing `pull` is `pullRaw`** (hence, by `pullRaw_eq_pullChecked`, the guarded total model): verdict
and store afterwards, for every input — so every theorem about `pullRaw` / `pullChecked` / `pull` (below the length
limit) is a theorem about the statement order of the source -/
theorem pullStmts_eq_pullRaw (P : Prims) (ct ad : Bytes) (μ : Mem) :
    pullStmts P ct ad μ =
      ((pullRaw P μ.st μ.buf μ.tag ct ad).res,
       ⟨(pullRaw P μ.st μ.buf μ.tag ct ad).st, (pullRaw P μ.st μ.buf μ.tag ct ad).buf,
        (pullRaw P μ.st μ.buf μ.tag ct ad).tag⟩) := by
  have hK := KEYSTREAM_MESSAGEBYTES_MAX_eq
  rw [pullStmts_closed, pullRaw_eq_pullChecked]
  unfold pullChecked ABYTES
  by_cases h1 : ct.length < 17
  · rw [if_pos h1, if_pos h1]
  rw [if_neg h1, if_neg h1]
  by_cases h2 : μ.buf.length < ct.length - 17
  · rw [if_pos h2, if_pos h2]
  rw [if_neg h2, if_neg h2]
  by_cases h3 : STREAM_BODY_MAX + 17 < ct.length
  · have h3' : ct.length - 17 > KEYSTREAM_MESSAGEBYTES_MAX := by omega
    rw [if_pos h3, if_pos h3']
  have h3' : ¬ ct.length - 17 > KEYSTREAM_MESSAGEBYTES_MAX := by omega
  rw [if_neg h3, if_neg h3', pull_eq, if_neg h1, if_neg h2]
  by_cases h4 : ct.drop (1 + (ct.length - 17)) ≠ pullMac P μ.st ct ad
  · rw [if_pos h4, if_pos h4]
  · rw [if_neg h4, if_neg h4]

/-! ### counter-models -/

/-- closed form of the order before fix E8: on an authenticator mismatch the `Err` comes AFTER tag and plaintext have
been written -/
theorem pullStmtsOld8_closed (P : Prims) (ct ad : Bytes) (μ : Mem) :
    pullStmtsOld8 P ct ad μ =
      if ct.length < 17 then (.err, μ) else if μ.buf.length < ct.length - 17 then (.err, μ)
      else if STREAM_BODY_MAX + 17 < ct.length then (.err, μ)
      else if ct.drop (1 + (ct.length - 17)) ≠ pullMac P μ.st ct ad then
        (.err, { μ with tag := pullTag P μ.st ct,
                        buf := xorBytes ((ct.drop 1).take (ct.length - 17))
                                 (P.chacha μ.st.k μ.st.nonce 2 (ct.length - 17)) ++ μ.buf.drop (ct.length - 17) })
      else (.ok (ct.length - 17),
            ⟨advance P μ.st (pullMac P μ.st ct ad) (pullTag P μ.st ct),
             xorBytes ((ct.drop 1).take (ct.length - 17)) (P.chacha μ.st.k μ.st.nonce 2 (ct.length - 17))
               ++ μ.buf.drop (ct.length - 17),
             pullTag P μ.st ct⟩) := by
  have hB := STREAM_BODY_MAX_eq
  unfold pullStmtsOld8 pullStmtsOld8M
  rw [run_read_bind]
  have hg := pullGuardsRaw_eq μ.buf.length ct
  by_cases h1 : ct.length < 17
  · rw [if_pos h1] at hg; rw [run_eval_bind_err hg, if_pos h1]
  rw [if_neg h1] at hg ⊢
  by_cases h2 : μ.buf.length < ct.length - 17
  · rw [if_pos h2] at hg; rw [run_eval_bind_err hg, if_pos h2]
  rw [if_neg h2] at hg ⊢
  by_cases h3 : STREAM_BODY_MAX + 17 < ct.length
  · rw [if_pos h3] at hg; rw [run_eval_bind_err hg, if_pos h3]
  rw [if_neg h3] at hg ⊢
  rw [run_eval_bind_ok hg, run_eval_bind_ok (pullMacRaw_eq P μ.st ct ad (by omega) (by omega)),
    run_bind_of_ok (releaseStmts_run P μ.st ct _ _ _ μ (by omega) (by omega) (by omega))]
  have hc := pullCompareRaw_eq ct (ct.length - 17) (pullTag P μ.st ct) (pullMac P μ.st ct ad) (by omega) (by omega)
  by_cases h4 : ct.drop (1 + (ct.length - 17)) ≠ pullMac P μ.st ct ad
  · rw [if_pos h4] at hc; rw [run_eval_bind_err hc, if_pos h4]
  rw [if_neg h4] at hc ⊢
  rw [run_eval_bind_ok hc, run_bind_of_ok (advanceStmts_run P _ _ _ _), run_pure]

/-- same verdict as the current order, same store on `Ok` -/
theorem pullStmtsOld8_res (P : Prims) (ct ad : Bytes) (μ : Mem) :
    (pullStmtsOld8 P ct ad μ).1 = (pullStmts P ct ad μ).1 ∧
    (∀ n, (pullStmts P ct ad μ).1 = .ok n → pullStmtsOld8 P ct ad μ = pullStmts P ct ad μ) := by
  rw [pullStmtsOld8_closed, pullStmts_closed]
  split; · exact ⟨rfl, fun _ _ => rfl⟩
  split; · exact ⟨rfl, fun _ _ => rfl⟩
  split; · exact ⟨rfl, fun _ _ => rfl⟩
  split
  · exact ⟨rfl, fun n h => by cases h⟩
  · exact ⟨rfl, fun _ _ => rfl⟩

/-- toy primitives for the concrete witnesses (key stream `5a+ctr`, a MAC that adds bytes up) -/
def storeToyMem : Mem := ⟨toyState, [9, 9, 9], 7⟩

/-- **the order before fix E8 violates `err_untouched`**: a full-length ciphertext with a forged authenticator is
rejected, and the store handed back has the tag variable and the message buffer overwritten (the state not yet) -/
theorem pullStmtsOld8_violates :
    ¬ ∀ (P : Prims) (ct ad : Bytes) (μ : Mem), (pullStmtsOld8 P ct ad μ).1 = .err → (pullStmtsOld8 P ct ad μ).2 = μ := by
  intro h
  exact absurd (h toyPrims ([1, 2] ++ zeros 16) [0x42] storeToyMem (by decide)) (by decide)

/-- what exactly is handed back there -/
theorem pullStmtsOld8_releases :
    (pullStmtsOld8 toyPrims ([1, 2] ++ zeros 16) [0x42] storeToyMem).1 = .err ∧
    (pullStmtsOld8 toyPrims ([1, 2] ++ zeros 16) [0x42] storeToyMem).2.buf ≠ storeToyMem.buf ∧
    (pullStmtsOld8 toyPrims ([1, 2] ++ zeros 16) [0x42] storeToyMem).2.tag ≠ storeToyMem.tag ∧
    (pullStmtsOld8 toyPrims ([1, 2] ++ zeros 16) [0x42] storeToyMem).2.st = storeToyMem.st := by
  refine ⟨by decide, by decide, by decide, by decide⟩

/-- … while the current order hands back the store it was given, on the same input -/
theorem pullStmts_keeps_on_same_input :
    pullStmts toyPrims ([1, 2] ++ zeros 16) [0x42] storeToyMem = (.err, storeToyMem) := by decide

/-- **`xor_buf(inonce, &mac)` moved above the MAC comparison violates `err_untouched`**: the rejected pull has already
xored the (attacker-chosen-input-dependent) authenticator into the inner nonce — the stream is desynchronised by a
forgery.  `pull` / `pullRaw` cannot express this order; the store-passing model can, and the theorem excludes it. -/
theorem pullStmtsEarlyState_violates :
    ¬ ∀ (P : Prims) (ct ad : Bytes) (μ : Mem),
        (pullStmtsEarlyState P ct ad μ).1 = .err → (pullStmtsEarlyState P ct ad μ).2 = μ := by
  intro h
  exact absurd (h toyPrims ([1, 2] ++ zeros 16) [0x42] storeToyMem (by decide)) (by decide)

theorem pullStmtsEarlyState_desyncs :
    (pullStmtsEarlyState toyPrims ([1, 2] ++ zeros 16) [0x42] storeToyMem).1 = .err ∧
    (pullStmtsEarlyState toyPrims ([1, 2] ++ zeros 16) [0x42] storeToyMem).2.st ≠ storeToyMem.st ∧
    (pullStmtsEarlyState toyPrims ([1, 2] ++ zeros 16) [0x42] storeToyMem).2.buf = storeToyMem.buf := by
  refine ⟨by decide, by decide, by decide⟩

end DryocVerif.Proofs.SecretStream
