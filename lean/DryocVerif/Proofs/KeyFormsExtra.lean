import Lean.Elab.Tactic
import DryocVerif.Proofs.Curve
import DryocVerif.Proofs.Sign
import DryocVerif.Model.KeyForms
/-
C13 helpers: the Ed25519 → Curve25519 public-key conversion against libsodium's, RFC 8032 key
generation, and the added key-pair forms of `Model/KeyForms.lean`.  Core only.
-/
namespace DryocVerif.Proofs.KeyFormsExtra
open DryocVerif DryocVerif.Model.Curve DryocVerif.Model.KeyForms DryocVerif.Spec.Ed25519
open DryocVerif.Spec.X25519 (fadd fsub fmul fsq fpow finv)

/-! ### decoded points are affine with a reduced y -/

open Lean Elab Tactic Meta in
/-- `h : C a₁ … aₙ = rhs`, where the definition `C` is a chain of `let`s ending in a `match` on a single
discriminant: replaces the goal `G` by `∀ x?, (match x? with …) = rhs → G`, i.e. unfolds `C`, instantiates
its top-level `let`s and abstracts the discriminant.  It is done with explicit proof terms
(`C = fun … => body` by `rfl` on the UNAPPLIED constant, then `congrFun`): every route through
definitional unfolding of the applied constant (`unfold`, `dsimp`, `split`, …) leaves the kernel with a
`match`-on-discriminant to compare with a non-identical term, which it does by evaluating the
discriminant — here a field exponentiation on a symbolic argument, which does not terminate in practice.
The tactic adds nothing to the trusted base: it only builds an ordinary proof term that the kernel checks. -/
elab "unfold_abstract_discr_at " h:ident : tactic => withMainContext do
  let g ← getMainGoal
  let fvar ← getFVarId h
  let ty ← instantiateMVars (← fvar.getType)
  let some (_, lhs, rhs) := ty.eq? | throwError "not an equation"
  let .const c us := lhs.getAppFn | throwError "head is not a constant"
  let info ← getConstInfo c
  let val := info.instantiateValueLevelParams! us
  let cargs := lhs.getAppArgs
  -- `C = val` by reflexivity on the unapplied constant
  let mut pf ← mkExpectedTypeHint (← mkEqRefl (mkConst c us)) (← mkEq (mkConst c us) val)
  for a in cargs do
    pf ← mkCongrFun pf a
  -- `val a₁ … aₙ = rhs`
  let h2 ← mkEqTrans (← mkEqSymm pf) (mkFVar fvar)
  let rec go : Nat → Expr → Expr
    | fuel + 1, .letE _ _ v b _ => go fuel (b.instantiate1 v)
    | fuel + 1, .mdata _ e => go fuel e
    | _, e => e
  let lhs' := go 1000 (val.beta cargs)
  let args := lhs'.getAppArgs
  let fn := lhs'.getAppFn
  let discr := args[1]!
  let target ← g.getType
  let discrTy ← inferType discr
  let newTy ← withLocalDeclD `x? discrTy fun x => do
    let eq ← mkEq (mkAppN fn (args.set! 1 x)) rhs
    mkForallFVars #[x] (← mkArrow eq target)
  let m ← mkFreshExprSyntheticOpaqueMVar newTy
  g.assign (mkApp2 m discr h2)
  replaceMainGoal [m.mvarId!]

/-- whatever x-coordinate is recovered, the decoded point has the given y and Z = 1 -/
theorem recoverX_some (y s : Nat) (strict : Bool) (A : Point)
    (h : recoverX y s strict = some A) : A.Y = y ∧ A.Z = 1 := by
  unfold_abstract_discr_at h
  clear h
  as_aux_lemma =>
  intro x? h
  cases x? with
  | none => cases h
  | some x' =>
    dsimp only at h
    split at h
    · cases h
    · cases h; exact ⟨rfl, rfl⟩

theorem decodePointLax_some (pk : Bytes) (A : Point) (h : decodePointLax pk = some A) :
    A.Y < p ∧ A.Z = 1 ∧ pk.length = 32 := by
  unfold decodePointLax at h
  split at h
  · cases h
  · rename_i hl
    obtain ⟨hy, hz⟩ := recoverX_some _ _ _ _ h
    refine ⟨?_, hz, by simpa using hl⟩
    rw [hy]; exact Nat.mod_lt _ (by decide)

set_option maxRecDepth 100000 in
theorem finv_one : finv 1 = 1 := by decide

theorem finv_mod (a : Nat) : finv (a % Spec.X25519.p) = finv a := by
  unfold finv fpow; rw [Nat.mod_mod]

/-! ### `pk_to_curve25519` -/

/-- the model's conversion on a decodable key, written with the spec's field operations -/
theorem pkToCurve_of_decode (pk : Bytes) (A : Point) (h : decodePointLax pk = some A) :
    Model.Sign.pkToCurve pk = .ok (toLE 32 (fmul (fadd 1 A.Y) (finv (fsub 1 A.Y)))) := by
  obtain ⟨hy, hz, -⟩ := decodePointLax_some pk A h
  have hy' : A.Y < Spec.X25519.p := hy
  have key : (1 + A.Y) * finv (1 + (Spec.X25519.p - A.Y)) % Spec.X25519.p =
      fmul (fadd 1 A.Y) (finv (fsub 1 A.Y)) := by
    unfold fmul fadd fsub
    rw [Nat.mod_mul_mod, finv_mod, Nat.mod_eq_of_lt hy']
  unfold Model.Sign.pkToCurve
  rw [h]
  simp only [hz, finv_one, Nat.mul_one, Spec.Ed25519.p, Nat.mod_eq_of_lt hy', key]

/-- wherever libsodium's `crypto_sign_ed25519_pk_to_curve25519` accepts, dryoc's returns the same -/
theorem pkToCurve_of_spec (pk out : Bytes) (h : Spec.Ed25519.pkToCurve pk = some out) :
    Model.Sign.pkToCurve pk = .ok out := by
  unfold Spec.Ed25519.pkToCurve at h
  split at h
  · cases h
  · cases hd : decodePointLax pk with
    | none => rw [hd] at h; cases h
    | some A =>
      rw [hd] at h
      simp only at h
      split at h
      · cases h
      · cases h
        exact pkToCurve_of_decode pk A hd

theorem pkToCurve_err_iff (pk : Bytes) :
    Model.Sign.pkToCurve pk = .err ↔ decodePointLax pk = none := by
  unfold Model.Sign.pkToCurve
  cases decodePointLax pk <;> simp

theorem pkToCurve_never_panics (pk : Bytes) : Model.Sign.pkToCurve pk ≠ .panic := by
  unfold Model.Sign.pkToCurve
  cases decodePointLax pk <;> simp

/-! ### RFC 8032 key generation -/

/-- the scalar of RFC 8032 §5.1.5 is the little-endian value of the model's `clampHash` -/
theorem secretExpand_fst (seed : Bytes) :
    (secretExpand seed).1 = le (Model.Sign.clampHash (Spec.Sha512.sha512 seed)) := by
  unfold secretExpand Spec.X25519.decodeScalar25519
  simp only
  rw [Proofs.Sign.clamp_take, Proofs.Sign.clampHash_eq_clamp]

theorem publicKey_eq (seed : Bytes) :
    publicKey seed = encodePoint (scalarMul (le (Model.Sign.clampHash (Spec.Sha512.sha512 seed))) B) := by
  unfold publicKey; rw [secretExpand_fst]

theorem seedKeypair_eq_rfc (seed : Bytes)
    (hL : encodePoint (scalarMul (le (Model.Sign.clampHash (Spec.Sha512.sha512 seed)) % L) B) =
          encodePoint (scalarMul (le (Model.Sign.clampHash (Spec.Sha512.sha512 seed))) B)) :
    (Model.Sign.seedKeypair Spec.Sha512.sha512 seed).1 = publicKey seed := by
  rw [publicKey_eq, ← hL]; rfl

/-- the statement of the brief, with structural equality of the two projective points as hypothesis.
NB that hypothesis FAILS on real instances (the two representations differ by a projective factor,
see the counterexample in `Properties/C13.lean`); `seedKeypair_eq_rfc` is the usable form. -/
theorem seedKeypair_eq_rfc_of_point_eq (seed : Bytes)
    (hL : scalarMul (le (Model.Sign.clampHash (Spec.Sha512.sha512 seed)) % L) B =
          scalarMul (le (Model.Sign.clampHash (Spec.Sha512.sha512 seed))) B) :
    (Model.Sign.seedKeypair Spec.Sha512.sha512 seed).1 = publicKey seed :=
  seedKeypair_eq_rfc seed (by rw [hL])

/-! ### `copy_from_slice` -/

theorem copyFromSlice_ok (dst src : Bytes) (h : dst.length = src.length) :
    copyFromSlice dst src = .ok src := by
  unfold copyFromSlice; rw [if_pos h]

theorem copyIntoRange_prefix (dst src : Bytes) (n : Nat) (hs : src.length = n) (hd : n ≤ dst.length) :
    copyIntoRange dst 0 n src = .ok (src ++ dst.drop n) := by
  unfold copyIntoRange
  rw [if_pos ⟨Nat.zero_le _, hd, by omega⟩]
  simp

theorem copyIntoRange_suffix (dst src : Bytes) (a : Nat) (ha : a ≤ dst.length)
    (hs : src.length = dst.length - a) :
    copyIntoRange dst a dst.length src = .ok (dst.take a ++ src) := by
  unfold copyIntoRange
  rw [if_pos ⟨ha, Nat.le_refl _, hs.symm⟩]
  simp

/-! ### the in-place seed forms do not depend on the prior buffer contents -/

/-- `crypto_box_seed_keypair_inplace`: for 32-byte buffers and a hash of at least 32 bytes the call
succeeds and leaves exactly `crypto_box_seed_keypair(seed)` in the buffers, whatever they held -/
theorem boxSeedKeypairInplace_eq (P : Prims) (pk0 sk0 seed : Bytes)
    (hpk : pk0.length = 32) (hsk : sk0.length = 32)
    (hH : 32 ≤ (P.sha512 seed).length)
    (hL : ∀ n, (scalarmultBase P n).length = 32) :
    boxSeedKeypairInplace P pk0 sk0 seed = .ok (boxSeedKeypair P seed) := by
  unfold boxSeedKeypairInplace
  have h1 : sk0.length = ((P.sha512 seed).take 32).length := by simp; omega
  simp only [copyFromSlice_ok _ _ h1]
  have h2 : pk0.length = (scalarmultBase P ((P.sha512 seed).take 32)).length := by rw [hL, hpk]
  simp only [copyFromSlice_ok _ _ h2]
  rfl

theorem rawLadder_length (k u : Bytes) : (rawLadder k u).length = 32 := by
  unfold rawLadder Spec.X25519.encodeUCoordinate
  exact Proofs.Curve.toLE_length _ _

theorem scalarmultBase_spec_length (n : Bytes) : (scalarmultBase specPrims n).length = 32 :=
  rawLadder_length _ _

/-- the same with the executable primitives: no hypotheses beyond the buffer sizes -/
theorem boxSeedKeypairInplace_spec (pk0 sk0 seed : Bytes)
    (hpk : pk0.length = 32) (hsk : sk0.length = 32) :
    boxSeedKeypairInplace specPrims pk0 sk0 seed = .ok (boxSeedKeypair specPrims seed) :=
  boxSeedKeypairInplace_eq specPrims pk0 sk0 seed hpk hsk
    (by show 32 ≤ (Spec.Sha512.sha512 seed).length; rw [Proofs.Curve.sha512_length]; decide)
    scalarmultBase_spec_length

/-- `crypto_sign_seed_keypair_inplace`: for a 32-byte public-key buffer, a 64-byte secret-key
buffer and a 32-byte seed the call succeeds and leaves exactly `crypto_sign_seed_keypair(seed)`
in the buffers, whatever they held -/
theorem signSeedKeypairInplace_eq (H : Bytes → Bytes) (pk0 sk0 seed : Bytes)
    (hpk : pk0.length = 32) (hsk : sk0.length = 64) (hseed : seed.length = 32) :
    signSeedKeypairInplace H pk0 sk0 seed = .ok (Model.Sign.seedKeypair H seed) := by
  have hpkl : (Model.Sign.seedKeypair H seed).1.length = 32 := Proofs.Sign.encodePoint_length _
  unfold signSeedKeypairInplace
  simp only [copyIntoRange_prefix sk0 seed 32 hseed (by omega)]
  have hl : (seed ++ sk0.drop 32).length = 64 := by simp; omega
  have h2 := copyIntoRange_suffix (seed ++ sk0.drop 32) (Model.Sign.seedKeypair H seed).1 32
    (by omega) (by rw [hl, hpkl])
  simp only [h2, copyFromSlice_ok pk0 _ (by rw [hpkl, hpk])]
  have ht : (seed ++ sk0.drop 32).take 32 = seed := by
    rw [List.take_append_of_le_length (by omega), List.take_of_length_le (by omega)]
  rw [ht]
  rfl

/-! ### `from_secret_key`, `derive_keypair` -/

theorem deriveKeypair_ok (P : Prims) (pwhash : Nat → Outcome Bytes) (sk : Bytes)
    (h : pwhash 32 = .ok sk) : deriveKeypair P pwhash = .ok (scalarmultBase P sk, sk) := by
  unfold deriveKeypair; rw [h]; rfl

theorem deriveKeypair_err_iff (P : Prims) (pwhash : Nat → Outcome Bytes) :
    deriveKeypair P pwhash = .err ↔ pwhash 32 = .err := by
  unfold deriveKeypair; cases pwhash 32 <;> simp

theorem deriveKeypair_panic_iff (P : Prims) (pwhash : Nat → Outcome Bytes) :
    deriveKeypair P pwhash = .panic ↔ pwhash 32 = .panic := by
  unfold deriveKeypair; cases pwhash 32 <;> simp

theorem signFromSecretKey_ok (H : Bytes → Bytes) (sk : Bytes) (h : 32 ≤ sk.length) :
    signFromSecretKey H sk = .ok (Model.Sign.seedKeypair H (sk.take 32)) := by
  unfold signFromSecretKey; rw [if_neg (by omega)]

end DryocVerif.Proofs.KeyFormsExtra
