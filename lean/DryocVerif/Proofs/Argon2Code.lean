import DryocVerif.Model.Argon2Code
import DryocVerif.Proofs.Argon2Spec
import DryocVerif.Proofs.Blake2bMain
import DryocVerif.Proofs.Blake2bBackend
/-
Bridges between the BLAKE2b stand-ins of `Model/Argon2.lean` (`Spec.Blake2b.hash` over the concatenated input for H0,
the independent re-implementation `Model.Argon2.longhash` for H′) and the models of dryoc's own BLAKE2b code
(`Model.Blake2b.hashChunks` = `State::init` + `update`s + `finalize`; `Model.Blake2b.longhash` = `blake2b::longhash`),
and the composition: `Model.Argon2.argon2HashCode` (Argon2 with every BLAKE2b call through the code's model, either
backend) = `Model.Argon2.argon2Hash` = RFC 9106.  Core Lean only.
-/
namespace DryocVerif.Proofs.Argon2Code
open DryocVerif DryocVerif.Model.Argon2
open DryocVerif.Proofs.Argon2

/-! ### H′ -/

/-- `blake2b::longhash` of the software backend (as `longhashC compress`) is RFC 9106 H′ -/
theorem longhashC_soft_eq_hprime {n : Nat} (inp : Bytes) (h4 : 4 < n) (hmax : n < 0xFFFFFFFF)
    (hin : inp.length + 132 < 2 ^ 64) :
    Model.Blake2b.longhashC Model.Blake2b.compress n inp = .ok (Spec.Argon2.hprime n inp) := by
  rw [← Proofs.Blake2bBackend.longhash_eq_longhashC]
  exact Proofs.Blake2b.longhash_eq_hprime n inp h4 (by omega) hin

/-- **the model of the code's `longhash` = the stand-in used by `Model/Argon2.lean`** -/
theorem longhash_code_eq {n : Nat} (inp : Bytes) (h4 : 4 < n) (hmax : n < 0xFFFFFFFF)
    (hin : inp.length + 132 < 2 ^ 64) :
    Model.Blake2b.longhash n inp = Model.Argon2.longhash n inp := by
  rw [Proofs.Blake2b.longhash_eq_hprime n inp h4 (by omega) hin,
    Proofs.Argon2.longhash_eq_hprime inp h4 hmax]

/-- outside the two `assert!`s both panic (no hypothesis on the input) -/
theorem longhash_code_panic {n : Nat} (inp : Bytes) (h : n ≤ 4 ∨ 0xFFFFFFFF ≤ n) :
    Model.Blake2b.longhash n inp = .panic ∧ Model.Argon2.longhash n inp = .panic := by
  refine ⟨?_, Proofs.Argon2.longhash_panic inp h⟩
  unfold Model.Blake2b.longhash
  rcases h with h | h
  · rw [if_pos (by omega)]
  · by_cases h4 : ¬ n > 4
    · rw [if_pos h4]
    · rw [if_neg h4, if_pos (by omega)]

/-! ### H0 -/

theorem optUpdate_flatten (x : Bytes) : (optUpdate x).flatten = x := by
  unfold optUpdate
  cases x <;> simp

/-- the `update`s of `argon2_initial_hash`, concatenated, are the byte string of the model -/
theorem initialHashChunks_flatten (p outlen m t ty : Nat) (pwd salt : Bytes) (secret ad : Option Bytes) :
    (initialHashChunks p outlen m t ty pwd salt secret ad).flatten
      = initialHashInput p outlen m t ty pwd salt secret ad := by
  unfold initialHashChunks initialHashInput
  cases secret <;> cases ad <;>
    simp [List.flatten_append, optUpdate_flatten, List.append_assoc]

theorem store32_length (x : Nat) : (store32 x).length = 4 := Proofs.Argon2.toLE_length 4 x

/-- the prehash input is far below BLAKE2b's 2^128-byte limit once the four variable-length fields are `u32`-sized
(which `Argon2Context::new` has checked) -/
theorem initialHashInput_length_lt {p outlen m t ty : Nat} {pwd salt : Bytes} {secret ad : Option Bytes}
    (hpwd : pwd.length ≤ 0xFFFFFFFF) (hsalt : salt.length ≤ 0xFFFFFFFF)
    (hsec : ∀ n, secret.map List.length = some n → n ≤ 0xFFFFFFFF)
    (had : ∀ n, ad.map List.length = some n → n ≤ 0xFFFFFFFF) :
    (initialHashInput p outlen m t ty pwd salt secret ad).length + 128 < 2 ^ 64 := by
  have hs : ∀ s, secret = some s → s.length ≤ 0xFFFFFFFF := fun s h => hsec s.length (by rw [h]; rfl)
  have ha : ∀ s, ad = some s → s.length ≤ 0xFFFFFFFF := fun s h => had s.length (by rw [h]; rfl)
  unfold initialHashInput
  cases secret with
  | none =>
    cases ad with
    | none => simp only [List.length_append, store32_length]; omega
    | some a => have := ha a rfl; simp only [List.length_append, store32_length]; omega
  | some s =>
    have := hs s rfl
    cases ad with
    | none => simp only [List.length_append, store32_length]; omega
    | some a => have := ha a rfl; simp only [List.length_append, store32_length]; omega

/-- `State::init(64, None, None, None)`, any sequence of `update`s, `finalize` into 64 bytes (software backend)
is RFC 7693 BLAKE2b-512 of the concatenation -/
theorem prehash_soft_eq (cs : List Bytes) (h : cs.flatten.length + 128 < 2 ^ 128) :
    Model.Blake2b.hashChunksC Model.Blake2b.compress 64 none none none cs
      = .ok (Spec.Blake2b.hash 64 [] cs.flatten) :=
  Proofs.Blake2b.hashChunks_model_eq_spec 64 [] cs (by omega) (by simp) h

/-- **H0 through the code's BLAKE2b**: `init`, the `update`s in the order and with the skips of the Rust,
`finalize` — the 64-byte digest the model's `initialHash` starts with -/
theorem initialHash_chunks_eq (p outlen m t ty : Nat) (pwd salt : Bytes) (secret ad : Option Bytes)
    (hlen : (initialHashInput p outlen m t ty pwd salt secret ad).length + 128 < 2 ^ 128) :
    Model.Blake2b.hashChunks 64 none (initialHashChunks p outlen m t ty pwd salt secret ad)
      = .ok (Spec.Blake2b.hash 64 [] (initialHashInput p outlen m t ty pwd salt secret ad)) := by
  have h := prehash_soft_eq (initialHashChunks p outlen m t ty pwd salt secret ad)
    (by rw [initialHashChunks_flatten]; exact hlen)
  rw [initialHashChunks_flatten] at h
  exact h

/-- `argon2_initial_hash` through the code's BLAKE2b = the 72-byte `initialHash` of the model -/
theorem initialHashCode_eq (p outlen m t ty : Nat) (pwd salt : Bytes) (secret ad : Option Bytes)
    (hlen : (initialHashInput p outlen m t ty pwd salt secret ad).length + 128 < 2 ^ 128) :
    initialHashCode Model.Blake2b.compress p outlen m t ty pwd salt secret ad
      = .ok (initialHash p outlen m t ty pwd salt secret ad) := by
  have h := initialHash_chunks_eq p outlen m t ty pwd salt secret ad hlen
  unfold Model.Blake2b.hashChunks at h
  unfold initialHashCode
  have e64 : ARGON2_PREHASH_DIGEST_LENGTH = 64 := rfl
  rw [e64, h, ok_bind, pure_eq]
  rfl

theorem initialHash_length (p outlen m t ty : Nat) (pwd salt : Bytes) (secret ad : Option Bytes) :
    (initialHash p outlen m t ty pwd salt secret ad).length = 72 := by
  rw [Proofs.Argon2.initialHash_eq, List.length_append]
  unfold Spec.Argon2.h0
  rw [Proofs.Argon2.hash_length _ _ _ (by decide)]
  simp [zeros]

/-! ### `argon2_fill_first_blocks`, `argon2_finalize` -/

theorem copyInto_length (buf : Bytes) (off : Nat) (v : Bytes) (h : off + v.length ≤ buf.length) :
    (copyInto buf off v).length = buf.length := by
  unfold copyInto
  simp only [List.length_append, List.length_take, List.length_drop]
  omega

theorem fillFirstBlocksCode_ok {inst : Instance} (blockhash : Bytes) {mem : Array Block}
    (hbh : blockhash.length = 72) (hI : InstInv inst) (hmem : mem.size = inst.memoryBlocks) :
    fillFirstBlocksCode Model.Blake2b.compress blockhash inst mem
      = .ok (fillFirstBlocksN blockhash inst mem) := by
  have key := forRange_zero_eq_fold (fillFirstBlocksStepCode Model.Blake2b.compress inst)
    (firstBlocksStepN inst)
    (fun _ st => st.1.length = 72 ∧ st.2.size = inst.memoryBlocks) inst.lanes (blockhash, mem)
    ⟨hbh, hmem⟩ (by
      rintro l ⟨bh, m⟩ hl ⟨hb, hm⟩
      simp only [] at hb hm
      have f := lane_le_mem hI hl
      have := hI.sl_ge; have := hI.ll_eq; have := hI.mb_lt
      unfold fillFirstBlocksStepCode firstBlocksStepN
      have e64 : ARGON2_PREHASH_DIGEST_LENGTH = 64 := rfl
      have e1024 : ARGON2_BLOCK_SIZE = 1024 := rfl
      simp only [e64, e1024, Nat.reduceAdd]
      have l1 : (copyInto bh 64 [0, 0, 0, 0]).length = 72 := by
        rw [copyInto_length _ _ _ (by simp; omega)]; exact hb
      have l2 : (copyInto (copyInto bh 64 [0, 0, 0, 0]) 68 (store32 l)).length = 72 := by
        rw [copyInto_length _ _ _ (by rw [store32_length]; omega)]; exact l1
      have l3 : (copyInto (copyInto (copyInto bh 64 [0, 0, 0, 0]) 68 (store32 l)) 64 [1, 0, 0, 0]).length = 72 := by
        rw [copyInto_length _ _ _ (by simp; omega)]; exact l2
      rw [longhashC_soft_eq_hprime _ (by decide) (by decide) (by rw [l2]; decide), ok_bind,
        mulU32_ok (by omega), ok_bind,
        setBlock_ok _ (by omega), ok_bind,
        longhashC_soft_eq_hprime _ (by decide) (by decide) (by rw [l3]; decide), ok_bind,
        ok_bind, addU32_ok (by omega), ok_bind,
        setBlock_ok _ (by rw [size_setBang]; omega), ok_bind, pure_eq]
      exact ⟨rfl, l3, by simp [hm]⟩)
  unfold fillFirstBlocksCode fillFirstBlocksN forLoop
  rw [Nat.sub_zero, key.1, ok_bind, pure_eq]

theorem finalBlockN_size {inst : Instance} {mem : Array Block} (hI : InstInv inst)
    (hmem : mem.size = inst.memoryBlocks) (h128 : All128 mem) : (finalBlockN inst mem).size = 128 := by
  unfold finalBlockN
  cases hn : inst.lanes - 1 with
  | zero =>
    rw [Nat.fold_zero]
    have h0 := lane_le_mem (l := 0) hI (by have := hI.lanes_ge; omega)
    have := hI.sl_ge; have := hI.ll_eq
    exact h128 _ (by omega)
  | succ k => rw [Nat.fold_succ]; exact xorBlock_size _ _

theorem finalizeCode_ok {inst : Instance} {outlen : Nat} {mem : Array Block} (hI : InstInv inst)
    (hmem : mem.size = inst.memoryBlocks) (h128 : All128 mem) (h4 : 4 < outlen) (hmax : outlen < 0xFFFFFFFF) :
    finalizeCode Model.Blake2b.compress outlen inst mem
      = .ok (Spec.Argon2.hprime outlen (storeBlock (finalBlockN inst mem))) := by
  have hsl := hI.sl_ge; have hll := hI.ll_eq; have hmb := hI.mb_lt; have hlanes := hI.lanes_ge
  have hl0 := lane_le_mem (l := 0) hI (by omega)
  simp only [Nat.zero_mul, Nat.zero_add] at hl0
  have key := forRange_eq_fold (finalizeStep inst mem)
    (fun l acc => xorBlock acc mem[l * inst.laneLength + (inst.laneLength - 1)]!)
    (fun _ _ => True) (inst.lanes - 1) 1 mem[inst.laneLength - 1]! trivial (by
      intro l acc h1 hl _
      have f := lane_le_mem (l := l) hI (by omega)
      unfold finalizeStep
      rw [mulU32_ok (by omega), ok_bind, subU32_ok (by omega), ok_bind, addU32_ok (by omega), ok_bind,
        getBlock_ok (by omega), ok_bind, pure_eq]
      exact ⟨rfl, trivial⟩)
  unfold finalizeCode forLoop copyBlock
  have e : (inst.laneLength + U32 - 1) % U32 = inst.laneLength - 1 := by
    rw [U32_eq]; omega
  have hlen : (storeBlock (finalBlockN inst mem)).length + 132 < 2 ^ 64 := by
    unfold storeBlock
    rw [Proofs.Argon2.bytesOfWords_length, finalBlockN_size hI hmem h128]
    decide
  rw [e, getBlock_ok (by omega), ok_bind, key.1, ok_bind]
  exact longhashC_soft_eq_hprime _ h4 hmax hlen

/-! ### `argon2_hash`, `crypto_pwhash` -/

/-- the code path (software backend) runs to `Ok` on accepted parameters, with the same value `argon2HashN` as the
model of `Model/Argon2.lean` -/
theorem argon2HashCode_ok {ty t m p : Nat} {pwd salt : Bytes} {secret ad : Option Bytes} {outlen : Nat}
    (hv : Valid outlen pwd.length salt.length (secret.map List.length) (ad.map List.length) t m p)
    (hout : outlen < 0xFFFFFFFF)
    (h7 : 7 * (max m (8 * p) / (4 * p)) < 2 ^ 32 + 3) :
    argon2HashCode Model.Blake2b.compress ty t m p pwd salt secret ad outlen
      = .ok (argon2HashN ty t m p pwd salt secret ad outlen) := by
  have hp := hv.lanes_ge; have hp' := hv.lanes_le; have hm := hv.m_le; have ho := hv.outlen_ge
  have hI : InstInv (mkInstance ty t m p) := mkInstance_inv hp (by omega) (by omega)
  unfold argon2HashCode
  rw [memoryGeometry_ok hp (by omega) (by omega), ok_bind]
  simp only []
  rw [(validate_ok_iff ..).2 hv, ok_bind]
  unfold Instance.new
  have hll : max m (8 * p) / (4 * p) * ARGON2_SYNC_POINTS < 2 ^ 32 := by
    have := hI.mb_lt; have := hI.mb_eq; have := hI.ll_eq
    have h2 := memoryBlocks_le (m := m) (p := p)
    have e4 : ARGON2_SYNC_POINTS = 4 := rfl
    rw [e4]; omega
  rw [mulU32_ok hll, ok_bind, pure_eq, ok_bind]
  have hlen := initialHashInput_length_lt (p := p) (outlen := outlen) (m := m) (t := t) (ty := ty)
    hv.pwd_le hv.salt_le hv.secret_le hv.ad_le
  rw [initialHashCode_eq p outlen m t ty pwd salt secret ad (by omega), ok_bind]
  show (do
    let mem ← fillFirstBlocksCode Model.Blake2b.compress (initialHash p outlen m t ty pwd salt secret ad)
      (mkInstance ty t m p) (Array.replicate (mkInstance ty t m p).memoryBlocks zeroBlock)
    let st ← forLoop 0 (mkInstance ty t m p).passes (fillMemoryBlocks (mkInstance ty t m p))
      (mem, Array.replicate (mkInstance ty t m p).segmentLength 0)
    finalizeCode Model.Blake2b.compress outlen (mkInstance ty t m p) st.1) = _
  obtain ⟨_, hf2⟩ := fillFirstBlocks_ok (inst := mkInstance ty t m p)
    (initialHash p outlen m t ty pwd salt secret ad)
    (mem := Array.replicate (mkInstance ty t m p).memoryBlocks zeroBlock) hI (by simp)
  have hf128 := fillFirstBlocksN_all128 (initialHash p outlen m t ty pwd salt secret ad) (mkInstance ty t m p)
    (all128_replicate (mkInstance ty t m p).memoryBlocks)
  rw [fillFirstBlocksCode_ok _ (initialHash_length ..) hI (by simp), ok_bind]
  have key := forRange_zero_eq_fold (fillMemoryBlocks (mkInstance ty t m p))
    (fillMemoryBlocksN (mkInstance ty t m p))
    (fun _ st => SizeInv (mkInstance ty t m p) st ∧ All128 st.1) t
    (fillFirstBlocksN (initialHash p outlen m t ty pwd salt secret ad) (mkInstance ty t m p)
      (Array.replicate (mkInstance ty t m p).memoryBlocks zeroBlock),
      Array.replicate (mkInstance ty t m p).segmentLength 0)
    ⟨⟨hf2, by simp⟩, hf128⟩
    (fun r st _ hst =>
      ⟨(fillMemoryBlocks_ok r hI h7 hst.1).1, (fillMemoryBlocks_ok r hI h7 hst.1).2,
        fillMemoryBlocksN_all128 _ r hst.2⟩)
  unfold forLoop
  rw [Nat.sub_zero]
  show (do
    let st ← forRange (fillMemoryBlocks (mkInstance ty t m p)) 0 t _
    finalizeCode Model.Blake2b.compress outlen (mkInstance ty t m p) st.1) = _
  rw [key.1, ok_bind, finalizeCode_ok hI key.2.1.1 key.2.2 (by omega) hout]
  rfl

/-- **code path = model**, accepted or not: under the two side conditions of `argon2Hash_no_panic` the Argon2 in
which H0 and H′ go through the models of dryoc's BLAKE2b code returns what `Model.Argon2.argon2Hash` returns —
same bytes, same `Err`, same panic. -/
theorem argon2HashCode_eq_model {ty t m p : Nat} {pwd salt : Bytes} {secret ad : Option Bytes} {outlen : Nat}
    (hout : outlen < 0xFFFFFFFF) (h7 : 7 * (max m (8 * p) / (4 * p)) < 2 ^ 32 + 3) :
    argon2HashCode Model.Blake2b.compress ty t m p pwd salt secret ad outlen
      = argon2Hash ty t m p pwd salt secret ad outlen := by
  by_cases hv : Valid outlen pwd.length salt.length (secret.map List.length) (ad.map List.length) t m p
  · rw [argon2HashCode_ok hv hout h7, argon2Hash_ok hv hout h7]
  · unfold argon2HashCode argon2Hash
    cases memoryGeometry m p with
    | ok g => simp only [ok_bind]; rw [(validate_err_iff ..).2 hv, err_bind, err_bind]
    | err => rfl
    | panic => rfl

/-- the same for `crypto_pwhash` -/
theorem cryptoPwhashCode_eq_model {outlen : Nat} {pwd salt : Bytes} {opslimit memlimit alg : Nat}
    (hout : outlen < 0xFFFFFFFF) (h7 : 7 * (memlimit / 1024 / 4) < 2 ^ 32 + 3) :
    cryptoPwhashCode Model.Blake2b.compress outlen pwd salt opslimit memlimit alg
      = cryptoPwhash outlen pwd salt opslimit memlimit alg := by
  unfold cryptoPwhashCode cryptoPwhash
  have key : ∀ ty, argon2HashCode Model.Blake2b.compress ty (convertCosts opslimit memlimit).1
        (convertCosts opslimit memlimit).2 1 pwd salt none none outlen
      = argon2Hash ty (convertCosts opslimit memlimit).1 (convertCosts opslimit memlimit).2 1 pwd salt
          none none outlen := by
    intro ty
    apply argon2HashCode_eq_model hout
    unfold convertCosts
    simp only [U32_eq]
    omega
  simp only [key]

/-! ### backend independence of the code path -/

open DryocVerif.Proofs.Blake2bSimd (simd_agree) in
/-- `argon2_hash` over the SIMD backend's BLAKE2b = over the software backend's, for ALL arguments (same bytes,
same `Err`, same panic) -/
theorem simd_argon2HashCode_eq (ty t m p : Nat) (pwd salt : Bytes) (secret ad : Option Bytes) (outlen : Nat) :
    argon2HashCode Model.Blake2bSimd.compress ty t m p pwd salt secret ad outlen
      = argon2HashCode Model.Blake2b.compress ty t m p pwd salt secret ad outlen := by
  have hL : Model.Blake2b.longhashC Model.Blake2bSimd.compress = Model.Blake2b.longhashC Model.Blake2b.compress := by
    funext n inp; exact Proofs.Blake2bBackend.longhashC_congr simd_agree n inp
  have hH : Model.Blake2b.hashChunksC Model.Blake2bSimd.compress
      = Model.Blake2b.hashChunksC Model.Blake2b.compress := by
    funext a b c d e; exact Proofs.Blake2bSimd.simd_hashChunks_eq a b c d e
  unfold argon2HashCode initialHashCode fillFirstBlocksCode finalizeCode
  have hS : fillFirstBlocksStepCode Model.Blake2bSimd.compress = fillFirstBlocksStepCode Model.Blake2b.compress := by
    funext inst l st; unfold fillFirstBlocksStepCode; rw [hL]
  rw [hL, hH, hS]

theorem simd_cryptoPwhashCode_eq (outlen : Nat) (pwd salt : Bytes) (opslimit memlimit alg : Nat) :
    cryptoPwhashCode Model.Blake2bSimd.compress outlen pwd salt opslimit memlimit alg
      = cryptoPwhashCode Model.Blake2b.compress outlen pwd salt opslimit memlimit alg := by
  unfold cryptoPwhashCode
  simp only [simd_argon2HashCode_eq]

end DryocVerif.Proofs.Argon2Code
