import Mathlib.Algebra.Group.Basic
import DryocVerif.Proofs.SignUnique
import DryocVerif.Proofs.SignCanon
import DryocVerif.Proofs.SignStrictDecode
import DryocVerif.Proofs.CurveHonest
import DryocVerif.Proofs.ObjectViewExtra
import DryocVerif.Model.SignView
/-!
Third-review additions for C06 (`Properties/C06.lean` re-exports them):

1. signing = RFC 8032 with the public-key bytes as a PARAMETER (`signCoreA`): unconditional for every secret key,
   and the gap to RFC 8032 `sign` for a generated key pair isolated to ONE equation,
   `(seedKeypair sha512 seed).1 = publicKey seed`;
2. dalek-style verification = libsodium-style verification on canonical `R` / `A`, under the NAMED interpretation
   `EdwardsInterpFull` (instead of six per-input hypotheses);
3. the message enters verification only through `k = H(dom ‖ R ‖ A ‖ M) mod L`;
4. `verify ∘ sign` without the two small-order hypotheses;
5. composed round trips, the object-API signer (`objSign`) and the code-shaped combined signer.

`EdwardsInterp*` are HYPOTHESIS STRUCTURES (passed as an argument); no instance exists in this development.
Only `Mathlib.Algebra.Group.Basic` is imported here (the primality of `p` comes in through `SignStrictDecode`).
-/
namespace DryocVerif.Proofs.SignRound
open DryocVerif DryocVerif.Spec.Ed25519 DryocVerif.Model.Sign DryocVerif.Proofs.Sign
open DryocVerif.Proofs.SignGroup DryocVerif.Proofs.SignUnique

/-! ## 1. signing with the public-key bytes as a parameter -/

/-- RFC 8032 §5.1.6 `Spec.Ed25519.signCore`, except that the 32 bytes `A` hashed into the challenge
`k = H(dom ‖ R ‖ A ‖ M)` are a PARAMETER instead of being recomputed as `encodePoint ([a]B)`.  This is what
`crypto_sign_ed25519_detached` actually does: it hashes `secret_key[32..]`, whatever that is. -/
def signCoreA (dom seed A m : Bytes) : Bytes :=
  let (a, pre) := secretExpand seed
  let r := hashModL (dom ++ pre ++ m)
  let R := encodePoint (scalarMul r B)
  let k := hashModL (dom ++ R ++ A ++ m)
  let S := (r + k * a) % L
  R ++ toLE 32 S

/-- with `A` = RFC 8032's public key of the seed, `signCoreA` IS `signCore` -/
theorem signCoreA_publicKey (dom seed m : Bytes) :
    signCoreA dom seed (publicKey seed) m = signCore dom seed m := by
  unfold signCoreA signCore
  simp only [publicKey, secretExpand]

/-- **UNCONDITIONAL, every secret key, both modes**: the model's signer is RFC 8032 signing on the seed
`sk[0..32]` with `sk[32..]` in the place of the public key -/
theorem signDetached_eq_signCoreA (msg sk : Bytes) (ph : Bool) :
    signDetached Spec.Sha512.sha512 msg sk ph
      = signCoreA (if ph then dom2 1 [] else []) (sk.take 32) (sk.drop 32) msg := by
  unfold signDetached signCoreA
  simp only [secretExpand, hashModL, Spec.X25519.decodeScalar25519,
    clampHash_eq_clamp, clamp_take, scalar_arith, dom2prefix_eq, List.append_assoc]

theorem seedKeypair_take_drop (H : Bytes → Bytes) (seed : Bytes) (hseed : seed.length = 32) :
    ((seedKeypair H seed).2).take 32 = seed ∧ ((seedKeypair H seed).2).drop 32 = (seedKeypair H seed).1 := by
  have hsk : (seedKeypair H seed).2 = seed ++ (seedKeypair H seed).1 := rfl
  rw [hsk]
  exact ⟨List.take_left' hseed, List.drop_left' hseed⟩

/-- **UNCONDITIONAL, every 32-byte seed**: signing with the key pair the model generates is `signCoreA` on that seed
and on the public key THE MODEL generated (`[a mod L]B`, encoded) -/
theorem sign_seedKeypair_eq_signCoreA (seed msg : Bytes) (ph : Bool) (hseed : seed.length = 32) :
    signDetached Spec.Sha512.sha512 msg (seedKeypair Spec.Sha512.sha512 seed).2 ph
      = signCoreA (if ph then dom2 1 [] else []) seed (seedKeypair Spec.Sha512.sha512 seed).1 msg := by
  obtain ⟨h1, h2⟩ := seedKeypair_take_drop Spec.Sha512.sha512 seed hseed
  rw [signDetached_eq_signCoreA, h1, h2]

/-- the gap to RFC 8032, isolated: ONE equation between two 32-byte strings — the encoding of `[a mod L]B` (dryoc /
dalek) and of `[a]B` (RFC 8032).  It holds by `[L]B = 0` plus "the encoding depends only on the group element"
(`SignGroup.seedKeypair_pk_eq_publicKey`, under `EdwardsInterpEnc`); it is kernel-checked on the RFC vectors
(`SignVectors.tv_keypair`, `tv_pk`); it is NOT proved for every seed. -/
theorem sign_seedKeypair_eq_signCore_of_pk (seed msg : Bytes) (ph : Bool) (hseed : seed.length = 32)
    (hpk : (seedKeypair Spec.Sha512.sha512 seed).1 = publicKey seed) :
    signDetached Spec.Sha512.sha512 msg (seedKeypair Spec.Sha512.sha512 seed).2 ph
      = signCore (if ph then dom2 1 [] else []) seed msg := by
  rw [sign_seedKeypair_eq_signCoreA seed msg ph hseed, hpk, signCoreA_publicKey]

/-- non-vacuity: `hpk` holds on the RFC 8032 TEST 1 seed -/
example : Proofs.SignVectors.tvSeed.length = 32 ∧
    (seedKeypair Spec.Sha512.sha512 Proofs.SignVectors.tvSeed).1 = publicKey Proofs.SignVectors.tvSeed :=
  ⟨by decide, by rw [Proofs.SignVectors.tv_keypair, Proofs.SignVectors.tv_pk]⟩

/-! ## the named interpretation -/

variable {G : Type _} [AddCommGroup G]

/-- `EdwardsInterpOrd` (the curve arithmetic is a group through `φ` on `valid` points, `B` has order exactly `L`, the
lenient decoder returns valid points) plus four more NAMED curve facts.  Like its parents this is an UNPROVED
hypothesis structure: no instance is constructed in this development.
* `encode_congr`      valid representatives of the same group element encode to the same 32 bytes;
* `encode_decode`     on a CANONICAL encoding that is not of small order, `encode ∘ decodeLax = id`
                      (for the small-order encodings `01 00…00 80` and `ec ff…ff ff` it is false: the lenient
                      decoder drops the sign bit of `x = 0`);
* `small_order_table` libsodium's 7-entry table (`ge25519_has_small_order`, sign bit ignored) decides
                      `[8]P = identity` on everything the lenient decoder accepts;
* `order_cases`       the group has order `8·L` with `L` prime: a point killed by `n` has small order, or `L ∣ n`. -/
structure EdwardsInterpFull (G : Type _) [AddCommGroup G] (valid : Point → Prop) (φ : Point → G) :
    Prop extends EdwardsInterpOrd G valid φ where
  encode_congr : ∀ {P Q}, valid P → valid Q → φ P = φ Q → encodePoint P = encodePoint Q
  encode_decode : ∀ {s : Bytes} {P : Point}, decodePointLax s = some P → isCanonicalPoint s = true →
    isSmallOrder P = false → encodePoint P = s
  small_order_table : ∀ {s : Bytes} {P : Point}, decodePointLax s = some P →
    hasSmallOrder s = isSmallOrder P
  order_cases : ∀ {P} (n : ℕ), valid P → n • φ P = 0 → 8 • φ P = 0 ∨ L ∣ n

variable {valid : Point → Prop} {φ : Point → G}

theorem scalarMulAux_zero (bits : ℕ) : ∀ (P Q : Point), scalarMulAux bits 0 P Q = Q := by
  induction bits with
  | zero => intro P Q; rfl
  | succ n ih => intro P Q; simp [scalarMulAux, ih]

theorem scalarMul_zero (P : Point) : scalarMul 0 P = identity := scalarMulAux_zero 256 P identity

theorem valid_identity (I : EdwardsInterp G valid φ) : valid identity := by
  have := I.valid_smul 0 I.valid_B
  rwa [scalarMul_zero] at this

theorem map_identity (I : EdwardsInterp G valid φ) : φ identity = 0 := by
  have := I.map_smul 0 I.valid_B (by decide)
  rwa [scalarMul_zero, zero_nsmul] at this

/-- dalek's `is_small_order` through the interpretation: `[8]P = identity` ⇔ `8 • φ P = 0` -/
theorem isSmallOrder_iff (I : EdwardsInterp G valid φ) {P : Point} (hP : valid P) :
    isSmallOrder P = true ↔ 8 • φ P = 0 := by
  unfold isSmallOrder
  rw [I.eq_iff (I.valid_smul 8 hP) (valid_identity I), I.map_smul 8 hP (by decide), map_identity I]

theorem L_dvd_of_dvd_eight_mul (n : ℕ) (h : L ∣ 8 * n) : L ∣ n := by
  have hc : Nat.Coprime L 8 := by decide
  rw [Nat.mul_comm] at h
  exact Nat.Coprime.dvd_of_dvd_mul_right hc h

/-- a base-point multiple `[n]B` with `L ∤ n` does not have small order (`B` has order exactly `L`, `gcd(8, L) = 1`) -/
theorem smul_B_not_small (I : EdwardsInterpOrd G valid φ) {P : Point} {n : ℕ} (hP : valid P)
    (hφ : φ P = n • φ B) (hn : n % L ≠ 0) : isSmallOrder P = false := by
  cases h : isSmallOrder P with
  | false => rfl
  | true =>
    exfalso
    have h8 := (isSmallOrder_iff I.toEdwardsInterp hP).1 h
    rw [hφ, ← mul_nsmul'] at h8
    exact hn (Nat.mod_eq_zero_of_dvd (L_dvd_of_dvd_eight_mul n (I.order_exact _ h8)))

/-! ## 4. `verify ∘ sign` without the small-order hypotheses -/

/-- **verify ∘ sign = true for the model**, key pair from `seedKeypair`, both modes, any hash `H` that returns at least
32 bytes on the seed — under `I : EdwardsInterpOrd` ONLY: the two hypotheses `hRso` / `hAso` of
`SignGroup.verify_sign_of_interp` ("the decoded `R` / public key is not of small order") are DERIVED:
* `A = [a mod L]B` with `a` clamped (`2^254 ≤ a < 2^255`, `8 ∣ a`) — `L ∤ a` because `8L > 2^255`
  (`CurveHonest.clamped_mod_L_ne_zero`), hence `L ∤ 8·(a mod L)`;
* `R = [r]B` with `0 < r < L` — this is the remaining hypothesis `hr` (`r = 0` has probability ≈ 2⁻²⁵² and dryoc then
  does reject its own signature: `R` is the neutral element). -/
theorem verify_sign_model' (I : EdwardsInterpOrd G valid φ) (H : Bytes → Bytes) (seed msg : Bytes) (ph : Bool)
    (hseed : seed.length = 32) (hH : 32 ≤ (H seed).length)
    (hr : nonceR H msg (seedKeypair H seed).2 ph ≠ 0) :
    verifyDetached H (signDetached H msg (seedKeypair H seed).2 ph) msg (seedKeypair H seed).1 ph = true := by
  have I' := I.toEdwardsInterp
  have hlt : ∀ n : ℕ, n % L < 2 ^ 256 := fun n => Nat.lt_trans (Nat.mod_lt _ (by decide)) (by decide)
  apply verify_sign_of_interp I' H seed msg ph hseed
  · intro P hP
    rw [signDetached_take32] at hP
    obtain ⟨P', hdec, hv, hφ⟩ :=
      I'.decode_encode (I'.valid_smul (nonceR H msg (seedKeypair H seed).2 ph) I'.valid_B)
    have hPP : P = P' := Proofs.SignVectors.eq_of_some_eq hP hdec
    subst hPP
    rw [I'.map_smul _ I'.valid_B (by unfold nonceR; exact hlt _)] at hφ
    refine smul_B_not_small I hv hφ ?_
    rw [Nat.mod_eq_of_lt (by unfold nonceR; exact Nat.mod_lt _ (by decide))]
    exact hr
  · intro P hP
    have hpk : (seedKeypair H seed).1 = encodePoint (scalarMul (le (clampHash (H seed)) % L) B) := rfl
    rw [hpk] at hP
    obtain ⟨P', hdec, hv, hφ⟩ := I'.decode_encode (I'.valid_smul (le (clampHash (H seed)) % L) I'.valid_B)
    have hPP : P = P' := Proofs.SignVectors.eq_of_some_eq hP hdec
    subst hPP
    rw [I'.map_smul _ I'.valid_B (hlt _)] at hφ
    refine smul_B_not_small I hv hφ ?_
    rw [Nat.mod_mod]
    have hl : ((H seed).take 32).length = 32 := by rw [List.length_take]; omega
    exact Proofs.CurveHonest.clamped_mod_L_ne_zero ((H seed).take 32) hl

/-- non-vacuity of the hypotheses other than `I`: on the RFC 8032 TEST 1 seed with SHA-512 the hash has 64 bytes and the
nonce scalar is not `0`; and the CONCLUSION holds there by kernel evaluation (`SignVectors.tv_verify`) -/
example : Proofs.SignVectors.tvSeed.length = 32 ∧
    32 ≤ (Spec.Sha512.sha512 Proofs.SignVectors.tvSeed).length ∧
    nonceR Spec.Sha512.sha512 [] (seedKeypair Spec.Sha512.sha512 Proofs.SignVectors.tvSeed).2 false ≠ 0 := by
  refine ⟨by decide, by rw [Proofs.Curve.sha512_length]; decide, ?_⟩
  rw [Proofs.SignVectors.tv_keypair]
  decide +kernel

/-! ## 3. the message enters verification only through `k` -/

/-- the challenge scalar `k = H(dom ‖ R ‖ A ‖ M) mod L` of `crypto_sign_ed25519_verify_detached_impl` -/
def kOf (H : Bytes → Bytes) (ph : Bool) (Rb A msg : Bytes) : Nat :=
  le (H ((if ph then DOM2PREFIX else []) ++ Rb ++ A ++ msg)) % L

/-- **The message is used by `verifyDetached` ONLY to compute `k`**: two messages that give the same `k` (for this
`R`, public key and mode) get the same answer, for every hash function.  So "a changed message is rejected" is
exactly as strong as "SHA-512 mod `L` does not collide on the two inputs" — a property of the hash, not of dryoc's
code; unconditional. -/
theorem verify_msg_only_via_k (H : Bytes → Bytes) (sig msg msg' pk : Bytes) (ph : Bool)
    (hk : kOf H ph (sig.take 32) pk msg = kOf H ph (sig.take 32) pk msg') :
    verifyDetached H sig msg pk ph = verifyDetached H sig msg' pk ph := by
  unfold kOf at hk
  rw [Bool.eq_iff_iff, verifyDetached_true_iff, verifyDetached_true_iff, hk]

/-- **Conversely (under the named interpretation): two acceptances of the same `(R, S, A)` for two messages force
`k = k'`.**  With `verify_msg_only_via_k`: next to an accepted `(sig, msg, pk)`, the same signature is accepted for
`msg'` IF AND ONLY IF the two challenge scalars coincide. -/
theorem msg_change_needs_k_collision (I : EdwardsInterpFull G valid φ) (H : Bytes → Bytes)
    (sig msg msg' pk : Bytes) (ph : Bool)
    (h₁ : verifyDetached H sig msg pk ph = true) (h₂ : verifyDetached H sig msg' pk ph = true) :
    kOf H ph (sig.take 32) pk msg = kOf H ph (sig.take 32) pk msg' := by
  have I' := I.toEdwardsInterp
  obtain ⟨-, -, hS, R₁, A₁, hR₁, -, hA₁, hso, e₁⟩ := (verifyDetached_true_iff H sig msg pk ph).1 h₁
  obtain ⟨-, -, -, R₂, A₂, hR₂, -, hA₂, -, e₂⟩ := (verifyDetached_true_iff H sig msg' pk ph).1 h₂
  rw [hR₁] at hR₂; cases hR₂
  rw [hA₁] at hA₂; cases hA₂
  have vR := I.decode_valid hR₁
  have vA := I.decode_valid hA₁
  have hklt : ∀ m, kOf H ph (sig.take 32) pk m < L := fun m => Nat.mod_lt _ (by decide)
  change pointEq (add (scalarMul (kOf H ph (sig.take 32) pk msg) (neg A₁)) _) R₁ = true at e₁
  change pointEq (add (scalarMul (kOf H ph (sig.take 32) pk msg') (neg A₁)) _) R₁ = true at e₂
  have hk1 := hklt msg
  have hk2 := hklt msg'
  generalize kOf H ph (sig.take 32) pk msg = k at *
  generalize kOf H ph (sig.take 32) pk msg' = k' at *
  have hlt : ∀ n : ℕ, n < L → n < 2 ^ 256 := fun n h => Nat.lt_trans h (by decide)
  have key : ∀ c : ℕ, c < L →
      pointEq (add (scalarMul c (neg A₁)) (scalarMul (le (sig.drop 32)) B)) R₁ = true →
      c • (-φ A₁) + le (sig.drop 32) • φ B = φ R₁ := by
    intro c hc e
    have v1 := I'.valid_smul c (I'.valid_neg vA)
    have v2 := I'.valid_smul (le (sig.drop 32)) I'.valid_B
    rw [I'.eq_iff (I'.valid_add v1 v2) vR, I'.map_add v1 v2, I'.map_smul c (I'.valid_neg vA) (hlt c hc),
      I'.map_neg vA, I'.map_smul _ I'.valid_B (hlt _ hS)] at e
    exact e
  have q : k • (-φ A₁) = k' • (-φ A₁) :=
    add_right_cancel (b := le (sig.drop 32) • φ B) ((key k hk1 e₁).trans (key k' hk2 e₂).symm)
  have q' : k • φ A₁ = k' • φ A₁ := by
    rw [neg_nsmul, neg_nsmul] at q; exact neg_injective q
  have hnot8 : ¬ 8 • φ A₁ = 0 := by
    intro h8
    have := (isSmallOrder_iff I' vA).2 h8
    rw [hso] at this; cases this
  rcases Nat.le_total k k' with hle | hle
  · rcases I.order_cases _ vA (nsmul_sub_eq_zero (φ A₁) k k' hle q') with h | h
    · exact absurd h hnot8
    · have := Nat.eq_zero_of_dvd_of_lt h (by omega); omega
  · rcases I.order_cases _ vA (nsmul_sub_eq_zero (φ A₁) k' k hle q'.symm) with h | h
    · exact absurd h hnot8
    · have := Nat.eq_zero_of_dvd_of_lt h (by omega); omega

/-- next to an accepted signature: the same 64 bytes are accepted for another message exactly when the challenge
scalars collide (both directions together; the `←` direction needs no interpretation) -/
theorem msg_change_accepted_iff (I : EdwardsInterpFull G valid φ) (H : Bytes → Bytes)
    (sig msg msg' pk : Bytes) (ph : Bool) (hacc : verifyDetached H sig msg pk ph = true) :
    verifyDetached H sig msg' pk ph = true ↔
      kOf H ph (sig.take 32) pk msg = kOf H ph (sig.take 32) pk msg' :=
  ⟨fun h => msg_change_needs_k_collision I H sig msg msg' pk ph hacc h,
   fun h => by rw [← verify_msg_only_via_k H sig msg msg' pk ph h]; exact hacc⟩

/-! ## 2. dalek-style (model) = libsodium-style (spec) verification on canonical encodings -/

/-- **The model's decision (lenient decode, `[8]P = identity` tests, projective comparison) equals libsodium's
(7-entry table, `ge25519_is_canonical(pk)`, strict decode, bytewise comparison of the re-encoded `R'`)**, with SHA-512,
both modes, for every signature / message / key whose `R` half and public key are CANONICAL encodings — under the
named interpretation `I : EdwardsInterpFull` and nothing else.  (For a non-canonical `R` or key libsodium rejects
— `SignCanon.noncanonical_R_rejected_spec`, `noncanonical_pk_rejected_spec` — and the model may accept: that family
is enumerated differentially.)  This replaces `Sign.verify_model_eq_spec'`, whose hypothesis `hRcanon` was the
statement "projective comparison ⇔ bytewise comparison" for the very input at hand; here that equivalence is DERIVED
from `eq_iff`, `encode_congr`, `encode_decode`, `decode_encode`; `hsoR` / `hsoA` come from `small_order_table`; and
`hdec` is the unconditional `SignStrictDecode.decodePoint_eq_lax`. -/
theorem verify_model_eq_spec_of_canonical (I : EdwardsInterpFull G valid φ) (sig msg pk : Bytes) (ph : Bool)
    (hR : isCanonicalPoint (sig.take 32) = true) (hA : isCanonicalPoint pk = true) :
    verifyDetached Spec.Sha512.sha512 sig msg pk ph
      = verifyCore (if ph then dom2 1 [] else []) pk msg sig := by
  have I' := I.toEdwardsInterp
  rw [Bool.eq_iff_iff, verifyDetached_true_iff, verifyCore_true_iff, ← dom2prefix_eq]
  have hlt : ∀ n : ℕ, n < L → n < 2 ^ 256 := fun n h => Nat.lt_trans h (by decide)
  -- validity and image of the point both verifiers compute
  have hX : ∀ (A : Point) (k : ℕ), valid A → le (sig.drop 32) < L →
      valid (add (scalarMul k (neg A)) (scalarMul (le (sig.drop 32)) B)) := by
    intro A k vA _
    exact I'.valid_add (I'.valid_smul k (I'.valid_neg vA)) (I'.valid_smul _ I'.valid_B)
  unfold hashModL
  constructor
  · rintro ⟨h1, h2, h3, R, A, hRd, hRs, hAd, hAs, heq⟩
    have vR := I.decode_valid hRd
    have vA := I.decode_valid hAd
    have hsA : hasSmallOrder pk = false := by rw [I.small_order_table hAd]; exact hAs
    refine ⟨h1, h2, h3, by rw [I.small_order_table hRd]; exact hRs, hA, hsA, A, ?_, ?_⟩
    · rw [Proofs.SignStrictDecode.decodePoint_eq_lax pk hA hsA]; exact hAd
    · rw [point_add_comm]
      have vX := hX A (le (Spec.Sha512.sha512 ((if ph then DOM2PREFIX else []) ++ sig.take 32 ++ pk ++ msg)) % L)
        vA h3
      rw [I'.eq_iff vX vR] at heq
      rw [I.encode_congr vX vR heq]
      exact I.encode_decode hRd hR hRs
  · rintro ⟨h1, h2, h3, hRs, -, hAs, A, hAd, heq⟩
    rw [Proofs.SignStrictDecode.decodePoint_eq_lax pk hA hAs] at hAd
    have vA := I.decode_valid hAd
    rw [point_add_comm] at heq
    have vX := hX A (le (Spec.Sha512.sha512 ((if ph then DOM2PREFIX else []) ++ sig.take 32 ++ pk ++ msg)) % L) vA h3
    obtain ⟨R, hRd, vR, hφ⟩ := I'.decode_encode vX
    rw [heq] at hRd
    refine ⟨h1, h2, h3, R, A, hRd, by rw [← I.small_order_table hRd]; exact hRs, hAd,
      by rw [← I.small_order_table hAd]; exact hAs, ?_⟩
    rw [I'.eq_iff vX vR]
    exact hφ.symm

/-! ## 5. composed round trips; the object-API signer; the code-shaped combined signer -/

open DryocVerif.Model.SignView DryocVerif.Model.ObjectView DryocVerif.Model.ArrayView

theorem seedKeypair_lengths (H : Bytes → Bytes) (seed : Bytes) (hseed : seed.length = 32) :
    (seedKeypair H seed).2.length = 64 ∧ (seedKeypair H seed).1.length = 32 := by
  have hsk : (seedKeypair H seed).2 = seed ++ (seedKeypair H seed).1 := rfl
  have hpk : (seedKeypair H seed).1.length = 32 := encodePoint_length _
  exact ⟨by rw [hsk, List.length_append, hseed, hpk], hpk⟩

/-- `crypto_sign_open` on `sig ‖ msg` with a buffer of `msg.len()` bytes: the answer of `verifyDetached` -/
theorem signOpen_append (H : Bytes → Bytes) (sig msg pk : Bytes) (h : sig.length = 64) :
    signOpen H msg.length (sig ++ msg) pk =
      if verifyDetached H sig msg pk false then .ok msg else .err := by
  unfold signOpen
  rw [List.take_left' h, List.drop_left' h]
  simp [h]

/-- `crypto_sign_open ∘ crypto_sign` returns the message whenever the detached signature verifies (any key) -/
theorem signOpen_signCombined_of_verify (H : Bytes → Bytes) (msg sk pk : Bytes)
    (hv : verifyDetached H (signDetached H msg sk false) msg pk false = true) :
    ∃ sm, signCombined H (msg.length + 64) msg sk = .ok sm ∧ signOpen H msg.length sm pk = .ok msg := by
  refine ⟨signDetached H msg sk false ++ msg, by simp [signCombined], ?_⟩
  rw [signOpen_append H _ msg pk (signDetached_length H msg sk false), hv]
  rfl

/-- **`crypto_sign_open(crypto_sign(m, sk), pk) = Ok(m)`** for a key pair from `seedKeypair`, under the same
hypotheses as `verify_sign_model'` -/
theorem signOpen_signCombined (I : EdwardsInterpOrd G valid φ) (H : Bytes → Bytes) (seed msg : Bytes)
    (hseed : seed.length = 32) (hH : 32 ≤ (H seed).length)
    (hr : nonceR H msg (seedKeypair H seed).2 false ≠ 0) :
    ∃ sm, signCombined H (msg.length + 64) msg (seedKeypair H seed).2 = .ok sm ∧
      signOpen H msg.length sm (seedKeypair H seed).1 = .ok msg :=
  signOpen_signCombined_of_verify H msg _ _ (verify_sign_model' I H seed msg false hseed hH hr)

/-- **incremental (Ed25519ph) round trip**: `init; update…; final_verify` accepts what `init; update…; final_create`
produced over the same chunks (the model hashes the flattened chunks on both sides: see the caveat at
`C06.signPh_model_eq_spec`) -/
theorem verifyPh_signPh (I : EdwardsInterpOrd G valid φ) (H : Bytes → Bytes) (seed : Bytes) (cs : List Bytes)
    (hseed : seed.length = 32) (hH : 32 ≤ (H seed).length)
    (hr : nonceR H (H cs.flatten) (seedKeypair H seed).2 true ≠ 0) :
    verifyPh H cs (signPh H cs (seedKeypair H seed).2) (seedKeypair H seed).1 = true :=
  verify_sign_model' I H seed (H cs.flatten) true hseed hH hr

/-- … with different chunkings on the two sides, as long as the concatenations agree -/
theorem verifyPh_signPh_chunks (I : EdwardsInterpOrd G valid φ) (H : Bytes → Bytes) (seed : Bytes)
    (cs cs' : List Bytes) (hcs : cs.flatten = cs'.flatten)
    (hseed : seed.length = 32) (hH : 32 ≤ (H seed).length)
    (hr : nonceR H (H cs.flatten) (seedKeypair H seed).2 true ≠ 0) :
    verifyPh H cs' (signPh H cs (seedKeypair H seed).2) (seedKeypair H seed).1 = true := by
  unfold verifyPh
  rw [← hcs]
  exact verify_sign_model' I H seed (H cs.flatten) true hseed hH hr

/-! ### `SigningKeyPair::sign` / `IncrementalSigner::finalize` with `Vec<u8>` keys -/

/-- **`SigningKeyPair::sign` / `sign_with_defaults` with a variable-length secret-key container**: PANICS iff the
container holds fewer than 64 bytes (`secret_key.as_array()`), never returns `Err`, and otherwise signs with the
FIRST 64 bytes — for a longer container that is NOT `signDetached` on the whole container (which would hash
`sk[32..]`, all of it, as the public key): see the example below -/
theorem objSign_cases (H : Bytes → Bytes) (msg sk : Bytes) :
    (objSign H msg sk = .panic ↔ sk.length < 64) ∧
    (64 ≤ sk.length → objSign H msg sk = .ok (signDetached H msg (sk.take 64) false)) ∧
    objSign H msg sk ≠ .err := by
  unfold objSign asArray
  by_cases h : sk.length < 64
  · simp [h]
  · simp [h]

/-- with the length in the type (`StackByteArray<64>`, `[u8; 64]`, …) the view is the identity -/
theorem objSign_exact (H : Bytes → Bytes) (msg sk : Bytes) (h : sk.length = 64) :
    objSign H msg sk = .ok (signDetached H msg sk false) := by
  rw [(objSign_cases H msg sk).2.1 (by omega), List.take_of_length_le (by omega)]

theorem objSignIncremental_cases (H : Bytes → Bytes) (cs : List Bytes) (sk : Bytes) :
    (objSignIncremental H cs sk = .panic ↔ sk.length < 64) ∧
    (64 ≤ sk.length → objSignIncremental H cs sk = .ok (signPh H cs (sk.take 64))) ∧
    objSignIncremental H cs sk ≠ .err := by
  unfold objSignIncremental asArray
  by_cases h : sk.length < 64
  · simp [h]
  · simp [h]

theorem objFromSecretKey_cases (H : Bytes → Bytes) (sk : Bytes) :
    (objFromSecretKey H sk = .panic ↔ sk.length < 32) ∧
    (32 ≤ sk.length → objFromSecretKey H sk = .ok (seedKeypair H (sk.take 32))) := by
  unfold objFromSecretKey
  by_cases h : sk.length < 32
  · simp [h]
  · simp [h]

/-- non-vacuity (toy hash, so that the kernel evaluates everything): a 63-byte key panics; a 64-byte key signs; a
65-byte key signs with its first 64 bytes, and that differs from `signDetached` on all 65 bytes -/
example :
    let H : Bytes → Bytes := fun x => List.replicate 64 (UInt8.ofNat (x.length + 7))
    objSign H [1] (zeros 63) = .panic ∧
    objSign H [1] (zeros 64) = .ok (signDetached H [1] (zeros 64) false) ∧
    objSign H [1] (zeros 65) = .ok (signDetached H [1] (zeros 64) false) ∧
    signDetached H [1] (zeros 65) false ≠ signDetached H [1] (zeros 64) false := by
  decide +kernel

/-- **`SignedMessage::verify ∘ SigningKeyPair::sign = Ok(())`** (object API, key pair from `seedKeypair`, containers of
exact length), under the hypotheses of `verify_sign_model'` -/
theorem objVerifyMessage_objSign (I : EdwardsInterpOrd G valid φ) (H : Bytes → Bytes) (seed msg : Bytes)
    (hseed : seed.length = 32) (hH : 32 ≤ (H seed).length)
    (hr : nonceR H msg (seedKeypair H seed).2 false ≠ 0) :
    ∃ sig, objSign H msg (seedKeypair H seed).2 = .ok sig ∧
      objVerifyMessage H sig msg (seedKeypair H seed).1 = .ok () := by
  obtain ⟨l2, l1⟩ := seedKeypair_lengths H seed hseed
  refine ⟨_, objSign_exact H msg _ l2, ?_⟩
  exact Proofs.ObjectViewExtra.verifyMessage_true_imp_obj H _ msg _
    (verify_sign_model' I H seed msg false hseed hH hr)

/-- the same for the incremental object API: `IncrementalSigner::verify ∘ IncrementalSigner::finalize` -/
theorem objVerifyIncremental_objSignIncremental (I : EdwardsInterpOrd G valid φ) (H : Bytes → Bytes)
    (seed : Bytes) (cs : List Bytes) (hseed : seed.length = 32) (hH : 32 ≤ (H seed).length)
    (hr : nonceR H (H cs.flatten) (seedKeypair H seed).2 true ≠ 0) :
    ∃ sig, objSignIncremental H cs (seedKeypair H seed).2 = .ok sig ∧
      objVerifyIncremental H cs sig (seedKeypair H seed).1 = .ok () := by
  obtain ⟨l2, l1⟩ := seedKeypair_lengths H seed hseed
  have hs : objSignIncremental H cs (seedKeypair H seed).2 = .ok (signPh H cs (seedKeypair H seed).2) := by
    rw [(objSignIncremental_cases H cs _).2.1 (by omega), List.take_of_length_le (by omega)]
  refine ⟨_, hs, ?_⟩
  have hv := verifyPh_signPh I H seed cs hseed hH hr
  have hl : (signPh H cs (seedKeypair H seed).2).length = 64 := signDetached_length ..
  rw [(Proofs.ObjectViewExtra.objVerifyIncremental_cases H cs _ _).2]
  refine ⟨by omega, by omega, ?_⟩
  rw [List.take_of_length_le (by omega), List.take_of_length_le (by omega)]
  exact hv

/-! ### `crypto_sign` → `crypto_sign_ed25519`, code-shaped -/

/-- **one copy of the length test suffices**: with either test present, the code-shaped function is
`Model.Sign.signCombined`; in particular the source (both present) is -/
theorem signCombinedRawWith_eq (outer inner : Bool) (h : (outer || inner) = true) (H : Bytes → Bytes)
    (smLen : Nat) (msg sk : Bytes) :
    signCombinedRawWith outer inner H smLen msg sk = signCombined H smLen msg sk := by
  unfold signCombinedRawWith signCombined
  by_cases hl : smLen = msg.length + 64
  · subst hl
    simp
  · have hb : (smLen != msg.length + 64) = true := by simpa using hl
    cases outer <;> cases inner <;> simp_all

theorem signCombinedRaw_eq (H : Bytes → Bytes) (smLen : Nat) (msg sk : Bytes) :
    signCombinedRaw H smLen msg sk = signCombined H smLen msg sk :=
  signCombinedRawWith_eq true true rfl H smLen msg sk

/-- **with BOTH copies of the test removed the statements behind them panic on every wrong buffer length**
(`split_at_mut(64)` on a buffer shorter than 64, otherwise `copy_from_slice` on slices of different lengths) — so
`signCombined_never_panics` is a property of the guard, not of the model's shape -/
theorem signCombinedNoGuard_panics (H : Bytes → Bytes) (smLen : Nat) (msg sk : Bytes)
    (h : smLen ≠ msg.length + 64) : signCombinedRawWith false false H smLen msg sk = .panic := by
  unfold signCombinedRawWith
  by_cases h1 : smLen < 64
  · simp [h1]
  · have h2 : (smLen - 64 != msg.length) = true := by simp; omega
    simp [h1, h2]

/-- … and on the right length nothing changes -/
theorem signCombinedNoGuard_ok (H : Bytes → Bytes) (msg sk : Bytes) :
    signCombinedRawWith false false H (msg.length + 64) msg sk
      = .ok (signDetached H msg sk false ++ msg) := by
  unfold signCombinedRawWith
  simp

/-- hence the source never panics and answers `Err` exactly on a wrong buffer length -/
theorem signCombinedRaw_cases (H : Bytes → Bytes) (smLen : Nat) (msg sk : Bytes) :
    signCombinedRaw H smLen msg sk ≠ .panic ∧
    (signCombinedRaw H smLen msg sk = .err ↔ smLen ≠ msg.length + 64) := by
  rw [signCombinedRaw_eq]
  unfold signCombined
  by_cases h : smLen = msg.length + 64
  · simp [h]
  · simp [h]

#print axioms signDetached_eq_signCoreA
#print axioms sign_seedKeypair_eq_signCoreA
#print axioms verify_sign_model'
#print axioms verify_msg_only_via_k
#print axioms msg_change_needs_k_collision
#print axioms verify_model_eq_spec_of_canonical
#print axioms signOpen_signCombined
#print axioms verifyPh_signPh
#print axioms objSign_cases
#print axioms objVerifyMessage_objSign
#print axioms signCombinedRaw_eq
#print axioms signCombinedNoGuard_panics

end DryocVerif.Proofs.SignRound
