import DryocVerif.Proofs.Protected
/-
`VM_DONTDUMP` (`Kernel.dontdump`): `dryoc_mlock` sets it (`madvise(MADV_DONTDUMP)`) before `mlock`, `dryoc_munlock`
clears it (`MADV_DODUMP`) before `munlock`; the FAILURE path of `dryoc_mlock` calls the bare `libc::munlock`, so the
flag stays; the region is then dropped with its record `Unlocked`, so no `dryoc_munlock` runs either.

`DumpEq`: the flag equals the lock flag, page by page.  It holds initially, every system-call wrapper and both
allocator calls keep it, `dryoc_mlock` keeps it WHEN IT SUCCEEDS.  Hence (generic principle of
`Proofs/ProtectedMach.lean`) every token whose outcome is neither `err` nor `panic` keeps it.
-/
namespace DryocVerif.Proofs.Protected
open DryocVerif DryocVerif.Model.Protected

/-- core-dump exclusion = lock flag, page by page -/
def DumpEq (m : Mach) : Prop := ∀ p, m.k.dontdump p = m.k.locked p

@[simp] theorem alloc_dontdump (c : Cfg) (m : Mach) (size : Nat) : (alloc c m size).1.k.dontdump = m.k.dontdump := by
  simp [alloc]

@[simp] theorem dealloc_dontdump (c : Cfg) (m : Mach) (v : PVec) : (dealloc c m v).k.dontdump = m.k.dontdump := by
  simp [dealloc]

theorem dumpEq_init (oracle : Nat → LockAns) : DumpEq (State.init oracle).m := fun _ => rfl

theorem dumpEq_closed0 (c : Cfg) : Closed0 c DumpEq where
  alloc := fun n hq p => by rw [alloc_dontdump, alloc_locked]; exact hq p
  dealloc := fun v hq p => by rw [dealloc_dontdump, dealloc_locked]; exact hq p
  mprotect := fun a l pm hq p => by simp only [dryocMprotect, mprotect_dontdump, mprotect_locked]; exact hq p
  munlock := fun {m} a l hq p => by
    unfold dryocMunlock
    split
    · exact hq p
    · simp only [munlockK, madviseK, setRange_apply]
      split
      · rfl
      · exact hq p
  setOracle := fun _ hq => hq
  setRel := fun _ hq => hq

/-- a SUCCESSFUL `dryoc_mlock` sets both flags on the same pages -/
theorem dumpEq_mlock_ok {c : Cfg} {m : Mach} (a l : Nat) (hq : DumpEq m) (hr : (dryocMlock c m a l).2 = true) :
    DumpEq (dryocMlock c m a l).1 := by
  unfold dryocMlock at hr ⊢
  by_cases h0 : l = 0
  · simp only [h0, if_true]; exact hq
  · simp only [h0, if_false] at hr ⊢
    cases hor : m.oracle (m.cnt + 1) with
    | grant =>
      simp only [hor] at hr ⊢
      by_cases hk : (mlockK c.P (madviseK c.P m.k a l true) a l).2 = true
      · simp only [hk, if_true]
        intro p
        simp only [mlockK, madviseK, setRange_apply]
        split
        · rfl
        · exact hq p
      · simp [hk] at hr
    | refuse => simp [hor] at hr
    | failFlagged => simp [hor] at hr

theorem dumpEq_closed (c : Cfg) : MachClosed c DumpEq (fun _ => True) :=
  MachClosed.ofSuccess (dumpEq_closed0 c) (fun a l hq hr => dumpEq_mlock_ok a l hq hr)

/-- a token whose outcome is neither `err` nor `panic` (so: no lock request of it failed) keeps `DumpEq` -/
theorem dumpEq_step {c : Cfg} {s : State} (hq : DumpEq s.m) (t : Tok) (h1 : (step c s t).1 ≠ .err)
    (h2 : (step c s t).1 ≠ .panic) : DumpEq (step c s t).2.m :=
  ((dumpEq_closed c).on_step hq t).2 h1 h2

theorem dumpEq_runState {c : Cfg} (toks : List Tok) : ∀ {s : State}, DumpEq s.m →
    (∀ r ∈ run c s toks, r.1 ≠ .err ∧ r.1 ≠ .panic) → DumpEq (runState c s toks).m := by
  induction toks with
  | nil => intro s hq _; exact hq
  | cons t ts ih =>
    intro s hq hok
    have h0 := hok (step c s t) (by simp [run])
    exact ih (dumpEq_step hq t h0.1 h0.2) (fun r hr => hok r (by simp [run, hr]))

/-- the teardown issues no `mlock`: it keeps `DumpEq` -/
theorem dumpEq_finish {c : Cfg} {s : State} (hq : DumpEq s.m) : DumpEq (finish c s).m :=
  (dumpEq_closed0 c).on_finish s hq

end DryocVerif.Proofs.Protected
