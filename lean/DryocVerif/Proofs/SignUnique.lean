import Mathlib.Algebra.Group.Basic
import DryocVerif.Proofs.SignGroup
import DryocVerif.Proofs.KdfExtra
/-!
Uniqueness of the scalar part of an accepted Ed25519 signature (the provable half of "every change to a bit of the
signature is rejected"), over the abstract-group interpretation of `Proofs/SignGroup.lean` extended by two more
named curve facts.  Only `Mathlib.Algebra.Group.Basic` is imported.
-/
namespace DryocVerif.Proofs.SignUnique
open DryocVerif DryocVerif.Spec.Ed25519 DryocVerif.Model.Sign DryocVerif.Proofs.Sign
open DryocVerif.Proofs.SignGroup

variable {G : Type _} [AddCommGroup G]

/-- `EdwardsInterp` plus:
* `order_exact`  — the base point has order EXACTLY `L` (`EdwardsInterp.order_B` only says `L • B = 0`);
* `decode_valid` — whatever the lenient decoder returns is a valid point (on the curve, consistent coordinates).
Like `EdwardsInterp` this is an UNPROVED hypothesis structure: no instance is constructed in this development. -/
structure EdwardsInterpOrd (G : Type _) [AddCommGroup G] (valid : Point → Prop) (φ : Point → G) :
    Prop extends EdwardsInterp G valid φ where
  order_exact : ∀ n : ℕ, n • φ B = 0 → L ∣ n
  decode_valid : ∀ {s : Bytes} {P : Point}, decodePointLax s = some P → valid P

/-- in any additive commutative group: equal multiples differ by a multiple that annihilates -/
theorem nsmul_sub_eq_zero (b : G) (m n : ℕ) (hmn : m ≤ n) (h : m • b = n • b) : (n - m) • b = 0 := by
  have e : n = m + (n - m) := by omega
  rw [e, add_nsmul] at h
  exact add_left_cancel (a := m • b) (by rw [add_zero]; exact h.symm)

/-- if `b` has order exactly `L`, multiples by scalars below `L` are injective -/
theorem nsmul_inj_of_lt (b : G) (L : ℕ) (hord : ∀ n : ℕ, n • b = 0 → L ∣ n) (m n : ℕ) (hm : m < L)
    (hn : n < L) (h : m • b = n • b) : m = n := by
  rcases Nat.le_total m n with hmn | hmn
  · have := Nat.eq_zero_of_dvd_of_lt (hord _ (nsmul_sub_eq_zero b m n hmn h)) (by omega)
    omega
  · have := Nat.eq_zero_of_dvd_of_lt (hord _ (nsmul_sub_eq_zero b n m hmn h.symm)) (by omega)
    omega

variable {valid : Point → Prop} {φ : Point → G}

/-- the scalars of two accepted signatures with the same `R`, key, message and mode are equal -/
theorem S_scalar_unique (I : EdwardsInterpOrd G valid φ) (H : Bytes → Bytes) (sig₁ sig₂ msg pk : Bytes)
    (ph : Bool) (hR : sig₁.take 32 = sig₂.take 32)
    (h₁ : verifyDetached H sig₁ msg pk ph = true) (h₂ : verifyDetached H sig₂ msg pk ph = true) :
    le (sig₁.drop 32) = le (sig₂.drop 32) := by
  have I' := I.toEdwardsInterp
  obtain ⟨-, -, hS₁, R₁, A₁, hR₁, -, hA₁, -, e₁⟩ := (verifyDetached_true_iff H sig₁ msg pk ph).1 h₁
  obtain ⟨-, -, hS₂, R₂, A₂, hR₂, -, hA₂, -, e₂⟩ := (verifyDetached_true_iff H sig₂ msg pk ph).1 h₂
  rw [← hR] at hR₂ e₂
  rw [hR₁] at hR₂; cases hR₂
  rw [hA₁] at hA₂; cases hA₂
  have vR := I.decode_valid hR₁
  have vA := I.decode_valid hA₁
  generalize le (H ((if ph then DOM2PREFIX else []) ++ sig₁.take 32 ++ pk ++ msg)) % L = k at e₁ e₂
  have hlt : ∀ n : ℕ, n < L → n < 2 ^ 256 := fun n h => Nat.lt_trans h (by decide)
  -- both group equations, through φ
  have key : ∀ S : ℕ, S < L →
      pointEq (add (scalarMul k (neg A₁)) (scalarMul S B)) R₁ = true →
      φ (scalarMul k (neg A₁)) + S • φ B = φ R₁ := by
    intro S hS e
    have v1 := I'.valid_smul k (I'.valid_neg vA)
    have v2 := I'.valid_smul S I'.valid_B
    rw [I'.eq_iff (I'.valid_add v1 v2) vR, I'.map_add v1 v2, I'.map_smul S I'.valid_B (hlt S hS)] at e
    exact e
  have q₁ := key _ hS₁ e₁
  have q₂ := key _ hS₂ e₂
  have q : le (sig₁.drop 32) • φ B = le (sig₂.drop 32) • φ B :=
    add_left_cancel (a := φ (scalarMul k (neg A₁))) (q₁.trans q₂.symm)
  exact nsmul_inj_of_lt (φ B) L I.order_exact _ _ hS₁ hS₂ q

/-- **`S` is unique**: two signatures with the same `R` part that are both accepted for the same public key,
message and mode are the same 64 bytes.  CONDITIONAL on `I : EdwardsInterpOrd` (named, unproved curve facts). -/
theorem S_unique (I : EdwardsInterpOrd G valid φ) (H : Bytes → Bytes) (sig₁ sig₂ msg pk : Bytes)
    (ph : Bool) (hR : sig₁.take 32 = sig₂.take 32)
    (h₁ : verifyDetached H sig₁ msg pk ph = true) (h₂ : verifyDetached H sig₂ msg pk ph = true) :
    sig₁ = sig₂ := by
  have hS := S_scalar_unique I H sig₁ sig₂ msg pk ph hR h₁ h₂
  obtain ⟨l₁, -⟩ := (verifyDetached_true_iff H sig₁ msg pk ph).1 h₁
  obtain ⟨l₂, -⟩ := (verifyDetached_true_iff H sig₂ msg pk ph).1 h₂
  have hd : sig₁.drop 32 = sig₂.drop 32 :=
    Proofs.KdfExtra.le_inj_of_length _ _ (by rw [List.length_drop, List.length_drop, l₁, l₂]) hS
  rw [← List.take_append_drop 32 sig₁, ← List.take_append_drop 32 sig₂, hR, hd]

/-- contrapositive form: once a signature is accepted, EVERY other 64-byte string with the same first 32 bytes
(any change confined to the `S` half: a flipped bit, `S + L`, …) is rejected -/
theorem S_change_rejected (I : EdwardsInterpOrd G valid φ) (H : Bytes → Bytes) (sig sig' msg pk : Bytes)
    (ph : Bool) (hacc : verifyDetached H sig msg pk ph = true) (hR : sig'.take 32 = sig.take 32)
    (hne : sig' ≠ sig) : verifyDetached H sig' msg pk ph = false := by
  cases h : verifyDetached H sig' msg pk ph with
  | false => rfl
  | true => exact absurd (S_unique I H sig' sig msg pk ph hR h hacc) hne

#print axioms S_unique
#print axioms S_change_rejected

end DryocVerif.Proofs.SignUnique
