import DryocVerif.Proofs.ProtectedStep
/-
Creation tokens, clones, probes; `step`; the final teardown.
-/
namespace DryocVerif.Proofs.Protected
open DryocVerif DryocVerif.Model.Protected

theorem inv_mach {c : Cfg} {s : State} {m' : Mach} (h : GoodL c.P m'.k (blks s.slots)) :
    InvK c ⟨m', s.slots⟩ := h

theorem tight_mach {c : Cfg} {s : State} {m' : Mach} (h : TightL c.P m'.k (blks s.slots)) :
    Tight c ⟨m', s.slots⟩ := h

theorem pres_opNew {c : Cfg} (hP : 0 < c.P) {s : State} (h : InvK c s) : Pres c s (opNew c s) := by
  unfold opNew
  have g1 := good_newBytes hP (m := s.m) h
  have t1 := fun t : Tight c s => tight_newBytes hP (m := s.m) t h
  simp only []
  split
  · exact ⟨inv_push g1, fun _ t => tight_push (t1 t)⟩
  split
  · exact ⟨inv_mach (good_plainDrop hP g1), fun _ t => tight_mach (tight_plainDrop hP (t1 t) g1)⟩
  · exact ⟨inv_push (good_vecResize hP g1 _), fun _ t => tight_push (tight_vecResize (t1 t) g1 hP _)⟩

theorem pres_doNewLocked {c : Cfg} (hP : 0 < c.P) {s : State} {m : Mach} {v : PVec}
    (g : GoodL c.P m.k (⟨v, .rw, false⟩ :: blks s.slots))
    (t : Tight c s → TightL c.P m.k (⟨v, .rw, false⟩ :: blks s.slots)) (ho : m.oracle = s.m.oracle)
    (src : Option Bytes) (ro rnd : Bool) :
    Pres c s (doNewLocked c s m v src ro rnd) := by
  have gl := good_lockV hP g recNew
  have tl := fun (hl : Leakless c s.m) t0 => tight_lockV hP (t t0) g recNew (hl.hdp_rw ho (by simp))
  unfold doNewLocked
  by_cases hr : (lockV c m v recNew).2 = true
  · simp only [hr, if_true]
    have g1 := gl.1 hr
    have key : ∀ v1 : PVec, v1.base = v.base → v1.cap = v.cap → v1.len = v.len →
        v1.buf.length = v.buf.length →
        Pres c s (Res.ok, push s
          (if ro = true then dryocMprotect c (lockV c m v recNew).1 (ptr c v1) v1.len .r
            else (lockV c m v recNew).1)
          (.prot .locked (if ro = true then .ro else .rw)) v1 (rnd && decide (0 < v1.len))
          (.locked, if ro = true then .ro else .rw)) := by
      intro v1 e1 e2 e3 e4
      have g2 := good_setbuf (v' := v1) hP g1 e1 e2 e3 e4
      have t2 := fun hl t0 => tight_setvec (b' := ⟨v1, .rw, true⟩) ((tl hl t0).1 hr) e1 e2
      cases ro with
      | false =>
        simp only [Bool.false_eq_true, if_false]
        exact ⟨inv_push g2, fun hl t0 => tight_push (t2 hl t0)⟩
      | true =>
        simp only [if_true]
        refine ⟨inv_push (good_mprotect hP g2 .r), fun hl t0 => tight_push ?_⟩
        exact tight_mprotect hP (t2 hl t0) (g2.ok _ (List.mem_cons_self)).lenle _ _ _
    cases src with
    | none => exact key v rfl rfl rfl rfl
    | some b => exact key (writeV v b) rfl rfl rfl (writeV_buf_length _ _)
  · simp only [hr]
    have hr' : (lockV c m v recNew).2 = false := by simpa using hr
    exact ⟨inv_mach (gl.2 hr'), fun hl t0 => tight_mach ((tl hl t0).2 hr')⟩

theorem pres_opNewLocked {c : Cfg} (hP : 0 < c.P) {s : State} (h : InvK c s) (ro rnd : Bool) :
    Pres c s (opNewLocked c s ro rnd) := by
  unfold opNewLocked
  exact pres_doNewLocked hP (good_newBytes hP (m := s.m) h)
    (fun t => tight_newBytes hP (m := s.m) t h) (by simp) _ _ _

theorem pres_doFromSlice {c : Cfg} (hP : 0 < c.P) {s : State} (h : InvK c s) (n : Nat) (ro : Bool) :
    Pres c s (doFromSlice c s n ro) := by
  unfold doFromSlice
  split
  · split
    · exact pres_same h _
    · exact pres_doNewLocked hP (good_newBytes hP (m := s.m) h)
        (fun t => tight_newBytes hP (m := s.m) t h) (by simp) _ _ _
  · have g0 := good_add_empty hP (k := s.m.k) h .rw false
    exact pres_doNewLocked hP (good_vecResize hP g0 n)
      (fun t => tight_vecResize (tight_add t _) g0 hP n) (by simp) _ _ _

theorem pres_doCloneLocked {c : Cfg} (hP : 0 < c.P) {s : State} (h : InvK c s) (sl : Slot) (ro : Bool) :
    Pres c s (doCloneLocked c s sl ro) := by
  have g0 := good_add_empty hP (k := s.m.k) h .rw false
  have gl := good_lockedResize hP g0 (.locked, .rw) sl.o.v.len
  have tl := fun (hl : Leakless c s.m) (t : Tight c s) =>
    tight_lockedResize hP (tight_add t _) g0 (.locked, .rw) (fun _ => rfl) hl sl.o.v.len
  unfold doCloneLocked
  cases hn : (lockedResize c s.m PVec.empty (.locked, .rw) sl.o.v.len).2 with
  | none =>
    simp only [hn] at gl tl ⊢
    exact ⟨inv_mach (good_remove_empty gl rfl), fun hl t => tight_mach (tight_remove_empty (tl hl t) rfl)⟩
  | some nv =>
    simp only [hn] at gl tl ⊢
    have g2 := good_setbuf (v' := writeV nv sl.o.v.data) hP gl rfl rfl rfl (writeV_buf_length _ _)
    have t2 := fun hl t => tight_setvec (b' := ⟨writeV nv sl.o.v.data, .rw, true⟩) (tl hl t) rfl rfl
    cases ro with
    | false =>
      simp only [Bool.false_eq_true, if_false]
      exact ⟨inv_push g2, fun hl t0 => tight_push (t2 hl t0)⟩
    | true =>
      simp only [if_true]
      refine ⟨inv_push (good_mprotect hP g2 .r), fun hl t0 => tight_push ?_⟩
      exact tight_mprotect hP (t2 hl t0) (g2.ok _ (List.mem_cons_self)).lenle _ _ _

theorem pres_opClone {c : Cfg} (hP : 0 < c.P) {s : State} (h : InvK c s) (i : Nat) :
    Pres c s (opClone c s i) := by
  unfold opClone
  apply withLive_elim _ _ _ _ (pres_same h _) (pres_same h _)
  intro sl l1 l2 hs hi hg
  have gc := good_vecClone hP (m := s.m) h sl.o.v
  have tc := fun t : Tight c s => tight_vecClone (m := s.m) t sl.o.v
  split
  · exact ⟨inv_push gc, fun _ t => tight_push (tc t)⟩
  · exact ⟨inv_push gc, fun _ t => tight_push (tc t)⟩
  · refine ⟨inv_push (good_mprotect hP gc .r), fun _ t => tight_push ?_⟩
    exact tight_mprotect hP (tc t) (gc.ok _ (List.mem_cons_self)).lenle _ _ _
  · split
    · exact pres_same h _
    · exact pres_doCloneLocked hP h sl false
  · split
    · exact pres_same h _
    · exact pres_doCloneLocked hP h sl true
  · exact pres_same h _

/-! ### `Zeroize::zeroize(&mut self)` -/

/-- the `zeroize` tokens that break the agreement of pages and TYPE state: on a live, non-empty `Protected`
region that is not `Unlocked` read-write (the pages become read-write / unlocked, the type stays) -/
def ZeroizesProtected (s : State) (t : Tok) : Prop :=
  t.op = .zeroize ∧ ∃ sl, s.slots[t.idx]? = some sl ∧ sl.gone = false ∧ 0 < sl.o.v.len ∧
    sl.o.st ≠ .plain ∧ sl.o.st ≠ .prot .unlocked .rw

/-- the permission / lock flag demanded of the data pages of an EMPTY container is irrelevant -/
theorem good_relabel_empty {P : Nat} (hP : 0 < P) {k : Kernel} {v : PVec} {dp dp' : Perm} {dl dl' : Bool}
    {R : List Blk} (g : GoodL P k (⟨v, dp, dl⟩ :: R)) (h0 : v.len = 0) : GoodL P k (⟨v, dp', dl'⟩ :: R) := by
  refine good_dataop hP g rfl ?_ (fun _ _ => ⟨rfl, rfl⟩)
  intro i h1 h2
  simp only [h0, pagesOf_zero hP] at h2; omega

theorem zeroizeV_buf_length (v : PVec) : (zeroizeV v).buf.length = v.buf.length := by
  simp [zeroizeV, wipeN_length]

theorem tight_opZeroize {c : Cfg} (hP : 0 < c.P) {s : State} (h : InvK c s) (ht : Tight c s) (i : Nat) :
    Tight c (opZeroize c s i).2 := by
  unfold opZeroize
  apply withLive_elim (Q := fun r => Tight c r.2) _ _ _ _ ht ht
  intro sl l1 l2 hs hi hg
  have g := good_head hs hg h
  have t := tight_head hs hg ht
  split
  · exact tight_set_live hs hi hg (tight_setvec t rfl rfl)
  · exact tight_set_live hs hi hg
      (tight_protZeroize hP t (g.ok _ (List.mem_cons_self)).lenle _ _ _ _)

/-- `zeroize` keeps the page invariant on bare containers, on `Unlocked` read-write regions and on empty regions -/
theorem inv_opZeroize {c : Cfg} (hP : 0 < c.P) {s : State} (h : InvK c s) (hrec : RecOK s) (i : Nat)
    (hz : ¬ ZeroizesProtected s ⟨.zeroize, i⟩) : InvK c (opZeroize c s i).2 := by
  unfold opZeroize
  apply withLive_elim (Q := fun r => InvK c r.2) _ _ _ _ h h
  intro sl l1 l2 hs hi hg
  have g := good_head hs hg h
  have hget : s.slots[i]? = some sl := by rw [hs, ← hi]; exact getElem?_split _ _ _
  split
  · exact inv_set_live hs hi hg (good_setbuf hP g rfl rfl rfl (zeroizeV_buf_length _))
  · rename_i lm pm hst
    have hrc := hrec sl (mem_split hs) hg lm pm hst
    have gz := good_protZeroize hP g sl.o.rcd.1 sl.o.rcd.2
    refine inv_set_live hs hi hg ?_
    show GoodL c.P _ (⟨zeroizeV sl.o.v, stPerm sl.o.st, stLocked sl.o.st⟩ :: _)
    by_cases h0 : sl.o.v.len = 0
    · exact good_relabel_empty hP gz h0
    · have hur : sl.o.st = .prot .unlocked .rw := by
        apply Classical.byContradiction
        intro hne
        exact hz ⟨rfl, sl, hget, hg, by omega, by rw [hst]; simp, hne⟩
      rw [hst] at hur
      injection hur with e1 e2
      subst e1; subst e2
      have e1 : sl.o.rcd.1 = .unlocked := by rw [hrc]
      have e2 : sl.o.rcd.2 = .rw := by rw [hrc]
      simpa [wipePerm, wipeLock, hst, blkOf, stPerm, stLocked, e1, e2] using gz

/-! ### `clone` as a function of the object (`clone_from`) -/

theorem good_cloneLockedObj {c : Cfg} (hP : 0 < c.P) {m : Mach} {R : List Blk} (g : GoodL c.P m.k R)
    (o : Obj) (ro : Bool) :
    match (cloneLockedObj c m o ro).2 with
    | none => GoodL c.P (cloneLockedObj c m o ro).1.k R
    | some o' => GoodL c.P (cloneLockedObj c m o ro).1.k (blkOf o' :: R) := by
  have g0 := good_add_empty hP g .rw false
  have gl := good_lockedResize hP g0 (.locked, .rw) o.v.len
  unfold cloneLockedObj
  cases hn : (lockedResize c m PVec.empty (.locked, .rw) o.v.len).2 with
  | none =>
    simp only [hn] at gl ⊢
    exact good_remove_empty gl rfl
  | some nv =>
    simp only [hn] at gl ⊢
    have g2 := good_setbuf (v' := writeV nv o.v.data) hP gl rfl rfl rfl (writeV_buf_length _ _)
    cases ro with
    | false => simpa [blkOf, stPerm, stLocked, PM.perm] using g2
    | true => simpa [blkOf, stPerm, stLocked, PM.perm] using good_mprotect hP g2 .r

theorem tight_cloneLockedObj {c : Cfg} (hP : 0 < c.P) {m : Mach} {R : List Blk} (g : GoodL c.P m.k R)
    (t : TightL c.P m.k R) (hl : Leakless c m) (o : Obj) (ro : Bool) :
    match (cloneLockedObj c m o ro).2 with
    | none => TightL c.P (cloneLockedObj c m o ro).1.k R
    | some o' => TightL c.P (cloneLockedObj c m o ro).1.k (blkOf o' :: R) := by
  have g0 := good_add_empty hP g .rw false
  have gl := good_lockedResize hP g0 (.locked, .rw) o.v.len
  have tl := tight_lockedResize hP (tight_add t _) g0 (.locked, .rw) (fun _ => rfl) hl o.v.len
  unfold cloneLockedObj
  cases hn : (lockedResize c m PVec.empty (.locked, .rw) o.v.len).2 with
  | none =>
    simp only [hn] at tl ⊢
    exact tight_remove_empty tl rfl
  | some nv =>
    simp only [hn] at gl tl ⊢
    have g2 := good_setbuf (v' := writeV nv o.v.data) hP gl rfl rfl rfl (writeV_buf_length _ _)
    have t2 : TightL c.P _ (⟨writeV nv o.v.data, .rw, true⟩ :: R) := tight_setvec tl rfl rfl
    cases ro with
    | false => simpa [blkOf, stPerm, stLocked, PM.perm] using t2
    | true =>
      have := tight_mprotect hP t2 (g2.ok _ (List.mem_cons_self)).lenle .r .r true
      simpa [blkOf, stPerm, stLocked, PM.perm] using this

/-- what `cloneObj` returns: nothing / a machine after a panic / a machine and the new object -/
def CloneSpec (R : List Blk) (r : Option (Mach × Option Obj)) (G : Kernel → List Blk → Prop) : Prop :=
  match r with
  | none => True
  | some (m1, none) => G m1.k R
  | some (m1, some o') => G m1.k (blkOf o' :: R)

theorem cloneSpec_of_pair {R : List Blk} {G : Kernel → List Blk → Prop} (x : Mach × Option Obj)
    (h : match x.2 with
      | none => G x.1.k R
      | some o' => G x.1.k (blkOf o' :: R)) : CloneSpec R (some x) G := by
  obtain ⟨m1, oo⟩ := x
  cases oo <;> exact h

theorem good_cloneObj {c : Cfg} (hP : 0 < c.P) {m : Mach} {R : List Blk} (g : GoodL c.P m.k R) (o : Obj) :
    CloneSpec R (cloneObj c m o) (GoodL c.P) := by
  have gc := good_vecClone hP (m := m) g o.v
  unfold cloneObj
  split
  · exact gc
  · show GoodL c.P _ _
    simpa [blkOf, stPerm, stLocked, PM.perm] using gc
  · show GoodL c.P _ _
    simpa [blkOf, stPerm, stLocked, PM.perm] using good_mprotect hP gc .r
  · split
    · trivial
    · exact cloneSpec_of_pair _ (good_cloneLockedObj hP g o false)
  · split
    · trivial
    · exact cloneSpec_of_pair _ (good_cloneLockedObj hP g o true)
  · trivial

theorem tight_cloneObj {c : Cfg} (hP : 0 < c.P) {m : Mach} {R : List Blk} (g : GoodL c.P m.k R)
    (t : TightL c.P m.k R) (hl : Leakless c m) (o : Obj) : CloneSpec R (cloneObj c m o) (TightL c.P) := by
  have gc := good_vecClone hP (m := m) g o.v
  have tc := tight_vecClone (m := m) t o.v
  unfold cloneObj
  split
  · exact tc
  · show TightL c.P _ _
    simpa [blkOf, stPerm, stLocked, PM.perm] using tc
  · show TightL c.P _ _
    have := tight_mprotect hP tc (gc.ok _ (List.mem_cons_self)).lenle .r .r false
    simpa [blkOf, stPerm, stLocked, PM.perm] using this
  · split
    · trivial
    · exact cloneSpec_of_pair _ (tight_cloneLockedObj hP g t hl o false)
  · split
    · trivial
    · exact cloneSpec_of_pair _ (tight_cloneLockedObj hP g t hl o true)
  · trivial

theorem cloneLockedObj_oracle (c : Cfg) (m : Mach) (o : Obj) (ro : Bool) :
    (cloneLockedObj c m o ro).1.oracle = m.oracle := by
  unfold cloneLockedObj; simp only []
  split
  · simp
  · simp only []; split <;> simp

theorem cloneObj_oracle {c : Cfg} {m : Mach} {o : Obj} {r : Mach × Option Obj} (h : cloneObj c m o = some r) :
    r.1.oracle = m.oracle := by
  unfold cloneObj at h
  split at h
  · simp only [Option.some.injEq] at h; rw [← h]; simp
  · simp only [Option.some.injEq] at h; rw [← h]; simp
  · simp only [Option.some.injEq] at h; rw [← h]; simp
  · split at h
    · simp at h
    · simp only [Option.some.injEq] at h; rw [← h]; exact cloneLockedObj_oracle ..
  · split at h
    · simp at h
    · simp only [Option.some.injEq] at h; rw [← h]; exact cloneLockedObj_oracle ..
  · simp at h

/-- the clone is in the type state of the original, and its record is the one of that state -/
theorem cloneObj_st {c : Cfg} {m m1 : Mach} {o o' : Obj} (h : cloneObj c m o = some (m1, some o')) :
    o'.st = o.st ∧ (∀ lm pm, o'.st = .prot lm pm → o'.rcd = (lm, pm)) := by
  have hl : ∀ ro, cloneLockedObj c m o ro = (m1, some o') →
      o'.st = .prot .locked (if ro then .ro else .rw) ∧ o'.rcd = (.locked, if ro then .ro else .rw) := by
    intro ro
    unfold cloneLockedObj
    simp only []
    split
    · simp
    · intro hh
      simp only [Prod.mk.injEq, Option.some.injEq] at hh
      rw [← hh.2]; exact ⟨rfl, rfl⟩
  unfold cloneObj at h
  split at h
  · rename_i hst
    simp only [Option.some.injEq, Prod.mk.injEq] at h
    rw [← h.2, hst]; exact ⟨rfl, by intro lm pm hh; simp at hh⟩
  · rename_i hst
    simp only [Option.some.injEq, Prod.mk.injEq] at h
    rw [← h.2, hst]; refine ⟨rfl, ?_⟩
    intro lm pm hh; simp only [St.prot.injEq] at hh; rw [← hh.1, ← hh.2]; rfl
  · rename_i hst
    simp only [Option.some.injEq, Prod.mk.injEq] at h
    rw [← h.2, hst]; refine ⟨rfl, ?_⟩
    intro lm pm hh; simp only [St.prot.injEq] at hh; rw [← hh.1, ← hh.2]
  · rename_i hst
    split at h
    · simp at h
    · have := hl false (by simpa using h)
      rw [this.1, hst]; refine ⟨rfl, ?_⟩
      intro lm pm hh; simp only [Bool.false_eq_true, if_false, St.prot.injEq] at hh this
      rw [this.2, ← hh.1, ← hh.2]
  · rename_i hst
    split at h
    · simp at h
    · have := hl true (by simpa using h)
      rw [this.1, hst]; refine ⟨rfl, ?_⟩
      intro lm pm hh; simp only [if_true, St.prot.injEq] at hh this
      rw [this.2, ← hh.1, ← hh.2]
  · simp at h

theorem perm_head3 {α : Type} (a b : α) (l1 l2 l : List α) (h : l.Perm (a :: (l1 ++ l2))) :
    (b :: l).Perm (a :: b :: (l1 ++ l2)) :=
  (List.Perm.cons b h).trans (List.Perm.swap a b _)

section assign
variable {c : Cfg} (hP : 0 < c.P) {s : State} {d : Slot} {l1 l2 : List Slot} {i : Nat}
  (hs : s.slots = l1 ++ d :: l2) (hi : l1.length = i) (hg : d.gone = false)
  (hrd : ∀ lm pm, d.o.st = .prot lm pm → d.o.rcd = (lm, pm))
include hP hs hi hg hrd

/-- `*d = o` (drop the old value of slot `i`, move `o` in), `o` already built in machine `m` -/
theorem pres_assign {m : Mach} {sl' : Slot} (hg' : sl'.gone = false)
    (g : GoodL c.P m.k (blkOf sl'.o :: blks s.slots))
    (t : Leakless c s.m → Tight c s → TightL c.P m.k (blkOf sl'.o :: blks s.slots)) :
    Pres c s (Res.ok, setSlot s (objDrop c m d.o) i sl') := by
  have hperm := blks_mid_live (sl := d) hg l1 l2
  rw [← hs] at hperm
  have pp := perm_head3 _ (blkOf sl'.o) _ _ _ hperm
  have g1 := g.perm pp
  exact ⟨inv_set_live hs hi hg' (good_objDrop hP (o := d.o) g1),
    fun hl t0 => tight_set_live hs hi hg' (tight_objDrop hP ((t hl t0).perm pp) g1 hrd)⟩

/-- the same with a temporary `tmp` that is dropped after the assignment -/
theorem pres_assign_tmp {m : Mach} {sl' : Slot} {tmp : Obj} (hg' : sl'.gone = false)
    (hrt : ∀ lm pm, tmp.st = .prot lm pm → tmp.rcd = (lm, pm))
    (g : GoodL c.P m.k (blkOf sl'.o :: blkOf tmp :: blks s.slots))
    (t : Leakless c s.m → Tight c s → TightL c.P m.k (blkOf sl'.o :: blkOf tmp :: blks s.slots)) :
    Pres c s (Res.ok, setSlot s (objDrop c (objDrop c m d.o) tmp) i sl') := by
  have hperm := blks_mid_live (sl := d) hg l1 l2
  rw [← hs] at hperm
  have pp : (blkOf sl'.o :: blkOf tmp :: blks s.slots).Perm
      (blkOf d.o :: blkOf tmp :: blkOf sl'.o :: (blks l1 ++ blks l2)) := by
    refine (List.Perm.swap _ _ _).trans ?_
    refine (List.Perm.cons _ (perm_head3 _ (blkOf sl'.o) _ _ _ hperm)).trans ?_
    exact List.Perm.swap _ _ _
  have g1 := g.perm pp
  have g2 := good_objDrop hP (o := d.o) g1
  exact ⟨inv_set_live hs hi hg' (good_objDrop hP (o := tmp) g2), fun hl t0 =>
    tight_set_live hs hi hg' (tight_objDrop hP (tight_objDrop hP ((t hl t0).perm pp) g1 hrd) g2 hrt)⟩

end assign

/-- `clone_from`: whatever the outcome, the page invariant holds and no stray lock appears -/
theorem pres_opCloneFrom {c : Cfg} (hP : 0 < c.P) {s : State} (h : InvK c s) (hrec : RecOK s) (i j : Nat) :
    Pres c s (opCloneFrom c s i j) := by
  unfold opCloneFrom
  split
  · exact pres_same h _
  split
  · rename_i d src hd hsrc
    split
    · exact pres_same h _
    rename_i hcond
    simp only [Bool.or_eq_true, decide_eq_true_eq, not_or] at hcond
    have hg : d.gone = false := by simpa using hcond.1.1
    obtain ⟨l1, l2, hs, hi⟩ := slot_split hd
    have hrd := hrec d (mem_split hs) hg
    have gp := good_cloneObj hP (m := s.m) h src.o
    have tp := fun (hl : Leakless c s.m) (t0 : Tight c s) => tight_cloneObj hP (m := s.m) h t0 hl src.o
    split
    · -- locked forms: probe clone first
      cases hp : cloneObj c s.m src.o with
      | none => exact pres_same h _
      | some r1 =>
        obtain ⟨m1, ot⟩ := r1
        cases ot with
        | none =>
          simp only [hp, CloneSpec] at gp tp ⊢
          exact ⟨inv_mach gp, fun hl t0 => tight_mach (tp hl t0)⟩
        | some tmp =>
          simp only [hp, CloneSpec] at gp tp ⊢
          have hrt := (cloneObj_st hp).2
          have ho1 : m1.oracle = s.m.oracle := cloneObj_oracle hp
          have gq := good_cloneObj hP (m := m1) gp src.o
          have tq := fun (hl : Leakless c s.m) (t0 : Tight c s) =>
            tight_cloneObj hP (m := m1) gp (tp hl t0) (hl.of_oracle_eq ho1) src.o
          cases hq : cloneObj c m1 src.o with
          | none =>
            simp only []
            exact ⟨inv_mach (good_objDrop hP (o := tmp) gp),
              fun hl t0 => tight_mach (tight_objDrop hP (tp hl t0) gp hrt)⟩
          | some r2 =>
            obtain ⟨m2, oo⟩ := r2
            cases oo with
            | none =>
              simp only [hq, CloneSpec] at gq tq ⊢
              exact ⟨inv_mach (good_objDrop hP (o := tmp) gq),
                fun hl t0 => tight_mach (tight_objDrop hP (tq hl t0) gq hrt)⟩
            | some o =>
              simp only [hq, CloneSpec] at gq tq ⊢
              exact pres_assign_tmp hP hs hi hg hrd (sl' := { d with o := o, rnd := src.rnd }) hg hrt gq tq
    · cases hp : cloneObj c s.m src.o with
      | none => exact pres_same h _
      | some r1 =>
        obtain ⟨m1, oo⟩ := r1
        cases oo with
        | none =>
          simp only [hp, CloneSpec] at gp tp ⊢
          exact ⟨inv_mach gp, fun hl t0 => tight_mach (tp hl t0)⟩
        | some o =>
          simp only [hp, CloneSpec] at gp tp ⊢
          exact pres_assign hP hs hi hg hrd (sl' := { d with o := o, rnd := src.rnd }) hg gp tp
  · exact pres_same h _

/-! ### `stacklock`, `serde` -/

theorem pres_opStackLock {c : Cfg} (hP : 0 < c.P) {s : State} (h : InvK c s) : Pres c s (opStackLock c s) := by
  unfold opStackLock
  split
  · have g1 := good_newBytes hP (m := s.m) h
    exact pres_doNewLocked hP
      (good_setbuf (v' := writeV (newBytes c s.m).2 (List.replicate c.n 0x5a)) hP g1 rfl rfl rfl
        (writeV_buf_length _ _))
      (fun t => tight_setvec (tight_newBytes hP (m := s.m) t h) rfl rfl) (by simp) _ _ _
  · exact pres_same h _

theorem setV_buf_length (v : PVec) (i : Nat) (b : UInt8) : (setV v i b).buf.length = v.buf.length := by
  simp [setV]

theorem good_seqFill {c : Cfg} (hP : 0 < c.P) (b : UInt8) {R : List Blk} (k : Nat) : ∀ (r : Mach × PVec),
    GoodL c.P r.1.k (⟨r.2, .rw, false⟩ :: R) →
    GoodL c.P (seqFill c b k r).1.k (⟨(seqFill c b k r).2, .rw, false⟩ :: R) := by
  induction k with
  | zero => intro r g; exact g
  | succ k ih =>
    intro r g
    simp only [seqFill]
    apply ih
    have g1 := good_vecResize hP g (r.2.len + 1)
    exact good_setbuf hP g1 rfl rfl rfl (setV_buf_length _ _ _)

theorem tight_seqFill {c : Cfg} (hP : 0 < c.P) (b : UInt8) {R : List Blk} (k : Nat) : ∀ (r : Mach × PVec),
    GoodL c.P r.1.k (⟨r.2, .rw, false⟩ :: R) → TightL c.P r.1.k (⟨r.2, .rw, false⟩ :: R) →
    TightL c.P (seqFill c b k r).1.k (⟨(seqFill c b k r).2, .rw, false⟩ :: R) := by
  induction k with
  | zero => intro r _ t; exact t
  | succ k ih =>
    intro r g t
    simp only [seqFill]
    have g1 := good_vecResize hP g (r.2.len + 1)
    apply ih
    · exact good_setbuf hP g1 rfl rfl rfl (setV_buf_length _ _ _)
    · exact tight_setvec (tight_vecResize t g hP _) rfl rfl

theorem seqFill_oracle (c : Cfg) (b : UInt8) (k : Nat) : ∀ r : Mach × PVec, (seqFill c b k r).1.oracle = r.1.oracle := by
  induction k with
  | zero => intro r; rfl
  | succ k ih => intro r; simp only [seqFill]; rw [ih]; simp

theorem pres_doSerdeArrJson {c : Cfg} (hP : 0 < c.P) {s : State} (h : InvK c s) (n : Nat) :
    Pres c s (doSerdeArrJson c s n) := by
  have g := good_newBytes hP (m := s.m) h
  have t := fun t0 : Tight c s => tight_newBytes hP (m := s.m) t0 h
  have gl := good_lockV hP g recNew
  have tl := fun (hl : Leakless c s.m) t0 => tight_lockV hP (t t0) g recNew (hl.hdp_rw (by simp) (by simp))
  unfold doSerdeArrJson
  by_cases hr : (lockV c (newBytes c s.m).1 (newBytes c s.m).2 recNew).2 = true
  · simp only [hr, if_true]
    have g2 := good_setbuf (v' := writeV (newBytes c s.m).2 (List.replicate (min n c.n) 0x5a)) hP (gl.1 hr)
      rfl rfl rfl (writeV_buf_length _ _)
    have t2 := fun hl t0 => tight_setvec
      (b' := ⟨writeV (newBytes c s.m).2 (List.replicate (min n c.n) 0x5a), .rw, true⟩) ((tl hl t0).1 hr) rfl rfl
    split
    · exact ⟨inv_push g2, fun hl t0 => tight_push (t2 hl t0)⟩
    · exact ⟨inv_mach (good_protDrop hP g2 _ _),
        fun hl t0 => tight_mach (tight_protDrop hP (t2 hl t0) g2 _ _ (fun _ => rfl))⟩
  · simp only [hr]
    have hr' : (lockV c (newBytes c s.m).1 (newBytes c s.m).2 recNew).2 = false := by simpa using hr
    exact ⟨inv_mach (gl.2 hr'), fun hl t0 => tight_mach ((tl hl t0).2 hr')⟩

theorem pres_opSerde {c : Cfg} (hP : 0 < c.P) {s : State} (h : InvK c s) (json : Bool) (n : Nat) :
    Pres c s (opSerde c s json n) := by
  unfold opSerde
  split
  · split
    · exact pres_doSerdeArrJson hP h n
    · have g0 := good_add_empty hP (k := s.m.k) h .rw false
      exact pres_doNewLocked hP (good_seqFill hP 0x5a n (s.m, PVec.empty) g0)
        (fun t => tight_seqFill hP 0x5a n (s.m, PVec.empty) g0 (tight_add t _)) (seqFill_oracle ..) _ _ _
  · exact pres_doFromSlice hP h n false

theorem pres_probe {c : Cfg} {s : State} (h : InvK c s) (i off : Nat) (fore : Bool) :
    Pres c s (opWProbe c s i off) ∧ Pres c s (opRProbe c s i off) ∧ Pres c s (opGProbe c s i fore) := by
  refine ⟨?_, ?_, ?_⟩
  · unfold opWProbe
    apply withLive_elim _ _ _ _ (pres_same h _) (pres_same h _)
    intro sl _ _ _ _ _
    split
    · exact pres_same h _
    · split <;> exact pres_same h _
  · unfold opRProbe
    apply withLive_elim _ _ _ _ (pres_same h _) (pres_same h _)
    intro sl _ _ _ _ _
    split
    · exact pres_same h _
    · split <;> exact pres_same h _
  · unfold opGProbe
    apply withLive_elim _ _ _ _ (pres_same h _) (pres_same h _)
    intro sl _ _ _ _ _
    split
    · exact pres_same h _
    · simp only []; repeat' split
      all_goals exact pres_same h _

theorem inv_resetRel {c : Cfg} {s : State} : InvK c (resetRel s) ↔ InvK c s := Iff.rfl
theorem tight_resetRel {c : Cfg} {s : State} : Tight c (resetRel s) ↔ Tight c s := Iff.rfl

/-- the page invariant is preserved by every token (whatever the lock oracle answers), except by a `zeroize` of a
non-empty `Protected` region that is not `Unlocked` read-write -/
theorem invK_stepCore {c : Cfg} (hP : 0 < c.P) {s : State} (h : InvK c s) (hrec : RecOK s) (t : Tok)
    (hz : ¬ ZeroizesProtected s t) : InvK c (stepCore c s t).2 := by
  unfold stepCore
  cases hop : t.op <;> simp only []
  case new => exact (pres_opNew hP h).1
  case fill b => exact (pres_opFill hP h _ _).1
  case lock => exact inv_opLock hP h _
  case unlock => exact (pres_opUnlock hP h _).1
  case ro => exact (pres_opProtect hP h _ _).1
  case rw => exact (pres_opProtect hP h _ _).1
  case na => exact (pres_opNa hP h _).1
  case clone => exact (pres_opClone hP h _).1
  case resize n b => exact (pres_opResize hP h hrec _ _ _).1
  case drop => exact (pres_opDrop hP h hrec _).1
  case zeroize =>
    refine inv_opZeroize hP h hrec _ (fun hh => hz ⟨hop, hh.2⟩)
  case clonefrom j => exact (pres_opCloneFrom hP h hrec _ _).1
  case panicdrop => exact (pres_opDrop hP h hrec _).1
  case stacklock => exact (pres_opStackLock hP h).1
  case serde js n => exact (pres_opSerde hP h _ _).1
  case fsl n => exact (pres_doFromSlice hP h _ _).1
  case fsro n => exact (pres_doFromSlice hP h _ _).1
  case newlocked => exact (pres_opNewLocked hP h _ _).1
  case genlocked => exact (pres_opNewLocked hP h _ _).1
  case newrolocked => exact (pres_opNewLocked hP h _ _).1
  case genrolocked => exact (pres_opNewLocked hP h _ _).1
  case failfrom k => exact h
  case wprobe off => exact (pres_probe h _ _ true).1.1
  case rprobe off => exact (pres_probe h _ _ true).2.1.1
  case gprobe f => exact (pres_probe h _ 0 _).2.2.1
  case wrap => exact h
  case bad => exact h

theorem tight_stepCore {c : Cfg} (hP : 0 < c.P) {s : State} (h : InvK c s) (hrec : RecOK s) (ht : Tight c s)
    (t : Tok) (hno : c.undo = true ∨ (¬ LocksNoAccess s t ∧ NoFF s.m)) : Tight c (stepCore c s t).2 := by
  have hl : Leakless c s.m := hno.imp id (fun x => x.2)
  unfold stepCore
  cases hop : t.op <;> simp only []
  case new => exact (pres_opNew hP h).2 hl ht
  case fill b => exact (pres_opFill hP h _ _).2 hl ht
  case lock =>
    refine (pres_opLock hP h _ ?_).2 hl ht
    rcases hno with hu | ⟨hno, hff⟩
    · exact Or.inl hu
    · right; refine ⟨?_, hff⟩; intro hl'; apply hno
      exact ⟨hop, hl'.2⟩
  case unlock => exact (pres_opUnlock hP h _).2 hl ht
  case ro => exact (pres_opProtect hP h _ _).2 hl ht
  case rw => exact (pres_opProtect hP h _ _).2 hl ht
  case na => exact (pres_opNa hP h _).2 hl ht
  case clone => exact (pres_opClone hP h _).2 hl ht
  case resize n b => exact (pres_opResize hP h hrec _ _ _).2 hl ht
  case drop => exact (pres_opDrop hP h hrec _).2 hl ht
  case zeroize => exact tight_opZeroize hP h ht _
  case clonefrom j => exact (pres_opCloneFrom hP h hrec _ _).2 hl ht
  case panicdrop => exact (pres_opDrop hP h hrec _).2 hl ht
  case stacklock => exact (pres_opStackLock hP h).2 hl ht
  case serde js n => exact (pres_opSerde hP h _ _).2 hl ht
  case fsl n => exact (pres_doFromSlice hP h _ _).2 hl ht
  case fsro n => exact (pres_doFromSlice hP h _ _).2 hl ht
  case newlocked => exact (pres_opNewLocked hP h _ _).2 hl ht
  case genlocked => exact (pres_opNewLocked hP h _ _).2 hl ht
  case newrolocked => exact (pres_opNewLocked hP h _ _).2 hl ht
  case genrolocked => exact (pres_opNewLocked hP h _ _).2 hl ht
  case failfrom k => exact ht
  case wprobe off => exact (pres_probe h _ _ true).1.2 hl ht
  case rprobe off => exact (pres_probe h _ _ true).2.1.2 hl ht
  case gprobe f => exact (pres_probe h _ 0 _).2.2.2 hl ht
  case wrap => exact ht
  case bad => exact ht

/-! ### final teardown -/

theorem good_dropAll {c : Cfg} (hP : 0 < c.P) (slots : List Slot) {m : Mach}
    (g : GoodL c.P m.k (blks slots)) : GoodL c.P (dropAllM c m slots).k [] := by
  induction slots generalizing m with
  | nil => exact g
  | cons sl rest ih =>
    unfold dropAllM
    by_cases hg : sl.gone = true
    · simp only [hg, if_true]
      rw [blks_cons_gone hg] at g
      exact ih g
    · have hg' : sl.gone = false := by simpa using hg
      simp only [hg]
      rw [blks_cons_live hg'] at g
      exact ih (good_objDrop hP (o := sl.o) g)

theorem tight_dropAll {c : Cfg} (hP : 0 < c.P) (slots : List Slot) {m : Mach}
    (g : GoodL c.P m.k (blks slots)) (t : TightL c.P m.k (blks slots)) (hrec : ∀ sl ∈ slots, SlotRec sl) :
    TightL c.P (dropAllM c m slots).k [] := by
  induction slots generalizing m with
  | nil => exact t
  | cons sl rest ih =>
    unfold dropAllM
    by_cases hg : sl.gone = true
    · simp only [hg, if_true]
      rw [blks_cons_gone hg] at g t
      exact ih g t (fun x hx => hrec x (by simp [hx]))
    · have hg' : sl.gone = false := by simpa using hg
      simp only [hg]
      rw [blks_cons_live hg'] at g t
      exact ih (good_objDrop hP (o := sl.o) g) (tight_objDrop hP t g (hrec sl (by simp) hg'))
        (fun x hx => hrec x (by simp [hx]))

end DryocVerif.Proofs.Protected
