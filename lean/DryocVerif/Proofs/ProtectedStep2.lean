import DryocVerif.Proofs.ProtectedStep
/-
Creation tokens, clones, probes; `step`; the final teardown.
-/
namespace DryocVerif.Proofs.Protected
open DryocVerif DryocVerif.Model.Protected

theorem inv_mach {c : Cfg} {s : State} {m' : Mach} (h : GoodL c.P m'.k (blks s.slots)) :
    Inv c ⟨m', s.slots⟩ := h

theorem tight_mach {c : Cfg} {s : State} {m' : Mach} (h : TightL c.P m'.k (blks s.slots)) :
    Tight c ⟨m', s.slots⟩ := h

theorem pres_opNew {c : Cfg} (hP : 0 < c.P) {s : State} (h : Inv c s) : Pres c s (opNew c s) := by
  unfold opNew
  have g1 := good_newBytes hP (m := s.m) h
  have t1 := fun t : Tight c s => tight_newBytes hP (m := s.m) t h
  simp only []
  split
  · exact ⟨inv_push g1, fun t => tight_push (t1 t)⟩
  split
  · exact ⟨inv_mach (good_plainDrop hP g1), fun t => tight_mach (tight_plainDrop hP (t1 t) g1)⟩
  · exact ⟨inv_push (good_vecResize hP g1 _), fun t => tight_push (tight_vecResize (t1 t) g1 hP _)⟩

theorem pres_doNewLocked {c : Cfg} (hP : 0 < c.P) {s : State} {m : Mach} {v : PVec}
    (g : GoodL c.P m.k (⟨v, .rw, false⟩ :: blks s.slots))
    (t : Tight c s → TightL c.P m.k (⟨v, .rw, false⟩ :: blks s.slots))
    (src : Option Bytes) (ro rnd : Bool) :
    Pres c s (doNewLocked c s m v src ro rnd) := by
  have gl := good_lockV hP g .rw
  have tl := fun t0 => tight_lockV hP (t t0) g .rw (Or.inr (Or.inl (by simp)))
  unfold doNewLocked
  by_cases hr : (lockV c m v .rw).2 = true
  · simp only [hr, if_true]
    have g1 := gl.1 hr
    have key : ∀ v1 : PVec, v1.base = v.base → v1.cap = v.cap → v1.len = v.len →
        v1.buf.length = v.buf.length →
        Pres c s (Res.ok, push s
          (if ro = true then dryocMprotect c (lockV c m v .rw).1 (ptr c v1) v1.len .r
            else (lockV c m v .rw).1)
          (.prot .locked (if ro = true then .ro else .rw)) v1 (rnd && decide (0 < v1.len))) := by
      intro v1 e1 e2 e3 e4
      have g2 := good_setbuf (v' := v1) hP g1 e1 e2 e3 e4
      have t2 := fun t0 => tight_setvec (b' := ⟨v1, .rw, true⟩) ((tl t0).1 hr) e1 e2
      cases ro with
      | false =>
        simp only [Bool.false_eq_true, if_false]
        exact ⟨inv_push g2, fun t0 => tight_push (t2 t0)⟩
      | true =>
        simp only [if_true]
        refine ⟨inv_push (good_mprotect hP g2 .r), fun t0 => tight_push ?_⟩
        exact tight_mprotect hP (t2 t0) (g2.ok _ (List.mem_cons_self)).lenle _ _ _
    cases src with
    | none => exact key v rfl rfl rfl rfl
    | some b => exact key (writeV v b) rfl rfl rfl (writeV_buf_length _ _)
  · simp only [hr]
    have hr' : (lockV c m v .rw).2 = false := by simpa using hr
    exact ⟨inv_mach (gl.2 hr'), fun t0 => tight_mach ((tl t0).2 hr')⟩

theorem pres_opNewLocked {c : Cfg} (hP : 0 < c.P) {s : State} (h : Inv c s) (ro rnd : Bool) :
    Pres c s (opNewLocked c s ro rnd) := by
  unfold opNewLocked
  exact pres_doNewLocked hP (good_newBytes hP (m := s.m) h)
    (fun t => tight_newBytes hP (m := s.m) t h) _ _ _

theorem pres_doFromSlice {c : Cfg} (hP : 0 < c.P) {s : State} (h : Inv c s) (n : Nat) (ro : Bool) :
    Pres c s (doFromSlice c s n ro) := by
  unfold doFromSlice
  split
  · split
    · exact pres_same h _
    · exact pres_doNewLocked hP (good_newBytes hP (m := s.m) h)
        (fun t => tight_newBytes hP (m := s.m) t h) _ _ _
  · have g0 := good_add_empty hP (k := s.m.k) h .rw false
    exact pres_doNewLocked hP (good_vecResize hP g0 n)
      (fun t => tight_vecResize (tight_add t _) g0 hP n) _ _ _

theorem pres_doCloneLocked {c : Cfg} (hP : 0 < c.P) {s : State} (h : Inv c s) (sl : Slot) (ro : Bool) :
    Pres c s (doCloneLocked c s sl ro) := by
  have g0 := good_add_empty hP (k := s.m.k) h .rw false
  have gl := good_lockedResize hP g0 sl.o.v.len
  have tl := fun t : Tight c s => tight_lockedResize hP (tight_add t _) g0 sl.o.v.len
  unfold doCloneLocked
  cases hn : (lockedResize c s.m PVec.empty sl.o.v.len).2 with
  | none =>
    simp only [hn] at gl tl ⊢
    exact ⟨inv_mach (good_remove_empty gl rfl), fun t => tight_mach (tight_remove_empty (tl t) rfl)⟩
  | some nv =>
    simp only [hn] at gl tl ⊢
    have g2 := good_setbuf (v' := writeV nv sl.o.v.data) hP gl rfl rfl rfl (writeV_buf_length _ _)
    have t2 := fun t => tight_setvec (b' := ⟨writeV nv sl.o.v.data, .rw, true⟩) (tl t) rfl rfl
    cases ro with
    | false =>
      simp only [Bool.false_eq_true, if_false]
      exact ⟨inv_push g2, fun t0 => tight_push (t2 t0)⟩
    | true =>
      simp only [if_true]
      refine ⟨inv_push (good_mprotect hP g2 .r), fun t0 => tight_push ?_⟩
      exact tight_mprotect hP (t2 t0) (g2.ok _ (List.mem_cons_self)).lenle _ _ _

theorem pres_opClone {c : Cfg} (hP : 0 < c.P) {s : State} (h : Inv c s) (i : Nat) :
    Pres c s (opClone c s i) := by
  unfold opClone
  apply withLive_elim _ _ _ _ (pres_same h _) (pres_same h _)
  intro sl l1 l2 hs hi hg
  have gc := good_vecClone hP (m := s.m) h sl.o.v
  have tc := fun t : Tight c s => tight_vecClone (m := s.m) t sl.o.v
  split
  · exact ⟨inv_push gc, fun t => tight_push (tc t)⟩
  · exact ⟨inv_push gc, fun t => tight_push (tc t)⟩
  · refine ⟨inv_push (good_mprotect hP gc .r), fun t => tight_push ?_⟩
    exact tight_mprotect hP (tc t) (gc.ok _ (List.mem_cons_self)).lenle _ _ _
  · split
    · exact pres_same h _
    · exact pres_doCloneLocked hP h sl false
  · split
    · exact pres_same h _
    · exact pres_doCloneLocked hP h sl true
  · exact pres_same h _

theorem pres_probe {c : Cfg} {s : State} (h : Inv c s) (i off : Nat) (fore : Bool) :
    Pres c s (opWProbe c s i off) ∧ Pres c s (opRProbe c s i off) ∧ Pres c s (opGProbe c s i fore) := by
  refine ⟨?_, ?_, ?_⟩
  · unfold opWProbe
    apply withLive_elim _ _ _ _ (pres_same h _) (pres_same h _)
    intro sl _ _ _ _ _
    split
    · exact pres_same h _
    · split <;> exact pres_same h _
  · unfold opRProbe
    apply withLive_elim _ _ _ _ (pres_same h _) (pres_same h _)
    intro sl _ _ _ _ _
    split
    · exact pres_same h _
    · split <;> exact pres_same h _
  · unfold opGProbe
    apply withLive_elim _ _ _ _ (pres_same h _) (pres_same h _)
    intro sl _ _ _ _ _
    split
    · exact pres_same h _
    · simp only []; repeat' split
      all_goals exact pres_same h _

theorem inv_resetRel {c : Cfg} {s : State} : Inv c (resetRel s) ↔ Inv c s := Iff.rfl
theorem tight_resetRel {c : Cfg} {s : State} : Tight c (resetRel s) ↔ Tight c s := Iff.rfl

/-- `Inv` is preserved by every token, unconditionally -/
theorem inv_stepCore {c : Cfg} (hP : 0 < c.P) {s : State} (h : Inv c s) (t : Tok) :
    Inv c (stepCore c s t).2 := by
  unfold stepCore
  cases hop : t.op <;> simp only []
  case new => exact (pres_opNew hP h).1
  case fill b => exact (pres_opFill hP h _ _).1
  case lock => exact inv_opLock hP h _
  case unlock => exact (pres_opUnlock hP h _).1
  case ro => exact (pres_opProtect hP h _ _).1
  case rw => exact (pres_opProtect hP h _ _).1
  case na => exact (pres_opNa hP h _).1
  case clone => exact (pres_opClone hP h _).1
  case resize n => exact (pres_opResize hP h _ _).1
  case drop => exact (pres_opDrop hP h _).1
  case fsl n => exact (pres_doFromSlice hP h _ _).1
  case fsro n => exact (pres_doFromSlice hP h _ _).1
  case newlocked => exact (pres_opNewLocked hP h _ _).1
  case genlocked => exact (pres_opNewLocked hP h _ _).1
  case newrolocked => exact (pres_opNewLocked hP h _ _).1
  case genrolocked => exact (pres_opNewLocked hP h _ _).1
  case failfrom k => exact h
  case wprobe off => exact (pres_probe h _ _ true).1.1
  case rprobe off => exact (pres_probe h _ _ true).2.1.1
  case gprobe f => exact (pres_probe h _ 0 _).2.2.1
  case wrap => exact h
  case bad => exact h

theorem tight_stepCore {c : Cfg} (hP : 0 < c.P) {s : State} (h : Inv c s) (ht : Tight c s) (t : Tok)
    (hno : c.undo = true ∨ ¬ LocksNoAccess s t) : Tight c (stepCore c s t).2 := by
  unfold stepCore
  cases hop : t.op <;> simp only []
  case new => exact (pres_opNew hP h).2 ht
  case fill b => exact (pres_opFill hP h _ _).2 ht
  case lock =>
    refine (pres_opLock hP h _ ?_).2 ht
    rcases hno with hu | hno
    · exact Or.inl hu
    · right; intro hl; apply hno
      exact ⟨hop, hl.2⟩
  case unlock => exact (pres_opUnlock hP h _).2 ht
  case ro => exact (pres_opProtect hP h _ _).2 ht
  case rw => exact (pres_opProtect hP h _ _).2 ht
  case na => exact (pres_opNa hP h _).2 ht
  case clone => exact (pres_opClone hP h _).2 ht
  case resize n => exact (pres_opResize hP h _ _).2 ht
  case drop => exact (pres_opDrop hP h _).2 ht
  case fsl n => exact (pres_doFromSlice hP h _ _).2 ht
  case fsro n => exact (pres_doFromSlice hP h _ _).2 ht
  case newlocked => exact (pres_opNewLocked hP h _ _).2 ht
  case genlocked => exact (pres_opNewLocked hP h _ _).2 ht
  case newrolocked => exact (pres_opNewLocked hP h _ _).2 ht
  case genrolocked => exact (pres_opNewLocked hP h _ _).2 ht
  case failfrom k => exact ht
  case wprobe off => exact (pres_probe h _ _ true).1.2 ht
  case rprobe off => exact (pres_probe h _ _ true).2.1.2 ht
  case gprobe f => exact (pres_probe h _ 0 _).2.2.2 ht
  case wrap => exact ht
  case bad => exact ht

/-! ### final teardown -/

theorem good_dropAll {c : Cfg} (hP : 0 < c.P) (slots : List Slot) {m : Mach}
    (g : GoodL c.P m.k (blks slots)) : GoodL c.P (dropAllM c m slots).k [] := by
  induction slots generalizing m with
  | nil => exact g
  | cons sl rest ih =>
    unfold dropAllM
    by_cases hg : sl.gone = true
    · simp only [hg, if_true]
      rw [blks_cons_gone hg] at g
      exact ih g
    · have hg' : sl.gone = false := by simpa using hg
      simp only [hg]
      rw [blks_cons_live hg'] at g
      exact ih (good_objDrop hP (o := sl.o) g)

theorem tight_dropAll {c : Cfg} (hP : 0 < c.P) (slots : List Slot) {m : Mach}
    (g : GoodL c.P m.k (blks slots)) (t : TightL c.P m.k (blks slots)) :
    TightL c.P (dropAllM c m slots).k [] := by
  induction slots generalizing m with
  | nil => exact t
  | cons sl rest ih =>
    unfold dropAllM
    by_cases hg : sl.gone = true
    · simp only [hg, if_true]
      rw [blks_cons_gone hg] at g t
      exact ih g t
    · have hg' : sl.gone = false := by simpa using hg
      simp only [hg]
      rw [blks_cons_live hg'] at g t
      exact ih (good_objDrop hP (o := sl.o) g) (tight_objDrop hP t g)

end DryocVerif.Proofs.Protected
