import DryocVerif.Proofs.SignVectors
/-!
Additional lemmas for `Properties/C06.lean`:
* the sweep over libsodium's small-order table (7 entries × both values of the sign bit
  = 14 encodings) as a THEOREM about `verifyDetached` (quantified over everything else);
* further kernel-checked vectors: RFC 8032 §7.1 TEST 2 (one-byte message, combined mode)
  and RFC 8032 §7.3 (Ed25519ph "abc").
Core-only; no Mathlib.
-/
namespace DryocVerif.Proofs.SignExtra
open DryocVerif DryocVerif.Spec.Ed25519 DryocVerif.Model.Sign DryocVerif.Proofs.Sign
open DryocVerif.Proofs.SignVectors

/-! ### the 14 small-order encodings -/

/-- set (`true`) or leave clear (`false`) bit 255 — the sign bit of a point encoding.
All 7 table entries have bit 255 clear (`blacklist_sign_clear`). -/
def setSign (e : Bytes) (sgn : Bool) : Bytes := if sgn then e.modify 31 (· ||| 0x80) else e

/-- the finite check behind the sweep: each of the 14 encodings decodes (leniently) and
the decoded point satisfies `[8]P = identity` -/
def sweepCheck : Bool :=
  smallOrderBlacklist.all fun e => [false, true].all fun s =>
    (setSign e s).length == 32 &&
    match decodePointLax (setSign e s) with
    | none => false
    | some P => isSmallOrder P

theorem sweepCheck_true : sweepCheck = true := by decide +kernel

theorem blacklist_sign_clear : ∀ e ∈ smallOrderBlacklist, le e / 2 ^ 255 = 0 := by
  decide +kernel

/-- the 14 encodings are pairwise different -/
theorem blacklist14_nodup :
    (smallOrderBlacklist.flatMap fun e => [setSign e false, setSign e true]).Nodup := by
  decide +kernel

/-- lifting lemma: every one of the 14 encodings is 32 bytes long, is ACCEPTED by the
lenient decoder, and the decoded point has small order -/
theorem blacklist_decodes_small (e : Bytes) (he : e ∈ smallOrderBlacklist) (sgn : Bool) :
    (setSign e sgn).length = 32 ∧
    ∃ P, decodePointLax (setSign e sgn) = some P ∧ isSmallOrder P = true := by
  have h := sweepCheck_true
  unfold sweepCheck at h
  rw [List.all_eq_true] at h
  have h1 := h e he
  rw [List.all_eq_true] at h1
  have h2 := h1 sgn (by cases sgn <;> simp)
  rw [Bool.and_eq_true] at h2
  refine ⟨by simpa using h2.1, ?_⟩
  cases hd : decodePointLax (setSign e sgn) with
  | none => rw [hd] at h2; exact absurd h2.2 (by simp)
  | some P => rw [hd] at h2; exact ⟨P, rfl, h2.2⟩

/-- "if the lax decoder accepts it then the decoded point is small order" -/
theorem blacklist_small_of_decodes (e : Bytes) (he : e ∈ smallOrderBlacklist) (sgn : Bool)
    (P : Point) (h : decodePointLax (setSign e sgn) = some P) : isSmallOrder P = true := by
  obtain ⟨-, P', hP', hso⟩ := blacklist_decodes_small e he sgn
  rw [hP'] at h; cases h; exact hso

theorem smallorder_R_rejected (H : Bytes → Bytes) (sig msg pk : Bytes) (ph : Bool) (R : Point)
    (hR : decodePointLax (sig.take 32) = some R) (hso : isSmallOrder R = true) :
    verifyDetached H sig msg pk ph = false := by
  rw [← Bool.not_eq_true, verifyDetached_true_iff]
  rintro ⟨-, -, -, R', A, hR', hso', -⟩
  rw [hR] at hR'; cases hR'; rw [hso] at hso'; cases hso'

theorem smallorder_A_rejected (H : Bytes → Bytes) (sig msg pk : Bytes) (ph : Bool) (A : Point)
    (hA : decodePointLax pk = some A) (hso : isSmallOrder A = true) :
    verifyDetached H sig msg pk ph = false := by
  rw [← Bool.not_eq_true, verifyDetached_true_iff]
  rintro ⟨-, -, -, R', A', -, -, hA', hso', -⟩
  rw [hA] at hA'; cases hA'; rw [hso] at hso'; cases hso'

theorem blacklist_R_rejected (H : Bytes → Bytes) (e : Bytes) (he : e ∈ smallOrderBlacklist)
    (sgn : Bool) (s m pk : Bytes) (ph : Bool) :
    verifyDetached H (setSign e sgn ++ s) m pk ph = false := by
  obtain ⟨hl, P, hP, hso⟩ := blacklist_decodes_small e he sgn
  exact smallorder_R_rejected H _ m pk ph P (by rw [List.take_left' hl]; exact hP) hso

theorem blacklist_A_rejected (H : Bytes → Bytes) (e : Bytes) (he : e ∈ smallOrderBlacklist)
    (sgn : Bool) (sig m : Bytes) (ph : Bool) :
    verifyDetached H sig m (setSign e sgn) ph = false := by
  obtain ⟨-, P, hP, hso⟩ := blacklist_decodes_small e he sgn
  exact smallorder_A_rejected H sig m _ ph P hP hso

/-- the libsodium-style predicate flags all 14 as well (so both verifiers reject them) -/
theorem blacklist_hasSmallOrder : ∀ e ∈ smallOrderBlacklist, ∀ sgn ∈ [false, true],
    hasSmallOrder (setSign e sgn) = true := by decide +kernel

/-! ### RFC 8032 §7.1 TEST 2 (message `72`) — combined mode accepts -/

def tv2Seed : Bytes := [0x4c, 0xcd, 0x08, 0x9b, 0x28, 0xff, 0x96, 0xda, 0x9d, 0xb6, 0xc3, 0x46, 0xec, 0x11, 0x4e, 0x0f, 0x5b, 0x8a, 0x31, 0x9f, 0x35, 0xab, 0xa6, 0x24, 0xda, 0x8c, 0xf6, 0xed, 0x4f, 0xb8, 0xa6, 0xfb]
def tv2Pk : Bytes := [0x3d, 0x40, 0x17, 0xc3, 0xe8, 0x43, 0x89, 0x5a, 0x92, 0xb7, 0x0a, 0xa7, 0x4d, 0x1b, 0x7e, 0xbc, 0x9c, 0x98, 0x2c, 0xcf, 0x2e, 0xc4, 0x96, 0x8c, 0xc0, 0xcd, 0x55, 0xf1, 0x2a, 0xf4, 0x66, 0x0c]
def tv2Msg : Bytes := [0x72]
def tv2Sig : Bytes := [0x92, 0xa0, 0x09, 0xa9, 0xf0, 0xd4, 0xca, 0xb8, 0x72, 0x0e, 0x82, 0x0b, 0x5f, 0x64, 0x25, 0x40, 0xa2, 0xb2, 0x7b, 0x54, 0x16, 0x50, 0x3f, 0x8f, 0xb3, 0x76, 0x22, 0x23, 0xeb, 0xdb, 0x69, 0xda, 0x08, 0x5a, 0xc1, 0xe4, 0x3e, 0x15, 0x99, 0x6e, 0x45, 0x8f, 0x36, 0x13, 0xd0, 0xf1, 0x1d, 0x8c, 0x38, 0x7b, 0x2e, 0xae, 0xb4, 0x30, 0x2a, 0xee, 0xb0, 0x0d, 0x29, 0x16, 0x12, 0xbb, 0x0c, 0x00]

theorem tv2_keypair : seedKeypair Spec.Sha512.sha512 tv2Seed = (tv2Pk, tv2Seed ++ tv2Pk) := by
  decide +kernel
theorem tv2_sign : signDetached Spec.Sha512.sha512 tv2Msg (tv2Seed ++ tv2Pk) false = tv2Sig := by
  decide +kernel
theorem tv2_verify : verifyDetached Spec.Sha512.sha512 tv2Sig tv2Msg tv2Pk false = true := by
  decide +kernel
theorem tv2_signOpen :
    signOpen Spec.Sha512.sha512 1 (tv2Sig ++ tv2Msg) tv2Pk = .ok tv2Msg := by decide +kernel

/-! ### RFC 8032 §7.3 Ed25519ph, message "abc" -/

def phSeed : Bytes := [0x83, 0x3f, 0xe6, 0x24, 0x09, 0x23, 0x7b, 0x9d, 0x62, 0xec, 0x77, 0x58, 0x75, 0x20, 0x91, 0x1e, 0x9a, 0x75, 0x9c, 0xec, 0x1d, 0x19, 0x75, 0x5b, 0x7d, 0xa9, 0x01, 0xb9, 0x6d, 0xca, 0x3d, 0x42]
def phPk : Bytes := [0xec, 0x17, 0x2b, 0x93, 0xad, 0x5e, 0x56, 0x3b, 0xf4, 0x93, 0x2c, 0x70, 0xe1, 0x24, 0x50, 0x34, 0xc3, 0x54, 0x67, 0xef, 0x2e, 0xfd, 0x4d, 0x64, 0xeb, 0xf8, 0x19, 0x68, 0x34, 0x67, 0xe2, 0xbf]
def phMsg : Bytes := [0x61, 0x62, 0x63]
def phSig : Bytes := [0x98, 0xa7, 0x02, 0x22, 0xf0, 0xb8, 0x12, 0x1a, 0xa9, 0xd3, 0x0f, 0x81, 0x3d, 0x68, 0x3f, 0x80, 0x9e, 0x46, 0x2b, 0x46, 0x9c, 0x7f, 0xf8, 0x76, 0x39, 0x49, 0x9b, 0xb9, 0x4e, 0x6d, 0xae, 0x41, 0x31, 0xf8, 0x50, 0x42, 0x46, 0x3c, 0x2a, 0x35, 0x5a, 0x20, 0x03, 0xd0, 0x62, 0xad, 0xf5, 0xaa, 0xa1, 0x0b, 0x8c, 0x61, 0xe6, 0x36, 0x06, 0x2a, 0xaa, 0xd1, 0x1c, 0x2a, 0x26, 0x08, 0x34, 0x06]
/-- the 64-byte prehash SHA-512("abc") -/
def phHash : Bytes := Spec.Sha512.sha512 phMsg

theorem ph_keypair : seedKeypair Spec.Sha512.sha512 phSeed = (phPk, phSeed ++ phPk) := by
  decide +kernel
/-- the model's incremental pre-hashed signer, message split as "a" ‖ "bc", gives the RFC's
signature -/
theorem ph_sign :
    Model.Sign.signPh Spec.Sha512.sha512 [[0x61], [0x62, 0x63]] (phSeed ++ phPk) = phSig := by
  decide +kernel
theorem ph_verify : verifyPh Spec.Sha512.sha512 [[0x61, 0x62], [0x63]] phSig phPk = true := by
  decide +kernel
theorem ph_verify_detached :
    verifyDetached Spec.Sha512.sha512 phSig phHash phPk true = true := by decide +kernel
/-- … and it is not accepted as a pure signature of the prehash -/
theorem ph_verify_pure :
    verifyDetached Spec.Sha512.sha512 phSig phHash phPk false = false := by decide +kernel

/-! #### the hypotheses of `verify_model_eq_spec'` hold on the Ed25519ph vector (`ph = true`) -/

def phR : Point := (decodePointLax (phSig.take 32)).getD identity
def phA : Point := (decodePointLax phPk).getD identity

theorem ph_R_decodes : decodePointLax (phSig.take 32) = some phR :=
  some_getD (by decide +kernel) _
theorem ph_A_decodes : decodePointLax phPk = some phA := some_getD (by decide +kernel) _
theorem ph_A_canon : isCanonicalPoint phPk = true := by decide +kernel
theorem ph_R_so : hasSmallOrder (phSig.take 32) = isSmallOrder phR := by decide +kernel
theorem ph_A_so : hasSmallOrder phPk = isSmallOrder phA := by decide +kernel
theorem ph_R_canon :
    (pointEq (checkPoint (dom2 1 []) phSig phHash phPk phA) phR = true ↔
      encodePoint (checkPoint (dom2 1 []) phSig phHash phPk phA) = phSig.take 32) := by
  decide +kernel
theorem ph_dec_eq : decodePoint phPk = decodePointLax phPk := by decide +kernel

theorem ph_hRcanon : ∀ A, decodePointLax phPk = some A →
    (pointEq (checkPoint (if true = true then dom2 1 [] else []) phSig phHash phPk A) phR = true ↔
      encodePoint (checkPoint (if true = true then dom2 1 [] else []) phSig phHash phPk A)
        = phSig.take 32) := by
  intro A hA
  have h : A = phA := eq_of_some_eq hA ph_A_decodes
  rw [h]
  simp only [if_true]
  exact ph_R_canon

theorem ph_hsoA : ∀ A, decodePointLax phPk = some A → hasSmallOrder phPk = isSmallOrder A := by
  intro A hA
  have h : A = phA := eq_of_some_eq hA ph_A_decodes
  rw [h]
  exact ph_A_so

/-- `verify_model_eq_spec'` instantiated with `ph = true`: every hypothesis discharged by the
kernel; both sides are `true` (`ph_verify_detached`) -/
theorem ph_model_eq_spec :
    verifyDetached Spec.Sha512.sha512 phSig phHash phPk true
      = verifyCore (dom2 1 []) phPk phHash phSig := by
  have := verify_model_eq_spec' phSig phHash phPk true phR ph_R_decodes ph_hRcanon
    ph_dec_eq ph_A_canon ph_R_so ph_hsoA
  simpa using this

end DryocVerif.Proofs.SignExtra
