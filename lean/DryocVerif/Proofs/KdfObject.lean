import DryocVerif.Model.ObjectView
import DryocVerif.Proofs.ObjectViewExtra
import DryocVerif.Proofs.KdfExtra
/-!
`Kdf::derive_subkey` / `derive_subkey_to_vec` (kdf.rs) on containers whose length is not in their type: context
and main key go through `ByteArray<N>::as_array` (panic below `N` bytes, prefix view above), and the sub-key is
always 32 bytes (`Subkey: NewByteArray<CRYPTO_KDF_KEYBYTES>`).
-/
namespace DryocVerif.Proofs.KdfObject
open DryocVerif DryocVerif.Model.ArrayView DryocVerif.Model.ObjectView DryocVerif.Model.Curve
open DryocVerif.Proofs.ObjectViewExtra

theorem kdfObjDerive_eq (id : Nat) (ctx key : Bytes) :
    kdfObjDerive id ctx key =
      if ctx.length < 8 ∨ key.length < 32 then .panic
      else Model.KeyForms.kdfDeriveImpl 32 id (ctx.take 8) (key.take 32) := by
  unfold kdfObjDerive; rw [view2_eq]

/-- the typed code path on a 32-byte key and an 8-byte context, output length 32: libsodium's value -/
theorem kdfDeriveImpl32 (id : Nat) (ctx key : Bytes) (hk : key.length = 32) (hc : ctx.length = 8) :
    Model.KeyForms.kdfDeriveImpl 32 id ctx key =
      .ok (Spec.Blake2b.hashSP 32 key (toLE 8 id ++ zeros 8) (ctx ++ zeros 8) []) := by
  rw [Proofs.KdfExtra.kdfDeriveImpl_eq_kdfDerive 32 id ctx key hk hc]
  unfold kdfDerive; rw [if_neg (by omega)]; rfl

/-- `Kdf::derive_subkey` with variable-length containers: PANICS iff the context container holds fewer than 8 or
the main-key container fewer than 32 bytes; otherwise `Ok` with the 32-byte sub-key derived from the FIRST 8 / 32
bytes (libsodium's keyed BLAKE2b-256 with salt `LE64(id) ‖ 0⁸`, personalisation `ctx[..8] ‖ 0⁸`); never `Err` (the
length 32 is admissible and dryoc's BLAKE2b `init` / `finalize` do not fail on these arguments) -/
theorem kdfObjDerive_cases (id : Nat) (ctx key : Bytes) :
    (kdfObjDerive id ctx key = .panic ↔ ctx.length < 8 ∨ key.length < 32) ∧
    (8 ≤ ctx.length → 32 ≤ key.length →
      kdfObjDerive id ctx key =
        .ok (Spec.Blake2b.hashSP 32 (key.take 32) (toLE 8 id ++ zeros 8) (ctx.take 8 ++ zeros 8) [])) ∧
    kdfObjDerive id ctx key ≠ .err := by
  rw [kdfObjDerive_eq]
  by_cases h : ctx.length < 8 ∨ key.length < 32
  · simp [h]; omega
  · rw [if_neg h, kdfDeriveImpl32 id _ _ (by rw [List.length_take]; omega) (by rw [List.length_take]; omega)]
    simp [h]

/-- exact lengths (`StackByteArray`, `HeapByteArray`, `Locked<…>`: the typed API): the object function is the
classic one at sub-key length 32 -/
theorem kdfObjDerive_exact (id : Nat) (ctx key : Bytes) (hc : ctx.length = 8) (hk : key.length = 32) :
    kdfObjDerive id ctx key = kdfDerive specPrims 32 id ctx key := by
  rw [kdfObjDerive_eq, if_neg (by omega), List.take_of_length_le (by omega), List.take_of_length_le (by omega),
    Proofs.KdfExtra.kdfDeriveImpl_eq_kdfDerive 32 id ctx key hk hc]

end DryocVerif.Proofs.KdfObject
