import Mathlib.Data.ZMod.Basic
import Mathlib.Tactic.Ring
import Mathlib.Tactic.LinearCombination
import DryocVerif.Proofs.CurveOrder8
import DryocVerif.Proofs.KeyFormsExtra
import DryocVerif.Proofs.FieldPrime
import Mathlib.FieldTheory.Finite.Basic
/-
C13, the converted key pair in the CODE's shape: `crypto_sign_ed25519_pk_to_curve25519` applied to
the compressed point `encode Q` gives dalek's `Q.to_montgomery()`, for every projective point `Q`
whose `Z` is not `0 mod p` — field algebra in `ZMod p`.  The identity itself (`mont_scale`) holds in
any commutative ring in which `Z · Z^n = 1`; that `Z ≢ 0` gives `Z · Z^(p−2) = 1` is Fermat's little
theorem, for which the primality of `p = 2^255 − 19` is proved in `Proofs/FieldPrime.lean` (Pratt
certificate).  The group law of the curve is not used.
-/
namespace DryocVerif.Proofs.KeyFormsCode
open DryocVerif DryocVerif.Spec.Ed25519
open DryocVerif.Spec.X25519 (fadd fsub fmul fsq fpow fpowAux finv)
open DryocVerif.Proofs.CurveOrder8 (F cast_fadd cast_fmul cast_fsub cast_fsq p_pos)

local notation "q" => DryocVerif.Spec.X25519.p

/-! ### `fpow` is exponentiation in `ZMod p` -/

theorem cast_fpowAux (bits : ℕ) : ∀ (b e acc : ℕ),
    ((fpowAux bits b e acc : ℕ) : F) = (acc : F) * (b : F) ^ (e % 2 ^ bits) := by
  induction bits with
  | zero => intro b e acc; simp [fpowAux, Nat.mod_one]
  | succ n ih =>
    intro b e acc
    have hsplit : e % 2 ^ (n + 1) = 2 * ((e / 2) % 2 ^ n) + e % 2 := by
      rw [Nat.pow_succ, Nat.mul_comm (2 ^ n) 2, Nat.mod_mul, Nat.add_comm]
    rw [fpowAux, ih, hsplit, cast_fsq, ← pow_mul]
    by_cases h : e % 2 = 1
    · rw [if_pos h, cast_fmul, h]; ring
    · have h0 : e % 2 = 0 := by omega
      rw [if_neg h, h0]; ring

theorem cast_fpow (b e : ℕ) (he : e < 2 ^ 255) : ((fpow b e : ℕ) : F) = (b : F) ^ e := by
  unfold fpow
  rw [cast_fpowAux, Nat.mod_eq_of_lt he, ZMod.natCast_mod]; simp

theorem cast_finv (a : ℕ) : ((finv a : ℕ) : F) = (a : F) ^ (q - 2) := by
  unfold finv
  exact cast_fpow a _ (by decide)

/-! ### the algebra: (1 + Y/Z)/(1 − Y/Z) = (Z + Y)/(Z − Y), with `x⁻¹ := x^n` and `Z · Z^n = 1` -/

theorem mont_scale {R : Type} [CommRing R] (Y Z : R) (n : ℕ) (hZ : Z * Z ^ n = 1) :
    (1 + Y * Z ^ n) * (1 - Y * Z ^ n) ^ n = (Z + Y) * (Z - Y) ^ n := by
  have h1 : Z ^ (n + 1) = 1 := by rw [pow_succ']; exact hZ
  have h2 : (Z ^ n) * (Z ^ n) ^ n = 1 := by
    rw [← pow_succ', ← pow_mul, mul_comm, pow_mul, h1, one_pow]
  have e1 : 1 + Y * Z ^ n = Z ^ n * (Z + Y) := by linear_combination (-1 : R) * hZ
  have e2 : 1 - Y * Z ^ n = Z ^ n * (Z - Y) := by linear_combination (-1 : R) * hZ
  rw [e1, e2, mul_pow]
  linear_combination ((Z + Y) * (Z - Y) ^ n) * h2

theorem fmul_lt (a b : ℕ) : fmul a b < q := Nat.mod_lt _ p_pos

theorem eq_of_cast {a b : ℕ} (ha : a < q) (hb : b < q) (h : (a : F) = (b : F)) : a = b := by
  rw [ZMod.natCast_eq_natCast_iff'] at h
  rwa [Nat.mod_eq_of_lt ha, Nat.mod_eq_of_lt hb] at h

/-- the Montgomery u of the affine point (·, Y/Z) is the projective formula (Z+Y)/(Z−Y) -/
theorem mont_affine_eq_proj (Y Z : ℕ) (hZ : fmul Z (finv Z) = 1) :
    fmul (fadd 1 (fmul Y (finv Z))) (finv (fsub 1 (fmul Y (finv Z)))) =
      fmul (fadd Z Y) (finv (fsub Z Y)) := by
  apply eq_of_cast (fmul_lt _ _) (fmul_lt _ _)
  have hZ' : ((fmul Z (finv Z) : ℕ) : F) = ((1 : ℕ) : F) := by rw [hZ]
  rw [cast_fmul, cast_finv, Nat.cast_one] at hZ'
  rw [cast_fmul, cast_fmul, cast_fadd, cast_fadd, cast_finv, cast_finv, cast_fsub, cast_fsub,
    cast_fmul, cast_finv, Nat.cast_one]
  exact mont_scale (Y : F) (Z : F) (q - 2) hZ'

/-! ### decode ∘ encode keeps the affine y -/

theorem encodePoint_length (Q : Point) : (encodePoint Q).length = 32 :=
  Proofs.Curve.toLE_length _ _

/-- if the compressed form of `Q` decompresses at all, the decompressed point has the affine
y-coordinate `Y/Z` of `Q` (and `Z = 1`) -/
theorem decode_encode_Y (Q A : Point) (h : decodePointLax (encodePoint Q) = some A) :
    A.Y = fmul Q.Y (finv Q.Z) ∧ A.Z = 1 := by
  unfold decodePointLax at h
  rw [if_neg (by simp [encodePoint_length])] at h
  obtain ⟨hy, hz⟩ := Proofs.KeyFormsExtra.recoverX_some _ _ _ _ h
  refine ⟨?_, hz⟩
  rw [hy]
  unfold encodePoint
  simp only []
  rw [Proofs.Curve.le_toLE]
  have hy : fmul Q.Y (finv Q.Z) < q := fmul_lt _ _
  have hb : fmul Q.X (finv Q.Z) % 2 < 2 := Nat.mod_lt _ (by decide)
  have hq : q < 2 ^ 255 := by decide
  have hv : fmul Q.Y (finv Q.Z) + 2 ^ 255 * (fmul Q.X (finv Q.Z) % 2) < 256 ^ 32 := by
    have : (256 : ℕ) ^ 32 = 2 ^ 255 * 2 := by decide
    rw [this]
    calc _ < 2 ^ 255 + 2 ^ 255 * (fmul Q.X (finv Q.Z) % 2) := by omega
      _ ≤ 2 ^ 255 + 2 ^ 255 * 1 := by
        apply Nat.add_le_add_left; apply Nat.mul_le_mul_left; omega
      _ = 2 ^ 255 * 2 := by ring
  rw [Nat.mod_eq_of_lt hv, Nat.add_mul_mod_self_left,
    Nat.mod_eq_of_lt (Nat.lt_trans hy hq)]
  exact Nat.mod_eq_of_lt hy

/-- **`pk_to_curve25519 ∘ compress = to_montgomery`**: for every projective point `Q` with
invertible `Z` whose compressed form decompresses, the model's `pkToCurve` returns dalek's
`Q.to_montgomery()` = (Z + Y)/(Z − Y) -/
theorem pkToCurve_encode (Q : Point) (hdec : decodePointLax (encodePoint Q) ≠ none)
    (hZ : fmul Q.Z (finv Q.Z) = 1) :
    Model.Sign.pkToCurve (encodePoint Q) =
      .ok (toLE 32 (fmul (fadd Q.Z Q.Y) (finv (fsub Q.Z Q.Y)))) := by
  cases hd : decodePointLax (encodePoint Q) with
  | none => exact absurd hd hdec
  | some A =>
    rw [Proofs.KeyFormsExtra.pkToCurve_of_decode _ A hd, (decode_encode_Y Q A hd).1,
      mont_affine_eq_proj Q.Y Q.Z hZ]

/-! ### Fermat: `Z ≢ 0 (mod p)` makes `finv Z` an inverse -/

instance : Fact (Nat.Prime q) := ⟨Proofs.FieldPrime.p_prime⟩

theorem fmul_finv_cancel (Z : ℕ) (hZ : Z % q ≠ 0) : fmul Z (finv Z) = 1 := by
  apply eq_of_cast (fmul_lt _ _) (by decide)
  rw [cast_fmul, cast_finv, Nat.cast_one, ← pow_succ']
  have hne : (Z : F) ≠ 0 := by
    intro h
    rw [ZMod.natCast_eq_zero_iff] at h
    exact hZ (Nat.mod_eq_zero_of_dvd h)
  have h1 : q - 2 + 1 = q - 1 := by decide
  rw [h1]
  exact ZMod.pow_card_sub_one_eq_one hne

/-- `pkToCurve_encode` with the hypothesis on `Z` in its natural form -/
theorem pkToCurve_encode' (Q : Point) (hdec : decodePointLax (encodePoint Q) ≠ none)
    (hZ : Q.Z % q ≠ 0) :
    Model.Sign.pkToCurve (encodePoint Q) =
      .ok (toLE 32 (fmul (fadd Q.Z Q.Y) (finv (fsub Q.Z Q.Y)))) :=
  pkToCurve_encode Q hdec (fmul_finv_cancel Q.Z hZ)

end DryocVerif.Proofs.KeyFormsCode
