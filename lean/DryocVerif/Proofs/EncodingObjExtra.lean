import DryocVerif.Model.EncodingObj
import DryocVerif.Proofs.EncodingVecExtra
/-!
Round trips and honest negative statements for the serde objects of `Model/EncodingObj.lean` (`PwHash` / `Config`,
`Kdf`, kx `Session`) and for the JSON routes of `Model/Encoding.lean`.  Core only.
-/
namespace DryocVerif.Proofs.EncodingObjExtra
open DryocVerif DryocVerif.Model.Encoding DryocVerif.Model.EncodingVec DryocVerif.Model.EncodingObj
open DryocVerif.Proofs.EncodingVecExtra DryocVerif.Proofs.EncodingExtra

/-! ### the JSON routes -/

/-- a JSON ARRAY reaches `visit_seq` on both routes (text and `Value`) -/
theorem deJson_arr (de : Enc → Outcome Bytes) (r : Route) (es : Bytes) : deJson de r (.arr es) = de (.seq es) := by
  cases r <;> rfl

/-- a JSON STRING through the TEXT deserialiser reaches `visit_bytes` … -/
theorem deJson_text_str (de : Enc → Outcome Bytes) (s : Bytes) : deJson de .text (.str s) = de (.bytes s) := rfl

/-- … and through `serde_json::from_value` it reaches `visit_string`, which dryoc's visitors do not implement: an
error for EVERY container and every string, the right length included -/
theorem deJson_value_str_err (de : Enc → Outcome Bytes) (s : Bytes) : deJson de .value (.str s) = .err := rfl

/-- the two routes DIFFER on strings: a 32-character JSON string is a valid `StackByteArray<32>` for `from_str` and
an error for `from_value`; on arrays they agree -/
theorem json_routes (n : Nat) (s : Bytes) (h : s.length = n) :
    deJson (deFixed n) .text (.str s) = .ok s ∧ deJson (deFixed n) .value (.str s) = .err ∧
    deJson (deFixed n) .text (.arr s) = .ok s ∧ deJson (deFixed n) .value (.arr s) = .ok s ∧
    deJson deHeap .text (.str s) = .ok s ∧ deJson deHeap .value (.str s) = .err := by
  refine ⟨?_, rfl, ?_, ?_, ?_, rfl⟩
  · rw [deJson_text_str, deFixed_eq]; simp [Enc.payload, h]
  · rw [deJson_arr, deFixed_eq]; simp [Enc.payload, h]
  · rw [deJson_arr, deFixed_eq]; simp [Enc.payload, h]
  · rw [deJson_text_str, deHeap_eq]; rfl

/-! ### `Config`, `PwHash` -/

theorem deAlg_index (a : Alg) : deAlg a.index = .ok a := by cases a <;> rfl

theorem deAlg_ok_iff (i : Nat) (a : Alg) : deAlg i = .ok a ↔ i = a.index := by
  unfold deAlg
  by_cases h0 : i = 0
  · subst h0; cases a <;> simp [Alg.index]
  · by_cases h1 : i = 1
    · subst h1; cases a <;> simp [Alg.index]
    · rw [if_neg h0, if_neg h1]; cases a <;> simp [Alg.index, h0, h1]

theorem deU64_ok (v : Nat) (h : v < 2 ^ 64) : deU64 v = .ok v := by unfold deU64; rw [if_pos h]

theorem deU64_ok_iff (v w : Nat) : deU64 v = .ok w ↔ v < 2 ^ 64 ∧ w = v := by
  unfold deU64
  by_cases h : v < 2 ^ 64
  · rw [if_pos h]
    constructor
    · intro h1; cases h1; exact ⟨h, rfl⟩
    · intro h1; rw [h1.2]
  · rw [if_neg h]
    constructor
    · intro h1; cases h1
    · intro h1; exact absurd h1.1 h

theorem deU64_ne_panic (v : Nat) : deU64 v ≠ .panic := by
  unfold deU64; by_cases h : v < 2 ^ 64
  · rw [if_pos h]; intro h1; cases h1
  · rw [if_neg h]; intro h1; cases h1

theorem deAlg_ne_panic (i : Nat) : deAlg i ≠ .panic := by
  unfold deAlg
  by_cases h0 : i = 0
  · rw [if_pos h0]; intro h; cases h
  · rw [if_neg h0]
    by_cases h1 : i = 1
    · rw [if_pos h1]; intro h; cases h
    · rw [if_neg h1]; intro h; cases h

theorem andThen_ok_iff {α β : Type} (o : Outcome α) (f : α → Outcome β) (b : β) :
    Outcome.andThen o f = .ok b ↔ ∃ a, o = .ok a ∧ f a = .ok b := by
  cases o with
  | ok a => exact ⟨fun h => ⟨a, rfl, h⟩, fun ⟨a', h1, h2⟩ => by cases h1; exact h2⟩
  | err => exact ⟨fun h => (by cases h), fun ⟨_, h1, _⟩ => (by cases h1)⟩
  | panic => exact ⟨fun h => (by cases h), fun ⟨_, h1, _⟩ => (by cases h1)⟩

theorem andThen_ne_panic {α β : Type} (o : Outcome α) (f : α → Outcome β) (ho : o ≠ .panic)
    (hf : ∀ a, f a ≠ .panic) : Outcome.andThen o f ≠ .panic := by
  cases o with
  | ok a => exact hf a
  | err => intro h; cases h
  | panic => exact absurd rfl ho

theorem deConfig_serConfig (c : Config) (h : Config.inRange c) : deConfig (serConfig c) = .ok c := by
  obtain ⟨a, hl, ml, ol, sl⟩ := c
  obtain ⟨h1, h2, h3, h4⟩ := h
  simp only at h1 h2 h3 h4
  simp only [deConfig, serConfig, deAlg_index, deU64_ok _ h1, deU64_ok _ h2, deU64_ok _ h3, deU64_ok _ h4,
    Outcome.andThen]

/-- exact success condition of the derived `Deserialize for Config` -/
theorem deConfig_ok_iff (e : EncConfig) (c : Config) :
    deConfig e = .ok c ↔ e = serConfig c ∧ Config.inRange c := by
  constructor
  · intro h
    obtain ⟨ea, ehl, eml, eol, esl⟩ := e
    simp only [deConfig] at h
    obtain ⟨a, ha, h⟩ := (andThen_ok_iff _ _ _).1 h
    obtain ⟨hl, h1, h⟩ := (andThen_ok_iff _ _ _).1 h
    obtain ⟨ml, h2, h⟩ := (andThen_ok_iff _ _ _).1 h
    obtain ⟨ol, h3, h⟩ := (andThen_ok_iff _ _ _).1 h
    obtain ⟨sl, h4, h⟩ := (andThen_ok_iff _ _ _).1 h
    cases h
    obtain ⟨h1, rfl⟩ := (deU64_ok_iff _ _).1 h1
    obtain ⟨h2, rfl⟩ := (deU64_ok_iff _ _).1 h2
    obtain ⟨h3, rfl⟩ := (deU64_ok_iff _ _).1 h3
    obtain ⟨h4, rfl⟩ := (deU64_ok_iff _ _).1 h4
    have := (deAlg_ok_iff ea a).1 ha
    subst this
    exact ⟨rfl, h1, h2, h3, h4⟩
  · rintro ⟨he, hr⟩
    rw [he]; exact deConfig_serConfig _ hr

theorem deConfig_never_panics (e : EncConfig) : deConfig e ≠ .panic := by
  unfold deConfig
  refine andThen_ne_panic _ _ (deAlg_ne_panic _) fun _ => ?_
  refine andThen_ne_panic _ _ (deU64_ne_panic _) fun _ => ?_
  refine andThen_ne_panic _ _ (deU64_ne_panic _) fun _ => ?_
  refine andThen_ne_panic _ _ (deU64_ne_panic _) fun _ => ?_
  refine andThen_ne_panic _ _ (deU64_ne_panic _) fun _ => ?_
  intro h; cases h

/-- **`de ∘ ser = id` on a `PwHash<Hash, Salt>`**, for every kind of `Hash` / `Salt` container and both kinds of
format; `hash` and `salt` are variable-length fields: no length hypothesis -/
theorem dePwK_serPwK' (kH kS : Kind) (sd : Bool) (p : PwObj) (h : Config.inRange p.config) :
    dePwK kH kS sd (serPwK' kH kS sd p) = .ok p := by
  obtain ⟨hash, salt, c⟩ := p
  simp only at h
  simp [dePwK, serPwK', Outcome.andThen, deData_serField', deConfig_serConfig c h]

/-- the default `VecPwHash` -/
theorem dePw_serPw (sd : Bool) (p : PwObj) (h : Config.inRange p.config) : dePw sd (serPw sd p) = .ok p :=
  dePwK_serPwK' .vec .vec sd p h

/-- what a `VecPwHash` decoder accepts: any two element sequences and any in-range `Config` -/
theorem dePw_seq (sd : Bool) (hs ss : Bytes) (c : Config) (h : Config.inRange c) :
    dePw sd ⟨.seq hs, .seq ss, serConfig c⟩ = .ok ⟨hs, ss, c⟩ := by
  simp [dePw, dePwK, Outcome.andThen, deData, deVecFixed, deConfig_serConfig c h]

/-- **a decoded `Config` is NOT validated against the decoded `hash` / `salt`** (nor against anything else): there is
an encoding that decodes to an object whose `hash_length` differs from the length of its hash AND whose `salt_length`
differs from the length of its salt (here: a 3-byte hash and an empty salt under `hash_length = 32`,
`salt_length = 16`, zero `opslimit` and `memlimit`) -/
theorem dePw_accepts_inconsistent_config (sd : Bool) :
    ∃ (e : EncPw) (p : PwObj), dePw sd e = .ok p ∧ p.config.hashLength ≠ p.hash.length ∧
      p.config.saltLength ≠ p.salt.length ∧ p.config.opslimit = 0 ∧ p.config.memlimit = 0 :=
  ⟨⟨.seq [1, 2, 3], .seq [], ⟨1, 32, 0, 0, 16⟩⟩, ⟨[1, 2, 3], [], ⟨.argon2id13, 32, 0, 0, 16⟩⟩,
    by cases sd <;> decide, by decide, by decide, rfl, rfl⟩

/-- `from_parts` is the second way to build such an object: it examines nothing either -/
theorem pwFromParts_unchecked (hash salt : Bytes) (c : Config) :
    (pwFromParts hash salt c).hash = hash ∧ (pwFromParts hash salt c).salt = salt ∧
    (pwFromParts hash salt c).config = c := ⟨rfl, rfl, rfl⟩

/-! ### `Kdf`, `Session` -/

theorem deKdfK_serKdfK' (kK kC : Kind) (sd : Bool) (o : KdfObj) (h1 : kK ≠ .vec → o.mainKey.length = 32)
    (h2 : kC ≠ .vec → o.context.length = 8) : deKdfK kK kC sd (serKdfK' kK kC sd o) = .ok o := by
  obtain ⟨k, c⟩ := o
  simp only at h1 h2
  simp [deKdfK, serKdfK', Outcome.andThen, deField_serField' kK sd 32 k h1, deField_serField' kC sd 8 c h2]

theorem deKdf_serKdf (sd : Bool) (o : KdfObj) (h1 : o.mainKey.length = 32) (h2 : o.context.length = 8) :
    deKdf sd (serKdf sd o) = .ok o :=
  deKdfK_serKdfK' .typed .typed sd o (fun _ => h1) (fun _ => h2)

/-- the `Kdf` codec IS the pair codec at (32, 8) -/
theorem deKdfK_eq_dePairK (kK kC : Kind) (sd : Bool) (e : EncKdf) :
    deKdfK kK kC sd e = Outcome.andThen (dePairK kK kC sd 32 8 ⟨e.mainKey, e.context⟩) (fun p => .ok ⟨p.1, p.2⟩) := by
  simp only [deKdfK, dePairK, Outcome.andThen]
  cases deField kK sd 32 e.mainKey <;> try rfl
  cases deField kC sd 8 e.context <;> rfl

/-- exact success condition for typed containers, arbitrary field encodings -/
theorem deKdf_ok_iff (sd : Bool) (e : EncKdf) (o : KdfObj) :
    deKdf sd e = .ok o ↔ e.mainKey.payload.length = 32 ∧ e.context.payload.length = 8 ∧
      o = ⟨e.mainKey.payload, e.context.payload⟩ := by
  obtain ⟨x, y⟩ := e
  simp only [deKdf, deKdfK, deField, Outcome.andThen, deFixed_eq]
  by_cases hx : x.payload.length = 32 <;> by_cases hy : y.payload.length = 8 <;> simp [hx, hy]
  exact eq_comm

theorem deSessionK_serSessionK' (k : Kind) (sd : Bool) (o : SessionObj) (h1 : k ≠ .vec → o.rxKey.length = 32)
    (h2 : k ≠ .vec → o.txKey.length = 32) : deSessionK k sd (serSessionK' k sd o) = .ok o := by
  obtain ⟨rx, tx⟩ := o
  simp only at h1 h2
  simp [deSessionK, serSessionK', Outcome.andThen, deField_serField' k sd 32 rx h1, deField_serField' k sd 32 tx h2]

theorem deSession_serSession (sd : Bool) (o : SessionObj) (h1 : o.rxKey.length = 32) (h2 : o.txKey.length = 32) :
    deSession sd (serSession sd o) = .ok o :=
  deSessionK_serSessionK' .typed sd o (fun _ => h1) (fun _ => h2)

theorem deSession_ok_iff (sd : Bool) (e : EncSession) (o : SessionObj) :
    deSession sd e = .ok o ↔ e.rxKey.payload.length = 32 ∧ e.txKey.payload.length = 32 ∧
      o = ⟨e.rxKey.payload, e.txKey.payload⟩ := by
  obtain ⟨x, y⟩ := e
  simp only [deSession, deSessionK, deField, Outcome.andThen, deFixed_eq]
  by_cases hx : x.payload.length = 32 <;> by_cases hy : y.payload.length = 32 <;> simp [hx, hy]
  exact eq_comm

#print axioms json_routes
#print axioms deConfig_ok_iff
#print axioms deConfig_never_panics
#print axioms dePwK_serPwK'
#print axioms dePw_accepts_inconsistent_config
#print axioms deKdfK_serKdfK'
#print axioms deKdf_ok_iff
#print axioms deSessionK_serSessionK'
#print axioms deSession_ok_iff

end DryocVerif.Proofs.EncodingObjExtra
