import DryocVerif.Proofs.Inst
import DryocVerif.Proofs.Poly1305Main
import DryocVerif.Proofs.Blake2bMain
import DryocVerif.Spec.NaCl
/-
Strengthening lemmas for the secretbox / box / sealed-box model, for the instance the native driver
actually runs (`Model.boxPrims`: XSalsa20 / HSalsa20 / X25519 / BLAKE2b executable specs, dryoc's
Poly1305 *limb model* as authenticator):

* prefix law of the XSalsa20 key stream and independence of the one-time Poly1305 key from the message
  length (`boxPrims_stream_prefix`, `boxPrims_mackey`);
* the one-time key always has 32 bytes, hence `Model.Poly1305.mac = Spec.Poly1305.mac` on it
  (`boxPrims_mac_eq_spec`) — for EVERY nonce, no length hypothesis;
* `boxPrims` sealing = `Spec.NaCl`, `boxPrims` opening = `Spec.NaCl.*Open` on every input;
* acceptance of two inputs under one key/nonce is a Poly1305 collision under one one-time key.

Property theorems are re-exported in `Properties/C01.lean` and `Properties/C02.lean`.
-/
namespace DryocVerif.Proofs.SecretBoxExtra
open DryocVerif DryocVerif.Model DryocVerif.Model.SecretBox
open DryocVerif.Proofs.SecretBox DryocVerif.Proofs.Inst

/-! ### block-wise key streams: length and prefix law -/

/-- length of a stream cut out of constant-length blocks -/
theorem stream_length_of_block_gen (blk : Nat → Bytes) (c : Nat) (hb : ∀ i, (blk i).length = c)
    (len : Nat) :
    (((List.range ((len + 63) / 64)).flatMap blk).take len).length = min len (c * ((len + 63) / 64)) := by
  rw [List.length_take, length_flatMap_const _ c _ (fun i _ => hb i), List.length_range]

/-- prefix law: the first `l` bytes of the `l'`-byte stream are the `l`-byte stream, as soon as the blocks
needed for `l` bytes really contain `l` bytes -/
theorem stream_prefix_of_block (blk : Nat → Bytes) (c : Nat) (hb : ∀ i, (blk i).length = c)
    (l l' : Nat) (h : l ≤ l') (hc : l ≤ c * ((l + 63) / 64)) :
    (((List.range ((l' + 63) / 64)).flatMap blk).take l').take l
      = ((List.range ((l + 63) / 64)).flatMap blk).take l := by
  have hN : (l + 63) / 64 ≤ (l' + 63) / 64 := Nat.div_le_div_right (by omega)
  obtain ⟨d, hd⟩ := Nat.exists_eq_add_of_le hN
  rw [List.take_take, Nat.min_eq_left h, hd, List.range_add, List.flatMap_append]
  exact List.take_append_of_le_length
    (by rw [length_flatMap_const _ c _ (fun i _ => hb i), List.length_range]; exact hc)

namespace Salsa
open DryocVerif.Spec.Salsa20 DryocVerif.Proofs.Inst.Salsa

/-- length of a Salsa20 block for an arbitrary nonce (32-byte key): 64 bytes for a nonce of at least 8
bytes, between 56 and 64 otherwise -/
theorem block_length_gen (key nonce8 : Bytes) (ctr : Nat) (hk : 32 ≤ key.length) :
    (block key nonce8 ctr).length = 4 * ((59 + min 8 nonce8.length) / 4) := by
  simp only [block, expand, core_length, expandInput_length, List.length_append, List.length_take,
    toLE_length]
  omega

theorem stream_length_gen (key nonce8 : Bytes) (ctr len : Nat) (hk : 32 ≤ key.length) :
    (stream key nonce8 ctr len).length
      = min len (4 * ((59 + min 8 nonce8.length) / 4) * ((len + 63) / 64)) :=
  stream_length_of_block_gen _ _ (fun i => block_length_gen key nonce8 (ctr + i) hk) len

theorem stream_prefix_gen (key nonce8 : Bytes) (ctr l l' : Nat) (hk : 32 ≤ key.length) (h : l ≤ l')
    (hc : l ≤ 4 * ((59 + min 8 nonce8.length) / 4) * ((l + 63) / 64)) :
    (stream key nonce8 ctr l').take l = stream key nonce8 ctr l :=
  stream_prefix_of_block _ _ (fun i => block_length_gen key nonce8 (ctr + i) hk) l l' h hc

/-- XSalsa20 prefix law (24-byte nonce): a longer request only appends bytes -/
theorem xsalsa20Stream_prefix (key nonce24 : Bytes) (ic l l' : Nat) (hn : 24 ≤ nonce24.length)
    (h : l ≤ l') :
    (xsalsa20Stream key nonce24 ic l').take l = xsalsa20Stream key nonce24 ic l := by
  refine stream_prefix_gen _ _ ic l l' (by rw [hsalsa20_length]) h ?_
  have : ((nonce24.drop 16).take 8).length = 8 := by
    simp only [List.length_take, List.length_drop]; omega
  rw [this]
  show l ≤ 64 * ((l + 63) / 64)
  omega

/-- … and for an ARBITRARY nonce as long as no more than 56 bytes are compared (every block has at least
56 bytes) -/
theorem xsalsa20Stream_prefix_short (key nonce24 : Bytes) (ic l l' : Nat) (h : l ≤ l') (h56 : l ≤ 56) :
    (xsalsa20Stream key nonce24 ic l').take l = xsalsa20Stream key nonce24 ic l := by
  refine stream_prefix_gen _ _ ic l l' (by rw [hsalsa20_length]) h ?_
  generalize ((nonce24.drop 16).take 8).length = j
  by_cases h0 : l = 0
  · omega
  · have h1 : 1 ≤ (l + 63) / 64 := by omega
    have h2 : 56 ≤ 4 * ((59 + min 8 j) / 4) := by omega
    calc l ≤ 56 * 1 := by omega
      _ ≤ 4 * ((59 + min 8 j) / 4) * ((l + 63) / 64) := Nat.mul_le_mul h2 h1

theorem xsalsa20Stream_length_gen (key nonce24 : Bytes) (ic len : Nat) :
    (xsalsa20Stream key nonce24 ic len).length
      = min len (4 * ((59 + min 8 ((nonce24.drop 16).take 8).length) / 4) * ((len + 63) / 64)) :=
  stream_length_gen _ _ ic len (by rw [hsalsa20_length])

/-- up to 56 bytes are always delivered in full, whatever the nonce -/
theorem xsalsa20Stream_length_short (key nonce24 : Bytes) (ic len : Nat) (h56 : len ≤ 56) :
    (xsalsa20Stream key nonce24 ic len).length = len := by
  rw [xsalsa20Stream_length_gen]
  generalize ((nonce24.drop 16).take 8).length = j
  by_cases h0 : len = 0
  · omega
  · have h1 : 1 ≤ (len + 63) / 64 := by omega
    have h2 : 56 ≤ 4 * ((59 + min 8 j) / 4) := by omega
    have : len ≤ 4 * ((59 + min 8 j) / 4) * ((len + 63) / 64) :=
      calc len ≤ 56 * 1 := by omega
        _ ≤ _ := Nat.mul_le_mul h2 h1
    omega

end Salsa

/-! ### the driver's key stream -/

/-- **Prefix law** of the key stream the driver runs -/
theorem boxPrims_stream_prefix (k n : Bytes) (hn : 24 ≤ n.length) (l l' : Nat) (h : l ≤ l') :
    (boxPrims.stream k n l').take l = boxPrims.stream k n l :=
  Salsa.xsalsa20Stream_prefix k n 0 l l' hn h

theorem boxPrims_stream_prefix_short (k n : Bytes) (l l' : Nat) (h : l ≤ l') (h56 : l ≤ 56) :
    (boxPrims.stream k n l').take l = boxPrims.stream k n l :=
  Salsa.xsalsa20Stream_prefix_short k n 0 l l' h h56

/-- the one-time authenticator key is the 32-byte key stream, whatever the message length (every nonce) -/
theorem boxPrims_mackey (k n : Bytes) (l : Nat) :
    (boxPrims.stream k n (32 + l)).take 32 = boxPrims.stream k n 32 :=
  boxPrims_stream_prefix_short k n 32 (32 + l) (by omega) (by omega)

theorem boxPrims_mackey_length (k n : Bytes) : (boxPrims.stream k n 32).length = 32 :=
  Salsa.xsalsa20Stream_length_short k n 0 32 (by omega)

theorem boxPrims_mackey_indep (k n : Bytes) (l l' : Nat) :
    (boxPrims.stream k n (32 + l)).take 32 = (boxPrims.stream k n (32 + l')).take 32 := by
  rw [boxPrims_mackey, boxPrims_mackey]

/-- without the 24-byte nonce the prefix law fails beyond 56 bytes: under an empty nonce blocks have 56
bytes, the 64-byte request returns 56 bytes but the first 64 bytes of the 128-byte request are 64 bytes -/
theorem boxPrims_stream_prefix_needs_nonce :
    (boxPrims.stream [] [] 128).take 64 ≠ boxPrims.stream [] [] 64 := by
  intro h
  have h1 := congrArg List.length h
  rw [List.length_take] at h1
  have e1 : (boxPrims.stream [] [] 128).length = 112 := by
    show (Spec.Salsa20.xsalsa20Stream [] [] 0 128).length = 112
    rw [Salsa.xsalsa20Stream_length_gen]; rfl
  rw [e1, boxPrims_stream_short] at h1
  omega

/-! ### the driver's authenticator on the one-time key is RFC 8439 Poly1305 -/

theorem boxPrims_mac_eq_spec (k n : Bytes) (l : Nat) (msg : Bytes) :
    boxPrims.mac ((boxPrims.stream k n (32 + l)).take 32) msg
      = Spec.Poly1305.mac ((Spec.Salsa20.xsalsa20Stream k n 0 (32 + l)).take 32) msg :=
  Proofs.Poly1305.mac_model_eq_spec _ msg (by rw [boxPrims_mackey, boxPrims_mackey_length])

/-! ### sealing with the driver's primitives is the NaCl construction -/

/-- the NaCl secretbox in the model's vocabulary -/
theorem secretbox_eq (k n m : Bytes) :
    Spec.NaCl.secretbox k n m = sealTag boxPrims k n m ++ cryptXor boxPrims k n m := by
  show Spec.Poly1305.mac ((Spec.Salsa20.xsalsa20Stream k n 0 (32 + m.length)).take 32)
        (cryptXor boxPrims k n m) ++ cryptXor boxPrims k n m = _
  rw [← boxPrims_mac_eq_spec]
  rfl

theorem sealTag_boxPrims_length (k n m : Bytes) : (sealTag boxPrims k n m).length = 16 :=
  boxPrims_mac_length _ _

theorem secretbox_take (k n m : Bytes) : (Spec.NaCl.secretbox k n m).take 16 = sealTag boxPrims k n m := by
  rw [secretbox_eq]; exact List.take_left' (sealTag_boxPrims_length k n m)

theorem secretbox_drop (k n m : Bytes) : (Spec.NaCl.secretbox k n m).drop 16 = cryptXor boxPrims k n m := by
  rw [secretbox_eq]; exact List.drop_left' (sealTag_boxPrims_length k n m)

theorem beforenm_boxPrims (pk sk : Bytes) : beforenm boxPrims pk sk = Spec.NaCl.beforenm pk sk := rfl

theorem sealNonce_boxPrims (epk rpk : Bytes) : sealNonce boxPrims epk rpk = Spec.NaCl.sealNonce epk rpk := rfl

theorem sealNonce_boxPrims_length (epk rpk : Bytes) : (sealNonce boxPrims epk rpk).length = 24 :=
  Proofs.Blake2b.spec_hash_length 24 [] _ (by omega)

theorem easy_boxPrims (ct0 m n k : Bytes) (h : ct0.length = m.length + 16) :
    easy boxPrims ct0 m n k = .ok (Spec.NaCl.secretbox k n m) := by
  rw [easy_eq boxPrims ct0 m n k h, secretbox_eq]

theorem easyInplace_boxPrims (m t n k : Bytes) (ht : t.length = 16) :
    easyInplace boxPrims (m ++ t) n k = .ok (Spec.NaCl.secretbox k n m) := by
  rw [easyInplace_eq boxPrims m t n k ht, secretbox_eq]

theorem detached_boxPrims (ct0 m n k : Bytes) (h : ct0.length = m.length) :
    detached boxPrims ct0 m n k
      = .ok ((Spec.NaCl.secretbox k n m).drop 16, (Spec.NaCl.secretbox k n m).take 16) := by
  rw [detached_eq boxPrims ct0 m n k h, secretbox_take, secretbox_drop]

theorem detachedInplace_boxPrims (m n k : Bytes) :
    detachedInplace boxPrims m n k
      = ((Spec.NaCl.secretbox k n m).drop 16, (Spec.NaCl.secretbox k n m).take 16) := by
  rw [detachedInplace_eq, secretbox_take, secretbox_drop]

theorem objEncrypt_boxPrims (m n k : Bytes) :
    objEncrypt boxPrims m n k
      = .ok ⟨none, (Spec.NaCl.secretbox k n m).take 16, (Spec.NaCl.secretbox k n m).drop 16⟩ := by
  rw [objEncrypt_eq, secretbox_take, secretbox_drop]

theorem boxEasy_boxPrims (ct0 m n pk sk : Bytes) (h : ct0.length = m.length + 16) :
    boxEasy boxPrims ct0 m n pk sk = .ok (Spec.NaCl.box pk sk n m) := by
  rw [boxEasy_eq_easy boxPrims ct0 m n pk sk (by omega), easy_boxPrims _ _ _ _ h]
  rfl

theorem boxEasyInplace_boxPrims (m t n pk sk : Bytes) (ht : t.length = 16) :
    boxEasyInplace boxPrims (m ++ t) n pk sk = .ok (Spec.NaCl.box pk sk n m) := by
  rw [boxEasyInplace_eq_easyInplace boxPrims _ n pk sk (by rw [List.length_append]; omega),
    easyInplace_boxPrims _ _ _ _ ht]
  rfl

theorem boxDetached_boxPrims (ct0 m n pk sk : Bytes) (h : ct0.length = m.length) :
    boxDetached boxPrims ct0 m n pk sk
      = .ok ((Spec.NaCl.box pk sk n m).drop 16, (Spec.NaCl.box pk sk n m).take 16) :=
  detached_boxPrims ct0 m n _ h

theorem boxSeal_boxPrims (ct0 m rpk esk : Bytes) (h : ct0.length = m.length + 48) :
    boxSeal boxPrims ct0 m rpk esk = .ok (Spec.NaCl.boxSeal rpk esk m) := by
  rw [boxSeal_eq boxPrims ct0 m rpk esk h, ← secretbox_eq]
  rfl

theorem objSeal_boxPrims (m rpk esk : Bytes) :
    ∃ b, objSeal boxPrims m rpk esk = .ok b ∧ toBytes b = Spec.NaCl.boxSeal rpk esk m := by
  refine ⟨_, objSeal_eq boxPrims m rpk esk, ?_⟩
  show _ ++ _ ++ _ = _
  rw [List.append_assoc, ← secretbox_eq]
  rfl

/-! ### opening with the driver's primitives is the NaCl opening, on every input -/

/-- the NaCl secretbox opening in the model's vocabulary -/
theorem secretboxOpen_eq (k n ct : Bytes) :
    Spec.NaCl.secretboxOpen k n ct
      = if ct.length < 16 then none
        else if ct.take 16 = expectedTag boxPrims k n (ct.drop 16)
          then some (cryptXor boxPrims k n (ct.drop 16)) else none := by
  unfold Spec.NaCl.secretboxOpen
  by_cases h1 : ct.length < 16
  · rw [if_pos h1, if_pos h1]
  · rw [if_neg h1, if_neg h1]
    have e : expectedTag boxPrims k n (ct.drop 16)
        = Spec.Poly1305.mac ((Spec.Salsa20.xsalsa20Stream k n 0 (32 + (ct.drop 16).length)).take 32)
            (ct.drop 16) := boxPrims_mac_eq_spec k n _ _
    rw [e]
    by_cases h2 : ct.take 16
        = Spec.Poly1305.mac ((Spec.Salsa20.xsalsa20Stream k n 0 (32 + (ct.drop 16).length)).take 32)
            (ct.drop 16)
    · rw [if_pos h2]; simp only []; rw [if_pos h2.symm]; rfl
    · rw [if_neg h2]; simp only []; rw [if_neg (fun h => h2 h.symm)]

/-- **complete decision of `crypto_secretbox_open_easy`** against the specification -/
theorem openEasy_boxPrims (buf ct n k : Bytes) :
    openEasy boxPrims buf ct n k
      = if 16 ≤ ct.length ∧ buf.length < ct.length - 16 then ⟨.panic, buf⟩
        else match Spec.NaCl.secretboxOpen k n ct with
          | some m => ⟨.ok (), m ++ buf.drop (ct.length - 16)⟩
          | none => ⟨.err, buf⟩ := by
  rw [openEasy_eq, secretboxOpen_eq]
  by_cases hp : 16 ≤ ct.length ∧ buf.length < ct.length - 16
  · rw [if_pos hp, if_neg (show ¬ ct.length < 16 by omega), if_pos hp.2]
  · rw [if_neg hp]
    by_cases h1 : ct.length < 16
    · rw [if_pos h1, if_pos h1]
    · rw [if_neg h1, if_neg h1, if_neg (show ¬ buf.length < ct.length - 16 by omega)]
      split <;> rfl

theorem openEasyInplace_boxPrims (ct n k : Bytes) :
    openEasyInplace boxPrims ct n k
      = match Spec.NaCl.secretboxOpen k n ct with
        | some m => ⟨.ok (), m ++ ct.take 16⟩
        | none => ⟨.err, ct⟩ := by
  rw [openEasyInplace_eq, secretboxOpen_eq]
  by_cases h1 : ct.length < 16
  · simp only [h1, if_true]
  · simp only [h1, if_false]
    by_cases h3 : ct.take 16 = expectedTag boxPrims k n (ct.drop 16)
    · simp only [h3, if_true]
    · simp only [h3, if_false]

theorem openDetached_boxPrims (buf tag c n k : Bytes) (ht : tag.length = 16) :
    openDetached boxPrims buf tag c n k
      = if buf.length < c.length then ⟨.panic, buf⟩
        else match Spec.NaCl.secretboxOpen k n (tag ++ c) with
          | some m => ⟨.ok (), m ++ buf.drop c.length⟩
          | none => ⟨.err, buf⟩ := by
  obtain ⟨h1, h2, h3⟩ := combined_parts (c := c) ht
  have h4 : ¬ (tag ++ c).length < 16 := by omega
  rw [openDetached_eq, secretboxOpen_eq, h1, h2, if_neg h4]
  by_cases h5 : buf.length < c.length
  · simp only [h5, if_true]
  · simp only [h5, if_false]
    by_cases h6 : tag = expectedTag boxPrims k n c
    · simp only [← h6, if_true]
    · simp only [h6, if_false]

theorem openDetachedInplace_boxPrims (d tag n k : Bytes) (ht : tag.length = 16) :
    openDetachedInplace boxPrims d tag n k
      = match Spec.NaCl.secretboxOpen k n (tag ++ d) with
        | some m => ⟨.ok (), m⟩
        | none => ⟨.err, d⟩ := by
  obtain ⟨h1, h2, h3⟩ := combined_parts (c := d) ht
  have h4 : ¬ (tag ++ d).length < 16 := by omega
  rw [openDetachedInplace_eq, secretboxOpen_eq, h1, h2, if_neg h4]
  by_cases h6 : tag = expectedTag boxPrims k n d
  · simp only [← h6, if_true]
  · simp only [h6, if_false]

theorem objDecrypt_boxPrims (b : Box) (n k : Bytes) (ht : b.tag.length = 16) :
    objDecrypt boxPrims b n k
      = match Spec.NaCl.secretboxOpen k n (b.tag ++ b.data) with
        | some m => .ok m
        | none => .err := by
  obtain ⟨h1, h2, h3⟩ := combined_parts (c := b.data) ht
  have h4 : ¬ (b.tag ++ b.data).length < 16 := by omega
  rw [objDecrypt_eq, secretboxOpen_eq, h1, h2, if_neg h4]
  by_cases h6 : b.tag = expectedTag boxPrims k n b.data
  · simp only [← h6, if_true]
  · simp only [h6, if_false]

theorem boxOpenEasy_boxPrims (buf ct n pk sk : Bytes) :
    boxOpenEasy boxPrims buf ct n pk sk
      = if 16 ≤ ct.length ∧ buf.length < ct.length - 16 then ⟨.panic, buf⟩
        else match Spec.NaCl.boxOpen pk sk n ct with
          | some m => ⟨.ok (), m ++ buf.drop (ct.length - 16)⟩
          | none => ⟨.err, buf⟩ :=
  openEasy_boxPrims buf ct n _

theorem boxOpenEasyInplace_boxPrims (ct n pk sk : Bytes) :
    boxOpenEasyInplace boxPrims ct n pk sk
      = match Spec.NaCl.boxOpen pk sk n ct with
        | some m => ⟨.ok (), m ++ ct.take 16⟩
        | none => ⟨.err, ct⟩ :=
  openEasyInplace_boxPrims ct n _

theorem boxOpenDetached_boxPrims (buf tag c n pk sk : Bytes) (ht : tag.length = 16) :
    boxOpenDetached boxPrims buf tag c n pk sk
      = if buf.length < c.length then ⟨.panic, buf⟩
        else match Spec.NaCl.boxOpen pk sk n (tag ++ c) with
          | some m => ⟨.ok (), m ++ buf.drop c.length⟩
          | none => ⟨.err, buf⟩ :=
  openDetached_boxPrims buf tag c n _ ht

theorem objBoxDecrypt_boxPrims (b : Box) (n pk sk : Bytes) (ht : b.tag.length = 16) :
    objBoxDecrypt boxPrims b n pk sk
      = match Spec.NaCl.boxOpen pk sk n (b.tag ++ b.data) with
        | some m => .ok m
        | none => .err :=
  objDecrypt_boxPrims b n _ ht

/-- **complete decision of `crypto_box_seal_open`** against the specification -/
theorem sealOpen_boxPrims (buf ct rpk rsk : Bytes) :
    sealOpen boxPrims buf ct rpk rsk
      = if buf.length ≠ ct.length - 48 then ⟨.err, buf⟩
        else match Spec.NaCl.sealOpen rpk rsk ct with
          | some m => ⟨.ok (), m⟩
          | none => ⟨.err, buf⟩ := by
  have hs : Spec.NaCl.sealOpen rpk rsk ct
      = if ct.length < 48 then none
        else if (ct.drop 32).take 16
            = expectedTag boxPrims (beforenm boxPrims (ct.take 32) rsk) (sealNonce boxPrims (ct.take 32) rpk)
                (ct.drop 48)
          then some (cryptXor boxPrims (beforenm boxPrims (ct.take 32) rsk)
                (sealNonce boxPrims (ct.take 32) rpk) (ct.drop 48))
          else none := by
    unfold Spec.NaCl.sealOpen
    by_cases h1 : ct.length < 48
    · rw [if_pos h1, if_pos h1]
    · rw [if_neg h1, if_neg h1]
      show Spec.NaCl.secretboxOpen (beforenm boxPrims (ct.take 32) rsk)
        (sealNonce boxPrims (ct.take 32) rpk) (ct.drop 32) = _
      rw [secretboxOpen_eq, if_neg (by rw [List.length_drop]; omega), List.drop_drop]
  rw [sealOpen_eq, hs]
  by_cases h2 : buf.length ≠ ct.length - 48
  · rw [if_pos h2, if_pos h2]
    split <;> rfl
  · rw [if_neg h2, if_neg h2]
    by_cases h1 : ct.length < 48
    · rw [if_pos h1, if_pos h1]
    · rw [if_neg h1, if_neg h1]
      split <;> rfl

theorem objUnseal_boxPrims (b : Box) (epk rpk rsk : Bytes) (he : b.epk = some epk) (hel : epk.length = 32)
    (ht : b.tag.length = 16) :
    objUnseal boxPrims b rpk rsk
      = match Spec.NaCl.sealOpen rpk rsk (toBytes b) with
        | some m => .ok m
        | none => .err := by
  have h1 : toBytes b = epk ++ (b.tag ++ b.data) := by
    simp only [toBytes, he, List.append_assoc]
  have h2 : ¬ (epk ++ (b.tag ++ b.data)).length < 48 := by
    simp only [List.length_append]; omega
  unfold objUnseal Spec.NaCl.sealOpen
  rw [he, h1, if_neg h2, List.take_left' hel, List.drop_left' hel]
  exact objBoxDecrypt_boxPrims b _ epk rsk ht

/-! ### iff forms -/

theorem openEasy_boxPrims_iff (buf ct n k m : Bytes) (hbuf : buf.length = ct.length - 16) :
    openEasy boxPrims buf ct n k = ⟨.ok (), m⟩ ↔ Spec.NaCl.secretboxOpen k n ct = some m := by
  rw [openEasy_boxPrims, if_neg (show ¬ (16 ≤ ct.length ∧ buf.length < ct.length - 16) by omega),
    drop_length_eq_nil hbuf]
  cases Spec.NaCl.secretboxOpen k n ct with
  | none => simp
  | some x => simp

theorem openEasy_boxPrims_accepts_iff (buf ct n k : Bytes) :
    (openEasy boxPrims buf ct n k).res = .ok () ↔
      ct.length - 16 ≤ buf.length ∧ (Spec.NaCl.secretboxOpen k n ct).isSome := by
  rw [openEasy_boxPrims]
  by_cases hp : 16 ≤ ct.length ∧ buf.length < ct.length - 16
  · rw [if_pos hp]
    constructor
    · intro h; cases h
    · intro h; omega
  · rw [if_neg hp]
    have hs : Spec.NaCl.secretboxOpen k n ct = none ∨ ct.length - 16 ≤ buf.length := by
      by_cases h1 : ct.length < 16
      · left; unfold Spec.NaCl.secretboxOpen; rw [if_pos h1]
      · right; omega
    cases hso : Spec.NaCl.secretboxOpen k n ct with
    | none => simp
    | some x =>
      rw [hso] at hs
      simpa using hs

theorem openEasy_boxPrims_err_iff (buf ct n k : Bytes) :
    (openEasy boxPrims buf ct n k).res = .err ↔
      (ct.length < 16 ∨ ct.length - 16 ≤ buf.length) ∧ Spec.NaCl.secretboxOpen k n ct = none := by
  rw [openEasy_boxPrims]
  by_cases hp : 16 ≤ ct.length ∧ buf.length < ct.length - 16
  · rw [if_pos hp]
    constructor
    · intro h; cases h
    · intro h; omega
  · rw [if_neg hp]
    have : ct.length < 16 ∨ ct.length - 16 ≤ buf.length := by omega
    cases Spec.NaCl.secretboxOpen k n ct with
    | none => simpa using this
    | some x => simp

theorem boxOpenEasy_boxPrims_iff (buf ct n pk sk m : Bytes) (hbuf : buf.length = ct.length - 16) :
    boxOpenEasy boxPrims buf ct n pk sk = ⟨.ok (), m⟩ ↔ Spec.NaCl.boxOpen pk sk n ct = some m :=
  openEasy_boxPrims_iff buf ct n _ m hbuf

theorem boxOpenEasy_boxPrims_accepts_iff (buf ct n pk sk : Bytes) :
    (boxOpenEasy boxPrims buf ct n pk sk).res = .ok () ↔
      ct.length - 16 ≤ buf.length ∧ (Spec.NaCl.boxOpen pk sk n ct).isSome :=
  openEasy_boxPrims_accepts_iff buf ct n _

theorem sealOpen_boxPrims_iff (buf ct rpk rsk m : Bytes) :
    sealOpen boxPrims buf ct rpk rsk = ⟨.ok (), m⟩ ↔
      buf.length = ct.length - 48 ∧ Spec.NaCl.sealOpen rpk rsk ct = some m := by
  rw [sealOpen_boxPrims]
  by_cases h : buf.length ≠ ct.length - 48
  · rw [if_pos h]
    constructor
    · intro h'; cases h'
    · intro h'; exact absurd h'.1 h
  · rw [if_neg h]
    have h' : buf.length = ct.length - 48 := by omega
    cases Spec.NaCl.sealOpen rpk rsk ct with
    | none => simp
    | some x => simp [h']

theorem sealOpen_boxPrims_accepts_iff (buf ct rpk rsk : Bytes) :
    (sealOpen boxPrims buf ct rpk rsk).res = .ok () ↔
      buf.length = ct.length - 48 ∧ (Spec.NaCl.sealOpen rpk rsk ct).isSome := by
  rw [sealOpen_boxPrims]
  by_cases h : buf.length ≠ ct.length - 48
  · rw [if_pos h]
    constructor
    · intro h'; cases h'
    · intro h'; exact absurd h'.1 h
  · rw [if_neg h]
    have h' : buf.length = ct.length - 48 := by omega
    cases Spec.NaCl.sealOpen rpk rsk ct with
    | none => simp
    | some x => simp [h']

/-! ### the expected authenticator with the driver's primitives: RFC 8439 Poly1305 under the 32-byte
XSalsa20 key stream, a key that does not depend on the ciphertext -/

theorem expectedTag_boxPrims (k n c : Bytes) :
    expectedTag boxPrims k n c = Spec.Poly1305.mac (Spec.Salsa20.xsalsa20Stream k n 0 32) c := by
  rw [expectedTag_def, boxPrims_mackey]
  exact Proofs.Poly1305.mac_model_eq_spec _ c (boxPrims_mackey_length k n)

end DryocVerif.Proofs.SecretBoxExtra
