import DryocVerif.Gen.Core
import DryocVerif.Model.Core
/-
The machine-generated `Gen.Core.crypto_core_hchacha20` / `crypto_core_hsalsa20` (from
/repo/src/classic/crypto_core.rs, `Nat` arithmetic, tuple loop state, `setSlice` output writes) equal the hand
models `Model.Core.hchacha20` / `hsalsa20` (`UInt32` arithmetic, `X16` state, concatenated output).  Core only.
-/
namespace DryocVerif.Proofs.GenCore
open DryocVerif DryocVerif.Gen
open DryocVerif.Model.Core
open DryocVerif.Model.Utils (slice)

/-! ### word operations: `Nat` (generated) versus `UInt32` (model) -/

theorem add32 (a b : UInt32) : (a.toNat + b.toNat) % U32 = (a + b).toNat :=
  (UInt32.toNat_add a b).symm

theorem xor32 (a b : UInt32) : a.toNat ^^^ b.toNat = (a ^^^ b).toNat :=
  (UInt32.toNat_xor a b).symm

/-- `u32::rotate_left(r)` as the translator spells it, `0 < r < 32` -/
theorem rot32 (x : UInt32) (r : Nat) (h0 : 0 < r) (hr : r < 32) :
    ((x.toNat <<< r) ||| (x.toNat >>> (32 - r))) % U32 = (rotateLeft32 x (UInt32.ofNat r)).toNat := by
  have h1 : (UInt32.ofNat r).toNat % 32 = r := by
    rw [UInt32.toNat_ofNat']; omega
  have h2 : (32 - UInt32.ofNat r).toNat % 32 = 32 - r := by
    rw [UInt32.toNat_sub, UInt32.toNat_ofNat']
    have : (32 : UInt32).toNat = 32 := rfl
    rw [this]; omega
  have h3 : (x.toNat >>> (32 - r)) % 2 ^ 32 = x.toNat >>> (32 - r) :=
    Nat.mod_eq_of_lt (Nat.lt_of_le_of_lt (Nat.shiftRight_le _ _) x.toNat_lt)
  simp only [rotateLeft32, UInt32.toNat_or, UInt32.toNat_shiftLeft, UInt32.toNat_shiftRight, h1, h2, U32,
    Nat.or_mod_two_pow, h3]

theorem rot32_16 (x : UInt32) :
    ((x.toNat <<< 16) ||| (x.toNat >>> (32 - 16))) % U32 = (rotateLeft32 x 16).toNat :=
  rot32 x 16 (by decide) (by decide)
theorem rot32_12 (x : UInt32) :
    ((x.toNat <<< 12) ||| (x.toNat >>> (32 - 12))) % U32 = (rotateLeft32 x 12).toNat :=
  rot32 x 12 (by decide) (by decide)
theorem rot32_8 (x : UInt32) :
    ((x.toNat <<< 8) ||| (x.toNat >>> (32 - 8))) % U32 = (rotateLeft32 x 8).toNat :=
  rot32 x 8 (by decide) (by decide)
theorem rot32_7 (x : UInt32) :
    ((x.toNat <<< 7) ||| (x.toNat >>> (32 - 7))) % U32 = (rotateLeft32 x 7).toNat :=
  rot32 x 7 (by decide) (by decide)

/-- `salsa20_rotl32(x, y, rot)` -/
theorem salsa_rotl (x y : UInt32) (r : Nat) (h0 : 0 < r) (hr : r < 32) :
    Gen.Core.salsa20_rotl32 x.toNat y.toNat r = (salsa20Rotl32 x y (UInt32.ofNat r)).toNat := by
  unfold Gen.Core.salsa20_rotl32 salsa20Rotl32
  rw [add32, rot32 _ r h0 hr]

theorem salsa_rotl_7 (x y : UInt32) :
    Gen.Core.salsa20_rotl32 x.toNat y.toNat 7 = (salsa20Rotl32 x y 7).toNat :=
  salsa_rotl x y 7 (by decide) (by decide)
theorem salsa_rotl_9 (x y : UInt32) :
    Gen.Core.salsa20_rotl32 x.toNat y.toNat 9 = (salsa20Rotl32 x y 9).toNat :=
  salsa_rotl x y 9 (by decide) (by decide)
theorem salsa_rotl_13 (x y : UInt32) :
    Gen.Core.salsa20_rotl32 x.toNat y.toNat 13 = (salsa20Rotl32 x y 13).toNat :=
  salsa_rotl x y 13 (by decide) (by decide)
theorem salsa_rotl_18 (x y : UInt32) :
    Gen.Core.salsa20_rotl32 x.toNat y.toNat 18 = (salsa20Rotl32 x y 18).toNat :=
  salsa_rotl x y 18 (by decide) (by decide)

/-! ### loads, slices, constants -/

theorem load_u32_eq (bs : Bytes) : Gen.Utils.load_u32_le bs = (loadU32LE bs).toNat := by
  simp only [Gen.Utils.load_u32_le, loadU32LE, byteAt, UInt32.toNat_or, UInt32.toNat_shiftLeft,
    UInt8.toNat_toUInt32, U32]
  rfl

/-- the translator's `(s.drop a).take n` is the model's `s[a..a+n]` -/
theorem take_drop_eq_slice (bs : Bytes) (a n : Nat) : (bs.drop a).take n = slice bs a (a + n) := by
  unfold slice; exact List.take_drop

/-- the `Nat` image of a constants tuple -/
def toN4 (c : UInt32 × UInt32 × UInt32 × UInt32) : Nat × Nat × Nat × Nat :=
  (c.1.toNat, c.2.1.toNat, c.2.2.1.toNat, c.2.2.2.toNat)

theorem consts_eq (c : Option (UInt32 × UInt32 × UInt32 × UInt32)) :
    (c.map toN4).getD (1634760805, 857760878, 2036477234, 1797285236) = toN4 (constantsOrDefault c) := by
  cases c <;> rfl

/-! ### the loop: `(List.range' 0 n).foldl (fun x _ => f x)` iterates `f` -/

theorem repeat_comm {β : Type} (g : β → β) : ∀ (n : Nat) (s : β),
    Nat.repeat g n (g s) = g (Nat.repeat g n s) := by
  intro n
  induction n with
  | zero => intro s; rfl
  | succ n ih => intro s; show g (Nat.repeat g n (g s)) = g (g (Nat.repeat g n s)); rw [ih]

theorem foldl_range'_repeat {α β : Type} (R : β → α) (g : β → β) (F : α → Nat → α)
    (h : ∀ s i, F (R s) i = R (g s)) : ∀ (n a : Nat) (s : β),
    (List.range' a n).foldl F (R s) = R (Nat.repeat g n s) := by
  intro n
  induction n with
  | zero => intro a s; rfl
  | succ n ih =>
    intro a s
    rw [List.range'_succ, List.foldl_cons, h, ih, repeat_comm]
    rfl

/-! ### the eight output writes -/

theorem setSlice_append (p v r : Bytes) (off : Nat) (hoff : p.length = off) :
    setSlice (p ++ r) off v = (p ++ v) ++ r.drop v.length := by
  subst hoff
  unfold setSlice
  rw [List.take_left' rfl, List.drop_length_add_append]

theorem write8 (out w0 w1 w2 w3 w4 w5 w6 w7 : Bytes) (hout : out.length = 32)
    (h0 : w0.length = 4) (h1 : w1.length = 4) (h2 : w2.length = 4) (h3 : w3.length = 4)
    (h4 : w4.length = 4) (h5 : w5.length = 4) (h6 : w6.length = 4) (h7 : w7.length = 4) :
    setSlice (setSlice (setSlice (setSlice (setSlice (setSlice (setSlice (setSlice out
      0 w0) 4 w1) 8 w2) 12 w3) 16 w4) 20 w5) 24 w6) 28 w7
    = w0 ++ w1 ++ w2 ++ w3 ++ w4 ++ w5 ++ w6 ++ w7 := by
  have e0 : setSlice out 0 w0 = w0 ++ out.drop w0.length := by
    simpa using setSlice_append [] w0 out 0 rfl
  rw [e0,
    setSlice_append w0 w1 _ 4 h0,
    setSlice_append _ w2 _ 8 (by simp only [List.length_append, h0, h1]),
    setSlice_append _ w3 _ 12 (by simp only [List.length_append, h0, h1, h2]),
    setSlice_append _ w4 _ 16 (by simp only [List.length_append, h0, h1, h2, h3]),
    setSlice_append _ w5 _ 20 (by simp only [List.length_append, h0, h1, h2, h3, h4]),
    setSlice_append _ w6 _ 24 (by simp only [List.length_append, h0, h1, h2, h3, h4, h5]),
    setSlice_append _ w7 _ 28 (by simp only [List.length_append, h0, h1, h2, h3, h4, h5, h6])]
  simp only [List.drop_drop, h0, h1, h2, h3, h4, h5, h6, h7]
  rw [List.drop_eq_nil_of_le (by omega), List.append_nil]

theorem toLE_length (n v : Nat) : (toLE n v).length = n := by
  induction n generalizing v with
  | zero => rfl
  | succ n ih => simp only [toLE, List.length_cons, ih]


/-! ### `crypto_core_hchacha20` -/

/-- the generated loop state of `crypto_core_hchacha20` (in the translator's order of first assignment) -/
def toNc (s : X16) : Nat × Nat × Nat × Nat × Nat × Nat × Nat × Nat × Nat × Nat × Nat × Nat × Nat × Nat × Nat × Nat :=
  (s.x0.toNat, s.x12.toNat, s.x8.toNat, s.x4.toNat, s.x1.toNat, s.x13.toNat, s.x9.toNat, s.x5.toNat,
   s.x2.toNat, s.x14.toNat, s.x10.toNat, s.x6.toNat, s.x3.toNat, s.x15.toNat, s.x11.toNat, s.x7.toNat)

/-- ten iterations of a loop body that refines `hchacha20Body`, from an initial tuple of `toNat`s -/
theorem foldl_chacha (F : _ → Nat → _) (h : ∀ s i, F (toNc s) i = toNc (hchacha20Body s))
    (x0 x1 x2 x3 x4 x5 x6 x7 x8 x9 x10 x11 x12 x13 x14 x15 : UInt32) :
    (List.range' 0 10).foldl F
      (x0.toNat, x12.toNat, x8.toNat, x4.toNat, x1.toNat, x13.toNat, x9.toNat, x5.toNat,
       x2.toNat, x14.toNat, x10.toNat, x6.toNat, x3.toNat, x15.toNat, x11.toNat, x7.toNat)
    = toNc (Nat.repeat hchacha20Body 10 ⟨x0, x1, x2, x3, x4, x5, x6, x7, x8, x9, x10, x11, x12, x13, x14, x15⟩) :=
  foldl_range'_repeat toNc hchacha20Body F h 10 0
    ⟨x0, x1, x2, x3, x4, x5, x6, x7, x8, x9, x10, x11, x12, x13, x14, x15⟩

theorem hchacha20_eq_model (out key inp : Bytes) (c : Option (UInt32 × UInt32 × UInt32 × UInt32))
    (hout : out.length = 32) :
    Gen.Core.crypto_core_hchacha20 out inp key (c.map toN4) = Model.Core.hchacha20 key inp c := by
  unfold Gen.Core.crypto_core_hchacha20 Model.Core.hchacha20 hchacha20Init
  rw [consts_eq]
  generalize constantsOrDefault c = k
  obtain ⟨c0, c1, c2, c3⟩ := k
  simp only [toN4, load_u32_eq, take_drop_eq_slice]
  rw [foldl_chacha]
  · simp only [toNc]
    rw [write8 out _ _ _ _ _ _ _ _ hout (toLE_length ..) (toLE_length ..) (toLE_length ..) (toLE_length ..)
      (toLE_length ..) (toLE_length ..) (toLE_length ..) (toLE_length ..)]
    rfl
  · intro s i
    obtain ⟨x0, x1, x2, x3, x4, x5, x6, x7, x8, x9, x10, x11, x12, x13, x14, x15⟩ := s
    simp only [toNc, add32, xor32, rot32_16, rot32_12, rot32_8, rot32_7]
    rfl


/-- sanity test (not a proof ingredient): generated code versus model on a concrete input -/
example :
    Gen.Core.crypto_core_hchacha20 (List.replicate 32 0xaa) ((List.range 16).map (fun i => UInt8.ofNat (3 * i + 1)))
        ((List.range 32).map (fun i => UInt8.ofNat (7 * i + 5))) none
      = Model.Core.hchacha20 ((List.range 32).map (fun i => UInt8.ofNat (7 * i + 5)))
        ((List.range 16).map (fun i => UInt8.ofNat (3 * i + 1))) none := by
  decide +kernel

/-! ### `crypto_core_hsalsa20` -/

/-- the generated loop state of `crypto_core_hsalsa20` (in the translator's order of first assignment) -/
def toNs (s : X16) : Nat × Nat × Nat × Nat × Nat × Nat × Nat × Nat × Nat × Nat × Nat × Nat × Nat × Nat × Nat × Nat :=
  (s.x4.toNat, s.x8.toNat, s.x12.toNat, s.x0.toNat, s.x9.toNat, s.x13.toNat, s.x1.toNat, s.x5.toNat, s.x14.toNat, s.x2.toNat, s.x6.toNat, s.x10.toNat, s.x3.toNat, s.x7.toNat, s.x11.toNat, s.x15.toNat)

theorem foldl_salsa (F : _ → Nat → _) (h : ∀ s i, F (toNs s) i = toNs (hsalsa20Body s))
    (x0 x1 x2 x3 x4 x5 x6 x7 x8 x9 x10 x11 x12 x13 x14 x15 : UInt32) :
    (List.range' 0 10).foldl F
      (x4.toNat, x8.toNat, x12.toNat, x0.toNat, x9.toNat, x13.toNat, x1.toNat, x5.toNat, x14.toNat, x2.toNat, x6.toNat, x10.toNat, x3.toNat, x7.toNat, x11.toNat, x15.toNat)
    = toNs (Nat.repeat hsalsa20Body 10 ⟨x0, x1, x2, x3, x4, x5, x6, x7, x8, x9, x10, x11, x12, x13, x14, x15⟩) :=
  foldl_range'_repeat toNs hsalsa20Body F h 10 0
    ⟨x0, x1, x2, x3, x4, x5, x6, x7, x8, x9, x10, x11, x12, x13, x14, x15⟩

theorem hsalsa20_eq_model (out key inp : Bytes) (c : Option (UInt32 × UInt32 × UInt32 × UInt32))
    (hout : out.length = 32) :
    Gen.Core.crypto_core_hsalsa20 out inp key (c.map toN4) = Model.Core.hsalsa20 key inp c := by
  unfold Gen.Core.crypto_core_hsalsa20 Model.Core.hsalsa20 hsalsa20Init
  rw [consts_eq]
  generalize constantsOrDefault c = k
  obtain ⟨c0, c1, c2, c3⟩ := k
  simp only [toN4, load_u32_eq, take_drop_eq_slice]
  rw [foldl_salsa]
  · simp only [toNs]
    rw [write8 out _ _ _ _ _ _ _ _ hout (toLE_length ..) (toLE_length ..) (toLE_length ..) (toLE_length ..)
      (toLE_length ..) (toLE_length ..) (toLE_length ..) (toLE_length ..)]
    rfl
  · intro s i
    obtain ⟨x0, x1, x2, x3, x4, x5, x6, x7, x8, x9, x10, x11, x12, x13, x14, x15⟩ := s
    simp only [toNs, xor32, salsa_rotl_7, salsa_rotl_9, salsa_rotl_13, salsa_rotl_18]
    rfl

/-- sanity test (not a proof ingredient): generated code versus model on a concrete input -/
example :
    Gen.Core.crypto_core_hsalsa20 (List.replicate 32 0xaa) ((List.range 16).map (fun i => UInt8.ofNat (3 * i + 1)))
        ((List.range 32).map (fun i => UInt8.ofNat (7 * i + 5))) (some (1, 2, 3, 0xfffffffe))
      = Model.Core.hsalsa20 ((List.range 32).map (fun i => UInt8.ofNat (7 * i + 5)))
        ((List.range 16).map (fun i => UInt8.ofNat (3 * i + 1))) (some (1, 2, 3, 0xfffffffe)) := by
  decide +kernel

#print axioms hchacha20_eq_model
#print axioms hsalsa20_eq_model
end DryocVerif.Proofs.GenCore
