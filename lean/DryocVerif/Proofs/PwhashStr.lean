import DryocVerif.Model.PwhashStr
import DryocVerif.Proofs.Base64Lemmas
/-
Helper lemmas for C10: the password-hash string layer (`Model.PwhashStr`).
Core-only (no Mathlib).
-/
namespace DryocVerif.Model.PwhashStr
open DryocVerif DryocVerif.Spec.Base64

/-! ## 1. decimal printing / parsing -/

def isDigit (c : Char) : Prop := '0' ≤ c ∧ c ≤ '9'

instance (c : Char) : Decidable (isDigit c) := by unfold isDigit; infer_instance

theorem digitChar_spec : ∀ d, d < 10 →
    (isDigit (Char.ofNat (48 + d))) ∧ (Char.ofNat (48 + d)).toNat - 48 = d := by
  decide

theorem toDecAux_acc (fuel n : Nat) (acc : Str) :
    toDecAux fuel n acc = toDecAux fuel n [] ++ acc := by
  induction fuel generalizing n acc with
  | zero => simp [toDecAux]
  | succ f ih =>
    simp only [toDecAux]
    split
    · simp
    · rw [ih (n / 10) (_ :: acc), ih (n / 10) [_]]; simp

theorem toDecAux_mem (fuel n : Nat) (acc : Str) :
    ∀ c ∈ toDecAux fuel n acc, isDigit c ∨ c ∈ acc := by
  induction fuel generalizing n acc with
  | zero => intro c hc; exact Or.inr (by simpa [toDecAux] using hc)
  | succ f ih =>
    intro c hc
    simp only [toDecAux] at hc
    have hd := (digitChar_spec (n % 10) (Nat.mod_lt _ (by decide))).1
    split at hc
    · rcases List.mem_cons.1 hc with h | h
      · exact Or.inl (h ▸ hd)
      · exact Or.inr h
    · rcases ih _ _ c hc with h | h
      · exact Or.inl h
      · rcases List.mem_cons.1 h with h | h
        · exact Or.inl (h ▸ hd)
        · exact Or.inr h

theorem toDecAux_ne_nil (fuel n : Nat) (acc : Str) : toDecAux (fuel + 1) n acc ≠ [] := by
  rw [toDecAux_acc]
  simp only [toDecAux]
  split
  · simp
  · rw [toDecAux_acc]; simp

theorem toDec_ne_nil (n : Nat) : toDec n ≠ [] := toDecAux_ne_nil 39 n []

theorem toDec_isDigit (n : Nat) : ∀ c ∈ toDec n, isDigit c := by
  intro c hc
  rcases toDecAux_mem 40 n [] c hc with h | h
  · exact h
  · cases h

theorem isDigit_ne {c : Char} (h : isDigit c) :
    c ≠ '+' ∧ c ≠ '$' ∧ c ≠ ',' ∧ c ≠ '=' := by
  refine ⟨?_, ?_, ?_, ?_⟩ <;> (intro e; subst e; revert h; decide)

theorem parseDigits_snoc (s : Str) (c : Char) (acc : Nat) (hc : isDigit c) :
    parseDigits (s ++ [c]) acc =
      (parseDigits s acc).bind
        (fun v => if v * 10 + (c.toNat - 48) < 2 ^ 32 then some (v * 10 + (c.toNat - 48)) else none) := by
  induction s generalizing acc with
  | nil =>
    have hc' : '0' ≤ c ∧ c ≤ '9' := hc
    simp only [List.nil_append, parseDigits, hc', and_self, if_true, Option.bind]
  | cons a s ih =>
    simp only [List.cons_append, parseDigits]
    split
    · split
      · exact ih _
      · rfl
    · rfl

theorem parseDigits_toDecAux (fuel n : Nat) (h10 : n < 10 ^ fuel) (h32 : n < 2 ^ 32) :
    parseDigits (toDecAux fuel n []) 0 = some n := by
  induction fuel generalizing n with
  | zero =>
    have : n = 0 := by simpa using h10
    subst this; simp [toDecAux, parseDigits]
  | succ f ih =>
    have hd := digitChar_spec (n % 10) (Nat.mod_lt _ (by decide))
    simp only [toDecAux]
    split
    · rename_i h0
      have hd1 : '0' ≤ Char.ofNat (48 + n % 10) ∧ Char.ofNat (48 + n % 10) ≤ '9' := hd.1
      simp only [parseDigits, hd1, and_self, if_true, hd.2]
      have : n % 10 = n := by omega
      simp [this, h32]
    · rename_i h0
      rw [toDecAux_acc, parseDigits_snoc _ _ _ hd.1, ih (n / 10) (by rw [Nat.pow_succ] at h10; omega) (by omega)]
      have : n / 10 * 10 + n % 10 = n := by omega
      simp [hd.2, this, h32]

theorem parseU32_of_head (c : Char) (cs : Str) (hc : c ≠ '+') :
    parseU32 (c :: cs) = parseDigits (c :: cs) 0 := by
  unfold parseU32
  split
  · contradiction
  · rename_i h; cases h; contradiction
  · rfl

theorem parseU32_toDec (n : Nat) (h : n < 2 ^ 32) : parseU32 (toDec n) = some n := by
  have hne := toDec_ne_nil n
  have hdig := toDec_isDigit n
  have hp : parseDigits (toDec n) 0 = some n :=
    parseDigits_toDecAux 40 n (Nat.lt_trans h (by decide)) h
  cases hs : toDec n with
  | nil => exact absurd hs hne
  | cons c cs =>
    rw [hs] at hp hdig
    rw [parseU32_of_head c cs (isDigit_ne (hdig c (by simp))).1]
    exact hp

/-- also for every `n < 10^40` the printed digits parse back (without the u32 range check
the statement is about `parseDigits`; `parseU32` rejects `n ≥ 2^32`). -/
theorem parseDigits_bound (s : Str) (acc v : Nat) (h : parseDigits s acc = some v) (hacc : acc < 2 ^ 32) :
    v < 2 ^ 32 := by
  induction s generalizing acc with
  | nil => simp [parseDigits] at h; omega
  | cons c cs ih =>
    simp only [parseDigits] at h
    split at h
    · split at h
      · rename_i hv; exact ih _ h hv
      · cases h
    · cases h

theorem parseU32_lt (s : Str) (v : Nat) (h : parseU32 s = some v) : v < 2 ^ 32 := by
  unfold parseU32 at h
  split at h
  · cases h
  · split at h
    · cases h
    · exact parseDigits_bound _ _ _ h (by decide)
  · exact parseDigits_bound _ _ _ h (by decide)

/-! ## 2. alphabet facts -/

/-- membership in the RFC 4648 standard alphabet -/
def isB64 (c : Char) : Prop := (decodeSextet c).isSome = true

instance (c : Char) : Decidable (isB64 c) := by unfold isB64; infer_instance

theorem isB64_encodeSextet_lt : ∀ n, n < 64 → isB64 (encodeSextet n) := by decide

theorem isB64_encodeSextet (n : Nat) : isB64 (encodeSextet n) := by
  by_cases h : n < 64
  · exact isB64_encodeSextet_lt n h
  · have : encodeSextet n = '/' := by
      unfold encodeSextet
      simp [show ¬ n < 26 by omega, show ¬ n < 52 by omega, show ¬ n < 62 by omega,
        show ¬ n = 62 by omega]
    rw [this]; decide

theorem encodeChars_isB64 (bs : Bytes) : ∀ c ∈ encodeChars bs, isB64 c := by
  induction bs using encodeChars.induct with
  | case1 => simp [encodeChars]
  | case2 a => simp [encodeChars, isB64_encodeSextet]
  | case3 a b => simp [encodeChars, isB64_encodeSextet]
  | case4 a b c rest ih =>
    intro x hx
    simp only [encodeChars, List.mem_cons] at hx
    rcases hx with h | h | h | h | h
    · exact h ▸ isB64_encodeSextet _
    · exact h ▸ isB64_encodeSextet _
    · exact h ▸ isB64_encodeSextet _
    · exact h ▸ isB64_encodeSextet _
    · exact ih x h

theorem isB64_ne {c : Char} (h : isB64 c) : c ≠ '$' ∧ c ≠ ',' ∧ c ≠ '=' := by
  refine ⟨?_, ?_, ?_⟩ <;> (intro e; subst e; revert h; decide)

theorem encodeChars_ne_nil {bs : Bytes} (h : bs ≠ []) : encodeChars bs ≠ [] := by
  intro e
  have := decode_encode bs
  rw [e] at this
  simp [decodeChars] at this
  exact h this

/-! ## `isPrefixOf` / `stripPrefix` / `isInfix` -/

theorem isPrefixOf_mem {pat s : Str} (h : pat.isPrefixOf s = true) : ∀ c ∈ pat, c ∈ s := by
  intro c hc
  rw [List.isPrefixOf_iff_prefix] at h
  exact h.subset hc

theorem stripPrefix_append (pat s : Str) : stripPrefix pat (pat ++ s) = some s := by
  unfold stripPrefix
  have : pat.isPrefixOf (pat ++ s) = true := by
    rw [List.isPrefixOf_iff_prefix]; exact List.prefix_append _ _
  simp [this]

theorem stripPrefix_none_of_not_mem {pat s : Str} (c : Char) (hc : c ∈ pat) (hs : c ∉ s) :
    stripPrefix pat s = none := by
  unfold stripPrefix
  split
  · rename_i h; exact absurd (isPrefixOf_mem h c hc) hs
  · rfl

theorem isInfix_mem {pat s : Str} (h : isInfix pat s = true) : ∀ c ∈ pat, c ∈ s := by
  intro c hc
  unfold isInfix at h
  rw [List.any_eq_true] at h
  obtain ⟨i, _, hi⟩ := h
  exact List.mem_of_mem_drop (isPrefixOf_mem hi c hc)

theorem isInfix_false_of_not_mem {pat s : Str} (c : Char) (hc : c ∈ pat) (hs : c ∉ s) :
    isInfix pat s = false := by
  cases h : isInfix pat s
  · rfl
  · exact absurd (isInfix_mem h c hc) hs

theorem isInfix_mid (pat a b : Str) : isInfix pat (a ++ (pat ++ b)) = true := by
  unfold isInfix
  rw [List.any_eq_true]
  refine ⟨a.length, ?_, ?_⟩
  · simp only [List.mem_range, List.length_append]; omega
  · rw [List.drop_left, List.isPrefixOf_iff_prefix]; exact List.prefix_append _ _

/-! ## `splitOn` -/

theorem splitOnAux_no_sep (sep : Char) (a cur : Str) (ha : sep ∉ a) :
    splitOnAux sep a cur = [cur.reverse ++ a] := by
  induction a generalizing cur with
  | nil => simp [splitOnAux]
  | cons c cs ih =>
    have hc : c ≠ sep := fun e => ha (e ▸ List.mem_cons_self)
    have hcs : sep ∉ cs := fun h => ha (List.mem_cons_of_mem _ h)
    simp only [splitOnAux, hc, if_false]
    rw [ih _ hcs]; simp

theorem splitOnAux_sep (sep : Char) (a b cur : Str) (ha : sep ∉ a) :
    splitOnAux sep (a ++ sep :: b) cur = (cur.reverse ++ a) :: splitOnAux sep b [] := by
  induction a generalizing cur with
  | nil => simp [splitOnAux]
  | cons c cs ih =>
    have hc : c ≠ sep := fun e => ha (e ▸ List.mem_cons_self)
    have hcs : sep ∉ cs := fun h => ha (List.mem_cons_of_mem _ h)
    simp only [List.cons_append, splitOnAux, hc, if_false]
    rw [ih _ hcs]; simp

theorem splitOn_no_sep (sep : Char) (a : Str) (ha : sep ∉ a) : splitOn sep a = [a] := by
  simp [splitOn, splitOnAux_no_sep sep a [] ha]

theorem splitOn_sep (sep : Char) (a b : Str) (ha : sep ∉ a) :
    splitOn sep (a ++ sep :: b) = a :: splitOn sep b := by
  simp [splitOn, splitOnAux_sep sep a b [] ha]

/-! ## 3. the segments of an encoded string -/

/-- the `m=…,t=…,p=1` field -/
def paramField (t m : Nat) : Str :=
  "m=".toList ++ (toDec m ++ (',' :: ("t=".toList ++ (toDec t ++ (',' :: "p=1".toList)))))

theorem lit1 : "$".toList = ['$'] := rfl
theorem lit2 : "$v=".toList = '$' :: "v=".toList := rfl
theorem lit3 : "$m=".toList = '$' :: "m=".toList := rfl
theorem lit4 : ",t=".toList = ',' :: "t=".toList := rfl
theorem lit5 : ",p=1$".toList = ',' :: ("p=1".toList ++ ['$']) := rfl

theorem encode_eq (alg : Alg) (t m : Nat) (salt hash : Bytes) :
    encode alg t m salt hash =
      [] ++ '$' :: (alg.name ++ '$' :: (("v=".toList ++ toDec 19) ++ '$' :: (paramField t m ++
        '$' :: (encodeChars salt ++ '$' :: encodeChars hash)))) := by
  unfold encode paramField
  rw [lit1, lit2, lit3, lit4, lit5]
  simp only [List.append_assoc, List.cons_append, List.nil_append]

theorem toDec_not_mem (n : Nat) : '$' ∉ toDec n ∧ ',' ∉ toDec n ∧ '=' ∉ toDec n ∧ '+' ∉ toDec n := by
  refine ⟨?_, ?_, ?_, ?_⟩ <;> intro h
  · exact (isDigit_ne (toDec_isDigit n _ h)).2.1 rfl
  · exact (isDigit_ne (toDec_isDigit n _ h)).2.2.1 rfl
  · exact (isDigit_ne (toDec_isDigit n _ h)).2.2.2 rfl
  · exact (isDigit_ne (toDec_isDigit n _ h)).1 rfl

theorem encodeChars_not_mem (bs : Bytes) :
    '$' ∉ encodeChars bs ∧ ',' ∉ encodeChars bs ∧ '=' ∉ encodeChars bs := by
  refine ⟨?_, ?_, ?_⟩ <;> intro h
  · exact (isB64_ne (encodeChars_isB64 bs _ h)).1 rfl
  · exact (isB64_ne (encodeChars_isB64 bs _ h)).2.1 rfl
  · exact (isB64_ne (encodeChars_isB64 bs _ h)).2.2 rfl

theorem name_no_dollar (alg : Alg) : '$' ∉ alg.name := by cases alg <;> decide

theorem paramField_no_dollar (t m : Nat) : '$' ∉ paramField t m := by
  have ht := (toDec_not_mem t).1
  have hm := (toDec_not_mem m).1
  simp only [paramField, List.mem_append, List.mem_cons, not_or]
  exact ⟨by decide, hm, by decide, by decide, ht, by decide, by decide⟩

theorem splitOn_encode (alg : Alg) (t m : Nat) (salt hash : Bytes) :
    splitOn '$' (encode alg t m salt hash) =
      [[], alg.name, "v=".toList ++ toDec 19, paramField t m, encodeChars salt, encodeChars hash] := by
  rw [encode_eq,
    splitOn_sep _ _ _ (by simp),
    splitOn_sep _ _ _ (name_no_dollar alg),
    splitOn_sep _ _ _ (by decide),
    splitOn_sep _ _ _ (paramField_no_dollar t m),
    splitOn_sep _ _ _ (encodeChars_not_mem salt).1,
    splitOn_no_sep _ _ (encodeChars_not_mem hash).1]

theorem splitOn_paramField (t m : Nat) :
    splitOn ',' (paramField t m) =
      ["m=".toList ++ toDec m, "t=".toList ++ toDec t, "p=1".toList] := by
  have ht := (toDec_not_mem t).2.1
  have hm := (toDec_not_mem m).2.1
  unfold paramField
  rw [← List.append_assoc, splitOn_sep _ _ _ (by simp [hm]),
    ← List.append_assoc, splitOn_sep _ _ _ (by simp [ht]),
    splitOn_no_sep _ _ (by decide)]

/-! ## 4. `parseParams` / `parseSegment` on the encoder's fields -/

theorem stripPrefix_cons_ne (a b : Char) (p s : Str) (h : a ≠ b) :
    stripPrefix (a :: p) (b :: s) = none := by
  simp [stripPrefix, List.isPrefixOf, h]

theorem parseParams_m (v : Str) (n : Nat) (rest : List Str) (acc : Parsed)
    (h : parseU32 v = some n) :
    parseParams (("m=".toList ++ v) :: rest) acc = parseParams rest { acc with m := some n } := by
  rw [parseParams, stripPrefix_append]; simp only [h]

theorem parseParams_t (v : Str) (n : Nat) (rest : List Str) (acc : Parsed)
    (h : parseU32 v = some n) :
    parseParams (("t=".toList ++ v) :: rest) acc = parseParams rest { acc with t := some n } := by
  rw [parseParams]
  have h1 : stripPrefix "m=".toList ("t=".toList ++ v) = none :=
    stripPrefix_cons_ne _ _ _ _ (by decide)
  rw [h1, stripPrefix_append]; simp only [h]

theorem parseParams_p (v : Str) (n : Nat) (rest : List Str) (acc : Parsed)
    (h : parseU32 v = some n) :
    parseParams (("p=".toList ++ v) :: rest) acc = parseParams rest { acc with p := some n } := by
  rw [parseParams]
  have h1 : stripPrefix "m=".toList ("p=".toList ++ v) = none :=
    stripPrefix_cons_ne _ _ _ _ (by decide)
  have h2 : stripPrefix "t=".toList ("p=".toList ++ v) = none :=
    stripPrefix_cons_ne _ _ _ _ (by decide)
  rw [h1, h2, stripPrefix_append]; simp only [h]

theorem parseParams_fields (t m : Nat) (ht : t < 2 ^ 32) (hm : m < 2 ^ 32) (acc : Parsed) :
    parseParams ["m=".toList ++ toDec m, "t=".toList ++ toDec t, "p=1".toList] acc =
      some { acc with m := some m, t := some t, p := some 1 } := by
  rw [parseParams_m _ _ _ _ (parseU32_toDec m hm), parseParams_t _ _ _ _ (parseU32_toDec t ht),
    show "p=1".toList = "p=".toList ++ ['1'] from rfl,
    parseParams_p ['1'] 1 _ _ (by decide), parseParams]

theorem parseSegment_nil (acc : Parsed) : parseSegment acc [] = some acc := by
  simp [parseSegment]

theorem parseSegment_name (alg : Alg) : parseSegment {} alg.name = some { ty := some alg } := by
  cases alg <;> decide

theorem parseSegment_version (alg : Alg) :
    parseSegment { ty := some alg } ("v=".toList ++ toDec 19) =
      some { ty := some alg, version := some 19 } := by
  cases alg <;> decide

theorem parseSegment_paramField (t m : Nat) (ht : t < 2 ^ 32) (hm : m < 2 ^ 32) (acc : Parsed)
    (hty : acc.ty.isNone = false) :
    parseSegment acc (paramField t m) = some { acc with m := some m, t := some t, p := some 1 } := by
  have hv : stripPrefix "v=".toList (paramField t m) = none :=
    stripPrefix_cons_ne _ _ _ _ (by decide)
  have im : isInfix "m=".toList (paramField t m) = true := isInfix_mid _ [] _
  have it : isInfix "t=".toList (paramField t m) = true := by
    have := isInfix_mid "t=".toList ("m=".toList ++ (toDec m ++ [','])) (toDec t ++ (',' :: "p=1".toList))
    simpa [paramField] using this
  have ip : isInfix "p=".toList (paramField t m) = true := by
    have := isInfix_mid "p=".toList ("m=".toList ++ (toDec m ++ (',' :: ("t=".toList ++ (toDec t ++ [','])))))
      ['1']
    simpa [paramField] using this
  have hne : (paramField t m).isEmpty = false := rfl
  unfold parseSegment
  rw [hne, hty, hv, im, it, ip, splitOn_paramField]
  simp only [Bool.false_eq_true, false_and, and_self, if_false, if_true]
  exact parseParams_fields t m ht hm acc

/-- a non-empty string over the base64 alphabet is never taken for an algorithm name (once the
algorithm is known), a version field or a parameter list: it fills `salt`, then `pwhash` -/
theorem parseSegment_b64 (acc : Parsed) (s : Str) (hne : s ≠ []) (hs : ∀ c ∈ s, isB64 c)
    (hty : acc.ty.isNone = false) :
    parseSegment acc s =
      if acc.salt.isNone then some { acc with salt := decodeChars s }
      else if acc.pwhash.isNone then some { acc with pwhash := decodeChars s }
      else some acc := by
  have heq : '=' ∉ s := fun h => (isB64_ne (hs _ h)).2.2 rfl
  have hv : stripPrefix "v=".toList s = none :=
    stripPrefix_none_of_not_mem '=' (by decide) heq
  have im : isInfix "m=".toList s = false := isInfix_false_of_not_mem '=' (by decide) heq
  have hemp : s.isEmpty = false := by cases s <;> simp_all
  unfold parseSegment
  rw [hemp, hty, hv, im]
  simp

/-! ## 5. `parse ∘ encode` -/

theorem parseSegment_salt (acc : Parsed) (s : Str) (hne : s ≠ []) (hs : ∀ c ∈ s, isB64 c)
    (hty : acc.ty.isNone = false) (hsalt : acc.salt.isNone = true) :
    parseSegment acc s = some { acc with salt := decodeChars s } := by
  rw [parseSegment_b64 acc s hne hs hty, hsalt]; rfl

theorem parseSegment_hash (acc : Parsed) (s : Str) (hne : s ≠ []) (hs : ∀ c ∈ s, isB64 c)
    (hty : acc.ty.isNone = false) (hsalt : acc.salt.isNone = false) (hpw : acc.pwhash.isNone = true) :
    parseSegment acc s = some { acc with pwhash := decodeChars s } := by
  rw [parseSegment_b64 acc s hne hs hty, hsalt, hpw]; rfl

theorem parseSegments_cons {acc acc' : Parsed} {s : Str} {rest : List Str}
    (h : parseSegment acc s = some acc') :
    parseSegments (s :: rest) acc = parseSegments rest acc' := by
  rw [parseSegments.eq_def]; simp only [h]

theorem parseSegments_encode (alg : Alg) (t m : Nat) (salt hash : Bytes)
    (ht : t < 2 ^ 32) (hm : m < 2 ^ 32) (hs : salt ≠ []) (hh : hash ≠ []) :
    parseSegments (splitOn '$' (encode alg t m salt hash)) {} =
      some { pwhash := some hash, salt := some salt, ty := some alg, t := some t, m := some m,
             p := some 1, version := some 19 } := by
  rw [splitOn_encode,
    parseSegments_cons (parseSegment_nil _),
    parseSegments_cons (parseSegment_name alg),
    parseSegments_cons (parseSegment_version alg),
    parseSegments_cons (parseSegment_paramField t m ht hm _ rfl),
    parseSegments_cons (parseSegment_salt _ _ (encodeChars_ne_nil hs) (encodeChars_isB64 salt) rfl rfl),
    decode_encode,
    parseSegments_cons (parseSegment_hash _ _ (encodeChars_ne_nil hh) (encodeChars_isB64 hash) rfl rfl rfl),
    decode_encode, parseSegments]

theorem parse_encode (alg : Alg) (t m : Nat) (salt hash : Bytes)
    (ht : t < 2 ^ 32) (hm : m < 2 ^ 32) (hs : salt ≠ []) (hh : hash ≠ []) :
    parse (encode alg t m salt hash) =
      .ok { pwhash := some hash, salt := some salt, ty := some alg, t := some t, m := some m,
            p := some 1, version := some 19 } := by
  unfold parse
  rw [parseSegments_encode alg t m salt hash ht hm hs hh]
  simp [hs, hh]

/-! ## 6. totality: what `parse` guarantees about an accepted record -/

theorem parse_ne_panic (s : Str) : parse s ≠ .panic := by
  unfold parse
  repeat' split
  all_goals simp

theorem parse_ok_fields {s : Str} {r : Parsed} (h : parse s = .ok r) :
    ∃ ty t m salt hash, salt ≠ [] ∧ hash ≠ [] ∧
      r = { pwhash := some hash, salt := some salt, ty := some ty, t := some t, m := some m,
            p := some 1, version := some 19 } := by
  unfold parse at h
  split at h
  · cases h
  · repeat' split at h
    all_goals first | cases h | skip
    rename_i h1 h2 h3 h4 h5 h6 h7
    obtain ⟨pw, sa, ty, t, m, p, v⟩ := r
    cases pw <;> cases sa <;> cases ty <;> cases t <;> cases m <;> simp_all
    exact ⟨_, _, _, _, h4, _, h3, rfl, rfl, rfl, rfl, rfl⟩

/-! ## 7. `parseU32 ∘ toDec` exactly (overflow rejected) -/

theorem parseDigits_toDecAux_some (fuel n v : Nat) (h10 : n < 10 ^ fuel)
    (h : parseDigits (toDecAux fuel n []) 0 = some v) : v = n := by
  induction fuel generalizing n v with
  | zero =>
    have : n = 0 := by simpa using h10
    subst this; simpa [toDecAux, parseDigits] using h.symm
  | succ f ih =>
    have hd := digitChar_spec (n % 10) (Nat.mod_lt _ (by decide))
    simp only [toDecAux] at h
    split at h
    · have hd1 : '0' ≤ Char.ofNat (48 + n % 10) ∧ Char.ofNat (48 + n % 10) ≤ '9' := hd.1
      simp only [parseDigits, hd1, and_self, if_true, hd.2] at h
      split at h
      · cases h; omega
      · cases h
    · rw [toDecAux_acc, parseDigits_snoc _ _ _ hd.1] at h
      cases hp : parseDigits (toDecAux f (n / 10) []) 0 with
      | none => rw [hp] at h; cases h
      | some w =>
        have hw := ih (n / 10) w (by rw [Nat.pow_succ] at h10; omega) hp
        rw [hp] at h
        simp only [Option.bind, hd.2] at h
        split at h
        · cases h; omega
        · cases h

theorem parseU32_toDec_overflow (n : Nat) (h10 : n < 10 ^ 40) (h : 2 ^ 32 ≤ n) :
    parseU32 (toDec n) = none := by
  cases hp : parseU32 (toDec n) with
  | none => rfl
  | some v =>
    exfalso
    have hlt := parseU32_lt _ _ hp
    have hne := toDec_ne_nil n
    have hdig := toDec_isDigit n
    cases hs : toDec n with
    | nil => exact hne hs
    | cons c cs =>
      rw [hs] at hp hdig
      rw [parseU32_of_head c cs (isDigit_ne (hdig c (by simp))).1, ← hs] at hp
      have := parseDigits_toDecAux_some 40 n v h10 hp
      omega

/-! ## 8. every accepted cost is a `u32` -/

def CostsInRange (r : Parsed) : Prop :=
  (∀ t, r.t = some t → t < 2 ^ 32) ∧ (∀ m, r.m = some m → m < 2 ^ 32)

theorem parseParams_range (ps : List Str) (acc r : Parsed) (hacc : CostsInRange acc)
    (h : parseParams ps acc = some r) : CostsInRange r := by
  induction ps generalizing acc with
  | nil => simp only [parseParams, Option.some.injEq] at h; exact h ▸ hacc
  | cons p rest ih =>
    rw [parseParams] at h
    split at h
    · split at h
      · rename_i v _ n hn
        refine ih _ ?_ h
        refine ⟨hacc.1, ?_⟩
        intro m hm'; cases hm'; exact parseU32_lt _ _ hn
      · cases h
    · split at h
      · split at h
        · rename_i v _ n hn
          refine ih _ ?_ h
          refine ⟨?_, hacc.2⟩
          intro t ht'; cases ht'; exact parseU32_lt _ _ hn
        · cases h
      · split at h
        · split at h
          · refine ih _ ?_ h
            exact ⟨hacc.1, hacc.2⟩
          · cases h
        · exact ih _ hacc h

theorem parseSegment_range (acc r : Parsed) (s : Str) (hacc : CostsInRange acc)
    (h : parseSegment acc s = some r) : CostsInRange r := by
  unfold parseSegment at h
  repeat' split at h
  all_goals first
    | exact parseParams_range _ _ _ hacc h
    | (cases h; exact hacc)
    | cases h

theorem parseSegments_range (ss : List Str) (acc r : Parsed) (hacc : CostsInRange acc)
    (h : parseSegments ss acc = some r) : CostsInRange r := by
  induction ss generalizing acc with
  | nil => simp only [parseSegments, Option.some.injEq] at h; exact h ▸ hacc
  | cons s rest ih =>
    rw [parseSegments.eq_def] at h
    simp only at h
    split at h
    · rename_i acc' hs
      exact ih _ (parseSegment_range _ _ _ hacc hs) h
    · cases h

theorem parse_ok_range {s : Str} {r : Parsed} (h : parse s = .ok r) : CostsInRange r := by
  unfold parse at h
  split at h
  · cases h
  · rename_i r' hr
    have := parseSegments_range _ _ _ ⟨(by intro t ht; cases ht), (by intro m hm; cases hm)⟩ hr
    repeat' split at h
    all_goals first | cases h | skip
    exact this

/-! ## 9. what the parser allocates is bounded by its input -/

theorem decodeChars_length : ∀ (cs : List Char) (bs : Bytes), decodeChars cs = some bs →
    4 * bs.length ≤ 3 * cs.length
  | [], bs, h => by simp only [decodeChars, Option.some.injEq] at h; subst h; simp
  | [_], bs, h => by simp [decodeChars] at h
  | [c0, c1], bs, h => by
    simp only [decodeChars] at h
    repeat' split at h
    all_goals first | cases h | skip
    simp
  | [c0, c1, c2], bs, h => by
    simp only [decodeChars] at h
    repeat' split at h
    all_goals first | cases h | skip
    simp
  | c0 :: c1 :: c2 :: c3 :: rest, bs, h => by
    simp only [decodeChars] at h
    split at h
    · rename_i v0 v1 v2 v3 bs' _ _ _ _ hr
      cases h
      have := decodeChars_length rest bs' hr
      simp only [List.length_cons]
      omega
    · cases h

theorem splitOnAux_length (sep : Char) : ∀ (s cur : Str), ∀ seg ∈ splitOnAux sep s cur,
    seg.length ≤ s.length + cur.length
  | [], cur, seg, h => by
    simp only [splitOnAux, List.mem_singleton] at h
    subst h; simp
  | c :: cs, cur, seg, h => by
    simp only [splitOnAux] at h
    split at h
    · rcases List.mem_cons.mp h with h | h
      · subst h; simp
      · have := splitOnAux_length sep cs [] seg h
        simp only [List.length_cons, List.length_nil] at this ⊢
        omega
    · have := splitOnAux_length sep cs (c :: cur) seg h
      simp only [List.length_cons] at this ⊢
      omega

theorem splitOn_length (sep : Char) (s : Str) : ∀ seg ∈ splitOn sep s, seg.length ≤ s.length := by
  intro seg h
  simpa using splitOnAux_length sep s [] seg h

/-- the two decoded byte strings of a parse state hold at most 3/4 · `N` bytes each -/
def DecodedBounded (N : Nat) (r : Parsed) : Prop :=
  (∀ b, r.salt = some b → 4 * b.length ≤ 3 * N) ∧ (∀ b, r.pwhash = some b → 4 * b.length ≤ 3 * N)

theorem parseParams_decoded (ps : List Str) (acc r : Parsed) (h : parseParams ps acc = some r) :
    r.salt = acc.salt ∧ r.pwhash = acc.pwhash := by
  induction ps generalizing acc with
  | nil => simp only [parseParams, Option.some.injEq] at h; subst h; exact ⟨rfl, rfl⟩
  | cons p rest ih =>
    rw [parseParams] at h
    repeat' split at h
    all_goals first
      | cases h
      | (have := ih _ h; exact this)

theorem parseSegment_bounded (N : Nat) (acc r : Parsed) (s : Str) (hs : s.length ≤ N)
    (hacc : DecodedBounded N acc) (h : parseSegment acc s = some r) : DecodedBounded N r := by
  have hd : ∀ b, decodeChars s = some b → 4 * b.length ≤ 3 * N := fun b hb => by
    have := decodeChars_length s b hb; omega
  unfold parseSegment at h
  repeat' split at h
  all_goals first
    | exact (fun hp => ⟨fun b hb => hacc.1 b (hp.1 ▸ hb), fun b hb => hacc.2 b (hp.2 ▸ hb)⟩)
        (parseParams_decoded _ _ _ h)
    | (cases h; exact hacc)
    | (cases h; exact ⟨fun b hb => hd b hb, hacc.2⟩)
    | (cases h; exact ⟨hacc.1, fun b hb => hd b hb⟩)
    | cases h

theorem parseSegments_bounded (N : Nat) (ss : List Str) (acc r : Parsed) (hss : ∀ s ∈ ss, s.length ≤ N)
    (hacc : DecodedBounded N acc) (h : parseSegments ss acc = some r) : DecodedBounded N r := by
  induction ss generalizing acc with
  | nil => simp only [parseSegments, Option.some.injEq] at h; exact h ▸ hacc
  | cons s rest ih =>
    rw [parseSegments.eq_def] at h
    simp only at h
    split at h
    · rename_i acc' hs
      exact ih _ (fun s' hs' => hss s' (by simp [hs']))
        (parseSegment_bounded N _ _ _ (hss s (by simp)) hacc hs) h
    · cases h

/-- an accepted string's decoded salt and hash hold at most 3/4 of the string's length each -/
theorem parse_ok_alloc {s : Str} {r : Parsed} (h : parse s = .ok r) : DecodedBounded s.length r := by
  unfold parse at h
  split at h
  · cases h
  · rename_i r' hr
    have := parseSegments_bounded s.length _ _ _ (splitOn_length '$' s)
      ⟨(by intro b hb; cases hb), (by intro b hb; cases hb)⟩ hr
    repeat' split at h
    all_goals first | cases h | skip
    exact this

end DryocVerif.Model.PwhashStr
