import DryocVerif.Proofs.ProtectedProt
/-
The state invariant `InvK` (and the lock-tightness `Tight`) of the harness model
and their preservation by every token.
-/
namespace DryocVerif.Proofs.Protected
open DryocVerif DryocVerif.Model.Protected

def stPerm : St → Perm
  | .plain => .rw
  | .prot _ pm => pm.perm

def stLocked : St → Bool
  | .prot .locked _ => true
  | _ => false

def blkOf (o : Obj) : Blk := ⟨o.v, stPerm o.st, stLocked o.st⟩

/-- blocks of the live slots -/
def blks (sl : List Slot) : List Blk := (sl.filter fun s => !s.gone).map fun s => blkOf s.o

/-- the PAGE part of the invariant: the kernel agrees with the TYPE states of the live slots -/
def InvK (c : Cfg) (s : State) : Prop := GoodL c.P s.m.k (blks s.slots)

/-- the runtime record of a live `Protected` slot equals its type-level state -/
def SlotRec (sl : Slot) : Prop :=
  sl.gone = false → ∀ lm pm, sl.o.st = .prot lm pm → sl.o.rcd = (lm, pm)

/-- the RECORD part of the invariant: every live `Protected` region's runtime record (`d.lm`, `d.pm`, the data
`Drop` / `Zeroize` consult) equals its type-level state -/
def RecOK (s : State) : Prop := ∀ sl ∈ s.slots, SlotRec sl

/-- the invariant of the whole model state: pages agree with the type states (`k`), and the runtime records agree
with the type states (`rcd`) -/
structure Inv (c : Cfg) (s : State) : Prop where
  k : InvK c s
  rcd : RecOK s

theorem Inv.start {c : Cfg} {s : State} (h : Inv c s) : startPage ≤ s.m.k.brk := h.k.start
theorem Inv.fresh {c : Cfg} {s : State} (h : Inv c s) :
    ∀ p, s.m.k.brk ≤ p → s.m.k.perm p = .rw ∧ s.m.k.locked p = false := h.k.fresh
theorem Inv.ok {c : Cfg} {s : State} (h : Inv c s) : ∀ b ∈ blks s.slots, BlockOK c.P s.m.k b := h.k.ok
theorem Inv.disj {c : Cfg} {s : State} (h : Inv c s) : (blks s.slots).Pairwise (Disj c.P) := h.k.disj
theorem Inv.outside {c : Cfg} {s : State} (h : Inv c s) :
    ∀ p, (∀ b ∈ blks s.slots, ¬ inBlock c.P b.v p) → s.m.k.perm p = .rw := h.k.outside

/-- every locked page belongs to a live block -/
def Tight (c : Cfg) (s : State) : Prop := TightL c.P s.m.k (blks s.slots)

/-! ### slots ↔ block lists -/

theorem blks_append (l1 l2 : List Slot) : blks (l1 ++ l2) = blks l1 ++ blks l2 := by
  simp [blks]

theorem blks_cons_live {sl : Slot} (h : sl.gone = false) (l : List Slot) :
    blks (sl :: l) = blkOf sl.o :: blks l := by
  simp [blks, h]

theorem blks_cons_gone {sl : Slot} (h : sl.gone = true) (l : List Slot) :
    blks (sl :: l) = blks l := by
  simp [blks, h]

theorem blks_mid_live {sl : Slot} (h : sl.gone = false) (l1 l2 : List Slot) :
    (blks (l1 ++ sl :: l2)).Perm (blkOf sl.o :: (blks l1 ++ blks l2)) := by
  rw [blks_append, blks_cons_live h]
  exact List.perm_middle

theorem blks_mid_gone {sl : Slot} (h : sl.gone = true) (l1 l2 : List Slot) :
    blks (l1 ++ sl :: l2) = blks l1 ++ blks l2 := by
  rw [blks_append, blks_cons_gone h]

theorem blkOf_congr {o o' : Obj} (h1 : o'.st = o.st) (h2 : o'.v = o.v) : blkOf o' = blkOf o := by
  unfold blkOf; rw [h1, h2]

theorem blks_push (l : List Slot) (o : Obj) (r : Bool) :
    (blks (l ++ [⟨false, o, r⟩])).Perm (blkOf o :: blks l) := by
  rw [blks_append, blks_cons_live rfl]
  simp [blks]

theorem slot_split {slots : List Slot} {i : Nat} {sl : Slot} (h : slots[i]? = some sl) :
    ∃ l1 l2, slots = l1 ++ sl :: l2 ∧ l1.length = i := by
  induction slots generalizing i with
  | nil => simp at h
  | cons a l ih =>
    cases i with
    | zero => simp at h; exact ⟨[], l, by simp [h], rfl⟩
    | succ j =>
      simp at h
      obtain ⟨l1, l2, h1, h2⟩ := ih h
      exact ⟨a :: l1, l2, by simp [h1], by simp [h2]⟩

theorem set_split (l1 l2 : List Slot) (sl sl' : Slot) :
    (l1 ++ sl :: l2).set l1.length sl' = l1 ++ sl' :: l2 := by
  induction l1 with
  | nil => simp
  | cons a l ih => simp [ih]

theorem withSlot_elim {Q : Res × State → Prop} (s : State) (i : Nat) (f : Slot → Res × State)
    (h0 : Q (.noslot, s))
    (hf : ∀ sl l1 l2, s.slots = l1 ++ sl :: l2 → l1.length = i → Q (f sl)) :
    Q (withSlot s i f) := by
  unfold withSlot
  split
  · exact h0
  · rename_i sl h
    obtain ⟨l1, l2, h1, h2⟩ := slot_split h
    exact hf sl l1 l2 h1 h2

theorem withLive_elim {Q : Res × State → Prop} (s : State) (i : Nat) (g : Res) (f : Slot → Res × State)
    (h0 : Q (.noslot, s)) (hg : Q (g, s))
    (hf : ∀ sl l1 l2, s.slots = l1 ++ sl :: l2 → l1.length = i → sl.gone = false → Q (f sl)) :
    Q (withLive s i g f) := by
  unfold withLive
  apply withSlot_elim _ _ _ h0
  intro sl l1 l2 h1 h2
  by_cases hgone : sl.gone = true
  · simp only [hgone, if_true]; exact hg
  · simp only [hgone]; exact hf sl l1 l2 h1 h2 (by simpa using hgone)

/-! ### moving between `InvK` and the head-of-list form -/

section transfer
variable {c : Cfg} {s : State} {sl : Slot} {l1 l2 : List Slot}

theorem good_head (hs : s.slots = l1 ++ sl :: l2) (hg : sl.gone = false) (h : InvK c s) :
    GoodL c.P s.m.k (blkOf sl.o :: (blks l1 ++ blks l2)) := by
  unfold InvK at h; rw [hs] at h
  exact h.perm (blks_mid_live hg l1 l2)

theorem tight_head (hs : s.slots = l1 ++ sl :: l2) (hg : sl.gone = false) (h : Tight c s) :
    TightL c.P s.m.k (blkOf sl.o :: (blks l1 ++ blks l2)) := by
  unfold Tight at h; rw [hs] at h
  exact h.perm (blks_mid_live hg l1 l2)

theorem inv_set_live (hs : s.slots = l1 ++ sl :: l2) {i : Nat} (hi : l1.length = i) {m' : Mach}
    {sl' : Slot} (hg : sl'.gone = false)
    (h : GoodL c.P m'.k (blkOf sl'.o :: (blks l1 ++ blks l2))) :
    InvK c (setSlot s m' i sl') := by
  unfold InvK setSlot
  simp only [hs, ← hi, set_split]
  exact h.perm (blks_mid_live hg l1 l2).symm

theorem tight_set_live (hs : s.slots = l1 ++ sl :: l2) {i : Nat} (hi : l1.length = i) {m' : Mach}
    {sl' : Slot} (hg : sl'.gone = false)
    (h : TightL c.P m'.k (blkOf sl'.o :: (blks l1 ++ blks l2))) :
    Tight c (setSlot s m' i sl') := by
  unfold Tight setSlot
  simp only [hs, ← hi, set_split]
  exact h.perm (blks_mid_live hg l1 l2).symm

theorem inv_set_gone (hs : s.slots = l1 ++ sl :: l2) {i : Nat} (hi : l1.length = i) {m' : Mach}
    {sl' : Slot} (hg : sl'.gone = true)
    (h : GoodL c.P m'.k (blks l1 ++ blks l2)) :
    InvK c (setSlot s m' i sl') := by
  unfold InvK setSlot
  simp only [hs, ← hi, set_split, blks_mid_gone hg]
  exact h

theorem tight_set_gone (hs : s.slots = l1 ++ sl :: l2) {i : Nat} (hi : l1.length = i) {m' : Mach}
    {sl' : Slot} (hg : sl'.gone = true)
    (h : TightL c.P m'.k (blks l1 ++ blks l2)) :
    Tight c (setSlot s m' i sl') := by
  unfold Tight setSlot
  simp only [hs, ← hi, set_split, blks_mid_gone hg]
  exact h

theorem inv_push {m' : Mach} {st : St} {v : PVec} {r : Bool} {rc : LM × PM}
    (h : GoodL c.P m'.k (blkOf ⟨st, v, rc⟩ :: blks s.slots)) : InvK c (push s m' st v r rc) := by
  unfold InvK push
  exact h.perm (blks_push _ _ _).symm

theorem tight_push {m' : Mach} {st : St} {v : PVec} {r : Bool} {rc : LM × PM}
    (h : TightL c.P m'.k (blkOf ⟨st, v, rc⟩ :: blks s.slots)) : Tight c (push s m' st v r rc) := by
  unfold Tight push
  exact h.perm (blks_push _ _ _).symm

end transfer

end DryocVerif.Proofs.Protected
