import DryocVerif.Proofs.Protected
/-
C15, the allocation ledger on PAIRS `(base page, size)`: the ghost logs `Kernel.al` (appended to by `alloc`) and
`Kernel.fr` (appended to by `dealloc`) are part of the invariant `GoodL` (`led`, `albase`), hence of `Inv`:
allocated = freed + owned by the live slots, and the allocated bases are pairwise different.
-/
namespace DryocVerif.Proofs.Protected
open DryocVerif DryocVerif.Model.Protected

/-- the blocks `(base page, capacity)` owned by the live slots -/
def ownedSlots (slots : List Slot) : List (Nat × Nat) :=
  slots.flatMap fun sl => if sl.gone then [] else blkP sl.o.v

theorem ownedB_blks (slots : List Slot) : ownedB (blks slots) = ownedSlots slots := by
  induction slots with
  | nil => rfl
  | cons sl rest ih =>
    by_cases hg : sl.gone = true
    · rw [blks_cons_gone hg, ih]; simp [ownedSlots, hg]
    · have hg' : sl.gone = false := by simpa using hg
      rw [blks_cons_live hg', ownedB_cons, ih]; simp [ownedSlots, hg', blkOf]

/-- strictly increasing ⇒ no duplicates -/
theorem nodup_of_increasing {l : List Nat} (h : l.Pairwise (· < ·)) : l.Nodup :=
  h.imp (fun hab => Nat.ne_of_lt hab)

/-- **the ledger in a state satisfying `Inv`**: as multisets of `(base, size)`, the blocks allocated so far are the
blocks freed so far plus the blocks of the live slots; every allocated base is different and below `brk` -/
theorem ledger_of_inv {c : Cfg} {s : State} (h : Inv c s) :
    s.m.k.al.Perm (s.m.k.fr ++ ownedSlots s.slots) ∧ (s.m.k.al.map Prod.fst).Nodup ∧
    ∀ b ∈ s.m.k.al.map Prod.fst, b < s.m.k.brk := by
  refine ⟨?_, nodup_of_increasing h.k.albase.1, h.k.albase.2⟩
  rw [List.perm_iff_count]
  intro z
  rw [List.count_append, ← ownedB_blks]
  exact h.k.led z

/-- after the teardown of a state satisfying `Inv`: freed = allocated, as multisets of `(base, size)` -/
theorem ledger_finish {c : Cfg} (hP : 0 < c.P) {s : State} (h : Inv c s) :
    (finish c s).m.k.fr.Perm (finish c s).m.k.al ∧ ((finish c s).m.k.al.map Prod.fst).Nodup ∧
    (finish c s).m.k.fr.Nodup := by
  have g : GoodL c.P (dropAllM c { s.m with rel := [] } s.slots).k [] :=
    good_dropAll hP s.slots (m := { s.m with rel := [] }) h.k
  have hperm : (finish c s).m.k.fr.Perm (finish c s).m.k.al := by
    rw [List.perm_iff_count]
    intro z
    have := g.led z
    simp only [ownedB, List.flatMap_nil, List.count_nil, Nat.add_zero] at this
    exact this.symm
  have hnd : ((finish c s).m.k.al.map Prod.fst).Nodup := nodup_of_increasing g.albase.1
  refine ⟨hperm, hnd, ?_⟩
  have : (finish c s).m.k.al.Nodup :=
    List.Pairwise.of_map Prod.fst (fun a b hab heq => hab (by rw [heq])) hnd
  exact hperm.nodup_iff.mpr this

end DryocVerif.Proofs.Protected
