import DryocVerif.Proofs.ProtectedProbe
/-
Contents of containers under `clone` and `resize` (C14 "contents are unchanged"):
the clone holds the same bytes; `resize` keeps the common prefix and fills with zeroes.
-/
namespace DryocVerif.Proofs.Protected
open DryocVerif DryocVerif.Model.Protected

/-! ### list facts -/

theorem zeros_drop (n k : Nat) : (zeros n).drop k = zeros (n - k) := by
  simp [zeros, List.drop_replicate]

theorem zeros_zero : zeros 0 = [] := rfl

theorem data_length {v : PVec} (h : v.len ≤ v.buf.length) : v.data.length = v.len := by
  simp [PVec.data]; omega

/-- the first `hi` bytes after `setZeros b lo hi` -/
theorem take_setZeros (b : Bytes) (lo hi : Nat) (h : lo ≤ b.length) (hlh : lo ≤ hi) :
    (setZeros b lo hi).take hi = b.take lo ++ zeros (hi - lo) := by
  unfold setZeros
  have hl : (b.take lo ++ zeros (hi - lo)).length = hi := by simp; omega
  rw [List.take_append_of_le_length (by omega), List.take_of_length_le (by omega)]

/-- the first `hi` bytes after `setFill b lo hi x` -/
theorem take_setFill (b : Bytes) (lo hi : Nat) (x : UInt8) (h : lo ≤ b.length) (hlh : lo ≤ hi) :
    (setFill b lo hi x).take hi = b.take lo ++ List.replicate (hi - lo) x := by
  unfold setFill
  have hl : (b.take lo ++ List.replicate (hi - lo) x).length = hi := by simp; omega
  rw [List.take_append_of_le_length (by omega), List.take_of_length_le (by omega)]

/-! ### `Vec::clone` -/

theorem empty_data : PVec.empty.data = [] := rfl
@[simp] theorem empty_len : PVec.empty.len = 0 := rfl
@[simp] theorem empty_cap : PVec.empty.cap = 0 := rfl
@[simp] theorem empty_buf : PVec.empty.buf = [] := rfl

theorem vecClone_data (c : Cfg) (m : Mach) (v : PVec) (h : v.len ≤ v.buf.length) :
    (vecClone c m v).2.len = v.len ∧ (vecClone c m v).2.data = v.data := by
  unfold vecClone
  split
  · rename_i h0
    refine ⟨h0.symm, ?_⟩
    simp [PVec.data, h0]
  · have hd := data_length h
    refine ⟨rfl, ?_⟩
    show List.take v.len (List.take v.len (v.data ++ zeros v.len)) = v.data
    rw [List.take_take, Nat.min_self, List.take_append_of_le_length (by omega),
      List.take_of_length_le (by omega)]

/-! ### `Vec::resize(n, b)` -/

theorem vecResize_len (c : Cfg) (m : Mach) (v : PVec) (n : Nat) (b : UInt8 := 0) :
    (vecResize c m v n b).2.len = n := by
  unfold vecResize; split
  · rfl
  · split <;> rfl

/-- well-formedness (`len ≤ cap = buf.length`) is kept by `resize` -/
theorem vecResize_wf (c : Cfg) (m : Mach) (v : PVec) (n : Nat) (hl : v.len ≤ v.cap)
    (hb : v.buf.length = v.cap) (b : UInt8 := 0) :
    (vecResize c m v n b).2.len ≤ (vecResize c m v n b).2.cap ∧
    (vecResize c m v n b).2.buf.length = (vecResize c m v n b).2.cap := by
  unfold vecResize
  split
  · exact ⟨by simp only []; omega, hb⟩
  split
  · refine ⟨by simpa, ?_⟩
    simp only []
    rw [setFill_length _ _ _ _ (by omega) (by omega)]; exact hb
  · have hg := growCap_ge v.cap n
    refine ⟨hg.1, ?_⟩
    simp only []
    rw [setFill_length _ _ _ _ (by omega) (by simp; omega)]; simp

/-- **prefix law of `resize`, general fill byte**: the first `min old new` bytes are kept, the new bytes are `b` —
whether the vector shrinks, grows in place or reallocates -/
theorem vecResize_data_fill (c : Cfg) (m : Mach) (v : PVec) (n : Nat) (b : UInt8) (hl : v.len ≤ v.cap)
    (hb : v.buf.length = v.cap) :
    (vecResize c m v n b).2.data = v.data.take n ++ List.replicate (n - v.len) b := by
  unfold vecResize
  split
  · rename_i h1
    simp only [PVec.data]
    rw [List.take_take, Nat.min_eq_left h1, Nat.sub_eq_zero_of_le h1, List.replicate_zero, List.append_nil]
  split
  · rename_i h1 h2
    simp only [PVec.data]
    rw [take_setFill _ _ _ _ (by omega) (by omega), List.take_take, Nat.min_eq_right (by omega)]
  · rename_i h1 h2
    have hg := growCap_ge v.cap n
    have e1 : ((v.buf ++ zeros (growCap v.cap n)).take (growCap v.cap n)).take v.len = v.buf.take v.len := by
      rw [List.take_take, Nat.min_eq_left (by omega), List.take_append_of_le_length (by omega)]
    have e2 : (v.buf.take v.len).take n = v.buf.take v.len := by
      rw [List.take_take, Nat.min_eq_right (by omega)]
    simp only [PVec.data]
    rw [take_setFill _ _ _ _ (by simp; omega) (by omega), e1, e2]

/-- **prefix law of `resize`** (fill byte 0): the first `min old new` bytes are kept, the new bytes are zero -/
theorem vecResize_data (c : Cfg) (m : Mach) (v : PVec) (n : Nat) (hl : v.len ≤ v.cap)
    (hb : v.buf.length = v.cap) :
    (vecResize c m v n).2.data = v.data.take n ++ zeros (n - v.len) :=
  vecResize_data_fill c m v n 0 hl hb

/-! ### `writeV` -/

@[simp] theorem writeV_len (v : PVec) (src : Bytes) : (writeV v src).len = v.len := rfl

theorem writeV_data (v : PVec) (src : Bytes) (h1 : src.length ≤ v.len) (h2 : v.len ≤ v.buf.length) :
    (writeV v src).data = src ++ v.data.drop src.length := by
  simp only [PVec.data, writeV]
  rw [List.take_take, Nat.min_eq_left h2, List.take_append, List.take_of_length_le h1, List.drop_take]

/-! ### `ResizableBytes::resize` of a locked region -/

theorem lockedResize_some {c : Cfg} {m : Mach} {v : PVec} {rc : LM × PM} {n : Nat} {b : UInt8} {nv : PVec}
    (hl : v.len ≤ v.buf.length) (h : (lockedResize c m v rc n b).2 = some nv) :
    nv.len = n ∧ nv.len ≤ nv.buf.length ∧ nv.data = v.data.take n ++ List.replicate (n - v.len) b := by
  have hwf := vecResize_wf c m PVec.empty n (by simp) (by simp) b
  have hlen := vecResize_len c m PVec.empty n b
  have hdat := vecResize_data_fill c m PVec.empty n b (by simp) (by simp)
  rw [empty_data, empty_len, List.take_nil, List.nil_append, Nat.sub_zero] at hdat
  unfold lockedResize at h
  simp only [] at h
  by_cases hr : (lockV c (vecResize c m PVec.empty n b).1 (vecResize c m PVec.empty n b).2 recNew).2 = true
  · simp only [hr, if_true, Option.some.injEq] at h
    subst h
    have hsl : (v.data.take n).length ≤ (vecResize c m PVec.empty n b).2.len := by
      rw [hlen]; simp; omega
    refine ⟨hlen, ?_, ?_⟩
    · rw [writeV_len, writeV_buf_length]; omega
    · rw [writeV_data _ _ hsl (by omega), hdat, List.drop_replicate]
      congr 2
      rw [List.length_take, data_length hl]; omega
  · simp [hr] at h

/-! ### token level -/

theorem step_clone (c : Cfg) (s : State) (i : Nat) :
    step c s ⟨.clone, i⟩ = opClone c (resetRel s) i := rfl
theorem step_resize (c : Cfg) (s : State) (i n : Nat) (b : UInt8 := 0) :
    step c s ⟨.resize n b, i⟩ = opResize c (resetRel s) i n b := rfl

theorem doCloneLocked_ok {c : Cfg} {s : State} {sl : Slot} {ro : Bool}
    (hl : sl.o.v.len ≤ sl.o.v.buf.length) (h : (doCloneLocked c s sl ro).1 = .ok) :
    ∃ nsl : Slot, (doCloneLocked c s sl ro).2.slots = s.slots ++ [nsl] ∧ nsl.gone = false ∧
      nsl.o.st = .prot .locked (if ro then .ro else .rw) ∧ nsl.o.v.len = sl.o.v.len ∧
      nsl.o.v.data = sl.o.v.data := by
  unfold doCloneLocked at h ⊢
  simp only [] at h ⊢
  cases hn : (lockedResize c s.m PVec.empty (.locked, .rw) sl.o.v.len).2 with
  | none => simp [hn] at h
  | some nv =>
    have hs := lockedResize_some (v := PVec.empty) (by simp) hn
    simp only [push]
    refine ⟨_, rfl, rfl, rfl, ?_, ?_⟩
    · simp [hs.1]
    · simp only []
      rw [writeV_data _ _ (by rw [data_length hl, hs.1]; exact Nat.le_refl _) hs.2.1]
      have : nv.data.length = sl.o.v.data.length := by
        rw [data_length hs.2.1, data_length hl, hs.1]
      rw [List.drop_of_length_le (by omega), List.append_nil]

/-- **`clone` keeps the data**: a successful `clone` of a live slot appends exactly one live slot, in
the same type state, whose `len` bytes equal the original's -/
theorem opClone_ok {c : Cfg} {s : State} (h : Inv c s) {i : Nat} {sl : Slot}
    (hi : s.slots[i]? = some sl) (hg : sl.gone = false) (hok : (opClone c s i).1 = .ok) :
    ∃ nsl : Slot, (opClone c s i).2.slots = s.slots ++ [nsl] ∧ nsl.gone = false ∧
      nsl.o.st = sl.o.st ∧ nsl.o.v.len = sl.o.v.len ∧ nsl.o.v.data = sl.o.v.data := by
  have hb := inv_block h hi hg
  have hl : sl.o.v.len ≤ sl.o.v.buf.length := by
    have h1 : sl.o.v.len ≤ sl.o.v.cap := hb.lenle
    have h2 : sl.o.v.buf.length = sl.o.v.cap := hb.buflen
    omega
  have hv := vecClone_data c s.m sl.o.v hl
  unfold opClone at hok ⊢
  rw [withLive_eq hi hg] at hok ⊢
  have locked : ∀ ro : Bool, ((if c.isArr = true then (Res.na, s) else doCloneLocked c s sl ro).1 = .ok) →
      ∃ nsl : Slot, (if c.isArr = true then (Res.na, s) else doCloneLocked c s sl ro).2.slots = s.slots ++ [nsl] ∧
        nsl.gone = false ∧ nsl.o.st = .prot .locked (if ro then .ro else .rw) ∧ nsl.o.v.len = sl.o.v.len ∧
        nsl.o.v.data = sl.o.v.data := by
    intro ro hok
    by_cases ha : c.isArr = true
    · simp [ha] at hok
    · simp only [ha] at hok ⊢
      exact doCloneLocked_ok hl hok
  cases hst : sl.o.st with
  | plain => simp only [hst] at hok ⊢; exact ⟨_, rfl, rfl, rfl, hv.1, hv.2⟩
  | prot lm pm =>
    cases lm <;> cases pm <;> simp only [hst] at hok ⊢
    · exact ⟨_, rfl, rfl, rfl, hv.1, hv.2⟩
    · exact ⟨_, rfl, rfl, rfl, hv.1, hv.2⟩
    · simp at hok
    · exact locked true hok
    · exact locked false hok
    · simp at hok

/-- **prefix law of the `resize` token** (any fill byte) -/
theorem opResize_ok {c : Cfg} {s : State} (h : Inv c s) {i : Nat} {sl : Slot}
    (hi : s.slots[i]? = some sl) (hg : sl.gone = false) {n : Nat} {b : UInt8}
    (hok : (opResize c s i n b).1 = .ok) :
    ∃ nsl : Slot, (opResize c s i n b).2.slots = s.slots.set i nsl ∧ nsl.gone = false ∧
      nsl.o.st = sl.o.st ∧ nsl.o.v.len = n ∧
      nsl.o.v.data = sl.o.v.data.take n ++ List.replicate (n - sl.o.v.len) b := by
  have hb := inv_block h hi hg
  have h1 : sl.o.v.len ≤ sl.o.v.cap := hb.lenle
  have h2 : sl.o.v.buf.length = sl.o.v.cap := hb.buflen
  unfold opResize at hok ⊢
  rw [withLive_eq hi hg] at hok ⊢
  by_cases ha : c.isArr = true
  · simp [ha] at hok
  simp only [ha] at hok ⊢
  have plain : ∀ st : St, ∃ nsl : Slot,
      (setSlot s (vecResize c s.m sl.o.v n b).1 i
        { sl with o := ⟨st, (vecResize c s.m sl.o.v n b).2, sl.o.rcd⟩, rnd := sl.rnd && decide (0 < n) }).slots
        = s.slots.set i nsl ∧ nsl.gone = false ∧ nsl.o.st = st ∧ nsl.o.v.len = n ∧
      nsl.o.v.data = sl.o.v.data.take n ++ List.replicate (n - sl.o.v.len) b :=
    fun st => ⟨_, rfl, hg, rfl, vecResize_len c s.m sl.o.v n b, vecResize_data_fill _ _ _ _ _ h1 h2⟩
  cases hst : sl.o.st with
  | plain => simp only [hst] at hok ⊢; exact plain _
  | prot lm pm =>
    cases lm <;> cases pm <;> simp only [hst] at hok ⊢
    · simp at hok
    · exact plain _
    · simp at hok
    · simp at hok
    · cases hn : (lockedResize c s.m sl.o.v sl.o.rcd n b).2 with
      | none => simp [hn] at hok
      | some nv =>
        have hs := lockedResize_some (by omega) hn
        simp only []
        exact ⟨_, rfl, hg, rfl, hs.1, hs.2.2⟩
    · simp at hok

end DryocVerif.Proofs.Protected
