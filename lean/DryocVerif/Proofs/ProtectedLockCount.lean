import DryocVerif.Proofs.Protected
/-
`lockedPages` (the harness' `lck=`) counted from the slots: in a state satisfying `Inv` and `Tight` the number of
locked pages is the sum, over the live `Locked` slots, of the number of data pages `⌈len / P⌉`.
-/
namespace DryocVerif.Proofs.Protected
open DryocVerif DryocVerif.Model.Protected

/-! ### counting an interval of `List.range` -/

theorem countP_range_interval (a k n : Nat) :
    (List.range n).countP (fun p => decide (a ≤ p ∧ p < a + k)) = min (a + k) n - min a n := by
  induction n with
  | zero => simp
  | succ n ih =>
    rw [List.range_succ, List.countP_append, ih]
    by_cases h : a ≤ n ∧ n < a + k
    · simp [h]; omega
    · simp [h]; omega

theorem countP_range_interval_in (a k n : Nat) (h : a + k ≤ n) :
    (List.range n).countP (fun p => decide (a ≤ p ∧ p < a + k)) = k := by
  rw [countP_range_interval]; omega

theorem countP_congr' {α : Type} (l : List α) (f g : α → Bool) (h : ∀ x ∈ l, f x = g x) :
    l.countP f = l.countP g := by
  induction l with
  | nil => rfl
  | cons a l ih =>
    simp only [List.countP_cons, h a (by simp)]
    rw [ih (fun x hx => h x (by simp [hx]))]

/-- the count of a disjunction of two predicates that are never true together is the sum of the counts -/
theorem countP_or_disjoint {α : Type} (l : List α) (f g : α → Bool) (h : ∀ x ∈ l, ¬ (f x = true ∧ g x = true)) :
    l.countP (fun x => f x || g x) = l.countP f + l.countP g := by
  induction l with
  | nil => rfl
  | cons a l ih =>
    simp only [List.countP_cons]
    rw [ih (fun x hx => h x (by simp [hx]))]
    have := h a (by simp)
    cases hf : f a <;> cases hg : g a <;> simp_all <;> omega

/-! ### locked pages of a block list -/

instance (P : Nat) (v : PVec) (p : Nat) : Decidable (inBlock P v p) := by
  unfold inBlock; infer_instance

/-- number of locked data pages the blocks account for -/
def lockedSum (P : Nat) (bl : List Blk) : Nat := (bl.map fun b => if b.dl then pagesOf P b.v.len else 0).sum

def inAnyB (P : Nat) (bl : List Blk) (p : Nat) : Bool := bl.any fun b => decide (inBlock P b.v p)

/-- the locked pages inside one block: its data pages if the block is locked, none otherwise -/
theorem countP_block {P : Nat} (hP : 0 < P) {k : Kernel} {b : Blk} (hb : BlockOK P k b) (n : Nat)
    (hn : 0 < b.v.cap → b.v.base + b.v.cap / P + 3 ≤ n) :
    (List.range n).countP (fun p => k.locked p && decide (inBlock P b.v p)) =
      if b.dl then pagesOf P b.v.len else 0 := by
  have hple := pagesOf_le hP hb.lenle
  have e : ∀ p ∈ List.range n, (k.locked p && decide (inBlock P b.v p)) =
      (b.dl && decide (b.v.base + 1 ≤ p ∧ p < b.v.base + 1 + pagesOf P b.v.len)) := by
    intro p _
    by_cases hin : inBlock P b.v p
    · have hc := hin.1
      simp only [hin, decide_true, Bool.and_true]
      by_cases hd : b.v.base + 1 ≤ p ∧ p < b.v.base + 1 + pagesOf P b.v.len
      · rw [(hb.data p hd.1 hd.2).2]; simp [hd]
      · have : k.locked p = false := by
          by_cases h0 : p = b.v.base
          · subst h0; exact (hb.fore hc).2
          by_cases h1 : p = b.v.base + b.v.cap / P + 2
          · subst h1; exact (hb.aft hc).2
          · have l1 := hin.2.1; have l2 := hin.2.2
            exact (hb.spare hc p (by omega) (by omega)).2
        rw [this]; simp [hd]
    · have hd : ¬ (b.v.base + 1 ≤ p ∧ p < b.v.base + 1 + pagesOf P b.v.len) :=
        fun hd => hin (data_in_block hP hb.lenle hd.1 hd.2)
      simp [hin, hd]
  rw [countP_congr' _ _ _ e]
  cases hdl : b.dl
  · simp
  · simp only [Bool.true_and, if_true]
    by_cases hc : 0 < b.v.cap
    · exact countP_range_interval_in _ _ _ (by have := hn hc; omega)
    · have h0 : b.v.len = 0 := by have := hb.lenle; omega
      rw [h0, pagesOf_zero hP, countP_range_interval]; omega

theorem lockedSum_count {P : Nat} (hP : 0 < P) {k : Kernel} (n : Nat) : ∀ (bl : List Blk),
    (∀ b ∈ bl, BlockOK P k b) → bl.Pairwise (Disj P) →
    (∀ b ∈ bl, 0 < b.v.cap → b.v.base + b.v.cap / P + 3 ≤ n) →
    (List.range n).countP (fun p => k.locked p && inAnyB P bl p) = lockedSum P bl := by
  intro bl
  induction bl with
  | nil => intro _ _ _; simp [inAnyB, lockedSum]
  | cons b R ih =>
    intro hok hd hn
    have hd' := List.pairwise_cons.mp hd
    have e : ∀ p ∈ List.range n, (k.locked p && inAnyB P (b :: R) p) =
        ((k.locked p && decide (inBlock P b.v p)) || (k.locked p && inAnyB P R p)) := by
      intro p _
      simp only [inAnyB, List.any_cons]
      cases k.locked p <;> simp
    rw [countP_congr' _ _ _ e, countP_or_disjoint, countP_block hP (hok b (by simp)) n (hn b (by simp)),
      ih (fun x hx => hok x (by simp [hx])) hd'.2 (fun x hx => hn x (by simp [hx]))]
    · simp [lockedSum]
    · intro p _ ⟨h1, h2⟩
      simp only [Bool.and_eq_true, decide_eq_true_eq, inAnyB, List.any_eq_true] at h1 h2
      obtain ⟨_, x, hx, hxp⟩ := h2
      exact hd'.1 x hx p ⟨h1.2, hxp⟩

/-- **locked pages = data pages of the locked blocks** -/
theorem lockedPages_sum {P : Nat} (hP : 0 < P) {k : Kernel} {bl : List Blk} (g : GoodL P k bl)
    (t : TightL P k bl) : lockedPages k = lockedSum P bl := by
  unfold lockedPages
  have e : ∀ p ∈ List.range k.brk, k.locked p = (k.locked p && inAnyB P bl p) := by
    intro p _
    cases hl : k.locked p
    · rfl
    · simp only [Bool.true_and]
      cases ha : inAnyB P bl p
      · exfalso
        have : k.locked p = false := by
          apply t p
          intro b hb hin
          have : inAnyB P bl p = true := by
            simp only [inAnyB, List.any_eq_true, decide_eq_true_eq]
            exact ⟨b, hb, hin⟩
          rw [ha] at this; simp at this
        rw [hl] at this; simp at this
      · rfl
  rw [countP_congr' _ _ _ e]
  exact lockedSum_count hP k.brk bl g.ok g.disj (fun b hb hc => (g.ok b hb).hi hc)

/-! ### at the level of states -/

/-- data pages of the live `Locked` slots -/
def lockedSlotPages (c : Cfg) (slots : List Slot) : Nat :=
  (slots.map fun sl => if !sl.gone && isLockedSt sl.o.st then pagesOf c.P sl.o.v.len else 0).sum

theorem stLocked_eq_isLockedSt (st : St) : stLocked st = isLockedSt st := by
  cases st with
  | plain => rfl
  | prot lm pm => cases lm <;> rfl

theorem lockedSum_blks (c : Cfg) (slots : List Slot) : lockedSum c.P (blks slots) = lockedSlotPages c slots := by
  induction slots with
  | nil => rfl
  | cons sl rest ih =>
    by_cases hg : sl.gone = true
    · rw [blks_cons_gone hg, ih]
      simp [lockedSlotPages, hg]
    · have hg' : sl.gone = false := by simpa using hg
      rw [blks_cons_live hg']
      simp only [lockedSum, List.map_cons, List.sum_cons] at ih ⊢
      rw [ih]
      simp [lockedSlotPages, hg', blkOf, stLocked_eq_isLockedSt]

theorem lockedSlotPages_filter (c : Cfg) (slots : List Slot) :
    lockedSlotPages c slots =
      ((slots.filter fun sl => !sl.gone && isLockedSt sl.o.st).map fun sl => pagesOf c.P sl.o.v.len).sum := by
  induction slots with
  | nil => rfl
  | cons sl rest ih =>
    simp only [lockedSlotPages, List.map_cons, List.sum_cons] at ih ⊢
    rw [ih]
    by_cases h : (!sl.gone && isLockedSt sl.o.st) = true
    · simp [List.filter_cons, h]
    · simp [List.filter_cons, h]

theorem lockedPages_eq_slots {c : Cfg} (hP : 0 < c.P) {s : State} (h : Inv c s) (ht : Tight c s) :
    lockedPages s.m.k = lockedSlotPages c s.slots := by
  rw [lockedPages_sum hP h.k ht, lockedSum_blks]

end DryocVerif.Proofs.Protected
