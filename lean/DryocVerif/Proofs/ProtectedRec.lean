import DryocVerif.Proofs.ProtectedStep2
/-
The RECORD part of the invariant: the runtime record `d.lm` / `d.pm` of every live `Protected` region
(`Obj.rcd`, the data `Drop` / `Zeroize` consult) equals its type-level state, after every token.  Pure bookkeeping
(no kernel involved): every transition writes the record exactly where it changes the type.
-/
namespace DryocVerif.Proofs.Protected
open DryocVerif DryocVerif.Model.Protected

theorem slotRec_congr {sl sl' : Slot} (h : SlotRec sl) (hg : sl'.gone = sl.gone) (hst : sl'.o.st = sl.o.st)
    (hr : sl'.o.rcd = sl.o.rcd) : SlotRec sl' := by
  intro hgone lm pm hs
  rw [hr]; exact h (by rw [← hg]; exact hgone) lm pm (by rw [← hst]; exact hs)

theorem slotRec_gone {sl : Slot} (h : sl.gone = true) : SlotRec sl := by
  intro hg; rw [h] at hg; simp at hg

theorem slotRec_mk {sl : Slot} (lm : LM) (pm : PM) (hst : sl.o.st = .prot lm pm) (hr : sl.o.rcd = (lm, pm)) :
    SlotRec sl := by
  intro _ lm' pm' hs
  rw [hst] at hs
  injection hs with e1 e2
  rw [hr, e1, e2]

theorem slotRec_plain {sl : Slot} (hst : sl.o.st = .plain) : SlotRec sl := by
  intro _ lm pm hs; rw [hst] at hs; simp at hs

theorem rec_setSlot {s : State} (h : RecOK s) (m : Mach) (i : Nat) {sl' : Slot} (h' : SlotRec sl') :
    RecOK (setSlot s m i sl') := by
  intro x hx
  simp only [setSlot] at hx
  rcases List.mem_or_eq_of_mem_set hx with hx | hx
  · exact h x hx
  · rw [hx]; exact h'

theorem rec_push {s : State} (h : RecOK s) (m : Mach) (st : St) (v : PVec) (rnd : Bool) (rc : LM × PM)
    (h' : ∀ lm pm, st = .prot lm pm → rc = (lm, pm)) : RecOK (push s m st v rnd rc) := by
  intro x hx
  simp only [push, List.mem_append, List.mem_singleton] at hx
  rcases hx with hx | hx
  · exact h x hx
  · rw [hx]; intro _ lm pm hs; exact h' lm pm hs

theorem rec_mach {s : State} (h : RecOK s) (m' : Mach) : RecOK ⟨m', s.slots⟩ := h

theorem rec_withLive {s : State} (h : RecOK s) (i : Nat) (g : Res) (f : Slot → Res × State)
    (hf : ∀ sl, sl ∈ s.slots → sl.gone = false → RecOK (f sl).2) : RecOK (withLive s i g f).2 := by
  apply withLive_elim (Q := fun r => RecOK r.2) _ _ _ _ h h
  intro sl l1 l2 hs _ hg
  exact hf sl (mem_split hs) hg

theorem rec_doLock {c : Cfg} {s : State} (h : RecOK s) (i : Nat) (sl : Slot) (rc : LM × PM) (pm : PM)
    (hrc : rc.2 = pm) : RecOK (doLock c s i sl rc pm).2 := by
  unfold doLock; simp only []
  split
  · exact rec_setSlot h _ _ (slotRec_mk .locked pm rfl (by rw [← hrc]))
  · exact rec_setSlot h _ _ (slotRec_gone rfl)

theorem rec_doNewLocked {c : Cfg} {s : State} (h : RecOK s) (m : Mach) (v : PVec) (src : Option Bytes)
    (ro rnd : Bool) : RecOK (doNewLocked c s m v src ro rnd).2 := by
  unfold doNewLocked; simp only []
  split
  · apply rec_push h
    intro lm pm hs
    injection hs with e1 e2
    rw [← e1, ← e2]
  · exact h

theorem rec_doFromSlice {c : Cfg} {s : State} (h : RecOK s) (n : Nat) (ro : Bool) :
    RecOK (doFromSlice c s n ro).2 := by
  unfold doFromSlice
  split
  · split
    · exact h
    · exact rec_doNewLocked h _ _ _ _ _
  · exact rec_doNewLocked h _ _ _ _ _

theorem rec_doCloneLocked {c : Cfg} {s : State} (h : RecOK s) (sl : Slot) (ro : Bool) :
    RecOK (doCloneLocked c s sl ro).2 := by
  unfold doCloneLocked; simp only []
  split
  · exact h
  · apply rec_push h
    intro lm pm hs
    injection hs with e1 e2
    rw [← e1, ← e2]

theorem rec_opCloneFrom {c : Cfg} {s : State} (h : RecOK s) (i j : Nat) : RecOK (opCloneFrom c s i j).2 := by
  unfold opCloneFrom
  split
  · exact h
  split
  · rename_i d src hd hsrc
    split
    · exact h
    rename_i hcond
    simp only [Bool.or_eq_true, decide_eq_true_eq, not_or] at hcond
    have hg : d.gone = false := by simpa using hcond.1.1
    have key : ∀ (m m' : Mach) (o : Obj), cloneObj c m src.o = some (m', some o) → ∀ m'' : Mach,
        RecOK (setSlot s m'' i { d with o := o, rnd := src.rnd }) := by
      intro m m' o ho m''
      apply rec_setSlot h
      intro _ lm pm hs
      exact (cloneObj_st ho).2 lm pm hs
    split
    · cases hp : cloneObj c s.m src.o with
      | none => exact h
      | some r1 =>
        obtain ⟨m1, ot⟩ := r1
        cases ot with
        | none => exact h
        | some tmp =>
          simp only []
          cases hq : cloneObj c m1 src.o with
          | none => exact h
          | some r2 =>
            obtain ⟨m2, oo⟩ := r2
            cases oo with
            | none => exact h
            | some o => exact key _ _ _ hq _
    · cases hp : cloneObj c s.m src.o with
      | none => exact h
      | some r1 =>
        obtain ⟨m1, oo⟩ := r1
        cases oo with
        | none => exact h
        | some o => exact key _ _ _ hp _
  · exact h

theorem rec_opSerde {c : Cfg} {s : State} (h : RecOK s) (json : Bool) (n : Nat) :
    RecOK (opSerde c s json n).2 := by
  unfold opSerde
  split
  · split
    · unfold doSerdeArrJson; simp only []
      split
      · split
        · apply rec_push h
          intro lm pm hs
          injection hs with e1 e2
          rw [← e1, ← e2]
        · exact h
      · exact h
    · exact rec_doNewLocked h _ _ _ _ _
  · exact rec_doFromSlice h _ _

/-- **every token keeps the runtime records in step with the type states** (no hypothesis: in particular also
`zeroize`, which touches neither) -/
theorem rec_stepCore {c : Cfg} {s : State} (h : RecOK s) (t : Tok) : RecOK (stepCore c s t).2 := by
  have probe : ∀ (f : Slot → Res × State), (∀ sl, (f sl).2 = s) → RecOK (withLive s t.idx .na f).2 := by
    intro f hf
    apply rec_withLive h
    intro sl _ _; rw [hf sl]; exact h
  unfold stepCore
  cases hop : t.op <;> simp only []
  case new =>
    unfold opNew; simp only []
    split
    · exact rec_push h _ _ _ _ _ (by intro lm pm hs; simp at hs)
    split
    · exact h
    · exact rec_push h _ _ _ _ _ (by intro lm pm hs; simp at hs)
  case fill b =>
    unfold opFill; apply rec_withLive h; intro sl hm hg
    have := slotRec_congr (sl' := { sl with o := { sl.o with v := fillV sl.o.v b }, rnd := false })
      (h sl hm) rfl rfl rfl
    split
    · exact rec_setSlot h _ _ this
    · exact rec_setSlot h _ _ this
    · exact h
  case lock =>
    unfold opLock; apply rec_withLive h; intro sl hm hg
    split
    · exact rec_doLock h _ _ _ _ rfl
    · rename_i pm hst
      exact rec_doLock h _ _ _ _ (by rw [h sl hm hg _ _ hst])
    · exact h
  case unlock =>
    unfold opUnlock; apply rec_withLive h; intro sl hm hg
    split
    · exact h
    · rename_i lm pm hst
      exact rec_setSlot h _ _ (slotRec_mk .unlocked pm rfl (by
        show (LM.unlocked, sl.o.rcd.2) = _
        rw [h sl hm hg _ _ hst]))
  case ro =>
    unfold opProtect; apply rec_withLive h; intro sl hm hg
    split
    · exact h
    · rename_i lm pm hst
      exact rec_setSlot h _ _ (slotRec_mk lm .ro rfl (by
        show (sl.o.rcd.1, PM.ro) = _
        rw [h sl hm hg _ _ hst]))
  case rw =>
    unfold opProtect; apply rec_withLive h; intro sl hm hg
    split
    · exact h
    · rename_i lm pm hst
      exact rec_setSlot h _ _ (slotRec_mk lm .rw rfl (by
        show (sl.o.rcd.1, PM.rw) = _
        rw [h sl hm hg _ _ hst]))
  case na =>
    unfold opNa; apply rec_withLive h; intro sl hm hg
    split
    · rename_i pm hst
      exact rec_setSlot h _ _ (slotRec_mk .unlocked .na rfl (by
        show (sl.o.rcd.1, PM.na) = _
        rw [h sl hm hg _ _ hst]))
    · exact h
  case clone =>
    unfold opClone; apply rec_withLive h; intro sl hm hg
    split
    · exact rec_push h _ _ _ _ _ (by intro lm pm hs; simp at hs)
    · exact rec_push h _ _ _ _ _ (by intro lm pm hs; injection hs with e1 e2; rw [← e1, ← e2]; rfl)
    · exact rec_push h _ _ _ _ _ (by intro lm pm hs; injection hs with e1 e2; rw [← e1, ← e2])
    · split
      · exact h
      · exact rec_doCloneLocked h _ _
    · split
      · exact h
      · exact rec_doCloneLocked h _ _
    · exact h
  case resize n b =>
    unfold opResize; apply rec_withLive h; intro sl hm hg
    split
    · exact h
    have cg : SlotRec { sl with o := { sl.o with v := (vecResize c s.m sl.o.v n b).2 }, rnd := sl.rnd && decide (0 < n) } :=
      slotRec_congr (h sl hm) rfl rfl rfl
    split
    · exact rec_setSlot h _ _ cg
    · exact rec_setSlot h _ _ cg
    · rename_i hst
      simp only []
      split
      · exact h
      · exact rec_setSlot h _ _ (slotRec_mk .locked .rw hst rfl)
    · exact h
  case drop =>
    unfold opDrop; apply rec_withLive h; intro sl hm hg
    exact rec_setSlot h _ _ (slotRec_gone rfl)
  case fsl n => exact rec_doFromSlice h _ _
  case fsro n => exact rec_doFromSlice h _ _
  case newlocked => exact rec_doNewLocked h _ _ _ _ _
  case genlocked => exact rec_doNewLocked h _ _ _ _ _
  case newrolocked => exact rec_doNewLocked h _ _ _ _ _
  case genrolocked => exact rec_doNewLocked h _ _ _ _ _
  case failfrom k => exact h
  case wprobe off =>
    unfold opWProbe; apply probe; intro sl
    split
    · rfl
    · split <;> rfl
  case rprobe off =>
    unfold opRProbe; apply probe; intro sl
    split
    · rfl
    · split <;> rfl
  case gprobe f =>
    unfold opGProbe; apply probe; intro sl
    split
    · rfl
    · simp only []; repeat' split
      all_goals rfl
  case wrap => exact h
  case bad => exact h
  case zeroize =>
    unfold opZeroize; apply rec_withLive h; intro sl hm hg
    split
    · exact rec_setSlot h _ _ (slotRec_congr
        (sl' := { sl with o := { sl.o with v := zeroizeV sl.o.v }, rnd := false }) (h sl hm) rfl rfl rfl)
    · have cg : SlotRec { sl with o := { sl.o with v := (protZeroize c s.m sl.o.v sl.o.rcd.1 sl.o.rcd.2).2 }, rnd := false } :=
        slotRec_congr (h sl hm) rfl rfl rfl
      exact rec_setSlot h _ _ cg
  case clonefrom j => exact rec_opCloneFrom h _ _
  case panicdrop =>
    unfold opDrop; apply rec_withLive h; intro sl hm hg
    exact rec_setSlot h _ _ (slotRec_gone rfl)
  case stacklock =>
    unfold opStackLock
    split
    · exact rec_doNewLocked h _ _ _ _ _
    · exact h
  case serde js n => exact rec_opSerde h _ _

end DryocVerif.Proofs.Protected
