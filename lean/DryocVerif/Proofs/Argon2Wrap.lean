import DryocVerif.Model.Argon2Wrap
import DryocVerif.Proofs.Argon2
/-
`index_alpha` without overflow checks (`Model/Argon2Wrap.lean`): equal to the checked model wherever that returns
`.ok`, different from the RFC 9106 position at the largest accepted memory.  Core Lean only.
-/
namespace DryocVerif.Proofs.Argon2Wrap
open DryocVerif DryocVerif.Model.Argon2 DryocVerif.Proofs.Argon2

theorem waddU32_of_ok {a b v : Nat} (h : addU32 a b = .ok v) : waddU32 a b = v := by
  unfold addU32 at h
  unfold waddU32
  split at h
  · cases h; exact Nat.mod_eq_of_lt (by assumption)
  · cases h

theorem wmulU32_of_ok {a b v : Nat} (h : mulU32 a b = .ok v) : wmulU32 a b = v := by
  unfold mulU32 at h
  unfold wmulU32
  split at h
  · cases h; exact Nat.mod_eq_of_lt (by assumption)
  · cases h

theorem wsubU32_of_ok {a b v : Nat} (ha : a < 2 ^ 32) (h : subU32 a b = .ok v) : wsubU32 a b = v := by
  unfold subU32 at h
  unfold wsubU32
  split at h
  · cases h
    rename_i hb
    have e : U32 = 2 ^ 32 := rfl
    rw [e, Nat.mod_eq_of_lt (a := b) (by omega)]
    omega
  · cases h

theorem addU32_ok_lt {a b v : Nat} (h : addU32 a b = .ok v) : v < 2 ^ 32 ∧ v = a + b := by
  unfold addU32 at h
  split at h
  · cases h; exact ⟨by assumption, rfl⟩
  · cases h

theorem mulU32_ok_lt {a b v : Nat} (h : mulU32 a b = .ok v) : v < 2 ^ 32 ∧ v = a * b := by
  unfold mulU32 at h
  split at h
  · cases h; exact ⟨by assumption, rfl⟩
  · cases h

theorem subU32_ok_le {a b v : Nat} (h : subU32 a b = .ok v) : v ≤ a ∧ v = a - b := by
  unfold subU32 at h
  split at h
  · cases h; exact ⟨Nat.sub_le _ _, rfl⟩
  · cases h

/-- `x >>= f = .ok v` splits -/
theorem bind_ok {α β : Type} {x : Outcome α} {f : α → Outcome β} {v : β} (h : (x >>= f) = .ok v) :
    ∃ a, x = .ok a ∧ f a = .ok v := by
  cases x with
  | ok a => exact ⟨a, rfl, h⟩
  | err => cases h
  | panic => cases h

theorem referenceAreaSizeW_of_ok {inst : Instance} {pos : Position} {sameLane : Bool} {w : Nat}
    (hi : pos.index < 2 ^ 32) (hl : inst.laneLength < 2 ^ 32)
    (h : referenceAreaSize inst pos sameLane = .ok w) :
    referenceAreaSizeW inst pos sameLane = w ∧ w < 2 ^ 32 := by
  unfold referenceAreaSize at h
  unfold referenceAreaSizeW
  split at h
  · rename_i h0
    rw [if_pos h0]
    split at h
    · rename_i hs
      rw [if_pos hs]
      have := subU32_ok_le h
      exact ⟨wsubU32_of_ok hi h, by omega⟩
    · rename_i hs
      rw [if_neg hs]
      split at h
      · rename_i hsl
        rw [if_pos hsl]
        obtain ⟨a, ha, h⟩ := bind_ok h
        obtain ⟨b, hb, h⟩ := bind_ok h
        have hb' := addU32_ok_lt hb
        have := subU32_ok_le h
        rw [wmulU32_of_ok ha, waddU32_of_ok hb]
        exact ⟨wsubU32_of_ok hb'.1 h, by omega⟩
      · rename_i hsl
        rw [if_neg hsl]
        split at h
        · rename_i hi0
          rw [if_pos hi0]
          obtain ⟨a, ha, h⟩ := bind_ok h
          have ha' := mulU32_ok_lt ha
          have := subU32_ok_le h
          rw [wmulU32_of_ok ha]
          exact ⟨wsubU32_of_ok ha'.1 h, by omega⟩
        · rename_i hi0
          rw [if_neg hi0]
          have ha' := mulU32_ok_lt h
          exact ⟨wmulU32_of_ok h, ha'.1⟩
  · rename_i h0
    rw [if_neg h0]
    split at h
    · rename_i hsl
      rw [if_pos hsl]
      obtain ⟨a, ha, h⟩ := bind_ok h
      obtain ⟨b, hb, h⟩ := bind_ok h
      have hb' := addU32_ok_lt hb
      have := subU32_ok_le h
      rw [wsubU32_of_ok hl ha, waddU32_of_ok hb]
      exact ⟨wsubU32_of_ok hb'.1 h, by omega⟩
    · rename_i hsl
      rw [if_neg hsl]
      split at h
      · rename_i hi0
        rw [if_pos hi0]
        obtain ⟨a, ha, h⟩ := bind_ok h
        have ha' := subU32_ok_le ha
        have := subU32_ok_le h
        rw [wsubU32_of_ok hl ha]
        exact ⟨wsubU32_of_ok (by omega) h, by omega⟩
      · rename_i hi0
        rw [if_neg hi0]
        have ha' := subU32_ok_le h
        exact ⟨wsubU32_of_ok hl h, by omega⟩

theorem startPositionW_of_ok {inst : Instance} {pos : Position} {s : Nat}
    (h : startPosition inst pos = .ok s) : startPositionW inst pos = s := by
  unfold startPosition at h
  unfold startPositionW
  split at h
  · rename_i h0
    rw [if_pos h0]
    split at h
    · rename_i hs
      rw [if_pos hs]
      cases h; rfl
    · rename_i hs
      rw [if_neg hs]
      obtain ⟨a, ha, h⟩ := bind_ok h
      rw [waddU32_of_ok ha]
      exact wmulU32_of_ok h
  · rename_i h0
    rw [if_neg h0]
    cases h; rfl

/-- **the release build computes what the checked build computes whenever the checked build does not panic**
(`u32` inputs): wrapping and checked `index_alpha` agree on every call the checked model answers with `.ok` -/
theorem indexAlphaW_eq_of_ok {inst : Instance} {pos : Position} {j1 : Nat} {sameLane : Bool} {v : Nat}
    (hi : pos.index < 2 ^ 32) (hl : inst.laneLength < 2 ^ 32)
    (h : indexAlpha inst pos j1 sameLane = .ok v) :
    indexAlphaW inst pos j1 sameLane = .ok v := by
  unfold indexAlpha at h
  obtain ⟨w, hw, h⟩ := bind_ok h
  obtain ⟨a, ha, h⟩ := bind_ok h
  obtain ⟨rel, hrel, h⟩ := bind_ok h
  obtain ⟨st, hst, h⟩ := bind_ok h
  obtain ⟨s, hs, h⟩ := bind_ok h
  obtain ⟨hw1, hw2⟩ := referenceAreaSizeW_of_ok hi hl hw
  have ha' := subU32_ok_le ha
  unfold indexAlphaW
  simp only [hw1, wsubU32_of_ok hw2 ha, wsubU32_of_ok (show a < 2 ^ 32 by omega) hrel,
    startPositionW_of_ok hst, waddU32_of_ok hs]
  exact h

/-- **Concrete: at the largest accepted memory the wrapped position is not the RFC position.**
`m_cost = 2^32 − 1` (= `memlimit = CRYPTO_PWHASH_MEMLIMIT_MAX`), one lane: `segment_length = 2^30 − 1`,
`lane_length = 2^32 − 4`.  At pass 1, slice 2, index `segment_length − 1`, `pseudo_rand = 0`, same lane:
`start_position + relative_position = 7·(2^30 − 1) − 3 = 7516192758 ≥ 2^32`.  RFC 9106 / 64-bit arithmetic:
`7516192758 mod (2^32 − 4) = 3221225466`.  `u32` wrapping: `(7516192758 mod 2^32) mod (2^32 − 4) = 3221225462`.
The checked build panics there (`indexAlpha_overflow_witness`). -/
theorem index_alpha_wrapping_ne_rfc :
    indexAlphaW bigInst { pass := 1, lane := 0, slice := 2, index := 2 ^ 30 - 2 } 0 true = .ok 3221225462
      ∧ refIndexN bigInst { pass := 1, lane := 0, slice := 2, index := 2 ^ 30 - 2 } 0 true = 3221225466
      ∧ indexAlpha bigInst { pass := 1, lane := 0, slice := 2, index := 2 ^ 30 - 2 } 0 true = .panic := by
  decide

end DryocVerif.Proofs.Argon2Wrap
