import DryocVerif.Gen.Protected
/-
Facts about `src/protected.rs` that `tools/rs2lean.py` (kernel `Protected`) re-reads on every run and emits as DATA, beyond the
integer arithmetic of the allocator (`Proofs/GenProtected.lean`):

* the ADDRESS every system call receives is the start of the slice the wrapper was given (`data.as_ptr()`), and every wrapper
  returns at once for an empty slice;
* each of the five type-state transitions has the one shape
  `self.swap_some_or_err(|old| { <wrapper>(old.a.as_slice())?; old.<field> = <value>; Ok(Protected::<…>::new()) })`:
  the wrapper is applied to the WHOLE data slice, its failure returns (`?`) BEFORE the runtime record is written, and exactly one
  field of the record is set — the translator refuses any other body, so a transition that skips the system call, calls it on another
  slice, updates the record first or forgets to update it fails the run;
* `Zeroize for Protected` (the drop path) is, token for token (error-reporting closures aside): under "the region is not empty",
  `mprotect_readwrite` if the RECORD is not `ReadWrite`; wipe the bytes; `munlock` if the RECORD says `Locked` — in this order — and
  `Drop::drop` is exactly `self.zeroize()`.

The Lean model does the same things in the same order (`Model.Protected.opProtect / opLock / opUnlock` write `rcd` after the kernel
call; `protZeroize` = `protAtWipe` → wipe → conditional `dryocMunlock`: `C14.rec_tracks_type`, `C14.drop_order`,
`C14.drop_wipes_while_locked`); the theorems below pin the DATA those definitions were written from.
-/
namespace DryocVerif.Proofs.GenProtectedShape
open DryocVerif

theorem syscall_addresses :
    ∀ r ∈ Gen.Protected.syscall_addr_args, r.2 = "data.as_ptr()" := by decide

theorem syscall_addresses_cover :
    Gen.Protected.syscall_addr_args.map Prod.fst =
      ["dryoc_mlock/c_mlock", "dryoc_mlock/munlock", "dryoc_munlock/c_munlock", "dryoc_mprotect_readonly/c_mprotect",
       "dryoc_mprotect_readwrite/c_mprotect", "dryoc_mprotect_noaccess/c_mprotect"] := by decide

theorem empty_slice_guards :
    Gen.Protected.empty_slice_guards =
      [("dryoc_mlock", true), ("dryoc_munlock", true), ("dryoc_mprotect_readonly", true), ("dryoc_mprotect_readwrite", true),
       ("dryoc_mprotect_noaccess", true)] := by decide

/-- (method, wrapper, slice, record field, new value, type parameters of the result) -/
theorem transitions :
    Gen.Protected.transitions =
      [("munlock", "dryoc_munlock", "old.a.as_slice()", "lm", "Unlocked", "A, PM, traits::Unlocked"),
       ("mlock", "dryoc_mlock", "old.a.as_slice()", "lm", "Locked", "A, PM, traits::Locked"),
       ("mprotect_readonly", "dryoc_mprotect_readonly", "old.a.as_slice()", "pm", "ReadOnly", "A, traits::ReadOnly, LM"),
       ("mprotect_readwrite", "dryoc_mprotect_readwrite", "old.a.as_slice()", "pm", "ReadWrite", "A, traits::ReadWrite, LM"),
       ("mprotect_noaccess", "dryoc_mprotect_noaccess", "old.a.as_slice()", "pm", "NoAccess", "A, traits::NoAccess, traits::Unlocked")] := by
  decide

/-- the record value each transition writes is the one its RESULT TYPE names (so record and type move together) -/
theorem transitions_record_matches_type :
    ∀ r ∈ Gen.Protected.transitions,
      (r.2.2.2.1 = "lm" → r.2.2.2.2.2 = "A, PM, traits::" ++ r.2.2.2.2.1) ∧
      (r.2.2.2.1 = "pm" → (r.2.2.2.2.2 = "A, traits::" ++ r.2.2.2.2.1 ++ ", LM" ∨ r.2.2.2.2.2 = "A, traits::" ++ r.2.2.2.2.1 ++ ", traits::Unlocked")) := by
  decide

/-- the advice passed to `madvise` next to locking / unlocking: exclude from core dumps when locking, include again when unlocking —
in particular never `MADV_DONTNEED` / `MADV_FREE`, which would discard the contents of a region that is not locked -/
theorem madvise_advice :
    Gen.Protected.madvise_advice = [("dryoc_mlock", "MADV_DONTDUMP"), ("dryoc_munlock", "MADV_DODUMP")] := by decide

theorem drop_path :
    Gen.Protected.zeroize_body_is_canonical = true ∧ Gen.Protected.drop_is_zeroize = true ∧
    Gen.Protected.deallocate_wipes_before_free = true := by decide

end DryocVerif.Proofs.GenProtectedShape
