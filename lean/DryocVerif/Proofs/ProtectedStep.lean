import DryocVerif.Proofs.ProtectedInv
/-
Every harness token preserves `InvK`; it preserves `Tight` unless it is a `lock`
of a non-empty `NoAccess` region.
-/
namespace DryocVerif.Proofs.Protected
open DryocVerif DryocVerif.Model.Protected

/-- `InvK` is re-established, and `Tight` is kept provided a failed lock request cannot leave a flag behind on
accessible pages (`Leakless`: repaired `dryoc_mlock`, or an oracle that never answers `failFlagged`) -/
def Pres (c : Cfg) (s : State) (r : Res × State) : Prop :=
  InvK c r.2 ∧ (Leakless c s.m → Tight c s → Tight c r.2)

theorem pres_same {c : Cfg} {s : State} (h : InvK c s) (x : Res) : Pres c s (x, s) := ⟨h, fun _ => id⟩

theorem stLocked_prot (lm : LM) (pm pm' : PM) : stLocked (.prot lm pm) = stLocked (.prot lm pm') := by
  cases lm <;> rfl

theorem fillV_buf_length (v : PVec) (b : UInt8) : (fillV v b).buf.length = v.buf.length := by
  simp [fillV]; omega

theorem pres_opFill {c : Cfg} (hP : 0 < c.P) {s : State} (h : InvK c s) (i : Nat) (b : UInt8) :
    Pres c s (opFill s i b) := by
  unfold opFill
  apply withLive_elim _ _ _ _ (pres_same h _) (pres_same h _)
  intro sl l1 l2 hs hi hg
  have g := good_head hs hg h
  have fill : Pres c s (Res.ok, setSlot s s.m i
      { sl with o := { sl.o with v := fillV sl.o.v b }, rnd := false }) := by
    refine ⟨inv_set_live hs hi hg ?_, fun _ t => tight_set_live hs hi hg ?_⟩
    · exact good_setbuf hP g rfl rfl rfl (fillV_buf_length _ _)
    · exact tight_setvec (tight_head hs hg t) rfl rfl
  split
  · exact fill
  · exact fill
  · exact pres_same h _

theorem pres_doLock {c : Cfg} (hP : 0 < c.P) {s : State} (h : InvK c s) {i : Nat} {sl : Slot}
    {l1 l2 : List Slot} (hs : s.slots = l1 ++ sl :: l2) (hi : l1.length = i) (hg : sl.gone = false)
    (rc : LM × PM) (pm : PM) (hst : blkOf sl.o = ⟨sl.o.v, pm.perm, false⟩)
    (hna : c.undo = true ∨ (pm.perm ≠ .none ∧ s.m.oracle (s.m.cnt + 1) ≠ .failFlagged) ∨ sl.o.v.len = 0) :
    Pres c s (doLock c s i sl rc pm) := by
  have g := good_head hs hg h
  rw [hst] at g
  have gl := good_lockV hP g rc
  unfold doLock
  by_cases hr : (lockV c s.m sl.o.v rc).2 = true
  · simp only [hr, if_true]
    refine ⟨inv_set_live hs hi hg (gl.1 hr), fun _ t => tight_set_live hs hi hg ?_⟩
    have t' := tight_head hs hg t
    rw [hst] at t'
    exact (tight_lockV hP t' g rc hna).1 hr
  · simp only [hr]
    have hr' : (lockV c s.m sl.o.v rc).2 = false := by simpa using hr
    refine ⟨inv_set_gone hs hi rfl (gl.2 hr'), fun _ t => tight_set_gone hs hi rfl ?_⟩
    have t' := tight_head hs hg t
    rw [hst] at t'
    exact (tight_lockV hP t' g rc hna).2 hr'

/-- the one operation that could leave a stray locked page before the repair of `dryoc_mlock`
(`c.undo = false`): `lock` on a non-empty `NoAccess` region -/
def LocksNoAccess (s : State) (t : Tok) : Prop :=
  t.op = .lock ∧ ∃ sl, s.slots[t.idx]? = some sl ∧ sl.gone = false ∧
    sl.o.st = .prot .unlocked .na ∧ 0 < sl.o.v.len

theorem getElem?_split (l1 l2 : List Slot) (sl : Slot) : (l1 ++ sl :: l2)[l1.length]? = some sl := by
  simp

/-- `InvK` part of `lock` (unconditional) -/
theorem inv_opLock {c : Cfg} (hP : 0 < c.P) {s : State} (h : InvK c s) (i : Nat) :
    InvK c (opLock c s i).2 := by
  unfold opLock
  apply withLive_elim (Q := fun r => InvK c r.2) _ _ _ _ h h
  intro sl l1 l2 hs hi hg
  have g := good_head hs hg h
  have key : ∀ rc pm, blkOf sl.o = ⟨sl.o.v, pm.perm, false⟩ → InvK c (doLock c s i sl rc pm).2 := by
    intro rc pm hst
    rw [hst] at g
    have gl := good_lockV hP g rc
    unfold doLock
    by_cases hr : (lockV c s.m sl.o.v rc).2 = true
    · simp only [hr, if_true]; exact inv_set_live hs hi hg (gl.1 hr)
    · simp only [hr]; exact inv_set_gone hs hi rfl (gl.2 (by simpa using hr))
  split
  · rename_i hst; exact key _ .rw (by simp [blkOf, hst, stPerm, stLocked, PM.perm])
  · rename_i pm hst; exact key _ pm (by simp [blkOf, hst, stPerm, stLocked])
  · exact h

theorem pres_opLock {c : Cfg} (hP : 0 < c.P) {s : State} (h : InvK c s) (i : Nat)
    (hno : c.undo = true ∨ (¬ LocksNoAccess s ⟨.lock, i⟩ ∧ NoFF s.m)) : Pres c s (opLock c s i) := by
  unfold opLock
  apply withLive_elim _ _ _ _ (pres_same h _) (pres_same h _)
  intro sl l1 l2 hs hi hg
  have hl : Leakless c s.m := hno.imp id (fun x => x.2)
  split
  · rename_i hst
    exact pres_doLock hP h hs hi hg _ .rw (by simp [blkOf, hst, stPerm, stLocked, PM.perm])
      (hl.hdp_rw rfl (by simp [PM.perm]))
  · rename_i pm hst
    refine pres_doLock hP h hs hi hg _ pm (by simp [blkOf, hst, stPerm, stLocked]) ?_
    rcases hno with hu | ⟨hno, hff⟩
    · exact Or.inl hu
    by_cases h0 : sl.o.v.len = 0
    · exact Or.inr (Or.inr h0)
    · right; left
      refine ⟨?_, hff _⟩
      intro hp
      have : pm = .na := by cases pm <;> simp [PM.perm] at hp ⊢
      apply hno
      refine ⟨rfl, sl, ?_, hg, by rw [hst, this], by omega⟩
      simp only [hs, ← hi]; exact getElem?_split _ _ _
  · exact pres_same h _

theorem pres_opUnlock {c : Cfg} (hP : 0 < c.P) {s : State} (h : InvK c s) (i : Nat) :
    Pres c s (opUnlock c s i) := by
  unfold opUnlock
  apply withLive_elim _ _ _ _ (pres_same h _) (pres_same h _)
  intro sl l1 l2 hs hi hg
  have g := good_head hs hg h
  split
  · exact pres_same h _
  · rename_i lm pm hst
    refine ⟨inv_set_live hs hi hg ?_, fun _ t => tight_set_live hs hi hg ?_⟩
    · have := good_munlock hP g
      simpa [blkOf, hst, stPerm, stLocked] using this
    · exact tight_munlock hP (tight_head hs hg t) (g.ok _ (List.mem_cons_self)).lenle _ _

theorem pres_opProtect {c : Cfg} (hP : 0 < c.P) {s : State} (h : InvK c s) (i : Nat) (pm : PM) :
    Pres c s (opProtect c s i pm) := by
  unfold opProtect
  apply withLive_elim _ _ _ _ (pres_same h _) (pres_same h _)
  intro sl l1 l2 hs hi hg
  have g := good_head hs hg h
  split
  · exact pres_same h _
  · rename_i lm pm0 hst
    refine ⟨inv_set_live hs hi hg ?_, fun _ t => tight_set_live hs hi hg ?_⟩
    · have := good_mprotect hP g pm.perm
      simpa [blkOf, hst, stPerm, stLocked_prot lm pm pm0] using this
    · exact tight_mprotect hP (tight_head hs hg t) (g.ok _ (List.mem_cons_self)).lenle _ _ _

theorem pres_opNa {c : Cfg} (hP : 0 < c.P) {s : State} (h : InvK c s) (i : Nat) :
    Pres c s (opNa c s i) := by
  unfold opNa
  apply withLive_elim _ _ _ _ (pres_same h _) (pres_same h _)
  intro sl l1 l2 hs hi hg
  have g := good_head hs hg h
  split
  · rename_i pm0 hst
    refine ⟨inv_set_live hs hi hg ?_, fun _ t => tight_set_live hs hi hg ?_⟩
    · have := good_mprotect hP g .none
      simpa [blkOf, hst, stPerm, stLocked, PM.perm] using this
    · exact tight_mprotect hP (tight_head hs hg t) (g.ok _ (List.mem_cons_self)).lenle _ _ _
  · exact pres_same h _

theorem tight_objDrop {c : Cfg} (hP : 0 < c.P) {m : Mach} {o : Obj} {R : List Blk}
    (t : TightL c.P m.k (blkOf o :: R)) (g : GoodL c.P m.k (blkOf o :: R))
    (hrc : ∀ lm pm, o.st = .prot lm pm → o.rcd = (lm, pm)) :
    TightL c.P (objDrop c m o).k R := by
  unfold objDrop
  split
  · rename_i hst
    simp only [blkOf, hst, stPerm, stLocked] at t g
    exact tight_plainDrop hP t g
  · rename_i lm pm hst
    simp only [blkOf, hst] at t g
    refine tight_protDrop hP t g _ _ ?_
    rw [hrc lm pm hst]
    cases lm <;> simp [stLocked]

theorem mem_split {l1 l2 : List Slot} {sl : Slot} {slots : List Slot} (hs : slots = l1 ++ sl :: l2) :
    sl ∈ slots := by rw [hs]; simp

theorem pres_opDrop {c : Cfg} (hP : 0 < c.P) {s : State} (h : InvK c s) (hrec : RecOK s) (i : Nat) :
    Pres c s (opDrop c s i) := by
  unfold opDrop
  apply withLive_elim _ _ _ _ (pres_same h _) (pres_same h _)
  intro sl l1 l2 hs hi hg
  have g := good_head hs hg h
  refine ⟨inv_set_gone hs hi rfl ?_, fun _ t => tight_set_gone hs hi rfl ?_⟩
  · exact good_objDrop hP (o := sl.o) g
  · exact tight_objDrop hP (tight_head hs hg t) g (hrec sl (mem_split hs) hg)

theorem pres_opResize {c : Cfg} (hP : 0 < c.P) {s : State} (h : InvK c s) (hrec : RecOK s) (i n : Nat)
    (b : UInt8 := 0) : Pres c s (opResize c s i n b) := by
  unfold opResize
  apply withLive_elim _ _ _ _ (pres_same h _) (pres_same h _)
  intro sl l1 l2 hs hi hg
  have g := good_head hs hg h
  split
  · exact pres_same h _
  have plain : blkOf sl.o = ⟨sl.o.v, .rw, false⟩ →
      Pres c s (Res.ok, setSlot s (vecResize c s.m sl.o.v n b).1 i
        { sl with o := { sl.o with v := (vecResize c s.m sl.o.v n b).2 }, rnd := sl.rnd && decide (0 < n) }) := by
    intro hb
    have hb' : blkOf { sl.o with v := (vecResize c s.m sl.o.v n b).2 } =
        ⟨(vecResize c s.m sl.o.v n b).2, .rw, false⟩ := by
      simp only [blkOf] at hb ⊢
      injection hb with _ h2 h3
      rw [h2, h3]
    rw [hb] at g
    refine ⟨inv_set_live hs hi hg ?_, fun _ t => tight_set_live hs hi hg ?_⟩
    · simp only [hb']; exact good_vecResize hP g n b
    · have t' := tight_head hs hg t
      rw [hb] at t'
      simp only [hb']; exact tight_vecResize t' g hP n b
  split
  · rename_i hst
    exact plain (by simp [blkOf, hst, stPerm, stLocked])
  · rename_i hst
    exact plain (by simp [blkOf, hst, stPerm, stLocked, PM.perm])
  · rename_i hst
    have hb : blkOf sl.o = ⟨sl.o.v, .rw, true⟩ := by simp [blkOf, hst, stPerm, stLocked, PM.perm]
    have hrc : sl.o.rcd.1 = .locked := by rw [hrec sl (mem_split hs) hg _ _ hst]
    rw [hb] at g
    have gl := good_lockedResize hP g sl.o.rcd n b
    have tl := fun (hl : Leakless c s.m) (t : Tight c s) => tight_lockedResize hP (by
      have t' := tight_head hs hg t; rwa [hb] at t') g sl.o.rcd (fun _ => hrc) hl n b
    cases hn : (lockedResize c s.m sl.o.v sl.o.rcd n b).2 with
    | none =>
      simp only [hn] at gl tl ⊢
      rw [← hb] at gl tl
      refine ⟨?_, fun hl t => ?_⟩
      · unfold InvK; simp only [hs]
        exact gl.perm (blks_mid_live hg l1 l2).symm
      · unfold Tight; simp only [hs]
        exact (tl hl t).perm (blks_mid_live hg l1 l2).symm
    | some nv =>
      simp only [hn] at gl tl ⊢
      refine ⟨inv_set_live hs hi hg ?_, fun hl t => tight_set_live hs hi hg ?_⟩
      · simpa [blkOf, hst, stPerm, stLocked, PM.perm] using gl
      · simpa [blkOf, hst, stPerm, stLocked, PM.perm] using tl hl t
  · exact pres_same h _

end DryocVerif.Proofs.Protected
