import DryocVerif.Model.OpenRaw
import DryocVerif.Proofs.RawExtra
import DryocVerif.Proofs.SecretBox
/-
C04 helper lemmas: the statement-by-statement models of the classic box-family opens
(`openEasyRaw`, `openEasyInplaceRaw`, `boxOpenEasyRaw`, `boxOpenEasyInplaceRaw`, `sealOpenRaw` of
`Model/OpenRaw.lean`) equal the hand models of `Model/SecretBox.lean`; with the length guard deleted they
panic on every short input.  Core only.

The only hypothesis is `len < 2^64` for the attacker's byte string (a fact about Rust slices): it is what makes
the XSalsa20 `check_remaining` succeed.
-/
namespace DryocVerif.Proofs.SecretBox
open DryocVerif DryocVerif.Model.SecretBox DryocVerif.Model.Raw DryocVerif.Proofs.Raw
open scoped DryocVerif.Model.Raw

theorem checkRemaining_first : checkRemaining (U64_MAX - 0) 0 32 = .ok () := by decide

theorem checkRemaining_second {n : Nat} (h : n < 2 ^ 64) : checkRemaining (U64_MAX - 1) 32 n = .ok () :=
  checkRemaining_mid (by decide) (by unfold U64_MAX; omega)

theorem openVerifyRaw_eq (P : Prims) (c mac nonce key : Bytes) :
    openVerifyRaw P c mac nonce key =
      if mac = P.mac ((P.stream key nonce (32 + c.length)).take 32) c
      then .ok ((P.stream key nonce (32 + c.length)).drop 32) else .err := by
  unfold openVerifyRaw
  rw [checkRemaining_first, ok_bind]
  simp only []
  by_cases h : mac = P.mac ((P.stream key nonce (32 + c.length)).take 32) c
  · rw [errIf_neg (by simpa using h), ok_bind, if_pos h, pure_eq]
  · rw [errIf_pos h, err_bind, if_neg h]

theorem openDetachedInplaceRaw_eq (P : Prims) (data mac nonce key : Bytes) (hl : data.length < 2 ^ 64) :
    openDetachedInplaceRaw P data mac nonce key = openDetachedInplace P data mac nonce key := by
  unfold openDetachedInplaceRaw openDetachedInplaceRawBody openDetachedInplace
  rw [openVerifyRaw_eq]
  simp only []
  by_cases h : mac = P.mac ((P.stream key nonce (32 + data.length)).take 32) data
  · rw [if_pos h, if_pos h, ok_bind, checkRemaining_second hl, ok_bind, pure_eq]; rfl
  · rw [if_neg h, if_neg h, err_bind]; rfl

theorem openDetachedRaw_eq (P : Prims) (m mac c nonce key : Bytes) (hl : c.length < 2 ^ 64) :
    openDetachedRaw P m mac c nonce key = openDetached P m mac c nonce key := by
  unfold openDetachedRaw openDetachedRawBody openDetached openDetachedInplace
  by_cases hm : m.length < c.length
  · rw [if_pos hm]
    unfold sliceTo
    rw [if_pos hm, panic_bind]; rfl
  · rw [if_neg hm, sliceTo_ok (by omega), ok_bind, openVerifyRaw_eq]
    simp only []
    by_cases h : mac = P.mac ((P.stream key nonce (32 + c.length)).take 32) c
    · rw [if_pos h, if_pos h, ok_bind, copyFromSlice_ok (by rw [List.length_take]; omega), ok_bind,
        checkRemaining_second hl, ok_bind, pure_eq]; rfl
    · rw [if_neg h, if_neg h, err_bind]; rfl

/-! ### `open_easy` -/

theorem openEasyRawBody_long (g : Bool) (P : Prims) (m ct nonce key : Bytes) (h : 16 ≤ ct.length) :
    openEasyRawBody g P m ct nonce key = openDetachedRawBody P m (ct.take 16) (ct.drop 16) nonce key := by
  have hg : errIfWhen g (ct.length < MACBYTES) = Outcome.ok () := by
    cases g
    · rfl
    · exact errIf_neg (by unfold MACBYTES; omega)
  unfold openEasyRawBody
  rw [hg, ok_bind]
  unfold MACBYTES
  rw [splitAt_ok h, ok_bind, asArray_ok (by rw [List.length_take]; omega), ok_bind, List.take_take,
    Nat.min_self]

theorem openEasyRaw_eq (P : Prims) (m ct nonce key : Bytes) (hl : ct.length < 2 ^ 64) :
    openEasyRaw P m ct nonce key = openEasy P m ct nonce key := by
  unfold openEasyRaw openEasy MACBYTES
  by_cases h : ct.length < 16
  · rw [if_pos h]
    unfold openEasyRawBody
    rw [show errIfWhen true (ct.length < MACBYTES) = .err from errIf_pos h, err_bind]; rfl
  · rw [if_neg h, openEasyRawBody_long _ P m ct nonce key (by omega)]
    exact openDetachedRaw_eq P m _ _ nonce key (by rw [List.length_drop]; omega)

/-- counter-model: without the guard, `split_at(16)` panics on every ciphertext shorter than 16 bytes -/
theorem openEasyNoGuard_short (P : Prims) (m ct nonce key : Bytes) (h : ct.length < 16) :
    openEasyNoGuard P m ct nonce key = ⟨.panic, m⟩ := by
  unfold openEasyNoGuard openEasyRawBody
  rw [show errIfWhen false (ct.length < MACBYTES) = .ok () from rfl, ok_bind,
    splitAt_panic (by unfold MACBYTES; exact h), panic_bind]; rfl

theorem openEasyNoGuard_long (P : Prims) (m ct nonce key : Bytes) (h : 16 ≤ ct.length) :
    openEasyNoGuard P m ct nonce key = openEasyRaw P m ct nonce key := by
  unfold openEasyNoGuard openEasyRaw
  rw [openEasyRawBody_long _ P m ct nonce key h, openEasyRawBody_long _ P m ct nonce key h]

/-! ### `open_easy_inplace` -/

theorem openEasyInplaceRawBody_long (g : Bool) (P : Prims) (ct nonce key : Bytes) (h : 16 ≤ ct.length) :
    openEasyInplaceRawBody g P ct nonce key =
      (openDetachedInplaceRawBody P (ct.drop 16) (ct.take 16) nonce key >>= fun data =>
        rotateLeftChecked (ct.take 16 ++ data) 16) := by
  have hg : errIfWhen g (ct.length < MACBYTES) = Outcome.ok () := by
    cases g
    · rfl
    · exact errIf_neg (by unfold MACBYTES; omega)
  unfold openEasyInplaceRawBody
  rw [hg, ok_bind]
  unfold MACBYTES
  rw [splitAt_ok h, ok_bind, asArray_ok (by rw [List.length_take]; omega), ok_bind, List.take_take,
    Nat.min_self]

theorem openEasyInplaceRaw_eq (P : Prims) (ct nonce key : Bytes) (hl : ct.length < 2 ^ 64) :
    openEasyInplaceRaw P ct nonce key = openEasyInplace P ct nonce key := by
  unfold openEasyInplaceRaw openEasyInplace MACBYTES
  by_cases h : ct.length < 16
  · rw [if_pos h]
    unfold openEasyInplaceRawBody
    rw [show errIfWhen true (ct.length < MACBYTES) = .err from errIf_pos h, err_bind]; rfl
  · rw [if_neg h, openEasyInplaceRawBody_long _ P ct nonce key (by omega)]
    have hd : (ct.drop 16).length < 2 ^ 64 := by rw [List.length_drop]; omega
    have key' := openDetachedInplaceRaw_eq P (ct.drop 16) (ct.take 16) nonce key hd
    unfold openDetachedInplaceRaw at key'
    simp only []
    rw [← key']
    cases hb : openDetachedInplaceRawBody P (ct.drop 16) (ct.take 16) nonce key with
    | ok data =>
      rw [ok_bind, rotateLeftChecked_ok (by rw [List.length_append, List.length_take]; omega)]
      rfl
    | err =>
      rw [err_bind]
      show (⟨.err, ct⟩ : Opened) = ⟨.err, ct.take 16 ++ ct.drop 16⟩
      rw [List.take_append_drop]
    | panic =>
      rw [panic_bind]
      show (⟨.panic, ct⟩ : Opened) = ⟨.panic, ct.take 16 ++ ct.drop 16⟩
      rw [List.take_append_drop]

theorem openEasyInplaceNoGuard_short (P : Prims) (ct nonce key : Bytes) (h : ct.length < 16) :
    openEasyInplaceNoGuard P ct nonce key = ⟨.panic, ct⟩ := by
  unfold openEasyInplaceNoGuard openEasyInplaceRawBody
  rw [show errIfWhen false (ct.length < MACBYTES) = .ok () from rfl, ok_bind,
    splitAt_panic (by unfold MACBYTES; exact h), panic_bind]; rfl

/-! ### `crypto_box_open_easy`, `…_inplace` -/

theorem boxOpenEasyRawBody_eq (g : Bool) (P : Prims) (m ct nonce pk sk : Bytes) :
    boxOpenEasyRawBody g P m ct nonce pk sk = openEasyRawBody g P m ct nonce (beforenm P pk sk) := rfl

theorem boxOpenEasyInplaceRawBody_eq (g : Bool) (P : Prims) (ct nonce pk sk : Bytes) :
    boxOpenEasyInplaceRawBody g P ct nonce pk sk = openEasyInplaceRawBody g P ct nonce (beforenm P pk sk) := rfl

theorem boxOpenEasyRaw_eq (P : Prims) (m ct nonce pk sk : Bytes) (hl : ct.length < 2 ^ 64) :
    boxOpenEasyRaw P m ct nonce pk sk = boxOpenEasy P m ct nonce pk sk := by
  rw [boxOpenEasy_eq_openEasy, ← openEasyRaw_eq P m ct nonce _ hl]
  rfl

theorem boxOpenEasyInplaceRaw_eq (P : Prims) (ct nonce pk sk : Bytes) (hl : ct.length < 2 ^ 64) :
    boxOpenEasyInplaceRaw P ct nonce pk sk = boxOpenEasyInplace P ct nonce pk sk := by
  rw [boxOpenEasyInplace_eq_openEasyInplace, ← openEasyInplaceRaw_eq P ct nonce _ hl]
  rfl

theorem boxOpenEasyNoGuard_short (P : Prims) (m ct nonce pk sk : Bytes) (h : ct.length < 16) :
    boxOpenEasyNoGuard P m ct nonce pk sk = ⟨.panic, m⟩ :=
  openEasyNoGuard_short P m ct nonce (beforenm P pk sk) h

theorem boxOpenEasyInplaceNoGuard_short (P : Prims) (ct nonce pk sk : Bytes) (h : ct.length < 16) :
    boxOpenEasyInplaceNoGuard P ct nonce pk sk = ⟨.panic, ct⟩ :=
  openEasyInplaceNoGuard_short P ct nonce (beforenm P pk sk) h

/-! ### `crypto_box_seal_open` -/

theorem sealOpenRaw_eq (P : Prims) (m ct rpk rsk : Bytes) (hl : ct.length < 2 ^ 64) :
    sealOpenRaw P m ct rpk rsk = sealOpen P m ct rpk rsk := by
  unfold sealOpenRaw sealOpen sealOpenRawBody SEALBYTES
  by_cases h : ct.length < 48
  · rw [if_pos h, show errIfWhen true (ct.length < 48) = .err from errIf_pos h, err_bind]; rfl
  · rw [if_neg h, show errIfWhen true (ct.length < 48) = .ok () from errIf_neg h, ok_bind,
      checkedSub_ok (by omega), ok_bind]
    by_cases hm : m.length ≠ ct.length - 48
    · rw [if_pos hm, errIf_pos hm, err_bind]; rfl
    · rw [if_neg hm, errIf_neg hm, ok_bind, sliceTo_ok (by omega), ok_bind,
        copyFromSlice_ok (by simp [zeros]; omega), ok_bind, sliceFrom_ok (by omega), ok_bind]
      simp only []
      have := boxOpenEasyRaw_eq P m (ct.drop 32) (sealNonce P (ct.take 32) rpk) (ct.take 32) rsk
        (by rw [List.length_drop]; omega)
      unfold boxOpenEasyRaw at this
      exact this

/-- counter-model: without the first guard, `ciphertext.len() - SEALBYTES` (evaluated by the second check)
panics on every ciphertext shorter than 48 bytes -/
theorem sealOpenNoGuard_short (P : Prims) (m ct rpk rsk : Bytes) (h : ct.length < 48) :
    sealOpenNoGuard P m ct rpk rsk = ⟨.panic, m⟩ := by
  unfold sealOpenNoGuard sealOpenRawBody
  rw [show errIfWhen false (ct.length < SEALBYTES) = .ok () from rfl, ok_bind,
    checkedSub_panic (by unfold SEALBYTES; exact h), panic_bind]; rfl

end DryocVerif.Proofs.SecretBox
