import DryocVerif.Gen.Poly1305
import DryocVerif.Model.Poly1305
import DryocVerif.Proofs.GenUtils
/-
Equivalence of the machine-generated `Gen/Poly1305.lean` (from /repo/src/poly1305/poly1305_soft.rs) with the
hand model `Model/Poly1305.lean`.  No range or length hypothesis is needed anywhere: both sides are total Nat
functions and agree on EVERY input (the only non-definitional step is `load_u64_le s = le (s.take 8)`).  Core only.

Proof structure (so that a semantics-preserving edit of the Rust breaks as little as possible):
 * the loaders are replaced by `le (_.take 8)` through the two `GenUtils` lemmas, by `rw` on the let-values;
 * everything else (constants `(5 <<< 2) % U64` vs `20`, `M44` vs its decimal spelling, inlined `mul/shr/lo`,
   shadowed `self_h_*` copies) is closed by `rfl`, i.e. by evaluation of closed Nat terms and zeta/delta;
 * the loop is handled by the generic `foldl_dup` (invariant: the `self_h_*` copies equal `h*`).
-/
namespace DryocVerif.Proofs.GenPoly1305
open DryocVerif DryocVerif.Gen
open DryocVerif.Proofs.GenUtils
open DryocVerif.Model.Poly1305 (Limbs State)

/-! ### test data for the sanity examples (RFC 8439 §2.5.2 key / message, and a 39-byte pattern) -/

private def tKey : Bytes :=
  [0x85, 0xd6, 0xbe, 0x78, 0x57, 0x55, 0x6d, 0x33, 0x7f, 0x44, 0x52, 0xfe, 0x42, 0xd5, 0x06, 0xa8,
   0x01, 0x03, 0x80, 0x8a, 0xfb, 0x0d, 0xb2, 0xfd, 0x4a, 0xbf, 0xf6, 0xaf, 0x41, 0x49, 0xf5, 0x1b]
private def tMsg : Bytes :=
  [0x43, 0x72, 0x79, 0x70, 0x74, 0x6f, 0x67, 0x72, 0x61, 0x70, 0x68, 0x69, 0x63, 0x20, 0x46, 0x6f,
   0x72, 0x75, 0x6d, 0x20, 0x52, 0x65, 0x73, 0x65, 0x61, 0x72, 0x63, 0x68, 0x20, 0x47, 0x72, 0x6f, 0x75, 0x70]
private def tIn39 : Bytes :=
  [1, 2, 3, 4, 5, 6, 7, 8, 9, 10, 11, 12, 13, 14, 15, 16, 0xff, 0xfe, 0xfd, 0xfc, 0xfb, 0xfa, 0xf9, 0xf8,
   0xf7, 0xf6, 0xf5, 0xf4, 0xf3, 0xf2, 0xf1, 0xf0, 0x80, 0x81, 0x82, 0x83, 0x84, 0x85, 0x86]
private def tIn16 : Bytes :=
  [0xff, 0xfe, 0xfd, 0xfc, 0xfb, 0xfa, 0xf9, 0xf8, 0xf7, 0xf6, 0xf5, 0xf4, 0xf3, 0xf2, 0xf1, 0xf0]

/-! ### `new` -/

/-- `Poly1305::new`: the generated 8-tuple is (r, h, pad) of the model state, for every key slice. -/
theorem new_eq_model (key : Bytes) :
    Gen.Poly1305.new key =
      (let s := Model.Poly1305.new key
       (s.r.l0, s.r.l1, s.r.l2, s.h.l0, s.h.l1, s.h.l2, s.pad0, s.pad1)) := by
  have e0 : Gen.Utils.load_u64_le ((key.drop 0).take 8) = le (key.take 8) := load_u64_le_take8 key
  have e1 : Gen.Utils.load_u64_le ((key.drop 8).take 8) = le ((key.drop 8).take 8) := load_u64_le_take8 _
  have e2 : Gen.Utils.load_u64_le ((key.drop 16).take 8) = le ((key.drop 16).take 8) := load_u64_le_take8 _
  have e3 : Gen.Utils.load_u64_le ((key.drop 24).take 8) = le ((key.drop 24).take 8) := load_u64_le_take8 _
  unfold Gen.Poly1305.new
  rw [e0, e1, e2, e3]
  rfl

/-- sanity test (RFC 8439 §2.5.2 key; also a short, 20-byte slice); `rfl` = evaluation of both sides
(`decide` does not find `DecidableEq` of an 8-tuple within the default instance size) -/
example : Gen.Poly1305.new tKey =
    ((Model.Poly1305.new tKey).r.l0, (Model.Poly1305.new tKey).r.l1, (Model.Poly1305.new tKey).r.l2,
     (Model.Poly1305.new tKey).h.l0, (Model.Poly1305.new tKey).h.l1, (Model.Poly1305.new tKey).h.l2,
     (Model.Poly1305.new tKey).pad0, (Model.Poly1305.new tKey).pad1) := by rfl
example : Gen.Poly1305.new tKey =
    (0x55408bed685, 5653380740821, 34474377230, 0, 0, 0, 0xfdb20dfb8a800301, 0x1bf54941aff6bf4a) := by rfl
example : Gen.Poly1305.new (tKey.take 20) =
    ((Model.Poly1305.new (tKey.take 20)).r.l0, (Model.Poly1305.new (tKey.take 20)).r.l1,
     (Model.Poly1305.new (tKey.take 20)).r.l2, 0, 0, 0,
     (Model.Poly1305.new (tKey.take 20)).pad0, (Model.Poly1305.new (tKey.take 20)).pad1) := by rfl

/-! ### `blocks` -/

/-- fold induction for a loop that carries the accumulator twice (`h*` and the write-back copies `self_h_*`):
if one step maps a duplicated state to the duplicated `g`-step, so does the whole fold. -/
theorem foldl_dup {f : Nat × Nat × Nat × Nat × Nat × Nat → Bytes → Nat × Nat × Nat × Nat × Nat × Nat}
    {g : Limbs → Bytes → Limbs}
    (hfg : ∀ a m, f (a.l0, a.l1, a.l2, a.l0, a.l1, a.l2) m
        = ((g a m).l0, (g a m).l1, (g a m).l2, (g a m).l0, (g a m).l1, (g a m).l2))
    (l : List Bytes) (a : Limbs) :
    l.foldl f (a.l0, a.l1, a.l2, a.l0, a.l1, a.l2)
      = ((l.foldl g a).l0, (l.foldl g a).l1, (l.foldl g a).l2,
         (l.foldl g a).l0, (l.foldl g a).l1, (l.foldl g a).l2) := by
  induction l generalizing a with
  | nil => rfl
  | cons m ms ih => rw [List.foldl_cons, List.foldl_cons, hfg, ih]

/-- `blocks(input, partial)`: the generated accumulator triple is `h` of the model state after `blocks`,
for every r, h, input, flag (and whatever the other state fields are). -/
theorem blocks_eq_model (r h : Limbs) (p0 p1 : Nat) (buf input : Bytes) (isPartial : Bool) :
    Gen.Poly1305.blocks r.l0 r.l1 r.l2 h.l0 h.l1 h.l2 input isPartial =
      (let s := Model.Poly1305.blocks ⟨r, h, p0, p1, buf⟩ input isPartial
       (s.h.l0, s.h.l1, s.h.l2)) := by
  unfold Gen.Poly1305.blocks
  simp only []
  rw [foldl_dup (g := Model.Poly1305.blockStep r (Model.Poly1305.hibitOf isPartial))]
  · rfl
  · -- one loop iteration, from a state whose `self_h_*` copies equal `h*`
    intro a m
    have e0 : Gen.Utils.load_u64_le ((m.drop 0).take 8) = le (m.take 8) := load_u64_le_take8 m
    have e1 : Gen.Utils.load_u64_le (m.drop 8) = le ((m.drop 8).take 8) := load_u64_le_eq_le _
    simp -zeta only []
    rw [e0, e1]
    rfl

/-- the same, on raw limbs -/
theorem blocks_eq_fold (r0 r1 r2 h0 h1 h2 : Nat) (input : Bytes) (isPartial : Bool) :
    Gen.Poly1305.blocks r0 r1 r2 h0 h1 h2 input isPartial =
      (let h := (chunks 16 input).foldl
          (Model.Poly1305.blockStep ⟨r0, r1, r2⟩ (Model.Poly1305.hibitOf isPartial)) ⟨h0, h1, h2⟩
       (h.l0, h.l1, h.l2)) :=
  blocks_eq_model ⟨r0, r1, r2⟩ ⟨h0, h1, h2⟩ 0 0 [] input isPartial

/-- sanity test: two full blocks and a short (7-byte) last chunk; a full block with the partial flag -/
example :
    Gen.Poly1305.blocks 0xc0fffffff 0xfffffc0ffff 0xffffffc0f 1 2 3 tIn39 false
      = ((Model.Poly1305.blocks ⟨⟨0xc0fffffff, 0xfffffc0ffff, 0xffffffc0f⟩, ⟨1, 2, 3⟩, 0, 0, []⟩ tIn39 false).h.l0,
         (Model.Poly1305.blocks ⟨⟨0xc0fffffff, 0xfffffc0ffff, 0xffffffc0f⟩, ⟨1, 2, 3⟩, 0, 0, []⟩ tIn39 false).h.l1,
         (Model.Poly1305.blocks ⟨⟨0xc0fffffff, 0xfffffc0ffff, 0xffffffc0f⟩, ⟨1, 2, 3⟩, 0, 0, []⟩ tIn39 false).h.l2) := by
  decide
example :
    Gen.Poly1305.blocks 0xc0fffffff 0xfffffc0ffff 0xffffffc0f 0xfffffffffff 0xfffffffffff 0x3ffffffffff tIn16 true
      = ((Model.Poly1305.blockStep ⟨0xc0fffffff, 0xfffffc0ffff, 0xffffffc0f⟩ 0
          ⟨0xfffffffffff, 0xfffffffffff, 0x3ffffffffff⟩ tIn16).l0,
        (Model.Poly1305.blockStep ⟨0xc0fffffff, 0xfffffc0ffff, 0xffffffc0f⟩ 0
          ⟨0xfffffffffff, 0xfffffffffff, 0x3ffffffffff⟩ tIn16).l1,
        (Model.Poly1305.blockStep ⟨0xc0fffffff, 0xfffffc0ffff, 0xffffffc0f⟩ 0
          ⟨0xfffffffffff, 0xfffffffffff, 0x3ffffffffff⟩ tIn16).l2) := by
  decide

/-! ### `finish` (the arithmetic tail of `finalize`) -/

/-- the tag is the two generated output words, little-endian, for every h and pad. -/
theorem finish_eq_model (h : Limbs) (pad0 pad1 : Nat) :
    Model.Poly1305.finish h pad0 pad1 =
      toLE 8 (Gen.Poly1305.finish h.l0 h.l1 h.l2 pad0 pad1).1
        ++ toLE 8 (Gen.Poly1305.finish h.l0 h.l1 h.l2 pad0 pad1).2 := rfl

/-- sanity test: an accumulator that needs the full carry chain and the `h ≥ p` selection -/
example :
    Model.Poly1305.finish ⟨0xffffffffffb, 0xfffffffffff, 0x3ffffffffff⟩ 0xfdb20dfb8a800301 0x1bf54941aff6bf4a =
      toLE 8 (Gen.Poly1305.finish 0xffffffffffb 0xfffffffffff 0x3ffffffffff 0xfdb20dfb8a800301 0x1bf54941aff6bf4a).1
        ++ toLE 8 (Gen.Poly1305.finish 0xffffffffffb 0xfffffffffff 0x3ffffffffff 0xfdb20dfb8a800301 0x1bf54941aff6bf4a).2 := by
  decide
example :
    Gen.Poly1305.finish 0x123456789ab 0xfedcba98765 0x2aaaaaaaaaa 0xfdb20dfb8a800301 0x1bf54941aff6bf4a
      = (le ((Model.Poly1305.finish ⟨0x123456789ab, 0xfedcba98765, 0x2aaaaaaaaaa⟩ 0xfdb20dfb8a800301 0x1bf54941aff6bf4a).take 8),
         le ((Model.Poly1305.finish ⟨0x123456789ab, 0xfedcba98765, 0x2aaaaaaaaaa⟩ 0xfdb20dfb8a800301 0x1bf54941aff6bf4a).drop 8)) := by
  decide

/-! ### the one-shot MAC through the generated functions only -/

/-- `Poly1305::new(key)`, `update(msg)` on the fresh state, `finalize()`, written with the generated
`new` / `blocks` / `finish` only (the buffering of `update`/`finalize` is the hand model's). -/
def macGen (key msg : Bytes) : Bytes :=
  let (r0, r1, r2, h0, h1, h2, p0, p1) := Gen.Poly1305.new key
  let fe := msg.length - msg.length % 16
  let (h0, h1, h2) := Gen.Poly1305.blocks r0 r1 r2 h0 h1 h2 (msg.take fe) false
  let (h0, h1, h2) :=
    if fe < msg.length then
      let buf := msg.drop fe ++ [1]
      let buf := if buf.length % 16 != 0 then buf ++ zeros (16 - buf.length % 16) else buf
      Gen.Poly1305.blocks r0 r1 r2 h0 h1 h2 buf true
    else (h0, h1, h2)
  let (t0, t1) := Gen.Poly1305.finish h0 h1 h2 p0 p1
  toLE 8 t0 ++ toLE 8 t1

theorem mac_eq_gen (key msg : Bytes) : Model.Poly1305.mac key msg = macGen key msg := by
  unfold macGen
  rw [new_eq_model]
  simp only []
  rw [blocks_eq_model (Model.Poly1305.new key).r (Model.Poly1305.new key).h
    (Model.Poly1305.new key).pad0 (Model.Poly1305.new key).pad1 []]
  simp only []
  have hupd : Model.Poly1305.update (Model.Poly1305.new key) msg =
      (let st := Model.Poly1305.blocks (Model.Poly1305.new key)
          (msg.take (msg.length - msg.length % 16)) false
       if msg.length - msg.length % 16 < msg.length then
         { st with buffer := st.buffer ++ msg.drop (msg.length - msg.length % 16) } else st) := rfl
  unfold Model.Poly1305.mac
  rw [hupd]
  simp only []
  by_cases hlt : msg.length - msg.length % 16 < msg.length
  · rw [if_pos hlt, if_pos hlt]
    have hne : (msg.drop (msg.length - msg.length % 16)).isEmpty = false := by
      rw [List.isEmpty_eq_false_iff, ← List.length_pos_iff, List.length_drop]; omega
    unfold Model.Poly1305.finalize
    simp only [Model.Poly1305.blocks, Model.Poly1305.new, List.nil_append, hne, Bool.not_false, if_true]
    rw [finish_eq_model]
    rw [blocks_eq_fold]
    rfl
  · rw [if_neg hlt, if_neg hlt]
    unfold Model.Poly1305.finalize
    simp only [Model.Poly1305.blocks, Model.Poly1305.new, List.isEmpty_nil, Bool.not_true]
    rw [finish_eq_model]
    rfl

/-- `update`'s one length computation, as translated from the source on every run: the end of the run of whole blocks is
`m.len() − m.len() mod 16` — the very expression of `Model.Poly1305.update` — for EVERY length (no width is involved: in
particular for inputs of 4 GiB and more, which no run can afford to sweep) -/
theorem update_full_blocks_end_eq (n : Nat) : Gen.Poly1305.update_full_blocks_end n = n - n % 16 := rfl

/-- … hence a multiple of the block size, and fewer than 16 bytes are left over for the buffer -/
theorem update_full_blocks_end_spec (n : Nat) :
    16 ∣ Gen.Poly1305.update_full_blocks_end n ∧ Gen.Poly1305.update_full_blocks_end n ≤ n ∧
      n - Gen.Poly1305.update_full_blocks_end n < 16 := by
  rw [update_full_blocks_end_eq]
  refine ⟨?_, Nat.sub_le _ _, ?_⟩
  · exact (Nat.dvd_sub_mod n)
  · have := Nat.mod_lt n (show 0 < 16 by decide); omega

/-- `Poly1305::update` with the length computation as a PARAMETER (the buffering code of `Model.Poly1305.update`, verbatim, with
`split m.length` where the model has `m.length − m.length mod 16`) -/
def updateWith (split : Nat → Nat) (st : Model.Poly1305.State) (input : Bytes) : Model.Poly1305.State :=
  if !st.buffer.isEmpty then
    let e := min (16 - st.buffer.length) input.length
    let st := { st with buffer := st.buffer ++ input.take e }
    if st.buffer.length < 16 then st
    else
      let st := Model.Poly1305.blocks st st.buffer false
      let st := { st with buffer := [] }
      let m := input.drop e
      let fe := split m.length
      let st := Model.Poly1305.blocks st (m.take fe) false
      if fe < m.length then { st with buffer := st.buffer ++ m.drop fe } else st
  else
    let m := input
    let fe := split m.length
    let st := Model.Poly1305.blocks st (m.take fe) false
    if fe < m.length then { st with buffer := st.buffer ++ m.drop fe } else st

/-- instantiated with the expression TRANSLATED FROM THE SOURCE it is the model's `update`, for every state and input: the hand-written
buffering model and the code agree on the one piece of arithmetic the buffering contains -/
theorem updateWith_translated_eq_model (st : Model.Poly1305.State) (input : Bytes) :
    updateWith Gen.Poly1305.update_full_blocks_end st input = Model.Poly1305.update st input := by
  have h : Gen.Poly1305.update_full_blocks_end = fun n => n - n % 16 := funext update_full_blocks_end_eq
  rw [h]
  rfl

example : Gen.Poly1305.update_full_blocks_end (2 ^ 32 + 16 + 5) = 2 ^ 32 + 16 := by decide

/-- sanity test: RFC 8439 §2.5.2 ("Cryptographic Forum Research Group", 34 bytes: two blocks + a partial one) -/
example : macGen tKey tMsg
    = [0xa8, 0x06, 0x1d, 0xc1, 0x30, 0x51, 0x36, 0xc6, 0xc2, 0x2b, 0x8b, 0xaf, 0x0c, 0x01, 0x27, 0xa9] := by
  decide
example : macGen tKey tMsg = Model.Poly1305.mac tKey tMsg := by decide

end DryocVerif.Proofs.GenPoly1305
