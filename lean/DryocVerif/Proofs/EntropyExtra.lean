import DryocVerif.Model.EntropyInst
import DryocVerif.Proofs.Base64Lemmas
/-!
Helper lemmas for `Properties/C11.lean`: freshness for the derived kinds, the X25519
clamping counterexamples for `.ephemeral`, and the n-call version of
`consecutive_disjoint`.  Core only.
-/
namespace DryocVerif.Proofs.EntropyExtra
open DryocVerif DryocVerif.Model.Entropy

/-! ### the random component determines / is determined by the drawn prefix -/

theorem take_length_of_le {n : Nat} {s : Bytes} (h : n ≤ s.length) : (s.take n).length = n := by
  rw [List.length_take]; exact Nat.min_eq_left h

theorem withDerived_comp_take (n : Nat) (f : Bytes → Bytes) (s : Bytes) (h : n ≤ s.length) :
    ((withDerived n f s).comp).take n = s.take n := by
  show (s.take n ++ f (s.take n)).take n = s.take n
  exact List.take_left' (take_length_of_le h)

theorem two_comp (n m : Nat) (s : Bytes) : (two n m s).comp = s.take (n + m) := by
  show s.take n ++ (s.drop n).take m = _
  rw [List.take_add]

/-- every entry point's random component is a function of the first `k.consumed` bytes of
the stream only -/
theorem run_comp_prefix (D : Derivers) (k : Kind) (s : Bytes) :
    (run D k s).comp = (run D k (s.take k.consumed)).comp := by
  cases k with
  | two n m =>
    show (two n m s).comp = (two n m (s.take (n + m))).comp
    rw [two_comp, two_comp, List.take_take, Nat.min_self]
  | _ => simp [run, raw, withDerived, onlyDerived, Kind.consumed, List.take_take]

/-- injectivity of a post-processing function on inputs of length `n` -/
def InjOnLen (n : Nat) (f : Bytes → Bytes) : Prop :=
  ∀ a b : Bytes, a.length = n → b.length = n → f a = f b → a = b

theorem fresh_withDerived (n : Nat) (f : Bytes → Bytes) (s₁ s₂ : Bytes) (h₁ : n ≤ s₁.length)
    (h₂ : n ≤ s₂.length) (h : s₁.take n ≠ s₂.take n) :
    (withDerived n f s₁).comp ≠ (withDerived n f s₂).comp := by
  intro e
  apply h
  rw [← withDerived_comp_take n f s₁ h₁, ← withDerived_comp_take n f s₂ h₂, e]

theorem fresh_onlyDerived (n : Nat) (f : Bytes → Bytes) (hf : InjOnLen n f) (s₁ s₂ : Bytes)
    (h₁ : n ≤ s₁.length) (h₂ : n ≤ s₂.length) (h : s₁.take n ≠ s₂.take n) :
    (onlyDerived n f s₁).comp ≠ (onlyDerived n f s₂).comp := by
  intro e
  exact h (hf _ _ (take_length_of_le h₁) (take_length_of_le h₂) e)

/-- freshness for every kind except `.ephemeral`: two draws that differ give results that
differ.  The only hypothesis about the uninterpreted post-processing is injectivity of the
salt text encoding on 16-byte inputs, needed only for `.saltText`. -/
theorem fresh_outputs_derived (D : Derivers) (k : Kind) (s₁ s₂ : Bytes) (hk : k ≠ .ephemeral)
    (hb64 : k = .saltText → InjOnLen 16 D.b64)
    (h₁ : k.consumed ≤ s₁.length) (h₂ : k.consumed ≤ s₂.length)
    (h : s₁.take k.consumed ≠ s₂.take k.consumed) :
    (run D k s₁).comp ≠ (run D k s₂).comp := by
  cases k with
  | raw n => exact h
  | keypair => exact fresh_withDerived 32 _ s₁ s₂ h₁ h₂ h
  | signKeypair => exact fresh_withDerived 32 _ s₁ s₂ h₁ h₂ h
  | signKeypairFull => exact fresh_withDerived 32 _ s₁ s₂ h₁ h₂ h
  | ephemeral => exact absurd rfl hk
  | saltText => exact fresh_onlyDerived 16 _ (hb64 rfl) s₁ s₂ h₁ h₂ h
  | two n m =>
    show (two n m s₁).comp ≠ (two n m s₂).comp
    rw [two_comp, two_comp]; exact h

/-! ### the salt text: base64 is injective -/

open DryocVerif.Spec.Base64 in
theorem encodeSextet_ascii : ∀ n, n < 64 →
    Char.ofNat (UInt8.ofNat (encodeSextet n).toNat).toNat = encodeSextet n := by decide

open DryocVerif.Spec.Base64 in
theorem encodeChars_mem (bs : Bytes) : ∀ c ∈ encodeChars bs, ∃ n, n < 64 ∧ c = encodeSextet n := by
  induction bs using encodeChars.induct with
  | case1 => simp [encodeChars]
  | case2 a =>
    have ha := a.toNat_lt
    intro c hc
    simp only [encodeChars, List.mem_cons, List.not_mem_nil, or_false] at hc
    rcases hc with rfl | rfl
    · exact ⟨_, by omega, rfl⟩
    · exact ⟨_, by omega, rfl⟩
  | case3 a b =>
    have ha := a.toNat_lt
    have hb := b.toNat_lt
    intro c hc
    simp only [encodeChars, List.mem_cons, List.not_mem_nil, or_false] at hc
    rcases hc with rfl | rfl | rfl
    · exact ⟨_, by omega, rfl⟩
    · exact ⟨_, by omega, rfl⟩
    · exact ⟨_, by omega, rfl⟩
  | case4 a b c rest ih =>
    have ha := a.toNat_lt
    have hb := b.toNat_lt
    have hc := c.toNat_lt
    intro x hx
    simp only [encodeChars, List.mem_cons] at hx
    rcases hx with rfl | rfl | rfl | rfl | hx
    · exact ⟨_, by omega, rfl⟩
    · exact ⟨_, by omega, rfl⟩
    · exact ⟨_, by omega, rfl⟩
    · exact ⟨_, by omega, rfl⟩
    · exact ih x hx

/-- reading the ASCII bytes back as characters recovers the base64 text -/
theorem b64Ascii_chars (bs : Bytes) :
    (b64Ascii bs).map (fun u => Char.ofNat u.toNat) = Spec.Base64.encodeChars bs := by
  unfold b64Ascii
  rw [List.map_map]
  conv => rhs; rw [← List.map_id (Spec.Base64.encodeChars bs)]
  apply List.map_congr_left
  intro c hc
  obtain ⟨n, hn, rfl⟩ := encodeChars_mem bs c hc
  exact encodeSextet_ascii n hn

/-- the salt text determines the salt: `decode (chars (b64Ascii bs)) = bs` -/
theorem b64Ascii_decode (bs : Bytes) :
    Spec.Base64.decodeChars ((b64Ascii bs).map (fun u => Char.ofNat u.toNat)) = some bs := by
  rw [b64Ascii_chars, Spec.Base64.decode_encode]

/-- the text encoding used for the salt is injective (on all inputs, in particular on the
16-byte salts) -/
theorem b64Ascii_injective (a b : Bytes) (h : b64Ascii a = b64Ascii b) : a = b := by
  have ha := b64Ascii_decode a
  rw [h, b64Ascii_decode b] at ha
  exact (Option.some.inj ha).symm

theorem specDerivers_b64_inj : InjOnLen 16 specDerivers.b64 :=
  fun a b _ _ h => b64Ascii_injective a b h

/-- freshness for the driver's instantiation, every kind except `.ephemeral`, no
hypothesis left about the post-processing -/
theorem fresh_outputs_spec (k : Kind) (s₁ s₂ : Bytes) (hk : k ≠ .ephemeral)
    (h₁ : k.consumed ≤ s₁.length) (h₂ : k.consumed ≤ s₂.length)
    (h : s₁.take k.consumed ≠ s₂.take k.consumed) :
    (run specDerivers k s₁).comp ≠ (run specDerivers k s₂).comp :=
  fresh_outputs_derived specDerivers k s₁ s₂ hk (fun _ => specDerivers_b64_inj) h₁ h₂ h

/-! ### `.ephemeral`: X25519 clamps, so the naive statement is false -/

/-- two 32-byte draws that differ (in bit 0, which clamping clears) … -/
def ephA : Bytes := zeros 32
def ephB : Bytes := 1 :: zeros 31

/-- … give the same ephemeral public key -/
theorem ephemeral_naive_false :
    ephA.length = 32 ∧ ephB.length = 32 ∧ ephA.take 32 ≠ ephB.take 32 ∧
    (run specDerivers .ephemeral ephA).comp = (run specDerivers .ephemeral ephB).comp := by
  decide +kernel

/-- two draws that are ALREADY clamped (fixed points of `clamp`), different, with the same
public key: the scalars `k = 2^254` and `k' = 8·L − 2^254` (`L` = order of the base
point), for which `[k']B = −[k]B`, and X25519 only keeps the u-coordinate -/
def ephK : Bytes := toLE 32 (2 ^ 254)
def ephK' : Bytes := toLE 32 (8 * Spec.Ed25519.L - 2 ^ 254)

theorem ephemeral_clamped_false :
    ephK.length = 32 ∧ ephK'.length = 32 ∧
    Spec.X25519.clamp ephK = ephK ∧ Spec.X25519.clamp ephK' = ephK' ∧ ephK ≠ ephK' ∧
    (run specDerivers .ephemeral ephK).comp = (run specDerivers .ephemeral ephK').comp := by
  decide +kernel

/-- hence the injectivity hypothesis under which `fresh_onlyDerived` would give freshness
for `.ephemeral` FAILS for the real post-processing -/
theorem x25519Base_not_injective : ¬ InjOnLen 32 specDerivers.x25519Base := by
  intro h
  have := h ephA ephB (by decide) (by decide) (by decide +kernel)
  exact absurd this (by decide)

/-- the public key is a function of the CLAMPED draw -/
theorem x25519Base_clamp_congr (a b : Bytes) (h : Spec.X25519.clamp a = Spec.X25519.clamp b) :
    Spec.X25519.x25519Base a = Spec.X25519.x25519Base b := by
  unfold Spec.X25519.x25519Base Spec.X25519.x25519 Spec.X25519.decodeScalar25519
  rw [h]

/-- what is true for `.ephemeral`, part 1: draws with the same clamped scalar give the same
public key (so the 5 clamped bits of the draw never reach the output) -/
theorem ephemeral_eq_of_clamp_eq (s₁ s₂ : Bytes)
    (h : Spec.X25519.clamp (s₁.take 32) = Spec.X25519.clamp (s₂.take 32)) :
    (run specDerivers .ephemeral s₁).comp = (run specDerivers .ephemeral s₂).comp :=
  x25519Base_clamp_congr _ _ h

/-- part 2 (contrapositive): different public keys come from different CLAMPED scalars.
The converse — different clamped scalars give different public keys — is FALSE
(`ephemeral_clamped_false`); it holds exactly when the clamped scalars are not
`≡ ±` each other modulo `L`, a fact about the curve that is not proved here. -/
theorem ephemeral_clamped_ne_of_ne (s₁ s₂ : Bytes)
    (h : (run specDerivers .ephemeral s₁).comp ≠ (run specDerivers .ephemeral s₂).comp) :
    Spec.X25519.clamp (s₁.take 32) ≠ Spec.X25519.clamp (s₂.take 32) :=
  fun e => h (ephemeral_eq_of_clamp_eq s₁ s₂ e)

/-- part 3: freshness relative to any set `S` of draws on which the base-point
multiplication is injective (for the real X25519 such an `S` must not contain two draws
with the same clamped scalar, nor clamped scalars `k`, `k'` with `k + k' ≡ 0 mod L`) -/
theorem fresh_outputs_ephemeral (D : Derivers) (S : Bytes → Prop)
    (hinj : ∀ a b, S a → S b → D.x25519Base a = D.x25519Base b → a = b) (s₁ s₂ : Bytes)
    (h₁ : S (s₁.take 32)) (h₂ : S (s₂.take 32)) (h : s₁.take 32 ≠ s₂.take 32) :
    (run D .ephemeral s₁).comp ≠ (run D .ephemeral s₂).comp :=
  fun e => h (hinj _ _ h₁ h₂ e)

/-! ### n consecutive calls -/

/-- the results of running the operations `ks` one after the other on the same stream -/
def runSeq (D : Derivers) : List Kind → Bytes → List Res
  | [], _ => []
  | k :: ks, src => run D k src :: runSeq D ks (run D k src).rest

/-- what is left of the stream after the operations `ks` -/
def restAfter (D : Derivers) : List Kind → Bytes → Bytes
  | [], src => src
  | k :: ks, src => restAfter D ks (run D k src).rest

/-- number of bytes consumed by the first `i` operations of `ks` -/
def offset (ks : List Kind) (i : Nat) : Nat := ((ks.take i).map Kind.consumed).sum

theorem run_rest (D : Derivers) (k : Kind) (src : Bytes) :
    (run D k src).rest = src.drop k.consumed := by
  cases k <;> simp [run, raw, withDerived, onlyDerived, two, Kind.consumed, List.drop_drop]

theorem offset_zero (ks : List Kind) : offset ks 0 = 0 := by simp [offset]

theorem offset_cons_succ (k : Kind) (ks : List Kind) (i : Nat) :
    offset (k :: ks) (i + 1) = k.consumed + offset ks i := by
  simp [offset]

/-- the windows are consecutive: the (i+1)-th starts where the i-th ends -/
theorem offset_succ (ks : List Kind) (i : Nat) (hi : i < ks.length) :
    offset ks (i + 1) = offset ks i + ks[i].consumed := by
  induction ks generalizing i with
  | nil => simp at hi
  | cons k ks ih =>
    cases i with
    | zero => simp [offset]
    | succ i =>
      have hi' : i < ks.length := by simpa using hi
      rw [offset_cons_succ, offset_cons_succ, ih i hi']
      simp [Nat.add_assoc]

theorem runSeq_length (D : Derivers) (ks : List Kind) (src : Bytes) :
    (runSeq D ks src).length = ks.length := by
  induction ks generalizing src with
  | nil => rfl
  | cons k ks ih => simp [runSeq, ih]

/-- **n-call disjointness**: the i-th of n consecutive calls is the operation `ks[i]` run on
the stream from which exactly the bytes of the first i calls have been removed -/
theorem calls_disjoint (D : Derivers) (ks : List Kind) (src : Bytes) (i : Nat)
    (hi : i < ks.length) :
    (runSeq D ks src)[i]? = some (run D ks[i] (src.drop (offset ks i))) := by
  induction ks generalizing src i with
  | nil => simp at hi
  | cons k ks ih =>
    cases i with
    | zero => simp [runSeq, offset]
    | succ i =>
      have hi' : i < ks.length := by simpa using hi
      simp only [runSeq, List.getElem?_cons_succ, List.getElem_cons_succ]
      rw [ih _ i hi', run_rest, List.drop_drop, offset_cons_succ]

theorem restAfter_eq (D : Derivers) (ks : List Kind) (src : Bytes) :
    restAfter D ks src = src.drop (offset ks ks.length) := by
  induction ks generalizing src with
  | nil => simp [restAfter, offset]
  | cons k ks ih =>
    rw [restAfter, ih, run_rest, List.drop_drop, List.length_cons, offset_cons_succ]

/-- the random component of the i-th call is a function of its own window
`src[offset i, offset i + consumed i)` only -/
theorem calls_window (D : Derivers) (ks : List Kind) (src : Bytes) (i : Nat)
    (hi : i < ks.length) :
    ∃ r, (runSeq D ks src)[i]? = some r ∧
      r.comp = (run D ks[i] ((src.drop (offset ks i)).take ks[i].consumed)).comp ∧
      r.rest = src.drop (offset ks (i + 1)) ∧ r.draws.sum = ks[i].consumed := by
  refine ⟨_, calls_disjoint D ks src i hi, run_comp_prefix D _ _, ?_, ?_⟩
  · rw [run_rest, List.drop_drop, offset_succ ks i hi]
  · cases ks[i] <;> simp [run, raw, withDerived, onlyDerived, two, Kind.consumed]

/-! ### many calls of the same entry point: no value repeats when the draws are distinct -/

theorem offset_replicate (k : Kind) (n i : Nat) (hi : i ≤ n) :
    offset (List.replicate n k) i = i * k.consumed := by
  unfold offset
  rw [List.take_replicate, Nat.min_eq_left hi, List.map_replicate]
  clear hi
  induction i with
  | zero => simp
  | succ i ih => rw [List.replicate_succ, List.sum_cons, ih, Nat.succ_mul, Nat.add_comm]

/-- the i-th of n calls of the same entry point is the operation run on the stream from which
the first `i · consumed` bytes have been removed -/
theorem calls_replicate (D : Derivers) (k : Kind) (n i : Nat) (src : Bytes) (hi : i < n) :
    (runSeq D (List.replicate n k) src)[i]? = some (run D k (src.drop (i * k.consumed))) := by
  have hl : i < (List.replicate n k).length := by simpa using hi
  rw [calls_disjoint D _ src i hl, offset_replicate k n i (Nat.le_of_lt hi)]
  simp

/-- the i-th window of `src` for an entry point consuming `c` bytes per call -/
def window (c : Nat) (src : Bytes) (i : Nat) : Bytes := (src.drop (i * c)).take c

/-- **across many calls no value repeats, given distinct draws**: among `n` consecutive calls of
the same entry point (any kind but `.ephemeral`) on a stream long enough, two calls whose windows
of the stream differ return different values -/
theorem calls_fresh (k : Kind) (hk : k ≠ .ephemeral) (n i j : Nat) (src : Bytes) (hi : i < j)
    (hj : j < n) (hl : n * k.consumed ≤ src.length)
    (hw : window k.consumed src i ≠ window k.consumed src j) :
    ∃ ri rj, (runSeq specDerivers (List.replicate n k) src)[i]? = some ri ∧
      (runSeq specDerivers (List.replicate n k) src)[j]? = some rj ∧ ri.comp ≠ rj.comp := by
  have hlen : ∀ t, t < n → k.consumed ≤ (src.drop (t * k.consumed)).length := by
    intro t ht
    have h1 : (t + 1) * k.consumed ≤ n * k.consumed := Nat.mul_le_mul_right _ ht
    rw [Nat.add_mul, Nat.one_mul] at h1
    rw [List.length_drop]; omega
  refine ⟨_, _, calls_replicate _ k n i src (by omega), calls_replicate _ k n j src hj, ?_⟩
  exact fresh_outputs_spec k _ _ hk (hlen i (by omega)) (hlen j hj) hw

/-! ### byte positions -/

/-- every byte position of a raw value is the corresponding drawn byte -/
theorem raw_byte (n i : Nat) (src : Bytes) (hi : i < n) : (raw n src).comp[i]? = src[i]? := by
  show (src.take n)[i]? = src[i]?
  rw [List.getElem?_take, if_pos hi]

end DryocVerif.Proofs.EntropyExtra
