import DryocVerif.Model.Curve
import DryocVerif.Model.CurveInst
import DryocVerif.Model.Sign
/-
Helper lemmas for C05 / C12 / C13 (dryoc's code around Curve25519).  Core only.
-/
namespace DryocVerif.Proofs.Curve
open DryocVerif DryocVerif.Model.Curve

/-! ### `le`, `toLE`, `zeros` -/

theorem le_lt (bs : Bytes) : le bs < 256 ^ bs.length := by
  induction bs with
  | nil => simp [le]
  | cons b bs ih =>
    have hb := b.toNat_lt
    simp only [le, List.length_cons, Nat.pow_succ]
    omega

theorem le_append (a b : Bytes) : le (a ++ b) = le a + 256 ^ a.length * le b := by
  induction a with
  | nil => simp [le]
  | cons x a ih =>
    simp only [List.cons_append, le, List.length_cons, ih, Nat.pow_succ]
    rw [Nat.mul_add, Nat.add_assoc, ← Nat.mul_assoc, Nat.mul_comm 256 (256 ^ a.length)]

theorem toLE_length (n v : Nat) : (toLE n v).length = n := by
  induction n generalizing v with
  | zero => simp [toLE]
  | succ n ih => simp [toLE, ih]

theorem le_toLE (n v : Nat) : le (toLE n v) = v % 256 ^ n := by
  induction n generalizing v with
  | zero => simp [toLE, le, Nat.mod_one]
  | succ n ih =>
    simp only [toLE, le, ih]
    have h3 : (UInt8.ofNat (v % 256)).toNat = v % 256 := by simp [UInt8.toNat_ofNat']
    rw [h3, Nat.pow_succ, Nat.mul_comm (256 ^ n) 256, Nat.mod_mul]

theorem toLE_inj (n a b : Nat) (ha : a < 256 ^ n) (hb : b < 256 ^ n)
    (h : toLE n a = toLE n b) : a = b := by
  have := congrArg le h
  rwa [le_toLE, le_toLE, Nat.mod_eq_of_lt ha, Nat.mod_eq_of_lt hb] at this

theorem toLE_mod (n v : Nat) : toLE n (v % 256^n) = toLE n v := by
  induction n generalizing v with
  | zero => simp [toLE]
  | succ n ih =>
    rw [toLE, toLE]
    have e1 : v % 256^(n+1) % 256 = v % 256 := by
      rw [Nat.pow_succ, Nat.mul_comm]; exact Nat.mod_mul_right_mod _ _ _
    have e2 : v % 256^(n+1) / 256 = (v / 256) % 256^n := by
      rw [Nat.pow_succ, Nat.mul_comm]; exact Nat.mod_mul_right_div_self _ _ _
    rw [e1, e2, ih]

theorem zeros_length (n : Nat) : (zeros n).length = n := by simp [zeros]

/-! ### byte facts (checked over all 256 values) -/

theorem and248_and248 (b : UInt8) : (b &&& 248) &&& 248 = b &&& 248 := by
  rw [UInt8.and_assoc]; rfl

set_option maxRecDepth 8000 in
theorem nat_and248 : ∀ x, x < 256 → (x &&& 248) % 8 = 0 := by decide

set_option maxRecDepth 8000 in
theorem nat_hi : ∀ x, x < 256 → 64 ≤ ((x &&& 127) ||| 64) ∧ ((x &&& 127) ||| 64) < 128 := by decide

theorem and248_mod8 (b : UInt8) : (b &&& 248).toNat % 8 = 0 := by
  rw [UInt8.toNat_and]; exact nat_and248 _ b.toNat_lt

theorem hi_range (b : UInt8) : 64 ≤ ((b &&& 127) ||| 64).toNat ∧ ((b &&& 127) ||| 64).toNat < 128 := by
  rw [UInt8.toNat_or, UInt8.toNat_and]; exact nat_hi _ b.toNat_lt

/-- the top-byte operation `b ↦ (b & 127) | 64` -/
abbrev hi (b : UInt8) : UInt8 := (b &&& 127) ||| 64

set_option maxRecDepth 8000 in
theorem nat_hi_hi : ∀ x, x < 256 →
    ((((x &&& 127) ||| 64) &&& 127) ||| 64) = ((x &&& 127) ||| 64) := by decide

theorem hi_hi (b : UInt8) : hi (hi b) = hi b := by
  apply UInt8.toNat_inj.mp
  simpa [hi, UInt8.toNat_or, UInt8.toNat_and] using nat_hi_hi _ b.toNat_lt

/-! ### `clamp` -/

theorem clamp_nil : clamp [] = [] := rfl

theorem clamp_cons (b0 : UInt8) (rest : Bytes) :
    clamp (b0 :: rest) = (b0 &&& 248) :: (rest.take 30 ++ (rest.drop 30).map hi) := by
  simp [clamp]

theorem clamp_length (n : Bytes) : (clamp n).length = n.length := by
  cases n with
  | nil => rfl
  | cons b0 rest => rw [clamp_cons]; simp; omega

/-- `take 30`/`drop 30` of the clamped tail -/
theorem tail_take (rest : Bytes) (f : UInt8 → UInt8) :
    (rest.take 30 ++ (rest.drop 30).map f).take 30 = rest.take 30 := by
  by_cases h : 30 ≤ rest.length
  · rw [List.take_append_of_le_length (by simp; omega), List.take_take]; simp
  · have : rest.drop 30 = [] := List.drop_eq_nil_of_le (by omega)
    simp [this, List.take_take]

theorem tail_drop (rest : Bytes) (f : UInt8 → UInt8) :
    (rest.take 30 ++ (rest.drop 30).map f).drop 30 = (rest.drop 30).map f := by
  by_cases h : 30 ≤ rest.length
  · have hl : (rest.take 30).length = 30 := by simp; omega
    rw [List.drop_append_of_le_length (by omega), List.drop_of_length_le (by omega)]
    simp
  · have : rest.drop 30 = [] := List.drop_eq_nil_of_le (by omega)
    simp [this]

theorem clamp_idem (n : Bytes) : clamp (clamp n) = clamp n := by
  cases n with
  | nil => rfl
  | cons b0 rest =>
    rw [clamp_cons, clamp_cons, tail_take, tail_drop, and248_and248, List.map_map]
    congr 3
    funext b; exact hi_hi b

/-- the spec's formulation (`modify` at index 0 and 31 of the first 32 bytes) -/
theorem spec_clamp_cons (b0 : UInt8) (rest : Bytes) (h : rest.length ≤ 31) :
    Spec.X25519.clamp (b0 :: rest) = (b0 &&& 248) :: (rest.take 30 ++ (rest.drop 30).map hi) := by
  unfold Spec.X25519.clamp
  have ht : (b0 :: rest).take 32 = b0 :: rest := List.take_of_length_le (by simp; omega)
  rw [ht, List.modify_zero_cons, List.modify_succ_cons, List.modify_eq_take_drop]
  congr 2
  -- at most one byte is left at index 30 of `rest`
  match hd : rest.drop 30 with
  | [] => rfl
  | [x] => rfl
  | x :: y :: l =>
    have : (rest.drop 30).length ≤ 1 := by simp; omega
    rw [hd] at this; simp at this

theorem clamp_eq_spec_of_le (n : Bytes) (h : n.length ≤ 32) : clamp n = Spec.X25519.clamp n := by
  cases n with
  | nil => rfl
  | cons b0 rest =>
    rw [clamp_cons, spec_clamp_cons b0 rest (by simpa using h)]

/-- the two definitions differ on longer inputs: the spec truncates to 32 bytes, the
model (whose Rust original only takes `[u8; 32]`) keeps the length -/
theorem clamp_ne_spec_33 : clamp (zeros 33) ≠ Spec.X25519.clamp (zeros 33) := by decide

/-! ### value of a clamped 32-byte scalar -/

theorem le_clamp32 (b0 : UInt8) (rest : Bytes) (h : rest.length = 31) :
    ∃ x : UInt8, le (clamp (b0 :: rest)) =
      (b0 &&& 248).toNat + 256 * (le (rest.take 30) + 256 ^ 30 * (hi x).toNat) := by
  match hd : rest.drop 30 with
  | [] => have := congrArg List.length hd; simp at this; omega
  | x :: l =>
    have hl : l = [] := by
      have := congrArg List.length hd; simp at this
      exact List.eq_nil_of_length_eq_zero (by omega)
    subst hl
    refine ⟨x, ?_⟩
    rw [clamp_cons, hd, le, le_append]
    have : (rest.take 30).length = 30 := by simp; omega
    rw [this]; simp [le]

theorem clamp_range (n : Bytes) (h : n.length = 32) :
    2 ^ 254 ≤ le (clamp n) ∧ le (clamp n) < 2 ^ 255 ∧ 8 ∣ le (clamp n) := by
  match n, h with
  | b0 :: rest, h =>
    have hr : rest.length = 31 := by simpa using h
    obtain ⟨x, hx⟩ := le_clamp32 b0 rest hr
    have h0 := and248_mod8 b0
    have h0' := (b0 &&& 248).toNat_lt
    have ⟨h1, h2⟩ := hi_range x
    have h3 := le_lt (rest.take 30)
    have h4 : (rest.take 30).length = 30 := by simp; omega
    rw [h4] at h3
    rw [hx]
    generalize (b0 &&& 248).toNat = a at *
    generalize (hi x).toNat = c at *
    generalize le (rest.take 30) = m at *
    have e30 : (256 : Nat) ^ 30 = 1766847064778384329583297500742918515827483896875618958121606201292619776 := by decide
    rw [e30] at h3 ⊢
    refine ⟨?_, ?_, ?_⟩ <;> omega

/-! ### BLAKE2b parameter block -/

open Spec.Blake2b in
theorem fit_length (n : Nat) (bs : Bytes) : (fit n bs).length = n := by
  simp [fit, zeros]

open Spec.Blake2b in
theorem fit_of_length (n : Nat) (bs : Bytes) (h : bs.length = n) : fit n bs = bs := by
  rw [fit, List.take_append_of_le_length (by omega), List.take_of_length_le (by omega)]

theorem ofNat_inj_of_lt (a b : Nat) (ha : a < 256) (hb : b < 256)
    (h : UInt8.ofNat a = UInt8.ofNat b) : a = b := by
  have := congrArg UInt8.toNat h
  simpa [UInt8.toNat_ofNat', Nat.mod_eq_of_lt ha, Nat.mod_eq_of_lt hb] using this

open Spec.Blake2b in
/-- the parameter block determines digest length, key length, and the (padded) salt and
personalisation -/
theorem paramBlock_inj (o o' k k' : Nat) (s s' q q' : Bytes)
    (h : paramBlock o k s q = paramBlock o' k' s' q') :
    UInt8.ofNat o = UInt8.ofNat o' ∧ UInt8.ofNat k = UInt8.ofNat k' ∧
      fit 16 s = fit 16 s' ∧ fit 16 q = fit 16 q' := by
  unfold paramBlock at h
  have h1 := List.append_inj h (by simp [fit_length, zeros])
  have h2 := List.append_inj h1.1 (by simp [zeros])
  have h3 := List.append_inj h2.1 (by simp [zeros])
  have h4 := List.append_inj h3.1 (by simp [zeros])
  have h5 := List.append_inj h4.1 (by simp [zeros])
  have h6 := List.append_inj h5.1 (by simp)
  have h7 := h6.1
  simp only [List.cons.injEq] at h7
  exact ⟨h7.1, h7.2.1, h2.2, h1.2⟩

/-! ### SHA-512 output length -/

open Spec.Sha512 in
theorem compress_size (h : Array UInt64) (b : Bytes) : (compress h b).size = 8 := by
  simp [compress]

open Spec.Sha512 in
theorem foldl_compress_size (l : List Bytes) (h : Array UInt64) (hh : h.size = 8) :
    (l.foldl compress h).size = 8 := by
  induction l generalizing h with
  | nil => exact hh
  | cons b l ih => exact ih _ (compress_size h b)

open Spec.Sha512 in
theorem digest_length (l : List UInt64) :
    (l.flatMap fun w => toBE 8 w.toNat).length = 8 * l.length := by
  induction l with
  | nil => rfl
  | cons w l ih =>
    rw [List.flatMap_cons, List.length_append, ih, List.length_cons]
    simp only [toBE, List.length_reverse, toLE_length]; omega

/-- SHA-512 digests are 64 bytes, for every input -/
theorem sha512_length (msg : Bytes) : (Spec.Sha512.sha512 msg).length = 64 := by
  unfold Spec.Sha512.sha512 Spec.Sha512.digestOfState
  rw [digest_length, Array.length_toList, foldl_compress_size _ _ rfl]

/-! ### `clamp_hash` of the signature module -/

/-- `clamp_hash` is `clamp` on the first 32 bytes -/
theorem clampHash_eq_clamp (h : Bytes) : Model.Sign.clampHash h = clamp (h.take 32) := rfl

theorem clampHash_length (h : Bytes) (hh : 32 ≤ h.length) : (Model.Sign.clampHash h).length = 32 := by
  rw [clampHash_eq_clamp, clamp_length]; simp; omega

theorem clampHash_clamped (h : Bytes) : clamp (Model.Sign.clampHash h) = Model.Sign.clampHash h := by
  rw [clampHash_eq_clamp, clamp_idem]

/-! ### the ladder on the point u = 0 (and its non-canonical encoding u = p)

With `x1 ≡ 0` every step produces `z2 = z3 = 0` (`z3` is a multiple of `x1`; `z2` is a
multiple of `E = AA − BB`, and `A = B` once `z2 = 0`), so the final `x2 · z2^(p−2)` is 0:
X25519 maps the order-2 point to the all-zero output for *every* scalar. -/

section Ladder
open Spec.X25519

/-- the loop body with the scalar bit as a parameter -/
def stepCore (kt x1 : Nat) (s : LadderState) : LadderState :=
  let swap := s.swap ^^^ kt
  let (x2, x3) := cswap swap s.x2 s.x3
  let (z2, z3) := cswap swap s.z2 s.z3
  let A := fadd x2 z2
  let AA := fsq A
  let B := fsub x2 z2
  let BB := fsq B
  let E := fsub AA BB
  let C := fadd x3 z3
  let D := fsub x3 z3
  let DA := fmul D A
  let CB := fmul C B
  { x3 := fsq (fadd DA CB)
    z3 := fmul x1 (fsq (fsub DA CB))
    x2 := fmul AA BB
    z2 := fmul E (fadd AA (fmul a24 E))
    swap := kt }

theorem ladderStep_eq (k x1 : Nat) (s : LadderState) (t : Nat) :
    ladderStep k x1 s t = stepCore ((k >>> t) % 2) x1 s := rfl

theorem fsub_zero_right (x : Nat) : fsub x 0 = x % p := by
  simp [fsub]

theorem fadd_zero_right (x : Nat) : fadd x 0 = x % p := by simp [fadd]

theorem fsub_self (a : Nat) : fsub a a = 0 := by
  simp only [fsub, p]; omega

theorem fmul_zero_left (b : Nat) : fmul 0 b = 0 := by simp [fmul]

theorem fmul_zero_right (b : Nat) : fmul b 0 = 0 := by simp [fmul]

theorem fmul_of_mod (x b : Nat) (h : x % p = 0) : fmul x b = 0 := by
  rw [fmul, Nat.mul_mod, h]; simp

/-- the invariant: both projective denominators vanish -/
def ZInv (s : LadderState) : Prop := s.z2 = 0 ∧ s.z3 = 0

theorem stepCore_zinv (kt x1 : Nat) (s : LadderState) (hx : x1 % p = 0) (h : ZInv s) :
    ZInv (stepCore kt x1 s) := by
  obtain ⟨h2, h3⟩ := h
  constructor
  · by_cases hc : s.swap ^^^ kt = 1 <;>
      simp [stepCore, cswap, hc, h2, h3, fadd_zero_right, fsub_zero_right, fsub_self, fmul_zero_left]
  · exact fmul_of_mod _ _ hx

theorem ladderLoop_zinv (k x1 : Nat) (hx : x1 % p = 0) (n : Nat) (s : LadderState) (h : ZInv s) :
    ZInv (ladderLoop k x1 n s) := by
  induction n generalizing s with
  | zero => exact h
  | succ n ih =>
    rw [ladderLoop, ladderStep_eq]
    exact ih _ (stepCore_zinv _ _ _ hx h)

/-- the first iteration, from the initial state, for u = 0 and u = p and either scalar bit -/
theorem first_step_zinv :
    ∀ kt, kt < 2 → ∀ x1, (x1 = 0 ∨ x1 = p) →
      ZInv (stepCore kt x1 { x2 := 1, z2 := 0, x3 := x1, z3 := 1, swap := 0 }) := by
  intro kt hkt x1 hx1
  have hk : kt = 0 ∨ kt = 1 := by omega
  rcases hk with rfl | rfl <;> rcases hx1 with rfl | rfl <;>
    (unfold ZInv; decide)

set_option maxRecDepth 100000 in
theorem fpow_zero_inv : fpow 0 (p - 2) = 0 := by decide

theorem ladder_of_zinv (k x1 : Nat) (hx1 : x1 = 0 ∨ x1 = p) : ladder k x1 = 0 := by
  have hx : x1 % p = 0 := by rcases hx1 with rfl | rfl <;> decide
  have h0 := first_step_zinv ((k >>> 254) % 2) (Nat.mod_lt _ (by decide)) x1 hx1
  have h := ladderLoop_zinv k x1 hx 254 _ h0
  rw [← ladderStep_eq, ← ladderLoop] at h
  obtain ⟨h2, h3⟩ := h
  unfold ladder
  have hz : ∀ sw, cswap sw (ladderLoop k x1 255 { x2 := 1, z2 := 0, x3 := x1, z3 := 1, swap := 0 }).z2
      (ladderLoop k x1 255 { x2 := 1, z2 := 0, x3 := x1, z3 := 1, swap := 0 }).z3 = (0, 0) := by
    intro sw; rw [h2, h3]; unfold cswap; split <;> rfl
  simp only [hz, fpow_zero_inv, fmul_zero_right]

/-- X25519 of the order-2 point is 0 for every scalar -/
theorem ladder_zero (k : Nat) : ladder k 0 = 0 := ladder_of_zinv k 0 (Or.inl rfl)

/-- … also in its non-canonical encoding u = p -/
theorem ladder_p (k : Nat) : ladder k p = 0 := ladder_of_zinv k p (Or.inr rfl)

end Ladder

end DryocVerif.Proofs.Curve
