import DryocVerif.Properties.C14
import DryocVerif.Model.ArrayView
import DryocVerif.Model.EncodingVec
import DryocVerif.Proofs.ObjectViewExtra
/-
C18, container part: the places where the containers of the crate are NOT the same code —
`ResizableBytes::resize` (`Vec::resize` for `HeapBytes` and `Unlocked<HeapBytes>`, the swap through a freshly
locked region for `Locked<HeapBytes>`), `Clone` (`Vec::clone`, `new_locked` + `resize` + `copy_from_slice` for
`Locked` / `LockedRO`), the fixed-length constructors (`TryFrom<&[u8]>` for `StackByteArray<N>` / `HeapByteArray<N>`
/ `[u8; N]`, `HeapByteArray::<N>::from_slice_into_[readonly_]locked`) and `ByteArray<N>::as_array` — and what is
proved about each: the BYTES a container ends up holding do not depend on which container it is, with ONE stated
exception (`asArray_prefix_view`: `Vec<u8>` / `&[u8]` / `[u8]` used as `ByteArray<N>`).

The statements about the protected-memory model go through the theorems exported by `Properties/C14.lean`
(`vec_resize_prefix_fill`, `locked_resize_prefix`, `resize_keeps_prefix_fill`, `clone_keeps_data`,
`vec_clone_keeps_data`, `inv_step`); the model definitions are unfolded only in `fixedCtor_*` below (the generic
form of `doFromSlice`, which the model has for the harness' `0x5a` content only).
-/
namespace DryocVerif.Proofs.ContainerIndependence
open DryocVerif DryocVerif.Model.Protected DryocVerif.Proofs.Protected
open DryocVerif.Properties

/-- what `Vec::<u8>::resize(n, b)` does to the BYTES `d` of a vector (std semantics: truncate, or extend with `b`) -/
def vecResizeSpec (d : Bytes) (n : Nat) (b : UInt8) : Bytes := d.take n ++ List.replicate (n - d.length) b

/-- the type states that have `ResizableBytes` (`HeapBytes`, `Unlocked<HeapBytes>`, `Locked<HeapBytes>`) -/
def Resizable : St → Prop
  | .plain | .prot .unlocked .rw | .prot .locked .rw => True
  | _ => False

/-- the type states that have `Clone` -/
def Clonable : St → Prop
  | .plain | .prot .unlocked .rw | .prot .unlocked .ro | .prot .locked .rw | .prot .locked .ro => True
  | _ => False

instance : DecidablePred Resizable := fun st => by unfold Resizable; split <;> infer_instance
instance : DecidablePred Clonable := fun st => by unfold Clonable; split <;> infer_instance

private theorem data_len_of_wf {v : PVec} (hl : v.len ≤ v.cap) (hb : v.buf.length = v.cap) :
    v.data.length = v.len := data_length (by omega)

/-! ### 1. `resize`: the swap-through-a-new-locked-region implementation = `Vec::resize` -/

/-- **`Locked<HeapBytes>::resize` = `Vec::resize`** (function level).  `lockedResize` allocates a NEW vector, resizes
it, locks it, copies `min n len` bytes and swaps; `vecResize` truncates / fills in place / reallocates.  Whenever the
locked one does not panic, both end with the same length and the same bytes, namely `vecResizeSpec` of the old
bytes — for every length `n`, every fill byte `b`, every record `rc`, every machine (the two calls may even start
from different machines `m`, `m'`). -/
theorem locked_resize_eq_vec_resize (c : Cfg) (m m' : Mach) (v nv : PVec) (rc : LM × PM) (n : Nat) (b : UInt8)
    (hl : v.len ≤ v.cap) (hb : v.buf.length = v.cap) (h : (lockedResize c m v rc n b).2 = some nv) :
    nv.len = (vecResize c m' v n b).2.len ∧ nv.data = (vecResize c m' v n b).2.data ∧
    nv.data = vecResizeSpec v.data n b := by
  have hL := C14.locked_resize_prefix c m v nv rc n b (by omega) h
  have hV := C14.vec_resize_prefix_fill c m' v n b hl hb
  refine ⟨hL.1.trans hV.1.symm, hL.2.trans hV.2.symm, ?_⟩
  rw [hL.2, vecResizeSpec, data_len_of_wf hl hb]

/-- the plain `HeapBytes::resize` and `Unlocked<HeapBytes>::resize` (both `Vec::resize` on the page-aligned vector)
against the same specification -/
theorem vec_resize_eq_spec (c : Cfg) (m : Mach) (v : PVec) (n : Nat) (b : UInt8)
    (hl : v.len ≤ v.cap) (hb : v.buf.length = v.cap) :
    (vecResize c m v n b).2.len = n ∧ (vecResize c m v n b).2.data = vecResizeSpec v.data n b := by
  have hV := C14.vec_resize_prefix_fill c m v n b hl hb
  refine ⟨hV.1, ?_⟩
  rw [hV.2, vecResizeSpec, data_len_of_wf hl hb]

/-- fill byte 0 (the only one the crate itself passes): `v.data.take n ++ zeros (n - v.len)` -/
theorem locked_resize_eq_vec_resize_zero (c : Cfg) (m : Mach) (v nv : PVec) (rc : LM × PM) (n : Nat)
    (hl : v.len ≤ v.cap) (hb : v.buf.length = v.cap) (h : (lockedResize c m v rc n).2 = some nv) :
    nv.data = (vecResize c m v n).2.data ∧ nv.data = v.data.take n ++ zeros (n - v.len) :=
  ⟨(locked_resize_eq_vec_resize c m m v nv rc n 0 hl hb h).2.1,
   (C14.locked_resize_prefix c m v nv rc n 0 (by omega) h).2⟩

/-- **the `resize` token in every resizable type state** (token level, any state satisfying the invariant): when it
answers `ok` the slot holds `vecResizeSpec` of its old bytes, and the type state is one of the three resizable ones
— so the result does not depend on WHICH of them it is. -/
theorem resize_token_eq_spec (c : Cfg) (s : State) (h : Inv c s) (i : Nat) (sl : Slot)
    (hi : s.slots[i]? = some sl) (hg : sl.gone = false) (n : Nat) (b : UInt8)
    (hok : (step c s ⟨.resize n b, i⟩).1 = .ok) :
    ∃ nsl : Slot, (step c s ⟨.resize n b, i⟩).2.slots = s.slots.set i nsl ∧ nsl.gone = false ∧
      nsl.o.st = sl.o.st ∧ nsl.o.v.len = n ∧ nsl.o.v.data = vecResizeSpec sl.o.v.data n b := by
  obtain ⟨nsl, h1, h2, h3, h4, h5⟩ := C14.resize_keeps_prefix_fill c s h i sl hi hg n b hok
  have hb := inv_block h hi hg
  have hl : sl.o.v.len ≤ sl.o.v.cap := hb.lenle
  have hbl : sl.o.v.buf.length = sl.o.v.cap := hb.buflen
  exact ⟨nsl, h1, h2, h3, h4, by rw [h5, vecResizeSpec, data_len_of_wf hl hbl]⟩

/-- **`resize` is container independent**: two live slots — in two histories, under two configurations, in ANY two
type states (plain / `Unlocked` / `Locked`) — that hold the same bytes hold the same bytes after `resize(n, b)`. -/
theorem resize_container_independent (c c' : Cfg) (s s' : State) (h : Inv c s) (h' : Inv c' s')
    (i i' : Nat) (sl sl' : Slot) (hi : s.slots[i]? = some sl) (hi' : s'.slots[i']? = some sl')
    (hg : sl.gone = false) (hg' : sl'.gone = false) (hd : sl.o.v.data = sl'.o.v.data) (n : Nat) (b : UInt8)
    (hok : (step c s ⟨.resize n b, i⟩).1 = .ok) (hok' : (step c' s' ⟨.resize n b, i'⟩).1 = .ok) :
    ∃ nsl nsl' : Slot, (step c s ⟨.resize n b, i⟩).2.slots[i]? = some nsl ∧
      (step c' s' ⟨.resize n b, i'⟩).2.slots[i']? = some nsl' ∧ nsl.o.v.data = nsl'.o.v.data := by
  obtain ⟨nsl, h1, _, _, _, h5⟩ := resize_token_eq_spec c s h i sl hi hg n b hok
  obtain ⟨nsl', h1', _, _, _, h5'⟩ := resize_token_eq_spec c' s' h' i' sl' hi' hg' n b hok'
  have hlt : i < s.slots.length := by
    rcases Nat.lt_or_ge i s.slots.length with hlt | hge
    · exact hlt
    · rw [List.getElem?_eq_none hge] at hi; cases hi
  have hlt' : i' < s'.slots.length := by
    rcases Nat.lt_or_ge i' s'.slots.length with hlt | hge
    · exact hlt
    · rw [List.getElem?_eq_none hge] at hi'; cases hi'
  refine ⟨nsl, nsl', ?_, ?_, by rw [h5, h5', hd]⟩
  · rw [h1, List.getElem?_set_self hlt]
  · rw [h1', List.getElem?_set_self hlt']

/-! ### 2. `clone` -/

/-- **`Clone` in every type state that has one = `Vec::clone`**: when the `clone` token answers `ok` — source plain,
`Unlocked`, `UnlockedRO` (`Vec::clone` of the inner vector) or `Locked` / `LockedRO` (`new_locked`, `resize`,
`copy_from_slice`) — the new region is in the source's type state and holds exactly the source's bytes, which is what
`Vec::clone` of the source's vector holds. -/
theorem clone_eq_vec_clone (c : Cfg) (s : State) (h : Inv c s) (i : Nat) (sl : Slot)
    (hi : s.slots[i]? = some sl) (hg : sl.gone = false) (hok : (step c s ⟨.clone, i⟩).1 = .ok) :
    ∃ nsl : Slot, (step c s ⟨.clone, i⟩).2.slots = s.slots ++ [nsl] ∧ nsl.gone = false ∧
      nsl.o.st = sl.o.st ∧ nsl.o.v.len = sl.o.v.len ∧ nsl.o.v.data = sl.o.v.data ∧
      nsl.o.v.data = (vecClone c s.m sl.o.v).2.data := by
  obtain ⟨nsl, h1, h2, h3, h4, h5⟩ := C14.clone_keeps_data c s h i sl hi hg hok
  have hb := inv_block h hi hg
  have hl : sl.o.v.len ≤ sl.o.v.cap := hb.lenle
  have hbl : sl.o.v.buf.length = sl.o.v.cap := hb.buflen
  exact ⟨nsl, h1, h2, h3, h4, h5, h5.trans (C14.vec_clone_keeps_data c s.m sl.o.v (by omega)).2.symm⟩

/-- **`clone` is container independent**: two live slots in ANY two type states holding the same bytes give clones
holding the same bytes (and each clone holds its source's). -/
theorem clone_container_independent (c c' : Cfg) (s s' : State) (h : Inv c s) (h' : Inv c' s')
    (i i' : Nat) (sl sl' : Slot) (hi : s.slots[i]? = some sl) (hi' : s'.slots[i']? = some sl')
    (hg : sl.gone = false) (hg' : sl'.gone = false) (hd : sl.o.v.data = sl'.o.v.data)
    (hok : (step c s ⟨.clone, i⟩).1 = .ok) (hok' : (step c' s' ⟨.clone, i'⟩).1 = .ok) :
    ∃ nsl nsl' : Slot, (step c s ⟨.clone, i⟩).2.slots = s.slots ++ [nsl] ∧
      (step c' s' ⟨.clone, i'⟩).2.slots = s'.slots ++ [nsl'] ∧ nsl.o.v.data = nsl'.o.v.data := by
  obtain ⟨nsl, h1, _, _, _, h5, _⟩ := clone_eq_vec_clone c s h i sl hi hg hok
  obtain ⟨nsl', h1', _, _, _, h5', _⟩ := clone_eq_vec_clone c' s' h' i' sl' hi' hg' hok'
  exact ⟨nsl, nsl', h1, h1', by rw [h5, h5', hd]⟩

/-! ### 3. shrink, then grow: the spare capacity does not leak back -/

/-- **`resize(m, b₁)` then `resize(n, b₂)` with `m ≤ len`, `m ≤ n`** in every resizable type state: the slot holds the
first `m` old bytes followed by `n - m` bytes `b₂` — NOT the old bytes `m … len` that the shrink left in the spare
capacity (plain / `Unlocked`: `Vec::resize` overwrites `[len, n)`; `Locked`: every resize is a fresh region). -/
theorem shrink_then_grow_fill (c : Cfg) (hP : 0 < c.P) (s : State) (h : Inv c s) (i : Nat) (sl : Slot)
    (hi : s.slots[i]? = some sl) (hg : sl.gone = false) (m n : Nat) (b₁ b₂ : UInt8)
    (hm : m ≤ sl.o.v.len) (hmn : m ≤ n)
    (hok₁ : (step c s ⟨.resize m b₁, i⟩).1 = .ok)
    (hok₂ : (step c (step c s ⟨.resize m b₁, i⟩).2 ⟨.resize n b₂, i⟩).1 = .ok) :
    ∃ nsl : Slot, (step c (step c s ⟨.resize m b₁, i⟩).2 ⟨.resize n b₂, i⟩).2.slots = s.slots.set i nsl ∧
      nsl.gone = false ∧ nsl.o.st = sl.o.st ∧ nsl.o.v.len = n ∧
      nsl.o.v.data = sl.o.v.data.take m ++ List.replicate (n - m) b₂ := by
  obtain ⟨sl₁, e1, g1, st1, l1, d1⟩ := C14.resize_keeps_prefix_fill c s h i sl hi hg m b₁ hok₁
  have hlt : i < s.slots.length := by
    rcases Nat.lt_or_ge i s.slots.length with hlt | hge
    · exact hlt
    · rw [List.getElem?_eq_none hge] at hi; cases hi
  have hinv₁ : Inv c (step c s ⟨.resize m b₁, i⟩).2 :=
    C14.inv_step c hP s ⟨.resize m b₁, i⟩ h (fun hz => by cases hz.1)
  have hi₁ : (step c s ⟨.resize m b₁, i⟩).2.slots[i]? = some sl₁ := by
    rw [e1, List.getElem?_set_self hlt]
  obtain ⟨sl₂, e2, g2, st2, l2, d2⟩ :=
    C14.resize_keeps_prefix_fill c _ hinv₁ i sl₁ hi₁ g1 n b₂ hok₂
  refine ⟨sl₂, ?_, g2, st2.trans st1, l2, ?_⟩
  · rw [e2, e1, List.set_set]
  · rw [d2, d1, l1, Nat.sub_eq_zero_of_le hm, List.replicate_zero, List.append_nil, List.take_take,
      Nat.min_eq_right hmn]

/-- fill byte 0: `data.take m ++ zeros (n - m)` -/
theorem shrink_then_grow_zero_pads (c : Cfg) (hP : 0 < c.P) (s : State) (h : Inv c s) (i : Nat) (sl : Slot)
    (hi : s.slots[i]? = some sl) (hg : sl.gone = false) (m n : Nat) (hm : m ≤ sl.o.v.len) (hmn : m ≤ n)
    (hok₁ : (step c s ⟨.resize m, i⟩).1 = .ok)
    (hok₂ : (step c (step c s ⟨.resize m, i⟩).2 ⟨.resize n, i⟩).1 = .ok) :
    ∃ nsl : Slot, (step c (step c s ⟨.resize m, i⟩).2 ⟨.resize n, i⟩).2.slots = s.slots.set i nsl ∧
      nsl.gone = false ∧ nsl.o.st = sl.o.st ∧ nsl.o.v.len = n ∧
      nsl.o.v.data = sl.o.v.data.take m ++ zeros (n - m) :=
  shrink_then_grow_fill c hP s h i sl hi hg m n 0 0 hm hmn hok₁ hok₂

/-! ### 4. the fixed-length constructors, by container kind -/

/-- the containers whose length is part of the type -/
inductive FixedKind where
  /-- `StackByteArray<N>` (`TryFrom<&[u8]>`, types.rs) -/
  | stack
  /-- `[u8; N]` (std's `TryFrom<&[u8]>`) -/
  | array
  /-- `HeapByteArray<N>` (`TryFrom<&[u8]>`, protected.rs: `Self::default()` then `copy_from_slice`) -/
  | heap
  /-- `Locked<HeapByteArray<N>>` (`HeapByteArray::<N>::from_slice_into_locked`) -/
  | locked
  /-- `LockedRO<HeapByteArray<N>>` (`HeapByteArray::<N>::from_slice_into_readonly_locked`) -/
  | lockedRO
  deriving DecidableEq, Repr

def FixedKind.isLocked : FixedKind → Bool
  | .locked | .lockedRO => true
  | _ => false

/-- `from_slice_into_locked(src)` / `from_slice_into_readonly_locked(src)` for ARBITRARY bytes `src`:
`Model.Protected.doFromSlice` with `src` in the place of its `List.replicate n 0x5a` (`doFromSlice_eq_generic`). -/
def fromSliceLocked (c : Cfg) (s : State) (src : Bytes) (ro : Bool) : Res × State :=
  if c.isArr then
    if src.length ≠ c.n then (.err, s)
    else
      let r := newBytes c s.m
      doNewLocked c s r.1 r.2 (some src) ro false
  else
    let r := vecResize c s.m PVec.empty src.length
    doNewLocked c s r.1 r.2 (some src) ro false

/-- the model's `doFromSlice` (tokens `fsl:n` / `fsro:n`) is the instance `src = [0x5a; n]` -/
theorem doFromSlice_eq_generic (c : Cfg) (s : State) (n : Nat) (ro : Bool) :
    doFromSlice c s n ro = fromSliceLocked c s (List.replicate n 0x5a) ro := by
  unfold doFromSlice fromSliceLocked
  rw [List.length_replicate]

/-- `HeapByteArray::<N>::try_from(src)` on the page-aligned vector: length check, `Self::default()`
(`new_byte_array`: a vector resized to `N`), `copy_from_slice(src)`; the result is the bytes of the new container -/
def heapTryFrom (c : Cfg) (m : Mach) (src : Bytes) : Outcome Bytes :=
  if src.length ≠ c.n then .err else .ok (writeV (vecResize c m PVec.empty c.n).2 src).data

/-- what the harness-level answer of a locked constructor means as an `Outcome`: the bytes of the region it pushed -/
def pushedData (r : Res × State) : Outcome Bytes :=
  match r.1 with
  | .ok =>
    match r.2.slots.getLast? with
    | some sl => .ok sl.o.v.data
    | none => .panic
  | .err => .err
  | _ => .panic

/-- **the fixed-length constructor of every container kind**, as ONE function of the kind: the bytes of the
container built from the slice `src` (`N = c.n`; `s` is the harness state the locked forms allocate in). -/
def fixedCtor (k : FixedKind) (c : Cfg) (s : State) (src : Bytes) : Outcome Bytes :=
  match k with
  | .stack => Model.EncodingVec.tryField .typed c.n src
  | .array => Model.EncodingVec.tryField .array c.n src
  | .heap => heapTryFrom c s.m src
  | .locked => pushedData (fromSliceLocked c s src false)
  | .lockedRO => pushedData (fromSliceLocked c s src true)

/-- the lock request of the locked constructors is granted (always `True` for the other kinds) -/
def lockGranted (k : FixedKind) (c : Cfg) (s : State) : Prop :=
  k.isLocked = true → (lockV c (newBytes c s.m).1 (newBytes c s.m).2 recNew).2 = true

/-- a fresh `N`-byte vector overwritten with `N` bytes holds exactly those bytes -/
theorem write_fresh_data (c : Cfg) (m : Mach) (n : Nat) (src : Bytes) (h : src.length = n) :
    (writeV (vecResize c m PVec.empty n).2 src).data = src := by
  have hV := C14.vec_resize_prefix c m PVec.empty n (Nat.le_refl _) rfl
  have hdl : (vecResize c m PVec.empty n).2.data.length = n := by
    rw [hV.2]; simp [zeros, PVec.empty, PVec.data]
  have hle : (vecResize c m PVec.empty n).2.len ≤ (vecResize c m PVec.empty n).2.buf.length := by
    have : (vecResize c m PVec.empty n).2.data.length ≤ (vecResize c m PVec.empty n).2.buf.length := by
      unfold PVec.data; rw [List.length_take]; exact Nat.min_le_right _ _
    rw [hV.1]; omega
  rw [writeV_data _ _ (by rw [hV.1, h]) hle, List.drop_of_length_le (by omega),
    List.append_nil]

theorem pushedData_doNewLocked (c : Cfg) (s : State) (m : Mach) (v : PVec) (src : Bytes) (ro : Bool) :
    pushedData (doNewLocked c s m v (some src) ro false) =
      if (lockV c m v recNew).2 = true then .ok (writeV v src).data else .err := by
  unfold doNewLocked
  by_cases hl : (lockV c m v recNew).2 = true
  · simp only [hl, if_true, pushedData, push, List.getLast?_concat]
  · simp only [hl, pushedData]; rfl

/-- closed form of the locked constructors of a fixed-length array -/
theorem pushedData_fromSliceLocked (c : Cfg) (hc : c.isArr = true) (s : State) (src : Bytes) (ro : Bool) :
    pushedData (fromSliceLocked c s src ro) =
      if src.length ≠ c.n then .err
      else if (lockV c (newBytes c s.m).1 (newBytes c s.m).2 recNew).2 = true then .ok src else .err := by
  unfold fromSliceLocked
  rw [if_pos hc]
  by_cases hn : src.length = c.n
  · have hnn : ¬ (src.length ≠ c.n) := fun h => h hn
    rw [if_neg hnn, if_neg hnn]
    simp only []
    rw [pushedData_doNewLocked]
    have hnb : (newBytes c s.m).2 = (vecResize c s.m PVec.empty c.n).2 := by unfold newBytes; rw [if_pos hc]
    rw [hnb, write_fresh_data c s.m c.n src hn]
  · rw [if_pos hn, if_pos hn]; rfl

/-- **closed form of `fixedCtor`, uniform in the kind**: `err` unless the slice has exactly `N` bytes; then the
container holds exactly the slice (for the locked kinds: provided the lock request is granted, else `err`). -/
theorem fixedCtor_eq (k : FixedKind) (c : Cfg) (hc : c.isArr = true) (s : State) (src : Bytes) :
    fixedCtor k c s src =
      if src.length ≠ c.n then .err
      else if k.isLocked = true ∧ (lockV c (newBytes c s.m).1 (newBytes c s.m).2 recNew).2 ≠ true then .err
      else .ok src := by
  cases k
  · simp [fixedCtor, Model.EncodingVec.tryField, Model.Encoding.tryFromSlice, FixedKind.isLocked]
  · simp [fixedCtor, Model.EncodingVec.tryField, Model.Encoding.tryFromSlice, FixedKind.isLocked]
  · by_cases hn : src.length = c.n
    · simp [fixedCtor, heapTryFrom, FixedKind.isLocked, hn, write_fresh_data c s.m c.n src hn]
    · simp [fixedCtor, heapTryFrom, hn]
  · simp only [fixedCtor, pushedData_fromSliceLocked c hc, FixedKind.isLocked, true_and]
    by_cases hn : src.length = c.n <;> by_cases hl : (lockV c (newBytes c s.m).1 (newBytes c s.m).2 recNew).2 = true <;>
      simp [hn, hl]
  · simp only [fixedCtor, pushedData_fromSliceLocked c hc, FixedKind.isLocked, true_and]
    by_cases hn : src.length = c.n <;> by_cases hl : (lockV c (newBytes c s.m).1 (newBytes c s.m).2 recNew).2 = true <;>
      simp [hn, hl]

/-- **the fixed-length constructors are strict for EVERY container kind** (stack, `[u8; N]`, heap, locked, read-only
locked — one statement quantified over the kind):
* a slice whose length is not `N` is refused with `Err` (never truncated, never zero-padded, never a panic);
* whenever a container is built, the slice had exactly `N` bytes and the container holds exactly the slice;
* a slice of exactly `N` bytes is accepted — by the locked kinds provided the lock request is granted; a refused
  lock is the only other `Err`;
* no kind panics. -/
theorem tryFromSlice_strict_all_containers (k : FixedKind) (c : Cfg) (hc : c.isArr = true) (s : State)
    (src : Bytes) :
    (src.length ≠ c.n → fixedCtor k c s src = .err) ∧
    (∀ d, fixedCtor k c s src = .ok d → src.length = c.n ∧ d = src) ∧
    (src.length = c.n → lockGranted k c s → fixedCtor k c s src = .ok src) ∧
    (src.length = c.n → fixedCtor k c s src = .err → ¬ lockGranted k c s) ∧
    fixedCtor k c s src ≠ .panic := by
  rw [fixedCtor_eq k c hc s src]
  by_cases hn : src.length = c.n
  · have hnn : ¬ (src.length ≠ c.n) := fun h => h hn
    by_cases hl : k.isLocked = true ∧ (lockV c (newBytes c s.m).1 (newBytes c s.m).2 recNew).2 ≠ true
    · rw [if_neg hnn, if_pos hl]
      refine ⟨fun h => absurd hn h, ?_, fun _ hg => absurd (hg hl.1) hl.2, fun _ _ hg => hl.2 (hg hl.1), ?_⟩
      · intro d h; cases h
      · intro h; cases h
    · rw [if_neg hnn, if_neg hl]
      refine ⟨fun h => absurd hn h, ?_, fun _ _ => rfl, ?_, ?_⟩
      · intro d h; injection h with h; exact ⟨hn, h.symm⟩
      · intro _ h; cases h
      · intro h; cases h
  · rw [if_pos hn]
    refine ⟨fun _ => rfl, ?_, fun h => absurd h hn, fun h => absurd h hn, ?_⟩
    · intro d h; cases h
    · intro h; cases h

/-- all kinds agree with each other: same verdict and same bytes, whenever the lock requests are granted -/
theorem fixedCtor_kind_independent (k k' : FixedKind) (c : Cfg) (hc : c.isArr = true) (s s' : State)
    (src : Bytes) (hg : lockGranted k c s) (hg' : lockGranted k' c s') :
    fixedCtor k c s src = fixedCtor k' c s' src := by
  rw [fixedCtor_eq k c hc, fixedCtor_eq k' c hc]
  by_cases hn : src.length = c.n
  · have hnn : ¬ (src.length ≠ c.n) := fun h => h hn
    rw [if_neg hnn, if_neg hnn, if_neg (fun h => h.2 (hg h.1)), if_neg (fun h => h.2 (hg' h.1))]
  · rw [if_pos hn, if_pos hn]

/-- the heap constructor through the page-aligned vector = the byte-list model `tryFromSlice` used by the encoding
models (`Model.EncodingVec.tryField .typed`) -/
theorem heapTryFrom_eq_tryFromSlice (c : Cfg) (m : Mach) (src : Bytes) :
    heapTryFrom c m src = Model.Encoding.tryFromSlice c.n src := by
  unfold heapTryFrom Model.Encoding.tryFromSlice
  by_cases hn : src.length = c.n
  · have hnn : ¬ (src.length ≠ c.n) := fun h => h hn
    rw [if_neg hnn, if_neg hnn, write_fresh_data c m c.n src hn]
  · rw [if_pos hn, if_pos hn]

/-! ### 5. the exception: `Vec<u8>` / `&[u8]` / `[u8]` as `ByteArray<N>` -/

open Model.ArrayView in
/-- **THE place where containers legitimately differ.**  For the containers whose length is NOT in their type,
`ByteArray<N>::as_array` is `assert!(len ≥ N)` + a view of the first `N` bytes: it PANICS on a short container (never
`Err`), is the identity on a container of exactly `N` bytes (where it agrees with every fixed-length container), and
on a longer one silently yields the `N`-byte PREFIX, which is not the container's contents. -/
theorem asArray_prefix_view (n : Nat) (x : Bytes) :
    (x.length < n → asArray n x = .panic) ∧
    (n ≤ x.length → asArray n x = .ok (x.take n)) ∧
    (x.length = n → asArray n x = .ok x) ∧
    (n < x.length → ∃ a, asArray n x = .ok a ∧ a ≠ x ∧ a.length = n) ∧
    asArray n x ≠ .err :=
  ⟨ObjectViewExtra.asArray_of_lt n x, ObjectViewExtra.asArray_of_le n x, ObjectViewExtra.asArray_exact n x,
   fun h => ⟨x.take n, ObjectViewExtra.asArray_of_le n x (by omega),
     fun e => by have := congrArg List.length e; rw [List.length_take] at this; omega,
     by rw [List.length_take]; omega⟩,
   ObjectViewExtra.asArray_ne_err n x⟩

open Model.ArrayView in
/-- the exception against the rule, side by side: on a slice of the WRONG length every fixed-length constructor
answers `Err`, while the `Vec<u8>` view panics (short) or truncates (long); on a slice of the right length they all
agree -/
theorem asArray_vs_fixedCtor (k : FixedKind) (c : Cfg) (hc : c.isArr = true) (s : State) (x : Bytes) :
    (x.length < c.n → asArray c.n x = .panic ∧ fixedCtor k c s x = .err) ∧
    (c.n < x.length → asArray c.n x = .ok (x.take c.n) ∧ fixedCtor k c s x = .err) ∧
    (x.length = c.n → lockGranted k c s → asArray c.n x = fixedCtor k c s x) := by
  have hS := tryFromSlice_strict_all_containers k c hc s x
  refine ⟨fun h => ⟨ObjectViewExtra.asArray_of_lt _ x h, hS.1 (by omega)⟩,
    fun h => ⟨ObjectViewExtra.asArray_of_le _ x (by omega), hS.1 (by omega)⟩,
    fun h hg => by rw [ObjectViewExtra.asArray_exact _ x h, hS.2.2.1 h hg]⟩

end DryocVerif.Proofs.ContainerIndependence
