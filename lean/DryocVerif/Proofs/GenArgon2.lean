import DryocVerif.Gen.Argon2
import DryocVerif.Model.Argon2
import DryocVerif.Proofs.Argon2
/-
Equivalence of the machine-generated kernels of `src/argon2.rs` (`DryocVerif/Gen/Argon2.lean`) with the
hand-written model (`DryocVerif/Model/Argon2.lean`).  Core Lean only.
-/
namespace DryocVerif.Proofs.GenArgon2
open DryocVerif DryocVerif.Model.Argon2 DryocVerif.Proofs.Argon2

/-! ### `fblamka`, `rotr64` -/

theorem fblamka_eq_model (x y : UInt64) :
    Gen.Argon2.fblamka x.toNat y.toNat = (Model.Argon2.fblamka x y).toNat := by
  unfold Gen.Argon2.fblamka Model.Argon2.fblamka
  simp only [UInt64.toNat_add, UInt64.toNat_mul, UInt64.toNat_and]
  have h2 : (2 : UInt64).toNat = 2 := rfl
  have hm : (0xFFFFFFFF : UInt64).toNat = 4294967295 := rfl
  rw [h2, hm, Nat.mul_mod_mod]
  rfl

/-- sanity test -/
example : Gen.Argon2.fblamka 0xFFFFFFFFFFFFFFFF 0x123456789ABCDEF0
    = (Model.Argon2.fblamka 0xFFFFFFFFFFFFFFFF 0x123456789ABCDEF0).toNat := by decide


/-- generated `utils::rotr64` = model `rotr64` for every rotation `0 < b < 64` (Argon2 uses 32, 24, 16, 63) -/
theorem rotr64_eq_model (x b : UInt64) (h0 : 0 < b.toNat) (h1 : b.toNat < 64) :
    Gen.Utils.rotr64 x.toNat b.toNat = (Model.Argon2.rotr64 x b).toNat := by
  unfold Gen.Utils.rotr64 Model.Argon2.rotr64
  have hle : b ≤ 64 := by rw [UInt64.le_iff_toNat_le]; exact Nat.le_of_lt h1
  have h64 : (64 : UInt64).toNat = 64 := rfl
  have hm : (64 - b.toNat) % 64 = 64 - b.toNat := Nat.mod_eq_of_lt (by omega)
  rw [UInt64.toNat_or, UInt64.toNat_shiftRight, UInt64.toNat_shiftLeft,
    UInt64.toNat_sub_of_le _ _ hle, h64, Nat.mod_eq_of_lt h1, hm]
  rfl

theorem rotr_xor_32 (x y : UInt64) :
    Gen.Utils.rotr64 (x.toNat ^^^ y.toNat) 32 = (Model.Argon2.rotr64 (x ^^^ y) 32).toNat := by
  rw [← UInt64.toNat_xor]; exact rotr64_eq_model _ 32 (by decide) (by decide)
theorem rotr_xor_24 (x y : UInt64) :
    Gen.Utils.rotr64 (x.toNat ^^^ y.toNat) 24 = (Model.Argon2.rotr64 (x ^^^ y) 24).toNat := by
  rw [← UInt64.toNat_xor]; exact rotr64_eq_model _ 24 (by decide) (by decide)
theorem rotr_xor_16 (x y : UInt64) :
    Gen.Utils.rotr64 (x.toNat ^^^ y.toNat) 16 = (Model.Argon2.rotr64 (x ^^^ y) 16).toNat := by
  rw [← UInt64.toNat_xor]; exact rotr64_eq_model _ 16 (by decide) (by decide)
theorem rotr_xor_63 (x y : UInt64) :
    Gen.Utils.rotr64 (x.toNat ^^^ y.toNat) 63 = (Model.Argon2.rotr64 (x ^^^ y) 63).toNat := by
  rw [← UInt64.toNat_xor]; exact rotr64_eq_model _ 63 (by decide) (by decide)

/-! ### the closure `g` -/

/-- the closure `g` of `blake2_round_nomsg` on four machine words (model `fblamka` / `rotr64`) -/
def gQ (a b c d : UInt64) : UInt64 × UInt64 × UInt64 × UInt64 :=
  let a := Model.Argon2.fblamka a b
  let d := Model.Argon2.rotr64 (d ^^^ a) 32
  let c := Model.Argon2.fblamka c d
  let b := Model.Argon2.rotr64 (b ^^^ c) 24
  let a := Model.Argon2.fblamka a b
  let d := Model.Argon2.rotr64 (d ^^^ a) 16
  let c := Model.Argon2.fblamka c d
  let b := Model.Argon2.rotr64 (b ^^^ c) 63
  (a, b, c, d)

theorem g_size (v : Block) (a b c d : Nat) : (g v a b c d).size = v.size := by
  simp only [g, size_setBang]

theorem g_get_other (v : Block) (a b c d j : Nat) (ha : j ≠ a) (hb : j ≠ b) (hc : j ≠ c) (hd : j ≠ d) :
    (g v a b c d)[j]! = v[j]! := by
  have ha' := ha.symm; have hb' := hb.symm; have hc' := hc.symm; have hd' := hd.symm
  simp only [g, getBang_setBang_ne, ne_eq, ha', hb', hc', hd', not_false_eq_true]

theorem g_spec (v : Block) (a b c d : Nat)
    (hab : a ≠ b) (hac : a ≠ c) (had : a ≠ d) (hbc : b ≠ c) (hbd : b ≠ d) (hcd : c ≠ d)
    (ha : a < v.size) (hb : b < v.size) (hc : c < v.size) (hd : d < v.size) :
    (g v a b c d)[a]! = (gQ v[a]! v[b]! v[c]! v[d]!).1
    ∧ (g v a b c d)[b]! = (gQ v[a]! v[b]! v[c]! v[d]!).2.1
    ∧ (g v a b c d)[c]! = (gQ v[a]! v[b]! v[c]! v[d]!).2.2.1
    ∧ (g v a b c d)[d]! = (gQ v[a]! v[b]! v[c]! v[d]!).2.2.2 := by
  have hba := hab.symm; have hca := hac.symm; have hda := had.symm
  have hcb := hbc.symm; have hdb := hbd.symm; have hdc := hcd.symm
  refine ⟨?_, ?_, ?_, ?_⟩ <;>
  simp only [g, gQ, size_setBang, ha, hb, hc, hd, getBang_setBang_self, getBang_setBang_ne,
      ne_eq, hab, hac, had, hbc, hbd, hcd, hba, hca, hda, hcb, hdb, hdc, not_false_eq_true]

/-- side conditions of `g_spec` for four indices below `n` -/
def Quad (n a b c d : Nat) : Prop :=
  a < n ∧ b < n ∧ c < n ∧ d < n ∧ a ≠ b ∧ a ≠ c ∧ a ≠ d ∧ b ≠ c ∧ b ≠ d ∧ c ≠ d

instance (n a b c d : Nat) : Decidable (Quad n a b c d) := by unfold Quad; infer_instance

theorem g_get_a {v : Block} {n a b c d : Nat} (hn : v.size = n) (h : Quad n a b c d) :
    (g v a b c d)[a]! = (gQ v[a]! v[b]! v[c]! v[d]!).1 := by
  obtain ⟨ha, hb, hc, hd, hab, hac, had, hbc, hbd, hcd⟩ := h
  subst hn
  exact (g_spec v a b c d hab hac had hbc hbd hcd ha hb hc hd).1
theorem g_get_b {v : Block} {n a b c d : Nat} (hn : v.size = n) (h : Quad n a b c d) :
    (g v a b c d)[b]! = (gQ v[a]! v[b]! v[c]! v[d]!).2.1 := by
  obtain ⟨ha, hb, hc, hd, hab, hac, had, hbc, hbd, hcd⟩ := h
  subst hn
  exact (g_spec v a b c d hab hac had hbc hbd hcd ha hb hc hd).2.1
theorem g_get_c {v : Block} {n a b c d : Nat} (hn : v.size = n) (h : Quad n a b c d) :
    (g v a b c d)[c]! = (gQ v[a]! v[b]! v[c]! v[d]!).2.2.1 := by
  obtain ⟨ha, hb, hc, hd, hab, hac, had, hbc, hbd, hcd⟩ := h
  subst hn
  exact (g_spec v a b c d hab hac had hbc hbd hcd ha hb hc hd).2.2.1
theorem g_get_d {v : Block} {n a b c d : Nat} (hn : v.size = n) (h : Quad n a b c d) :
    (g v a b c d)[d]! = (gQ v[a]! v[b]! v[c]! v[d]!).2.2.2 := by
  obtain ⟨ha, hb, hc, hd, hab, hac, had, hbc, hbd, hcd⟩ := h
  subst hn
  exact (g_spec v a b c d hab hac had hbc hbd hcd ha hb hc hd).2.2.2

abbrev W16 := UInt64 × UInt64 × UInt64 × UInt64 × UInt64 × UInt64 × UInt64 × UInt64 × UInt64 × UInt64 × UInt64 × UInt64 × UInt64 × UInt64 × UInt64 × UInt64

/-- column step then diagonal step on sixteen machine words -/
def roundQ (x0 x1 x2 x3 x4 x5 x6 x7 x8 x9 x10 x11 x12 x13 x14 x15 : UInt64) : W16 :=
  let c0 := gQ x0 x4 x8 x12
  let c1 := gQ x1 x5 x9 x13
  let c2 := gQ x2 x6 x10 x14
  let c3 := gQ x3 x7 x11 x15
  let d0 := gQ c0.1 c1.2.1 c2.2.2.1 c3.2.2.2
  let d1 := gQ c1.1 c2.2.1 c3.2.2.1 c0.2.2.2
  let d2 := gQ c2.1 c3.2.1 c0.2.2.1 c1.2.2.2
  let d3 := gQ c3.1 c0.2.1 c1.2.2.1 c2.2.2.2
  (d0.1, d1.1, d2.1, d3.1, d3.2.1, d0.2.1, d1.2.1, d2.2.1,
   d2.2.2.1, d3.2.2.1, d0.2.2.1, d1.2.2.1, d1.2.2.2, d2.2.2.2, d3.2.2.2, d0.2.2.2)

def reads16 (v : Block) (i0 i1 i2 i3 i4 i5 i6 i7 i8 i9 i10 i11 i12 i13 i14 i15 : Nat) : W16 :=
  (v[i0]!, v[i1]!, v[i2]!, v[i3]!, v[i4]!, v[i5]!, v[i6]!, v[i7]!,
   v[i8]!, v[i9]!, v[i10]!, v[i11]!, v[i12]!, v[i13]!, v[i14]!, v[i15]!)

/-- the model's `blake2RoundNomsg` at the identity tuple, on a 16-word block, read back word by word -/
theorem round_reads_16 (w : Block) (hw : w.size = 16) :
    reads16 (blake2RoundNomsg w 0 1 2 3 4 5 6 7 8 9 10 11 12 13 14 15) 0 1 2 3 4 5 6 7 8 9 10 11 12 13 14 15
      = roundQ w[0]! w[1]! w[2]! w[3]! w[4]! w[5]! w[6]! w[7]! w[8]! w[9]! w[10]! w[11]! w[12]! w[13]! w[14]! w[15]! := by
  have sz : ∀ (v : Block) a b c d, v.size = 16 → (g v a b c d).size = 16 := fun v a b c d h => (g_size v a b c d).trans h
  have h1 := sz _ 0 4 8 12 hw
  have h2 := sz _ 1 5 9 13 h1
  have h3 := sz _ 2 6 10 14 h2
  have h4 := sz _ 3 7 11 15 h3
  have h5 := sz _ 0 5 10 15 h4
  have h6 := sz _ 1 6 11 12 h5
  have h7 := sz _ 2 7 8 13 h6
  unfold reads16 roundQ blake2RoundNomsg
  have q1 : Quad 16 0 4 8 12 := by decide
  have q2 : Quad 16 1 5 9 13 := by decide
  have q3 : Quad 16 2 6 10 14 := by decide
  have q4 : Quad 16 3 7 11 15 := by decide
  have q5 : Quad 16 0 5 10 15 := by decide
  have q6 : Quad 16 1 6 11 12 := by decide
  have q7 : Quad 16 2 7 8 13 := by decide
  have q8 : Quad 16 3 4 9 14 := by decide
  simp (disch := decide) only [g_get_other,
    g_get_a hw q1, g_get_b hw q1, g_get_c hw q1, g_get_d hw q1,
    g_get_a h1 q2, g_get_b h1 q2, g_get_c h1 q2, g_get_d h1 q2,
    g_get_a h2 q3, g_get_b h2 q3, g_get_c h2 q3, g_get_d h2 q3,
    g_get_a h3 q4, g_get_b h3 q4, g_get_c h3 q4, g_get_d h3 q4,
    g_get_a h4 q5, g_get_b h4 q5, g_get_c h4 q5, g_get_d h4 q5,
    g_get_a h5 q6, g_get_b h5 q6, g_get_c h5 q6, g_get_d h5 q6,
    g_get_a h6 q7, g_get_b h6 q7, g_get_c h6 q7, g_get_d h6 q7,
    g_get_a h7 q8, g_get_b h7 q8, g_get_c h7 q8, g_get_d h7 q8]

/-- `g` on naturals, with the GENERATED `fblamka` / `rotr64` -/
def gN (a b c d : Nat) : Nat × Nat × Nat × Nat :=
  let a := Gen.Argon2.fblamka a b
  let d := Gen.Utils.rotr64 (d ^^^ a) 32
  let c := Gen.Argon2.fblamka c d
  let b := Gen.Utils.rotr64 (b ^^^ c) 24
  let a := Gen.Argon2.fblamka a b
  let d := Gen.Utils.rotr64 (d ^^^ a) 16
  let c := Gen.Argon2.fblamka c d
  let b := Gen.Utils.rotr64 (b ^^^ c) 63
  (a, b, c, d)

abbrev Nat16 := Nat × Nat × Nat × Nat × Nat × Nat × Nat × Nat × Nat × Nat × Nat × Nat × Nat × Nat × Nat × Nat

/-- the generated `round16` regrouped into eight `gN` (equal to it by `rfl`: `round16_eq_roundN`) -/
def roundN (x0 x1 x2 x3 x4 x5 x6 x7 x8 x9 x10 x11 x12 x13 x14 x15 : Nat) : Nat16 :=
  let c0 := gN x0 x4 x8 x12
  let c1 := gN x1 x5 x9 x13
  let c2 := gN x2 x6 x10 x14
  let c3 := gN x3 x7 x11 x15
  let d0 := gN c0.1 c1.2.1 c2.2.2.1 c3.2.2.2
  let d1 := gN c1.1 c2.2.1 c3.2.2.1 c0.2.2.2
  let d2 := gN c2.1 c3.2.1 c0.2.2.1 c1.2.2.2
  let d3 := gN c3.1 c0.2.1 c1.2.2.1 c2.2.2.2
  (d0.1, d1.1, d2.1, d3.1, d3.2.1, d0.2.1, d1.2.1, d2.2.1,
   d2.2.2.1, d3.2.2.1, d0.2.2.1, d1.2.2.1, d1.2.2.2, d2.2.2.2, d3.2.2.2, d0.2.2.2)

theorem round16_eq_roundN (x0 x1 x2 x3 x4 x5 x6 x7 x8 x9 x10 x11 x12 x13 x14 x15 : Nat) :
    Gen.Argon2.round16 x0 x1 x2 x3 x4 x5 x6 x7 x8 x9 x10 x11 x12 x13 x14 x15
      = roundN x0 x1 x2 x3 x4 x5 x6 x7 x8 x9 x10 x11 x12 x13 x14 x15 := rfl


def toNat4 (q : UInt64 × UInt64 × UInt64 × UInt64) : Nat × Nat × Nat × Nat :=
  (q.1.toNat, q.2.1.toNat, q.2.2.1.toNat, q.2.2.2.toNat)

theorem gN_eq_gQ (a b c d : UInt64) :
    gN a.toNat b.toNat c.toNat d.toNat = toNat4 (gQ a b c d) := by
  simp only [gN, gQ, toNat4, fblamka_eq_model, rotr_xor_32, rotr_xor_24, rotr_xor_16, rotr_xor_63]

def toNat16 (q : W16) : Nat16 :=
  (q.1.toNat, q.2.1.toNat, q.2.2.1.toNat, q.2.2.2.1.toNat, q.2.2.2.2.1.toNat, q.2.2.2.2.2.1.toNat,
   q.2.2.2.2.2.2.1.toNat, q.2.2.2.2.2.2.2.1.toNat, q.2.2.2.2.2.2.2.2.1.toNat,
   q.2.2.2.2.2.2.2.2.2.1.toNat, q.2.2.2.2.2.2.2.2.2.2.1.toNat, q.2.2.2.2.2.2.2.2.2.2.2.1.toNat,
   q.2.2.2.2.2.2.2.2.2.2.2.2.1.toNat, q.2.2.2.2.2.2.2.2.2.2.2.2.2.1.toNat,
   q.2.2.2.2.2.2.2.2.2.2.2.2.2.2.1.toNat, q.2.2.2.2.2.2.2.2.2.2.2.2.2.2.2.toNat)

theorem roundN_eq_roundQ (x0 x1 x2 x3 x4 x5 x6 x7 x8 x9 x10 x11 x12 x13 x14 x15 : UInt64) :
    roundN x0.toNat x1.toNat x2.toNat x3.toNat x4.toNat x5.toNat x6.toNat x7.toNat x8.toNat x9.toNat
        x10.toNat x11.toNat x12.toNat x13.toNat x14.toNat x15.toNat
      = toNat16 (roundQ x0 x1 x2 x3 x4 x5 x6 x7 x8 x9 x10 x11 x12 x13 x14 x15) := by
  simp only [roundN, roundQ, toNat16, gN_eq_gQ, toNat4]

/-- `round16` on the sixteen words of a block of size 16 -/
theorem round16_eq_model_16 (w : Block) (hw : w.size = 16) :
    Gen.Argon2.round16 w[0]!.toNat w[1]!.toNat w[2]!.toNat w[3]!.toNat w[4]!.toNat w[5]!.toNat
        w[6]!.toNat w[7]!.toNat w[8]!.toNat w[9]!.toNat w[10]!.toNat w[11]!.toNat w[12]!.toNat
        w[13]!.toNat w[14]!.toNat w[15]!.toNat
      = toNat16 (reads16 (blake2RoundNomsg w 0 1 2 3 4 5 6 7 8 9 10 11 12 13 14 15)
          0 1 2 3 4 5 6 7 8 9 10 11 12 13 14 15) := by
  rw [round16_eq_roundN, roundN_eq_roundQ, round_reads_16 w hw]

/-! ### arbitrary index tuples: gather / scatter -/

/-- `v` is `orig` with the words at `idx 0 … idx 15` replaced by those of the 16-word block `w` -/
structure Gathers (idx : Nat → Nat) (orig v w : Block) : Prop where
  size_v : v.size = orig.size
  size_w : w.size = 16
  inside : ∀ k, k < 16 → v[idx k]! = w[k]!
  outside : ∀ j, (∀ k, k < 16 → j ≠ idx k) → v[j]! = orig[j]!

theorem g_gather {idx : Nat → Nat} {orig v w : Block}
    (hinj : ∀ p q, p < 16 → q < 16 → p ≠ q → idx p ≠ idx q)
    (hlt : ∀ k, k < 16 → idx k < orig.size) (a b c d : Nat) (hq : Quad 16 a b c d)
    (G : Gathers idx orig v w) :
    Gathers idx orig (g v (idx a) (idx b) (idx c) (idx d)) (g w a b c d) := by
  have hq' : Quad v.size (idx a) (idx b) (idx c) (idx d) := by
    obtain ⟨ha, hb, hc, hd, hab, hac, had, hbc, hbd, hcd⟩ := hq
    rw [G.size_v]
    exact ⟨hlt a ha, hlt b hb, hlt c hc, hlt d hd, hinj a b ha hb hab, hinj a c ha hc hac,
      hinj a d ha hd had, hinj b c hb hc hbc, hinj b d hb hd hbd, hinj c d hc hd hcd⟩
  have hq0 := hq
  obtain ⟨ha, hb, hc, hd, -⟩ := hq0
  have ea := G.inside a ha; have eb := G.inside b hb; have ec := G.inside c hc; have ed := G.inside d hd
  refine ⟨(g_size ..).trans G.size_v, (g_size ..).trans G.size_w, ?_, ?_⟩
  · intro k hk
    by_cases hka : k = a
    · subst hka; rw [g_get_a rfl hq', g_get_a G.size_w hq, ea, eb, ec, ed]
    by_cases hkb : k = b
    · subst hkb; rw [g_get_b rfl hq', g_get_b G.size_w hq, ea, eb, ec, ed]
    by_cases hkc : k = c
    · subst hkc; rw [g_get_c rfl hq', g_get_c G.size_w hq, ea, eb, ec, ed]
    by_cases hkd : k = d
    · subst hkd; rw [g_get_d rfl hq', g_get_d G.size_w hq, ea, eb, ec, ed]
    rw [g_get_other _ _ _ _ _ _ (hinj k a hk ha hka) (hinj k b hk hb hkb) (hinj k c hk hc hkc)
      (hinj k d hk hd hkd), g_get_other _ _ _ _ _ _ hka hkb hkc hkd]
    exact G.inside k hk
  · intro j hj
    rw [g_get_other _ _ _ _ _ _ (hj a ha) (hj b hb) (hj c hc) (hj d hd)]
    exact G.outside j hj

theorem round_gather {idx : Nat → Nat} {orig v w : Block}
    (hinj : ∀ p q, p < 16 → q < 16 → p ≠ q → idx p ≠ idx q)
    (hlt : ∀ k, k < 16 → idx k < orig.size) (G : Gathers idx orig v w) :
    Gathers idx orig
      (blake2RoundNomsg v (idx 0) (idx 1) (idx 2) (idx 3) (idx 4) (idx 5) (idx 6) (idx 7) (idx 8)
        (idx 9) (idx 10) (idx 11) (idx 12) (idx 13) (idx 14) (idx 15))
      (blake2RoundNomsg w 0 1 2 3 4 5 6 7 8 9 10 11 12 13 14 15) := by
  unfold blake2RoundNomsg
  have G := g_gather hinj hlt 0 4 8 12 (by decide) G
  have G := g_gather hinj hlt 1 5 9 13 (by decide) G
  have G := g_gather hinj hlt 2 6 10 14 (by decide) G
  have G := g_gather hinj hlt 3 7 11 15 (by decide) G
  have G := g_gather hinj hlt 0 5 10 15 (by decide) G
  have G := g_gather hinj hlt 1 6 11 12 (by decide) G
  have G := g_gather hinj hlt 2 7 8 13 (by decide) G
  exact g_gather hinj hlt 3 4 9 14 (by decide) G

/-- the sixteen words of `b` at `idx 0 … idx 15` -/
def gather (idx : Nat → Nat) (b : Block) : Block :=
  #[b[idx 0]!, b[idx 1]!, b[idx 2]!, b[idx 3]!, b[idx 4]!, b[idx 5]!, b[idx 6]!, b[idx 7]!,
    b[idx 8]!, b[idx 9]!, b[idx 10]!, b[idx 11]!, b[idx 12]!, b[idx 13]!, b[idx 14]!, b[idx 15]!]

theorem gathers_init (idx : Nat → Nat) (b : Block) : Gathers idx b b (gather idx b) := by
  refine ⟨rfl, rfl, ?_, fun _ _ => rfl⟩
  intro k hk
  match k, hk with
  | 0, _ | 1, _ | 2, _ | 3, _ | 4, _ | 5, _ | 6, _ | 7, _
  | 8, _ | 9, _ | 10, _ | 11, _ | 12, _ | 13, _ | 14, _ | 15, _ => rfl
  | n + 16, h => omega


theorem nodup_getD_ne {l : List Nat} (h : l.Nodup) (p q : Nat) (hp : p < l.length) (hq : q < l.length)
    (hpq : p ≠ q) : l.getD p 0 ≠ l.getD q 0 := by
  simp only [List.getD_eq_getElem?_getD, List.getElem?_eq_getElem hp, List.getElem?_eq_getElem hq,
    Option.getD_some]
  intro e
  exact hpq ((List.getElem_inj h).1 e)

theorem getD_mem {l : List Nat} (p : Nat) (hp : p < l.length) : l.getD p 0 ∈ l := by
  simp only [List.getD_eq_getElem?_getD, List.getElem?_eq_getElem hp, Option.getD_some]
  exact List.getElem_mem hp

/-- `blake2_round_nomsg` with ANY sixteen pairwise distinct in-range indices: the words at those indices become
`round16` of the gathered words, every other word is unchanged. -/
theorem round_generic (b : Block) (i0 i1 i2 i3 i4 i5 i6 i7 i8 i9 i10 i11 i12 i13 i14 i15 : Nat)
    (hnd : [i0, i1, i2, i3, i4, i5, i6, i7, i8, i9, i10, i11, i12, i13, i14, i15].Nodup)
    (hlt : ∀ i ∈ [i0, i1, i2, i3, i4, i5, i6, i7, i8, i9, i10, i11, i12, i13, i14, i15], i < b.size) :
    let b' := blake2RoundNomsg b i0 i1 i2 i3 i4 i5 i6 i7 i8 i9 i10 i11 i12 i13 i14 i15
    b'.size = b.size
    ∧ toNat16 (reads16 b' i0 i1 i2 i3 i4 i5 i6 i7 i8 i9 i10 i11 i12 i13 i14 i15)
        = Gen.Argon2.round16 b[i0]!.toNat b[i1]!.toNat b[i2]!.toNat b[i3]!.toNat b[i4]!.toNat
            b[i5]!.toNat b[i6]!.toNat b[i7]!.toNat b[i8]!.toNat b[i9]!.toNat b[i10]!.toNat
            b[i11]!.toNat b[i12]!.toNat b[i13]!.toNat b[i14]!.toNat b[i15]!.toNat
    ∧ ∀ j, j ∉ [i0, i1, i2, i3, i4, i5, i6, i7, i8, i9, i10, i11, i12, i13, i14, i15] → b'[j]! = b[j]! := by
  intro b'
  let l := [i0, i1, i2, i3, i4, i5, i6, i7, i8, i9, i10, i11, i12, i13, i14, i15]
  let idx : Nat → Nat := fun k => l.getD k 0
  have hinj : ∀ p q, p < 16 → q < 16 → p ≠ q → idx p ≠ idx q :=
    fun p q hp hq hpq => nodup_getD_ne hnd p q hp hq hpq
  have hlt' : ∀ k, k < 16 → idx k < b.size := fun k hk => hlt _ (getD_mem k hk)
  have G : Gathers idx b b' _ := round_gather hinj hlt' (gathers_init idx b)
  refine ⟨G.size_v, ?_, ?_⟩
  · have e := round16_eq_model_16 (gather idx b) rfl
    rw [show reads16 b' i0 i1 i2 i3 i4 i5 i6 i7 i8 i9 i10 i11 i12 i13 i14 i15
        = reads16 (blake2RoundNomsg (gather idx b) 0 1 2 3 4 5 6 7 8 9 10 11 12 13 14 15)
            0 1 2 3 4 5 6 7 8 9 10 11 12 13 14 15 from ?_]
    · exact e.symm
    · unfold reads16
      rw [← G.inside 0 (by decide), ← G.inside 1 (by decide), ← G.inside 2 (by decide),
        ← G.inside 3 (by decide), ← G.inside 4 (by decide), ← G.inside 5 (by decide),
        ← G.inside 6 (by decide), ← G.inside 7 (by decide), ← G.inside 8 (by decide),
        ← G.inside 9 (by decide), ← G.inside 10 (by decide), ← G.inside 11 (by decide),
        ← G.inside 12 (by decide), ← G.inside 13 (by decide), ← G.inside 14 (by decide),
        ← G.inside 15 (by decide)]
      rfl
  · intro j hj
    apply G.outside j
    intro k hk e
    exact hj (e ▸ getD_mem k hk)


/-- `round16` is `blake2_round_nomsg` at the identity index tuple `0..15` -/
theorem round16_eq_model (b : Block) (hb : 16 ≤ b.size) :
    Gen.Argon2.round16 b[0]!.toNat b[1]!.toNat b[2]!.toNat b[3]!.toNat b[4]!.toNat b[5]!.toNat
        b[6]!.toNat b[7]!.toNat b[8]!.toNat b[9]!.toNat b[10]!.toNat b[11]!.toNat b[12]!.toNat
        b[13]!.toNat b[14]!.toNat b[15]!.toNat
      = toNat16 (reads16 (blake2RoundNomsg b 0 1 2 3 4 5 6 7 8 9 10 11 12 13 14 15)
          0 1 2 3 4 5 6 7 8 9 10 11 12 13 14 15) := by
  refine (round_generic b 0 1 2 3 4 5 6 7 8 9 10 11 12 13 14 15 (by decide) ?_).2.1.symm
  intro i hi
  have : i < 16 := by
    simp only [List.mem_cons, List.not_mem_nil, or_false] at hi
    omega
  omega

/-- for `decide` on 16-tuples -/
def list16 (q : Nat16) : List Nat :=
  [q.1, q.2.1, q.2.2.1, q.2.2.2.1, q.2.2.2.2.1, q.2.2.2.2.2.1, q.2.2.2.2.2.2.1, q.2.2.2.2.2.2.2.1,
   q.2.2.2.2.2.2.2.2.1, q.2.2.2.2.2.2.2.2.2.1, q.2.2.2.2.2.2.2.2.2.2.1, q.2.2.2.2.2.2.2.2.2.2.2.1,
   q.2.2.2.2.2.2.2.2.2.2.2.2.1, q.2.2.2.2.2.2.2.2.2.2.2.2.2.1, q.2.2.2.2.2.2.2.2.2.2.2.2.2.2.1,
   q.2.2.2.2.2.2.2.2.2.2.2.2.2.2.2]

def testBlock : Block := Array.ofFn (n := 20) fun i => 0x0123456789ABCDEF * (UInt64.ofNat i.val + 1) + 0xFEDCBA9876543210

/-- sanity test: identity tuple -/
example : list16 (Gen.Argon2.round16 testBlock[0]!.toNat testBlock[1]!.toNat testBlock[2]!.toNat testBlock[3]!.toNat testBlock[4]!.toNat testBlock[5]!.toNat
        testBlock[6]!.toNat testBlock[7]!.toNat testBlock[8]!.toNat testBlock[9]!.toNat testBlock[10]!.toNat testBlock[11]!.toNat testBlock[12]!.toNat
        testBlock[13]!.toNat testBlock[14]!.toNat testBlock[15]!.toNat)
      = list16 (toNat16 (reads16 (blake2RoundNomsg testBlock 0 1 2 3 4 5 6 7 8 9 10 11 12 13 14 15)
          0 1 2 3 4 5 6 7 8 9 10 11 12 13 14 15)) := by decide +kernel

/-- sanity test: a permuted tuple -/
example : list16 (Gen.Argon2.round16 testBlock[19]!.toNat testBlock[1]!.toNat testBlock[17]!.toNat testBlock[3]!.toNat testBlock[4]!.toNat testBlock[5]!.toNat
        testBlock[6]!.toNat testBlock[7]!.toNat testBlock[8]!.toNat testBlock[9]!.toNat testBlock[10]!.toNat testBlock[11]!.toNat testBlock[12]!.toNat
        testBlock[13]!.toNat testBlock[2]!.toNat testBlock[0]!.toNat)
      = list16 (toNat16 (reads16 (blake2RoundNomsg testBlock 19 1 17 3 4 5 6 7 8 9 10 11 12 13 2 0)
          19 1 17 3 4 5 6 7 8 9 10 11 12 13 2 0)) := by decide +kernel


/-! ### the index tables of `fill_block` -/

/-- `blake2_round_nomsg(block, t[0], …, t[15])` for an index tuple given as a list -/
def applyRound (blk : Block) (t : List Nat) : Block :=
  blake2RoundNomsg blk (t.getD 0 0) (t.getD 1 0) (t.getD 2 0) (t.getD 3 0) (t.getD 4 0) (t.getD 5 0)
    (t.getD 6 0) (t.getD 7 0) (t.getD 8 0) (t.getD 9 0) (t.getD 10 0) (t.getD 11 0) (t.getD 12 0)
    (t.getD 13 0) (t.getD 14 0) (t.getD 15 0)

/-- the index tuples of the two loops of the model's `fillBlock`, as written there -/
def modelRows : List (List Nat) := (List.range 8).map fun i =>
  [16 * i, 16 * i + 1, 16 * i + 2, 16 * i + 3, 16 * i + 4, 16 * i + 5, 16 * i + 6, 16 * i + 7,
   16 * i + 8, 16 * i + 9, 16 * i + 10, 16 * i + 11, 16 * i + 12, 16 * i + 13, 16 * i + 14, 16 * i + 15]
def modelCols : List (List Nat) := (List.range 8).map fun i =>
  [2 * i, 2 * i + 1, 2 * i + 16, 2 * i + 17, 2 * i + 32, 2 * i + 33, 2 * i + 48, 2 * i + 49,
   2 * i + 64, 2 * i + 65, 2 * i + 80, 2 * i + 81, 2 * i + 96, 2 * i + 97, 2 * i + 112, 2 * i + 113]

theorem fill_tables_eq : modelRows = Gen.Argon2.FILL_ROWS ∧ modelCols = Gen.Argon2.FILL_COLS := by decide

theorem applyRound_cons (blk : Block) (a0 a1 a2 a3 a4 a5 a6 a7 a8 a9 a10 a11 a12 a13 a14 a15 : Nat) :
    applyRound blk [a0, a1, a2, a3, a4, a5, a6, a7, a8, a9, a10, a11, a12, a13, a14, a15]
      = blake2RoundNomsg blk a0 a1 a2 a3 a4 a5 a6 a7 a8 a9 a10 a11 a12 a13 a14 a15 := rfl

theorem fold8 {α : Type} (f : Nat → α → α) (x : α) :
    Nat.fold 8 (fun i _ a => f i a) x = f 7 (f 6 (f 5 (f 4 (f 3 (f 2 (f 1 (f 0 x))))))) := rfl

theorem foldl8 {α β : Type} (f : α → β → α) (x : α) (t0 t1 t2 t3 t4 t5 t6 t7 : β) :
    [t0, t1, t2, t3, t4, t5, t6, t7].foldl f x = f (f (f (f (f (f (f (f x t0) t1) t2) t3) t4) t5) t6) t7 := rfl

/-- the model's `fillBlock` applies `blake2RoundNomsg` exactly along the generated index tables
`FILL_ROWS`, then `FILL_COLS` -/
theorem fill_tables_eq_model (prevBlock refBlock nextBlock : Block) (withXor : Bool) :
    fillBlock prevBlock refBlock nextBlock withXor =
      xorBlock (if withXor then xorBlock (xorBlock refBlock prevBlock) nextBlock else xorBlock refBlock prevBlock)
        (Gen.Argon2.FILL_COLS.foldl applyRound
          (Gen.Argon2.FILL_ROWS.foldl applyRound (xorBlock refBlock prevBlock))) := by
  unfold fillBlock copyBlock Gen.Argon2.FILL_ROWS Gen.Argon2.FILL_COLS
  rewrite [foldl8, foldl8]
  simp only [applyRound_cons]
  rewrite [fold8 (fun i blockR => blake2RoundNomsg blockR (16 * i) (16 * i + 1) (16 * i + 2) (16 * i + 3) (16 * i + 4)
      (16 * i + 5) (16 * i + 6) (16 * i + 7) (16 * i + 8) (16 * i + 9) (16 * i + 10)
      (16 * i + 11) (16 * i + 12) (16 * i + 13) (16 * i + 14) (16 * i + 15)),
    fold8 (fun i blockR => blake2RoundNomsg blockR (2 * i) (2 * i + 1) (2 * i + 16) (2 * i + 17) (2 * i + 32)
      (2 * i + 33) (2 * i + 48) (2 * i + 49) (2 * i + 64) (2 * i + 65) (2 * i + 80)
      (2 * i + 81) (2 * i + 96) (2 * i + 97) (2 * i + 112) (2 * i + 113))]
  simp only [Nat.reduceMul, Nat.reduceAdd]

theorem fill_tables_wf :
    ∀ t ∈ Gen.Argon2.FILL_ROWS ++ Gen.Argon2.FILL_COLS, t.length = 16 ∧ t.Nodup ∧ ∀ i ∈ t, i < 128 := by
  decide


/-- every round of `fill_block` is `round16` on the gathered words: instance of `round_generic` at the
generated tables -/
theorem applyRound_tables (blk : Block) (hb : blk.size = 128) (t : List Nat)
    (ht : t ∈ Gen.Argon2.FILL_ROWS ++ Gen.Argon2.FILL_COLS) :
    let b' := applyRound blk t
    let i := fun k => t.getD k 0
    b'.size = 128
    ∧ toNat16 (reads16 b' (i 0) (i 1) (i 2) (i 3) (i 4) (i 5) (i 6) (i 7) (i 8) (i 9) (i 10) (i 11)
        (i 12) (i 13) (i 14) (i 15))
      = Gen.Argon2.round16 blk[i 0]!.toNat blk[i 1]!.toNat blk[i 2]!.toNat blk[i 3]!.toNat
          blk[i 4]!.toNat blk[i 5]!.toNat blk[i 6]!.toNat blk[i 7]!.toNat blk[i 8]!.toNat
          blk[i 9]!.toNat blk[i 10]!.toNat blk[i 11]!.toNat blk[i 12]!.toNat blk[i 13]!.toNat
          blk[i 14]!.toNat blk[i 15]!.toNat
    ∧ ∀ j, j ∉ t → b'[j]! = blk[j]! := by
  obtain ⟨hlen, hnd, hlt⟩ := fill_tables_wf t ht
  match t, hlen with
  | [a0, a1, a2, a3, a4, a5, a6, a7, a8, a9, a10, a11, a12, a13, a14, a15], _ =>
    have h := round_generic blk a0 a1 a2 a3 a4 a5 a6 a7 a8 a9 a10 a11 a12 a13 a14 a15 hnd
      (fun i hi => hb ▸ hlt i hi)
    exact ⟨h.1.trans hb, h.2.1, h.2.2⟩


/-! ### `index_alpha` -/

theorem bind_ok_inv {α β : Type} {x : Outcome α} {f : α → Outcome β} {v : β}
    (h : (x >>= f) = .ok v) : ∃ a, x = .ok a ∧ f a = .ok v := by
  cases x with
  | ok a => exact ⟨a, rfl, h⟩
  | err => cases h
  | panic => cases h

theorem subU32_inv {a b v : Nat} (h : subU32 a b = .ok v) : v = a - b := by
  unfold subU32 at h; split at h
  · exact (Outcome.ok.inj h).symm
  · cases h
theorem addU32_inv {a b v : Nat} (h : addU32 a b = .ok v) : v = a + b := by
  unfold addU32 at h; split at h
  · exact (Outcome.ok.inj h).symm
  · cases h
theorem mulU32_inv {a b v : Nat} (h : mulU32 a b = .ok v) : v = a * b := by
  unfold mulU32 at h; split at h
  · exact (Outcome.ok.inj h).symm
  · cases h
theorem remU32_inv {a b v : Nat} (h : remU32 a b = .ok v) : v = a % b := by
  unfold remU32 at h; split at h
  · cases h
  · exact (Outcome.ok.inj h).symm

theorem sub_bind_inv {β : Type} {a b : Nat} {f : Nat → Outcome β} {v : β}
    (h : (subU32 a b >>= f) = .ok v) : f (a - b) = .ok v := by
  obtain ⟨x, e, h⟩ := bind_ok_inv h; rw [← subU32_inv e]; exact h
theorem add_bind_inv {β : Type} {a b : Nat} {f : Nat → Outcome β} {v : β}
    (h : (addU32 a b >>= f) = .ok v) : f (a + b) = .ok v := by
  obtain ⟨x, e, h⟩ := bind_ok_inv h; rw [← addU32_inv e]; exact h
theorem mul_bind_inv {β : Type} {a b : Nat} {f : Nat → Outcome β} {v : β}
    (h : (mulU32 a b >>= f) = .ok v) : f (a * b) = .ok v := by
  obtain ⟨x, e, h⟩ := bind_ok_inv h; rw [← mulU32_inv e]; exact h

/-- when the model's `reference_area_size` does not panic it is the plain-`Nat` expression
(`refAreaSizeN`, the expression the generated `index_alpha` computes) -/
theorem referenceAreaSize_inv {inst : Instance} {pos : Position} {sameLane : Bool} {r : Nat}
    (h : referenceAreaSize inst pos sameLane = .ok r) : r = refAreaSizeN inst pos sameLane := by
  unfold referenceAreaSize at h
  unfold refAreaSizeN
  split at h
  · rw [if_pos ‹_›]
    split at h
    · rw [if_pos ‹_›]; exact subU32_inv h
    · rw [if_neg ‹_›]
      split at h
      · rw [if_pos ‹_›]
        exact subU32_inv (add_bind_inv (mul_bind_inv h))
      · rw [if_neg ‹_›]
        split at h
        · rw [if_pos ‹_›]
          exact subU32_inv (mul_bind_inv h)
        · rw [if_neg ‹_›]; exact mulU32_inv h
  · rw [if_neg ‹_›]
    split at h
    · rw [if_pos ‹_›]
      exact subU32_inv (add_bind_inv (sub_bind_inv h))
    · rw [if_neg ‹_›]
      split at h
      · rw [if_pos ‹_›]
        exact subU32_inv (sub_bind_inv h)
      · rw [if_neg ‹_›]; exact subU32_inv h

/-- the `start_position` expression of the generated `index_alpha` -/
def startPositionG (inst : Instance) (pos : Position) : Nat :=
  if pos.pass ≠ 0 then (if pos.slice = 4 - 1 then 0 else (pos.slice + 1) * inst.segmentLength) else 0

theorem startPosition_inv {inst : Instance} {pos : Position} {s : Nat}
    (h : startPosition inst pos = .ok s) : s = startPositionG inst pos := by
  unfold startPosition at h
  unfold startPositionG
  split at h
  · rw [if_pos ‹_›]
    split at h
    · rw [if_pos ‹_›]; exact (Outcome.ok.inj h).symm
    · rw [if_neg ‹_›]; exact mulU32_inv (add_bind_inv h)
  · rw [if_neg ‹_›]; exact (Outcome.ok.inj h).symm

theorem index_alpha_eq_model (inst : Instance) (pos : Position) (pseudoRand : Nat) (sameLane : Bool)
    (v : Nat) (h : Model.Argon2.indexAlpha inst pos pseudoRand sameLane = .ok v) :
    Gen.Argon2.index_alpha inst.passes inst.memoryBlocks inst.segmentLength inst.laneLength inst.lanes
      pos.pass pos.lane pos.slice pos.index pseudoRand sameLane = v := by
  unfold Model.Argon2.indexAlpha at h
  obtain ⟨r, er, h⟩ := bind_ok_inv h
  have er := referenceAreaSize_inv er
  have h := sub_bind_inv h
  have h := sub_bind_inv h
  obtain ⟨s, es, h⟩ := bind_ok_inv h
  have es := startPosition_inv es
  have h := add_bind_inv h
  have h := remU32_inv h
  subst er es h
  unfold Gen.Argon2.index_alpha refAreaSizeN startPositionG
  simp only [Nat.shiftRight_eq_div_pow, decide_eq_true_eq, decide_not, Bool.not_eq_true', decide_eq_false_iff_not]
  rfl


/-- sanity test -/
example :
    Model.Argon2.indexAlpha { passes := 3, memoryBlocks := 128, segmentLength := 16, laneLength := 64, lanes := 2, ty := 2 }
        { pass := 1, lane := 1, slice := 2, index := 5 } 0x9E3779B9 true
      = .ok (Gen.Argon2.index_alpha 3 128 16 64 2 1 1 2 5 0x9E3779B9 true) := by decide

/-- sanity test (pass 0, other lane, index 0) -/
example :
    Model.Argon2.indexAlpha { passes := 3, memoryBlocks := 128, segmentLength := 16, laneLength := 64, lanes := 2, ty := 2 }
        { pass := 0, lane := 1, slice := 3, index := 0 } 0xDEADBEEF false
      = .ok (Gen.Argon2.index_alpha 3 128 16 64 2 0 1 3 0 0xDEADBEEF false) := by decide

/-- at every position `fill_segment` calls it with (and `7·segment_length < 2^32 + 3`), the generated
`index_alpha` returns the RFC 9106 position `refIndexN` (combine with `Proofs.Argon2.indexAlpha_ok`) -/
theorem index_alpha_eq_refIndexN {inst : Instance} {pos : Position} {j1 : Nat} (sameLane : Bool)
    (hsl : 2 ≤ inst.segmentLength) (hll : inst.laneLength = 4 * inst.segmentLength)
    (h7 : 7 * inst.segmentLength < 2 ^ 32 + 3) (hp : PosInv inst pos) (hj : j1 < 2 ^ 32) :
    Gen.Argon2.index_alpha inst.passes inst.memoryBlocks inst.segmentLength inst.laneLength inst.lanes
      pos.pass pos.lane pos.slice pos.index j1 sameLane = refIndexN inst pos j1 sameLane :=
  index_alpha_eq_model inst pos j1 sameLane _ (indexAlpha_ok sameLane hsl hll h7 hp hj).1

end DryocVerif.Proofs.GenArgon2
