import DryocVerif.Proofs.Poly1305
/-
Main theorems: the limb model of `poly1305_soft.rs` equals RFC 8439 Poly1305,
incremental = one-shot, and the checked `+`/`*` of the Rust never overflow.
-/
namespace DryocVerif.Proofs.Poly1305
open DryocVerif
open DryocVerif.Model.Poly1305 (U64 M44 M42 Limbs State blockStep finish)
open DryocVerif.Spec.Poly1305 (rOf sOf acc)

/-- incremental model = specification on the concatenation of the chunks -/
theorem macChunks_eq_spec (key : Bytes) (hk : key.length = 32) (cs : List Bytes) :
    DryocVerif.Model.Poly1305.macChunks key cs = DryocVerif.Spec.Poly1305.mac key cs.flatten := by
  obtain ⟨hr, hV⟩ := new_r_spec key hk
  obtain ⟨hp0, hp1, hs⟩ := new_pad_spec key hk
  have h := foldl_update_spec _ _ _ hr cs _ _ (new_inv key)
  have hf := finalize_spec _ _ _ hr hp0 hp1 _ _ h
  unfold DryocVerif.Model.Poly1305.macChunks DryocVerif.Spec.Poly1305.mac
  rw [hf, hV, hs, List.nil_append]

/-- **Model = spec.** -/
theorem mac_model_eq_spec (key msg : Bytes) (hk : key.length = 32) :
    DryocVerif.Model.Poly1305.mac key msg = DryocVerif.Spec.Poly1305.mac key msg := by
  have h := macChunks_eq_spec key hk [msg]
  have e : [msg].flatten = msg := by simp
  rw [e] at h
  exact h

/-- **Chunking law.** -/
theorem macChunks_eq_mac (key : Bytes) (hk : key.length = 32) (cs : List Bytes) :
    DryocVerif.Model.Poly1305.macChunks key cs = DryocVerif.Model.Poly1305.mac key cs.flatten := by
  rw [macChunks_eq_spec key hk cs, mac_model_eq_spec key _ hk]

/-! ### overflow freedom -/

theorem blockStep_no_overflow_aux (r0 r1 r2 H0 H1 H2 : Nat)
    (hr0 : r0 < 2^44) (hr1 : r1 < 2^44) (hr2 : r2 < 2^42)
    (hH0 : H0 < 2^45) (hH1 : H1 < 3 * 2^44) (hH2 : H2 < 3 * 2^41) :
    let s1 := r1 * 20
    let s2 := r2 * 20
    let d0 := H0 * r0 + H1 * s2 + H2 * s1
    let d1 := H0 * r1 + H1 * r0 + H2 * s2
    let d2 := H0 * r2 + H1 * r1 + H2 * r0
    let c0 := (d0 >>> 44) % U64
    let k0 := (d0 % U64) &&& M44
    let d1' := d1 + c0
    let c1 := (d1' >>> 44) % U64
    let k1 := (d1' % U64) &&& M44
    let d2' := d2 + c1
    let c2 := (d2' >>> 42) % U64
    let k0' := k0 + c2 * 5
    let c3 := k0' >>> 44
    s1 < 2^64 ∧ s2 < 2^64 ∧
    H0 * r0 < 2^128 ∧ H1 * s2 < 2^128 ∧ H2 * s1 < 2^128 ∧
    H0 * r0 + H1 * s2 < 2^128 ∧ d0 < 2^128 ∧
    H0 * r1 < 2^128 ∧ H1 * r0 < 2^128 ∧ H2 * s2 < 2^128 ∧
    H0 * r1 + H1 * r0 < 2^128 ∧ d1 < 2^128 ∧
    H0 * r2 < 2^128 ∧ H1 * r1 < 2^128 ∧ H2 * r0 < 2^128 ∧
    H0 * r2 + H1 * r1 < 2^128 ∧ d2 < 2^128 ∧
    d1' < 2^128 ∧ d2' < 2^128 ∧
    c2 * 5 < 2^64 ∧ k0' < 2^64 ∧ k1 + c3 < 2^64 := by
  have p00 := mul_bd (Nat.le_of_lt hH0) (Nat.le_of_lt hr0)
  have p01 := mul_bd (Nat.le_of_lt hH0) (Nat.le_of_lt hr1)
  have p02 := mul_bd (Nat.le_of_lt hH0) (Nat.le_of_lt hr2)
  have p10 := mul_bd (Nat.le_of_lt hH1) (Nat.le_of_lt hr0)
  have p11 := mul_bd (Nat.le_of_lt hH1) (Nat.le_of_lt hr1)
  have p1s := mul_bd (Nat.le_of_lt hH1) (show r2 * 20 ≤ 2^42 * 20 by omega)
  have p20 := mul_bd (Nat.le_of_lt hH2) (Nat.le_of_lt hr0)
  have p2s1 := mul_bd (Nat.le_of_lt hH2) (show r1 * 20 ≤ 2^44 * 20 by omega)
  have p2s2 := mul_bd (Nat.le_of_lt hH2) (show r2 * 20 ≤ 2^42 * 20 by omega)
  simp only [and_M44, Nat.shiftRight_eq_div_pow, U64_eq]
  generalize H0 * r0 = q00 at *
  generalize H0 * r1 = q01 at *
  generalize H0 * r2 = q02 at *
  generalize H1 * r0 = q10 at *
  generalize H1 * r1 = q11 at *
  generalize H1 * (r2 * 20) = q1s at *
  generalize H2 * r0 = q20 at *
  generalize H2 * (r1 * 20) = q2s1 at *
  generalize H2 * (r2 * 20) = q2s2 at *
  refine ⟨?_, ?_, ?_, ?_, ?_, ?_, ?_, ?_, ?_, ?_, ?_, ?_, ?_, ?_, ?_, ?_, ?_, ?_, ?_, ?_, ?_, ?_⟩
    <;> omega

/-- **No overflow in `blocks`.**  For one loop iteration of `Poly1305::blocks`, with the
accumulator in its inter-block range and `r` clamped: the `u64` products `r1*20`, `r2*20`, every
`u128` product and partial sum of `d0,d1,d2`, the carry additions `d1 += c`, `d2 += c`, and the
`u64` operations `c*5`, `h0 += c*5`, `h1 += c` all stay in range (so none of the Rust's
overflow-checked `+`/`*` can panic). -/
theorem blockStep_no_overflow (r h : Limbs) (hibit : Nat) (m : Bytes)
    (hr : RInv r) (hh : Inv h) (hm : m.length = 16) (hhi : hibit = 0 ∨ hibit = 2^40) :
    let s1 := r.l1 * 20
    let s2 := r.l2 * 20
    let t0 := le (m.take 8)
    let t1 := le ((m.drop 8).take 8)
    let H0 := (h.l0 + (t0 &&& M44)) % U64
    let H1 := (h.l1 + (((t0 >>> 44) ||| ((t1 <<< 20) % U64)) &&& M44)) % U64
    let H2 := (h.l2 + (((t1 >>> 24) &&& M42) ||| hibit)) % U64
    let d0 := H0 * r.l0 + H1 * s2 + H2 * s1
    let d1 := H0 * r.l1 + H1 * r.l0 + H2 * s2
    let d2 := H0 * r.l2 + H1 * r.l1 + H2 * r.l0
    let c0 := (d0 >>> 44) % U64
    let k0 := (d0 % U64) &&& M44
    let d1' := d1 + c0
    let c1 := (d1' >>> 44) % U64
    let k1 := (d1' % U64) &&& M44
    let d2' := d2 + c1
    let c2 := (d2' >>> 42) % U64
    let k0' := k0 + c2 * 5
    let c3 := k0' >>> 44
    s1 < 2^64 ∧ s2 < 2^64 ∧
    H0 * r.l0 < 2^128 ∧ H1 * s2 < 2^128 ∧ H2 * s1 < 2^128 ∧
    H0 * r.l0 + H1 * s2 < 2^128 ∧ d0 < 2^128 ∧
    H0 * r.l1 < 2^128 ∧ H1 * r.l0 < 2^128 ∧ H2 * s2 < 2^128 ∧
    H0 * r.l1 + H1 * r.l0 < 2^128 ∧ d1 < 2^128 ∧
    H0 * r.l2 < 2^128 ∧ H1 * r.l1 < 2^128 ∧ H2 * r.l0 < 2^128 ∧
    H0 * r.l2 + H1 * r.l1 < 2^128 ∧ d2 < 2^128 ∧
    d1' < 2^128 ∧ d2' < 2^128 ∧
    c2 * 5 < 2^64 ∧ k0' < 2^64 ∧ k1 + c3 < 2^64 := by
  obtain ⟨a0, a1, a2, _⟩ := addMsg_spec hibit h m hh hm hhi
  obtain ⟨hr0, hr1, hr2⟩ := hr
  exact blockStep_no_overflow_aux r.l0 r.l1 r.l2 _ _ _ hr0 hr1 hr2 a0 a1 a2

/-- The let-chain restated in `blockStep_no_overflow` is literally the one `blockStep` computes. -/
theorem blockStep_chain_eq (r h : Limbs) (hibit : Nat) (m : Bytes) :
    let s1 := r.l1 * 20
    let s2 := r.l2 * 20
    let t0 := le (m.take 8)
    let t1 := le ((m.drop 8).take 8)
    let H0 := (h.l0 + (t0 &&& M44)) % U64
    let H1 := (h.l1 + (((t0 >>> 44) ||| ((t1 <<< 20) % U64)) &&& M44)) % U64
    let H2 := (h.l2 + (((t1 >>> 24) &&& M42) ||| hibit)) % U64
    let d0 := H0 * r.l0 + H1 * s2 + H2 * s1
    let d1 := H0 * r.l1 + H1 * r.l0 + H2 * s2
    let d2 := H0 * r.l2 + H1 * r.l1 + H2 * r.l0
    let c0 := (d0 >>> 44) % U64
    let k0 := (d0 % U64) &&& M44
    let d1' := d1 + c0
    let c1 := (d1' >>> 44) % U64
    let k1 := (d1' % U64) &&& M44
    let d2' := d2 + c1
    let c2 := (d2' >>> 42) % U64
    let k0' := k0 + c2 * 5
    let c3 := k0' >>> 44
    blockStep r hibit h m = ⟨k0' &&& M44, k1 + c3, (d2' % U64) &&& M42⟩ := rfl

/-- The accumulator satisfies `Inv` after any number of full blocks, so
`blockStep_no_overflow` applies to every iteration. -/
theorem blocks_inv (r : Limbs) (hr : RInv r) (bs : List Bytes) (h : Limbs) (hh : Inv h)
    (hbs : ∀ b ∈ bs, b.length = 16) : Inv (bs.foldl (blockStep r (2^40)) h) :=
  (fold_full r hr bs h hh hbs).1

/-- **No overflow in `finalize`.**  The overflow-checked `u64` operations of the two carry
passes at the start of `finalize` (`h2 += c`, `c * 5`, `h0 += c * 5`, `h1 += c`, twice) stay
below `2^64`.  (All later additions in `finalize` are `wrapping_*` in the Rust.) -/
theorem finish_no_overflow (h : Limbs) (hh : Inv h) :
    let h0 := h.l0
    let h1 := h.l1
    let h2 := h.l2
    -- first pass
    let c := h1 >>> 44
    let h1 := h1 &&& M44
    let h2a := h2 + c
    let c := h2a >>> 42
    let h2 := h2a &&& M42
    let m1 := c * 5
    let h0a := h0 + m1
    let c := h0a >>> 44
    let h0 := h0a &&& M44
    let h1a := h1 + c
    -- second pass
    let c := h1a >>> 44
    let h1 := h1a &&& M44
    let h2b := h2 + c
    let c := h2b >>> 42
    let h2 := h2b &&& M42
    let m2 := c * 5
    let h0b := h0 + m2
    let c := h0b >>> 44
    let _h0 := h0b &&& M44
    let h1b := h1 + c
    let _h2 := h2
    h2a < 2^64 ∧ m1 < 2^64 ∧ h0a < 2^64 ∧ h1a < 2^64 ∧
    h2b < 2^64 ∧ m2 < 2^64 ∧ h0b < 2^64 ∧ h1b < 2^64 := by
  obtain ⟨h0, h1, h2⟩ := hh
  simp only [and_M44, and_M42, Nat.shiftRight_eq_div_pow]
  omega

/-- The let-chain restated in `finish_no_overflow` is literally the prefix of `finish`. -/
theorem finish_chain_eq (h : Limbs) (pad0 pad1 : Nat) :
    let h0 := h.l0
    let h1 := h.l1
    let h2 := h.l2
    let c := h1 >>> 44
    let h1 := h1 &&& M44
    let h2a := h2 + c
    let c := h2a >>> 42
    let h2 := h2a &&& M42
    let m1 := c * 5
    let h0a := h0 + m1
    let c := h0a >>> 44
    let h0 := h0a &&& M44
    let h1a := h1 + c
    let c := h1a >>> 44
    let h1 := h1a &&& M44
    let h2b := h2 + c
    let c := h2b >>> 42
    let h2 := h2b &&& M42
    let m2 := c * 5
    let h0b := h0 + m2
    let c := h0b >>> 44
    let h0 := h0b &&& M44
    let h1b := h1 + c
    finish h pad0 pad1 = pack (addPadLimbs (selectP ⟨h0, h1b, h2⟩) pad0 pad1) := rfl

end DryocVerif.Proofs.Poly1305

section AxiomCheck
open DryocVerif.Proofs.Poly1305
#print axioms mac_model_eq_spec
#print axioms macChunks_eq_mac
#print axioms macChunks_eq_spec
#print axioms blockStep_no_overflow
#print axioms finish_no_overflow
#print axioms blockStep_chain_eq
#print axioms finish_chain_eq
end AxiomCheck
