import DryocVerif.Model.Blake2b
import DryocVerif.Spec.Blake2b
import DryocVerif.Proofs.Poly1305Bits
/-
`Model.Blake2b.compress` (the shape of the Rust code: in-place `tv[..] = …` statements,
twelve explicit rounds) equals `Spec.Blake2b.compress` (RFC 7693 shape).  Core only.
-/
namespace DryocVerif.Proofs.Blake2b
open DryocVerif
open DryocVerif.Model.Blake2b
open DryocVerif.Model.Utils (loadU64LE rotr64 slice)
open DryocVerif.Proofs.Poly1305 (or_mul_two_pow)

theorem rotr64_eq (x n : UInt64) : rotr64 x n = Spec.Blake2b.rotr x n := rfl

/-! ### the mixing function: eight in-place statements = `G` -/

/-- `u` has 16 words, holds `xa xb xc xd` at `a b c d` and agrees with `v` elsewhere -/
structure Agree (u v : Array UInt64) (a b c d : Nat) (xa xb xc xd : UInt64) : Prop where
  size : u.size = 16
  ga : u[a]! = xa
  gb : u[b]! = xb
  gc : u[c]! = xc
  gd : u[d]! = xd
  rest : ∀ j, j ≠ a → j ≠ b → j ≠ c → j ≠ d → u[j]! = v[j]!

/-- four distinct in-range indices -/
structure Idx (a b c d : Nat) : Prop where
  ha : a < 16
  hb : b < 16
  hc : c < 16
  hd : d < 16
  hab : a ≠ b
  hac : a ≠ c
  had : a ≠ d
  hbc : b ≠ c
  hbd : b ≠ d
  hcd : c ≠ d

section
variable {u v : Array UInt64} {a b c d : Nat} {xa xb xc xd : UInt64}

theorem Agree.refl (hs : v.size = 16) : Agree v v a b c d v[a]! v[b]! v[c]! v[d]! :=
  ⟨hs, rfl, rfl, rfl, rfl, fun _ _ _ _ _ => rfl⟩

theorem Agree.setA (A : Agree u v a b c d xa xb xc xd) (I : Idx a b c d) (x x' : UInt64) (hx : x = x') :
    Agree (u.set! a x) v a b c d x' xb xc xd := by
  subst hx
  refine ⟨by simp [A.size], ?_, ?_, ?_, ?_, ?_⟩
  · exact Array.getElem!_set!_self u a x (by rw [A.size]; exact I.ha)
  · rw [Array.getElem!_set!_ne u a b x I.hab]; exact A.gb
  · rw [Array.getElem!_set!_ne u a c x I.hac]; exact A.gc
  · rw [Array.getElem!_set!_ne u a d x I.had]; exact A.gd
  · intro j h1 h2 h3 h4
    rw [Array.getElem!_set!_ne u a j x (Ne.symm h1)]; exact A.rest j h1 h2 h3 h4

theorem Agree.setB (A : Agree u v a b c d xa xb xc xd) (I : Idx a b c d) (x x' : UInt64) (hx : x = x') :
    Agree (u.set! b x) v a b c d xa x' xc xd := by
  subst hx
  refine ⟨by simp [A.size], ?_, ?_, ?_, ?_, ?_⟩
  · rw [Array.getElem!_set!_ne u b a x (Ne.symm I.hab)]; exact A.ga
  · exact Array.getElem!_set!_self u b x (by rw [A.size]; exact I.hb)
  · rw [Array.getElem!_set!_ne u b c x I.hbc]; exact A.gc
  · rw [Array.getElem!_set!_ne u b d x I.hbd]; exact A.gd
  · intro j h1 h2 h3 h4
    rw [Array.getElem!_set!_ne u b j x (Ne.symm h2)]; exact A.rest j h1 h2 h3 h4

theorem Agree.setC (A : Agree u v a b c d xa xb xc xd) (I : Idx a b c d) (x x' : UInt64) (hx : x = x') :
    Agree (u.set! c x) v a b c d xa xb x' xd := by
  subst hx
  refine ⟨by simp [A.size], ?_, ?_, ?_, ?_, ?_⟩
  · rw [Array.getElem!_set!_ne u c a x (Ne.symm I.hac)]; exact A.ga
  · rw [Array.getElem!_set!_ne u c b x (Ne.symm I.hbc)]; exact A.gb
  · exact Array.getElem!_set!_self u c x (by rw [A.size]; exact I.hc)
  · rw [Array.getElem!_set!_ne u c d x I.hcd]; exact A.gd
  · intro j h1 h2 h3 h4
    rw [Array.getElem!_set!_ne u c j x (Ne.symm h3)]; exact A.rest j h1 h2 h3 h4

theorem Agree.setD (A : Agree u v a b c d xa xb xc xd) (I : Idx a b c d) (x x' : UInt64) (hx : x = x') :
    Agree (u.set! d x) v a b c d xa xb xc x' := by
  subst hx
  refine ⟨by simp [A.size], ?_, ?_, ?_, ?_, ?_⟩
  · rw [Array.getElem!_set!_ne u d a x (Ne.symm I.had)]; exact A.ga
  · rw [Array.getElem!_set!_ne u d b x (Ne.symm I.hbd)]; exact A.gb
  · rw [Array.getElem!_set!_ne u d c x (Ne.symm I.hcd)]; exact A.gc
  · exact Array.getElem!_set!_self u d x (by rw [A.size]; exact I.hd)
  · intro j h1 h2 h3 h4
    rw [Array.getElem!_set!_ne u d j x (Ne.symm h4)]; exact A.rest j h1 h2 h3 h4

/-- two arrays that agree with `v` in the same way are equal -/
theorem Agree.ext {u' : Array UInt64} (A : Agree u v a b c d xa xb xc xd)
    (A' : Agree u' v a b c d xa xb xc xd) : u = u' := by
  apply Array.ext (by rw [A.size, A'.size])
  intro j h1 h2
  have e : u[j]! = u'[j]! := by
    by_cases ja : j = a
    · subst ja; rw [A.ga, A'.ga]
    by_cases jb : j = b
    · subst jb; rw [A.gb, A'.gb]
    by_cases jc : j = c
    · subst jc; rw [A.gc, A'.gc]
    by_cases jd : j = d
    · subst jd; rw [A.gd, A'.gd]
    rw [A.rest j ja jb jc jd, A'.rest j ja jb jc jd]
  rwa [getElem!_pos u j h1, getElem!_pos u' j h2] at e
end

theorem G_size (v : Array UInt64) (a b c d : Nat) (x y : UInt64) :
    (Spec.Blake2b.G v a b c d x y).size = v.size := by
  simp [Spec.Blake2b.G]

/-- the closure `g` of the Rust `compress` (eight statements mutating `tv` in place, message
words selected through `SIGMA[r][2i]`, `SIGMA[r][2i+1]`) is the RFC mixing function `G` -/
theorem g_eq_G (tm v : Array UInt64) (r i a b c d : Nat) (hs : v.size = 16) (I : Idx a b c d) :
    g tm v r i a b c d =
      Spec.Blake2b.G v a b c d tm[SIGMA[r]![2 * i]!]! tm[SIGMA[r]![2 * i + 1]!]! := by
  unfold g
  generalize tm[SIGMA[r]![2 * i]!]! = x
  generalize tm[SIGMA[r]![2 * i + 1]!]! = y
  have A0 : Agree v v a b c d v[a]! v[b]! v[c]! v[d]! := Agree.refl hs
  -- left-hand side, statement by statement
  extract_lets tv1 tv2 tv3 tv4 tv5 tv6 tv7 tv8
  have A1 : Agree tv1 v a b c d _ _ _ _ :=
    A0.setA I (v[a]! + (v[b]! + x)) (v[a]! + v[b]! + x) (by rw [UInt64.add_assoc])
  have A2 : Agree tv2 v a b c d _ _ _ _ :=
    A1.setD I (rotr64 (tv1[d]! ^^^ tv1[a]!) 32) _ (by rw [A1.gd, A1.ga, rotr64_eq])
  have A3 : Agree tv3 v a b c d _ _ _ _ :=
    A2.setC I (tv2[c]! + tv2[d]!) _ (by rw [A2.gc, A2.gd])
  have A4 : Agree tv4 v a b c d _ _ _ _ :=
    A3.setB I (rotr64 (tv3[b]! ^^^ tv3[c]!) 24) _ (by rw [A3.gb, A3.gc, rotr64_eq])
  have A5 : Agree tv5 v a b c d _ _ _ _ :=
    A4.setA I (tv4[a]! + (tv4[b]! + y)) _ (by rw [A4.ga, A4.gb, ← UInt64.add_assoc])
  have A6 : Agree tv6 v a b c d _ _ _ _ :=
    A5.setD I (rotr64 (tv5[d]! ^^^ tv5[a]!) 16) _ (by rw [A5.gd, A5.ga, rotr64_eq])
  have A7 : Agree tv7 v a b c d _ _ _ _ :=
    A6.setC I (tv6[c]! + tv6[d]!) _ (by rw [A6.gc, A6.gd])
  have A8 : Agree tv8 v a b c d _ _ _ _ :=
    A7.setB I (rotr64 (tv7[b]! ^^^ tv7[c]!) 63) _ (by rw [A7.gb, A7.gc, rotr64_eq])
  refine A8.ext ?_
  -- right-hand side
  unfold Spec.Blake2b.G
  exact (((A0.setA I _ _ rfl).setB I _ _ rfl).setC I _ _ rfl).setD I _ _ rfl

/-! ### rounds -/

theorem sigma_eq : ∀ r, r < 12 → ∀ k, k < 16 → SIGMA[r]![k]! = Spec.Blake2b.SIGMA[r % 10]![k]! := by
  decide

theorem round_size (m v : Array UInt64) (s : Array Nat) :
    (Spec.Blake2b.round m v s).size = v.size := by
  simp [Spec.Blake2b.round, G_size]

/-- the closure `round(r)` of the Rust `compress` = the RFC round with schedule row `r mod 10` -/
theorem round_eq (tm v : Array UInt64) (r : Nat) (hr : r < 12) (hs : v.size = 16) :
    round tm v r = Spec.Blake2b.round tm v Spec.Blake2b.SIGMA[r % 10]! := by
  unfold round Spec.Blake2b.round
  simp only []
  rw [g_eq_G tm v r 0 0 4 8 12 hs (by constructor <;> decide)]
  rw [g_eq_G tm _ r 1 1 5 9 13 (by simp [G_size, hs]) (by constructor <;> decide)]
  rw [g_eq_G tm _ r 2 2 6 10 14 (by simp [G_size, hs]) (by constructor <;> decide)]
  rw [g_eq_G tm _ r 3 3 7 11 15 (by simp [G_size, hs]) (by constructor <;> decide)]
  rw [g_eq_G tm _ r 4 0 5 10 15 (by simp [G_size, hs]) (by constructor <;> decide)]
  rw [g_eq_G tm _ r 5 1 6 11 12 (by simp [G_size, hs]) (by constructor <;> decide)]
  rw [g_eq_G tm _ r 6 2 7 8 13 (by simp [G_size, hs]) (by constructor <;> decide)]
  rw [g_eq_G tm _ r 7 3 4 9 14 (by simp [G_size, hs]) (by constructor <;> decide)]
  simp only [Nat.mul_zero, Nat.mul_one, Nat.zero_add, Nat.reduceMul, Nat.reduceAdd,
    sigma_eq r hr _ (by decide : (0:Nat) < 16), sigma_eq r hr _ (by decide : (1:Nat) < 16),
    sigma_eq r hr _ (by decide : (2:Nat) < 16), sigma_eq r hr _ (by decide : (3:Nat) < 16),
    sigma_eq r hr _ (by decide : (4:Nat) < 16), sigma_eq r hr _ (by decide : (5:Nat) < 16),
    sigma_eq r hr _ (by decide : (6:Nat) < 16), sigma_eq r hr _ (by decide : (7:Nat) < 16),
    sigma_eq r hr _ (by decide : (8:Nat) < 16), sigma_eq r hr _ (by decide : (9:Nat) < 16),
    sigma_eq r hr _ (by decide : (10:Nat) < 16), sigma_eq r hr _ (by decide : (11:Nat) < 16),
    sigma_eq r hr _ (by decide : (12:Nat) < 16), sigma_eq r hr _ (by decide : (13:Nat) < 16),
    sigma_eq r hr _ (by decide : (14:Nat) < 16), sigma_eq r hr _ (by decide : (15:Nat) < 16)]

/-! ### `load_u64_le` -/

theorem or8 (b0 b1 b2 b3 b4 b5 b6 b7 : Nat) (h0 : b0 < 256) (h1 : b1 < 256) (h2 : b2 < 256)
    (h3 : b3 < 256) (h4 : b4 < 256) (h5 : b5 < 256) (h6 : b6 < 256) (h7 : b7 < 256) :
    b0 ||| b1 <<< 8 % 2^64 ||| b2 <<< 16 % 2^64 ||| b3 <<< 24 % 2^64 ||| b4 <<< 32 % 2^64
      ||| b5 <<< 40 % 2^64 ||| b6 <<< 48 % 2^64 ||| b7 <<< 56 % 2^64
    = (b0 + 256 * (b1 + 256 * (b2 + 256 * (b3 + 256 * (b4 + 256 * (b5 + 256 * (b6 + 256 * (b7 + 256 * 0)))))))) % 2^64 := by
  simp only [Nat.shiftLeft_eq]
  have e1 : b1 * 2^8 % 2^64 = b1 * 2^8 := Nat.mod_eq_of_lt (by omega)
  have e2 : b2 * 2^16 % 2^64 = b2 * 2^16 := Nat.mod_eq_of_lt (by omega)
  have e3 : b3 * 2^24 % 2^64 = b3 * 2^24 := Nat.mod_eq_of_lt (by omega)
  have e4 : b4 * 2^32 % 2^64 = b4 * 2^32 := Nat.mod_eq_of_lt (by omega)
  have e5 : b5 * 2^40 % 2^64 = b5 * 2^40 := Nat.mod_eq_of_lt (by omega)
  have e6 : b6 * 2^48 % 2^64 = b6 * 2^48 := Nat.mod_eq_of_lt (by omega)
  have e7 : b7 * 2^56 % 2^64 = b7 * 2^56 := Nat.mod_eq_of_lt (by omega)
  rw [e1, e2, e3, e4, e5, e6, e7]
  rw [or_mul_two_pow _ _ 8 (by omega), or_mul_two_pow _ _ 16 (by omega),
    or_mul_two_pow _ _ 24 (by omega), or_mul_two_pow _ _ 32 (by omega),
    or_mul_two_pow _ _ 40 (by omega), or_mul_two_pow _ _ 48 (by omega),
    or_mul_two_pow _ _ 56 (by omega)]
  omega

theorem loadU64LE_eq (xs : Bytes) (h : xs.length = 8) : loadU64LE xs = UInt64.ofNat (le xs) := by
  match xs, h with
  | [b0, b1, b2, b3, b4, b5, b6, b7], _ =>
    apply UInt64.toNat.inj
    simp only [loadU64LE, le, List.getD_cons_zero, List.getD_cons_succ, UInt64.toNat_or, UInt64.toNat_shiftLeft,
      UInt8.toNat_toUInt64, UInt64.toNat_ofNat']
    exact or8 _ _ _ _ _ _ _ _ b0.toNat_lt b1.toNat_lt b2.toNat_lt b3.toNat_lt b4.toNat_lt b5.toNat_lt b6.toNat_lt b7.toNat_lt

theorem range8 : List.range 8 = [0,1,2,3,4,5,6,7] := by decide
theorem range16 : List.range 16 = [0,1,2,3,4,5,6,7,8,9,10,11,12,13,14,15] := by decide
theorem rep16 : Array.replicate 16 (0 : UInt64) = #[0,0,0,0,0,0,0,0,0,0,0,0,0,0,0,0] := by
  simp [Array.replicate, List.replicate]

theorem arr8 (h : Array UInt64) (hh : h.size = 8) :
    ∃ h0 h1 h2 h3 h4 h5 h6 h7, h = #[h0, h1, h2, h3, h4, h5, h6, h7] := by
  obtain ⟨l⟩ := h
  match l, hh with
  | [a0,a1,a2,a3,a4,a5,a6,a7], _ => exact ⟨a0,a1,a2,a3,a4,a5,a6,a7,rfl⟩


theorem load_slice (block : Bytes) (hb : block.length = 128) (i : Nat) (hi : i < 16) :
    loadU64LE (slice block (i * 8) (i * 8 + 8)) = UInt64.ofNat (le ((block.drop (8 * i)).take 8)) := by
  have e : slice block (i * 8) (i * 8 + 8) = (block.drop (8 * i)).take 8 := by
    unfold slice
    rw [List.drop_take, Nat.mul_comm i 8, Nat.add_sub_cancel_left]
  rw [e, loadU64LE_eq]
  simp only [List.length_take, List.length_drop]; omega

theorem tm_eq (block : Bytes) (hb : block.length = 128) :
    (List.range 16).foldl (fun tm i => tm.set! i (loadU64LE (slice block (i * 8) (i * 8 + 8))))
      (Array.replicate 16 0) = Spec.Blake2b.wordsOfBytes 16 block := by
  unfold Spec.Blake2b.wordsOfBytes
  simp only [range16, List.foldl_cons, List.foldl_nil, List.map_cons, List.map_nil, rep16]
  simp only [load_slice block hb _ (by decide : (0:Nat) < 16), load_slice block hb _ (by decide : (1:Nat) < 16),
    load_slice block hb _ (by decide : (2:Nat) < 16), load_slice block hb _ (by decide : (3:Nat) < 16),
    load_slice block hb _ (by decide : (4:Nat) < 16), load_slice block hb _ (by decide : (5:Nat) < 16),
    load_slice block hb _ (by decide : (6:Nat) < 16), load_slice block hb _ (by decide : (7:Nat) < 16),
    load_slice block hb _ (by decide : (8:Nat) < 16), load_slice block hb _ (by decide : (9:Nat) < 16),
    load_slice block hb _ (by decide : (10:Nat) < 16), load_slice block hb _ (by decide : (11:Nat) < 16),
    load_slice block hb _ (by decide : (12:Nat) < 16), load_slice block hb _ (by decide : (13:Nat) < 16),
    load_slice block hb _ (by decide : (14:Nat) < 16), load_slice block hb _ (by decide : (15:Nat) < 16)]
  simp


theorem tv_init_eq (h0 h1 h2 h3 h4 h5 h6 h7 t0 t1 : UInt64) (last : Bool) :
    (let tv : Array UInt64 := Array.replicate 16 0
     let tv := (List.range 8).foldl (fun tv i => tv.set! i #[h0,h1,h2,h3,h4,h5,h6,h7][i]!) tv
     let tv := tv.set! 8 IV[0]!
     let tv := tv.set! 9 IV[1]!
     let tv := tv.set! 10 IV[2]!
     let tv := tv.set! 11 IV[3]!
     let tv := tv.set! 12 (t0 ^^^ IV[4]!)
     let tv := tv.set! 13 (t1 ^^^ IV[5]!)
     let tv := tv.set! 14 ((if last then allOnes else 0) ^^^ IV[6]!)
     let tv := tv.set! 15 ((0 : UInt64) ^^^ IV[7]!)
     tv)
    = (let v := #[h0,h1,h2,h3,h4,h5,h6,h7] ++ Spec.Blake2b.IV
       let v := v.set! 12 (v[12]! ^^^ t0)
       let v := v.set! 13 (v[13]! ^^^ t1)
       let v := if last then v.set! 14 (~~~ v[14]!) else v
       v) := by
  simp only [range8, List.foldl_cons, List.foldl_nil, rep16, IV, Spec.Blake2b.IV]
  cases last
  · simp [UInt64.xor_comm]
  · simp [UInt64.xor_comm, allOnes]
    decide

theorem rounds_eq (tm v : Array UInt64) (hs : v.size = 16) :
    round tm (round tm (round tm (round tm (round tm (round tm (round tm (round tm (round tm (round tm
      (round tm (round tm v 0) 1) 2) 3) 4) 5) 6) 7) 8) 9) 10) 11
    = Nat.fold 12 (fun i _ v => Spec.Blake2b.round tm v Spec.Blake2b.SIGMA[i % 10]!) v := by
  simp only [Nat.fold]
  rw [round_eq tm v 0 (by decide) hs]
  rw [round_eq tm _ 1 (by decide) (by simp only [round_size, hs])]
  rw [round_eq tm _ 2 (by decide) (by simp only [round_size, hs])]
  rw [round_eq tm _ 3 (by decide) (by simp only [round_size, hs])]
  rw [round_eq tm _ 4 (by decide) (by simp only [round_size, hs])]
  rw [round_eq tm _ 5 (by decide) (by simp only [round_size, hs])]
  rw [round_eq tm _ 6 (by decide) (by simp only [round_size, hs])]
  rw [round_eq tm _ 7 (by decide) (by simp only [round_size, hs])]
  rw [round_eq tm _ 8 (by decide) (by simp only [round_size, hs])]
  rw [round_eq tm _ 9 (by decide) (by simp only [round_size, hs])]
  rw [round_eq tm _ 10 (by decide) (by simp only [round_size, hs])]
  rw [round_eq tm _ 11 (by decide) (by simp only [round_size, hs])]

theorem feed_eq (h0 h1 h2 h3 h4 h5 h6 h7 : UInt64) (tv : Array UInt64) :
    (List.range 8).foldl (fun sh i => sh.set! i (sh[i]! ^^^ tv[i]! ^^^ tv[i + 8]!)) #[h0,h1,h2,h3,h4,h5,h6,h7]
    = ((List.range 8).map fun i => #[h0,h1,h2,h3,h4,h5,h6,h7][i]! ^^^ tv[i]! ^^^ tv[i + 8]!).toArray := by
  simp only [range8, List.foldl_cons, List.foldl_nil, List.map_cons, List.map_nil]
  simp


/-- **`compress` (code shape) = RFC 7693 `F` (spec shape)** on an 8-word chaining value and a
full 128-byte block; `T` is the 128-bit counter value `t0 + 2^64·t1`, the final-block flag
is `f0 = 0xffff…`, `f1 = 0` (BLAKE2b sequential mode never sets the last-node flag). -/
theorem compress_eq_spec (h : Array UInt64) (t0 t1 f0 f1 : UInt64) (block : Bytes) (T : Nat)
    (last : Bool) (hh : h.size = 8) (hb : block.length = 128)
    (hT0 : UInt64.ofNat (T % 2^64) = t0) (hT1 : UInt64.ofNat ((T / 2^64) % 2^64) = t1)
    (hf0 : f0 = if last then allOnes else 0) (hf1 : f1 = 0) :
    compress h t0 t1 f0 f1 block = Spec.Blake2b.compress h block T last := by
  obtain ⟨h0, h1, h2, h3, h4, h5, h6, h7, rfl⟩ := arr8 h hh
  subst hf0 hf1
  unfold compress Spec.Blake2b.compress
  simp only []
  have hv := tv_init_eq h0 h1 h2 h3 h4 h5 h6 h7 t0 t1 last
  simp only [] at hv
  rw [tm_eq block hb, hv, hT0, hT1]
  rw [rounds_eq, feed_eq]
  cases last <;> simp [Spec.Blake2b.IV]

end DryocVerif.Proofs.Blake2b
