import DryocVerif.Model.Argon2
/-
Helper lemmas for C09 (Argon2 / `crypto_pwhash`): the `Outcome` monad, checked machine
arithmetic, `validate`, the instance geometry, `index_alpha`, the offsets of `fill_segment`,
`longhash`.  Core Lean only.
-/
namespace DryocVerif.Proofs.Argon2
open DryocVerif DryocVerif.Model.Argon2

/-! ### `Outcome` monad and checked operations -/

@[simp] theorem ok_bind {α β} (a : α) (f : α → Outcome β) : (Outcome.ok a >>= f) = f a := rfl
@[simp] theorem err_bind {α β} (f : α → Outcome β) : ((Outcome.err : Outcome α) >>= f) = .err := rfl
@[simp] theorem panic_bind {α β} (f : α → Outcome β) :
    ((Outcome.panic : Outcome α) >>= f) = .panic := rfl
@[simp] theorem pure_eq {α} (a : α) : (pure a : Outcome α) = .ok a := rfl

theorem U32_eq : U32 = 4294967296 := by decide
theorem U64_eq : U64 = 18446744073709551616 := by decide

theorem addU32_ok {a b : Nat} (h : a + b < 2 ^ 32) : addU32 a b = .ok (a + b) := by
  simp [addU32, U32_eq]; omega
theorem subU32_ok {a b : Nat} (h : b ≤ a) : subU32 a b = .ok (a - b) := by simp [subU32, h]
theorem mulU32_ok {a b : Nat} (h : a * b < 2 ^ 32) : mulU32 a b = .ok (a * b) := by
  simp [mulU32, U32_eq]; omega
theorem divU32_ok {a b : Nat} (h : b ≠ 0) : divU32 a b = .ok (a / b) := by simp [divU32, h]
theorem remU32_ok {a b : Nat} (h : b ≠ 0) : remU32 a b = .ok (a % b) := by simp [remU32, h]
theorem remU64_ok {a b : Nat} (h : b ≠ 0) : remU64 a b = .ok (a % b) := by simp [remU64, h]
theorem addU64_ok {a b : Nat} (h : a + b < 2 ^ 64) : addU64 a b = .ok (a + b) := by
  simp [addU64, U64_eq]; omega
theorem mulU64_ok {a b : Nat} (h : a * b < 2 ^ 64) : mulU64 a b = .ok (a * b) := by
  simp [mulU64, U64_eq]; omega
theorem subUsize_ok {a b : Nat} (h : b ≤ a) : subUsize a b = .ok (a - b) := by simp [subUsize, h]

theorem mulU32_panic {a b : Nat} (h : 2 ^ 32 ≤ a * b) : mulU32 a b = .panic := by
  simp [mulU32, U32_eq]; omega
theorem addU32_panic {a b : Nat} (h : 2 ^ 32 ≤ a + b) : addU32 a b = .panic := by
  simp [addU32, U32_eq]; omega

theorem getBlock_ok {mem : Array Block} {i : Nat} (h : i < mem.size) : getBlock mem i = .ok mem[i]! := by
  simp [getBlock, h]
theorem setBlock_ok {mem : Array Block} {i : Nat} (b : Block) (h : i < mem.size) :
    setBlock mem i b = .ok (mem.set! i b) := by
  simp [setBlock, Array.set!_eq_setIfInBounds, Array.setIfInBounds, h]
theorem getWord_ok {v : Array UInt64} {i : Nat} (h : i < v.size) : getWord v i = .ok v[i]! := by
  simp [getWord, h]
theorem setWord_ok {v : Array UInt64} {i : Nat} (w : UInt64) (h : i < v.size) :
    setWord v i w = .ok (v.set! i w) := by
  simp [setWord, Array.set!_eq_setIfInBounds, Array.setIfInBounds, h]

/-! ### loops -/

/-- invariant rule for `forRange`: if every iteration in range succeeds and re-establishes the
invariant, the loop succeeds and the invariant holds at the end. -/
theorem forRange_inv {σ : Type} (f : Nat → σ → Outcome σ) (Inv : Nat → σ → Prop) :
    ∀ (n a : Nat) (s : σ), Inv a s →
      (∀ i s, a ≤ i → i < a + n → Inv i s → ∃ s', f i s = .ok s' ∧ Inv (i + 1) s') →
      ∃ s', forRange f a n s = .ok s' ∧ Inv (a + n) s'
  | 0, a, s, h0, _ => ⟨s, rfl, h0⟩
  | n + 1, a, s, h0, hstep => by
    obtain ⟨s1, hs1, hi1⟩ := hstep a s (Nat.le_refl _) (by omega) h0
    obtain ⟨s2, hs2, hi2⟩ := forRange_inv f Inv n (a + 1) s1 hi1
      (fun i s hi hlt => hstep i s (by omega) (by omega))
    refine ⟨s2, ?_, ?_⟩
    · simp only [forRange, hs1]; exact hs2
    · have : a + (n + 1) = a + 1 + n := by omega
      rw [this]; exact hi2

theorem forRange_succ {σ : Type} (f : Nat → σ → Outcome σ) :
    ∀ (m b : Nat) (t : σ), forRange f b (m + 1) t = (forRange f b m t >>= fun t' => f (b + m) t') := by
  intro m
  induction m with
  | zero =>
    intro b t
    simp only [forRange, Nat.add_zero, ok_bind]
    cases f b t <;> rfl
  | succ m ihm =>
    intro b t
    rw [forRange]
    cases hf : f b t with
    | ok t' =>
      simp only []
      rw [ihm (b + 1) t']
      conv => rhs; rw [forRange, hf]
      simp only []
      have : b + 1 + m = b + (m + 1) := by omega
      rw [this]
    | err => simp only [forRange, hf]; rfl
    | panic => simp only [forRange, hf]; rfl

/-- `forRange` of an always-succeeding body is a `Nat.fold` -/
theorem forRange_eq_fold {σ : Type} (f : Nat → σ → Outcome σ) (g : Nat → σ → σ) (Inv : Nat → σ → Prop) :
    ∀ (n a : Nat) (s : σ), Inv a s →
      (∀ i s, a ≤ i → i < a + n → Inv i s → f i s = .ok (g i s) ∧ Inv (i + 1) (g i s)) →
      forRange f a n s = .ok (Nat.fold n (fun k _ s => g (a + k) s) s)
        ∧ Inv (a + n) (Nat.fold n (fun k _ s => g (a + k) s) s) := by
  intro n
  induction n with
  | zero => intro a s h0 _; exact ⟨rfl, h0⟩
  | succ n ih =>
    intro a s h0 hstep
    obtain ⟨h1, h2⟩ := ih a s h0 (fun i s hi hlt => hstep i s hi (by omega))
    obtain ⟨h3, h4⟩ := hstep (a + n) _ (by omega) (by omega) h2
    refine ⟨?_, ?_⟩
    · rw [forRange_succ, h1, ok_bind, h3, Nat.fold_succ]
    · rw [Nat.fold_succ]; exact h4

/-! ### `validate` -/

theorem validateRange_eq (lo hi v : Nat) :
    validateRange lo hi v = if lo ≤ v ∧ v ≤ hi then .ok () else .err := by
  unfold validateRange
  by_cases h1 : v < lo
  · simp [h1]; omega
  · by_cases h2 : v > hi
    · simp [h1, h2]
    · simp [h1, h2]

theorem validateOpt_eq (lo hi : Nat) (o : Option Nat) :
    validateOpt lo hi o = if (∀ n, o = some n → lo ≤ n ∧ n ≤ hi) then .ok () else .err := by
  cases o with
  | none => simp [validateOpt]
  | some n => simp [validateOpt, validateRange_eq]

theorem ite_unit_bind {β} (c : Prop) [Decidable c] (f : Unit → Outcome β) :
    ((if c then Outcome.ok () else Outcome.err) >>= f) = if c then f () else .err := by
  split <;> rfl

/-- the parameter sets accepted by `Argon2Context::new` -/
structure Valid (outlen pwdlen saltlen : Nat) (secretlen adlen : Option Nat) (t m p : Nat) : Prop where
  outlen_ge : 16 ≤ outlen
  outlen_le : outlen ≤ 0xFFFFFFFF
  pwd_le : pwdlen ≤ 0xFFFFFFFF
  salt_ge : 8 ≤ saltlen
  salt_le : saltlen ≤ 0xFFFFFFFF
  secret_le : ∀ n, secretlen = some n → n ≤ 0xFFFFFFFF
  ad_le : ∀ n, adlen = some n → n ≤ 0xFFFFFFFF
  lanes_ge : 1 ≤ p
  lanes_le : p ≤ 0xFFFFFF
  m_ge : 8 ≤ m
  m_le : m ≤ 0xFFFFFFFF
  t_ge : 1 ≤ t
  t_le : t ≤ 0xFFFFFFFF

theorem validate_cases (outlen pwdlen saltlen : Nat) (secretlen adlen : Option Nat) (t m p : Nat) :
    (Valid outlen pwdlen saltlen secretlen adlen t m p ∧
        validate outlen pwdlen saltlen secretlen adlen t m p = .ok ()) ∨
    (¬ Valid outlen pwdlen saltlen secretlen adlen t m p ∧
        validate outlen pwdlen saltlen secretlen adlen t m p = .err) := by
  unfold validate
  simp only [validateRange_eq, validateOpt_eq, ARGON2_MIN_OUTLEN, ARGON2_MAX_OUTLEN,
    ARGON2_MIN_PWD_LENGTH, ARGON2_MAX_PWD_LENGTH, ARGON2_MIN_SALT_LENGTH, ARGON2_MAX_SALT_LENGTH,
    ARGON2_MIN_SECRET, ARGON2_MAX_SECRET, ARGON2_MIN_AD_LENGTH, ARGON2_MAX_AD_LENGTH,
    ARGON2_MIN_LANES, ARGON2_MAX_LANES, ARGON2_MIN_MEMORY, ARGON2_MAX_MEMORY, ARGON2_MIN_TIME,
    ARGON2_MAX_TIME, ite_unit_bind]
  by_cases c1 : 16 ≤ outlen ∧ outlen ≤ 4294967295
  case neg => exact .inr ⟨fun h => c1 ⟨h.outlen_ge, h.outlen_le⟩, by rw [if_neg c1]⟩
  by_cases c2 : 0 ≤ pwdlen ∧ pwdlen ≤ 4294967295
  case neg => exact .inr ⟨fun h => c2 ⟨Nat.zero_le _, h.pwd_le⟩, by rw [if_pos c1, if_neg c2]⟩
  by_cases c3 : 8 ≤ saltlen ∧ saltlen ≤ 4294967295
  case neg => exact .inr ⟨fun h => c3 ⟨h.salt_ge, h.salt_le⟩, by rw [if_pos c1, if_pos c2, if_neg c3]⟩
  by_cases c4 : ∀ n, secretlen = some n → 0 ≤ n ∧ n ≤ 4294967295
  case neg => exact .inr ⟨fun h => c4 fun n hn => ⟨Nat.zero_le _, h.secret_le n hn⟩,
    by rw [if_pos c1, if_pos c2, if_pos c3, if_neg c4]⟩
  by_cases c5 : ∀ n, adlen = some n → 0 ≤ n ∧ n ≤ 4294967295
  case neg => exact .inr ⟨fun h => c5 fun n hn => ⟨Nat.zero_le _, h.ad_le n hn⟩,
    by rw [if_pos c1, if_pos c2, if_pos c3, if_pos c4, if_neg c5]⟩
  by_cases c6 : 1 ≤ p ∧ p ≤ 16777215
  case neg => exact .inr ⟨fun h => c6 ⟨h.lanes_ge, h.lanes_le⟩,
    by rw [if_pos c1, if_pos c2, if_pos c3, if_pos c4, if_pos c5, if_neg c6]⟩
  by_cases c7 : 8 ≤ m ∧ m ≤ 4294967295
  case neg => exact .inr ⟨fun h => c7 ⟨h.m_ge, h.m_le⟩,
    by rw [if_pos c1, if_pos c2, if_pos c3, if_pos c4, if_pos c5, if_pos c6, if_neg c7]⟩
  by_cases c8 : 1 ≤ t ∧ t ≤ 4294967295
  case neg => exact .inr ⟨fun h => c8 ⟨h.t_ge, h.t_le⟩,
    by rw [if_pos c1, if_pos c2, if_pos c3, if_pos c4, if_pos c5, if_pos c6, if_pos c7, if_neg c8]⟩
  exact .inl ⟨⟨c1.1, c1.2, c2.2, c3.1, c3.2, fun n hn => (c4 n hn).2, fun n hn => (c5 n hn).2,
    c6.1, c6.2, c7.1, c7.2, c8.1, c8.2⟩,
    by rw [if_pos c1, if_pos c2, if_pos c3, if_pos c4, if_pos c5, if_pos c6, if_pos c7, if_pos c8]⟩

theorem validate_ok_iff (outlen pwdlen saltlen : Nat) (secretlen adlen : Option Nat) (t m p : Nat) :
    validate outlen pwdlen saltlen secretlen adlen t m p = .ok () ↔
      Valid outlen pwdlen saltlen secretlen adlen t m p := by
  rcases validate_cases outlen pwdlen saltlen secretlen adlen t m p with ⟨h, e⟩ | ⟨h, e⟩ <;>
    simp [h, e]

theorem validate_err_iff (outlen pwdlen saltlen : Nat) (secretlen adlen : Option Nat) (t m p : Nat) :
    validate outlen pwdlen saltlen secretlen adlen t m p = .err ↔
      ¬ Valid outlen pwdlen saltlen secretlen adlen t m p := by
  rcases validate_cases outlen pwdlen saltlen secretlen adlen t m p with ⟨h, e⟩ | ⟨h, e⟩ <;>
    simp [h, e]

theorem validate_ne_panic (outlen pwdlen saltlen : Nat) (secretlen adlen : Option Nat) (t m p : Nat) :
    validate outlen pwdlen saltlen secretlen adlen t m p ≠ .panic := by
  rcases validate_cases outlen pwdlen saltlen secretlen adlen t m p with ⟨_, e⟩ | ⟨_, e⟩ <;>
    simp [e]

/-! ### instance geometry -/

/-- the RFC's `m' = 4p⌊max(m, 8p) / 4p⌋` is what `argon2_hash` computes, with segment length
`max(m, 8p) / 4p`, whenever `1 ≤ p < 2^29` and `m < 2^32`: no `u32` overflow. -/
theorem memoryGeometry_ok {m p : Nat} (hp : 1 ≤ p) (hp' : p < 2 ^ 29) (hm : m < 2 ^ 32) :
    memoryGeometry m p = .ok (max m (8 * p) / (4 * p) * (4 * p), max m (8 * p) / (4 * p)) := by
  unfold memoryGeometry
  have e8 : 2 * ARGON2_SYNC_POINTS = 8 := rfl
  have e4 : ARGON2_SYNC_POINTS = 4 := rfl
  rw [e8, e4, mulU32_ok (by omega), ok_bind]
  have hmax : max m (8 * p) < 2 ^ 32 := by omega
  have hmb : (if m < 8 * p then Outcome.ok (8 * p) else pure m) = .ok (max m (8 * p)) := by
    by_cases h : m < 8 * p
    · rw [if_pos h]; congr 1; omega
    · rw [if_neg h, pure_eq]; congr 1; omega
  rw [hmb, ok_bind, mulU32_ok (by omega), ok_bind, divU32_ok (by omega), ok_bind, ok_bind]
  have hd : max m (8 * p) / (p * 4) * (p * 4) ≤ max m (8 * p) := Nat.div_mul_le_self _ _
  rw [mulU32_ok (by omega), ok_bind, pure_eq, Nat.mul_comm p 4]

theorem memoryGeometry_panic_zero (m : Nat) : memoryGeometry m 0 = .panic := by
  unfold memoryGeometry
  simp [mulU32, divU32, U32_eq, ARGON2_SYNC_POINTS]

theorem memoryGeometry_panic_big {m p : Nat} (hp : 2 ^ 29 ≤ p) : memoryGeometry m p = .panic := by
  unfold memoryGeometry
  have e8 : 2 * ARGON2_SYNC_POINTS = 8 := rfl
  rw [e8, mulU32_panic (by omega), panic_bind]

theorem memoryGeometry_panic_iff {m p : Nat} (hm : m < 2 ^ 32) :
    memoryGeometry m p = .panic ↔ p = 0 ∨ 2 ^ 29 ≤ p := by
  constructor
  · intro h
    by_cases h0 : p = 0
    · exact .inl h0
    · by_cases h1 : 2 ^ 29 ≤ p
      · exact .inr h1
      · rw [memoryGeometry_ok (by omega) (by omega) hm] at h; cases h
  · rintro (h | h)
    · subst h; exact memoryGeometry_panic_zero m
    · exact memoryGeometry_panic_big h

/-- segment length facts for `m ≥ 8`, `p ≥ 1` -/
theorem segmentLength_ge_two {m p : Nat} (hp : 1 ≤ p) : 2 ≤ max m (8 * p) / (4 * p) := by
  have : 2 * (4 * p) ≤ max m (8 * p) := by omega
  exact (Nat.le_div_iff_mul_le (by omega)).2 this

theorem memoryBlocks_le {m p : Nat} : max m (8 * p) / (4 * p) * (4 * p) ≤ max m (8 * p) :=
  Nat.div_mul_le_self _ _

/-! ### `index_alpha` -/

/-- the invariants of an `Argon2Instance` built by `argon2_hash` from accepted parameters -/
structure InstInv (inst : Instance) : Prop where
  sl_ge : 2 ≤ inst.segmentLength
  ll_eq : inst.laneLength = 4 * inst.segmentLength
  lanes_ge : 1 ≤ inst.lanes
  mb_eq : inst.memoryBlocks = inst.lanes * inst.laneLength
  mb_lt : inst.memoryBlocks < 2 ^ 32

/-- the positions at which `fill_segment` calls `index_alpha` -/
structure PosInv (inst : Instance) (pos : Position) : Prop where
  slice_lt : pos.slice < 4
  index_lt : pos.index < inst.segmentLength
  first : pos.pass = 0 → pos.slice = 0 → 2 ≤ pos.index

/-- `reference_area_size` as a natural number (truncated subtraction; `refAreaSize_ok` shows
no subtraction truncates) -/
def refAreaSizeN (inst : Instance) (pos : Position) (sameLane : Bool) : Nat :=
  if pos.pass = 0 then
    if pos.slice = 0 then pos.index - 1
    else if sameLane then pos.slice * inst.segmentLength + pos.index - 1
    else if pos.index = 0 then pos.slice * inst.segmentLength - 1
    else pos.slice * inst.segmentLength
  else if sameLane then inst.laneLength - inst.segmentLength + pos.index - 1
  else if pos.index = 0 then inst.laneLength - inst.segmentLength - 1
  else inst.laneLength - inst.segmentLength

/-- `start_position` as a natural number -/
def startPositionN (inst : Instance) (pos : Position) : Nat :=
  if pos.pass ≠ 0 ∧ pos.slice ≠ 3 then (pos.slice + 1) * inst.segmentLength else 0

/-- RFC 9106 §3.4.2 mapping of `J1` into a reference set of size `w` -/
def rfcRelative (w j1 : Nat) : Nat := w - 1 - (w * (j1 * j1 / 2 ^ 32)) / 2 ^ 32

theorem slice_cases {s : Nat} (h : s < 4) : s = 0 ∨ s = 1 ∨ s = 2 ∨ s = 3 := by omega

/-- discharge one checked operation whose side condition is linear arithmetic -/
macro "argon2_ck" : tactic => `(tactic| first
  | rw [subU32_ok (by omega)] | rw [addU32_ok (by omega)] | rw [mulU32_ok (by omega)]
  | rw [ok_bind] | rw [pure_eq])

theorem referenceAreaSize_ok {inst : Instance} {pos : Position} (sameLane : Bool)
    (hsl : 2 ≤ inst.segmentLength) (hll : inst.laneLength = 4 * inst.segmentLength)
    (hlt : inst.laneLength < 2 ^ 32) (hp : PosInv inst pos) :
    referenceAreaSize inst pos sameLane = .ok (refAreaSizeN inst pos sameLane)
      ∧ 1 ≤ refAreaSizeN inst pos sameLane
      ∧ refAreaSizeN inst pos sameLane + 2 ≤ inst.laneLength := by
  obtain ⟨hs, hi, hf⟩ := hp
  have ha1 : pos.slice ≠ 0 → inst.segmentLength ≤ pos.slice * inst.segmentLength :=
    fun h => Nat.le_mul_of_pos_left _ (by omega)
  have ha2 : pos.slice * inst.segmentLength ≤ 3 * inst.segmentLength :=
    Nat.mul_le_mul_right _ (by omega)
  unfold referenceAreaSize refAreaSizeN
  by_cases hp0 : pos.pass = 0
  · by_cases hs0 : pos.slice = 0
    · simp only [hp0, hs0, ↓reduceIte]
      have := hf hp0 hs0
      exact ⟨by repeat argon2_ck, by omega, by omega⟩
    · have := ha1 hs0
      cases sameLane
      · by_cases hi0 : pos.index = 0
        · simp only [hp0, hs0, hi0, ↓reduceIte, Bool.false_eq_true]
          exact ⟨by repeat argon2_ck, by omega, by omega⟩
        · simp only [hp0, hs0, hi0, ↓reduceIte, Bool.false_eq_true]
          exact ⟨by repeat argon2_ck, by omega, by omega⟩
      · simp only [hp0, hs0, ↓reduceIte]
        exact ⟨by repeat argon2_ck, by omega, by omega⟩
  · cases sameLane
    · by_cases hi0 : pos.index = 0
      · simp only [hp0, hi0, ↓reduceIte, Bool.false_eq_true]
        exact ⟨by repeat argon2_ck, by omega, by omega⟩
      · simp only [hp0, hi0, ↓reduceIte, Bool.false_eq_true]
        exact ⟨by repeat argon2_ck, by omega, by omega⟩
    · simp only [hp0, ↓reduceIte]
      exact ⟨by repeat argon2_ck, by omega, by omega⟩

theorem startPosition_ok {inst : Instance} {pos : Position}
    (hlt : 4 * inst.segmentLength < 2 ^ 32) (hs : pos.slice < 4) :
    startPosition inst pos = .ok (startPositionN inst pos)
      ∧ startPositionN inst pos ≤ 3 * inst.segmentLength := by
  have ha2 : (pos.slice + 1) * inst.segmentLength ≤ 4 * inst.segmentLength :=
    Nat.mul_le_mul_right _ (by omega)
  unfold startPosition startPositionN
  have e3 : ARGON2_SYNC_POINTS - 1 = 3 := rfl
  rw [e3]
  by_cases hp0 : pos.pass = 0
  · simp only [hp0, ne_eq, not_true_eq_false, false_and, ↓reduceIte, pure_eq, true_and]; omega
  · by_cases hs3 : pos.slice = 3
    · simp only [hp0, hs3, ne_eq, not_false_eq_true, not_true_eq_false, and_false, ↓reduceIte,
        pure_eq, true_and]; omega
    · simp only [hp0, hs3, ne_eq, not_false_eq_true, and_self, ↓reduceIte]
      have : (pos.slice + 1) * inst.segmentLength ≤ 3 * inst.segmentLength :=
        Nat.mul_le_mul_right _ (by omega)
      exact ⟨by repeat argon2_ck, by omega⟩

/-- `J1 ↦ J1² / 2^32` in `u64` wrapping arithmetic loses nothing -/
theorem wrap_sq {j1 : Nat} (h : j1 < 2 ^ 32) :
    (j1 * j1) % U64 / 2 ^ 32 % U32 = j1 * j1 / 2 ^ 32 ∧ j1 * j1 / 2 ^ 32 < 2 ^ 32 := by
  have h1 : j1 * j1 < 2 ^ 32 * 2 ^ 32 := Nat.mul_lt_mul'' h h
  have h2 : j1 * j1 / 2 ^ 32 < 2 ^ 32 := Nat.div_lt_of_lt_mul h1
  rw [U64_eq, U32_eq, Nat.mod_eq_of_lt (by omega), Nat.mod_eq_of_lt (by omega)]
  exact ⟨rfl, h2⟩

/-- `(w, x) ↦ w·x / 2^32` in `u64` wrapping arithmetic loses nothing, and is `< w` -/
theorem wrap_mul {w x : Nat} (hw : w < 2 ^ 32) (hw0 : 1 ≤ w) (hx : x < 2 ^ 32) :
    (w * x) % U64 / 2 ^ 32 % U32 = w * x / 2 ^ 32 ∧ w * x / 2 ^ 32 < w := by
  have h1 : w * x < 2 ^ 32 * 2 ^ 32 := Nat.mul_lt_mul'' hw hx
  have h2 : w * x / 2 ^ 32 < w := by
    apply Nat.div_lt_of_lt_mul
    rw [Nat.mul_comm (2 ^ 32) w]
    exact Nat.mul_lt_mul_of_pos_left hx (by omega)
  rw [U64_eq, U32_eq, Nat.mod_eq_of_lt (by omega), Nat.mod_eq_of_lt (by omega)]
  exact ⟨rfl, h2⟩

/-- the value `index_alpha` returns -/
def refIndexN (inst : Instance) (pos : Position) (j1 : Nat) (sameLane : Bool) : Nat :=
  (startPositionN inst pos + rfcRelative (refAreaSizeN inst pos sameLane) j1) % inst.laneLength

/-- `index_alpha` does not panic and returns the RFC 9106 §3.4.2 position, provided
`7·segment_length − 3 < 2^32` (see `indexAlpha_overflow_witness` for what happens otherwise). -/
theorem indexAlpha_ok {inst : Instance} {pos : Position} {j1 : Nat} (sameLane : Bool)
    (hsl : 2 ≤ inst.segmentLength) (hll : inst.laneLength = 4 * inst.segmentLength)
    (h7 : 7 * inst.segmentLength < 2 ^ 32 + 3) (hp : PosInv inst pos) (hj : j1 < 2 ^ 32) :
    indexAlpha inst pos j1 sameLane = .ok (refIndexN inst pos j1 sameLane)
      ∧ refIndexN inst pos j1 sameLane < inst.laneLength := by
  have hlt : inst.laneLength < 2 ^ 32 := by omega
  obtain ⟨hw, hw1, hw2⟩ := referenceAreaSize_ok sameLane hsl hll hlt hp
  obtain ⟨hst, hst1⟩ := startPosition_ok (inst := inst) (by omega) hp.slice_lt
  obtain ⟨hx, hx1⟩ := wrap_sq hj
  obtain ⟨hy, hy1⟩ := wrap_mul (w := refAreaSizeN inst pos sameLane) (by omega) hw1 hx1
  refine ⟨?_, Nat.mod_lt _ (by omega)⟩
  unfold indexAlpha refIndexN rfcRelative
  rw [hw, ok_bind]
  simp only []
  rw [hx, hy, subU32_ok hw1, ok_bind, subU32_ok (by omega), ok_bind, hst, ok_bind,
    addU32_ok (by omega), ok_bind, remU32_ok (by omega)]

/-- `index_alpha` computes the reference column of the RFC-structured specification
(`Spec.Argon2.refColumn`), at every position `fill_segment` can call it with: in slice 0 of
pass 0 the reference lane is forced to the current lane, so `same_lane = true` there. -/
theorem refIndexN_eq_spec (inst : Instance) (pos : Position) (j1 : Nat) (sameLane : Bool)
    (c : Spec.Argon2.Params) (hq : c.q = inst.laneLength) (hs : c.sl = inst.segmentLength)
    (hsame : pos.pass = 0 → pos.slice = 0 → sameLane = true) :
    refIndexN inst pos j1 sameLane
      = Spec.Argon2.refColumn c pos.pass pos.slice pos.index sameLane j1 := by
  unfold refIndexN Spec.Argon2.refColumn Spec.Argon2.refAreaSize rfcRelative refAreaSizeN
    startPositionN
  simp only [hq, hs, Spec.Argon2.syncPoints, beq_iff_eq, Bool.or_eq_true]
  by_cases hp0 : pos.pass = 0
  · by_cases hs0 : pos.slice = 0
    · have := hsame hp0 hs0
      subst this
      simp [hp0, hs0]
    · cases sameLane <;> by_cases hi0 : pos.index = 0 <;> simp [hp0, hs0, hi0]
  · by_cases hs3 : pos.slice = 3
    · cases sameLane <;> by_cases hi0 : pos.index = 0 <;> simp [hp0, hs3, hi0]
    · cases sameLane <;> by_cases hi0 : pos.index = 0 <;> simp [hp0, hs3, hi0]

/-- an accepted parameter set (`m = 2^32 − 1`, `p = 1`, i.e. `memlimit ≈ 4 TiB`) whose instance
makes the `u32` sum `start_position + relative_position` of `index_alpha` overflow:
`7·(2^30 − 1) − 3 > 2^32`. -/
def bigInst : Instance :=
  { passes := 2, memoryBlocks := 2 ^ 32 - 4, segmentLength := 2 ^ 30 - 1, laneLength := 2 ^ 32 - 4,
    lanes := 1, ty := 2 }

theorem bigInst_geometry : memoryGeometry (2 ^ 32 - 1) 1 = .ok (2 ^ 32 - 4, 2 ^ 30 - 1) := by decide

theorem indexAlpha_overflow_witness :
    indexAlpha bigInst { pass := 1, lane := 0, slice := 2, index := 2 ^ 30 - 2 } 0 true = .panic := by
  decide

/-! ### the offsets of `fill_segment` -/

/-- `curr_offset` at iteration `i` -/
def currAt (inst : Instance) (pos : Position) (i : Nat) : Nat :=
  pos.lane * inst.laneLength + pos.slice * inst.segmentLength + i

/-- `prev_offset` (after the fix-up) at iteration `i`: the block before `currAt` in the same
lane, cyclically -/
def prevAt (inst : Instance) (pos : Position) (i : Nat) : Nat :=
  pos.lane * inst.laneLength +
    (if pos.slice * inst.segmentLength + i = 0 then inst.laneLength - 1
     else pos.slice * inst.segmentLength + i - 1)

/-- loop invariant of `fill_segment` at the head of iteration `i` (before the fix-up):
`prev_offset` is stale exactly at the second block of a lane, where the fix-up repairs it -/
def OffInv (inst : Instance) (pos : Position) (i curr prev : Nat) : Prop :=
  curr = currAt inst pos i ∧
    (pos.slice * inst.segmentLength + i ≠ 1 → prev = prevAt inst pos i)

/-- facts about a segment `(lane, slice)` of a well-formed instance, in linear form -/
structure SegFacts (inst : Instance) (pos : Position) : Prop where
  lane_le : pos.lane * inst.laneLength + inst.laneLength ≤ inst.memoryBlocks
  slice0 : pos.slice = 0 → pos.slice * inst.segmentLength = 0
  slice_ge : pos.slice ≠ 0 → inst.segmentLength ≤ pos.slice * inst.segmentLength
  slice_le : pos.slice * inst.segmentLength + inst.segmentLength ≤ inst.laneLength

theorem segFacts {inst : Instance} {pos : Position} (hI : InstInv inst)
    (hl : pos.lane < inst.lanes) (hs : pos.slice < 4) : SegFacts inst pos := by
  obtain ⟨h1, h2, h3, h4, h5⟩ := hI
  refine ⟨?_, ?_, ?_, ?_⟩
  · have : (pos.lane + 1) * inst.laneLength ≤ inst.lanes * inst.laneLength :=
      Nat.mul_le_mul_right _ hl
    rw [Nat.add_mul, Nat.one_mul] at this
    omega
  · intro h; rw [h, Nat.zero_mul]
  · intro h; exact Nat.le_mul_of_pos_left _ (by omega)
  · have : (pos.slice + 1) * inst.segmentLength ≤ 4 * inst.segmentLength :=
      Nat.mul_le_mul_right _ hs
    rw [Nat.add_mul, Nat.one_mul] at this
    omega

theorem currAt_mod {inst : Instance} {pos : Position} {i : Nat}
    (h : pos.slice * inst.segmentLength + i < inst.laneLength) :
    currAt inst pos i % inst.laneLength = pos.slice * inst.segmentLength + i := by
  unfold currAt
  rw [Nat.add_assoc, Nat.mul_add_mod', Nat.mod_eq_of_lt h]

/-- `prevAt` is the cyclic predecessor of `currAt` within the lane -/
theorem prevAt_cyclic {inst : Instance} {pos : Position} {i : Nat}
    (h : pos.slice * inst.segmentLength + i < inst.laneLength) :
    prevAt inst pos i = pos.lane * inst.laneLength
      + (pos.slice * inst.segmentLength + i + inst.laneLength - 1) % inst.laneLength := by
  unfold prevAt
  by_cases h0 : pos.slice * inst.segmentLength + i = 0
  · rw [if_pos h0, h0, Nat.zero_add, Nat.mod_eq_of_lt (by omega)]
  · rw [if_neg h0]
    have : pos.slice * inst.segmentLength + i + inst.laneLength - 1
        = (pos.slice * inst.segmentLength + i - 1) + inst.laneLength := by omega
    rw [this, Nat.add_mod_right, Nat.mod_eq_of_lt (by omega)]

theorem startingIndex_le (pos : Position) : startingIndex pos ≤ 2 := by
  unfold startingIndex; split <;> omega

/-- the initial offsets are computed without overflow / underflow and establish the invariant -/
theorem initialOffsets_ok {inst : Instance} {pos : Position} (hI : InstInv inst)
    (hl : pos.lane < inst.lanes) (hs : pos.slice < 4) :
    ∃ curr prev, initialOffsets inst pos = .ok (curr, prev)
      ∧ OffInv inst pos (startingIndex pos) curr prev := by
  obtain ⟨f1, f2, f3, f4⟩ := segFacts hI hl hs
  obtain ⟨h1, h2, h3, h4, h5⟩ := hI
  have hst := startingIndex_le pos
  have hst0 : pos.slice ≠ 0 → startingIndex pos = 0 := by
    intro h; unfold startingIndex; rw [if_neg (by intro ⟨_, h'⟩; exact h h')]
  have hmod := currAt_mod (inst := inst) (pos := pos) (i := startingIndex pos) (by
    by_cases h : pos.slice = 0
    · have := f2 h; omega
    · have := hst0 h; omega)
  unfold initialOffsets
  rw [mulU32_ok (by omega), ok_bind, mulU32_ok (by omega), ok_bind, addU32_ok (by omega), ok_bind,
    addU32_ok (by omega), ok_bind, remU32_ok (by omega), ok_bind]
  have hc : pos.lane * inst.laneLength + pos.slice * inst.segmentLength + startingIndex pos
      = currAt inst pos (startingIndex pos) := rfl
  rw [hc, hmod]
  by_cases h0 : pos.slice * inst.segmentLength + startingIndex pos = 0
  · rw [if_pos h0, addU32_ok (by unfold currAt; omega), ok_bind, subU32_ok (by omega), ok_bind, pure_eq]
    refine ⟨_, _, rfl, rfl, fun _ => ?_⟩
    unfold prevAt currAt
    rw [if_pos h0]; omega
  · rw [if_neg h0, subU32_ok (by unfold currAt; omega), ok_bind, pure_eq]
    refine ⟨_, _, rfl, rfl, fun _ => ?_⟩
    unfold prevAt currAt
    rw [if_neg h0]; omega

theorem currAt_lt {inst : Instance} {pos : Position} {i : Nat} (hI : InstInv inst)
    (hl : pos.lane < inst.lanes) (hs : pos.slice < 4) (hi : i < inst.segmentLength) :
    currAt inst pos i < inst.memoryBlocks := by
  obtain ⟨f1, f2, f3, f4⟩ := segFacts hI hl hs
  unfold currAt; omega

theorem prevAt_lt {inst : Instance} {pos : Position} {i : Nat} (hI : InstInv inst)
    (hl : pos.lane < inst.lanes) (hs : pos.slice < 4) (hi : i < inst.segmentLength) :
    prevAt inst pos i < inst.memoryBlocks := by
  obtain ⟨f1, f2, f3, f4⟩ := segFacts hI hl hs
  have := hI.sl_ge; have := hI.ll_eq
  unfold prevAt; split <;> omega

/-- the fix-up never underflows and yields the cyclic predecessor -/
theorem fixPrevOffset_ok {inst : Instance} {pos : Position} {i curr prev : Nat} (hI : InstInv inst)
    (hl : pos.lane < inst.lanes) (hs : pos.slice < 4) (hi : i < inst.segmentLength)
    (hinv : OffInv inst pos i curr prev) :
    fixPrevOffset inst curr prev = .ok (prevAt inst pos i) := by
  obtain ⟨f1, f2, f3, f4⟩ := segFacts hI hl hs
  obtain ⟨h1, h2, h3, h4, h5⟩ := hI
  obtain ⟨hc, hp⟩ := hinv
  subst hc
  unfold fixPrevOffset
  rw [remU32_ok (by omega), ok_bind, currAt_mod (by omega)]
  by_cases h : pos.slice * inst.segmentLength + i = 1
  · rw [if_pos h, subU32_ok (by unfold currAt; omega)]
    unfold prevAt currAt
    rw [if_neg (by omega)]; congr 1; omega
  · rw [if_neg h, pure_eq, hp h]

/-- `curr_offset += 1; prev_offset += 1` re-establish the invariant -/
theorem offInv_step {inst : Instance} {pos : Position} {i : Nat} (hI : InstInv inst)
    (hl : pos.lane < inst.lanes) (hs : pos.slice < 4) (hi : i < inst.segmentLength) :
    currAt inst pos i + 1 < 2 ^ 32 ∧ prevAt inst pos i + 1 < 2 ^ 32 ∧
      OffInv inst pos (i + 1) (currAt inst pos i + 1) (prevAt inst pos i + 1) := by
  have hc := currAt_lt hI hl hs hi
  have hp := prevAt_lt hI hl hs hi
  obtain ⟨f1, f2, f3, f4⟩ := segFacts hI hl hs
  obtain ⟨h1, h2, h3, h4, h5⟩ := hI
  refine ⟨by omega, by omega, by unfold currAt; omega, fun hne => ?_⟩
  unfold prevAt
  rw [if_neg (by omega)]
  split <;> omega

/-! ### one iteration of `fill_segment` -/

/-- the `pseudo_rand` of iteration `i` -/
def pseudoRandAt (dia : Bool) (pr : Array UInt64) (mem : Array Block) (prev i : Nat) : UInt64 :=
  if dia then pr[i]! else (mem[prev]!)[0]!

/-- the `ref_lane` of an iteration with pseudo-random word `w` -/
def refLaneN (inst : Instance) (pos : Position) (w : UInt64) : Nat :=
  if pos.pass = 0 ∧ pos.slice = 0 then pos.lane else w.toNat / 2 ^ 32 % inst.lanes

/-- the memory after iteration `i` of `fill_segment`, as a pure function -/
def stepMem (inst : Instance) (pos : Position) (dia : Bool) (pr : Array UInt64) (i : Nat)
    (mem : Array Block) : Array Block :=
  let prev := prevAt inst pos i
  let curr := currAt inst pos i
  let w := pseudoRandAt dia pr mem prev i
  let refLane := refLaneN inst pos w
  let refIndex := refIndexN inst { pos with index := i } (w.toNat % 2 ^ 32) (refLane == pos.lane)
  mem.set! curr
    (fillBlock mem[prev]! mem[inst.laneLength * refLane + refIndex]! mem[curr]! (pos.pass != 0))

theorem stepMem_size (inst : Instance) (pos : Position) (dia : Bool) (pr : Array UInt64) (i : Nat)
    (mem : Array Block) : (stepMem inst pos dia pr i mem).size = mem.size := by
  simp [stepMem, Array.set!_eq_setIfInBounds]

theorem refLaneN_lt {inst : Instance} {pos : Position} (w : UInt64) (hI : InstInv inst)
    (hl : pos.lane < inst.lanes) : refLaneN inst pos w < inst.lanes := by
  unfold refLaneN
  split
  · exact hl
  · exact Nat.mod_lt _ (by have := hI.lanes_ge; omega)

/-- One iteration of the loop of `fill_segment` never panics: every offset is in range, no
`u32`/`u64` operation overflows or underflows, and the result is `stepMem`. -/
theorem fillSegmentStep_ok {inst : Instance} {pos : Position} {dia : Bool} {pr : Array UInt64}
    {i curr prev : Nat} {mem : Array Block}
    (hI : InstInv inst) (h7 : 7 * inst.segmentLength < 2 ^ 32 + 3)
    (hl : pos.lane < inst.lanes) (hs : pos.slice < 4)
    (hi0 : startingIndex pos ≤ i) (hi : i < inst.segmentLength)
    (hmem : mem.size = inst.memoryBlocks) (hpr : dia = true → pr.size = inst.segmentLength)
    (hinv : OffInv inst pos i curr prev) :
    fillSegmentStep inst pos dia pr i (curr, prev, mem)
      = .ok (currAt inst pos i + 1, prevAt inst pos i + 1, stepMem inst pos dia pr i mem) := by
  have hc := currAt_lt hI hl hs hi
  have hp := prevAt_lt hI hl hs hi
  obtain ⟨hc1, hp1, _⟩ := offInv_step hI hl hs hi
  have hfix := fixPrevOffset_ok hI hl hs hi hinv
  have hcurr : curr = currAt inst pos i := hinv.1
  subst hcurr
  have hposInv : PosInv inst { pos with index := i } := by
    refine ⟨hs, hi, fun h1 h2 => ?_⟩
    have : startingIndex pos = 2 := by unfold startingIndex; rw [if_pos ⟨h1, h2⟩]
    show 2 ≤ i
    omega
  -- the pseudo-random word
  have hw : (if dia = true then getWord pr i
      else do let b ← getBlock mem (prevAt inst pos i); pure b[0]!)
      = .ok (pseudoRandAt dia pr mem (prevAt inst pos i) i) := by
    unfold pseudoRandAt
    cases dia
    · simp only [Bool.false_eq_true, ↓reduceIte]
      rw [getBlock_ok (by omega), ok_bind, pure_eq]
    · simp only [↓reduceIte]
      rw [getWord_ok (by have := hpr rfl; omega)]
  generalize hwdef : pseudoRandAt dia pr mem (prevAt inst pos i) i = w at hw
  have hlane : (if pos.pass = 0 ∧ pos.slice = 0 then pure pos.lane
      else remU64 (w.toNat / 2 ^ 32) inst.lanes) = .ok (refLaneN inst pos w) := by
    unfold refLaneN
    split
    · rfl
    · rw [remU64_ok (by have := hI.lanes_ge; omega)]
  have hrl := refLaneN_lt w hI hl
  generalize hrldef : refLaneN inst pos w = refLane at hlane hrl
  have hj : w.toNat % 2 ^ 32 < 2 ^ 32 := Nat.mod_lt _ (by decide)
  obtain ⟨hia, hia1⟩ := indexAlpha_ok (inst := inst) (pos := { pos with index := i })
    (j1 := w.toNat % 2 ^ 32) (refLane == pos.lane) hI.sl_ge hI.ll_eq h7 hposInv hj
  generalize hridef : refIndexN inst { pos with index := i } (w.toNat % 2 ^ 32) (refLane == pos.lane)
    = refIndex at hia hia1
  have hprod : inst.laneLength * refLane + inst.laneLength ≤ inst.memoryBlocks := by
    have : inst.laneLength * (refLane + 1) ≤ inst.laneLength * inst.lanes :=
      Nat.mul_le_mul_left _ hrl
    rw [Nat.mul_add, Nat.mul_one, Nat.mul_comm inst.laneLength inst.lanes, ← hI.mb_eq] at this
    exact this
  have hmb := hI.mb_lt
  unfold fillSegmentStep
  simp only []
  rw [hfix, ok_bind, hw, ok_bind, hlane, ok_bind, hia, ok_bind, getBlock_ok (by omega), ok_bind,
    mulU64_ok (by omega), ok_bind, addU64_ok (by omega), ok_bind, getBlock_ok (by omega), ok_bind,
    getBlock_ok (by omega), ok_bind, setBlock_ok _ (by omega), ok_bind, addU32_ok hc1, ok_bind,
    addU32_ok hp1, ok_bind, pure_eq]
  unfold stepMem
  simp only [hwdef, hrldef, hridef]

/-! ### arrays -/

theorem getBang_setBang_self {α} [Inhabited α] {a : Array α} {i : Nat} (v : α) (h : i < a.size) :
    (a.set! i v)[i]! = v := by
  rw [getElem!_def, Array.set!_eq_setIfInBounds, Array.getElem?_setIfInBounds_self, if_pos h]

theorem getBang_setBang_ne {α} [Inhabited α] {a : Array α} {i j : Nat} (v : α) (h : i ≠ j) :
    (a.set! i v)[j]! = a[j]! := by
  rw [getElem!_def, getElem!_def, Array.set!_eq_setIfInBounds, Array.getElem?_setIfInBounds_ne h]

@[simp] theorem size_setBang {α} {a : Array α} {i : Nat} (v : α) : (a.set! i v).size = a.size := by
  rw [Array.set!_eq_setIfInBounds, Array.size_setIfInBounds]

@[simp] theorem xorBlock_size (x y : Block) : (xorBlock x y).size = 128 := by
  simp [xorBlock, ARGON2_QWORDS_IN_BLOCK]

@[simp] theorem fillBlock_size (p r n : Block) (b : Bool) : (fillBlock p r n b).size = 128 := by
  simp [fillBlock]

@[simp] theorem zeroBlock_size : zeroBlock.size = 128 := by simp [zeroBlock, ARGON2_QWORDS_IN_BLOCK]

/-- `forRange` from 0 of an always-succeeding body is a `Nat.fold` -/
theorem forRange_zero_eq_fold {σ : Type} (f : Nat → σ → Outcome σ) (g : Nat → σ → σ)
    (Inv : Nat → σ → Prop) (n : Nat) (s : σ) (h0 : Inv 0 s)
    (hstep : ∀ i s, i < n → Inv i s → f i s = .ok (g i s) ∧ Inv (i + 1) (g i s)) :
    forRange f 0 n s = .ok (Nat.fold n (fun k _ s => g k s) s)
      ∧ Inv n (Nat.fold n (fun k _ s => g k s) s) := by
  have := forRange_eq_fold f g Inv n 0 s h0 (fun i s _ hi => hstep i s (by omega))
  simpa only [Nat.zero_add] using this

/-! ### `generate_addresses` -/

theorem zeroBlock_get (k : Nat) : zeroBlock[k]! = 0 := by
  rw [getElem!_def, zeroBlock, Array.getElem?_replicate]
  by_cases h : k < ARGON2_QWORDS_IN_BLOCK
  · rw [if_pos h]
  · rw [if_neg h]; rfl

/-- one iteration of the loop of `generate_addresses`, as a pure function -/
def genStep (i : Nat) (st : Block × Block × Array UInt64) : Block × Block × Array UInt64 :=
  let ib := if i % 128 = 0 then st.1.set! 6 (UInt64.ofNat ((st.1[6]!).toNat + 1)) else st.1
  let ab := if i % 128 = 0 then
      fillBlock zeroBlock (fillBlock zeroBlock ib zeroBlock true) zeroBlock true
    else st.2.1
  (ib, ab, st.2.2.set! i ab[i % 128]!)

/-- the `pseudo_rands` vector after `generate_addresses` -/
def genAddrN (inst : Instance) (pos : Position) (pr : Array UInt64) : Array UInt64 :=
  (Nat.fold inst.segmentLength (fun k _ s => genStep k s) (inputBlock0 inst pos, zeroBlock, pr)).2.2

/-- `generate_addresses` never panics: the `u64` counter `input_block.v[6]` stays `≤ i`, the
writes to `pseudo_rands` are in bounds -/
theorem generateAddresses_ok (inst : Instance) (pos : Position) (pr : Array UInt64)
    (hsl : inst.segmentLength < 2 ^ 32) (hpr : pr.size = inst.segmentLength) :
    generateAddresses inst pos pr = .ok (genAddrN inst pos pr)
      ∧ (genAddrN inst pos pr).size = inst.segmentLength := by
  have key := forRange_zero_eq_fold generateAddressesStep genStep
    (fun i st => st.1.size = 128 ∧ (st.1[6]!).toNat ≤ i ∧ st.2.2.size = inst.segmentLength)
    inst.segmentLength (inputBlock0 inst pos, zeroBlock, pr)
    (by
      refine ⟨by simp [inputBlock0], ?_, hpr⟩
      simp only [inputBlock0]
      rw [getBang_setBang_ne _ (by decide), getBang_setBang_ne _ (by decide),
        getBang_setBang_ne _ (by decide), getBang_setBang_ne _ (by decide),
        getBang_setBang_ne _ (by decide), getBang_setBang_ne _ (by decide), zeroBlock_get]
      exact Nat.le_refl 0)
    (by
      rintro i ⟨ib, ab, pr'⟩ hi ⟨h1, h2, h3⟩
      simp only [] at h1 h2 h3
      have e128 : ARGON2_ADDRESSES_IN_BLOCK = 128 := rfl
      have e64 : UInt64.size = 2 ^ 64 := rfl
      unfold generateAddressesStep genStep
      simp only [e128]
      by_cases hm : i % 128 = 0
      · simp only [hm, ↓reduceIte]
        rw [addU64_ok (by omega), ok_bind]
        simp only [pure_eq, ok_bind]
        rw [setWord_ok _ (by omega), ok_bind]
        refine ⟨rfl, by simp [h1], ?_, by simp [h3]⟩
        rw [getBang_setBang_self _ (by omega)]
        show (UInt64.ofNat (ib[6]!.toNat + 1)).toNat ≤ i + 1
        rw [UInt64.toNat_ofNat_of_lt' (by omega)]
        omega
      · simp only [hm, ↓reduceIte, pure_eq, ok_bind]
        rw [setWord_ok _ (by omega), ok_bind]
        exact ⟨rfl, h1, by omega, by simp [h3]⟩)
  refine ⟨?_, key.2.2.2⟩
  unfold generateAddresses genAddrN forLoop
  rw [Nat.sub_zero, key.1, ok_bind, pure_eq]

/-! ### `fill_segment`, `argon2_fill_memory_blocks` -/

/-- `forRange` whose state projects (via `π`) onto a component evolving by a pure step `g` -/
theorem forRange_proj {σ τ : Type} (f : Nat → σ → Outcome σ) (π : σ → τ) (g : Nat → τ → τ)
    (Inv : Nat → σ → Prop) (n a : Nat) (s : σ) (h0 : Inv a s)
    (hstep : ∀ i s, a ≤ i → i < a + n → Inv i s →
      ∃ s', f i s = .ok s' ∧ π s' = g i (π s) ∧ Inv (i + 1) s') :
    ∃ s', forRange f a n s = .ok s' ∧ π s' = Nat.fold n (fun k _ t => g (a + k) t) (π s)
      ∧ Inv (a + n) s' := by
  have := forRange_inv f
    (fun i s' => a ≤ i ∧ Inv i s' ∧ π s' = Nat.fold (i - a) (fun k _ t => g (a + k) t) (π s))
    n a s ⟨Nat.le_refl _, h0, by rw [Nat.sub_self]; rfl⟩
    (by
      rintro i s1 hi hlt ⟨_, hinv, hπ⟩
      obtain ⟨s2, h1, h2, h3⟩ := hstep i s1 hi hlt hinv
      refine ⟨s2, h1, by omega, h3, ?_⟩
      have e : i + 1 - a = (i - a) + 1 := by omega
      rw [h2, e, Nat.fold_succ, ← hπ]
      have : a + (i - a) = i := by omega
      rw [this])
  obtain ⟨s', h1, _, h2, h3⟩ := this
  refine ⟨s', h1, ?_, h2⟩
  rw [h3]
  have : a + n - a = n := by omega
  rw [this]

/-- `fill_segment` as a pure function on `(memory, pseudo_rands)` -/
def fillSegmentN (inst : Instance) (pos : Position) (st : Array Block × Array UInt64) :
    Array Block × Array UInt64 :=
  let dia := dataIndependentAddressing inst pos
  let pr := if dia = true then genAddrN inst pos st.2 else st.2
  (Nat.fold (inst.segmentLength - startingIndex pos)
    (fun k _ mem => stepMem inst pos dia pr (startingIndex pos + k) mem) st.1, pr)

theorem fold_size_inv {α : Type} (g : Nat → Array α → Array α) (hg : ∀ k m, (g k m).size = m.size)
    (n : Nat) (m : Array α) : (Nat.fold n (fun k _ m => g k m) m).size = m.size := by
  induction n with
  | zero => rfl
  | succ n ih => rw [Nat.fold_succ, hg, ih]

/-- `fill_segment` never panics on a well-formed instance -/
theorem fillSegment_ok {inst : Instance} {pos : Position} {st : Array Block × Array UInt64}
    (hI : InstInv inst) (h7 : 7 * inst.segmentLength < 2 ^ 32 + 3)
    (hl : pos.lane < inst.lanes) (hs : pos.slice < 4)
    (hmem : st.1.size = inst.memoryBlocks) (hpr : st.2.size = inst.segmentLength) :
    fillSegment inst pos st = .ok (fillSegmentN inst pos st)
      ∧ (fillSegmentN inst pos st).1.size = inst.memoryBlocks
      ∧ (fillSegmentN inst pos st).2.size = inst.segmentLength := by
  obtain ⟨mem, pr0⟩ := st
  simp only [] at hmem hpr
  have hsl32 : inst.segmentLength < 2 ^ 32 := by omega
  obtain ⟨hga, hgas⟩ := generateAddresses_ok inst pos pr0 hsl32 hpr
  have hprs : (if dataIndependentAddressing inst pos = true then genAddrN inst pos pr0 else pr0).size
      = inst.segmentLength := by split <;> assumption
  have hpr' : (if dataIndependentAddressing inst pos = true then generateAddresses inst pos pr0
      else pure pr0) = .ok (if dataIndependentAddressing inst pos = true then genAddrN inst pos pr0
        else pr0) := by
    split
    · exact hga
    · rfl
  obtain ⟨c0, p0, hoff, hinv0⟩ := initialOffsets_ok hI hl hs
  generalize hprdef : (if dataIndependentAddressing inst pos = true then genAddrN inst pos pr0
      else pr0) = pr at hprs hpr'
  obtain ⟨s', hrun, hproj, _⟩ := forRange_proj
    (fillSegmentStep inst pos (dataIndependentAddressing inst pos) pr)
    (fun s => s.2.2)
    (fun i mem => stepMem inst pos (dataIndependentAddressing inst pos) pr i mem)
    (fun i s => OffInv inst pos i s.1 s.2.1 ∧ s.2.2.size = inst.memoryBlocks)
    (inst.segmentLength - startingIndex pos) (startingIndex pos) (c0, p0, mem) ⟨hinv0, hmem⟩
    (by
      rintro i ⟨c, p, m⟩ hi hlt ⟨hoi, hm⟩
      simp only [] at hoi hm
      have hi' : i < inst.segmentLength := by omega
      refine ⟨_, fillSegmentStep_ok hI h7 hl hs hi hi' hm (fun _ => hprs) hoi, rfl, ?_, ?_⟩
      · exact (offInv_step hI hl hs hi').2.2
      · simp only [stepMem_size]; exact hm)
  refine ⟨?_, ?_, ?_⟩
  · unfold fillSegment fillSegmentN forLoop
    simp only []
    rw [hpr', ok_bind, hoff, ok_bind, hrun, ok_bind, pure_eq, hproj, hprdef]
  · unfold fillSegmentN
    simp only []
    rw [fold_size_inv (fun k m => stepMem inst pos _ _ (startingIndex pos + k) m)
      (fun k m => stepMem_size _ _ _ _ _ _)]
    exact hmem
  · unfold fillSegmentN
    simp only [hprdef]; exact hprs

/-- `argon2_fill_memory_blocks` as a pure function -/
def fillMemoryBlocksN (inst : Instance) (pass : Nat) (st : Array Block × Array UInt64) :
    Array Block × Array UInt64 :=
  Nat.fold 4 (fun s _ st =>
    Nat.fold inst.lanes (fun l _ st =>
      fillSegmentN inst { pass := pass, lane := l, slice := s, index := 0 } st) st) st

/-- the sizes of the two vectors -/
def SizeInv (inst : Instance) (st : Array Block × Array UInt64) : Prop :=
  st.1.size = inst.memoryBlocks ∧ st.2.size = inst.segmentLength

theorem fillMemoryBlocks_ok {inst : Instance} (pass : Nat) {st : Array Block × Array UInt64}
    (hI : InstInv inst) (h7 : 7 * inst.segmentLength < 2 ^ 32 + 3) (hst : SizeInv inst st) :
    fillMemoryBlocks inst pass st = .ok (fillMemoryBlocksN inst pass st)
      ∧ SizeInv inst (fillMemoryBlocksN inst pass st) := by
  unfold fillMemoryBlocks fillMemoryBlocksN forLoop
  have e4 : ARGON2_SYNC_POINTS - 0 = 4 := rfl
  rw [e4]
  exact forRange_zero_eq_fold _ _ (fun _ st => SizeInv inst st) 4 st hst (by
    intro s st hs hst
    rw [Nat.sub_zero]
    exact forRange_zero_eq_fold _ _ (fun _ st => SizeInv inst st) inst.lanes st hst (by
      intro l st hl hst
      obtain ⟨h1, h2, h3⟩ := fillSegment_ok (pos := { pass := pass, lane := l, slice := s, index := 0 })
        hI h7 hl hs hst.1 hst.2
      exact ⟨h1, h2, h3⟩))

/-! ### `longhash` -/

/-- The arithmetic of `longhash` for `outlen > 64`, in `usize`: with `outlen' = outlen − 32`,
`chunk_count` is `⌈outlen/32⌉ − 3` (one less than the RFC's `r = ⌈outlen/32⌉ − 2`, the first
32-byte piece being written before the loop), neither `− 2` nor `− 1` underflows, and the last
piece has `outlen − 32·r ∈ (32, 64]` bytes. -/
theorem longhash_arith (outlen : Nat) (h : 64 < outlen) :
    let outlen' := outlen - 32
    let chunkCount := if outlen' % 32 = 0 then outlen' / 32 - 2 else outlen' / 32 - 1
    let r := (outlen + 31) / 32 - 2
    32 ≤ outlen ∧ (outlen' % 32 = 0 → 2 ≤ outlen' / 32) ∧ (outlen' % 32 ≠ 0 → 1 ≤ outlen' / 32)
      ∧ chunkCount + 1 = r ∧ chunkCount * 32 ≤ outlen'
      ∧ outlen' - chunkCount * 32 = outlen - 32 * r
      ∧ 32 < outlen - 32 * r ∧ outlen - 32 * r ≤ 64 := by
  intro outlen' chunkCount r
  simp only [outlen', chunkCount, r]
  split <;> omega

theorem longhashChunks_eq (n L : Nat) (v : Bytes) :
    (longhashChunks n v).1 ++ Spec.Blake2b.hash L [] (longhashChunks n v).2
      = Spec.Argon2.hprimeChain n L v := by
  induction n generalizing v with
  | zero => simp [longhashChunks, Spec.Argon2.hprimeChain]
  | succ n ih =>
    simp only [longhashChunks, Spec.Argon2.hprimeChain, List.append_assoc]
    rw [ih]

/-- `blake2b::longhash` neither panics nor errs for `4 < outlen < u32::MAX`, and is the RFC's `H'` -/
theorem longhash_eq_hprime {outlen : Nat} (inp : Bytes) (h4 : 4 < outlen) (hmax : outlen < 0xFFFFFFFF) :
    longhash outlen inp = .ok (Spec.Argon2.hprime outlen inp) := by
  unfold longhash Spec.Argon2.hprime Spec.Argon2.le32
  rw [if_neg (by omega), if_neg (by omega)]
  by_cases h64 : outlen ≤ 64
  · simp only [h64, ↓reduceIte]
  · simp only [h64, ↓reduceIte]
    obtain ⟨a1, a2, a3, a4, a5, a6, a7, a8⟩ := longhash_arith outlen (by omega)
    rw [subUsize_ok a1, ok_bind]
    by_cases hm : (outlen - 32) % 32 = 0
    · simp only [hm, ↓reduceIte] at a4 a5 a6 ⊢
      rw [subUsize_ok (a2 hm), ok_bind, subUsize_ok a5, ok_bind]
      unfold blake2bHash
      rw [if_neg (by omega), if_neg (by omega), ok_bind, pure_eq, List.append_assoc,
        longhashChunks_eq, a6]
      have : (outlen + 31) / 32 - 2 - 1 = (outlen - 32) / 32 - 2 := by omega
      rw [this]
    · simp only [hm, ↓reduceIte] at a4 a5 a6 ⊢
      rw [subUsize_ok (a3 hm), ok_bind, subUsize_ok a5, ok_bind]
      unfold blake2bHash
      rw [if_neg (by omega), if_neg (by omega), ok_bind, pure_eq, List.append_assoc,
        longhashChunks_eq, a6]
      have : (outlen + 31) / 32 - 2 - 1 = (outlen - 32) / 32 - 1 := by omega
      rw [this]

/-- what `longhash` does outside `4 < outlen < u32::MAX`: the two `assert!`s -/
theorem longhash_panic {outlen : Nat} (inp : Bytes) (h : outlen ≤ 4 ∨ 0xFFFFFFFF ≤ outlen) :
    longhash outlen inp = .panic := by
  unfold longhash
  rcases h with h | h
  · rw [if_pos (by omega)]
  · by_cases h4 : ¬ outlen > 4
    · rw [if_pos h4]
    · rw [if_neg h4, if_pos (by omega)]

/-! ### `argon2_fill_first_blocks`, `argon2_finalize`, `argon2_hash` -/

theorem lane_le_mem {inst : Instance} {l : Nat} (hI : InstInv inst) (hl : l < inst.lanes) :
    l * inst.laneLength + inst.laneLength ≤ inst.memoryBlocks :=
  (segFacts (pos := { pass := 0, lane := l, slice := 0, index := 0 }) hI hl (Nat.zero_lt_succ 3)).lane_le

/-- loop body of `argon2_fill_first_blocks` as a pure function -/
def firstBlocksStepN (inst : Instance) (l : Nat) (st : Bytes × Array Block) : Bytes × Array Block :=
  let bh0 := copyInto (copyInto st.1 64 [0, 0, 0, 0]) 68 (store32 l)
  let mem := st.2.set! (l * inst.laneLength) (loadBlock (Spec.Argon2.hprime 1024 bh0))
  let bh1 := copyInto bh0 64 [1, 0, 0, 0]
  (bh1, mem.set! (l * inst.laneLength + 1) (loadBlock (Spec.Argon2.hprime 1024 bh1)))

def fillFirstBlocksN (blockhash : Bytes) (inst : Instance) (mem : Array Block) : Array Block :=
  (Nat.fold inst.lanes (fun l _ st => firstBlocksStepN inst l st) (blockhash, mem)).2

theorem fillFirstBlocks_ok {inst : Instance} (blockhash : Bytes) {mem : Array Block}
    (hI : InstInv inst) (hmem : mem.size = inst.memoryBlocks) :
    fillFirstBlocks blockhash inst mem = .ok (fillFirstBlocksN blockhash inst mem)
      ∧ (fillFirstBlocksN blockhash inst mem).size = inst.memoryBlocks := by
  have key := forRange_zero_eq_fold (fillFirstBlocksStep inst) (firstBlocksStepN inst)
    (fun _ st => st.2.size = inst.memoryBlocks) inst.lanes (blockhash, mem) hmem (by
      rintro l ⟨bh, m⟩ hl hm
      simp only [] at hm
      have f := lane_le_mem hI hl
      have := hI.sl_ge; have := hI.ll_eq; have := hI.mb_lt
      unfold fillFirstBlocksStep firstBlocksStepN
      have e64 : ARGON2_PREHASH_DIGEST_LENGTH = 64 := rfl
      have e1024 : ARGON2_BLOCK_SIZE = 1024 := rfl
      simp only [e64, e1024, Nat.reduceAdd]
      rw [longhash_eq_hprime _ (by decide) (by decide), ok_bind, mulU32_ok (by omega), ok_bind,
        setBlock_ok _ (by omega), ok_bind, longhash_eq_hprime _ (by decide) (by decide), ok_bind,
        ok_bind, addU32_ok (by omega), ok_bind,
        setBlock_ok _ (by rw [size_setBang]; omega), ok_bind, pure_eq]
      exact ⟨rfl, by simp [hm]⟩)
  refine ⟨?_, key.2⟩
  unfold fillFirstBlocks fillFirstBlocksN forLoop
  rw [Nat.sub_zero, key.1, ok_bind, pure_eq]

/-- XOR of the last blocks of all lanes, as `argon2_finalize` computes it -/
def finalBlockN (inst : Instance) (mem : Array Block) : Block :=
  Nat.fold (inst.lanes - 1)
    (fun k _ acc => xorBlock acc mem[(1 + k) * inst.laneLength + (inst.laneLength - 1)]!)
    mem[inst.laneLength - 1]!

theorem finalize_ok {inst : Instance} {outlen : Nat} {mem : Array Block} (hI : InstInv inst)
    (hmem : mem.size = inst.memoryBlocks) (h4 : 4 < outlen) (hmax : outlen < 0xFFFFFFFF) :
    finalize outlen inst mem = .ok (Spec.Argon2.hprime outlen (storeBlock (finalBlockN inst mem))) := by
  have hsl := hI.sl_ge; have hll := hI.ll_eq; have hmb := hI.mb_lt; have hlanes := hI.lanes_ge
  have hl0 := lane_le_mem (l := 0) hI (by omega)
  simp only [Nat.zero_mul, Nat.zero_add] at hl0
  have key := forRange_eq_fold (finalizeStep inst mem)
    (fun l acc => xorBlock acc mem[l * inst.laneLength + (inst.laneLength - 1)]!)
    (fun _ _ => True) (inst.lanes - 1) 1 mem[inst.laneLength - 1]! trivial (by
      intro l acc h1 hl _
      have f := lane_le_mem (l := l) hI (by omega)
      unfold finalizeStep
      rw [mulU32_ok (by omega), ok_bind, subU32_ok (by omega), ok_bind, addU32_ok (by omega), ok_bind,
        getBlock_ok (by omega), ok_bind, pure_eq]
      exact ⟨rfl, trivial⟩)
  unfold finalize forLoop copyBlock
  have e : (inst.laneLength + U32 - 1) % U32 = inst.laneLength - 1 := by
    rw [U32_eq]; omega
  rw [e, getBlock_ok (by omega), ok_bind, key.1, ok_bind, longhash_eq_hprime _ h4 hmax]
  rfl

/-- the `Argon2Instance` geometry `argon2_hash` builds -/
def mkInstance (ty t m p : Nat) : Instance :=
  let sl := max m (8 * p) / (4 * p)
  { passes := t, memoryBlocks := sl * (4 * p), segmentLength := sl, laneLength := sl * 4,
    lanes := p, ty := ty }

theorem mkInstance_inv {ty t m p : Nat} (hp : 1 ≤ p) (hm : m < 2 ^ 32) (hp' : p < 2 ^ 29) :
    InstInv (mkInstance ty t m p) := by
  have h1 := segmentLength_ge_two (m := m) hp
  have h2 := memoryBlocks_le (m := m) (p := p)
  refine ⟨h1, Nat.mul_comm _ _, hp, ?_, ?_⟩
  · show max m (8 * p) / (4 * p) * (4 * p) = p * (max m (8 * p) / (4 * p) * 4)
    generalize max m (8 * p) / (4 * p) = sl
    rw [Nat.mul_comm p, Nat.mul_assoc]
  · show max m (8 * p) / (4 * p) * (4 * p) < 2 ^ 32
    omega

/-- `argon2_hash` as a pure function (the value it returns when nothing panics) -/
def argon2HashN (ty t m p : Nat) (pwd salt : Bytes) (secret ad : Option Bytes) (outlen : Nat) : Bytes :=
  let inst := mkInstance ty t m p
  let mem0 := fillFirstBlocksN (initialHash p outlen m t ty pwd salt secret ad) inst
    (Array.replicate inst.memoryBlocks zeroBlock)
  let st := Nat.fold t (fun r _ st => fillMemoryBlocksN inst r st)
    (mem0, Array.replicate inst.segmentLength 0)
  Spec.Argon2.hprime outlen (storeBlock (finalBlockN inst st.1))

/-- **No panic, no error for accepted parameters.**  For every parameter set accepted by
`Argon2Context::new` with `outlen ≠ u32::MAX` and `7·segment_length − 3 < 2^32`, every checked
arithmetic operation, every slice index and every `assert!` on the whole path of `argon2_hash`
succeeds, and the result is `argon2HashN`. -/
theorem argon2Hash_ok {ty t m p : Nat} {pwd salt : Bytes} {secret ad : Option Bytes} {outlen : Nat}
    (hv : Valid outlen pwd.length salt.length (secret.map List.length) (ad.map List.length) t m p)
    (hout : outlen < 0xFFFFFFFF)
    (h7 : 7 * (max m (8 * p) / (4 * p)) < 2 ^ 32 + 3) :
    argon2Hash ty t m p pwd salt secret ad outlen
      = .ok (argon2HashN ty t m p pwd salt secret ad outlen) := by
  have hp := hv.lanes_ge; have hp' := hv.lanes_le; have hm := hv.m_le; have ho := hv.outlen_ge
  have hI : InstInv (mkInstance ty t m p) := mkInstance_inv hp (by omega) (by omega)
  unfold argon2Hash
  rw [memoryGeometry_ok hp (by omega) (by omega), ok_bind]
  simp only []
  rw [(validate_ok_iff ..).2 hv, ok_bind]
  unfold Instance.new
  have hll : max m (8 * p) / (4 * p) * ARGON2_SYNC_POINTS < 2 ^ 32 := by
    have := hI.mb_lt; have := hI.mb_eq; have := hI.ll_eq
    have h2 := memoryBlocks_le (m := m) (p := p)
    have e4 : ARGON2_SYNC_POINTS = 4 := rfl
    rw [e4]; omega
  rw [mulU32_ok hll, ok_bind, pure_eq, ok_bind]
  show (do
    let mem ← fillFirstBlocks (initialHash p outlen m t ty pwd salt secret ad) (mkInstance ty t m p)
      (Array.replicate (mkInstance ty t m p).memoryBlocks zeroBlock)
    let st ← forLoop 0 (mkInstance ty t m p).passes (fillMemoryBlocks (mkInstance ty t m p))
      (mem, Array.replicate (mkInstance ty t m p).segmentLength 0)
    finalize outlen (mkInstance ty t m p) st.1) = _
  obtain ⟨hf1, hf2⟩ := fillFirstBlocks_ok (inst := mkInstance ty t m p)
    (initialHash p outlen m t ty pwd salt secret ad)
    (mem := Array.replicate (mkInstance ty t m p).memoryBlocks zeroBlock) hI (by simp)
  rw [hf1, ok_bind]
  have key := forRange_zero_eq_fold (fillMemoryBlocks (mkInstance ty t m p))
    (fillMemoryBlocksN (mkInstance ty t m p)) (fun _ st => SizeInv (mkInstance ty t m p) st) t
    (fillFirstBlocksN (initialHash p outlen m t ty pwd salt secret ad) (mkInstance ty t m p)
      (Array.replicate (mkInstance ty t m p).memoryBlocks zeroBlock),
      Array.replicate (mkInstance ty t m p).segmentLength 0)
    ⟨hf2, by simp⟩ (fun r st _ hst => fillMemoryBlocks_ok r hI h7 hst)
  unfold forLoop
  rw [Nat.sub_zero]
  show (do
    let st ← forRange (fillMemoryBlocks (mkInstance ty t m p)) 0 t _
    finalize outlen (mkInstance ty t m p) st.1) = _
  rw [key.1, ok_bind, finalize_ok hI key.2.1 (by omega) hout]
  rfl

/-! ### rejection, addressing mode, `crypto_pwhash` -/

/-- rejected parameters give `Err` — provided the geometry computation that precedes the
validation does not panic (`1 ≤ p < 2^29`; `m` is a `u32`) -/
theorem argon2Hash_err {ty t m p : Nat} {pwd salt : Bytes} {secret ad : Option Bytes} {outlen : Nat}
    (hp : 1 ≤ p) (hp' : p < 2 ^ 29) (hm : m < 2 ^ 32)
    (hv : ¬ Valid outlen pwd.length salt.length (secret.map List.length) (ad.map List.length) t m p) :
    argon2Hash ty t m p pwd salt secret ad outlen = .err := by
  unfold argon2Hash
  rw [memoryGeometry_ok hp hp' hm, ok_bind]
  simp only []
  rw [(validate_err_iff ..).2 hv, err_bind]

/-- the geometry computation panics before validation can reject `p = 0` or `p ≥ 2^29` -/
theorem argon2Hash_panic {ty t m p : Nat} {pwd salt : Bytes} {secret ad : Option Bytes} {outlen : Nat}
    (hm : m < 2 ^ 32) (hp : p = 0 ∨ 2 ^ 29 ≤ p) :
    argon2Hash ty t m p pwd salt secret ad outlen = .panic := by
  unfold argon2Hash
  rw [(memoryGeometry_panic_iff hm).2 hp, panic_bind]

theorem addressing_mode (inst : Instance) (pos : Position) (hty : inst.ty = Argon2i ∨ inst.ty = Argon2id) :
    dataIndependentAddressing inst pos = true ↔
      inst.ty = Argon2i ∨ (inst.ty = Argon2id ∧ pos.pass = 0 ∧ pos.slice < 2) := by
  unfold dataIndependentAddressing
  have e2 : ARGON2_SYNC_POINTS / 2 = 2 := rfl
  rw [e2]
  rcases hty with h | h <;> rw [h] <;> simp [Argon2i, Argon2id] <;> omega

/-- the `(opslimit, memlimit, lengths)` accepted by `crypto_pwhash` -/
structure PwhashValid (outlen pwdlen saltlen opslimit memlimit : Nat) : Prop where
  ops_ge : 1 ≤ opslimit
  ops_le : opslimit ≤ 4294967295
  mem_ge : 8192 ≤ memlimit
  mem_le : memlimit ≤ 4398046510080
  outlen_ge : 16 ≤ outlen
  outlen_le : outlen ≤ 0xFFFFFFFF
  pwd_le : pwdlen ≤ 0xFFFFFFFF
  salt_ge : 8 ≤ saltlen
  salt_le : saltlen ≤ 0xFFFFFFFF

/-- for in-range limits `convert_costs` truncates nothing: `(t, m) = (opslimit, memlimit / 1024)` -/
theorem convertCosts_eq {opslimit memlimit : Nat} (ho : opslimit ≤ 4294967295)
    (hm : memlimit ≤ 4398046510080) : convertCosts opslimit memlimit = (opslimit, memlimit / 1024) := by
  unfold convertCosts
  rw [U32_eq, Nat.mod_eq_of_lt (by omega), Nat.mod_eq_of_lt (by omega)]

theorem pwhashValid_iff (outlen pwdlen saltlen opslimit memlimit : Nat) :
    PwhashValid outlen pwdlen saltlen opslimit memlimit ↔
      (1 ≤ opslimit ∧ opslimit ≤ 4294967295) ∧ (8192 ≤ memlimit ∧ memlimit ≤ 4398046510080) ∧
      Valid outlen pwdlen saltlen none none opslimit (memlimit / 1024) 1 := by
  constructor
  · rintro ⟨h1, h2, h3, h4, h5, h6, h7, h8, h9⟩
    exact ⟨⟨h1, h2⟩, ⟨h3, h4⟩, ⟨h5, h6, h7, h8, h9, by simp, by simp, by omega, by omega, by omega,
      by omega, h1, h2⟩⟩
  · rintro ⟨⟨h1, h2⟩, ⟨h3, h4⟩, hv⟩
    exact ⟨h1, h2, h3, h4, hv.outlen_ge, hv.outlen_le, hv.pwd_le, hv.salt_ge, hv.salt_le⟩

/-- `crypto_pwhash` unfolds to `argon2_hash(opslimit, memlimit / 1024, 1, …, None, None, …)` behind
the two range checks -/
theorem cryptoPwhash_eq (outlen : Nat) (pwd salt : Bytes) (opslimit memlimit alg : Nat)
    (halg : alg = 1 ∨ alg = 2) :
    cryptoPwhash outlen pwd salt opslimit memlimit alg =
      if (1 ≤ opslimit ∧ opslimit ≤ 4294967295) then
        if (8192 ≤ memlimit ∧ memlimit ≤ 4398046510080) then
          argon2Hash alg opslimit (memlimit / 1024) 1 pwd salt none none outlen
        else .err
      else .err := by
  unfold cryptoPwhash
  have hty : (if alg = CRYPTO_PWHASH_ALG_ARGON2I13 then (pure Argon2i : Outcome Nat)
      else if alg = CRYPTO_PWHASH_ALG_ARGON2ID13 then pure Argon2id else Outcome.panic) = .ok alg := by
    rcases halg with h | h <;> subst h <;> rfl
  rw [hty, ok_bind]
  simp only [CRYPTO_PWHASH_OPSLIMIT_MIN, CRYPTO_PWHASH_OPSLIMIT_MAX, CRYPTO_PWHASH_MEMLIMIT_MIN,
    CRYPTO_PWHASH_MEMLIMIT_MAX]
  rw [validateRange_eq, validateRange_eq, ite_unit_bind]
  by_cases h1 : 1 ≤ opslimit ∧ opslimit ≤ 4294967295
  · rw [if_pos h1, if_pos h1, ite_unit_bind]
    by_cases h2 : 8192 ≤ memlimit ∧ memlimit ≤ 4398046510080
    · rw [if_pos h2, if_pos h2, convertCosts_eq h1.2 h2.2]
    · rw [if_neg h2, if_neg h2]
  · rw [if_neg h1, if_neg h1]

theorem cryptoPwhash_alg_panic (outlen : Nat) (pwd salt : Bytes) (opslimit memlimit alg : Nat)
    (halg : alg ≠ 1 ∧ alg ≠ 2) : cryptoPwhash outlen pwd salt opslimit memlimit alg = .panic := by
  unfold cryptoPwhash
  have e1 : CRYPTO_PWHASH_ALG_ARGON2I13 = 1 := rfl
  have e2 : CRYPTO_PWHASH_ALG_ARGON2ID13 = 2 := rfl
  rw [e1, e2, if_neg halg.1, if_neg halg.2, panic_bind]

theorem cryptoPwhash_err {outlen : Nat} {pwd salt : Bytes} {opslimit memlimit alg : Nat}
    (halg : alg = 1 ∨ alg = 2)
    (hv : ¬ PwhashValid outlen pwd.length salt.length opslimit memlimit) :
    cryptoPwhash outlen pwd salt opslimit memlimit alg = .err := by
  rw [cryptoPwhash_eq _ _ _ _ _ _ halg]
  by_cases h1 : 1 ≤ opslimit ∧ opslimit ≤ 4294967295
  · rw [if_pos h1]
    by_cases h2 : 8192 ≤ memlimit ∧ memlimit ≤ 4398046510080
    · rw [if_pos h2]
      apply argon2Hash_err (by decide) (by decide) (by omega)
      intro hval
      exact hv ((pwhashValid_iff ..).2 ⟨h1, h2, hval⟩)
    · rw [if_neg h2]
  · rw [if_neg h1]

theorem cryptoPwhash_ok {outlen : Nat} {pwd salt : Bytes} {opslimit memlimit alg : Nat}
    (halg : alg = 1 ∨ alg = 2)
    (hv : PwhashValid outlen pwd.length salt.length opslimit memlimit)
    (hout : outlen < 0xFFFFFFFF) (h7 : 7 * (memlimit / 1024 / 4) < 2 ^ 32 + 3) :
    cryptoPwhash outlen pwd salt opslimit memlimit alg
      = .ok (argon2HashN alg opslimit (memlimit / 1024) 1 pwd salt none none outlen) := by
  obtain ⟨h1, h2, hval⟩ := (pwhashValid_iff ..).1 hv
  rw [cryptoPwhash_eq _ _ _ _ _ _ halg, if_pos h1, if_pos h2]
  apply argon2Hash_ok hval hout
  have : max (memlimit / 1024) (8 * 1) = memlimit / 1024 := by omega
  rw [this]; exact h7

end DryocVerif.Proofs.Argon2
