import Mathlib.Data.ZMod.Basic
import Mathlib.Tactic.Ring
import Mathlib.Tactic.LinearCombination
import Mathlib.Tactic.FieldSimp
import Mathlib.FieldTheory.Finite.Basic
import DryocVerif.Proofs.KeyFormsCode
/-!
The twisted Edwards curve −x² + y² = 1 + d·x²y² of `Spec/Ed25519.lean`, in extended coordinates
(X : Y : Z : T), −X² + Y² = Z² + d·T², X·Y = Z·T:

* the curve equations are closed under the unified addition `add` and the dedicated doubling `double`
  (polynomial identities in any commutative ring);
* the addition law is COMPLETE on points with `Z ≠ 0`: since `d` is not a square and `−1` is one in
  `ZMod p`, the denominators `Z₁Z₂ ± d·T₁T₂` do not vanish, so `Z ≠ 0` is preserved as well;
* hence every multiple `scalarMul k B` of the base point is on the curve with `Z ≢ 0 (mod p)`
  (`scalarMul_B_onCurve`, `scalarMul_B_Z`) — NO group law (associativity, order of `B`) is used or proved;
* a point on the curve with `Z ≢ 0` compresses to a string that `decodePointLax` decompresses
  (`decodePointLax_encode_ne_none`: the square-root step `x = u·v³·(u·v⁷)^((p−5)/8)` finds a root whenever
  one exists), so `scalarMul_B_decodes`.

These discharge the hypotheses `hdec`, `hZ` of `C13.converted_pair_consistent_code` for every seed.
-/
namespace DryocVerif.Proofs.CurveEdwards
open DryocVerif DryocVerif.Spec.Ed25519
open DryocVerif.Spec.X25519 (fadd fsub fmul fsq fneg fpow finv)
open DryocVerif.Proofs.CurveOrder8 (F cast_fadd cast_fmul cast_fsub cast_fsq p_pos)
open DryocVerif.Proofs.KeyFormsCode (cast_fpow cast_finv eq_of_cast fmul_lt)

local notation "q" => DryocVerif.Spec.X25519.p

/-! ### polynomial identities -/

section Ring
variable {R : Type} [CommRing R]

/-- the extended twisted Edwards equations (a = −1) -/
def OnCurveR (d X Y Z T : R) : Prop := -X^2 + Y^2 = Z^2 + d*T^2 ∧ X*Y = Z*T

/-- closure under the unified addition law (the formulas of `Spec.Ed25519.add`) -/
theorem add_closed (d X1 Y1 Z1 T1 X2 Y2 Z2 T2 : R)
    (hP : OnCurveR d X1 Y1 Z1 T1) (hQ : OnCurveR d X2 Y2 Z2 T2) :
    OnCurveR d
      (((Y1 + X1) * (Y2 + X2) - (Y1 - X1) * (Y2 - X2)) * ((Z1 + Z1) * Z2 - T1 * (2 * d) * T2))
      (((Z1 + Z1) * Z2 + T1 * (2 * d) * T2) * ((Y1 + X1) * (Y2 + X2) + (Y1 - X1) * (Y2 - X2)))
      (((Z1 + Z1) * Z2 - T1 * (2 * d) * T2) * ((Z1 + Z1) * Z2 + T1 * (2 * d) * T2))
      (((Y1 + X1) * (Y2 + X2) - (Y1 - X1) * (Y2 - X2)) * ((Y1 + X1) * (Y2 + X2) + (Y1 - X1) * (Y2 - X2))) := by
  obtain ⟨e1, n1⟩ := hP
  obtain ⟨e2, n2⟩ := hQ
  constructor
  · grind
  · ring

/-- closure under the dedicated doubling (the formulas of `Spec.Ed25519.double`) -/
theorem dbl_closed (d X Y Z T : R) (h : OnCurveR d X Y Z T) :
    OnCurveR d
      (((X^2 + Y^2) - (X + Y)^2) * ((Z^2 + Z^2) + (X^2 - Y^2)))
      ((X^2 - Y^2) * (X^2 + Y^2))
      (((Z^2 + Z^2) + (X^2 - Y^2)) * (X^2 - Y^2))
      (((X^2 + Y^2) - (X + Y)^2) * (X^2 + Y^2)) := by
  obtain ⟨h1, n1⟩ := h
  constructor
  · grind
  · ring

end Ring

/-! ### completeness -/

section Field
variable {K : Type} [Field K]

/-- **Completeness** (Bernstein–Lange): if `−1 = i²` is a square and `d` is not, then for two points on the
curve with `Z ≠ 0` neither `Z₁Z₂ − d·T₁T₂` nor `Z₁Z₂ + d·T₁T₂` vanishes (`ε = ±1`).  Otherwise
`Z₂²(Y₁ ± εiX₁)² = d·T₁²(Y₂ ± iX₂)²` would exhibit `d` as a square. -/
theorem complete (d i ε X1 Y1 Z1 T1 X2 Y2 Z2 T2 : K) (hi : i^2 = -1) (hd : ¬ IsSquare d)
    (h2 : (2 : K) ≠ 0) (hε : ε^2 = 1)
    (h1 : OnCurveR d X1 Y1 Z1 T1) (hq : OnCurveR d X2 Y2 Z2 T2) (hZ1 : Z1 ≠ 0) (hZ2 : Z2 ≠ 0) :
    Z1 * Z2 ≠ ε * (d * T1 * T2) := by
  obtain ⟨e1, n1⟩ := h1
  obtain ⟨e2, n2⟩ := hq
  intro h
  have hT1 : T1 ≠ 0 := by
    intro h0; rw [h0] at h; simp at h; rcases h with h | h <;> contradiction
  have key1 : Z2^2 * (Y1 + ε * i * X1)^2 = d * T1^2 * (Y2 + i * X2)^2 := by grind
  have key2 : Z2^2 * (Y1 - ε * i * X1)^2 = d * T1^2 * (Y2 - i * X2)^2 := by grind
  by_cases ha : Y2 + i * X2 = 0
  · by_cases hb : Y2 - i * X2 = 0
    · have hY : Y2 = 0 := by
        have : 2 * Y2 = 0 := by linear_combination ha + hb
        rcases mul_eq_zero.1 this with h | h
        · exact absurd h h2
        · exact h
      have hT2 : T2 = 0 := by
        have : Z2 * T2 = 0 := by rw [← n2, hY]; ring
        rcases mul_eq_zero.1 this with h | h
        · exact absurd h hZ2
        · exact h
      rw [hT2] at h; simp at h; rcases h with h | h <;> contradiction
    · apply hd
      refine ⟨Z2 * (Y1 - ε * i * X1) / (T1 * (Y2 - i * X2)), ?_⟩
      field_simp
      linear_combination -key2
  · apply hd
    refine ⟨Z2 * (Y1 + ε * i * X1) / (T1 * (Y2 + i * X2)), ?_⟩
    field_simp
    linear_combination -key1

/-- the square-root step of RFC 8032 §5.1.3: if `v·x₀² = u` has a solution, the candidate
`x = u·v³·(u·v⁷)^e` with `4e + 2 = (|K| − 1)/2` satisfies `v·x² = ±u` -/
theorem sqrt_candidate (u v x0 : K) (e m : ℕ) (hm : 4 * e + 2 = m)
    (hF : ∀ w : K, w ≠ 0 → (w ^ m) ^ 2 = 1) (h : v * x0 ^ 2 = u) :
    v * (u * v ^ 3 * (u * v ^ 7) ^ e) ^ 2 = u ∨ v * (u * v ^ 3 * (u * v ^ 7) ^ e) ^ 2 = -u := by
  by_cases hw : v ^ 4 * x0 = 0
  · have hu : u = 0 := by
      rcases mul_eq_zero.1 hw with h' | h'
      · have : v = 0 := pow_eq_zero_iff (by decide) |>.1 h'
        rw [← h, this]; ring
      · rw [← h, h']; ring
    left; rw [hu]; ring
  · have ht := hF _ hw
    have e1 : u * v ^ 7 = (v ^ 4 * x0) ^ 2 := by rw [← h]; ring
    have e2 : v * (u * v ^ 3 * (u * v ^ 7) ^ e) ^ 2 = u * (v ^ 4 * x0) ^ m := by
      rw [← hm, e1]; rw [← h]; ring
    rw [e2]
    have : ((v ^ 4 * x0) ^ m - 1) * ((v ^ 4 * x0) ^ m + 1) = 0 := by linear_combination ht
    rcases mul_eq_zero.1 this with h' | h'
    · left; rw [sub_eq_zero.1 h']; ring
    · right; rw [eq_neg_of_add_eq_zero_left h']; ring

end Field

/-! ### the constants in `ZMod p` -/

theorem cast_fneg (a : ℕ) : ((fneg a : ℕ) : F) = -(a : F) := by
  unfold fneg
  rw [ZMod.natCast_mod, Nat.cast_sub (Nat.le_of_lt (Nat.mod_lt _ p_pos)), ZMod.natCast_self,
    ZMod.natCast_mod]
  ring

theorem cast_d2 : ((d2 : ℕ) : F) = 2 * ((d : ℕ) : F) := by
  have h : d2 = (2 * d) % q := by decide
  rw [h, ZMod.natCast_mod]; push_cast; ring

theorem cast_pm1 : ((q - 1 : ℕ) : F) = -1 := by
  rw [Nat.cast_sub (by decide), ZMod.natCast_self]; simp

theorem two_ne_zero : (2 : F) ≠ 0 := by
  intro h
  have h' : ((2 : ℕ) : F) = 0 := by exact_mod_cast h
  rw [ZMod.natCast_eq_zero_iff] at h'
  exact absurd (Nat.le_of_dvd (by decide) h') (by decide)

theorem neg_one_ne_one : (-1 : F) ≠ 1 := by
  intro h
  apply two_ne_zero
  linear_combination -h

/-- `sqrtM1² = −1` (kernel evaluation of one modular product) -/
theorem sqrtM1_sq : ((sqrtM1 : ℕ) : F) ^ 2 = -1 := by
  have h : fsq sqrtM1 = q - 1 := by decide
  rw [← cast_fsq, h, cast_pm1]

set_option maxRecDepth 100000 in
/-- `d^((p−1)/2) = −1` (kernel evaluation of one modular exponentiation): Euler's criterion, evaluated -/
theorem d_euler : ((d : ℕ) : F) ^ (q / 2) = -1 := by
  have h : fpow d (q / 2) = q - 1 := by decide +kernel
  rw [← cast_fpow d (q / 2) (by decide), h, cast_pm1]

/-- the curve constant `d` is not a square modulo `p` -/
theorem d_nonsquare : ¬ IsSquare ((d : ℕ) : F) := by
  rintro ⟨w, hw⟩
  have hw0 : w ≠ 0 := by
    intro h0
    have := d_euler
    rw [hw, h0] at this
    rw [mul_zero, zero_pow (by decide)] at this
    exact one_ne_zero (α := F) (by linear_combination this)
  have h1 : w ^ (q - 1) = 1 := ZMod.pow_card_sub_one_eq_one hw0
  have h2 : ((d : ℕ) : F) ^ (q / 2) = w ^ (q - 1) := by
    have e : 2 * (q / 2) = q - 1 := by decide
    rw [hw, ← pow_two, ← pow_mul, e]
  rw [d_euler, h1] at h2
  exact neg_one_ne_one h2

/-- Fermat, squared form used by `sqrt_candidate` -/
theorem fermat_half (w : F) (hw : w ≠ 0) : (w ^ (q / 2)) ^ 2 = 1 := by
  rw [← pow_mul]
  exact ZMod.pow_card_sub_one_eq_one hw

/-! ### the invariant -/

/-- on the curve, as a statement about the `Nat` coordinates (all field operations reduce mod p):
`Y² − X² = Z² + d·T²` and `X·Y = Z·T` — decidable, so instances can be evaluated -/
def OnCurve (P : Point) : Prop :=
  fsub (fsq P.Y) (fsq P.X) = fadd (fsq P.Z) (fmul d (fsq P.T)) ∧ fmul P.X P.Y = fmul P.Z P.T

instance (P : Point) : Decidable (OnCurve P) := by unfold OnCurve; infer_instance

/-- on the curve with `Z ≠ 0`, in `ZMod p` -/
def Good (P : Point) : Prop :=
  OnCurveR ((d : ℕ) : F) (P.X : F) (P.Y : F) (P.Z : F) (P.T : F) ∧ ((P.Z : ℕ) : F) ≠ 0

theorem cast_ne_zero_iff (n : ℕ) : ((n : ℕ) : F) ≠ 0 ↔ n % q ≠ 0 := by
  rw [Ne, ZMod.natCast_eq_zero_iff, Nat.dvd_iff_mod_eq_zero]

theorem onCurve_iff (P : Point) :
    OnCurve P ↔ OnCurveR ((d : ℕ) : F) (P.X : F) (P.Y : F) (P.Z : F) (P.T : F) := by
  unfold OnCurve OnCurveR
  constructor
  · rintro ⟨h1, h2⟩
    have h1' := congrArg (fun n : ℕ => (n : F)) h1
    have h2' := congrArg (fun n : ℕ => (n : F)) h2
    simp only [cast_fsub, cast_fadd, cast_fsq, cast_fmul] at h1' h2'
    exact ⟨by linear_combination h1', h2'⟩
  · rintro ⟨h1, h2⟩
    refine ⟨eq_of_cast (Nat.mod_lt _ p_pos) (Nat.mod_lt _ p_pos) ?_,
      eq_of_cast (Nat.mod_lt _ p_pos) (Nat.mod_lt _ p_pos) ?_⟩
    · simp only [cast_fsub, cast_fadd, cast_fsq, cast_fmul]; linear_combination h1
    · simp only [cast_fmul]; exact h2

theorem good_iff (P : Point) : Good P ↔ OnCurve P ∧ P.Z % q ≠ 0 := by
  unfold Good; rw [onCurve_iff, cast_ne_zero_iff]

theorem good_add (P Q : Point) (hP : Good P) (hQ : Good Q) : Good (add P Q) := by
  obtain ⟨cP, zP⟩ := hP
  obtain ⟨cQ, zQ⟩ := hQ
  have hF := complete _ _ 1 _ _ _ _ _ _ _ _ sqrtM1_sq d_nonsquare two_ne_zero (by ring) cP cQ zP zQ
  have hG := complete _ _ (-1) _ _ _ _ _ _ _ _ sqrtM1_sq d_nonsquare two_ne_zero (by ring) cP cQ zP zQ
  refine ⟨?_, ?_⟩
  · simp only [add, cast_fmul, cast_fsub, cast_fadd, cast_d2]
    exact add_closed _ _ _ _ _ _ _ _ _ cP cQ
  · simp only [add, cast_fmul, cast_fsub, cast_fadd, cast_d2]
    apply mul_ne_zero
    · intro h
      have : (2 : F) * ((P.Z : F) * Q.Z - 1 * ((d : F) * P.T * Q.T)) = 0 := by linear_combination h
      rcases mul_eq_zero.1 this with h' | h'
      · exact two_ne_zero h'
      · exact hF (sub_eq_zero.1 h')
    · intro h
      have : (2 : F) * ((P.Z : F) * Q.Z - (-1) * ((d : F) * P.T * Q.T)) = 0 := by linear_combination h
      rcases mul_eq_zero.1 this with h' | h'
      · exact two_ne_zero h'
      · exact hG (sub_eq_zero.1 h')

theorem good_double (P : Point) (hP : Good P) : Good (double P) := by
  obtain ⟨cP, zP⟩ := hP
  have hF := complete _ _ 1 _ _ _ _ _ _ _ _ sqrtM1_sq d_nonsquare two_ne_zero (by ring) cP cP zP zP
  have hG := complete _ _ (-1) _ _ _ _ _ _ _ _ sqrtM1_sq d_nonsquare two_ne_zero (by ring) cP cP zP zP
  refine ⟨?_, ?_⟩
  · simp only [double, cast_fmul, cast_fsub, cast_fadd, cast_fsq]
    exact dbl_closed _ _ _ _ _ cP
  · simp only [double, cast_fmul, cast_fsub, cast_fadd, cast_fsq]
    obtain ⟨e1, -⟩ := cP
    apply mul_ne_zero
    · intro h
      apply hF
      linear_combination h + e1
    · intro h
      apply hG
      linear_combination (-1 : F) * h - e1

theorem good_identity : Good identity := by
  rw [good_iff]; decide

theorem good_B : Good B := by
  rw [good_iff]; decide

theorem good_scalarMulAux : ∀ (bits n : ℕ) (P Q : Point), Good P → Good Q →
    Good (scalarMulAux bits n P Q)
  | 0, _, _, _, _, hQ => hQ
  | bits + 1, n, P, Q, hP, hQ => by
    rw [scalarMulAux]
    apply good_scalarMulAux bits _ _ _ (good_double P hP)
    split
    · exact good_add Q P hQ hP
    · exact hQ

/-- every multiple of a good point is good -/
theorem good_scalarMul (k : ℕ) (P : Point) (hP : Good P) : Good (scalarMul k P) :=
  good_scalarMulAux 256 k P identity hP good_identity

/-- **every multiple of the base point satisfies the curve equations** -/
theorem scalarMul_B_onCurve (k : ℕ) : OnCurve (scalarMul k B) :=
  ((good_iff _).1 (good_scalarMul k B good_B)).1

/-- … and its projective `Z` is invertible -/
theorem scalarMul_B_Z (k : ℕ) : (scalarMul k B).Z % q ≠ 0 :=
  ((good_iff _).1 (good_scalarMul k B good_B)).2

/-! ### compress, then decompress -/

/-- the value `decodePointLax` reads back as `y` from a compressed point -/
theorem encode_y (Q : Point) : le (encodePoint Q) % 2 ^ 255 % q = fmul Q.Y (finv Q.Z) := by
  unfold encodePoint
  simp only []
  rw [Proofs.Curve.le_toLE]
  have hy : fmul Q.Y (finv Q.Z) < q := fmul_lt _ _
  have hb : fmul Q.X (finv Q.Z) % 2 < 2 := Nat.mod_lt _ (by decide)
  have hq : q < 2 ^ 255 := by decide
  have hv : fmul Q.Y (finv Q.Z) + 2 ^ 255 * (fmul Q.X (finv Q.Z) % 2) < 256 ^ 32 := by
    have : (256 : ℕ) ^ 32 = 2 ^ 255 * 2 := by decide
    rw [this]
    calc _ < 2 ^ 255 + 2 ^ 255 * (fmul Q.X (finv Q.Z) % 2) := by omega
      _ ≤ 2 ^ 255 + 2 ^ 255 * 1 := by
        apply Nat.add_le_add_left; apply Nat.mul_le_mul_left; omega
      _ = 2 ^ 255 * 2 := by ring
  rw [Nat.mod_eq_of_lt hv, Nat.add_mul_mod_self_left,
    Nat.mod_eq_of_lt (Nat.lt_trans hy hq)]
  exact Nat.mod_eq_of_lt hy

open Lean Elab Tactic Meta in
/-- variant of `unfold_abstract_discr_at` (`Proofs/KeyFormsExtra.lean`, see there for why the unfolding is done
with explicit proof terms) that also hands out the discriminant: `h : C a₁ … aₙ = rhs` with `C` a chain of `let`s
ending in a `match` on one discriminant `δ`; the goal `G` becomes `∀ x?, x? = δ → (match x? with …) = rhs → G`.
Builds an ordinary proof term checked by the kernel. -/
elab "unfold_abstract_discr_eq_at " h:ident : tactic => withMainContext do
  let g ← getMainGoal
  let fvar ← getFVarId h
  let ty ← instantiateMVars (← fvar.getType)
  let some (_, lhs, rhs) := ty.eq? | throwError "not an equation"
  let .const c us := lhs.getAppFn | throwError "head is not a constant"
  let info ← getConstInfo c
  let val := info.instantiateValueLevelParams! us
  let cargs := lhs.getAppArgs
  let mut pf ← mkExpectedTypeHint (← mkEqRefl (mkConst c us)) (← mkEq (mkConst c us) val)
  for a in cargs do
    pf ← mkCongrFun pf a
  let h2 ← mkEqTrans (← mkEqSymm pf) (mkFVar fvar)
  let rec go : Nat → Expr → Expr
    | fuel + 1, .letE _ _ v b _ => go fuel (b.instantiate1 v)
    | fuel + 1, .mdata _ e => go fuel e
    | _, e => e
  let lhs' := go 1000 (val.beta cargs)
  let args := lhs'.getAppArgs
  let fn := lhs'.getAppFn
  let discr := args[1]!
  let target ← g.getType
  let discrTy ← inferType discr
  let newTy ← withLocalDeclD `x? discrTy fun x => do
    let eqd ← mkEq x discr
    let eq ← mkEq (mkAppN fn (args.set! 1 x)) rhs
    mkForallFVars #[x] (← mkArrow eqd (← mkArrow eq target))
  let m ← mkFreshExprSyntheticOpaqueMVar newTy
  g.assign (mkApp3 m discr (← mkEqRefl discr) h2)
  replaceMainGoal [m.mvarId!]

/-- the square-root candidate of `recoverX` (RFC 8032 §5.1.3 step 3), copied verbatim from its definition -/
def recoverXCand (y : Nat) : Option Nat :=
  let yy := fsq y
  let u := fsub yy 1
  let v := fadd (fmul d yy) 1
  let v3 := fmul (fsq v) v
  let v7 := fmul (fsq v3) v
  let x := fmul (fmul u v3) (fpow (fmul u v7) ((p - 5) / 8))
  let vxx := fmul v (fsq x)
  if vxx == u then some x
  else if vxx == fneg u then some (fmul x sqrtM1)
  else none

/-- lenient `recoverX` fails only if there is no root candidate -/
theorem recoverX_none (y sign : ℕ) (h : recoverX y sign false = none) : recoverXCand y = none := by
  unfold_abstract_discr_eq_at h
  clear h
  as_aux_lemma =>
  intro x? hx h
  cases x? with
  | none => exact hx.symm
  | some x' =>
    dsimp only at h
    simp at h

/-- the candidate exists as soon as `v·x₀² = u` has a solution `x₀` in `ZMod p` -/
theorem recoverXCand_ne_none (y : ℕ) (x0 : F)
    (h : (((d : ℕ) : F) * (y : F) ^ 2 + 1) * x0 ^ 2 = (y : F) ^ 2 - 1) : recoverXCand y ≠ none := by
  have hs := sqrt_candidate ((y : F) ^ 2 - 1) (((d : ℕ) : F) * (y : F) ^ 2 + 1) x0 ((p - 5) / 8) (q / 2)
    (by decide) fermat_half h
  unfold recoverXCand
  simp only []
  generalize hu : fsub (fsq y) 1 = u
  generalize hv : fadd (fmul d (fsq y)) 1 = v
  generalize hx : fmul (fmul u (fmul (fsq v) v))
    (fpow (fmul u (fmul (fsq (fmul (fsq v) v)) v)) ((p - 5) / 8)) = x
  generalize hvxx : fmul v (fsq x) = vxx
  have cu : ((u : ℕ) : F) = (y : F) ^ 2 - 1 := by
    simp only [← hu, cast_fsub, cast_fsq, Nat.cast_one]
  have cv : ((v : ℕ) : F) = ((d : ℕ) : F) * (y : F) ^ 2 + 1 := by
    simp only [← hv, cast_fadd, cast_fmul, cast_fsq, Nat.cast_one]
  have cx : ((x : ℕ) : F) = (u : F) * (v : F) ^ 3 * ((u : F) * (v : F) ^ 7) ^ ((p - 5) / 8) := by
    simp only [← hx, cast_fmul, cast_fsq, cast_fpow _ _ (show (p - 5) / 8 < 2 ^ 255 by decide)]
    ring
  have cvxx : ((vxx : ℕ) : F) = (v : F) * (x : F) ^ 2 := by
    simp only [← hvxx, cast_fmul, cast_fsq]
  rw [← cu, ← cv, ← cx, ← cvxx] at hs
  have hN : vxx = u ∨ vxx = fneg u := by
    rcases hs with hs | hs
    · left; rw [← hvxx, ← hu] at hs ⊢
      exact eq_of_cast (Nat.mod_lt _ p_pos) (Nat.mod_lt _ p_pos) hs
    · right; rw [← cast_fneg] at hs; rw [← hvxx] at hs ⊢
      exact eq_of_cast (Nat.mod_lt _ p_pos) (Nat.mod_lt _ p_pos) hs
  rcases hN with hN | hN
  · rw [if_pos (by rw [hN]; exact beq_self_eq_true _)]; exact Option.some_ne_none _
  · by_cases e : (vxx == u) = true
    · rw [if_pos e]; exact Option.some_ne_none _
    · rw [if_neg e, if_pos (by rw [hN]; exact beq_self_eq_true _)]; exact Option.some_ne_none _

/-- **compress, then decompress**: a point on the curve with `Z ≢ 0` always decompresses again -/
theorem decodePointLax_encode_ne_none (Q : Point) (hQ : Good Q) :
    decodePointLax (encodePoint Q) ≠ none := by
  obtain ⟨⟨e1, n1⟩, hZ⟩ := hQ
  intro h
  unfold decodePointLax at h
  rw [if_neg (by simp [Proofs.KeyFormsCode.encodePoint_length])] at h
  have h' := recoverX_none _ _ h
  have ep : Spec.Ed25519.p = q := rfl
  rw [ep, encode_y] at h'
  have hzi : (Q.Z : F) * (Q.Z : F) ^ (q - 2) = 1 := by
    rw [← pow_succ']
    have h1 : q - 2 + 1 = q - 1 := by decide
    rw [h1]
    exact ZMod.pow_card_sub_one_eq_one hZ
  refine recoverXCand_ne_none _ ((Q.X : F) * (Q.Z : F) ^ (q - 2)) ?_ h'
  rw [cast_fmul, cast_finv]
  generalize (Q.Z : F) ^ (q - 2) = zi at hzi ⊢
  grind

/-- every multiple of the base point compresses to a string that decompresses -/
theorem scalarMul_B_decodes (k : ℕ) : decodePointLax (encodePoint (scalarMul k B)) ≠ none :=
  decodePointLax_encode_ne_none _ (good_scalarMul k B good_B)

end DryocVerif.Proofs.CurveEdwards
