import DryocVerif.Proofs.ProtectedOps
/-
`GoodL` / `TightL` for the `Protected` operations (mprotect / mlock / munlock on
the data pages, drops, the lock transition, the locked resize).
-/
namespace DryocVerif.Proofs.Protected
open DryocVerif DryocVerif.Model.Protected

/-! ### system-call wrappers on the data of the head block -/

theorem good_mprotect {c : Cfg} (hP : 0 < c.P) {m : Mach} {v : PVec} {dp : Perm} {dl : Bool}
    {R : List Blk} (g : GoodL c.P m.k (⟨v, dp, dl⟩ :: R)) (p : Perm) :
    GoodL c.P (dryocMprotect c m (ptr c v) v.len p).k (⟨v, p, dl⟩ :: R) := by
  have ho := g.ok _ (List.mem_cons_self)
  refine good_dataop hP g (by simp [dryocMprotect]) ?_ ?_
  · intro i h1 h2
    simp only [dryocMprotect, ptr_eq, mprotect_locked]
    rw [mprotect_perm hP]
    exact ⟨by simp [h1, h2], (ho.data i h1 h2).2⟩
  · intro i hn
    simp only [dryocMprotect, ptr_eq, mprotect_locked]
    rw [mprotect_perm hP]
    simp [hn]

theorem tight_mprotect {c : Cfg} (hP : 0 < c.P) {m : Mach} {v : PVec} {dp : Perm} {dl : Bool}
    {R : List Blk} (t : TightL c.P m.k (⟨v, dp, dl⟩ :: R)) (hl : v.len ≤ v.cap) (p p' : Perm)
    (l' : Bool) :
    TightL c.P (dryocMprotect c m (ptr c v) v.len p).k (⟨v, p', l'⟩ :: R) := by
  refine tight_dataop hP t hl ?_
  intro i hn
  simp only [dryocMprotect, ptr_eq, mprotect_locked]
  rw [mprotect_perm hP]
  simp [hn]

theorem good_munlock {c : Cfg} (hP : 0 < c.P) {m : Mach} {v : PVec} {dp : Perm} {dl : Bool}
    {R : List Blk} (g : GoodL c.P m.k (⟨v, dp, dl⟩ :: R)) :
    GoodL c.P (dryocMunlock c m (ptr c v) v.len).k (⟨v, dp, false⟩ :: R) := by
  have ho := g.ok _ (List.mem_cons_self)
  unfold dryocMunlock
  split
  · rename_i h0
    refine good_dataop hP g rfl ?_ (fun _ _ => ⟨rfl, rfl⟩)
    intro i h1 h2
    simp only [h0, pagesOf_zero hP] at h2; omega
  · refine good_dataop hP g rfl ?_ ?_
    · intro i h1 h2
      simp only [ptr_eq, munlockK_perm]
      rw [munlockK_locked hP]
      exact ⟨(ho.data i h1 h2).1, by simp [h1, h2]⟩
    · intro i hn
      simp only [ptr_eq, munlockK_perm]
      rw [munlockK_locked hP]
      simp [hn]

theorem tight_munlock {c : Cfg} (hP : 0 < c.P) {m : Mach} {v : PVec} {dp : Perm} {dl : Bool}
    {R : List Blk} (t : TightL c.P m.k (⟨v, dp, dl⟩ :: R)) (hl : v.len ≤ v.cap) (p' : Perm) (l' : Bool) :
    TightL c.P (dryocMunlock c m (ptr c v) v.len).k (⟨v, p', l'⟩ :: R) := by
  unfold dryocMunlock
  split
  · exact tight_setvec t rfl rfl
  · refine tight_dataop hP t hl ?_
    intro i hn
    simp only [ptr_eq, munlockK_perm]
    rw [munlockK_locked hP]
    simp [hn]

/-- the oracle never answers `failFlagged` (true of every `Bool` oracle) -/
def NoFF (m : Mach) : Prop := ∀ i, m.oracle i ≠ .failFlagged

/-- a failed lock request cannot leave a lock flag behind on ACCESSIBLE pages: the failure path undoes it
(repaired `dryoc_mlock`), or the kernel never flags before failing -/
def Leakless (c : Cfg) (m : Mach) : Prop := c.undo = true ∨ NoFF m

theorem noFF_of_oracle_eq {m m' : Mach} (h : m'.oracle = m.oracle) (hn : NoFF m) : NoFF m' := by
  intro i; rw [h]; exact hn i

theorem Leakless.of_oracle_eq {c : Cfg} {m m' : Mach} (h : m'.oracle = m.oracle) (hl : Leakless c m) : Leakless c m' :=
  hl.imp id (noFF_of_oracle_eq h)

/-- what `tight_lockV` asks of a lock request on accessible pages, from `Leakless` -/
theorem Leakless.hdp_rw {c : Cfg} {m m' : Mach} (hl : Leakless c m) (ho : m'.oracle = m.oracle) {dp : Perm}
    (hdp : dp ≠ .none) {len : Nat} :
    c.undo = true ∨ (dp ≠ .none ∧ m'.oracle (m'.cnt + 1) ≠ .failFlagged) ∨ len = 0 := by
  rcases hl with hu | hn
  · exact Or.inl hu
  · exact Or.inr (Or.inl ⟨hdp, by rw [ho]; exact hn _⟩)

/-- `madvise` changes nothing the page invariant looks at -/
theorem GoodL.madvise {P : Nat} {k : Kernel} {bl : List Blk} (g : GoodL P k bl) (a l : Nat) (b : Bool) :
    GoodL P (madviseK P k a l b) bl :=
  ⟨g.start, g.fresh,
   fun o ho => let h := g.ok o ho; ⟨h.lenle, h.buflen, h.lo, h.hi, h.fore, h.aft, h.data, h.spare⟩,
   g.disj, g.outside, g.led, g.albase⟩

theorem TightL.madvise {P : Nat} {k : Kernel} {bl : List Blk} (t : TightL P k bl) (a l : Nat) (b : Bool) :
    TightL P (madviseK P k a l b) bl := t

/-- flag of the data pages after a lock request on an unlocked block: set iff the request reached
the kernel's lock flags and either succeeded or (leaky variant only) was not undone -/
def lockFlag (c : Cfg) (m : Mach) (v : PVec) : Bool :=
  decide (v.len ≠ 0) &&
    match m.oracle (m.cnt + 1) with
    | .grant => (mlockK c.P m.k (ptr c v) v.len).2 || !c.undo
    | .refuse => false
    | .failFlagged => !c.undo

/-- `munlock` on the data pages, whatever their flag was -/
theorem good_munlockK {P : Nat} (hP : 0 < P) {k : Kernel} {v : PVec} {dp : Perm} {dl : Bool}
    {R : List Blk} (g : GoodL P k (⟨v, dp, dl⟩ :: R)) :
    GoodL P (munlockK P k ((v.base + 1) * P) v.len) (⟨v, dp, false⟩ :: R) := by
  have ho := g.ok _ (List.mem_cons_self)
  refine good_dataop hP g rfl ?_ ?_
  · intro i h1 h2
    simp only [munlockK_perm]
    rw [munlockK_locked hP]
    exact ⟨(ho.data i h1 h2).1, by simp [h1, h2]⟩
  · intro i hn
    simp only [munlockK_perm]
    rw [munlockK_locked hP]
    simp [hn]

theorem good_mlockK {P : Nat} (hP : 0 < P) {k : Kernel} {v : PVec} {dp : Perm} {dl : Bool}
    {R : List Blk} (g : GoodL P k (⟨v, dp, dl⟩ :: R)) :
    GoodL P (mlockK P k ((v.base + 1) * P) v.len).1 (⟨v, dp, true⟩ :: R) := by
  have ho := g.ok _ (List.mem_cons_self)
  refine good_dataop hP g rfl ?_ ?_
  · intro i h1 h2
    simp only [mlockK_perm]
    rw [mlockK_locked hP]
    exact ⟨(ho.data i h1 h2).1, by simp [h1, h2]⟩
  · intro i hn
    simp only [mlockK_perm]
    rw [mlockK_locked hP]
    simp [hn]

theorem good_dryocMlock {c : Cfg} (hP : 0 < c.P) {m : Mach} {v : PVec} {dp : Perm}
    {R : List Blk} (g : GoodL c.P m.k (⟨v, dp, false⟩ :: R)) :
    GoodL c.P (dryocMlock c m (ptr c v) v.len).1.k (⟨v, dp, lockFlag c m v⟩ :: R) ∧
    ((dryocMlock c m (ptr c v) v.len).2 = true →
      GoodL c.P (dryocMlock c m (ptr c v) v.len).1.k (⟨v, dp, true⟩ :: R)) := by
  unfold dryocMlock lockFlag
  by_cases h0 : v.len = 0
  · have : ∀ l', GoodL c.P m.k (⟨v, dp, l'⟩ :: R) := by
      intro l'
      refine good_dataop hP g rfl ?_ (fun _ _ => ⟨rfl, rfl⟩)
      intro i h1 h2
      simp only [h0, pagesOf_zero hP] at h2; omega
    simp only [h0, if_true]
    exact ⟨this _, fun _ => this _⟩
  simp only [h0, if_false]
  have hd : decide (v.len ≠ 0) = true := by simp [h0]
  have g0 := g.madvise (ptr c v) v.len true
  have g1 := good_mlockK hP g0
  rw [← ptr_eq] at g1
  have gu : ∀ {k : Kernel} {dl : Bool}, GoodL c.P k (⟨v, dp, dl⟩ :: R) →
      GoodL c.P (if c.undo = true then munlockK c.P k (ptr c v) v.len else k)
        (⟨v, dp, if c.undo = true then false else dl⟩ :: R) := by
    intro k dl gk
    by_cases hu : c.undo = true
    · simp only [hu, if_true]
      have g2 := good_munlockK hP gk
      simpa [ptr_eq] using g2
    · simp only [hu]; exact gk
  cases hor : m.oracle (m.cnt + 1) with
  | grant =>
    simp only [hd, Bool.true_and, mlockK_madvise_snd]
    by_cases hk : (mlockK c.P m.k (ptr c v) v.len).2 = true
    · simp only [hk, if_true, Bool.true_or]
      exact ⟨g1, fun _ => g1⟩
    · have hk' : (mlockK c.P m.k (ptr c v) v.len).2 = false := by simpa using hk
      simp only [hk', Bool.false_or, failedLock]
      refine ⟨?_, by simp⟩
      have := gu g1
      by_cases hu : c.undo = true <;> simpa [hu] using this
  | refuse =>
    simp only [Bool.and_false, failedLock]
    refine ⟨?_, by simp⟩
    have := gu g0
    by_cases hu : c.undo = true <;> simpa [hu] using this
  | failFlagged =>
    simp only [hd, Bool.true_and, failedLock]
    refine ⟨?_, by simp⟩
    have := gu g1
    by_cases hu : c.undo = true <;> simpa [hu] using this

theorem tight_dryocMlock {c : Cfg} (hP : 0 < c.P) {m : Mach} {v : PVec} {dp : Perm} {dl : Bool}
    {R : List Blk} (t : TightL c.P m.k (⟨v, dp, dl⟩ :: R)) (hl : v.len ≤ v.cap) (p' : Perm) (l' : Bool) :
    TightL c.P (dryocMlock c m (ptr c v) v.len).1.k (⟨v, p', l'⟩ :: R) := by
  have hfr : ∀ k' : Kernel,
      (∀ i, ¬ (v.base + 1 ≤ i ∧ i < v.base + 1 + pagesOf c.P v.len) →
        k'.perm i = m.k.perm i ∧ k'.locked i = m.k.locked i) →
      TightL c.P k' (⟨v, p', l'⟩ :: R) := fun k' h => tight_dataop hP t hl h
  have f0 : ∀ i, ¬ (v.base + 1 ≤ i ∧ i < v.base + 1 + pagesOf c.P v.len) →
      (madviseK c.P m.k (ptr c v) v.len true).perm i = m.k.perm i ∧
      (madviseK c.P m.k (ptr c v) v.len true).locked i = m.k.locked i := fun _ _ => ⟨rfl, rfl⟩
  have f1 : ∀ i, ¬ (v.base + 1 ≤ i ∧ i < v.base + 1 + pagesOf c.P v.len) →
      (mlockK c.P (madviseK c.P m.k (ptr c v) v.len true) (ptr c v) v.len).1.perm i = m.k.perm i ∧
      (mlockK c.P (madviseK c.P m.k (ptr c v) v.len true) (ptr c v) v.len).1.locked i = m.k.locked i := by
    intro i hn
    simp only [ptr_eq, mlockK_perm]
    rw [mlockK_locked hP]; simp [hn]
  have f2 : ∀ k : Kernel, ∀ i, ¬ (v.base + 1 ≤ i ∧ i < v.base + 1 + pagesOf c.P v.len) →
      (munlockK c.P k (ptr c v) v.len).perm i = k.perm i ∧
      (munlockK c.P k (ptr c v) v.len).locked i = k.locked i := by
    intro k i hn
    simp only [ptr_eq, munlockK_perm]
    rw [munlockK_locked hP]; simp [hn]
  have fu : ∀ k : Kernel, (∀ i, ¬ (v.base + 1 ≤ i ∧ i < v.base + 1 + pagesOf c.P v.len) →
        k.perm i = m.k.perm i ∧ k.locked i = m.k.locked i) →
      TightL c.P (failedLock c m k (ptr c v) v.len).k (⟨v, p', l'⟩ :: R) := by
    intro k hk
    simp only [failedLock]
    split
    · exact hfr _ (fun i hn => by rw [(f2 _ i hn).1, (f2 _ i hn).2]; exact hk i hn)
    · exact hfr _ hk
  unfold dryocMlock
  split
  · exact tight_setvec t rfl rfl
  simp only []
  split
  · split
    · exact hfr _ f1
    · exact fu _ f1
  · exact fu _ f0
  · exact fu _ f1

/-- a failed lock request leaves the data pages unlocked: always in the repaired model; in the
leaky variant only if the pages are not `PROT_NONE` and the kernel did not flag them before failing (then the
request can only have been refused) -/
theorem dryocMlock_fail_flag {c : Cfg} (hP : 0 < c.P) {m : Mach} {v : PVec} {dp : Perm}
    {R : List Blk} (g : GoodL c.P m.k (⟨v, dp, false⟩ :: R))
    (hdp : c.undo = true ∨ (dp ≠ .none ∧ m.oracle (m.cnt + 1) ≠ .failFlagged) ∨ v.len = 0)
    (hf : (dryocMlock c m (ptr c v) v.len).2 = false) : lockFlag c m v = false := by
  have ho := g.ok _ (List.mem_cons_self)
  unfold dryocMlock at hf
  unfold lockFlag
  by_cases h0 : v.len = 0
  · simp [h0] at hf
  cases hor : m.oracle (m.cnt + 1) with
  | grant =>
    by_cases hk : (mlockK c.P m.k (ptr c v) v.len).2 = true
    · simp [h0, hor, hk] at hf
    · have hk' : (mlockK c.P m.k (ptr c v) v.len).2 = false := by simpa using hk
      rcases hdp with hu | hdp | hdp
      · simp [hk', hu]
      · exfalso; apply hk
        rw [ptr_eq, mlockK_ok_iff hP]
        intro i h1 h2
        rw [(ho.data i h1 h2).1]; exact hdp.1
      · exact absurd hdp h0
  | refuse => simp
  | failFlagged =>
    rcases hdp with hu | hdp | hdp
    · simp [hu]
    · exact absurd hor hdp.2
    · exact absurd hdp h0

/-- WITHOUT the undo (`c.undo = false`, the tree before the repair) a `failFlagged` answer leaves the data pages of
the region flagged locked although `dryoc_mlock` reported failure — finding E15's shape on ACCESSIBLE pages -/
theorem dryocMlock_failFlagged_leaky {c : Cfg} {m : Mach} {v : PVec} (hu : c.undo = false) (h0 : v.len ≠ 0)
    (hor : m.oracle (m.cnt + 1) = .failFlagged) :
    (dryocMlock c m (ptr c v) v.len).2 = false ∧ lockFlag c m v = true := by
  unfold dryocMlock lockFlag
  simp [h0, hor, hu]

/-! ### nothing but `failfrom` touches the oracle -/

@[simp] theorem dryocMprotect_oracle (c : Cfg) (m : Mach) (a l : Nat) (p : Perm) :
    (dryocMprotect c m a l p).oracle = m.oracle := rfl

@[simp] theorem dryocMunlock_oracle (c : Cfg) (m : Mach) (a l : Nat) : (dryocMunlock c m a l).oracle = m.oracle := by
  unfold dryocMunlock; split <;> rfl

@[simp] theorem dryocMlock_oracle (c : Cfg) (m : Mach) (a l : Nat) : (dryocMlock c m a l).1.oracle = m.oracle := by
  unfold dryocMlock; split
  · rfl
  · simp only []; split
    · split <;> rfl
    · rfl
    · rfl

@[simp] theorem plainDrop_oracle (c : Cfg) (m : Mach) (v : PVec) : (plainDrop c m v).oracle = m.oracle := by
  simp [plainDrop]

@[simp] theorem protAtWipe_oracle (c : Cfg) (m : Mach) (v : PVec) (pm : PM) : (protAtWipe c m v pm).oracle = m.oracle := by
  unfold protAtWipe; split <;> simp

@[simp] theorem protZeroize_oracle (c : Cfg) (m : Mach) (v : PVec) (lm : LM) (pm : PM) :
    (protZeroize c m v lm pm).1.oracle = m.oracle := by
  unfold protZeroize; simp only []; split <;> simp

@[simp] theorem protDrop_oracle (c : Cfg) (m : Mach) (v : PVec) (lm : LM) (pm : PM) :
    (protDrop c m v lm pm).oracle = m.oracle := by
  simp [protDrop]

@[simp] theorem objDrop_oracle (c : Cfg) (m : Mach) (o : Obj) : (objDrop c m o).oracle = m.oracle := by
  unfold objDrop; split <;> simp

@[simp] theorem lockV_oracle (c : Cfg) (m : Mach) (v : PVec) (rc : LM × PM) : (lockV c m v rc).1.oracle = m.oracle := by
  unfold lockV; simp only []; split <;> simp

@[simp] theorem lockedResize_oracle (c : Cfg) (m : Mach) (v : PVec) (rc : LM × PM) (n : Nat) (b : UInt8) :
    (lockedResize c m v rc n b).1.oracle = m.oracle := by
  unfold lockedResize; simp only []; split <;> simp

/-! ### drops -/

theorem good_plainDrop {c : Cfg} (hP : 0 < c.P) {m : Mach} {v : PVec} {dp : Perm} {dl : Bool}
    {R : List Blk} (g : GoodL c.P m.k (⟨v, dp, dl⟩ :: R)) : GoodL c.P (plainDrop c m v).k R := by
  unfold plainDrop
  have := good_setbuf (v' := zeroizeV v) hP g rfl rfl rfl (by simp [zeroizeV, wipeN_length])
  exact good_vecDrop hP (b := ⟨zeroizeV v, dp, dl⟩) this

theorem tight_plainDrop {c : Cfg} (hP : 0 < c.P) {m : Mach} {v : PVec} {dp : Perm}
    {R : List Blk} (t : TightL c.P m.k (⟨v, dp, false⟩ :: R)) (g : GoodL c.P m.k (⟨v, dp, false⟩ :: R)) :
    TightL c.P (plainDrop c m v).k R := by
  unfold plainDrop
  have g' := good_setbuf (v' := zeroizeV v) hP g rfl rfl rfl (by simp [zeroizeV, wipeN_length])
  have t' : TightL c.P m.k (⟨zeroizeV v, dp, false⟩ :: R) := tight_setvec t rfl rfl
  exact tight_vecDrop (b := ⟨zeroizeV v, dp, false⟩) t' (g'.ok _ (by simp)) rfl

/-- permission / lock flag of the data pages after `Zeroize for Protected` with the recorded modes `lm`, `pm` -/
def wipePerm (pm : PM) (dp : Perm) : Perm := if pm = .rw then dp else .rw
def wipeLock (lm : LM) (dl : Bool) : Bool := if lm = .locked then false else dl

theorem good_protAtWipe {c : Cfg} (hP : 0 < c.P) {m : Mach} {v : PVec} {dp : Perm} {dl : Bool}
    {R : List Blk} (g : GoodL c.P m.k (⟨v, dp, dl⟩ :: R)) (pm : PM) :
    GoodL c.P (protAtWipe c m v pm).k (⟨v, wipePerm pm dp, dl⟩ :: R) := by
  unfold protAtWipe wipePerm
  by_cases h1 : pm = .rw <;> simp only [h1, if_true, if_false]
  · exact g
  · exact good_mprotect hP g .rw

theorem tight_protAtWipe {c : Cfg} (hP : 0 < c.P) {m : Mach} {v : PVec} {dp : Perm} {dl : Bool}
    {R : List Blk} (t : TightL c.P m.k (⟨v, dp, dl⟩ :: R)) (hl : v.len ≤ v.cap) (pm : PM) (p' : Perm) (l' : Bool) :
    TightL c.P (protAtWipe c m v pm).k (⟨v, p', l'⟩ :: R) := by
  unfold protAtWipe
  by_cases h1 : pm = .rw <;> simp only [h1, if_true, if_false]
  · exact tight_setvec t rfl rfl
  · exact tight_mprotect hP t hl _ _ _

theorem good_protZeroize {c : Cfg} (hP : 0 < c.P) {m : Mach} {v : PVec} {dp : Perm} {dl : Bool}
    {R : List Blk} (g : GoodL c.P m.k (⟨v, dp, dl⟩ :: R)) (lm : LM) (pm : PM) :
    GoodL c.P (protZeroize c m v lm pm).1.k (⟨zeroizeV v, wipePerm pm dp, wipeLock lm dl⟩ :: R) := by
  have g1 := good_protAtWipe hP g pm
  have g2 := good_setbuf (v' := zeroizeV v) hP g1 rfl rfl rfl (by simp [zeroizeV, wipeN_length])
  unfold protZeroize wipeLock
  by_cases h2 : lm = .locked <;> simp only [h2, if_true, if_false]
  · exact good_munlock hP g2
  · exact g2

theorem tight_protZeroize {c : Cfg} (hP : 0 < c.P) {m : Mach} {v : PVec} {dp : Perm} {dl : Bool}
    {R : List Blk} (t : TightL c.P m.k (⟨v, dp, dl⟩ :: R)) (hl : v.len ≤ v.cap) (lm : LM) (pm : PM)
    (p' : Perm) (l' : Bool) :
    TightL c.P (protZeroize c m v lm pm).1.k (⟨zeroizeV v, p', l'⟩ :: R) := by
  have t1 := tight_protAtWipe hP t hl pm p' l'
  have t2 : TightL c.P (protAtWipe c m v pm).k (⟨zeroizeV v, p', l'⟩ :: R) := tight_setvec t1 rfl rfl
  unfold protZeroize
  by_cases h2 : lm = .locked <;> simp only [h2, if_true, if_false]
  · exact tight_munlock hP t2 hl _ _
  · exact t2

theorem good_protDrop {c : Cfg} (hP : 0 < c.P) {m : Mach} {v : PVec} {dp : Perm} {dl : Bool}
    {R : List Blk} (g : GoodL c.P m.k (⟨v, dp, dl⟩ :: R)) (lm : LM) (pm : PM) :
    GoodL c.P (protDrop c m v lm pm).k R := by
  unfold protDrop
  exact good_plainDrop hP (good_protZeroize hP g lm pm)

theorem tight_protDrop {c : Cfg} (hP : 0 < c.P) {m : Mach} {v : PVec} {dp : Perm} {dl : Bool}
    {R : List Blk} (t : TightL c.P m.k (⟨v, dp, dl⟩ :: R)) (g : GoodL c.P m.k (⟨v, dp, dl⟩ :: R))
    (lm : LM) (pm : PM) (hl : dl = true → lm = .locked) :
    TightL c.P (protDrop c m v lm pm).k R := by
  have hlen : v.len ≤ v.cap := (g.ok _ (List.mem_cons_self)).lenle
  have g1 := good_protZeroize hP g lm pm
  have hw : wipeLock lm dl = false := by
    unfold wipeLock
    by_cases h2 : lm = .locked
    · simp [h2]
    · cases dl
      · simp
      · exact absurd (hl rfl) h2
  rw [hw] at g1
  unfold protDrop
  exact tight_plainDrop hP (tight_protZeroize hP t hlen lm pm _ _) g1

theorem good_objDrop {c : Cfg} (hP : 0 < c.P) {m : Mach} {o : Obj} {dp : Perm} {dl : Bool}
    {R : List Blk} (g : GoodL c.P m.k (⟨o.v, dp, dl⟩ :: R)) : GoodL c.P (objDrop c m o).k R := by
  unfold objDrop
  split
  · exact good_plainDrop hP g
  · exact good_protDrop hP g _ _

/-! ### the lock transition -/

theorem good_lockV {c : Cfg} (hP : 0 < c.P) {m : Mach} {v : PVec} {dp : Perm}
    {R : List Blk} (g : GoodL c.P m.k (⟨v, dp, false⟩ :: R)) (pm : LM × PM) :
    ((lockV c m v pm).2 = true → GoodL c.P (lockV c m v pm).1.k (⟨v, dp, true⟩ :: R)) ∧
    ((lockV c m v pm).2 = false → GoodL c.P (lockV c m v pm).1.k R) := by
  have h := good_dryocMlock hP g
  unfold lockV
  by_cases hr : (dryocMlock c m (ptr c v) v.len).2 = true
  · simp only [hr, if_true]
    exact ⟨fun _ => h.2 hr, by simp⟩
  · simp only [hr]
    exact ⟨by simp, fun _ => good_protDrop hP h.1 _ _⟩

theorem tight_lockV {c : Cfg} (hP : 0 < c.P) {m : Mach} {v : PVec} {dp : Perm}
    {R : List Blk} (t : TightL c.P m.k (⟨v, dp, false⟩ :: R)) (g : GoodL c.P m.k (⟨v, dp, false⟩ :: R))
    (pm : LM × PM) (hdp : c.undo = true ∨ (dp ≠ .none ∧ m.oracle (m.cnt + 1) ≠ .failFlagged) ∨ v.len = 0) :
    ((lockV c m v pm).2 = true → TightL c.P (lockV c m v pm).1.k (⟨v, dp, true⟩ :: R)) ∧
    ((lockV c m v pm).2 = false → TightL c.P (lockV c m v pm).1.k R) := by
  have h := good_dryocMlock hP g
  have hlen : v.len ≤ v.cap := (g.ok _ (List.mem_cons_self)).lenle
  unfold lockV
  by_cases hr : (dryocMlock c m (ptr c v) v.len).2 = true
  · simp only [hr, if_true]
    exact ⟨fun _ => tight_dryocMlock hP t hlen _ _, by simp⟩
  · simp only [hr]
    refine ⟨by simp, fun _ => ?_⟩
    have hf := dryocMlock_fail_flag hP g hdp (by simpa using hr)
    have h1 := h.1
    rw [hf] at h1
    exact tight_protDrop hP (tight_dryocMlock hP t hlen _ _) h1 _ _ (by simp)

/-! ### `writeV` -/

theorem writeV_buf_length (v : PVec) (src : Bytes) : (writeV v src).buf.length = v.buf.length := by
  simp [writeV]; omega

/-! ### `new_bytes` -/

theorem good_newBytes {c : Cfg} (hP : 0 < c.P) {m : Mach} {R : List Blk} (g : GoodL c.P m.k R) :
    GoodL c.P (newBytes c m).1.k (⟨(newBytes c m).2, .rw, false⟩ :: R) := by
  unfold newBytes
  split
  · exact good_vecResize hP (good_add_empty hP g _ _) _
  · exact good_add_empty hP g _ _

theorem tight_newBytes {c : Cfg} (hP : 0 < c.P) {m : Mach} {R : List Blk} (t : TightL c.P m.k R)
    (g : GoodL c.P m.k R) :
    TightL c.P (newBytes c m).1.k (⟨(newBytes c m).2, .rw, false⟩ :: R) := by
  unfold newBytes
  split
  · exact tight_vecResize (tight_add t _) (good_add_empty hP g _ _) hP _
  · exact tight_add t _

/-! ### resize of a locked region -/

theorem good_lockedResize {c : Cfg} (hP : 0 < c.P) {m : Mach} {v : PVec} {dl : Bool}
    {R : List Blk} (g : GoodL c.P m.k (⟨v, .rw, dl⟩ :: R)) (rc : LM × PM) (n : Nat) (b : UInt8 := 0) :
    match (lockedResize c m v rc n b).2 with
    | none => GoodL c.P (lockedResize c m v rc n b).1.k (⟨v, .rw, dl⟩ :: R)
    | some nv => GoodL c.P (lockedResize c m v rc n b).1.k (⟨nv, .rw, true⟩ :: R) := by
  have g1 := good_vecResize hP (good_add_empty hP g .rw false) n b
  have g2 := good_lockV hP g1 recNew
  unfold lockedResize
  by_cases hr : (lockV c (vecResize c m PVec.empty n b).1 (vecResize c m PVec.empty n b).2 recNew).2 = true
  · simp only [hr, if_true]
    have g3 := g2.1 hr
    have g4 := good_setbuf (v' := writeV (vecResize c m PVec.empty n b).2 (v.data.take n)) hP g3
      rfl rfl rfl (writeV_buf_length _ _)
    exact good_protDrop hP (g4.perm (List.Perm.swap _ _ _)) _ _
  · simp only [hr]
    exact g2.2 (by simpa using hr)

theorem tight_lockedResize {c : Cfg} (hP : 0 < c.P) {m : Mach} {v : PVec} {dl : Bool}
    {R : List Blk} (t : TightL c.P m.k (⟨v, .rw, dl⟩ :: R)) (g : GoodL c.P m.k (⟨v, .rw, dl⟩ :: R))
    (rc : LM × PM) (hrc : dl = true → rc.1 = .locked) (hl : Leakless c m) (n : Nat) (b : UInt8 := 0) :
    match (lockedResize c m v rc n b).2 with
    | none => TightL c.P (lockedResize c m v rc n b).1.k (⟨v, .rw, dl⟩ :: R)
    | some nv => TightL c.P (lockedResize c m v rc n b).1.k (⟨nv, .rw, true⟩ :: R) := by
  have g0 := good_add_empty hP g .rw false
  have g1 := good_vecResize hP g0 n b
  have t1 := tight_vecResize (tight_add t ⟨PVec.empty, .rw, false⟩) g0 hP n b
  have g2 := good_lockV hP g1 recNew
  have t2 := tight_lockV hP t1 g1 recNew (hl.hdp_rw (by simp) (by simp))
  unfold lockedResize
  by_cases hr : (lockV c (vecResize c m PVec.empty n b).1 (vecResize c m PVec.empty n b).2 recNew).2 = true
  · simp only [hr, if_true]
    have g3 := g2.1 hr
    have g4 := good_setbuf (v' := writeV (vecResize c m PVec.empty n b).2 (v.data.take n)) hP g3
      rfl rfl rfl (writeV_buf_length _ _)
    have t4 : TightL c.P _ (⟨writeV (vecResize c m PVec.empty n b).2 (v.data.take n), .rw, true⟩ ::
        ⟨v, .rw, dl⟩ :: R) := tight_setvec (t2.1 hr) rfl rfl
    exact tight_protDrop hP (t4.perm (List.Perm.swap _ _ _)) (g4.perm (List.Perm.swap _ _ _)) _ _ hrc
  · simp only [hr]
    exact t2.2 (by simpa using hr)

end DryocVerif.Proofs.Protected
