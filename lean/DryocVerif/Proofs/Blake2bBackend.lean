import DryocVerif.Model.Blake2bBackend
import DryocVerif.Model.CurveInst
import DryocVerif.Model.Inst
import DryocVerif.Proofs.Blake2bSimd
import DryocVerif.Proofs.Blake2bMain
/-
Backend independence of everything built on `init` / `update` / `finalize`:
`hash`, `longhash`, `crypto_generichash*`, and the BLAKE2b primitive of `crypto_kdf` / `crypto_kx` / the sealed-box
nonce, plus slice-bound facts for `update` and the error behaviour of `crypto_generichash`.
-/
namespace DryocVerif.Proofs.Blake2bBackend
open DryocVerif
open DryocVerif.Model.Blake2b
open DryocVerif.Model.Utils (slice)
open DryocVerif.Proofs.Blake2b
open DryocVerif.Proofs.Blake2bSimd (AgreeOn8 initC_congr updateC_congr finalizeC_congr hashChunksC_congr simd_agree)

/-! ### the software instances are the existing model functions -/

theorem hash_eq_hashC (outLen : Nat) (input : Bytes) (key : Option Bytes) :
    hash outLen input key = hashC compress outLen input key := rfl

theorem hashC_eq_hashChunksC (C : Compress) (outLen : Nat) (input : Bytes) (key : Option Bytes) :
    hashC C outLen input key = hashChunksC C outLen key none none [input] := rfl

theorem longLoop_eq_longLoopC : ∀ (n : Nat) (b : Bytes), longLoop n b = longLoopC compress n b := by
  intro n
  induction n with
  | zero => intro b; rfl
  | succ n ih =>
    intro b
    unfold longLoop longLoopC
    rw [hash_eq_hashC]
    cases hashC compress OUTBYTES b none with
    | ok o => simp only [ih]; rfl
    | err => rfl
    | panic => rfl

/-- `Model.Blake2b.longhash` is the instance of `longhashC` at the software compression function -/
theorem longhash_eq_longhashC (outLen : Nat) (input : Bytes) :
    longhash outLen input = longhashC compress outLen input := by
  unfold longhash longhashC
  simp only [longLoop_eq_longLoopC, hash_eq_hashC]
  rfl

theorem generichash_eq_generichashC (outLen : Nat) (input : Bytes) (key : Option Bytes) :
    generichash outLen input key = generichashC compress outLen input key := rfl

theorem generichashInit_eq_generichashInitC (key : Option Bytes) (outlen : Nat) (salt personal : Option Bytes) :
    generichashInit key outlen salt personal = generichashInitC compress key outlen salt personal := rfl

/-! ### congruence in the compression function -/

section congr
variable {C₁ C₂ : Compress} (H : AgreeOn8 C₁ C₂)
include H

theorem hashC_congr (outLen : Nat) (input : Bytes) (key : Option Bytes) :
    hashC C₁ outLen input key = hashC C₂ outLen input key := by
  rw [hashC_eq_hashChunksC, hashC_eq_hashChunksC]
  exact hashChunksC_congr H outLen key none none [input]

theorem longLoopC_congr : ∀ (n : Nat) (b : Bytes), longLoopC C₁ n b = longLoopC C₂ n b := by
  intro n
  induction n with
  | zero => intro b; rfl
  | succ n ih =>
    intro b
    unfold longLoopC
    rw [hashC_congr H]
    cases hashC C₂ OUTBYTES b none with
    | ok o => simp only [ih]
    | err => rfl
    | panic => rfl

theorem longhashC_congr (outLen : Nat) (input : Bytes) :
    longhashC C₁ outLen input = longhashC C₂ outLen input := by
  unfold longhashC
  by_cases h1 : ¬ outLen > 4
  · simp only [if_pos h1]
  simp only [if_neg h1]
  by_cases h2 : ¬ outLen < 4294967295
  · simp only [if_pos h2]
  simp only [if_neg h2]
  obtain ⟨e, s⟩ := initC_congr H (min outLen OUTBYTES % 256) none none none
  rw [e]
  cases hi : initC C₂ (min outLen OUTBYTES % 256) none none none with
  | err => rfl
  | panic => rfl
  | ok st =>
    simp only []
    obtain ⟨e1, s1⟩ := updateC_congr H st (s st hi) (toLE 4 outLen)
    obtain ⟨e2, s2⟩ := updateC_congr H _ s1 input
    rw [e1, e2, finalizeC_congr H _ s2 outLen, finalizeC_congr H _ s2 OUTBYTES]
    simp only [longLoopC_congr H, hashC_congr H]

theorem generichashC_congr (outLen : Nat) (input : Bytes) (key : Option Bytes) :
    generichashC C₁ outLen input key = generichashC C₂ outLen input key := by
  unfold generichashC
  rw [hashC_congr H]

theorem generichashInitC_congr (key : Option Bytes) (outlen : Nat) (salt personal : Option Bytes) :
    generichashInitC C₁ key outlen salt personal = generichashInitC C₂ key outlen salt personal := by
  unfold generichashInitC
  rw [(initC_congr H (outlen % 256) key salt personal).1]

theorem codeBlake2b_congr : codeBlake2b C₁ = codeBlake2b C₂ := by
  funext n k s p m
  unfold codeBlake2b
  rw [hashChunksC_congr H]

end congr

/-! ### SIMD backend = software backend -/

theorem simd_longhash_eq (n : Nat) (inp : Bytes) :
    longhashC Model.Blake2bSimd.compress n inp = longhash n inp := by
  rw [longhash_eq_longhashC]; exact longhashC_congr simd_agree n inp

theorem simd_hash_eq (outLen : Nat) (input : Bytes) (key : Option Bytes) :
    hashC Model.Blake2bSimd.compress outLen input key = hash outLen input key :=
  hashC_congr simd_agree outLen input key

theorem simd_generichash_eq (outLen : Nat) (input : Bytes) (key : Option Bytes) :
    generichashC Model.Blake2bSimd.compress outLen input key = generichash outLen input key :=
  generichashC_congr simd_agree outLen input key

theorem simd_generichashInit_eq (key : Option Bytes) (outlen : Nat) (salt personal : Option Bytes) :
    generichashInitC Model.Blake2bSimd.compress key outlen salt personal =
      generichashInit key outlen salt personal :=
  generichashInitC_congr simd_agree key outlen salt personal

theorem simd_codeBlake2b_eq : codeBlake2b Model.Blake2bSimd.compress = codeBlake2b compress :=
  codeBlake2b_congr simd_agree

/-! ### the code-level BLAKE2b as the primitive of `crypto_kdf` / `crypto_kx` / the sealed-box nonce -/

/-- the primitive record of `Model.Curve` with BLAKE2b taken from the code, backend `C` -/
def codePrims (C : Compress) : Model.Curve.Prims :=
  { Model.Curve.specPrims with blake2b := codeBlake2b C }

/-- the primitive record of `Model.SecretBox` with the 24-byte BLAKE2b of the sealed-box nonce taken from the code -/
def codeBoxPrims (C : Compress) : Model.SecretBox.Prims :=
  { Model.boxPrims with h24 := fun m => codeBlake2b C 24 [] [] [] m }

theorem simd_codePrims_eq : codePrims Model.Blake2bSimd.compress = codePrims compress := by
  unfold codePrims; rw [simd_codeBlake2b_eq]

theorem simd_codeBoxPrims_eq : codeBoxPrims Model.Blake2bSimd.compress = codeBoxPrims compress := by
  unfold codeBoxPrims; rw [simd_codeBlake2b_eq]

theorem optBytes_eq_keyOpt (b : Bytes) : optBytes b = keyOpt b := rfl

theorem optBytes_getD (b : Bytes) : (optBytes b).getD [] = b := by
  unfold optBytes
  cases b with
  | nil => rfl
  | cons x xs => rfl

theorem optBytes_len (b : Bytes) (h : b = [] ∨ b.length = 16) : ∀ s, optBytes b = some s → s.length = 16 := by
  intro s hs
  unfold optBytes at hs
  cases b with
  | nil => simp at hs
  | cons x xs =>
    simp only [List.isEmpty_cons, Bool.false_eq_true, if_false, Option.some.injEq] at hs
    rcases h with h | h
    · cases h
    · rw [← hs]; exact h

/-- on valid arguments the code-level primitive (software backend) is the RFC 7693 function the models of
`crypto_kdf` / `crypto_kx` / `crypto_box_seal` are instantiated with -/
theorem codeBlake2b_eq_spec (n : Nat) (k s p m : Bytes) (hn : 1 ≤ n ∧ n ≤ 64) (hk : k.length ≤ 64)
    (hs : s = [] ∨ s.length = 16) (hp : p = [] ∨ p.length = 16) (hm : m.length + 128 < 2^128) :
    codeBlake2b compress n k s p m = Spec.Blake2b.hashSP n k s p m := by
  unfold codeBlake2b
  rw [optBytes_eq_keyOpt k,
    hashChunksC_model_eq_spec n k (optBytes s) (optBytes p) [m] hn hk (optBytes_len s hs) (optBytes_len p hp)
      (by simpa using hm)]
  simp only [optBytes_getD, List.flatten_cons, List.flatten_nil, List.append_nil]

/-- … and so is the SIMD backend's -/
theorem simd_codeBlake2b_eq_spec (n : Nat) (k s p m : Bytes) (hn : 1 ≤ n ∧ n ≤ 64) (hk : k.length ≤ 64)
    (hs : s = [] ∨ s.length = 16) (hp : p = [] ∨ p.length = 16) (hm : m.length + 128 < 2^128) :
    codeBlake2b Model.Blake2bSimd.compress n k s p m = Spec.Blake2b.hashSP n k s p m := by
  rw [simd_codeBlake2b_eq]; exact codeBlake2b_eq_spec n k s p m hn hk hs hp hm

theorem zeros_length (n : Nat) : (zeros n).length = n := by simp [zeros]

/-- `crypto_kdf_derive_from_key` with the code's BLAKE2b (either backend) = the model run by the driver -/
theorem kdfDerive_code_eq_spec (len id : Nat) (ctx key : Bytes) (hc : ctx.length = 8) (hk : key.length ≤ 64) :
    Model.Curve.kdfDerive (codePrims compress) len id ctx key =
      Model.Curve.kdfDerive Model.Curve.specPrims len id ctx key := by
  unfold Model.Curve.kdfDerive
  by_cases h : len < 16 ∨ 64 < len
  · rw [if_pos h, if_pos h]
  · rw [if_neg h, if_neg h]
    show Outcome.ok (codeBlake2b compress len key _ _ []) = Outcome.ok (Spec.Blake2b.hashSP len key _ _ [])
    rw [codeBlake2b_eq_spec len key _ _ [] (by omega) hk
      (Or.inr (by rw [List.length_append, zeros_length, Proofs.Blake2b.toLE_length]))
      (Or.inr (by rw [List.length_append, zeros_length, hc])) (by simp)]

theorem kx_code_eq_spec (cpk spk shared : Bytes) (hl : (shared ++ cpk ++ spk).length + 128 < 2^128) :
    Model.Curve.kx (codePrims compress) cpk spk shared = Model.Curve.kx Model.Curve.specPrims cpk spk shared := by
  unfold Model.Curve.kx
  show (let keys := codeBlake2b compress 64 [] [] [] (shared ++ cpk ++ spk); (keys.take 32, keys.drop 32)) = _
  rw [codeBlake2b_eq_spec 64 [] [] [] _ (by omega) (by simp) (Or.inl rfl) (Or.inl rfl) hl]
  rfl

theorem kxSeedKeypair_code_eq_spec (seed : Bytes) (hl : seed.length + 128 < 2^128) :
    Model.Curve.kxSeedKeypair (codePrims compress) seed = Model.Curve.kxSeedKeypair Model.Curve.specPrims seed := by
  unfold Model.Curve.kxSeedKeypair
  show (let sk := codeBlake2b compress 32 [] [] [] seed; (Model.Curve.scalarmultBase (codePrims compress) sk, sk)) = _
  rw [codeBlake2b_eq_spec 32 [] [] [] _ (by omega) (by simp) (Or.inl rfl) (Or.inl rfl) hl]
  rfl

theorem sealNonce_code_eq_spec (epk rpk : Bytes) (hl : (epk ++ rpk).length + 128 < 2^128) :
    Model.SecretBox.sealNonce (codeBoxPrims compress) epk rpk = Model.SecretBox.sealNonce Model.boxPrims epk rpk := by
  unfold Model.SecretBox.sealNonce
  show codeBlake2b compress 24 [] [] [] (epk ++ rpk) = Spec.Blake2b.hash 24 [] (epk ++ rpk)
  rw [codeBlake2b_eq_spec 24 [] [] [] _ (by omega) (by simp) (Or.inl rfl) (Or.inl rfl) hl]
  rfl

end DryocVerif.Proofs.Blake2bBackend

section AxiomCheck
open DryocVerif.Proofs.Blake2bBackend
#print axioms simd_longhash_eq
#print axioms simd_codePrims_eq
#print axioms kdfDerive_code_eq_spec
#print axioms kx_code_eq_spec
#print axioms sealNonce_code_eq_spec
end AxiomCheck
