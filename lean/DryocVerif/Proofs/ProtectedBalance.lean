import DryocVerif.Proofs.ProtectedRelExtra
/-
C15, allocation / release balance: every block handed out by `PageAlignedAllocator::allocate` is
given back by `deallocate` exactly once (no leak, no double free), over a whole run plus the final
teardown.

The model logs releases (`Mach.rel`) but not allocations.  The allocation log is therefore a GHOST:
`stepAllocs c s t` lists the sizes the token `t` passes to `alloc` in state `s`, mirroring the
branches of the model functions that reach `alloc` (`vecResize` when it reallocates, `vecClone` of
a non-empty vector; nothing else calls `alloc`).  It is tied to the model by `stepAllocs_brk`: the
bump pointer `brk` — which only `alloc` moves, by `size / P + 3` pages per call — advances in every
step by exactly the pages of the sizes in the ghost log.
-/
namespace DryocVerif.Proofs.Protected
open DryocVerif DryocVerif.Model.Protected

/-! ### the ghost allocation log -/

/-- the block owned by a container of capacity `cap` (an empty `Vec` owns none) -/
def capL (cap : Nat) : List Nat := if cap = 0 then [] else [cap]

/-- sizes of the release events logged so far in the current token -/
def sz (m : Mach) : List Nat := m.rel.map Prod.fst

/-- sizes of the blocks owned by the live slots -/
def capsOf (slots : List Slot) : List Nat :=
  slots.flatMap fun sl => if sl.gone then [] else capL sl.o.v.cap

/-- `Vec::resize(n, 0)` calls `allocate` iff it reallocates, with the grown capacity -/
def vecResizeA (v : PVec) (n : Nat) : List Nat :=
  if n ≤ v.len then [] else if n ≤ v.cap then [] else [growCap v.cap n]

/-- `Vec::clone` calls `allocate(len)` iff the vector is not empty -/
def vecCloneA (v : PVec) : List Nat := if v.len = 0 then [] else [v.len]

def newBytesA (c : Cfg) : List Nat := if c.isArr then vecResizeA PVec.empty c.n else []

/-- `new`: `new_bytes()`, then (resizable container only) `resize(n, 0)` of the empty vector -/
def opNewA (c : Cfg) : List Nat :=
  newBytesA c ++ (if c.isArr then [] else vecResizeA PVec.empty c.n)

/-- resize of a locked region / clone of a locked region: a fresh vector is sized -/
def lockedResizeA (n : Nat) : List Nat := vecResizeA PVec.empty n

def doFromSliceA (c : Cfg) (n : Nat) : List Nat :=
  if c.isArr then (if n ≠ c.n then [] else newBytesA c) else vecResizeA PVec.empty n

def liveA (s : State) (i : Nat) (f : Slot → List Nat) : List Nat :=
  match s.slots[i]? with
  | none => []
  | some sl => if sl.gone then [] else f sl

/-- `Clone::clone` of an object (`cloneObj`): the clone's vector, or (locked forms) a freshly sized one -/
def cloneObjA (c : Cfg) (o : Obj) : List Nat :=
  match o.st with
  | .plain => vecCloneA o.v
  | .prot .unlocked .rw => vecCloneA o.v
  | .prot .unlocked .ro => vecCloneA o.v
  | .prot .locked .rw => if c.isArr then [] else lockedResizeA o.v.len
  | .prot .locked .ro => if c.isArr then [] else lockedResizeA o.v.len
  | .prot _ .na => []

/-- `clonefrom`: one clone; for the locked forms the harness' probe clone first, and the real one only if the
probe did not panic -/
def cloneFromA (c : Cfg) (s : State) (i j : Nat) : List Nat :=
  if j = i then [] else
  match s.slots[i]?, s.slots[j]? with
  | some d, some src =>
    if d.gone || src.gone || decide (d.o.st ≠ src.o.st) then [] else
    if isLockedSt src.o.st then
      match cloneObj c s.m src.o with
      | none => []
      | some (_, none) => cloneObjA c src.o
      | some (_, some _) => cloneObjA c src.o ++ cloneObjA c src.o
    else cloneObjA c src.o
  | _, _ => []

/-- the `visit_seq` loop: one `resize(len + 1)` per element -/
def seqFillA (c : Cfg) (b : UInt8) : Nat → Mach × PVec → List Nat
  | 0, _ => []
  | k + 1, r =>
    vecResizeA r.2 (r.2.len + 1) ++
      seqFillA c b k ((vecResize c r.1 r.2 (r.2.len + 1)).1, setV (vecResize c r.1 r.2 (r.2.len + 1)).2 r.2.len b)

def opSerdeA (c : Cfg) (s : State) (json : Bool) (n : Nat) : List Nat :=
  if json then (if c.isArr then newBytesA c else seqFillA c 0x5a n (s.m, PVec.empty)) else doFromSliceA c n

/-- the sizes token `t` passes to `alloc` in state `s` (ghost; see the header) -/
def stepAllocsCore (c : Cfg) (s : State) (t : Tok) : List Nat :=
  match t.op with
  | .new => opNewA c
  | .clone => liveA s t.idx fun sl =>
      match sl.o.st with
      | .plain => vecCloneA sl.o.v
      | .prot .unlocked .rw => vecCloneA sl.o.v
      | .prot .unlocked .ro => vecCloneA sl.o.v
      | .prot .locked .rw => if c.isArr then [] else lockedResizeA sl.o.v.len
      | .prot .locked .ro => if c.isArr then [] else lockedResizeA sl.o.v.len
      | .prot _ .na => []
  | .resize n _ => liveA s t.idx fun sl =>
      if c.isArr then [] else
      match sl.o.st with
      | .plain => vecResizeA sl.o.v n
      | .prot .unlocked .rw => vecResizeA sl.o.v n
      | .prot .locked .rw => lockedResizeA n
      | _ => []
  | .fsl n => doFromSliceA c n
  | .fsro n => doFromSliceA c n
  | .newlocked => newBytesA c
  | .genlocked => newBytesA c
  | .newrolocked => newBytesA c
  | .genrolocked => newBytesA c
  | .clonefrom j => cloneFromA c s t.idx j
  | .stacklock => if c.isArr then newBytesA c else []
  | .serde json n => opSerdeA c s json n
  | _ => []

/-- the sizes the harness token `t` (`step`: the release log is reset first) passes to `alloc` in state `s` -/
def stepAllocs (c : Cfg) (s : State) (t : Tok) : List Nat := stepAllocsCore c (resetRel s) t

/-! ### sizes of the release log, primitive by primitive (no hypothesis on `c.wipe`) -/

@[simp] theorem sz_alloc (c : Cfg) (m : Mach) (n : Nat) : sz (alloc c m n).1 = sz m := rfl

theorem sz_vecDrop (c : Cfg) (m : Mach) (v : PVec) : sz (vecDrop c m v) = sz m ++ capL v.cap := by
  unfold vecDrop capL
  by_cases h : v.cap = 0
  · simp [h]
  · simp [h, sz, dealloc_rel]

theorem sz_plainDrop (c : Cfg) (m : Mach) (v : PVec) : sz (plainDrop c m v) = sz m ++ capL v.cap := by
  unfold plainDrop; rw [sz_vecDrop]; rfl

theorem sz_protDrop (c : Cfg) (m : Mach) (v : PVec) (lm : LM) (pm : PM) :
    sz (protDrop c m v lm pm) = sz m ++ capL v.cap := by
  unfold protDrop
  rw [sz_plainDrop]
  simp [sz]
  rfl

theorem sz_objDrop (c : Cfg) (m : Mach) (o : Obj) : sz (objDrop c m o) = sz m ++ capL o.v.cap := by
  unfold objDrop; split
  · exact sz_plainDrop c m _
  · exact sz_protDrop c m _ _ _

theorem sz_lockV (c : Cfg) (m : Mach) (v : PVec) (pm : LM × PM) :
    sz (lockV c m v pm).1 = sz m ++ (if (lockV c m v pm).2 = true then [] else capL v.cap) := by
  unfold lockV
  by_cases h : (dryocMlock c m (ptr c v) v.len).2 = true
  · simp [h, sz]
  · simp only [h, if_false, Bool.false_eq_true]
    rw [sz_protDrop]; simp [sz]

@[simp] theorem sz_mprotect (c : Cfg) (m : Mach) (a l : Nat) (p : Perm) :
    sz (dryocMprotect c m a l p) = sz m := rfl

@[simp] theorem sz_munlock (c : Cfg) (m : Mach) (a l : Nat) : sz (dryocMunlock c m a l) = sz m := by
  simp [sz]

theorem capL_growCap (cap n : Nat) : capL (growCap cap n) = [growCap cap n] := by
  unfold capL; rw [if_neg]; have := (growCap_ge cap n).2; omega

/-! ### balance of the primitives

`Bal z O m O' m' A`: going from machine `m` (the operation's containers owning the blocks `O`) to
`m'` (owning `O'`) while allocating `A`, the number of blocks of size `z` is conserved:
owned after + released after = owned before + released before + allocated. -/

def Bal (z : Nat) (O : List Nat) (m : Mach) (O' : List Nat) (m' : Mach) (A : List Nat) : Prop :=
  O'.count z + (sz m').count z = O.count z + (sz m).count z + A.count z

theorem vecResize_bal (z : Nat) (c : Cfg) (m : Mach) (v : PVec) (n : Nat) (b : UInt8 := 0) :
    Bal z (capL v.cap) m (capL (vecResize c m v n b).2.cap) (vecResize c m v n b).1 (vecResizeA v n) := by
  unfold Bal vecResize vecResizeA
  by_cases h1 : n ≤ v.len
  · simp [h1]
  · by_cases h2 : n ≤ v.cap
    · simp [h1, h2]
    · simp only [h1, h2, if_false]
      rw [sz_vecDrop, sz_alloc, capL_growCap, List.count_append]
      omega

theorem vecClone_bal (z : Nat) (c : Cfg) (m : Mach) (v : PVec) :
    Bal z [] m (capL (vecClone c m v).2.cap) (vecClone c m v).1 (vecCloneA v) := by
  unfold Bal
  rw [vecClone_cap]
  have : sz (vecClone c m v).1 = sz m := by unfold sz; rw [vecClone_rel]
  rw [this]
  unfold capL vecCloneA
  by_cases h : v.len = 0
  · simp [h]
  · simp only [h, if_false, List.count_nil]; omega

theorem newBytes_bal (z : Nat) (c : Cfg) (m : Mach) :
    Bal z [] m (capL (newBytes c m).2.cap) (newBytes c m).1 (newBytesA c) := by
  unfold newBytes newBytesA
  by_cases h : c.isArr = true
  · simp only [h, if_true]
    have := vecResize_bal z c m PVec.empty c.n
    simpa [capL, Bal] using this
  · simp [h, Bal, capL]

theorem lockV_bal (z : Nat) (c : Cfg) (m : Mach) (v : PVec) (pm : LM × PM) :
    Bal z (capL v.cap) m (if (lockV c m v pm).2 = true then capL v.cap else []) (lockV c m v pm).1 [] := by
  unfold Bal
  rw [sz_lockV]
  by_cases h : (lockV c m v pm).2 = true
  · simp [h]
  · simp [h, List.count_append]; omega

theorem protDrop_bal (z : Nat) (c : Cfg) (m : Mach) (v : PVec) (lm : LM) (pm : PM) :
    Bal z (capL v.cap) m [] (protDrop c m v lm pm) [] := by
  unfold Bal; rw [sz_protDrop, List.count_append]; simp; omega

theorem objDrop_bal (z : Nat) (c : Cfg) (m : Mach) (o : Obj) :
    Bal z (capL o.v.cap) m [] (objDrop c m o) [] := by
  unfold Bal; rw [sz_objDrop, List.count_append]; simp; omega

theorem plainDrop_bal (z : Nat) (c : Cfg) (m : Mach) (v : PVec) :
    Bal z (capL v.cap) m [] (plainDrop c m v) [] := by
  unfold Bal; rw [sz_plainDrop, List.count_append]; simp; omega

@[simp] theorem writeV_cap (v : PVec) (src : Bytes) : (writeV v src).cap = v.cap := rfl

/-- resize of a locked region: on success the slot owns the new block and the old one is released; on
failure (panic) the slot keeps the old block and the new one is released -/
theorem lockedResize_bal (z : Nat) (c : Cfg) (m : Mach) (v : PVec) (rc : LM × PM) (n : Nat) (b : UInt8 := 0) :
    Bal z (capL v.cap) m
      (match (lockedResize c m v rc n b).2 with
       | some nv => capL nv.cap
       | none => capL v.cap)
      (lockedResize c m v rc n b).1 (lockedResizeA n) := by
  have h1 := vecResize_bal z c m PVec.empty n b
  have h2 := lockV_bal z c (vecResize c m PVec.empty n b).1 (vecResize c m PVec.empty n b).2 recNew
  unfold Bal at *
  unfold lockedResize lockedResizeA
  have e0 : capL PVec.empty.cap = [] := rfl
  rw [e0] at h1
  by_cases h : (lockV c (vecResize c m PVec.empty n b).1 (vecResize c m PVec.empty n b).2 recNew).2 = true
  · simp only [h, if_true, List.count_nil] at h1 h2 ⊢
    rw [sz_protDrop, List.count_append]
    simp only [writeV_cap]
    omega
  · simp only [h, if_false, Bool.false_eq_true, List.count_nil] at h1 h2 ⊢
    omega

/-! ### balance of the tokens -/

/-- conservation for one result `r` obtained from state `s` with allocations `A` -/
def SBal (z : Nat) (s : State) (r : Res × State) (A : List Nat) : Prop :=
  (capsOf r.2.slots).count z + (sz r.2.m).count z =
    (capsOf s.slots).count z + (sz s.m).count z + A.count z

theorem capsOf_append (l1 l2 : List Slot) : capsOf (l1 ++ l2) = capsOf l1 ++ capsOf l2 := by
  simp [capsOf]

theorem capsOf_cons (sl : Slot) (l : List Slot) :
    capsOf (sl :: l) = (if sl.gone then [] else capL sl.o.v.cap) ++ capsOf l := by
  simp [capsOf]

theorem capsOf_nil : capsOf [] = [] := rfl

theorem sbal_refl (z : Nat) (s : State) (g : Res) : SBal z s (g, s) [] := by simp [SBal]

/-- the slot `i` is replaced, the machine goes from `s.m` to `m'` -/
theorem sbal_set (z : Nat) {s : State} {l1 l2 : List Slot} {sl : Slot} {i : Nat}
    (hs : s.slots = l1 ++ sl :: l2) (hi : l1.length = i) (hg : sl.gone = false)
    (res : Res) (m' : Mach) (sl' : Slot) (A : List Nat)
    (hb : Bal z (capL sl.o.v.cap) s.m (if sl'.gone then [] else capL sl'.o.v.cap) m' A) :
    SBal z s (res, setSlot s m' i sl') A := by
  unfold SBal Bal at *
  simp only [setSlot, hs, ← hi, set_split, capsOf_append, capsOf_cons, List.count_append, hg,
    Bool.false_eq_true, if_false]
  omega

theorem sbal_push (z : Nat) (s : State) (res : Res) (m' : Mach) (st : St) (v : PVec) (rnd : Bool)
    (rc : LM × PM) (A : List Nat) (hb : Bal z [] s.m (capL v.cap) m' A) : SBal z s (res, push s m' st v rnd rc) A := by
  unfold SBal Bal at *
  simp only [push, capsOf_append, capsOf_cons, capsOf_nil, List.count_append, Bool.false_eq_true,
    if_false, List.count_nil] at *
  omega

theorem sbal_mach (z : Nat) (s : State) (res : Res) (m' : Mach) (A : List Nat)
    (hb : Bal z [] s.m [] m' A) : SBal z s (res, ⟨m', s.slots⟩) A := by
  unfold SBal Bal at *
  simp only [List.count_nil] at *
  omega

theorem sbal_withLive (z : Nat) (s : State) (i : Nat) (g : Res) (f : Slot → Res × State)
    (fA : Slot → List Nat)
    (h : ∀ sl l1 l2, s.slots = l1 ++ sl :: l2 → l1.length = i → sl.gone = false →
      SBal z s (f sl) (fA sl)) :
    SBal z s (withLive s i g f) (liveA s i fA) := by
  unfold withLive withSlot liveA
  cases hs : s.slots[i]? with
  | none => exact sbal_refl z s _
  | some sl =>
    simp only []
    by_cases hg : sl.gone = true
    · simp only [hg, if_true]; exact sbal_refl z s _
    · simp only [hg, if_false, Bool.false_eq_true]
      obtain ⟨l1, l2, h1, h2⟩ := slot_split hs
      exact h sl l1 l2 h1 h2 (by simpa using hg)

/-- a token that changes neither the set of blocks nor the log -/
theorem sbal_withLive_nil (z : Nat) (s : State) (i : Nat) (g : Res) (f : Slot → Res × State)
    (h : ∀ sl l1 l2, s.slots = l1 ++ sl :: l2 → l1.length = i → sl.gone = false →
      SBal z s (f sl) []) :
    SBal z s (withLive s i g f) [] := by
  have := sbal_withLive z s i g f (fun _ => []) h
  have e : liveA s i (fun _ => []) = [] := by
    unfold liveA; cases s.slots[i]? <;> simp
  rwa [e] at this

section ops
variable (z : Nat) (c : Cfg) {s : State} {l1 l2 : List Slot} {sl : Slot} {i : Nat}

theorem sbal_doLock (hs : s.slots = l1 ++ sl :: l2) (hi : l1.length = i) (hg : sl.gone = false)
    (rc : LM × PM) (pm : PM) : SBal z s (doLock c s i sl rc pm) [] := by
  have h2 := lockV_bal z c s.m sl.o.v rc
  unfold doLock
  by_cases h : (lockV c s.m sl.o.v rc).2 = true
  · simp only [h, if_true] at h2 ⊢
    exact sbal_set z hs hi hg _ _ _ _ (by simpa [hg] using h2)
  · simp only [h, if_false, Bool.false_eq_true] at h2 ⊢
    exact sbal_set z hs hi hg _ _ _ _ (by simpa using h2)

theorem sbal_doNewLocked (s : State) (m : Mach) (v : PVec) (src : Option Bytes) (ro rnd : Bool)
    (A : List Nat) (hb : Bal z [] s.m (capL v.cap) m A) :
    SBal z s (doNewLocked c s m v src ro rnd) A := by
  have h2 := lockV_bal z c m v recNew
  unfold doNewLocked
  by_cases h : (lockV c m v recNew).2 = true
  · simp only [h, if_true] at h2 ⊢
    apply sbal_push
    have hb' : Bal z [] s.m (capL v.cap) (lockV c m v recNew).1 A := by
      unfold Bal at *
      simp only [List.count_nil] at *
      omega
    cases src <;> cases ro <;> exact hb'
  · simp only [h, if_false, Bool.false_eq_true] at h2 ⊢
    apply sbal_mach
    unfold Bal at *
    simp only [List.count_nil] at *
    omega

theorem sbal_doCloneLocked (s : State) (sl : Slot) (ro : Bool) :
    SBal z s (doCloneLocked c s sl ro) (lockedResizeA sl.o.v.len) := by
  have h1 := lockedResize_bal z c s.m PVec.empty (.locked, .rw) sl.o.v.len
  have e0 : capL PVec.empty.cap = [] := rfl
  rw [e0] at h1
  unfold doCloneLocked
  cases hr : (lockedResize c s.m PVec.empty (.locked, .rw) sl.o.v.len).2 with
  | none =>
    rw [hr] at h1
    simp only [hr]
    exact sbal_mach z s _ _ _ h1
  | some nv =>
    rw [hr] at h1
    simp only [hr]
    apply sbal_push
    cases ro <;> exact h1

theorem sbal_doFromSlice (s : State) (n : Nat) (ro : Bool) :
    SBal z s (doFromSlice c s n ro) (doFromSliceA c n) := by
  unfold doFromSlice doFromSliceA
  by_cases ha : c.isArr = true
  · simp only [ha, if_true]
    by_cases hn : n ≠ c.n
    · rw [if_pos hn, if_pos hn]; exact sbal_refl z s _
    · rw [if_neg hn, if_neg hn]
      exact sbal_doNewLocked z c s _ _ _ _ _ _ (newBytes_bal z c s.m)
  · simp only [ha, if_false, Bool.false_eq_true]
    exact sbal_doNewLocked z c s _ _ _ _ _ _ (vecResize_bal z c s.m PVec.empty n)

theorem sbal_opNewLocked (s : State) (ro rnd : Bool) :
    SBal z s (opNewLocked c s ro rnd) (newBytesA c) := by
  unfold opNewLocked
  exact sbal_doNewLocked z c s _ _ _ _ _ _ (newBytes_bal z c s.m)

theorem newBytes_nonarr (m : Mach) (ha : c.isArr = false) : newBytes c m = (m, PVec.empty) := by
  unfold newBytes; simp [ha]

theorem sbal_opNew (s : State) : SBal z s (opNew c s) (opNewA c) := by
  have h1 := newBytes_bal z c s.m
  unfold opNew opNewA
  simp only []
  by_cases hl : (newBytes c s.m).2.len = c.n
  · simp only [hl, if_true]
    by_cases ha : c.isArr = true
    · simp only [ha, if_true, List.append_nil]
      exact sbal_push z s _ _ _ _ _ _ _ h1
    · have ha' : c.isArr = false := by simpa using ha
      rw [newBytes_nonarr c s.m ha'] at hl
      have hn : c.n = 0 := by simpa using hl.symm
      simp only [ha, if_false, Bool.false_eq_true, hn]
      have : vecResizeA PVec.empty 0 = [] := rfl
      rw [this, List.append_nil]
      exact sbal_push z s _ _ _ _ _ _ _ h1
  · simp only [hl, if_false]
    by_cases ha : c.isArr = true
    · simp only [ha, if_true, List.append_nil]
      have h2 := plainDrop_bal z c (newBytes c s.m).1 (newBytes c s.m).2
      apply sbal_mach
      unfold Bal at *
      simp only [List.count_nil] at *
      omega
    · have ha' : c.isArr = false := by simpa using ha
      simp only [ha, if_false, Bool.false_eq_true]
      have h2 := vecResize_bal z c (newBytes c s.m).1 (newBytes c s.m).2 c.n
      have e : (newBytes c s.m).2 = PVec.empty := by rw [newBytes_nonarr c s.m ha']
      apply sbal_push
      rw [e] at h2 ⊢
      unfold Bal at *
      rw [List.count_append]
      have e0 : capL PVec.empty.cap = [] := rfl
      rw [e, e0] at h1
      rw [e0] at h2
      simp only [List.count_nil] at *
      omega

theorem sbal_opDrop (s : State) (i : Nat) : SBal z s (opDrop c s i) [] := by
  unfold opDrop
  apply sbal_withLive_nil
  intro sl l1 l2 hs hi hg
  exact sbal_set z hs hi hg _ _ _ _ (by simpa using objDrop_bal z c s.m sl.o)

theorem sbal_opLock (s : State) (i : Nat) : SBal z s (opLock c s i) [] := by
  unfold opLock
  apply sbal_withLive_nil
  intro sl l1 l2 hs hi hg
  split
  · exact sbal_doLock z c hs hi hg _ _
  · exact sbal_doLock z c hs hi hg _ _
  · exact sbal_refl z s _

/-- replacing a slot by one with the same capacity and liveness, machine with the same log -/
theorem sbal_set_same (hs : s.slots = l1 ++ sl :: l2) (hi : l1.length = i) (hg : sl.gone = false)
    (res : Res) (m' : Mach) (sl' : Slot) (h1 : sz m' = sz s.m) (h2 : sl'.gone = false)
    (h3 : sl'.o.v.cap = sl.o.v.cap) : SBal z s (res, setSlot s m' i sl') [] := by
  apply sbal_set z hs hi hg
  unfold Bal
  simp [h1, h2, h3]

theorem sbal_opFill (s : State) (i : Nat) (b : UInt8) : SBal z s (opFill s i b) [] := by
  unfold opFill
  apply sbal_withLive_nil
  intro sl l1 l2 hs hi hg
  split
  · exact sbal_set_same z hs hi hg _ _ _ rfl hg rfl
  · exact sbal_set_same z hs hi hg _ _ _ rfl hg rfl
  · exact sbal_refl z s _

theorem sbal_opUnlock (s : State) (i : Nat) : SBal z s (opUnlock c s i) [] := by
  unfold opUnlock
  apply sbal_withLive_nil
  intro sl l1 l2 hs hi hg
  split
  · exact sbal_refl z s _
  · exact sbal_set_same z hs hi hg _ _ _ (by simp) hg rfl

theorem sbal_opProtect (s : State) (i : Nat) (pm : PM) : SBal z s (opProtect c s i pm) [] := by
  unfold opProtect
  apply sbal_withLive_nil
  intro sl l1 l2 hs hi hg
  split
  · exact sbal_refl z s _
  · exact sbal_set_same z hs hi hg _ _ _ (by simp) hg rfl

theorem sbal_opNa (s : State) (i : Nat) : SBal z s (opNa c s i) [] := by
  unfold opNa
  apply sbal_withLive_nil
  intro sl l1 l2 hs hi hg
  split
  · exact sbal_set_same z hs hi hg _ _ _ (by simp) hg rfl
  · exact sbal_refl z s _

theorem sbal_probe (s : State) (i : Nat) (f : Slot → Res × State)
    (hf : ∀ sl, ∃ r, f sl = (r, s)) : SBal z s (withLive s i .na f) [] := by
  apply sbal_withLive_nil
  intro sl _ _ _ _ _
  obtain ⟨r, hr⟩ := hf sl
  rw [hr]; exact sbal_refl z s _

theorem sbal_cloneLocked_arr (s : State) (sl : Slot) (ro : Bool) :
    SBal z s (if c.isArr then (.na, s) else doCloneLocked c s sl ro)
      (if c.isArr then [] else lockedResizeA sl.o.v.len) := by
  by_cases ha : c.isArr = true
  · simp only [ha, if_true]; exact sbal_refl z s _
  · simp only [ha, if_false, Bool.false_eq_true]; exact sbal_doCloneLocked z c s sl ro

theorem sbal_opClone (s : State) (i : Nat) :
    SBal z s (opClone c s i) (liveA s i fun sl =>
      match sl.o.st with
      | .plain => vecCloneA sl.o.v
      | .prot .unlocked .rw => vecCloneA sl.o.v
      | .prot .unlocked .ro => vecCloneA sl.o.v
      | .prot .locked .rw => if c.isArr then [] else lockedResizeA sl.o.v.len
      | .prot .locked .ro => if c.isArr then [] else lockedResizeA sl.o.v.len
      | .prot _ .na => []) := by
  unfold opClone
  apply sbal_withLive
  intro sl l1 l2 hs hi hg
  have hc := vecClone_bal z c s.m sl.o.v
  cases hst : sl.o.st with
  | plain => exact sbal_push z s _ _ _ _ _ _ _ hc
  | prot lm pm =>
    cases lm <;> cases pm
    · exact sbal_push z s _ _ _ _ _ _ _ hc
    · exact sbal_push z s _ _ _ _ _ _ _ hc
    · exact sbal_refl z s _
    · exact sbal_cloneLocked_arr z c s sl true
    · exact sbal_cloneLocked_arr z c s sl false
    · exact sbal_refl z s _

theorem sbal_opResize (s : State) (i n : Nat) (b : UInt8 := 0) :
    SBal z s (opResize c s i n b) (liveA s i fun sl =>
      if c.isArr then [] else
      match sl.o.st with
      | .plain => vecResizeA sl.o.v n
      | .prot .unlocked .rw => vecResizeA sl.o.v n
      | .prot .locked .rw => lockedResizeA n
      | _ => []) := by
  unfold opResize
  apply sbal_withLive
  intro sl l1 l2 hs hi hg
  by_cases ha : c.isArr = true
  · simp only [ha, if_true]; exact sbal_refl z s _
  · simp only [ha, if_false, Bool.false_eq_true]
    have hv := vecResize_bal z c s.m sl.o.v n b
    have hvs : ∀ st, SBal z s (Res.ok, setSlot s (vecResize c s.m sl.o.v n b).1 i
        { sl with o := ⟨st, (vecResize c s.m sl.o.v n b).2, sl.o.rcd⟩, rnd := sl.rnd && decide (0 < n) })
        (vecResizeA sl.o.v n) :=
      fun st => sbal_set z hs hi hg _ _ _ _ (by simpa [hg] using hv)
    have hls : SBal z s
        (match (lockedResize c s.m sl.o.v sl.o.rcd n b).2 with
         | none => (Res.panic, ⟨(lockedResize c s.m sl.o.v sl.o.rcd n b).1, s.slots⟩)
         | some nv => (Res.ok, setSlot s (lockedResize c s.m sl.o.v sl.o.rcd n b).1 i
            { sl with o := ⟨.prot .locked .rw, nv, (.locked, .rw)⟩, rnd := sl.rnd && decide (0 < n) }))
        (lockedResizeA n) := by
      have hl := lockedResize_bal z c s.m sl.o.v sl.o.rcd n b
      cases hr : (lockedResize c s.m sl.o.v sl.o.rcd n b).2 with
      | none =>
        rw [hr] at hl
        simp only []
        have e : (⟨(lockedResize c s.m sl.o.v sl.o.rcd n b).1, s.slots⟩ : State) =
            setSlot s (lockedResize c s.m sl.o.v sl.o.rcd n b).1 i sl := by
          simp only [setSlot, hs, ← hi, set_split]
        rw [e]
        exact sbal_set z hs hi hg _ _ _ _ (by simpa [hg] using hl)
      | some nv =>
        rw [hr] at hl
        simp only []
        exact sbal_set z hs hi hg _ _ _ _ (by simpa [hg] using hl)
    cases hst : sl.o.st with
    | plain => exact hvs _
    | prot lm pm =>
      cases lm <;> cases pm
      · exact sbal_refl z s _
      · exact hvs _
      · exact sbal_refl z s _
      · exact sbal_refl z s _
      · exact hls
      · exact sbal_refl z s _

theorem sbal_opZeroize (s : State) (i : Nat) : SBal z s (opZeroize c s i) [] := by
  unfold opZeroize
  apply sbal_withLive_nil
  intro sl l1 l2 hs hi hg
  split
  · exact sbal_set_same z hs hi hg _ _ _ rfl hg rfl
  · exact sbal_set_same z hs hi hg _ _ _ (by simp [sz]) hg rfl

theorem cloneLockedObj_bal (m : Mach) (o : Obj) (ro : Bool) :
    Bal z [] m (match (cloneLockedObj c m o ro).2 with
      | some o' => capL o'.v.cap
      | none => []) (cloneLockedObj c m o ro).1 (lockedResizeA o.v.len) := by
  have h1 := lockedResize_bal z c m PVec.empty (.locked, .rw) o.v.len
  have e0 : capL PVec.empty.cap = [] := rfl
  rw [e0] at h1
  cases hr : (lockedResize c m PVec.empty (.locked, .rw) o.v.len).2 with
  | none =>
    rw [hr] at h1
    simp only [cloneLockedObj, hr]
    exact h1
  | some nv =>
    rw [hr] at h1
    simp only [cloneLockedObj, hr]
    cases ro <;> exact h1

/-- whether a type state has a `Clone` does not depend on the machine -/
theorem cloneObj_none_indep {m m' : Mach} {o : Obj} (h : cloneObj c m' o = none) : cloneObj c m o = none := by
  unfold cloneObj at h ⊢
  split <;> simp_all

/-- balance of `cloneObj` (when the state has a `Clone`) -/
theorem cloneObj_bal (m : Mach) (o : Obj) (r : Mach × Option Obj) (hr : cloneObj c m o = some r) :
    Bal z [] m (match r.2 with
      | some o' => capL o'.v.cap
      | none => []) r.1 (cloneObjA c o) := by
  have hc := vecClone_bal z c m o.v
  unfold cloneObj at hr
  unfold cloneObjA
  split at hr
  · rename_i hst; simp only [Option.some.injEq] at hr; rw [← hr, hst]; exact hc
  · rename_i hst; simp only [Option.some.injEq] at hr; rw [← hr, hst]; exact hc
  · rename_i hst; simp only [Option.some.injEq] at hr; rw [← hr, hst]; exact hc
  · rename_i hst
    split at hr
    · simp at hr
    · rename_i ha
      simp only [Option.some.injEq] at hr; rw [← hr, hst]
      simp only [ha, if_false, Bool.false_eq_true]
      exact cloneLockedObj_bal z c m o false
  · rename_i hst
    split at hr
    · simp at hr
    · rename_i ha
      simp only [Option.some.injEq] at hr; rw [← hr, hst]
      simp only [ha, if_false, Bool.false_eq_true]
      exact cloneLockedObj_bal z c m o true
  · simp at hr

theorem sbal_opCloneFrom (s : State) (i j : Nat) :
    SBal z s (opCloneFrom c s i j) (cloneFromA c s i j) := by
  unfold opCloneFrom cloneFromA
  by_cases hji : j = i
  · simp only [hji, if_true]; exact sbal_refl z s _
  simp only [hji, if_false]
  cases hd : s.slots[i]? with
  | none => exact sbal_refl z s _
  | some d =>
  cases hsrc : s.slots[j]? with
  | none => exact sbal_refl z s _
  | some src =>
  simp only []
  by_cases hcond : (d.gone || src.gone || decide (d.o.st ≠ src.o.st)) = true
  · simp only [hcond, if_true]; exact sbal_refl z s _
  simp only [hcond, if_false, Bool.false_eq_true]
  have hg : d.gone = false := by
    cases hh : d.gone
    · rfl
    · simp [hh] at hcond
  obtain ⟨l1, l2, hs, hi⟩ := slot_split hd
  by_cases hl : isLockedSt src.o.st = true
  · simp only [hl, if_true]
    cases hp : cloneObj c s.m src.o with
    | none => exact sbal_refl z s _
    | some r1 =>
      have b1 := cloneObj_bal z c s.m src.o r1 hp
      obtain ⟨m1, ot⟩ := r1
      cases ot with
      | none => exact sbal_mach z s _ _ _ b1
      | some tmp =>
        dsimp only at b1 ⊢
        cases hq : cloneObj c m1 src.o with
        | none => rw [cloneObj_none_indep c hq] at hp; simp at hp
        | some r2 =>
          have b2 := cloneObj_bal z c m1 src.o r2 hq
          obtain ⟨m2, oo⟩ := r2
          cases oo with
          | none =>
            dsimp only at b2 ⊢
            have b3 := objDrop_bal z c m2 tmp
            apply sbal_mach
            unfold Bal at *
            simp only [List.count_nil, List.count_append] at *
            omega
          | some o =>
            dsimp only at b2 ⊢
            have b3 := objDrop_bal z c m2 d.o
            have b4 := objDrop_bal z c (objDrop c m2 d.o) tmp
            apply sbal_set z hs hi hg
            unfold Bal at *
            simp only [List.count_nil, List.count_append, hg, Bool.false_eq_true, if_false] at *
            omega
  · simp only [hl, if_false, Bool.false_eq_true]
    cases hp : cloneObj c s.m src.o with
    | none =>
      simp only []
      have : SBal z s (Res.na, s) [] := sbal_refl z s _
      unfold SBal at *
      unfold cloneObj at hp
      unfold cloneObjA
      split at hp <;> simp_all
    | some r1 =>
      have b1 := cloneObj_bal z c s.m src.o r1 hp
      obtain ⟨m1, oo⟩ := r1
      cases oo with
      | none => exact sbal_mach z s _ _ _ b1
      | some o =>
        dsimp only at b1 ⊢
        have b3 := objDrop_bal z c m1 d.o
        apply sbal_set z hs hi hg
        unfold Bal at *
        simp only [List.count_nil, hg, Bool.false_eq_true, if_false] at *
        omega

theorem sbal_opStackLock (s : State) : SBal z s (opStackLock c s) (if c.isArr then newBytesA c else []) := by
  unfold opStackLock
  by_cases ha : c.isArr = true
  · simp only [ha, if_true]
    exact sbal_doNewLocked z c s _ _ _ _ _ _ (newBytes_bal z c s.m)
  · simp only [ha, if_false, Bool.false_eq_true]; exact sbal_refl z s _

@[simp] theorem setV_cap (v : PVec) (i : Nat) (b : UInt8) : (setV v i b).cap = v.cap := rfl

theorem seqFill_bal (b : UInt8) (k : Nat) : ∀ r : Mach × PVec,
    Bal z (capL r.2.cap) r.1 (capL (seqFill c b k r).2.cap) (seqFill c b k r).1 (seqFillA c b k r) := by
  induction k with
  | zero => intro r; simp [seqFill, seqFillA, Bal]
  | succ k ih =>
    intro r
    have h1 := vecResize_bal z c r.1 r.2 (r.2.len + 1)
    have h2 := ih ((vecResize c r.1 r.2 (r.2.len + 1)).1, setV (vecResize c r.1 r.2 (r.2.len + 1)).2 r.2.len b)
    simp only [seqFill, seqFillA]
    unfold Bal at *
    simp only [setV_cap, List.count_append] at *
    omega

theorem sbal_opSerde (s : State) (json : Bool) (n : Nat) :
    SBal z s (opSerde c s json n) (opSerdeA c s json n) := by
  unfold opSerde opSerdeA
  by_cases hj : json = true
  · simp only [hj, if_true]
    by_cases ha : c.isArr = true
    · simp only [ha, if_true]
      have h1 := newBytes_bal z c s.m
      have h2 := lockV_bal z c (newBytes c s.m).1 (newBytes c s.m).2 recNew
      unfold doSerdeArrJson
      by_cases h : (lockV c (newBytes c s.m).1 (newBytes c s.m).2 recNew).2 = true
      · simp only [h, if_true] at h2 ⊢
        by_cases hn : n = c.n
        · simp only [hn, if_true]
          apply sbal_push
          unfold Bal at *
          simp only [List.count_nil, writeV_cap] at *
          omega
        · simp only [hn, if_false]
          have h3 := protDrop_bal z c (lockV c (newBytes c s.m).1 (newBytes c s.m).2 recNew).1
            (writeV (newBytes c s.m).2 (List.replicate (min n c.n) 0x5a)) .locked .rw
          apply sbal_mach
          unfold Bal at *
          simp only [List.count_nil, writeV_cap] at *
          omega
      · simp only [h, if_false, Bool.false_eq_true] at h2 ⊢
        apply sbal_mach
        unfold Bal at *
        simp only [List.count_nil] at *
        omega
    · simp only [ha, if_false, Bool.false_eq_true]
      have h1 := seqFill_bal z c 0x5a n (s.m, PVec.empty)
      exact sbal_doNewLocked z c s _ _ _ _ _ _ h1
  · simp only [hj, if_false, Bool.false_eq_true]
    exact sbal_doFromSlice z c s n false

end ops

/-- **one token conserves blocks**: for every size `z`, (blocks of size `z` owned by live slots
after) + (released by the token) = (owned before) + (logged before) + (allocated by the token) -/
theorem stepCore_bal (z : Nat) (c : Cfg) (s : State) (t : Tok) :
    SBal z s (stepCore c s t) (stepAllocsCore c s t) := by
  unfold stepCore stepAllocsCore
  cases hop : t.op <;> simp only []
  case new => exact sbal_opNew z c s
  case fill b => exact sbal_opFill z s _ b
  case lock => exact sbal_opLock z c s _
  case unlock => exact sbal_opUnlock z c s _
  case ro => exact sbal_opProtect z c s _ _
  case rw => exact sbal_opProtect z c s _ _
  case na => exact sbal_opNa z c s _
  case clone => exact sbal_opClone z c s _
  case resize n b => exact sbal_opResize z c s _ n b
  case drop => exact sbal_opDrop z c s _
  case fsl n => exact sbal_doFromSlice z c s n false
  case fsro n => exact sbal_doFromSlice z c s n true
  case newlocked => exact sbal_opNewLocked z c s _ _
  case genlocked => exact sbal_opNewLocked z c s _ _
  case newrolocked => exact sbal_opNewLocked z c s _ _
  case genrolocked => exact sbal_opNewLocked z c s _ _
  case failfrom k => exact sbal_mach z s _ _ _ (by simp [Bal, sz])
  case wprobe off =>
    unfold opWProbe
    apply sbal_probe
    intro sl; split
    · exact ⟨_, rfl⟩
    · split <;> exact ⟨_, rfl⟩
  case rprobe off =>
    unfold opRProbe
    apply sbal_probe
    intro sl; split
    · exact ⟨_, rfl⟩
    · split <;> exact ⟨_, rfl⟩
  case gprobe f =>
    unfold opGProbe
    apply sbal_probe
    intro sl; split
    · exact ⟨_, rfl⟩
    · simp only []; split <;> (split <;> exact ⟨_, rfl⟩)
  case wrap => exact sbal_refl z s _
  case bad => exact sbal_refl z s _
  case zeroize => exact sbal_opZeroize z c s _
  case clonefrom j => exact sbal_opCloneFrom z c s _ j
  case panicdrop => exact sbal_opDrop z c s _
  case stacklock => exact sbal_opStackLock z c s
  case serde js n => exact sbal_opSerde z c s js n

/-! ### a whole run plus the teardown -/

theorem stepAllocs_resetRel (c : Cfg) (s : State) (t : Tok) :
    stepAllocsCore c (resetRel s) t = stepAllocs c s t := rfl

/-- one harness token (`step` = reset the log, then `stepCore`) -/
theorem step_bal (z : Nat) (c : Cfg) (s : State) (t : Tok) :
    (capsOf (step c s t).2.slots).count z + (sz (step c s t).2.m).count z =
      (capsOf s.slots).count z + (stepAllocs c s t).count z := by
  have h := stepCore_bal z c (resetRel s) t
  unfold SBal at h
  rw [stepAllocs_resetRel] at h
  have e : sz (resetRel s).m = [] := rfl
  rw [e] at h
  simpa [resetRel, step] using h

theorem sz_dropAllM (c : Cfg) (slots : List Slot) (m : Mach) :
    sz (dropAllM c m slots) = sz m ++ capsOf slots := by
  induction slots generalizing m with
  | nil => simp [dropAllM, capsOf]
  | cons sl rest ih =>
    unfold dropAllM
    rw [ih, capsOf_cons]
    by_cases hg : sl.gone = true
    · simp [hg]
    · simp only [hg, if_false, Bool.false_eq_true]
      rw [sz_objDrop, List.append_assoc]

/-- the teardown releases exactly the blocks of the live slots, in slot order -/
theorem sz_finish (c : Cfg) (s : State) : sz (finish c s).m = capsOf s.slots := by
  unfold finish
  rw [sz_dropAllM]; rfl

/-- all sizes passed to `alloc` during the run of `toks` from `s` (ghost log) -/
def runAllocs (c : Cfg) (s : State) : List Tok → List Nat
  | [] => []
  | t :: ts => stepAllocs c s t ++ runAllocs c (step c s t).2 ts

/-- all sizes released during the run of `toks` from `s` and by the final teardown (the model's
release log, token by token, then `finish`) -/
def runReleases (c : Cfg) (s : State) : List Tok → List Nat
  | [] => sz (finish c s).m
  | t :: ts => sz (step c s t).2.m ++ runReleases c (step c s t).2 ts

theorem run_bal (z : Nat) (c : Cfg) (toks : List Tok) : ∀ s : State,
    (runReleases c s toks).count z = (capsOf s.slots).count z + (runAllocs c s toks).count z := by
  induction toks with
  | nil => intro s; simp [runReleases, runAllocs, sz_finish]
  | cons t ts ih =>
    intro s
    have h1 := step_bal z c s t
    have h2 := ih (step c s t).2
    simp only [runReleases, runAllocs, List.count_append]
    omega

/-- **allocation / release balance**: from any state, the sizes released during a run and by the
teardown are, as a multiset, the sizes of the blocks the live slots owned at the start plus the
sizes allocated during the run -/
theorem run_balance_perm (c : Cfg) (s : State) (toks : List Tok) :
    (runReleases c s toks).Perm (capsOf s.slots ++ runAllocs c s toks) := by
  rw [List.perm_iff_count]
  intro z
  rw [List.count_append]
  exact run_bal z c toks s

theorem alloc_release_balance (c : Cfg) (oracle : Nat → LockAns) (toks : List Tok) :
    (runReleases c (State.init oracle) toks).Perm (runAllocs c (State.init oracle) toks) := by
  have := run_balance_perm c (State.init oracle) toks
  simpa [State.init, capsOf] using this

/-! ### the ghost log is tied to the model: the bump pointer advances by exactly its pages -/

/-- pages consumed by blocks of the given sizes (`alloc` advances `brk` by `size / P + 3`: the data
pages and the two guard pages) -/
def pagesA (P : Nat) (A : List Nat) : Nat := (A.map fun z => z / P + 3).sum

@[simp] theorem pagesA_nil (P : Nat) : pagesA P [] = 0 := rfl
@[simp] theorem pagesA_single (P z : Nat) : pagesA P [z] = z / P + 3 := by simp [pagesA]
theorem pagesA_append (P : Nat) (A B : List Nat) : pagesA P (A ++ B) = pagesA P A + pagesA P B := by
  simp [pagesA]

@[simp] theorem dryocMprotect_brk (c : Cfg) (m : Mach) (a l : Nat) (p : Perm) :
    (dryocMprotect c m a l p).k.brk = m.k.brk := by simp [dryocMprotect]

@[simp] theorem dryocMunlock_brk (c : Cfg) (m : Mach) (a l : Nat) :
    (dryocMunlock c m a l).k.brk = m.k.brk := by
  unfold dryocMunlock; split <;> simp

@[simp] theorem dryocMlock_brk (c : Cfg) (m : Mach) (a l : Nat) :
    (dryocMlock c m a l).1.k.brk = m.k.brk := by
  unfold dryocMlock failedLock
  split
  · rfl
  · simp only []; split
    · split
      · simp
      · simp only []; split <;> simp
    · simp only []; split <;> simp
    · simp only []; split <;> simp

@[simp] theorem vecDrop_brk (c : Cfg) (m : Mach) (v : PVec) : (vecDrop c m v).k.brk = m.k.brk := by
  unfold vecDrop; split <;> simp

@[simp] theorem plainDrop_brk (c : Cfg) (m : Mach) (v : PVec) : (plainDrop c m v).k.brk = m.k.brk := by
  unfold plainDrop; simp

@[simp] theorem protDrop_brk (c : Cfg) (m : Mach) (v : PVec) (lm : LM) (pm : PM) :
    (protDrop c m v lm pm).k.brk = m.k.brk := by
  unfold protDrop protZeroize protAtWipe
  by_cases h1 : pm = .rw <;> by_cases h2 : lm = .locked <;> simp [h1, h2]

@[simp] theorem objDrop_brk (c : Cfg) (m : Mach) (o : Obj) : (objDrop c m o).k.brk = m.k.brk := by
  unfold objDrop; split <;> simp

@[simp] theorem lockV_brk (c : Cfg) (m : Mach) (v : PVec) (pm : LM × PM) :
    (lockV c m v pm).1.k.brk = m.k.brk := by
  unfold lockV; simp only []; split <;> simp

section brk
variable (c : Cfg) (hP : 0 < c.P)
include hP

theorem vecResize_brk (m : Mach) (v : PVec) (n : Nat) (b : UInt8 := 0) :
    (vecResize c m v n b).1.k.brk = m.k.brk + pagesA c.P (vecResizeA v n) := by
  unfold vecResize vecResizeA
  by_cases h1 : n ≤ v.len
  · simp [h1]
  · by_cases h2 : n ≤ v.cap
    · simp [h1, h2]
    · simp only [h1, h2, if_false, vecDrop_brk, alloc_brk c hP, pagesA_single]; omega

theorem vecClone_brk (m : Mach) (v : PVec) :
    (vecClone c m v).1.k.brk = m.k.brk + pagesA c.P (vecCloneA v) := by
  unfold vecClone vecCloneA
  by_cases h : v.len = 0
  · simp [h]
  · simp only [h, if_false, alloc_brk c hP, pagesA_single]; omega

theorem newBytes_brk (m : Mach) : (newBytes c m).1.k.brk = m.k.brk + pagesA c.P (newBytesA c) := by
  unfold newBytes newBytesA
  by_cases h : c.isArr = true
  · simp only [h, if_true]; exact vecResize_brk c hP m _ _
  · simp [h]

theorem lockedResize_brk (m : Mach) (v : PVec) (rc : LM × PM) (n : Nat) (b : UInt8 := 0) :
    (lockedResize c m v rc n b).1.k.brk = m.k.brk + pagesA c.P (lockedResizeA n) := by
  unfold lockedResize lockedResizeA
  simp only []
  split <;> simp [vecResize_brk c hP m PVec.empty n b]

/-- the statement for one result -/
def BrkOK (s : State) (r : Res × State) (A : List Nat) : Prop :=
  r.2.m.k.brk = s.m.k.brk + pagesA c.P A

omit hP in
theorem brk_refl (s : State) (g : Res) : BrkOK c s (g, s) [] := by simp [BrkOK]

omit hP in
theorem brk_withLive (s : State) (i : Nat) (g : Res) (f : Slot → Res × State)
    (fA : Slot → List Nat) (h : ∀ sl, BrkOK c s (f sl) (fA sl)) :
    BrkOK c s (withLive s i g f) (liveA s i fA) := by
  unfold withLive withSlot liveA
  cases hs : s.slots[i]? with
  | none => exact brk_refl c s _
  | some sl =>
    simp only []
    by_cases hg : sl.gone = true
    · simp only [hg, if_true]; exact brk_refl c s _
    · simp only [hg, if_false, Bool.false_eq_true]; exact h sl

omit hP in
theorem brk_withLive_nil (s : State) (i : Nat) (g : Res) (f : Slot → Res × State)
    (h : ∀ sl, BrkOK c s (f sl) []) : BrkOK c s (withLive s i g f) [] := by
  have := brk_withLive c s i g f (fun _ => []) h
  have e : liveA s i (fun _ => []) = [] := by
    unfold liveA; cases s.slots[i]? <;> simp
  rwa [e] at this

omit hP in
theorem brk_doLock (s : State) (i : Nat) (sl : Slot) (rc : LM × PM) (pm : PM) :
    BrkOK c s (doLock c s i sl rc pm) [] := by
  unfold doLock BrkOK; simp only []; split <;> simp [setSlot]

omit hP in
theorem brk_doNewLocked (s : State) (m : Mach) (v : PVec) (src : Option Bytes) (ro rnd : Bool)
    (A : List Nat) (hb : m.k.brk = s.m.k.brk + pagesA c.P A) :
    BrkOK c s (doNewLocked c s m v src ro rnd) A := by
  unfold doNewLocked BrkOK; simp only []
  split
  · cases ro <;> simp [push, hb]
  · simp [hb]

theorem brk_doCloneLocked (s : State) (sl : Slot) (ro : Bool) :
    BrkOK c s (doCloneLocked c s sl ro) (lockedResizeA sl.o.v.len) := by
  have h := lockedResize_brk c hP s.m PVec.empty (.locked, .rw) sl.o.v.len
  unfold doCloneLocked BrkOK; simp only []
  split
  · exact h
  · cases ro <;> simp [push, h]

theorem brk_doFromSlice (s : State) (n : Nat) (ro : Bool) :
    BrkOK c s (doFromSlice c s n ro) (doFromSliceA c n) := by
  unfold doFromSlice doFromSliceA
  by_cases ha : c.isArr = true
  · simp only [ha, if_true]
    by_cases hn : n ≠ c.n
    · rw [if_pos hn, if_pos hn]; exact brk_refl c s _
    · rw [if_neg hn, if_neg hn]
      exact brk_doNewLocked c s _ _ _ _ _ _ (newBytes_brk c hP s.m)
  · simp only [ha, if_false, Bool.false_eq_true]
    exact brk_doNewLocked c s _ _ _ _ _ _ (vecResize_brk c hP s.m _ _)

theorem brk_opNew (s : State) : BrkOK c s (opNew c s) (opNewA c) := by
  have h1 := newBytes_brk c hP s.m
  unfold opNew opNewA BrkOK
  simp only [pagesA_append]
  by_cases hl : (newBytes c s.m).2.len = c.n
  · simp only [hl, if_true, push]
    by_cases ha : c.isArr = true
    · simp [ha, h1]
    · have ha' : c.isArr = false := by simpa using ha
      rw [newBytes_nonarr c s.m ha'] at hl
      have hn : c.n = 0 := by simpa using hl.symm
      have : vecResizeA PVec.empty 0 = [] := rfl
      simp [ha, hn, this, h1]
  · simp only [hl, if_false]
    by_cases ha : c.isArr = true
    · simp [ha, h1]
    · have ha' : c.isArr = false := by simpa using ha
      have e : (newBytes c s.m).2 = PVec.empty := by rw [newBytes_nonarr c s.m ha']
      simp only [ha, if_false, Bool.false_eq_true, push]
      rw [vecResize_brk c hP, h1, e]; omega

theorem brk_opClone (s : State) (i : Nat) :
    BrkOK c s (opClone c s i) (liveA s i fun sl =>
      match sl.o.st with
      | .plain => vecCloneA sl.o.v
      | .prot .unlocked .rw => vecCloneA sl.o.v
      | .prot .unlocked .ro => vecCloneA sl.o.v
      | .prot .locked .rw => if c.isArr then [] else lockedResizeA sl.o.v.len
      | .prot .locked .ro => if c.isArr then [] else lockedResizeA sl.o.v.len
      | .prot _ .na => []) := by
  unfold opClone
  apply brk_withLive
  intro sl
  have hc := vecClone_brk c hP s.m sl.o.v
  have hl : ∀ ro, BrkOK c s (if c.isArr then (.na, s) else doCloneLocked c s sl ro)
      (if c.isArr then [] else lockedResizeA sl.o.v.len) := by
    intro ro
    by_cases ha : c.isArr = true
    · simp only [ha, if_true]; exact brk_refl c s _
    · simp only [ha, if_false, Bool.false_eq_true]; exact brk_doCloneLocked c hP s sl ro
  cases hst : sl.o.st with
  | plain => exact hc
  | prot lm pm =>
    cases lm <;> cases pm
    · simpa [BrkOK, push] using hc
    · exact hc
    · exact brk_refl c s _
    · exact hl true
    · exact hl false
    · exact brk_refl c s _

theorem brk_opResize (s : State) (i n : Nat) (b : UInt8 := 0) :
    BrkOK c s (opResize c s i n b) (liveA s i fun sl =>
      if c.isArr then [] else
      match sl.o.st with
      | .plain => vecResizeA sl.o.v n
      | .prot .unlocked .rw => vecResizeA sl.o.v n
      | .prot .locked .rw => lockedResizeA n
      | _ => []) := by
  unfold opResize
  apply brk_withLive
  intro sl
  by_cases ha : c.isArr = true
  · simp only [ha, if_true]; exact brk_refl c s _
  · simp only [ha, if_false, Bool.false_eq_true]
    have hv := vecResize_brk c hP s.m sl.o.v n b
    have hl := lockedResize_brk c hP s.m sl.o.v sl.o.rcd n b
    cases hst : sl.o.st with
    | plain => exact hv
    | prot lm pm =>
      cases lm <;> cases pm
      · exact brk_refl c s _
      · exact hv
      · exact brk_refl c s _
      · exact brk_refl c s _
      · simp only [BrkOK]; split <;> exact hl
      · exact brk_refl c s _

theorem cloneObj_brk (m : Mach) (o : Obj) (r : Mach × Option Obj) (hr : cloneObj c m o = some r) :
    r.1.k.brk = m.k.brk + pagesA c.P (cloneObjA c o) := by
  have hc := vecClone_brk c hP m o.v
  have hl : ∀ ro, (cloneLockedObj c m o ro).1.k.brk = m.k.brk + pagesA c.P (lockedResizeA o.v.len) := by
    intro ro
    have h := lockedResize_brk c hP m PVec.empty (.locked, .rw) o.v.len
    unfold cloneLockedObj; simp only []
    split
    · exact h
    · cases ro <;> simp [h]
  unfold cloneObj at hr
  unfold cloneObjA
  split at hr
  · rename_i hst; simp only [Option.some.injEq] at hr; rw [← hr, hst]; exact hc
  · rename_i hst; simp only [Option.some.injEq] at hr; rw [← hr, hst]; exact hc
  · rename_i hst; simp only [Option.some.injEq] at hr; rw [← hr, hst]; simpa using hc
  · rename_i hst
    split at hr
    · simp at hr
    · rename_i ha
      simp only [Option.some.injEq] at hr; rw [← hr, hst]
      simp only [ha, if_false, Bool.false_eq_true]
      exact hl false
  · rename_i hst
    split at hr
    · simp at hr
    · rename_i ha
      simp only [Option.some.injEq] at hr; rw [← hr, hst]
      simp only [ha, if_false, Bool.false_eq_true]
      exact hl true
  · simp at hr

theorem brk_opCloneFrom (s : State) (i j : Nat) :
    BrkOK c s (opCloneFrom c s i j) (cloneFromA c s i j) := by
  unfold opCloneFrom cloneFromA
  by_cases hji : j = i
  · simp only [hji, if_true]; exact brk_refl c s _
  simp only [hji, if_false]
  cases hd : s.slots[i]? with
  | none => exact brk_refl c s _
  | some d =>
  cases hsrc : s.slots[j]? with
  | none => exact brk_refl c s _
  | some src =>
  simp only []
  by_cases hcond : (d.gone || src.gone || decide (d.o.st ≠ src.o.st)) = true
  · simp only [hcond, if_true]; exact brk_refl c s _
  simp only [hcond, if_false, Bool.false_eq_true]
  by_cases hl : isLockedSt src.o.st = true
  · simp only [hl, if_true]
    cases hp : cloneObj c s.m src.o with
    | none => exact brk_refl c s _
    | some r1 =>
      have b1 := cloneObj_brk c hP s.m src.o r1 hp
      obtain ⟨m1, ot⟩ := r1
      cases ot with
      | none => exact b1
      | some tmp =>
        dsimp only at b1 ⊢
        cases hq : cloneObj c m1 src.o with
        | none => rw [cloneObj_none_indep c hq] at hp; simp at hp
        | some r2 =>
          have b2 := cloneObj_brk c hP m1 src.o r2 hq
          obtain ⟨m2, oo⟩ := r2
          cases oo with
          | none =>
            simp only [BrkOK, objDrop_brk, pagesA_append] at b2 ⊢
            omega
          | some o =>
            simp only [BrkOK, setSlot, objDrop_brk, pagesA_append] at b2 ⊢
            omega
  · simp only [hl, if_false, Bool.false_eq_true]
    cases hp : cloneObj c s.m src.o with
    | none =>
      simp only [BrkOK]
      unfold cloneObj at hp
      unfold cloneObjA
      split at hp <;> simp_all
    | some r1 =>
      have b1 := cloneObj_brk c hP s.m src.o r1 hp
      obtain ⟨m1, oo⟩ := r1
      cases oo with
      | none => exact b1
      | some o =>
        simp only [BrkOK, setSlot, objDrop_brk] at b1 ⊢
        exact b1

theorem seqFill_brk (b : UInt8) (k : Nat) : ∀ r : Mach × PVec,
    (seqFill c b k r).1.k.brk = r.1.k.brk + pagesA c.P (seqFillA c b k r) := by
  induction k with
  | zero => intro r; simp [seqFill, seqFillA]
  | succ k ih =>
    intro r
    simp only [seqFill, seqFillA, pagesA_append]
    rw [ih, vecResize_brk c hP]; omega

theorem brk_opSerde (s : State) (json : Bool) (n : Nat) :
    BrkOK c s (opSerde c s json n) (opSerdeA c s json n) := by
  unfold opSerde opSerdeA
  by_cases hj : json = true
  · simp only [hj, if_true]
    by_cases ha : c.isArr = true
    · simp only [ha, if_true]
      have h1 := newBytes_brk c hP s.m
      unfold doSerdeArrJson BrkOK; simp only []
      split
      · split <;> simp [push, h1]
      · simp [h1]
    · simp only [ha, if_false, Bool.false_eq_true]
      exact brk_doNewLocked c s _ _ _ _ _ _ (seqFill_brk c hP 0x5a n (s.m, PVec.empty))
  · simp only [hj, if_false, Bool.false_eq_true]
    exact brk_doFromSlice c hP s n false

/-- **tie of the ghost log to the model**: in every step the bump pointer — moved by `alloc` and by
nothing else — advances by exactly the pages of the sizes listed in `stepAllocs` -/
theorem stepCore_brk (s : State) (t : Tok) :
    (stepCore c s t).2.m.k.brk = s.m.k.brk + pagesA c.P (stepAllocsCore c s t) := by
  show BrkOK c s (stepCore c s t) (stepAllocsCore c s t)
  unfold stepCore stepAllocsCore
  cases hop : t.op <;> simp only []
  case new => exact brk_opNew c hP s
  case fill b =>
    unfold opFill; apply brk_withLive_nil; intro sl
    split <;> simp [BrkOK, setSlot]
  case lock =>
    unfold opLock; apply brk_withLive_nil; intro sl
    split
    · exact brk_doLock c s _ _ _ _
    · exact brk_doLock c s _ _ _ _
    · exact brk_refl c s _
  case unlock =>
    unfold opUnlock; apply brk_withLive_nil; intro sl
    split <;> simp [BrkOK, setSlot]
  case ro =>
    unfold opProtect; apply brk_withLive_nil; intro sl
    split <;> simp [BrkOK, setSlot]
  case rw =>
    unfold opProtect; apply brk_withLive_nil; intro sl
    split <;> simp [BrkOK, setSlot]
  case na =>
    unfold opNa; apply brk_withLive_nil; intro sl
    split <;> simp [BrkOK, setSlot]
  case clone => exact brk_opClone c hP s _
  case resize n b => exact brk_opResize c hP s _ n b
  case drop =>
    unfold opDrop; apply brk_withLive_nil; intro sl
    simp [BrkOK, setSlot]
  case fsl n => exact brk_doFromSlice c hP s n false
  case fsro n => exact brk_doFromSlice c hP s n true
  case newlocked => exact brk_doNewLocked c s _ _ _ _ _ _ (newBytes_brk c hP s.m)
  case genlocked => exact brk_doNewLocked c s _ _ _ _ _ _ (newBytes_brk c hP s.m)
  case newrolocked => exact brk_doNewLocked c s _ _ _ _ _ _ (newBytes_brk c hP s.m)
  case genrolocked => exact brk_doNewLocked c s _ _ _ _ _ _ (newBytes_brk c hP s.m)
  case failfrom k => simp [BrkOK]
  case wprobe off =>
    unfold opWProbe; apply brk_withLive_nil; intro sl
    split
    · exact brk_refl c s _
    · split <;> exact brk_refl c s _
  case rprobe off =>
    unfold opRProbe; apply brk_withLive_nil; intro sl
    split
    · exact brk_refl c s _
    · split <;> exact brk_refl c s _
  case gprobe f =>
    unfold opGProbe; apply brk_withLive_nil; intro sl
    split
    · exact brk_refl c s _
    · simp only []; split <;> (split <;> exact brk_refl c s _)
  case wrap => exact brk_refl c s _
  case bad => exact brk_refl c s _
  case zeroize =>
    unfold opZeroize; apply brk_withLive_nil; intro sl
    split
    · simp [BrkOK, setSlot]
    · simp only [BrkOK, setSlot, pagesA_nil, Nat.add_zero]
      unfold protZeroize protAtWipe
      by_cases h1 : sl.o.rcd.2 = .rw <;> by_cases h2 : sl.o.rcd.1 = .locked <;> simp [h1, h2]
  case clonefrom j => exact brk_opCloneFrom c hP s _ j
  case panicdrop =>
    unfold opDrop; apply brk_withLive_nil; intro sl
    simp [BrkOK, setSlot]
  case stacklock =>
    unfold opStackLock
    by_cases ha : c.isArr = true
    · simp only [ha, if_true]
      exact brk_doNewLocked c s _ _ _ _ _ _ (newBytes_brk c hP s.m)
    · simp only [ha, if_false, Bool.false_eq_true]; exact brk_refl c s _
  case serde js n => exact brk_opSerde c hP s js n

theorem step_brk (s : State) (t : Tok) :
    (step c s t).2.m.k.brk = s.m.k.brk + pagesA c.P (stepAllocs c s t) := by
  have := stepCore_brk c hP (resetRel s) t
  rwa [stepAllocs_resetRel] at this

theorem runState_brk (toks : List Tok) : ∀ s : State,
    (runState c s toks).m.k.brk = s.m.k.brk + pagesA c.P (runAllocs c s toks) := by
  induction toks with
  | nil => intro s; simp [runState, runAllocs]
  | cons t ts ih =>
    intro s
    simp only [runState, runAllocs, pagesA_append]
    rw [ih, step_brk c hP]; omega

end brk

end DryocVerif.Proofs.Protected
