import DryocVerif.Model.ObjectView
import DryocVerif.Proofs.ObjectViewExtra
/-!
The OBJECT API of kx.rs / keypair.rs / precalc.rs on containers whose length is not in their type
(`Vec<u8>`, `&[u8]`, `[u8]`; `ByteArray<32>::as_array` asserts `len ≥ 32` and views the first 32 bytes):
`Session::new_client` / `new_server` (+ `_with_defaults`, `KeyPair::kx_new_*_session`) and
`PrecalcSecretKey::precalculate` (`KeyPair::precalculate`).  Exact panic conditions, the prefix view otherwise,
and agreement with the typed models (`kxClient`, `kxServer`, `beforenm`) on exact lengths.  Core only.
-/
namespace DryocVerif.Proofs.CurveObject
open DryocVerif DryocVerif.Model.ArrayView DryocVerif.Model.ObjectView DryocVerif.Model.Curve
open DryocVerif.Proofs.ObjectViewExtra

theorem kxView3_eq {α : Type} (n₁ : Nat) (x₁ : Bytes) (n₂ : Nat) (x₂ : Bytes) (n₃ : Nat) (x₃ : Bytes)
    (f : Bytes → Bytes → Bytes → Outcome α) :
    kxView3 n₁ x₁ n₂ x₂ n₃ x₃ f =
      if x₁.length < n₁ ∨ x₂.length < n₂ ∨ x₃.length < n₃ then .panic
      else f (x₁.take n₁) (x₂.take n₂) (x₃.take n₃) := by
  unfold kxView3; rw [view2_eq]; unfold asArray
  by_cases h1 : x₁.length < n₁
  · simp [h1]
  · by_cases h2 : x₂.length < n₂
    · simp [h1, h2]
    · by_cases h3 : x₃.length < n₃
      · simp [h1, h2, h3]
      · simp [h1, h2, h3]

theorem kxClient_ne_panic (P : Prims) (a b c : Bytes) : kxClient P a b c ≠ .panic := by
  by_cases h : scalarmult P b c = zeros 32 <;> simp [kxClient, h]

theorem kxServer_ne_panic (P : Prims) (a b c : Bytes) : kxServer P a b c ≠ .panic := by
  by_cases h : scalarmult P b c = zeros 32 <;> simp [kxServer, h]

/-! ### `Session::new_client` -/

theorem sessionNewClient_eq (P : Prims) (cpk csk spk : Bytes) :
    sessionNewClient P cpk csk spk =
      if cpk.length < 32 ∨ csk.length < 32 ∨ spk.length < 32 then .panic
      else kxClient P (cpk.take 32) (csk.take 32) (spk.take 32) := by
  unfold sessionNewClient; rw [kxView3_eq]

/-- `Session::new_client` / `new_client_with_defaults` / `KeyPair::kx_new_client_session` with variable-length
containers: PANICS iff one of the three containers (own public key, own secret key, peer public key) holds fewer
than 32 bytes; otherwise it is `crypto_kx_client_session_keys` on the FIRST 32 bytes of each (a 33-byte `Vec`
peer key is silently truncated) -/
theorem sessionNewClient_cases (P : Prims) (cpk csk spk : Bytes) :
    (sessionNewClient P cpk csk spk = .panic ↔ cpk.length < 32 ∨ csk.length < 32 ∨ spk.length < 32) ∧
    (32 ≤ cpk.length → 32 ≤ csk.length → 32 ≤ spk.length →
      sessionNewClient P cpk csk spk = kxClient P (cpk.take 32) (csk.take 32) (spk.take 32)) := by
  rw [sessionNewClient_eq]
  constructor
  · by_cases h : cpk.length < 32 ∨ csk.length < 32 ∨ spk.length < 32
    · simp [h]
    · rw [if_neg h]; exact ⟨fun e => absurd e (kxClient_ne_panic _ _ _ _), fun e => absurd e h⟩
  · intro h1 h2 h3; rw [if_neg (by omega)]

/-- exact lengths (`[u8; 32]`, `StackByteArray<32>`, `HeapByteArray<32>`, `Locked<…>`: guaranteed by the type):
the object function IS the typed model `kxClient` -/
theorem sessionNewClient_exact (P : Prims) (cpk csk spk : Bytes)
    (h1 : cpk.length = 32) (h2 : csk.length = 32) (h3 : spk.length = 32) :
    sessionNewClient P cpk csk spk = kxClient P cpk csk spk := by
  rw [(sessionNewClient_cases P cpk csk spk).2 (by omega) (by omega) (by omega),
    List.take_of_length_le (by omega), List.take_of_length_le (by omega), List.take_of_length_le (by omega)]

/-- `Err` exactly when the containers are long enough and the shared secret of the prefixes is all-zero -/
theorem sessionNewClient_err_iff (P : Prims) (cpk csk spk : Bytes) :
    sessionNewClient P cpk csk spk = .err ↔
      32 ≤ cpk.length ∧ 32 ≤ csk.length ∧ 32 ≤ spk.length ∧
        scalarmult P (csk.take 32) (spk.take 32) = zeros 32 := by
  rw [sessionNewClient_eq]
  by_cases h : cpk.length < 32 ∨ csk.length < 32 ∨ spk.length < 32
  · rw [if_pos h]; constructor
    · intro e; cases e
    · rintro ⟨a, b, c, -⟩; omega
  · rw [if_neg h]
    by_cases hz : scalarmult P (csk.take 32) (spk.take 32) = zeros 32
    · simp [kxClient, hz]; omega
    · simp [kxClient, hz]

/-! ### `Session::new_server` -/

theorem sessionNewServer_eq (P : Prims) (spk ssk cpk : Bytes) :
    sessionNewServer P spk ssk cpk =
      if spk.length < 32 ∨ ssk.length < 32 ∨ cpk.length < 32 then .panic
      else kxServer P (spk.take 32) (ssk.take 32) (cpk.take 32) := by
  unfold sessionNewServer; rw [kxView3_eq]

/-- `Session::new_server` / `new_server_with_defaults` / `KeyPair::kx_new_server_session`: as
`sessionNewClient_cases` -/
theorem sessionNewServer_cases (P : Prims) (spk ssk cpk : Bytes) :
    (sessionNewServer P spk ssk cpk = .panic ↔ spk.length < 32 ∨ ssk.length < 32 ∨ cpk.length < 32) ∧
    (32 ≤ spk.length → 32 ≤ ssk.length → 32 ≤ cpk.length →
      sessionNewServer P spk ssk cpk = kxServer P (spk.take 32) (ssk.take 32) (cpk.take 32)) := by
  rw [sessionNewServer_eq]
  constructor
  · by_cases h : spk.length < 32 ∨ ssk.length < 32 ∨ cpk.length < 32
    · simp [h]
    · rw [if_neg h]; exact ⟨fun e => absurd e (kxServer_ne_panic _ _ _ _), fun e => absurd e h⟩
  · intro h1 h2 h3; rw [if_neg (by omega)]

theorem sessionNewServer_exact (P : Prims) (spk ssk cpk : Bytes)
    (h1 : spk.length = 32) (h2 : ssk.length = 32) (h3 : cpk.length = 32) :
    sessionNewServer P spk ssk cpk = kxServer P spk ssk cpk := by
  rw [(sessionNewServer_cases P spk ssk cpk).2 (by omega) (by omega) (by omega),
    List.take_of_length_le (by omega), List.take_of_length_le (by omega), List.take_of_length_le (by omega)]

theorem sessionNewServer_err_iff (P : Prims) (spk ssk cpk : Bytes) :
    sessionNewServer P spk ssk cpk = .err ↔
      32 ≤ spk.length ∧ 32 ≤ ssk.length ∧ 32 ≤ cpk.length ∧
        scalarmult P (ssk.take 32) (cpk.take 32) = zeros 32 := by
  rw [sessionNewServer_eq]
  by_cases h : spk.length < 32 ∨ ssk.length < 32 ∨ cpk.length < 32
  · rw [if_pos h]; constructor
    · intro e; cases e
    · rintro ⟨a, b, c, -⟩; omega
  · rw [if_neg h]
    by_cases hz : scalarmult P (ssk.take 32) (cpk.take 32) = zeros 32
    · simp [kxServer, hz]; omega
    · simp [kxServer, hz]

/-! ### `PrecalcSecretKey::precalculate` -/

theorem objPrecalculate_eq (P : Prims) (pk sk : Bytes) :
    objPrecalculate P pk sk =
      if pk.length < 32 ∨ sk.length < 32 then .panic else .ok (beforenm P (pk.take 32) (sk.take 32)) := by
  unfold objPrecalculate; rw [view2_eq]

/-- `PrecalcSecretKey::precalculate` / `KeyPair::precalculate` (and the two `…_locked` variants, up to their
allocation `Result`): PANICS iff the public-key or the secret-key container holds fewer than 32 bytes; otherwise
`crypto_box_beforenm` of the two 32-byte prefixes; never `Err` (the function has no `Result`) -/
theorem objPrecalculate_cases (P : Prims) (pk sk : Bytes) :
    (objPrecalculate P pk sk = .panic ↔ pk.length < 32 ∨ sk.length < 32) ∧
    (32 ≤ pk.length → 32 ≤ sk.length →
      objPrecalculate P pk sk = .ok (beforenm P (pk.take 32) (sk.take 32))) ∧
    objPrecalculate P pk sk ≠ .err := by
  rw [objPrecalculate_eq]
  by_cases h : pk.length < 32 ∨ sk.length < 32
  · simp [h]; omega
  · simp [h]

theorem objPrecalculate_exact (P : Prims) (pk sk : Bytes) (h1 : pk.length = 32) (h2 : sk.length = 32) :
    objPrecalculate P pk sk = .ok (beforenm P pk sk) := by
  rw [(objPrecalculate_cases P pk sk).2.1 (by omega) (by omega),
    List.take_of_length_le (by omega), List.take_of_length_le (by omega)]

end DryocVerif.Proofs.CurveObject
