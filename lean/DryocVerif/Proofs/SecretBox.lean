import DryocVerif.Model.SecretBox
/-
Helper lemmas for the secretbox / box / sealed-box model (`Model/SecretBox.lean`):

* `WF P`            : the two well-formedness facts about the primitive parameters;
* `expectedTag`, `cryptXor` : names for "the authenticator NaCl prescribes for a ciphertext"
                      and "xor with the key stream after its first 32 bytes";
* `*_eq`            : closed forms of every sealing and every opening function of the model
                      (obtained by unfolding only, valid for every `P`, no `WF` needed);
* the xor involution and the `detachedInplace`/`openDetachedInplace` round trip.

Property theorems (C01, C02, C17) are stated in `DryocVerif/Properties`.
-/
namespace DryocVerif.Proofs.SecretBox
open DryocVerif DryocVerif.Model.SecretBox

/-- Well-formedness of the primitive parameters: the stream returns the requested number of
bytes, authenticators are 16 bytes. -/
structure WF (P : Prims) : Prop where
  hs : ∀ k n l, (P.stream k n l).length = l
  hm : ∀ k m, (P.mac k m).length = 16

/-- The authenticator NaCl prescribes for ciphertext `c` under `key`,`nonce`:
one-time key = first 32 bytes of the key stream of length `32 + |c|`. -/
def expectedTag (P : Prims) (key nonce c : Bytes) : Bytes :=
  P.mac ((P.stream key nonce (32 + c.length)).take 32) c

/-- xor with the key stream of length `32 + |d|` after dropping its first 32 bytes
(encryption and decryption are the same operation). -/
def cryptXor (P : Prims) (key nonce d : Bytes) : Bytes :=
  xorBytes d ((P.stream key nonce (32 + d.length)).drop 32)

/-- The authenticator a sealing function attaches to message `m`: one-time key = first 32 bytes
of the key stream of length `32 + |m|`, over the ciphertext `cryptXor m`.
(For well-formed `P` this is `expectedTag` of the ciphertext, `sealTag_eq_expectedTag`.) -/
def sealTag (P : Prims) (key nonce m : Bytes) : Bytes :=
  P.mac ((P.stream key nonce (32 + m.length)).take 32) (cryptXor P key nonce m)

theorem sealTag_def (P : Prims) (key nonce m : Bytes) :
    sealTag P key nonce m
      = P.mac ((P.stream key nonce (32 + m.length)).take 32)
          (xorBytes m ((P.stream key nonce (32 + m.length)).drop 32)) := rfl

theorem expectedTag_def (P : Prims) (key nonce c : Bytes) :
    expectedTag P key nonce c = P.mac ((P.stream key nonce (32 + c.length)).take 32) c := rfl

theorem cryptXor_def (P : Prims) (key nonce d : Bytes) :
    cryptXor P key nonce d = xorBytes d ((P.stream key nonce (32 + d.length)).drop 32) := rfl

/-! ### xor -/

theorem xorBytes_length (a b : Bytes) : (xorBytes a b).length = min a.length b.length := by
  simp [xorBytes]

theorem xor_xor_cancel (a b : UInt8) : (a ^^^ b) ^^^ b = a := by
  simp [UInt8.xor_assoc]

/-- xor with a key stream at least as long as the message is an involution -/
theorem xorBytes_involution : ∀ (m ks : Bytes), m.length ≤ ks.length →
    xorBytes (xorBytes m ks) ks = m
  | [], _, _ => by simp [xorBytes]
  | _ :: _, [], h => by simp at h
  | a :: m, b :: ks, h => by
    have ih := xorBytes_involution m ks (by simpa using h)
    simp only [xorBytes] at ih ⊢
    simp [xor_xor_cancel, ih]

/-! ### rotations -/

theorem rotateRight_append (m t : Bytes) : rotateRight (m ++ t) t.length = t ++ m := by
  simp [rotateRight]

theorem rotateLeft_append (t d : Bytes) : rotateLeft (t ++ d) t.length = d ++ t := by
  simp [rotateLeft]

theorem rotateRight_append_zeros (m : Bytes) : rotateRight (m ++ zeros 16) 16 = zeros 16 ++ m := by
  have := rotateRight_append m (zeros 16)
  simpa [zeros] using this

/-! ### well-formed primitives -/

theorem cryptXor_length {P : Prims} (h : WF P) (key nonce d : Bytes) :
    (cryptXor P key nonce d).length = d.length := by
  simp [cryptXor, xorBytes_length, h.hs]

theorem expectedTag_length {P : Prims} (h : WF P) (key nonce c : Bytes) :
    (expectedTag P key nonce c).length = 16 := h.hm _ _

theorem sealTag_eq_expectedTag {P : Prims} (h : WF P) (key nonce m : Bytes) :
    sealTag P key nonce m = expectedTag P key nonce (cryptXor P key nonce m) := by
  rw [expectedTag, cryptXor_length h, sealTag]

theorem sealTag_length {P : Prims} (h : WF P) (key nonce m : Bytes) :
    (sealTag P key nonce m).length = 16 := h.hm _ _

/-- decrypting the encryption gives the message back -/
theorem cryptXor_cryptXor {P : Prims} (h : WF P) (key nonce d : Bytes) :
    cryptXor P key nonce (cryptXor P key nonce d) = d := by
  have hl := cryptXor_length h key nonce d
  rw [cryptXor_def P key nonce (cryptXor P key nonce d), hl, cryptXor_def]
  exact xorBytes_involution _ _ (by simp [h.hs])

/-! ### closed forms: sealing (every `P`) -/

theorem detachedInplace_eq (P : Prims) (d nonce key : Bytes) :
    detachedInplace P d nonce key
      = (cryptXor P key nonce d, sealTag P key nonce d) := rfl

theorem detached_eq (P : Prims) (ct m nonce key : Bytes) (hct : ct.length = m.length) :
    detached P ct m nonce key
      = .ok (cryptXor P key nonce m, sealTag P key nonce m) := by
  have hd : ct.drop m.length = [] := List.drop_of_length_le (by omega)
  simp [detached, hct, hd, detachedInplace_eq]

theorem easy_eq (P : Prims) (ct m nonce key : Bytes) (hct : ct.length = m.length + 16) :
    easy P ct m nonce key
      = .ok (sealTag P key nonce m ++ cryptXor P key nonce m) := by
  have h1 : ¬ ct.length < MACBYTES := by simp [MACBYTES]; omega
  have h2 : (ct.drop MACBYTES).length = m.length := by simp [MACBYTES]; omega
  simp only [easy, h1, if_false, detached_eq P _ m nonce key h2]

theorem easyInplace_eq (P : Prims) (m t nonce key : Bytes) (ht : t.length = 16) :
    easyInplace P (m ++ t) nonce key
      = .ok (sealTag P key nonce m ++ cryptXor P key nonce m) := by
  have h1 : ¬ (m ++ t).length < MACBYTES := by simp [MACBYTES]; omega
  have h2 : rotateRight (m ++ t) MACBYTES = t ++ m := by
    have := rotateRight_append m t
    rwa [ht] at this
  have h3 : (t ++ m).drop MACBYTES = m := List.drop_left' ht
  simp only [easyInplace, h1, if_false, h2, h3, detachedInplace_eq]

theorem boxEasy_eq_easy (P : Prims) (ct m nonce pk sk : Bytes) (hct : 16 ≤ ct.length) :
    boxEasy P ct m nonce pk sk = easy P ct m nonce (beforenm P pk sk) := by
  have h1 : ¬ ct.length < MACBYTES := by simp [MACBYTES]; omega
  simp only [boxEasy, easy, boxDetached, h1, if_false]

theorem boxEasyInplace_eq_easyInplace (P : Prims) (d nonce pk sk : Bytes) (hd : 16 ≤ d.length) :
    boxEasyInplace P d nonce pk sk = easyInplace P d nonce (beforenm P pk sk) := by
  have h1 : ¬ d.length < MACBYTES := by simp [MACBYTES]; omega
  simp only [boxEasyInplace, easyInplace, boxDetachedInplace, h1, if_false]

theorem boxSeal_eq (P : Prims) (ct m rpk esk : Bytes) (hct : ct.length = m.length + 48) :
    boxSeal P ct m rpk esk
      = .ok (P.dhBase esk ++
          (sealTag P (beforenm P rpk esk) (sealNonce P (P.dhBase esk) rpk) m
            ++ cryptXor P (beforenm P rpk esk) (sealNonce P (P.dhBase esk) rpk) m)) := by
  have h1 : ¬ ct.length < m.length + SEALBYTES := by simp [SEALBYTES]; omega
  have h2 : (ct.drop 32).length = m.length + 16 := by simp; omega
  have h3 : 16 ≤ (ct.drop 32).length := by omega
  simp only [boxSeal, h1, if_false, boxEasy_eq_easy P _ m _ rpk esk h3,
    easy_eq P _ m _ _ h2]

theorem objEncrypt_eq (P : Prims) (m nonce key : Bytes) :
    objEncrypt P m nonce key
      = .ok ⟨none, sealTag P key nonce m, cryptXor P key nonce m⟩ := by
  simp only [objEncrypt, detached_eq P (zeros m.length) m nonce key (by simp [zeros])]

theorem objSeal_eq (P : Prims) (m rpk esk : Bytes) :
    objSeal P m rpk esk
      = .ok ⟨some (P.dhBase esk),
          sealTag P (beforenm P rpk esk) (sealNonce P (P.dhBase esk) rpk) m,
          cryptXor P (beforenm P rpk esk) (sealNonce P (P.dhBase esk) rpk) m⟩ := by
  simp only [objSeal, objBoxEncrypt, objEncrypt_eq]

/-! ### closed forms: opening (every `P`, every input) -/

theorem openDetachedInplace_eq (P : Prims) (d mac nonce key : Bytes) :
    openDetachedInplace P d mac nonce key
      = if mac = expectedTag P key nonce d then ⟨.ok (), cryptXor P key nonce d⟩ else ⟨.err, d⟩ := rfl

theorem openDetached_eq (P : Prims) (buf mac c nonce key : Bytes) :
    openDetached P buf mac c nonce key
      = if buf.length < c.length then ⟨.panic, buf⟩
        else if mac = expectedTag P key nonce c
          then ⟨.ok (), cryptXor P key nonce c ++ buf.drop c.length⟩
          else ⟨.err, buf⟩ := by
  simp only [openDetached, openDetachedInplace_eq]
  split
  · rfl
  · by_cases hm : mac = expectedTag P key nonce c <;> simp [hm]

theorem openEasy_eq (P : Prims) (buf ct nonce key : Bytes) :
    openEasy P buf ct nonce key
      = if ct.length < 16 then ⟨.err, buf⟩
        else if buf.length < ct.length - 16 then ⟨.panic, buf⟩
        else if ct.take 16 = expectedTag P key nonce (ct.drop 16)
          then ⟨.ok (), cryptXor P key nonce (ct.drop 16) ++ buf.drop (ct.length - 16)⟩
          else ⟨.err, buf⟩ := by
  simp only [openEasy, MACBYTES, openDetached_eq, List.length_drop]

theorem openEasyInplace_eq (P : Prims) (ct nonce key : Bytes) :
    openEasyInplace P ct nonce key
      = if ct.length < 16 then ⟨.err, ct⟩
        else if ct.take 16 = expectedTag P key nonce (ct.drop 16)
          then ⟨.ok (), cryptXor P key nonce (ct.drop 16) ++ ct.take 16⟩
          else ⟨.err, ct⟩ := by
  simp only [openEasyInplace, MACBYTES, openDetachedInplace_eq]
  by_cases h : ct.length < 16
  · simp only [h, if_true]
  · simp only [h, if_false]
    have hl : (ct.take 16).length = 16 := by simp; omega
    by_cases hm : ct.take 16 = expectedTag P key nonce (ct.drop 16)
    · have := rotateLeft_append (ct.take 16) (cryptXor P key nonce (ct.drop 16))
      rw [hl] at this
      simp only [hm, if_true] at this ⊢
      simp only [this]
    · simp only [hm, if_false, List.take_append_drop]

theorem boxOpenDetached_eq (P : Prims) (buf mac c nonce pk sk : Bytes) :
    boxOpenDetached P buf mac c nonce pk sk
      = if buf.length < c.length then ⟨.panic, buf⟩
        else if mac = expectedTag P (beforenm P pk sk) nonce c
          then ⟨.ok (), cryptXor P (beforenm P pk sk) nonce c ++ buf.drop c.length⟩
          else ⟨.err, buf⟩ := openDetached_eq P buf mac c nonce _

theorem boxOpenDetachedInplace_eq (P : Prims) (d mac nonce pk sk : Bytes) :
    boxOpenDetachedInplace P d mac nonce pk sk
      = if mac = expectedTag P (beforenm P pk sk) nonce d
          then ⟨.ok (), cryptXor P (beforenm P pk sk) nonce d⟩ else ⟨.err, d⟩ := rfl

theorem boxOpenEasy_eq_openEasy (P : Prims) (buf ct nonce pk sk : Bytes) :
    boxOpenEasy P buf ct nonce pk sk = openEasy P buf ct nonce (beforenm P pk sk) := rfl

theorem boxOpenEasyInplace_eq_openEasyInplace (P : Prims) (ct nonce pk sk : Bytes) :
    boxOpenEasyInplace P ct nonce pk sk = openEasyInplace P ct nonce (beforenm P pk sk) := rfl

theorem boxOpenEasy_eq (P : Prims) (buf ct nonce pk sk : Bytes) :
    boxOpenEasy P buf ct nonce pk sk
      = if ct.length < 16 then ⟨.err, buf⟩
        else if buf.length < ct.length - 16 then ⟨.panic, buf⟩
        else if ct.take 16 = expectedTag P (beforenm P pk sk) nonce (ct.drop 16)
          then ⟨.ok (), cryptXor P (beforenm P pk sk) nonce (ct.drop 16) ++ buf.drop (ct.length - 16)⟩
          else ⟨.err, buf⟩ := openEasy_eq P buf ct nonce _

theorem boxOpenEasyInplace_eq (P : Prims) (ct nonce pk sk : Bytes) :
    boxOpenEasyInplace P ct nonce pk sk
      = if ct.length < 16 then ⟨.err, ct⟩
        else if ct.take 16 = expectedTag P (beforenm P pk sk) nonce (ct.drop 16)
          then ⟨.ok (), cryptXor P (beforenm P pk sk) nonce (ct.drop 16) ++ ct.take 16⟩
          else ⟨.err, ct⟩ := openEasyInplace_eq P ct nonce _

theorem sealOpen_eq (P : Prims) (buf ct rpk rsk : Bytes) :
    sealOpen P buf ct rpk rsk
      = if ct.length < 48 then ⟨.err, buf⟩
        else if buf.length ≠ ct.length - 48 then ⟨.err, buf⟩
        else if (ct.drop 32).take 16
              = expectedTag P (beforenm P (ct.take 32) rsk) (sealNonce P (ct.take 32) rpk) (ct.drop 48)
          then ⟨.ok (), cryptXor P (beforenm P (ct.take 32) rsk) (sealNonce P (ct.take 32) rpk) (ct.drop 48)⟩
          else ⟨.err, buf⟩ := by
  simp only [sealOpen, SEALBYTES, boxOpenEasy_eq, List.length_drop, List.drop_drop]
  split
  · rfl
  · rename_i h1
    split
    · rfl
    · rename_i h2
      have h3 : ¬ ct.length - 32 < 16 := by omega
      have h4 : ¬ buf.length < ct.length - 32 - 16 := by omega
      have h5 : buf.drop (ct.length - 32 - 16) = [] := List.drop_of_length_le (by omega)
      simp only [h3, h4, h5, if_false, List.append_nil]

theorem objDecrypt_eq (P : Prims) (b : Box) (nonce key : Bytes) :
    objDecrypt P b nonce key
      = if b.tag = expectedTag P key nonce b.data then .ok (cryptXor P key nonce b.data) else .err := by
  have h1 : ¬ (zeros b.data.length).length < b.data.length := by simp [zeros]
  have h2 : (zeros b.data.length).drop b.data.length = [] :=
    List.drop_of_length_le (by simp [zeros])
  simp only [objDecrypt, openDetached_eq, h1, h2, if_false, List.append_nil]
  by_cases hm : b.tag = expectedTag P key nonce b.data <;> simp [hm]

theorem objBoxDecrypt_eq (P : Prims) (b : Box) (nonce pk sk : Bytes) :
    objBoxDecrypt P b nonce pk sk
      = if b.tag = expectedTag P (beforenm P pk sk) nonce b.data
          then .ok (cryptXor P (beforenm P pk sk) nonce b.data) else .err :=
  objDecrypt_eq P b nonce _

theorem objUnseal_eq (P : Prims) (b : Box) (rpk rsk : Bytes) :
    objUnseal P b rpk rsk
      = match b.epk with
        | none => .err
        | some epk =>
          if b.tag = expectedTag P (beforenm P epk rsk) (sealNonce P epk rpk) b.data
            then .ok (cryptXor P (beforenm P epk rsk) (sealNonce P epk rpk) b.data) else .err := by
  unfold objUnseal
  cases b.epk with
  | none => rfl
  | some epk => exact objBoxDecrypt_eq P b _ epk rsk

/-! ### the core round trip -/

theorem open_seal_core {P : Prims} (h : WF P) (m nonce key : Bytes) :
    openDetachedInplace P (detachedInplace P m nonce key).1 (detachedInplace P m nonce key).2 nonce key
      = ⟨.ok (), m⟩ := by
  simp [detachedInplace_eq, openDetachedInplace_eq, cryptXor_cryptXor h, sealTag_eq_expectedTag h]

/-- `(tag ++ c).take 16 = tag`, `.drop 16 = c`, and its length, for a 16-byte tag -/
theorem combined_parts {tag c : Bytes} (ht : tag.length = 16) :
    (tag ++ c).take 16 = tag ∧ (tag ++ c).drop 16 = c ∧ (tag ++ c).length = c.length + 16 :=
  ⟨List.take_left' ht, List.drop_left' ht, by simp [ht]; omega⟩

/-! ### opening what the sealing closed forms produce (well-formed `P`) -/

theorem openDetachedInplace_sealed {P : Prims} (h : WF P) (m nonce key : Bytes) :
    openDetachedInplace P (cryptXor P key nonce m) (sealTag P key nonce m) nonce key = ⟨.ok (), m⟩ :=
  open_seal_core h m nonce key

theorem openDetached_sealed {P : Prims} (h : WF P) (buf m nonce key : Bytes)
    (hbuf : m.length ≤ buf.length) :
    openDetached P buf (sealTag P key nonce m) (cryptXor P key nonce m) nonce key
      = ⟨.ok (), m ++ buf.drop m.length⟩ := by
  have hl := cryptXor_length h key nonce m
  have h1 : ¬ buf.length < m.length := by omega
  simp only [openDetached_eq, hl, h1, if_false, sealTag_eq_expectedTag h, if_true,
    cryptXor_cryptXor h]

theorem openEasy_sealed {P : Prims} (h : WF P) (buf m nonce key : Bytes)
    (hbuf : m.length ≤ buf.length) :
    openEasy P buf (sealTag P key nonce m ++ cryptXor P key nonce m) nonce key
      = ⟨.ok (), m ++ buf.drop m.length⟩ := by
  obtain ⟨h1, h2, h3⟩ := combined_parts (c := cryptXor P key nonce m) (sealTag_length h key nonce m)
  have hl := cryptXor_length h key nonce m
  have h4 : ¬ m.length + 16 < 16 := by omega
  have h5 : ¬ buf.length < m.length := by omega
  have h6 : m.length + 16 - 16 = m.length := by omega
  simp only [openEasy_eq, h1, h2, h3, hl, h4, h6, h5, if_false]
  simp only [← sealTag_eq_expectedTag h, if_true, cryptXor_cryptXor h]

theorem openEasyInplace_sealed {P : Prims} (h : WF P) (m nonce key : Bytes) :
    openEasyInplace P (sealTag P key nonce m ++ cryptXor P key nonce m) nonce key
      = ⟨.ok (), m ++ sealTag P key nonce m⟩ := by
  obtain ⟨h1, h2, h3⟩ := combined_parts (c := cryptXor P key nonce m) (sealTag_length h key nonce m)
  have hl := cryptXor_length h key nonce m
  have h4 : ¬ m.length + 16 < 16 := by omega
  simp only [openEasyInplace_eq, h1, h2, h3, hl, h4, if_false]
  simp only [← sealTag_eq_expectedTag h, if_true, cryptXor_cryptXor h]

theorem drop_length_eq_nil {buf : Bytes} {n : Nat} (h : buf.length = n) : buf.drop n = [] :=
  List.drop_of_length_le (by omega)

/-! ### a concrete, non-trivial instance (used by the non-vacuity `example`s) -/

/-- toy primitives: constant key stream `5a 5a …`, "authenticator" = first 16 bytes of the
zero-padded message, xor as a (commutative) Diffie-Hellman with the identity as base-point map. -/
def toyPrims : Prims where
  stream := fun _ _ l => List.replicate l 0x5a
  mac := fun _ m => (m ++ zeros 16).take 16
  dh := fun sk pk => xorBytes sk pk
  dhBase := fun sk => sk
  hsalsa := fun k _ => k
  h24 := fun m => (m ++ zeros 24).take 24

/-- concrete data for the `example`s: message, nonce, key; sender / recipient / ephemeral key
pairs (with `toyPrims` a public key equals its secret key) -/
def toyMsg : Bytes := [1, 2, 3]
def toyNonce : Bytes := [7, 7]
def toyKey : Bytes := [9]
def toySsk : Bytes := [1, 2]
def toySpk : Bytes := toyPrims.dhBase toySsk
def toyRsk : Bytes := List.replicate 32 3
def toyRpk : Bytes := toyPrims.dhBase toyRsk
def toyEsk : Bytes := List.replicate 32 5

theorem toyWF : WF toyPrims := ⟨by simp [toyPrims], by simp [toyPrims, zeros]⟩

end DryocVerif.Proofs.SecretBox
