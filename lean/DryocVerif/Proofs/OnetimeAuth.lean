import DryocVerif.Model.OnetimeAuth
import DryocVerif.Proofs.Poly1305Main
import DryocVerif.Proofs.CtEq
/-
`crypto_onetimeauth_verify` / `OnetimeAuth::verify` accept exactly the RFC 8439 authenticator.
-/
namespace DryocVerif.Proofs.OnetimeAuth
open DryocVerif
open DryocVerif.Model.OnetimeAuth
open DryocVerif.Model.Poly1305 (State new update finalize mac macChunks)

/-! ### the verify functions -/

theorem onetimeauthVerify_eq (key msg tag : Bytes) :
    onetimeauthVerify key msg tag = if tag = mac key msg then .ok () else .err := by
  unfold onetimeauthVerify
  simp only [ctEq_one_iff]
  rfl

/-- `crypto_onetimeauth_verify` returns `Ok(())` iff the tag is the RFC 8439 authenticator -/
theorem onetimeauthVerify_ok_iff (key msg tag : Bytes) (hk : key.length = 32) :
    onetimeauthVerify key msg tag = .ok () ↔ tag = Spec.Poly1305.mac key msg := by
  rw [onetimeauthVerify_eq, Proofs.Poly1305.mac_model_eq_spec key msg hk]
  by_cases h : tag = Spec.Poly1305.mac key msg
  · simp [h]
  · simp [h]

/-- … and `Err` for every other value: the function never panics -/
theorem onetimeauthVerify_err_iff (key msg tag : Bytes) (hk : key.length = 32) :
    onetimeauthVerify key msg tag = .err ↔ tag ≠ Spec.Poly1305.mac key msg := by
  rw [onetimeauthVerify_eq, Proofs.Poly1305.mac_model_eq_spec key msg hk]
  by_cases h : tag = Spec.Poly1305.mac key msg
  · simp [h]
  · simp [h]

theorem toLE_length (n v : Nat) : (toLE n v).length = n := by
  induction n generalizing v with
  | zero => rfl
  | succ n ih => simp [toLE, ih]

theorem spec_mac_length (key msg : Bytes) : (Spec.Poly1305.mac key msg).length = 16 := by
  unfold Spec.Poly1305.mac; exact toLE_length _ _

theorem objectVerify_eq (st : State) (otherMac : Bytes) :
    objectVerify st otherMac =
      if otherMac.length < 16 then .panic
      else if otherMac.take 16 = finalize st then .ok () else .err := by
  unfold objectVerify asArray16
  by_cases h : otherMac.length < 16
  · simp only [if_pos h]
  · simp only [if_neg h, ctEq_one_iff]

/-- `OnetimeAuth::new(key)`, any `update`s, `verify(tag)` with a 16-byte tag: `Ok(())` iff the tag is the
RFC 8439 authenticator of the concatenation -/
theorem objectVerifyChunks_ok_iff (key : Bytes) (hk : key.length = 32) (cs : List Bytes) (tag : Bytes)
    (ht : tag.length = 16) :
    objectVerifyChunks key cs tag = .ok () ↔ tag = Spec.Poly1305.mac key cs.flatten := by
  unfold objectVerifyChunks
  rw [objectVerify_eq, if_neg (by omega), List.take_of_length_le (by omega)]
  have e : finalize (cs.foldl update (new key)) = Spec.Poly1305.mac key cs.flatten :=
    Proofs.Poly1305.macChunks_eq_spec key hk cs
  rw [e]
  by_cases h : tag = Spec.Poly1305.mac key cs.flatten
  · simp [h]
  · simp [h]

/-- the general container case (`Vec<u8>`, `&[u8]`): panic below 16 bytes, otherwise only the FIRST 16 bytes
are compared -/
theorem objectVerifyChunks_cases (key : Bytes) (hk : key.length = 32) (cs : List Bytes) (tag : Bytes) :
    (objectVerifyChunks key cs tag = .panic ↔ tag.length < 16) ∧
    (objectVerifyChunks key cs tag = .ok () ↔
      16 ≤ tag.length ∧ tag.take 16 = Spec.Poly1305.mac key cs.flatten) := by
  unfold objectVerifyChunks
  rw [objectVerify_eq]
  have e : finalize (cs.foldl update (new key)) = Spec.Poly1305.mac key cs.flatten :=
    Proofs.Poly1305.macChunks_eq_spec key hk cs
  rw [e]
  by_cases h : tag.length < 16
  · rw [if_pos h]
    exact ⟨⟨fun _ => h, fun _ => rfl⟩, ⟨fun h' => (by cases h'), fun h' => (by omega)⟩⟩
  · rw [if_neg h]
    by_cases h2 : tag.take 16 = Spec.Poly1305.mac key cs.flatten
    · rw [if_pos h2]
      exact ⟨⟨fun h' => (by cases h'), fun h' => absurd h' h⟩, ⟨fun _ => ⟨by omega, h2⟩, fun _ => rfl⟩⟩
    · rw [if_neg h2]
      exact ⟨⟨fun h' => (by cases h'), fun h' => absurd h' h⟩,
        ⟨fun h' => (by cases h'), fun h' => absurd h'.2 h2⟩⟩

theorem computeAndVerify_ok_iff (tag key msg : Bytes) (hk : key.length = 32) :
    computeAndVerify tag key msg = .ok () ↔ 16 ≤ tag.length ∧ tag.take 16 = Spec.Poly1305.mac key msg := by
  unfold computeAndVerify asArray16
  by_cases h : tag.length < 16
  · simp only [if_pos h]
    exact ⟨fun h' => (by cases h'), fun h' => (by omega)⟩
  · simp only [if_neg h]
    rw [onetimeauthVerify_ok_iff key msg _ hk]
    exact ⟨fun h' => ⟨by omega, h'⟩, fun h' => h'.2⟩

end DryocVerif.Proofs.OnetimeAuth
