import Lean.Elab.Tactic
import Mathlib.Data.Nat.Prime.Basic
import DryocVerif.Proofs.SignCanon
import DryocVerif.Proofs.FieldPrime
import DryocVerif.Proofs.KdfExtra
import DryocVerif.Proofs.SignVectors
/-!
`Spec.Ed25519.verifyCore` (libsodium) decodes the public key with the STRICT RFC 8032 decoder `decodePoint`, AFTER
its own `ge25519_is_canonical` and `ge25519_has_small_order` tests; `Model.Sign.verifyDetached` (dalek) decodes
LENIENTLY.  Here: after those two tests the two decoders agree (`decodePoint_eq_lax`), with no curve hypothesis —
only the primality of `p = 2^255 − 19` (`Proofs.FieldPrime.p_prime`, a kernel-checked Pratt certificate).

The strict decoder differs from the lenient one in exactly two rules:
* `y ≥ p` is refused — excluded by `isCanonicalPoint` (`canonical_y_lt_p`);
* `x = 0` with the sign bit set is refused — `x = 0` forces `y² = 1`, i.e. `y = ±1`, and both encodings (with either
  sign bit) are in libsodium's small-order table (`hasSmallOrder_of_y_sq_one`).
-/
namespace DryocVerif.Proofs.SignStrictDecode
open DryocVerif DryocVerif.Spec.Ed25519 DryocVerif.Proofs.Sign DryocVerif.Proofs.SignCanon
open DryocVerif.Spec.X25519 (fadd fsub fmul fsq fneg fpow finv)

/-! ### byte 31 masked = the value modulo 2^255 -/

theorem and7f_toNat' (b : UInt8) : (b &&& 0x7f).toNat = b.toNat % 128 := by
  rw [UInt8.toNat_and]
  exact Nat.and_two_pow_sub_one_eq_mod b.toNat 7

theorem split31 (s : Bytes) (h : s.length = 32) : s = s.take 31 ++ [s.getD 31 0] := by
  conv => lhs; rw [← List.take_append_drop 31 s, drop31 s h]

theorem modify31 (s : Bytes) (h : s.length = 32) (f : UInt8 → UInt8) :
    s.modify 31 f = s.take 31 ++ [f (s.getD 31 0)] := by
  rw [← take_append_map_drop f 31 s (by omega), drop31 s h]; rfl

/-- for a 32-byte string: clearing bit 255 (`s[31] & 0x7f`) is reduction of the little-endian value modulo `2^255` -/
theorem masked_eq_toLE (s : Bytes) (h : s.length = 32) :
    s.modify 31 (· &&& 0x7f) = toLE 32 (le s % 2 ^ 255) := by
  have hlt : le s % 2 ^ 255 < 256 ^ 32 := Nat.lt_trans (Nat.mod_lt _ (by decide)) (by decide)
  apply Proofs.KdfExtra.le_inj_of_length
  · rw [List.length_modify, h, toLE_length]
  · rw [le_toLE_of_lt hlt, modify31 s h, Proofs.Curve.le_append]
    conv => rhs; rw [split31 s h, Proofs.Curve.le_append]
    have hl : (s.take 31).length = 31 := by rw [List.length_take]; omega
    have ha := Proofs.Curve.le_lt (s.take 31)
    rw [hl] at ha ⊢
    have hb := (s.getD 31 0).toNat_lt
    simp only [le, Nat.mul_zero, Nat.add_zero, and7f_toNat']
    have e : (256 : Nat) ^ 31 = 2 ^ 248 := by decide
    rw [e] at ha ⊢
    generalize le (s.take 31) = A at *
    generalize (s.getD 31 0).toNat = b at *
    omega

/-! ### `ge25519_is_canonical` passed ⇒ `y < p` -/

theorem le_eq_of_parts (s : Bytes) (hl : s.length = 32) :
    le s = (s.getD 0 0).toNat
      + 256 * (le ((s.drop 1).take 30) + 256 ^ 30 * (s.getD 31 0).toNat) := by
  have e1 : s = s.take 1 ++ ((s.drop 1).take 30 ++ s.drop 31) := by
    have : s.drop 31 = (s.drop 1).drop 30 := by rw [List.drop_drop]
    rw [this, List.take_append_drop, List.take_append_drop]
  have hm : ((s.drop 1).take 30).length = 30 := by
    rw [List.length_take, List.length_drop]; omega
  conv => lhs; rw [e1]
  rw [Proofs.Curve.le_append, Proofs.Curve.le_append, take1 s hl, drop31 s hl, hm]
  simp [le]

/-- numeric meaning of a PASSED `ge25519_is_canonical` (converse of `SignCanon.noncanonical_y_ge_p`): the
y-coordinate (bit 255 masked) is below `p` -/
theorem canonical_y_lt_p (s : Bytes) (h : isCanonicalPoint s = true) : le s % 2 ^ 255 < p := by
  have hl : s.length = 32 := by
    unfold isCanonicalPoint at h
    simp only [Bool.and_eq_true, beq_iff_eq] at h
    exact h.1
  apply Nat.lt_of_not_le
  intro hge
  have hmidl : ((s.drop 1).take 30).length = 30 := by
    rw [List.length_take, List.length_drop]; omega
  have hle := le_eq_of_parts s hl
  have hm := Proofs.Curve.le_lt ((s.drop 1).take 30)
  rw [hmidl] at hm
  have c := (s.getD 0 0).toNat_lt
  have d := (s.getD 31 0).toNat_lt
  have hp : p = 2 ^ 255 - 19 := by decide
  have e30 : (256 : Nat) ^ 30 = 2 ^ 240 := by decide
  rw [hp, hle] at hge
  rw [e30] at hm hge
  -- all three components are at their maximum
  have key : (s.getD 31 0).toNat % 128 = 127 ∧ le ((s.drop 1).take 30) = 2 ^ 240 - 1 ∧
      237 ≤ (s.getD 0 0).toNat := by
    generalize (s.getD 0 0).toNat = x at *
    generalize (s.getD 31 0).toNat = y at *
    generalize le ((s.drop 1).take 30) = m at *
    omega
  obtain ⟨k1, k2, k3⟩ := key
  have hmid : (s.drop 1).take 30 = List.replicate 30 0xff := by
    apply Proofs.KdfExtra.le_inj_of_length _ _ (by rw [hmidl, List.length_replicate])
    rw [k2, le_replicate_ff, e30]
  have h31 : (s.getD 31 0 &&& 0x7f) = 0x7f := by
    apply UInt8.toNat_inj.mp
    rw [and7f_toNat', k1]; rfl
  have h0 : s.getD 0 0 ≥ 0xed := UInt8.le_iff_toNat_le.mpr k3
  unfold isCanonicalPoint at h
  rw [hmid, h31, hl] at h
  simp only [h0, decide_true] at h
  exact absurd h (by decide)

/-! ### `x = 0` ⇒ `y = ±1` ⇒ in the small-order table -/

theorem p_pos : 0 < p := by decide

theorem fsub_one_eq_zero (a : Nat) (ha : a < p) (h : fsub a 1 = 0) : a = 1 := by
  unfold Spec.Ed25519.p at *
  unfold fsub at h
  have hp : Spec.X25519.p = 2 ^ 255 - 19 := by decide
  have e : 1 % Spec.X25519.p = 1 := by decide
  rw [e] at h
  have hd : Spec.X25519.p ∣ a + (Spec.X25519.p - 1) := Nat.dvd_of_mod_eq_zero h
  obtain ⟨c, hc⟩ := hd
  rw [hp] at ha hc
  have : c = 1 := by
    rcases c with _ | _ | c
    · omega
    · rfl
    · exfalso
      have : (2 ^ 255 - 19) * (c + 1 + 1) = (2 ^ 255 - 19) * c + 2 * (2 ^ 255 - 19) := by
        rw [Nat.mul_add, Nat.mul_add]; omega
      omega
  subst this
  omega

/-- `y² ≡ 1 (mod p)`, `y < p` ⇒ `y = 1 ∨ y = p − 1` (uses the primality of `p`) -/
theorem sq_one_cases (y : Nat) (hy : y < p) (h : y * y % p = 1) : y = 1 ∨ y = p - 1 := by
  have hpp : Nat.Prime p := Proofs.FieldPrime.p_prime
  have hy0 : y ≠ 0 := by rintro rfl; simp at h
  have hdvd : p ∣ (y - 1) * (y + 1) := by
    have e : (y - 1) * (y + 1) = y * y - 1 := by
      obtain ⟨z, rfl⟩ : ∃ z, y = z + 1 := ⟨y - 1, by omega⟩
      simp only [Nat.add_sub_cancel]
      have : z * (z + 1 + 1) + 1 = (z + 1) * (z + 1) := by ring
      omega
    rw [e]
    have h2 : y * y = p * (y * y / p) + 1 := by
      have := Nat.div_add_mod (y * y) p
      omega
    exact ⟨y * y / p, by omega⟩
  rcases (Nat.Prime.dvd_mul hpp).mp hdvd with h1 | h1
  · left
    have : y - 1 = 0 := Nat.eq_zero_of_dvd_of_lt h1 (by omega)
    omega
  · right
    have hle := Nat.le_of_dvd (by omega) h1
    omega

theorem toLE_one : toLE 32 1 = 1 :: zeros 31 := by decide
theorem toLE_pm1 : toLE 32 (p - 1) = 0xec :: (List.replicate 30 0xff ++ [0x7f]) := by decide +kernel

/-- both encodings of `y = 1` and of `y = p − 1` (either sign bit) are in libsodium's small-order table -/
theorem hasSmallOrder_of_y_pm1 (s : Bytes) (hl : s.length = 32)
    (h : le s % 2 ^ 255 = 1 ∨ le s % 2 ^ 255 = p - 1) : hasSmallOrder s = true := by
  unfold hasSmallOrder
  rw [masked_eq_toLE s hl]
  rcases h with h | h
  · rw [h, toLE_one]; simp [hl, smallOrderBlacklist]
  · rw [h, toLE_pm1]; simp [hl, smallOrderBlacklist]

/-! ### the two `recoverX` modes -/

theorem fmul_lt (a b : Nat) : fmul a b < p := Nat.mod_lt _ p_pos

theorem fneg_eq_zero (u : Nat) (hu : u < p) (h : fneg u = 0) : u = 0 := by
  unfold Spec.Ed25519.p at *
  unfold fneg at h
  rw [Nat.mod_eq_of_lt hu] at h
  rcases Nat.eq_zero_or_pos u with h0 | h0
  · exact h0
  · rw [Nat.mod_eq_of_lt (by omega)] at h; omega

theorem sqrtM1_lt : sqrtM1 < p ∧ sqrtM1 ≠ 0 := by decide

/-- `fmul x sqrtM1 = 0` ⇒ `x ≡ 0 (mod p)` (primality of `p`; `sqrtM1` is a non-zero residue) -/
theorem fmul_sqrtM1_zero (x : Nat) (h : fmul x sqrtM1 = 0) : x % p = 0 := by
  have hpp : Nat.Prime p := Proofs.FieldPrime.p_prime
  unfold fmul at h
  rcases (Nat.Prime.dvd_mul hpp).mp (Nat.dvd_of_mod_eq_zero h) with h1 | h1
  · exact Nat.mod_eq_zero_of_dvd h1
  · exact absurd (Nat.eq_zero_of_dvd_of_lt h1 sqrtM1_lt.1) sqrtM1_lt.2

theorem fsq_of_mod_zero (x : Nat) (h : x % p = 0) : fsq x = 0 := by
  unfold Spec.Ed25519.p at *
  unfold fsq
  rw [Nat.mul_mod, h, Nat.zero_mul, Nat.zero_mod]

/-- the tail of `Spec.Ed25519.recoverX` as a function of `u = y² − 1`, `v = d y² + 1` and the candidate root `x0` -/
def recoverXBody (u v x0 y sign : Nat) (strict : Bool) : Option Point :=
  let vxx := fmul v (fsq x0)
  let x? : Option Nat :=
    if vxx == u then some x0
    else if vxx == fneg u then some (fmul x0 sqrtM1)
    else none
  match x? with
  | none => none
  | some x =>
    if strict && x == 0 && sign == 1 then none
    else
      let x := if x % 2 == sign then x else fneg x
      some { X := x, Y := y, Z := 1, T := fmul x y }

/-! #### relating `recoverX` to `recoverXBody` without letting the kernel evaluate the matcher

`recoverX` ends in a `match` on the candidate root, and the candidate root contains `fpow … ((p − 5) / 8)`.  Any
kernel check of `recoverX y sign strict ≡ (its unfolding)` (the equation lemma behind `unfold`, `delta`, `rfl`)
unfolds the matcher first (matchers carry the `abbrev` hint) and then WEAK-HEAD NORMALISES THE DISCRIMINANT — with a
symbolic `y` that means unrolling `fpowAux` 255 times under `Nat.beq`/`%` that cannot be evaluated: several minutes,
then "deep recursion".  The small tactic below avoids this: it only asks the kernel to compare the CONSTANT
`recoverX` with its stored value (`recoverX = fun y sign strict => …`, closed by `Eq.refl` after one δ-step on a
constant), applies `congrFun`, β/ζ-reduces the head by hand, and generalizes the discriminant before any case
split.  Nothing is assumed: the proof term is checked by the kernel like any other (`#print axioms` below). -/

open Lean Meta Elab Tactic in
/-- β at the head and ζ of a leading `let` telescope, nothing else (in particular no matcher reduction) -/
def headBZ : Nat → Expr → Expr
  | 0, e => e
  | fuel + 1, e =>
    match e.headBeta with
    | .letE _ _ v b _ => headBZ fuel (b.instantiate1 v)
    | .mdata _ e' => headBZ fuel e'
    | e' => e'

open Lean Meta Elab Tactic in
/-- `e = c a₁ … aₙ` with `c` a definition: returns `e'`, the head-β/ζ normal form of the unfolded application, and a
proof of `e = e'` whose kernel check compares only the constant `c` with its value -/
def exposeApp (e : Expr) : MetaM (Expr × Expr) := do
  let f := e.getAppFn
  let args := e.getAppArgs
  let .const n us := f | throwError "exposeApp: not a constant application"
  let info ← getConstInfo n
  let v := info.instantiateValueLevelParams! us
  let mut pf ← mkExpectedTypeHint (← mkEqRefl f) (← mkEq f v)
  for a in args do
    pf ← mkCongrFun pf a
  let e1 := mkAppN v args
  let e2 := headBZ 64 e1
  let pf2 ← mkExpectedTypeHint (← mkEqRefl e2) (← mkEq e1 e2)
  return (e2, ← mkEqTrans pf pf2)

open Lean Meta Elab Tactic in
/-- on a goal `c a… = c' b…` whose two sides unfold to matcher applications on the same discriminant: expose both
sides (`exposeApp`), then generalize that discriminant (second argument of the left matcher application) -/
elab "expose_both" : tactic => do
  let g ← getMainGoal
  let t ← instantiateMVars (← g.getType)
  let some (_, lhs, rhs) := t.eq? | throwError "expose_both: not an equation"
  let (lhs', p1) ← exposeApp lhs
  let (rhs', p2) ← exposeApp rhs
  let newGoal ← mkFreshExprSyntheticOpaqueMVar (← mkEq lhs' rhs')
  g.assign (← mkEqTrans p1 (← mkEqTrans newGoal (← mkEqSymm p2)))
  let discr := lhs'.getAppArgs[1]!
  let (_, g2) ← newGoal.mvarId!.generalize #[{ expr := discr, xName? := `o }]
  replaceMainGoal [g2]

/-- `recoverX` is `recoverXBody` on `u = y² − 1`, `v = d y² + 1` and the candidate root `u v³ (u v⁷)^((p−5)/8)` -/
theorem recoverX_eq_body (y sign : Nat) (strict : Bool) :
    recoverX y sign strict
      = recoverXBody (fsub (fsq y) 1) (fadd (fmul d (fsq y)) 1)
          (fmul (fmul (fsub (fsq y) 1) (fmul (fsq (fadd (fmul d (fsq y)) 1)) (fadd (fmul d (fsq y)) 1)))
            (fpow (fmul (fsub (fsq y) 1) (fmul (fsq (fmul (fsq (fadd (fmul d (fsq y)) 1)) (fadd (fmul d (fsq y)) 1)))
              (fadd (fmul d (fsq y)) 1))) ((p - 5) / 8)))
          y sign strict := by
  expose_both
  cases o <;> rfl

theorem recoverXBody_strict_eq (u v x0 y sign : Nat) (hult : u < p) (h : u ≠ 0) :
    recoverXBody u v x0 y sign true = recoverXBody u v x0 y sign false := by
  unfold recoverXBody
  simp only []
  by_cases c1 : (fmul v (fsq x0) == u) = true
  · simp only [c1, if_true]
    have hx : x0 ≠ 0 := by
      rintro rfl
      have : fmul v (fsq 0) = 0 := by simp [fmul, fsq]
      rw [this] at c1
      exact h (beq_iff_eq.mp c1).symm
    have : (x0 == 0) = false := by simpa using hx
    simp [this]
  · simp only [c1, Bool.false_eq_true, if_false]
    by_cases c2 : (fmul v (fsq x0) == fneg u) = true
    · simp only [c2, if_true]
      have hx : fmul x0 sqrtM1 ≠ 0 := by
        intro hz
        have h0 := fsq_of_mod_zero x0 (fmul_sqrtM1_zero x0 hz)
        rw [h0] at c2
        have : fmul v 0 = 0 := by simp [fmul]
        rw [this] at c2
        have hn : fneg u = 0 := (beq_iff_eq.mp c2).symm
        exact h (fneg_eq_zero u hult hn)
      have : (fmul x0 sqrtM1 == 0) = false := by simpa using hx
      simp [this]
    · simp only [c2, Bool.false_eq_true, if_false]

/-- the strict and the lenient mode of `recoverX` agree unless `y² = 1`: the only difference is the rule
"`x = 0` and sign bit set ⇒ reject", and the computed root is `0` only when `u = y² − 1 = 0` -/
theorem recoverX_strict_eq (y sign : Nat) (h : fsub (fsq y) 1 ≠ 0) :
    recoverX y sign true = recoverX y sign false := by
  rw [recoverX_eq_body, recoverX_eq_body]
  exact recoverXBody_strict_eq _ _ _ y sign (Nat.mod_lt _ p_pos) h

/-- **The strict RFC 8032 decoder and the lenient (dalek / `ge25519_frombytes`) decoder agree on every encoding that
passes libsodium's `ge25519_is_canonical` and is not in its small-order table** — which are exactly the two tests
`crypto_sign_ed25519_verify_detached` applies to the public key before decoding it.  Unconditional (no curve
hypothesis); uses that `p` is prime. -/
theorem decodePoint_eq_lax (pk : Bytes) (hc : isCanonicalPoint pk = true) (hs : hasSmallOrder pk = false) :
    decodePoint pk = decodePointLax pk := by
  have hl : pk.length = 32 := by
    unfold isCanonicalPoint at hc
    simp only [Bool.and_eq_true, beq_iff_eq] at hc
    exact hc.1
  have hy := canonical_y_lt_p pk hc
  unfold decodePoint decodePointLax
  simp only [hl, bne_self_eq_false, Bool.false_eq_true, if_false, ge_iff_le]
  rw [if_neg (by omega), Nat.mod_eq_of_lt hy]
  apply recoverX_strict_eq
  intro hz
  have hsq : fsq (le pk % 2 ^ 255) = 1 :=
    fsub_one_eq_zero _ (Nat.mod_lt _ p_pos) hz
  have := hasSmallOrder_of_y_pm1 pk hl (sq_one_cases _ hy hsq)
  rw [hs] at this; cases this

/-- non-vacuity: the RFC 8032 TEST 1 public key satisfies both hypotheses -/
example : isCanonicalPoint Proofs.SignVectors.tvPk = true ∧ hasSmallOrder Proofs.SignVectors.tvPk = false := by
  decide +kernel

/-- the hypothesis `hs` cannot be dropped: `01 00 … 00 80` (`y = 1`, sign bit set) is canonical, the lenient decoder
accepts it (as the neutral element), the strict one refuses it -/
example : let s : Bytes := 1 :: (zeros 30 ++ [0x80])
    isCanonicalPoint s = true ∧ hasSmallOrder s = true ∧ decodePoint s = none ∧
      (decodePointLax s).isSome = true := by decide +kernel

#print axioms decodePoint_eq_lax
#print axioms canonical_y_lt_p

end DryocVerif.Proofs.SignStrictDecode
