import DryocVerif.Proofs.ProtectedErrExtra
/-
C19, `panic` outcomes in general: a token that answers `panic` (a re-lock with `expect` inside `Clone` /
`ResizableBytes::resize` / `clone_from` of a locked region that was refused) leaves the slots and every page of
the kernel as they were; whatever it had built has been unlocked, made `rw`, wiped and released.
-/
namespace DryocVerif.Proofs.Protected
open DryocVerif DryocVerif.Model.Protected

theorem doNewLocked_not_panic (c : Cfg) (s : State) (m : Mach) (v : PVec) (src : Option Bytes) (ro rnd : Bool) :
    (doNewLocked c s m v src ro rnd).1 ≠ .panic := by
  rcases doNewLocked_res c s m v src ro rnd with h | h <;> simp [h]

theorem doFromSlice_not_panic (c : Cfg) (s : State) (n : Nat) (ro : Bool) : (doFromSlice c s n ro).1 ≠ .panic := by
  rcases doFromSlice_res c s n ro with h | h <;> simp [h]

/-- a `panic` never changes the slots -/
theorem panic_shape (c : Cfg) (s : State) (t : Tok) (h : (stepCore c s t).1 = .panic) :
    (stepCore c s t).2.slots = s.slots := by
  have live : ∀ (i : Nat) (g : Res) (f : Slot → Res × State), g ≠ .panic →
      (∀ sl, (f sl).1 = .panic → (f sl).2.slots = s.slots) →
      (withLive s i g f).1 = .panic → (withLive s i g f).2.slots = s.slots := by
    intro i g f hg hf
    apply withLive_elim (Q := fun r => r.1 = .panic → r.2.slots = s.slots)
    · simp
    · intro hh; exact absurd hh hg
    · intro sl _ _ _ _ _; exact hf sl
  have never : ∀ (r : Res × State), r.1 ≠ .panic → r.1 = .panic → r.2.slots = s.slots :=
    fun r h1 h2 => absurd h2 h1
  have hcl : ∀ sl ro, (doCloneLocked c s sl ro).1 = .panic → (doCloneLocked c s sl ro).2.slots = s.slots := by
    intro sl ro
    unfold doCloneLocked; simp only []
    split <;> simp
  revert h
  unfold stepCore
  cases hop : t.op <;> simp only []
  case new =>
    unfold opNew; simp only []
    split
    · simp
    · split <;> simp
  case fill b =>
    unfold opFill; apply live _ _ _ (by simp); intro sl; split <;> simp
  case lock =>
    unfold opLock; apply live _ _ _ (by simp); intro sl
    split
    · exact never _ (by rcases doLock_res c s t.idx sl recNew .rw with h | h <;> simp [h])
    · rename_i pm _
      exact never _ (by rcases doLock_res c s t.idx sl sl.o.rcd pm with h | h <;> simp [h])
    · simp
  case unlock =>
    unfold opUnlock; apply live _ _ _ (by simp); intro sl; split <;> simp
  case ro =>
    unfold opProtect; apply live _ _ _ (by simp); intro sl; split <;> simp
  case rw =>
    unfold opProtect; apply live _ _ _ (by simp); intro sl; split <;> simp
  case na =>
    unfold opNa; apply live _ _ _ (by simp); intro sl; split <;> simp
  case clone =>
    unfold opClone; apply live _ _ _ (by simp); intro sl
    split
    · simp
    · simp
    · simp
    · split
      · simp
      · exact hcl _ _
    · split
      · simp
      · exact hcl _ _
    · simp
  case resize n b =>
    unfold opResize; apply live _ _ _ (by simp); intro sl
    split
    · simp
    split
    · simp
    · simp
    · simp only []; split <;> simp
    · simp
  case drop =>
    unfold opDrop; apply live _ _ _ (by simp); intro sl; simp
  case fsl n => exact never _ (doFromSlice_not_panic c s _ _)
  case fsro n => exact never _ (doFromSlice_not_panic c s _ _)
  case newlocked => exact never _ (doNewLocked_not_panic c s _ _ _ _ _)
  case genlocked => exact never _ (doNewLocked_not_panic c s _ _ _ _ _)
  case newrolocked => exact never _ (doNewLocked_not_panic c s _ _ _ _ _)
  case genrolocked => exact never _ (doNewLocked_not_panic c s _ _ _ _ _)
  case failfrom k => simp
  case wprobe off =>
    unfold opWProbe; apply live _ _ _ (by simp); intro sl
    split
    · simp
    · split <;> simp
  case rprobe off =>
    unfold opRProbe; apply live _ _ _ (by simp); intro sl
    split
    · simp
    · split <;> simp
  case gprobe f =>
    unfold opGProbe; apply live _ _ _ (by simp); intro sl
    split
    · simp
    · simp only []; repeat' split
      all_goals simp
  case wrap => simp
  case bad => simp
  case zeroize =>
    unfold opZeroize; apply live _ _ _ (by simp); intro sl; split <;> simp
  case clonefrom j =>
    unfold opCloneFrom
    split
    · simp
    split
    · split
      · simp
      split
      · split
        · simp
        · simp
        · split <;> simp
      · split <;> simp
    · simp
  case panicdrop =>
    unfold opDrop; apply live _ _ _ (by simp); intro sl; simp
  case stacklock =>
    intro hh
    exact absurd hh (by rcases opStackLock_res c s with h1 | h1 | h1 <;> simp [h1])
  case serde js n =>
    intro hh
    exact absurd hh (by rcases opSerde_res c s js n with h1 | h1 <;> simp [h1])

/-- `lock` and `zeroize` never answer `panic` -/
theorem panic_not_lock_zeroize (c : Cfg) (s : State) (t : Tok) (hp : (step c s t).1 = .panic) :
    t.op ≠ .lock ∧ t.op ≠ .zeroize := by
  constructor
  · intro hop
    exact result_never_panics c (resetRel s) t (by rw [hop]; rfl) hp
  · intro hop
    have : (step c s t).1 = (opZeroize c (resetRel s) t.idx).1 := by
      unfold step stepCore; rw [hop]
    rw [this] at hp
    revert hp
    unfold opZeroize
    apply withLive_elim (Q := fun r => r.1 = .panic → False)
    · simp
    · simp
    · intro sl _ _ _ _ _; split <;> simp

/-- **`panic_preserves_all`** (page part): any state satisfying `Inv` and `Tight`, any token whose outcome is
`panic`: the slots, every page's permission and lock flag, and the number of locked pages are as before -/
theorem panic_kernel {c : Cfg} (hP : 0 < c.P) {s : State} (h : Inv c s) (ht : Tight c s)
    (hl : Leakless c s.m) (t : Tok) (hp : (step c s t).1 = .panic) :
    (step c s t).2.slots = s.slots ∧
    (∀ p, (step c s t).2.m.k.perm p = s.m.k.perm p ∧ (step c s t).2.m.k.locked p = s.m.k.locked p) ∧
    lockedPages (step c s t).2.m.k = lockedPages s.m.k := by
  have hslots : (step c s t).2.slots = s.slots := panic_shape c (resetRel s) t hp
  have hn := panic_not_lock_zeroize c s t hp
  have hinv := inv_step hP h t (fun hh => hn.2 hh.1)
  have htight := tight_step hP h ht t (hl.imp id (fun hf => ⟨fun hl => hn.1 hl.1, hf⟩))
  exact ⟨hslots, same_slots_same_kernel h ht hinv htight hslots⟩

/-- the tokens that can answer `panic`: the non-`Result` operations that re-lock with `expect` -/
def canPanic : Op → Bool
  | .clone | .resize _ _ | .clonefrom _ => true
  | _ => false

/-- every other token never answers `panic` -/
theorem not_canPanic_never_panics (c : Cfg) (s : State) (t : Tok) (h : canPanic t.op = false) :
    (stepCore c s t).1 ≠ .panic := by
  have live : ∀ (i : Nat) (g : Res) (f : Slot → Res × State), g ≠ .panic → (∀ sl, (f sl).1 ≠ .panic) →
      (withLive s i g f).1 ≠ .panic := by
    intro i g f hg hf
    apply withLive_elim (Q := fun r => r.1 ≠ .panic)
    · simp
    · exact hg
    · intro sl _ _ _ _ _; exact hf sl
  by_cases hr : isResultOp t.op = true
  · exact result_never_panics c s t hr
  unfold stepCore
  cases hop : t.op <;> simp [hop, isResultOp, canPanic] at h hr <;> simp only []
  case new =>
    unfold opNew; simp only []
    split
    · simp
    · split <;> simp
  case fill b =>
    unfold opFill; apply live _ _ _ (by simp); intro sl; split <;> simp
  case drop =>
    unfold opDrop; apply live _ _ _ (by simp); intro sl; simp
  case failfrom k => simp
  case wprobe off =>
    unfold opWProbe; apply live _ _ _ (by simp); intro sl
    split
    · simp
    · split <;> simp
  case rprobe off =>
    unfold opRProbe; apply live _ _ _ (by simp); intro sl
    split
    · simp
    · split <;> simp
  case gprobe f =>
    unfold opGProbe; apply live _ _ _ (by simp); intro sl
    split
    · simp
    · simp only []; repeat' split
      all_goals simp
  case wrap => simp
  case bad => simp
  case zeroize =>
    unfold opZeroize; apply live _ _ _ (by simp); intro sl; split <;> simp
  case panicdrop =>
    unfold opDrop; apply live _ _ _ (by simp); intro sl; simp

/-- a `panic` can only come from `clone`, `resize` or `clonefrom` -/
theorem panic_only (c : Cfg) (s : State) (t : Tok) (hp : (step c s t).1 = .panic) :
    t.op = .clone ∨ (∃ n b, t.op = .resize n b) ∨ (∃ j, t.op = .clonefrom j) := by
  have h : canPanic t.op = true := by
    cases hc : canPanic t.op
    · exact absurd hp (not_canPanic_never_panics c (resetRel s) t hc)
    · rfl
  cases hop : t.op <;> simp [hop, canPanic] at h ⊢

end DryocVerif.Proofs.Protected
