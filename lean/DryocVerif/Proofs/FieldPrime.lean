import Mathlib.NumberTheory.LucasPrimality
import Mathlib.Tactic.NormNum.Prime
import DryocVerif.Spec.X25519
/-
The field prime `p = 2^255 − 19` IS prime: a Pratt certificate (Lucas' test, recursively over the
prime factors of `n − 1`), each step checked by kernel evaluation of a square-and-multiply modular
exponentiation (`powMod`, proved equal to exponentiation in `ZMod n`).  The factorisations and
witnesses were found outside Lean (GNU `factor`); nothing is trusted about them — every product,
every power and the primality of every factor is re-checked here.
Needed for Fermat's little theorem (`x ≢ 0 → x · x^(p−2) = 1`) in `Proofs/KeyFormsCode.lean`.
-/
namespace DryocVerif.Proofs.FieldPrime

/-- right-to-left square-and-multiply over the `bits` low bits of `e`, modulo `m` -/
def powModAux : ℕ → ℕ → ℕ → ℕ → ℕ → ℕ
  | 0, _, _, acc, _ => acc
  | bits + 1, b, e, acc, m =>
    powModAux bits (b * b % m) (e / 2) (if e % 2 = 1 then acc * b % m else acc) m

/-- `a ^ e mod m` for `e < 2^256` -/
def powMod (a e m : ℕ) : ℕ := powModAux 256 (a % m) e 1 m

theorem cast_powModAux (m bits : ℕ) : ∀ (b e acc : ℕ),
    ((powModAux bits b e acc m : ℕ) : ZMod m) = (acc : ZMod m) * (b : ZMod m) ^ (e % 2 ^ bits) := by
  induction bits with
  | zero => intro b e acc; simp [powModAux, Nat.mod_one]
  | succ n ih =>
    intro b e acc
    have hsplit : e % 2 ^ (n + 1) = 2 * ((e / 2) % 2 ^ n) + e % 2 := by
      rw [Nat.pow_succ, Nat.mul_comm (2 ^ n) 2, Nat.mod_mul, Nat.add_comm]
    rw [powModAux, ih, hsplit, ZMod.natCast_mod, Nat.cast_mul, ← pow_two, ← pow_mul]
    by_cases h : e % 2 = 1
    · rw [if_pos h, ZMod.natCast_mod, Nat.cast_mul, h]; ring
    · have h0 : e % 2 = 0 := by omega
      rw [if_neg h, h0]; ring

theorem cast_powMod (a e m : ℕ) (he : e < 2 ^ 256) :
    ((powMod a e m : ℕ) : ZMod m) = (a : ZMod m) ^ e := by
  unfold powMod
  rw [cast_powModAux, Nat.mod_eq_of_lt he, ZMod.natCast_mod]; simp

/-- Lucas' test with the prime factors of `p − 1` given as a list (with multiplicity) -/
theorem pratt (p a : ℕ) (fs : List ℕ) (hp : 1 < p) (hlt : p < 2 ^ 256)
    (hfs : ∀ q ∈ fs, q.Prime) (hprod : fs.prod = p - 1)
    (ha : powMod a (p - 1) p % p = 1)
    (hd : ∀ q ∈ fs, powMod a ((p - 1) / q) p % p ≠ 1) : p.Prime := by
  have key : ∀ e, e < 2 ^ 256 → ((a : ZMod p) ^ e = 1 ↔ powMod a e p % p = 1) := by
    intro e he
    rw [← cast_powMod a e p he]
    have : ((1 : ℕ) : ZMod p) = 1 := Nat.cast_one
    rw [← this, ZMod.natCast_eq_natCast_iff', Nat.mod_eq_of_lt hp]
  apply lucas_primality p (a : ZMod p)
  · exact (key _ (by omega)).mpr ha
  · intro q hq hdvd
    rw [← hprod] at hdvd
    obtain ⟨r, hr, hqr⟩ := (Prime.dvd_prod_iff hq.prime).mp hdvd
    have : q = r := (Nat.prime_dvd_prime_iff_eq hq (hfs r hr)).mp hqr
    subst this
    intro h
    exact hd q hr ((key _ (lt_of_le_of_lt (Nat.div_le_self _ _) (by omega))).mp h)

theorem all_nil : ∀ q ∈ ([] : List ℕ), q.Prime := by simp
theorem all_cons {a : ℕ} {l : List ℕ} (ha : a.Prime) (hl : ∀ q ∈ l, q.Prime) :
    ∀ q ∈ a :: l, q.Prime := by
  intro q hq
  rcases List.mem_cons.mp hq with rfl | h
  · exact ha
  · exact hl q h

/-! ### small primes (trial division by `norm_num`) -/

theorem prime_2 : Nat.Prime 2 := by norm_num
theorem prime_3 : Nat.Prime 3 := by norm_num
theorem prime_5 : Nat.Prime 5 := by norm_num
theorem prime_7 : Nat.Prime 7 := by norm_num
theorem prime_13 : Nat.Prime 13 := by norm_num
theorem prime_19 : Nat.Prime 19 := by norm_num
theorem prime_31 : Nat.Prime 31 := by norm_num
theorem prime_43 : Nat.Prime 43 := by norm_num
theorem prime_47 : Nat.Prime 47 := by norm_num
theorem prime_97 : Nat.Prime 97 := by norm_num
theorem prime_103 : Nat.Prime 103 := by norm_num
theorem prime_107 : Nat.Prime 107 := by norm_num
theorem prime_127 : Nat.Prime 127 := by norm_num
theorem prime_131 : Nat.Prime 131 := by norm_num
theorem prime_223 : Nat.Prime 223 := by norm_num
theorem prime_353 : Nat.Prime 353 := by norm_num
theorem prime_419 : Nat.Prime 419 := by norm_num
theorem prime_991 : Nat.Prime 991 := by norm_num
theorem prime_1723 : Nat.Prime 1723 := by norm_num
theorem prime_2437 : Nat.Prime 2437 := by norm_num
theorem prime_3727 : Nat.Prime 3727 := by norm_num
theorem prime_4153 : Nat.Prime 4153 := by norm_num
theorem prime_57467 : Nat.Prime 57467 := by norm_num
theorem prime_65147 : Nat.Prime 65147 := by norm_num
theorem prime_75707 : Nat.Prime 75707 := by norm_num

/-! ### the certificate chain -/

theorem prime_569003 : Nat.Prime 569003 :=
  pratt 569003 2 [2, 7, 97, 419] (by decide) (by decide)
    (all_cons prime_2 (all_cons prime_7 (all_cons prime_97 (all_cons prime_419 all_nil))))
    (by decide +kernel) (by decide +kernel) (by decide +kernel)

theorem prime_2773320623 : Nat.Prime 2773320623 :=
  pratt 2773320623 5 [2, 2437, 569003] (by decide) (by decide)
    (all_cons prime_2 (all_cons prime_2437 (all_cons prime_569003 all_nil)))
    (by decide +kernel) (by decide +kernel) (by decide +kernel)

theorem prime_72106336199 : Nat.Prime 72106336199 :=
  pratt 72106336199 7 [2, 13, 2773320623] (by decide) (by decide)
    (all_cons prime_2 (all_cons prime_13 (all_cons prime_2773320623 all_nil)))
    (by decide +kernel) (by decide +kernel) (by decide +kernel)

theorem prime_8574133 : Nat.Prime 8574133 :=
  pratt 8574133 2 [2, 2, 3, 7, 103, 991] (by decide) (by decide)
    (all_cons prime_2 (all_cons prime_2 (all_cons prime_3 (all_cons prime_7 (all_cons prime_103 (all_cons prime_991 all_nil))))))
    (by decide +kernel) (by decide +kernel) (by decide +kernel)

theorem prime_1919519569386763 : Nat.Prime 1919519569386763 :=
  pratt 1919519569386763 2 [2, 3, 7, 19, 47, 47, 127, 8574133] (by decide) (by decide)
    (all_cons prime_2 (all_cons prime_3 (all_cons prime_7 (all_cons prime_19 (all_cons prime_47 (all_cons prime_47 (all_cons prime_127 (all_cons prime_8574133 all_nil))))))))
    (by decide +kernel) (by decide +kernel) (by decide +kernel)

theorem prime_75445702479781427272750846543864801 : Nat.Prime 75445702479781427272750846543864801 :=
  pratt 75445702479781427272750846543864801 7 [2, 2, 2, 2, 2, 3, 3, 5, 5, 75707, 72106336199, 1919519569386763] (by decide) (by decide)
    (all_cons prime_2 (all_cons prime_2 (all_cons prime_2 (all_cons prime_2 (all_cons prime_2 (all_cons prime_3 (all_cons prime_3 (all_cons prime_5 (all_cons prime_5 (all_cons prime_75707 (all_cons prime_72106336199 (all_cons prime_1919519569386763 all_nil))))))))))))
    (by decide +kernel) (by decide +kernel) (by decide +kernel)

theorem prime_132049 : Nat.Prime 132049 :=
  pratt 132049 26 [2, 2, 2, 2, 3, 3, 7, 131] (by decide) (by decide)
    (all_cons prime_2 (all_cons prime_2 (all_cons prime_2 (all_cons prime_2 (all_cons prime_3 (all_cons prime_3 (all_cons prime_7 (all_cons prime_131 all_nil))))))))
    (by decide +kernel) (by decide +kernel) (by decide +kernel)

theorem prime_430751 : Nat.Prime 430751 :=
  pratt 430751 17 [2, 5, 5, 5, 1723] (by decide) (by decide)
    (all_cons prime_2 (all_cons prime_5 (all_cons prime_5 (all_cons prime_5 (all_cons prime_1723 all_nil)))))
    (by decide +kernel) (by decide +kernel) (by decide +kernel)

theorem prime_31757755568855353 : Nat.Prime 31757755568855353 :=
  pratt 31757755568855353 10 [2, 2, 2, 3, 31, 107, 223, 4153, 430751] (by decide) (by decide)
    (all_cons prime_2 (all_cons prime_2 (all_cons prime_2 (all_cons prime_3 (all_cons prime_31 (all_cons prime_107 (all_cons prime_223 (all_cons prime_4153 (all_cons prime_430751 all_nil)))))))))
    (by decide +kernel) (by decide +kernel) (by decide +kernel)

theorem prime_1923133 : Nat.Prime 1923133 :=
  pratt 1923133 2 [2, 2, 3, 43, 3727] (by decide) (by decide)
    (all_cons prime_2 (all_cons prime_2 (all_cons prime_3 (all_cons prime_43 (all_cons prime_3727 all_nil)))))
    (by decide +kernel) (by decide +kernel) (by decide +kernel)

theorem prime_74058212732561358302231226437062788676166966415465897661863160754340907 : Nat.Prime 74058212732561358302231226437062788676166966415465897661863160754340907 :=
  pratt 74058212732561358302231226437062788676166966415465897661863160754340907 2 [2, 3, 353, 57467, 132049, 1923133, 31757755568855353, 75445702479781427272750846543864801] (by decide) (by decide)
    (all_cons prime_2 (all_cons prime_3 (all_cons prime_353 (all_cons prime_57467 (all_cons prime_132049 (all_cons prime_1923133 (all_cons prime_31757755568855353 (all_cons prime_75445702479781427272750846543864801 all_nil))))))))
    (by decide +kernel) (by decide +kernel) (by decide +kernel)

theorem prime_57896044618658097711785492504343953926634992332820282019728792003956564819949 : Nat.Prime 57896044618658097711785492504343953926634992332820282019728792003956564819949 :=
  pratt 57896044618658097711785492504343953926634992332820282019728792003956564819949 2 [2, 2, 3, 65147, 74058212732561358302231226437062788676166966415465897661863160754340907] (by decide) (by decide)
    (all_cons prime_2 (all_cons prime_2 (all_cons prime_3 (all_cons prime_65147 (all_cons prime_74058212732561358302231226437062788676166966415465897661863160754340907 all_nil)))))
    (by decide +kernel) (by decide +kernel) (by decide +kernel)

/-- **the field prime is prime** -/
theorem p_prime : Nat.Prime Spec.X25519.p := prime_57896044618658097711785492504343953926634992332820282019728792003956564819949

end DryocVerif.Proofs.FieldPrime
