import DryocVerif.Proofs.ProtectedGood
/-
REUSE OF FREED BLOCKS.  The interpreter's `alloc` takes `base := m.k.brk`: a freed page is never handed out again,
whereas glibc does hand freed blocks out again.  Reuse is covered through the STATE a freed block is left in
(`C14.drop_restores`: read-write, unlocked; `C15.release_zeroed`: wiped) and through this file: `allocAt` hands out
the block at an arbitrary base page, and the PAGE part of the invariant (`GoodP`: `GoodL` without the ghost ledger)
is kept as soon as the pages handed out are read-write, unlocked and belong to no live block (`FreeAt`).  The page
part of `good_alloc` is the instance "fresh memory at the bump pointer" (`goodP_alloc`).

The ledger part of `GoodL` (`albase`: the bases of the allocated blocks are strictly increasing — used by C15 for
"nothing is freed twice") is exactly where "never reused" is used; it has no counterpart here.
-/
namespace DryocVerif.Proofs.Protected
open DryocVerif DryocVerif.Model.Protected

/-- the page part of `GoodL` -/
structure GoodP (P : Nat) (k : Kernel) (bl : List Blk) : Prop where
  start : startPage ≤ k.brk
  fresh : ∀ p, k.brk ≤ p → k.perm p = .rw ∧ k.locked p = false
  ok : ∀ b ∈ bl, BlockOK P k b
  disj : bl.Pairwise (Disj P)
  outside : ∀ p, (∀ b ∈ bl, ¬ inBlock P b.v p) → k.perm p = .rw

theorem GoodL.toGoodP {P : Nat} {k : Kernel} {bl : List Blk} (g : GoodL P k bl) : GoodP P k bl :=
  ⟨g.start, g.fresh, g.ok, g.disj, g.outside⟩

/-- the pages `[base, base + size / P + 3)` can be handed out: read-write, unlocked, owned by no live block -/
structure FreeAt (P : Nat) (k : Kernel) (bl : List Blk) (base size : Nat) : Prop where
  lo : startPage ≤ base
  rw : ∀ p, base ≤ p → p < base + size / P + 3 → k.perm p = .rw ∧ k.locked p = false
  free : ∀ b ∈ bl, ∀ p, base ≤ p → p < base + size / P + 3 → ¬ inBlock P b.v p

theorem alloc_eq_allocAt (c : Cfg) (m : Mach) (size : Nat) : alloc c m size = allocAt c m m.k.brk size := by
  simp [alloc, allocAt, Nat.max_eq_right]

@[simp] theorem allocAt_locked (c : Cfg) (m : Mach) (base size : Nat) :
    (allocAt c m base size).1.k.locked = m.k.locked := by
  simp [allocAt]

theorem allocAt_brk (c : Cfg) (hP : 0 < c.P) (m : Mach) (base size : Nat) :
    (allocAt c m base size).1.k.brk = max m.k.brk (base + size / c.P + 3) := by
  simp [allocAt, blockPages hP]; omega

theorem allocAt_perm (c : Cfg) (hP : 0 < c.P) (m : Mach) (base size : Nat) (i : Nat) :
    (allocAt c m base size).1.k.perm i =
      if base + 1 ≤ i ∧ i < base + 1 + pagesOf c.P size then .rw
      else if i = base + size / c.P + 2 then .none
      else if i = base then .none
      else m.k.perm i := by
  simp only [allocAt]
  rw [addr_succ, addr_aft hP, mprotect_perm hP, mprotect_perm hP, mprotect_perm hP, pagesOf_self hP]
  grind

/-- **allocation at a reused base keeps the page invariant**, provided the pages handed out are read-write,
unlocked and belong to no live block -/
theorem goodP_allocAt {c : Cfg} (hP : 0 < c.P) {m : Mach} {R : List Blk} (g : GoodP c.P m.k R)
    {base size : Nat} (hs : 0 < size) (hf : FreeAt c.P m.k R base size) (v : PVec) (hb : v.base = base)
    (hc : v.cap = size) (hl : v.len ≤ size) (hbuf : v.buf.length = size) :
    GoodP c.P (allocAt c m base size).1.k (⟨v, .rw, false⟩ :: R) := by
  have hbrk := allocAt_brk c hP m base size
  have hperm := allocAt_perm c hP m base size
  have hpl := pagesOf_le hP (Nat.le_refl size)
  have hpl2 := pagesOf_le hP hl
  have hm := pagesOf_mono (P := c.P) hl
  have hout : ∀ p, ¬ (base ≤ p ∧ p < base + size / c.P + 3) → (allocAt c m base size).1.k.perm p = m.k.perm p := by
    intro p hp; rw [hperm]; grind
  have hst := g.start
  refine ⟨by rw [hbrk]; omega, ?_, ?_, ?_, ?_⟩
  · intro p hp
    rw [hbrk] at hp
    rw [hout p (by omega), allocAt_locked]
    exact g.fresh p (by omega)
  · intro o ho
    rcases List.mem_cons.mp ho with rfl | ho
    · refine ⟨by simp [hc, hl], by simp [hbuf, hc], fun _ => by simp only [hb]; exact hf.lo, ?_, ?_, ?_, ?_, ?_⟩
      · intro _; simp only [hb, hc, hbrk]; omega
      · intro _; simp only [hb, allocAt_locked]; rw [hperm]
        exact ⟨by grind, (hf.rw _ (Nat.le_refl _) (by omega)).2⟩
      · intro _; simp only [hb, hc, allocAt_locked]; rw [hperm]
        exact ⟨by grind, (hf.rw _ (by omega) (by omega)).2⟩
      · intro p h1 h2
        simp only [hb] at h1 h2
        simp only [allocAt_locked]; rw [hperm]
        exact ⟨by grind, (hf.rw _ (by omega) (by omega)).2⟩
      · intro _ p h1 h2
        simp only [hb, hc] at h1 h2
        simp only [allocAt_locked]; rw [hperm]
        have := hf.rw p (by omega) (by omega)
        exact ⟨by grind, this.2⟩
    · refine (g.ok o ho).congr hP (by rw [hbrk]; omega) ?_
      intro p hp
      rw [hout p (fun hh => hf.free o ho p hh.1 hh.2 hp), allocAt_locked]; simp
  · refine List.pairwise_cons.mpr ⟨?_, g.disj⟩
    intro o ho p hp
    have h1 := hp.1.2.1; have h2 := hp.1.2.2
    simp only [hb, hc] at h1 h2
    exact hf.free o ho p h1 h2 hp.2
  · intro p hp
    have hn : ¬ inBlock c.P v p := hp ⟨v, .rw, false⟩ (by simp)
    have hn' : ¬ (base ≤ p ∧ p < base + size / c.P + 3) := by
      intro h; exact hn ⟨by omega, by rw [hb]; omega, by rw [hb, hc]; omega⟩
    rw [hout p hn']
    exact g.outside p (fun o ho => hp o (by simp [ho]))

/-- in a state without stray locks every page range that meets no live block can be handed out — in particular the
pages of a block that was dropped earlier -/
theorem freeAt_of_unowned {P : Nat} {k : Kernel} {R : List Blk} (g : GoodP P k R) (t : TightL P k R)
    {base size : Nat} (lo : startPage ≤ base)
    (hfree : ∀ b ∈ R, ∀ p, base ≤ p → p < base + size / P + 3 → ¬ inBlock P b.v p) : FreeAt P k R base size where
  lo := lo
  rw := fun p h1 h2 => ⟨g.outside p (fun b hb => hfree b hb p h1 h2), t p (fun b hb => hfree b hb p h1 h2)⟩
  free := hfree

/-- fresh memory at the bump pointer satisfies the precondition … -/
theorem freeAt_brk {P : Nat} {k : Kernel} {R : List Blk} (g : GoodP P k R) (size : Nat) : FreeAt P k R k.brk size where
  lo := g.start
  rw := fun p hp _ => g.fresh p hp
  free := fun o ho p hp _ hi => by
    have := (g.ok o ho).hi hi.1
    have := hi.2.2; omega

/-- … so the page part of `good_alloc` is an instance of `goodP_allocAt` -/
theorem goodP_alloc {c : Cfg} (hP : 0 < c.P) {m : Mach} {R : List Blk} (g : GoodP c.P m.k R)
    {size : Nat} (hs : 0 < size) (v : PVec) (hb : v.base = m.k.brk) (hc : v.cap = size)
    (hl : v.len ≤ size) (hbuf : v.buf.length = size) :
    GoodP c.P (alloc c m size).1.k (⟨v, .rw, false⟩ :: R) := by
  rw [alloc_eq_allocAt]
  exact goodP_allocAt hP g hs (freeAt_brk g size) v hb hc hl hbuf

end DryocVerif.Proofs.Protected
