import DryocVerif.Model.EncodingVec
import DryocVerif.Model.ObjectView
import DryocVerif.Proofs.EncodingExtra
import DryocVerif.Proofs.ObjectViewExtra
import DryocVerif.Proofs.Sign
/-!
Helper lemmas for the `Vec<u8>`-as-fixed-length-container additions to `Properties/C16.lean`
(`Model/EncodingVec.lean`): serde's `Vec<u8>` visitor is not strict, the struct codecs by container kind, the
code-shaped serialisers, pair structs, and the pre-fix `Locked<HeapByteArray<N>>` visitor as a counter-model.
Core only.
-/
namespace DryocVerif.Proofs.EncodingVecExtra
open DryocVerif DryocVerif.Model.Encoding DryocVerif.Model.SecretBox DryocVerif.Model.EncodingVec
open DryocVerif.Model.ArrayView DryocVerif.Proofs.EncodingExtra
open DryocVerif.Model.KeyForms (copyIntoRange)

/-! ### serde's `Vec<u8>` in a fixed-length position -/

theorem deVecFixed_seq (sd : Bool) (n : Nat) (es : Bytes) : deVecFixed sd n (.seq es) = .ok es := rfl

/-- closed form -/
theorem deVecFixed_eq (sd : Bool) (n : Nat) (enc : Enc) :
    deVecFixed sd n enc = match enc with
      | .seq es => .ok es
      | .bytes bs => if sd then .err else .ok bs := by
  cases enc <;> rfl

/-- never a panic; never an error on an element sequence -/
theorem deVecFixed_never_panics (sd : Bool) (n : Nat) (enc : Enc) : deVecFixed sd n enc ≠ .panic := by
  cases enc with
  | seq es => simp [deVecFixed]
  | bytes bs => cases sd <;> simp [deVecFixed]

/-- **`fixed_len_strict` is FALSE for a `Vec<u8>` in a `ByteArray<n>` position**: every element sequence of a
wrong length is accepted as it is -/
theorem deVecFixed_not_strict (sd : Bool) (n : Nat) (es : Bytes) (h : es.length ≠ n) :
    ¬ (∀ a, deVecFixed sd n (.seq es) = .ok a ↔ (Enc.seq es).payload.length = n ∧ a = (Enc.seq es).payload) := by
  intro hall
  exact h ((hall es).1 rfl).1

/-- `de ∘ ser = id` for the `Vec<u8>` cell, whatever the length and the format -/
theorem deVecFixed_serVec (sd : Bool) (n : Nat) (bs : Bytes) : deVecFixed sd n (serVec bs) = .ok bs := rfl

theorem deField_typed (sd : Bool) (n : Nat) (e : Enc) : deField .typed sd n e = deFixed n e := rfl
theorem deField_vec (sd : Bool) (n : Nat) (e : Enc) : deField .vec sd n e = deVecFixed sd n e := rfl
theorem deData_typed (sd : Bool) (e : Enc) : deData .typed sd e = deHeap e := rfl

theorem deField_array (sd : Bool) (n : Nat) (e : Enc) : deField .array sd n e = deArray n e := rfl

/-- closed form of serde's `[u8; n]` visitor: exactly the element sequences of length `n` -/
theorem deArray_ok_iff (n : Nat) (e : Enc) (a : Bytes) :
    deArray n e = .ok a ↔ e = .seq a ∧ a.length = n := by
  cases e with
  | seq es =>
    simp only [deArray]
    by_cases h : es.length = n
    · simp only [if_pos h, Outcome.ok.injEq, Enc.seq.injEq]
      constructor
      · intro h1; subst h1; exact ⟨rfl, h⟩
      · intro h1; exact h1.1
    · simp only [if_neg h, Enc.seq.injEq]
      constructor
      · intro h1; cases h1
      · intro h1; obtain ⟨h2, h3⟩ := h1; subst h2; exact absurd h3 h
  | bytes bs => simp [deArray]

theorem deArray_never_panics (n : Nat) (e : Enc) : deArray n e ≠ .panic := by
  cases e with
  | seq es => simp only [deArray]; split <;> simp
  | bytes bs => simp [deArray]

theorem deArray_ser (n : Nat) (bs : Bytes) (h : bs.length = n) : deArray n (serArray bs) = .ok bs := by
  simp [deArray, serArray, h]

theorem deField_serField (k : Kind) (sd : Bool) (n : Nat) (bs : Bytes) (h : k ≠ .vec → bs.length = n) :
    deField k sd n (serField k bs) = .ok bs := by
  cases k with
  | typed => exact deFixed_ser n bs (h (by decide))
  | vec => rfl
  | array => exact deArray_ser n bs (h (by decide))

theorem deData_serField (k : Kind) (sd : Bool) (bs : Bytes) : deData k sd (serField k bs) = .ok bs := by
  cases k with
  | typed => exact deHeap_ser bs
  | vec => rfl
  | array => simp [deData, serField, serArray, deArray, Enc.payload]

/-- the format-aware serialiser: what it is, by kind and format -/
theorem serField'_eq (k : Kind) (sd : Bool) (bs : Bytes) :
    serField' k sd bs = match k, sd with
      | .typed, false => .bytes bs
      | _, _ => .seq bs := by
  cases k <;> cases sd <;> rfl

/-- on bincode (`sd = false`) the format-aware serialiser IS the token-level one -/
theorem serField'_bincode (k : Kind) (bs : Bytes) : serField' k false bs = serField k bs := by
  cases k <;> rfl

theorem deField_serField' (k : Kind) (sd : Bool) (n : Nat) (bs : Bytes) (h : k ≠ .vec → bs.length = n) :
    deField k sd n (serField' k sd bs) = .ok bs := by
  cases k with
  | typed =>
    have hl := h (by decide)
    cases sd
    · exact deFixed_ser n bs hl
    · show deFixed n (.seq bs) = .ok bs
      rw [deFixed_eq]; simp [Enc.payload, hl]
  | vec => cases sd <;> rfl
  | array =>
    have hl := h (by decide)
    cases sd <;> exact deArray_ser n bs hl

theorem deData_serField' (k : Kind) (sd : Bool) (bs : Bytes) : deData k sd (serField' k sd bs) = .ok bs := by
  cases k with
  | typed =>
    cases sd
    · exact deHeap_ser bs
    · show deHeap (.seq bs) = .ok bs
      rw [deHeap_eq]; rfl
  | vec => cases sd <;> rfl
  | array => cases sd <;> simp [deData, serField', deArray, Enc.payload]

/-! ### struct codecs by kind -/

/-- the all-`typed` instance is the existing model -/
theorem deBoxK_typed (sd : Bool) (e : EncBox) : deBoxK .typed .typed .typed sd e = deBox e := rfl
theorem serBoxK_typed (b : Box) : serBoxK .typed .typed .typed b = serBox b := rfl
theorem deSignedK_typed (sd : Bool) (e : EncSigned) : deSignedK .typed .typed sd e = deSigned e := rfl
theorem serSignedK_typed (sm : Bytes × Bytes) : serSignedK .typed .typed sm = serSigned sm := rfl

/-- **`de ∘ ser = id` on a box struct for every choice of container kinds**: the length hypotheses are needed only
for the fields held in a typed container -/
theorem deBoxK_serBoxK (kE kT kD : Kind) (sd : Bool) (b : Box) (ht : kT ≠ .vec → b.tag.length = 16)
    (he : kE ≠ .vec → ∀ e, b.epk = some e → e.length = 32) :
    deBoxK kE kT kD sd (serBoxK kE kT kD b) = .ok b := by
  obtain ⟨epk, tag, data⟩ := b
  simp only at ht he
  cases epk with
  | none =>
    simp [deBoxK, serBoxK, Outcome.andThen, deField_serField kT sd 16 tag ht, deData_serField]
  | some e =>
    simp [deBoxK, serBoxK, Outcome.andThen, deField_serField kT sd 16 tag ht, deData_serField,
      deField_serField kE sd 32 e (fun hk => he hk e rfl)]

theorem deSignedK_serSignedK (kS kM : Kind) (sd : Bool) (sm : Bytes × Bytes)
    (h : kS ≠ .vec → sm.1.length = 64) : deSignedK kS kM sd (serSignedK kS kM sm) = .ok sm := by
  obtain ⟨sig, m⟩ := sm
  simp only at h
  simp [deSignedK, serSignedK, Outcome.andThen, deField_serField kS sd 64 sig h, deData_serField]

/-- **`de ∘ ser = id` through the format's rendering** (`serBoxK'`: a JSON array for every container on serde_json;
a byte string for dryoc's containers and an element sequence for `Vec<u8>` / `[u8; N]` on bincode) -/
theorem deBoxK_serBoxK' (kE kT kD : Kind) (sd : Bool) (b : Box) (ht : kT ≠ .vec → b.tag.length = 16)
    (he : kE ≠ .vec → ∀ e, b.epk = some e → e.length = 32) :
    deBoxK kE kT kD sd (serBoxK' kE kT kD sd b) = .ok b := by
  obtain ⟨epk, tag, data⟩ := b
  simp only at ht he
  cases epk with
  | none =>
    simp [deBoxK, serBoxK', Outcome.andThen, deField_serField' kT sd 16 tag ht, deData_serField']
  | some e =>
    simp [deBoxK, serBoxK', Outcome.andThen, deField_serField' kT sd 16 tag ht, deData_serField',
      deField_serField' kE sd 32 e (fun hk => he hk e rfl)]

theorem deSignedK_serSignedK' (kS kM : Kind) (sd : Bool) (sm : Bytes × Bytes)
    (h : kS ≠ .vec → sm.1.length = 64) : deSignedK kS kM sd (serSignedK' kS kM sd sm) = .ok sm := by
  obtain ⟨sig, m⟩ := sm
  simp only at h
  simp [deSignedK, serSignedK', Outcome.andThen, deField_serField' kS sd 64 sig h, deData_serField']

/-- a `Vec<u8>` tag field: EVERY element sequence decodes, to itself (here with `Vec<u8>` data and no key) -/
theorem deBoxK_vecTag_seq (kE kD : Kind) (sd : Bool) (es : Bytes) (d : Enc) (data : Bytes)
    (hd : deData kD sd d = .ok data) :
    deBoxK kE .vec kD sd ⟨none, .seq es, d⟩ = .ok ⟨none, es, data⟩ := by
  simp [deBoxK, Outcome.andThen, deField, deVecFixed, hd]

/-- a typed tag field of the same struct rejects every encoding whose payload is not 16 bytes long -/
theorem deBoxK_typedTag_err (kE kD : Kind) (sd : Bool) (t d : Enc) (h : t.payload.length ≠ 16) :
    deBoxK kE .typed kD sd ⟨none, t, d⟩ = .err := by
  simp [deBoxK, Outcome.andThen, deField, deFixed_eq, h]

theorem deSignedK_vecSig_seq (kM : Kind) (sd : Bool) (es : Bytes) (m : Enc) (msg : Bytes)
    (hm : deData kM sd m = .ok msg) :
    deSignedK .vec kM sd ⟨.seq es, m⟩ = .ok (es, msg) := by
  simp [deSignedK, Outcome.andThen, deField, deVecFixed, hm]

/-! ### consequence, with `Model/ObjectView.lean`: decode, then use -/

/-- a tag of FEWER than 16 elements in a `DryocSecretBox<Vec<u8>, _>` decodes, and `decrypt` on the decoded object
panics (whatever the primitives, nonce and key) -/
theorem vecTag_short_decodes_then_decrypt_panics (P : Prims) (kE kD : Kind) (sd : Bool) (es : Bytes) (d : Enc)
    (data nonce key : Bytes) (hd : deData kD sd d = .ok data) (h : es.length < 16) :
    ∃ b, deBoxK kE .vec kD sd ⟨none, .seq es, d⟩ = .ok b ∧ b.tag = es ∧
      Model.ObjectView.objDecryptView P b nonce key = .panic :=
  ⟨_, deBoxK_vecTag_seq kE kD sd es d data hd, rfl,
    (Proofs.ObjectViewExtra.objDecryptView_cases P _ nonce key).1.2 (Or.inl h)⟩

/-- a tag of MORE than 16 elements decodes, and `decrypt` uses its first 16 bytes: the result is that of the box
with the truncated tag (24-byte nonce, 32-byte key) -/
theorem vecTag_long_decodes_then_decrypt_prefix (P : Prims) (kE kD : Kind) (sd : Bool) (es : Bytes) (d : Enc)
    (data nonce key : Bytes) (hd : deData kD sd d = .ok data) (h : 16 ≤ es.length)
    (hn : nonce.length = 24) (hk : key.length = 32) :
    ∃ b, deBoxK kE .vec kD sd ⟨none, .seq es, d⟩ = .ok b ∧ b.tag = es ∧
      Model.ObjectView.objDecryptView P b nonce key = objDecrypt P ⟨none, es.take 16, data⟩ nonce key := by
  refine ⟨_, deBoxK_vecTag_seq kE kD sd es d data hd, rfl, ?_⟩
  have hc := (Proofs.ObjectViewExtra.objDecryptView_cases P ⟨none, es, data⟩ nonce key).2
    (by dsimp only; omega)
  rw [hc, List.take_of_length_le (Nat.le_of_eq hn), List.take_of_length_le (Nat.le_of_eq hk)]

/-- the same for a signed message: a 63-element signature decodes and `verify` panics; a longer one is verified
through its first 64 bytes -/
theorem vecSig_short_decodes_then_verify_panics (H : Bytes → Bytes) (kM : Kind) (sd : Bool) (es : Bytes) (m : Enc)
    (msg pk : Bytes) (hm : deData kM sd m = .ok msg) (h : es.length < 64) :
    ∃ sm, deSignedK .vec kM sd ⟨.seq es, m⟩ = .ok sm ∧ sm.1 = es ∧
      Model.ObjectView.objVerifyMessage H sm.1 sm.2 pk = .panic :=
  ⟨_, deSignedK_vecSig_seq kM sd es m msg hm, rfl,
    (Proofs.ObjectViewExtra.objVerifyMessage_cases H es msg pk).1.2 (Or.inl h)⟩

/-! ### pair structs -/

theorem dePairK_serPairK (k₁ k₂ : Kind) (sd : Bool) (n m : Nat) (p : Bytes × Bytes)
    (h1 : k₁ ≠ .vec → p.1.length = n) (h2 : k₂ ≠ .vec → p.2.length = m) :
    dePairK k₁ k₂ sd n m (serPairK k₁ k₂ p) = .ok p := by
  obtain ⟨a, b⟩ := p
  simp only at h1 h2
  simp [dePairK, serPairK, Outcome.andThen, deField_serField k₁ sd n a h1, deField_serField k₂ sd m b h2]

theorem dePairK_serPairK' (k₁ k₂ : Kind) (sd : Bool) (n m : Nat) (p : Bytes × Bytes)
    (h1 : k₁ ≠ .vec → p.1.length = n) (h2 : k₂ ≠ .vec → p.2.length = m) :
    dePairK k₁ k₂ sd n m (serPairK' k₁ k₂ sd p) = .ok p := by
  obtain ⟨a, b⟩ := p
  simp only at h1 h2
  simp [dePairK, serPairK', Outcome.andThen, deField_serField' k₁ sd n a h1, deField_serField' k₂ sd m b h2]

theorem dePair_serPair (n m : Nat) (p : Bytes × Bytes) (h1 : p.1.length = n) (h2 : p.2.length = m) :
    dePair n m (serPair p) = .ok p :=
  dePairK_serPairK .typed .typed false n m p (fun _ => h1) (fun _ => h2)

/-! ### `from_slices` -/

theorem tryFromSlice_eq (n : Nat) (bs : Bytes) : tryFromSlice n bs = if bs.length = n then .ok bs else .err := by
  unfold tryFromSlice
  by_cases h : bs.length = n <;> simp [h]

/-- closed form of `from_slices` for the strict conversions (`k ≠ .vec`: dryoc's containers and `[u8; N]`) -/
theorem fromSlices_strict_eq (k₁ k₂ : Kind) (h₁ : k₁ ≠ .vec) (h₂ : k₂ ≠ .vec) (n m : Nat) (a b : Bytes) :
    fromSlices k₁ k₂ n m a b = if a.length = n ∧ b.length = m then .ok (a, b) else .err := by
  have t₁ : tryField k₁ n a = tryFromSlice n a := by cases k₁ <;> first | rfl | exact absurd rfl h₁
  have t₂ : tryField k₂ m b = tryFromSlice m b := by cases k₂ <;> first | rfl | exact absurd rfl h₂
  simp only [fromSlices, t₁, t₂, tryFromSlice_eq, Outcome.andThen]
  by_cases ha : a.length = n <;> by_cases hb : b.length = m <;> simp [ha, hb]

/-- **`KeyPair::from_slices` / `SigningKeyPair::from_slices` with typed containers**: `Ok` iff BOTH slices have
exactly the lengths of their containers, and then the pair holds exactly the two slices -/
theorem fromSlices_typed_ok_iff (n m : Nat) (a b : Bytes) (p : Bytes × Bytes) :
    fromSlices .typed .typed n m a b = .ok p ↔ (a.length = n ∧ b.length = m) ∧ p = (a, b) := by
  rw [fromSlices_strict_eq .typed .typed (by decide) (by decide)]
  by_cases h : a.length = n ∧ b.length = m
  · rw [if_pos h]
    constructor
    · intro h1; cases h1; exact ⟨h, rfl⟩
    · intro h1; rw [h1.2]
  · rw [if_neg h]
    constructor
    · intro h1; cases h1
    · intro h1; exact absurd h1.1 h

/-- failure half: an error iff one of the two lengths is wrong; never a panic -/
theorem fromSlices_typed_err_iff (n m : Nat) (a b : Bytes) :
    (fromSlices .typed .typed n m a b = .err ↔ ¬ (a.length = n ∧ b.length = m)) ∧
    fromSlices .typed .typed n m a b ≠ .panic := by
  rw [fromSlices_strict_eq .typed .typed (by decide) (by decide)]
  by_cases h : a.length = n ∧ b.length = m
  · rw [if_pos h]; simp [h]
  · rw [if_neg h]; simp [h]

/-- the public key is converted FIRST: a wrong public-key slice decides the outcome before the secret-key slice is
looked at (with `Outcome.err` carrying no message this is the only trace of the order) -/
theorem fromSlices_pk_first (k₂ : Kind) (n m : Nat) (a b : Bytes) (h : a.length ≠ n) :
    fromSlices .typed k₂ n m a b = .err := by
  simp [fromSlices, tryField, tryFromSlice, h, Outcome.andThen]

/-- **with `Vec<u8>` containers nothing is checked**: `TryFrom<&[u8]> for Vec<u8>` is the blanket impl over the
infallible `From<&[u8]>` — any two slices are accepted as a "key pair" -/
theorem fromSlices_vec_not_strict (n m : Nat) (a b : Bytes) : fromSlices .vec .vec n m a b = .ok (a, b) := rfl

/-- exact success condition of a typed pair on ARBITRARY field encodings -/
theorem dePair_ok_iff (n m : Nat) (e : EncPair) (p : Bytes × Bytes) :
    dePair n m e = .ok p ↔
      e.fst.payload.length = n ∧ e.snd.payload.length = m ∧ p = (e.fst.payload, e.snd.payload) := by
  obtain ⟨x, y⟩ := e
  simp only [dePair, dePairK, deField, Outcome.andThen, deFixed_eq]
  by_cases hx : x.payload.length = n <;> by_cases hy : y.payload.length = m <;>
    simp [hx, hy]
  exact eq_comm

theorem dePair_never_panics (n m : Nat) (e : EncPair) : dePair n m e ≠ .panic := by
  obtain ⟨x, y⟩ := e
  simp only [dePair, dePairK, deField, Outcome.andThen, deFixed_eq]
  by_cases hx : x.payload.length = n <;> by_cases hy : y.payload.length = m <;> simp [hx, hy]

/-! ### code-shaped serialisers -/

theorem zeros_length (n : Nat) : (zeros n).length = n := by simp [zeros]

theorem copyIntoRange_ok (dst : Bytes) (a b : Nat) (src : Bytes) (h : a ≤ b ∧ b ≤ dst.length ∧ b - a = src.length) :
    copyIntoRange dst a b src = .ok (dst.take a ++ src ++ dst.drop b) := by
  unfold copyIntoRange; rw [if_pos h]

theorem copyIntoRange_panic (dst : Bytes) (a b : Nat) (src : Bytes)
    (h : ¬ (a ≤ b ∧ b ≤ dst.length ∧ b - a = src.length)) : copyIntoRange dst a b src = .panic := by
  unfold copyIntoRange; rw [if_neg h]

theorem drop_zeros (a b : Nat) : (zeros (a + b)).drop a = zeros b := by
  simp [zeros, List.drop_replicate]

/-- `s[..k].copy_from_slice(x); s[k..].copy_from_slice(y)` on a fresh `|x| + |y|`-byte buffer (sized with
`x.len()`): succeeds iff `|x| = k` -/
theorem two_copies (k : Nat) (x y : Bytes) :
    Model.EncodingVec.bind (copyIntoRange (zeros (x.length + y.length)) 0 k x)
        (fun s => copyIntoRange s k s.length y)
      = if x.length = k then Outcome.ok (x ++ y) else Outcome.panic := by
  by_cases h : x.length = k
  · subst h
    have h1 : copyIntoRange (zeros (x.length + y.length)) 0 x.length x = .ok (x ++ zeros y.length) := by
      rw [copyIntoRange_ok (zeros (x.length + y.length)) 0 x.length x (by rw [zeros_length]; omega),
        drop_zeros]
      simp
    have h2 : copyIntoRange (x ++ zeros y.length) x.length (x ++ zeros y.length).length y = .ok (x ++ y) := by
      rw [copyIntoRange_ok (x ++ zeros y.length) x.length (x ++ zeros y.length).length y
        (by rw [List.length_append, zeros_length]; omega)]
      simp
    rw [h1, if_pos rfl]
    exact h2
  · rw [if_neg h, copyIntoRange_panic (zeros (x.length + y.length)) 0 k x (by omega)]
    rfl

/-- **`SignedMessage::to_bytes`, code-shaped**: `Ok`-equal to the total `Model.Sign.toBytes` iff the signature
container holds exactly 64 bytes; a panic for every other length -/
theorem signedToBytesRaw_eq (sm : Bytes × Bytes) :
    signedToBytesRaw sm = if sm.1.length = 64 then .ok (Model.Sign.toBytes sm) else .panic := by
  unfold signedToBytesRaw Model.Sign.toBytes
  exact two_copies 64 sm.1 sm.2

theorem three_copies (e tag data : Bytes) :
    Model.EncodingVec.bind (copyIntoRange (zeros (e.length + tag.length + data.length)) 0 32 e) (fun s =>
      Model.EncodingVec.bind (copyIntoRange s 32 48 tag) fun s => copyIntoRange s 48 s.length data)
      = if e.length = 32 ∧ tag.length = 16 then Outcome.ok (e ++ tag ++ data) else Outcome.panic := by
  by_cases he : e.length = 32
  · have h1 : copyIntoRange (zeros (e.length + tag.length + data.length)) 0 32 e
        = .ok (e ++ zeros (tag.length + data.length)) := by
      rw [copyIntoRange_ok (zeros (e.length + tag.length + data.length)) 0 32 e
        (by rw [zeros_length]; omega), he, Nat.add_assoc, drop_zeros]
      simp
    rw [h1]
    show Model.EncodingVec.bind (copyIntoRange (e ++ zeros (tag.length + data.length)) 32 48 tag) _ = _
    by_cases ht : tag.length = 16
    · have h2 : copyIntoRange (e ++ zeros (tag.length + data.length)) 32 48 tag
          = .ok (e ++ tag ++ zeros data.length) := by
        rw [copyIntoRange_ok (e ++ zeros (tag.length + data.length)) 32 48 tag
          (by rw [List.length_append, zeros_length]; omega)]
        have e1 : (e ++ zeros (tag.length + data.length)).take 32 = e := List.take_left' he
        have e2 : (e ++ zeros (tag.length + data.length)).drop 48 = zeros data.length := by
          have : (48 : Nat) = e.length + 16 := by omega
          rw [this, ← List.drop_drop, List.drop_left, ht, drop_zeros]
        rw [e1, e2]
      rw [h2, if_pos ⟨he, ht⟩]
      show copyIntoRange (e ++ tag ++ zeros data.length) 48 (e ++ tag ++ zeros data.length).length data = _
      rw [copyIntoRange_ok (e ++ tag ++ zeros data.length) 48 (e ++ tag ++ zeros data.length).length data
        (by simp only [List.length_append, zeros_length]; omega)]
      have e3 : (e ++ tag ++ zeros data.length).take 48 = e ++ tag :=
        List.take_left' (by rw [List.length_append]; omega)
      rw [e3, List.drop_length, List.append_nil]
    · rw [copyIntoRange_panic (e ++ zeros (tag.length + data.length)) 32 48 tag (by omega),
        if_neg (fun h => ht h.2)]
      rfl
  · rw [copyIntoRange_panic (zeros (e.length + tag.length + data.length)) 0 32 e (by omega),
      if_neg (fun h => he h.1)]
    rfl

/-- **`DryocSecretBox::to_bytes` / `DryocBox::to_bytes`, code-shaped**: `Ok`-equal to the total
`Model.SecretBox.toBytes` iff the tag container holds exactly 16 bytes and the ephemeral key (if any) exactly 32;
a panic otherwise -/
theorem toBytesRaw_eq (b : Box) :
    toBytesRaw b = if b.tag.length = 16 ∧ (∀ e, b.epk = some e → e.length = 32) then .ok (toBytes b)
      else .panic := by
  obtain ⟨epk, tag, data⟩ := b
  cases epk with
  | none =>
    simp only [toBytesRaw, toBytes]
    rw [two_copies 16 tag data]
    by_cases h : tag.length = 16 <;> simp [h]
  | some e =>
    simp only [toBytesRaw, toBytes]
    rw [three_copies e tag data]
    by_cases he : e.length = 32 <;> by_cases ht : tag.length = 16 <;> simp [he, ht]

theorem rotateRight_append_zeros (m : Bytes) : rotateRight (m ++ zeros 16) 16 = zeros 16 ++ m := by
  unfold rotateRight
  have hl : (m ++ zeros 16).length - 16 = m.length := by
    rw [List.length_append, zeros_length]; omega
  rw [hl, List.drop_left, List.take_left]

/-- **`into_vec`, code-shaped**: a panic iff the tag container is shorter than 16 bytes; otherwise the FIRST 16
bytes of the tag followed by the data -/
theorem intoVecRaw_eq (b : Box) :
    intoVecRaw b = if b.tag.length < 16 then .panic else .ok (b.tag.take 16 ++ b.data) := by
  unfold intoVecRaw MACBYTES
  have hl : ¬ (16 > (b.data ++ zeros 16).length) := by rw [List.length_append, zeros_length]; omega
  simp only [hl, if_false, rotateRight_append_zeros]
  by_cases ht : b.tag.length < 16
  · rw [Proofs.ObjectViewExtra.asArray_of_lt _ _ ht, if_pos ht]; rfl
  · rw [Proofs.ObjectViewExtra.asArray_of_le _ _ (by omega), if_neg ht]
    simp only [Model.EncodingVec.bind]
    rw [copyIntoRange_ok (zeros 16 ++ b.data) 0 16 (b.tag.take 16) (by
      simp only [List.length_append, zeros_length, List.length_take]; omega)]
    simp only [List.take_zero, List.nil_append]
    rw [List.drop_left' (zeros_length 16)]

/-- with a 16-byte tag all three serialisers agree with the total models -/
theorem intoVecRaw_exact (b : Box) (ht : b.tag.length = 16) : intoVecRaw b = .ok (intoVec b) := by
  rw [intoVecRaw_eq, if_neg (by omega), List.take_of_length_le (by omega)]
  simp only [intoVec, MACBYTES, rotateRight_append_zeros]
  rw [List.drop_left' (zeros_length 16)]

theorem toBytesRaw_exact (b : Box) (ht : b.tag.length = 16) (he : ∀ e, b.epk = some e → e.length = 32) :
    toBytesRaw b = .ok (toBytes b) := by
  rw [toBytesRaw_eq, if_pos ⟨ht, he⟩]

theorem signedToBytesRaw_exact (sm : Bytes × Bytes) (h : sm.1.length = 64) :
    signedToBytesRaw sm = .ok (Model.Sign.toBytes sm) := by
  rw [signedToBytesRaw_eq, if_pos h]

/-- **`into_vec` = `to_bytes` for the code-shaped versions, WITH the hypothesis the total version hides**:
no ephemeral key and a 16-byte tag -/
theorem intoVecRaw_eq_toBytesRaw (b : Box) (hepk : b.epk = none) (ht : b.tag.length = 16) :
    intoVecRaw b = toBytesRaw b := by
  rw [intoVecRaw_eq, toBytesRaw_eq, if_neg (by omega),
    if_pos ⟨ht, fun e h => by rw [hepk] at h; cases h⟩, List.take_of_length_le (by omega)]
  simp [toBytes, hepk]

/-- … and without it they DIFFER: for a tag container longer than 16 bytes `to_bytes` panics where `into_vec`
(on the same statements) truncates -/
theorem intoVecRaw_ne_toBytesRaw_of_long (b : Box) (ht : 16 < b.tag.length) :
    toBytesRaw b = .panic ∧ intoVecRaw b = .ok (b.tag.take 16 ++ b.data) := by
  rw [intoVecRaw_eq, toBytesRaw_eq, if_neg (by omega), if_neg (fun h => by omega)]
  exact ⟨rfl, rfl⟩

/-- `to_bytes` of a signed message made by `SigningKeyPair::sign` (detached signature + message) IS the output of
the combined `crypto_sign` on a buffer of the right size — for the total and for the code-shaped serialiser -/
theorem signed_toBytes_eq_signCombined (H : Bytes → Bytes) (msg sk : Bytes) :
    Model.Sign.signCombined H (msg.length + 64) msg sk
        = .ok (Model.Sign.toBytes (Model.Sign.signDetached H msg sk false, msg)) ∧
    signedToBytesRaw (Model.Sign.signDetached H msg sk false, msg)
        = Model.Sign.signCombined H (msg.length + 64) msg sk := by
  have h1 : Model.Sign.signCombined H (msg.length + 64) msg sk
      = .ok (Model.Sign.toBytes (Model.Sign.signDetached H msg sk false, msg)) := by
    simp [Model.Sign.signCombined, Model.Sign.toBytes]
  refine ⟨h1, ?_⟩
  rw [h1, signedToBytesRaw_exact _ (Proofs.Sign.signDetached_length H msg sk false)]

/-! ### the pre-fix `Locked<HeapByteArray<N>>` visitor (`git -C /repo show 791ff25^:src/bytes_serde.rs`)

    let mut arr = HeapByteArray::<LENGTH>::gen_locked().expect(..);     // RANDOM initial contents
    let mut idx: usize = 0;
    let size_hint = seq.size_hint().unwrap_or(0);
    if size_hint != LENGTH { Err(invalid_length(..)) }
    else { while let Some(elem) = seq.next_element()? { arr[idx] = elem; idx += 1; }  Ok(arr) }

The decision is taken on the deserializer's SIZE HINT, not on the number of elements: serde_json gives no hint
(`None` → 0), so every JSON array was refused, the right length included; with a hint equal to `LENGTH` (bincode
reports the length prefix) fewer elements left the tail of the random initial array in place and more elements
indexed out of bounds. -/

/-- the `while let` loop: `arr[idx] = elem` with Rust's bounds check -/
def visitSeqLockedOldGo : Bytes → Nat → Bytes → Outcome Bytes
  | [], _, arr => .ok arr
  | e :: es, idx, arr => if idx < arr.length then visitSeqLockedOldGo es (idx + 1) (arr.set idx e) else .panic

/-- old `Deserialize for Locked<HeapByteArray<n>>`; `hint` = `seq.size_hint()`, `init` = the (random) contents of the
freshly generated array, `n` bytes -/
def deLockedArrOld (n : Nat) (hint : Option Nat) (init : Bytes) : Enc → Outcome Bytes
  | .seq es => if hint.getD 0 ≠ n then .err else visitSeqLockedOldGo es 0 init
  | .bytes bs => if bs.length ≠ n then .err else .ok bs

theorem set_append_cons (pre : Bytes) (r : UInt8) (rest : Bytes) (e : UInt8) :
    (pre ++ r :: rest).set pre.length e = pre ++ e :: rest := by
  induction pre with
  | nil => rfl
  | cons p pre ih => simp [ih]

/-- `pre` = the part of the array already overwritten, `rest` = what is left of the initial contents -/
theorem visitSeqLockedOldGo_spec (es pre rest : Bytes) :
    visitSeqLockedOldGo es pre.length (pre ++ rest) =
      if es.length ≤ rest.length then .ok (pre ++ es ++ rest.drop es.length) else .panic := by
  induction es generalizing pre rest with
  | nil => simp [visitSeqLockedOldGo]
  | cons e es ih =>
    simp only [visitSeqLockedOldGo, List.length_cons, List.length_append]
    cases rest with
    | nil => simp
    | cons r rest =>
      rw [if_pos (by simp), set_append_cons]
      have h := ih (pre ++ [e]) rest
      simp only [List.length_append, List.length_cons, List.length_nil, List.append_assoc,
        List.cons_append, List.nil_append] at h
      rw [h]
      by_cases h2 : es.length ≤ rest.length
      · rw [if_pos h2, if_pos (by simp; omega)]; simp
      · rw [if_neg h2, if_neg (by simp; omega)]

/-- serde_json (no size hint): EVERY element sequence was refused by the old visitor — also the correct ones, so
`de ∘ ser ≠ id` on JSON arrays for `n > 0` -/
theorem deLockedArrOld_nohint_rejects_all (n : Nat) (hn : n ≠ 0) (init es : Bytes) :
    deLockedArrOld n none init (.seq es) = .err := by
  simp [deLockedArrOld, Ne.symm hn]

/-- a hint of `n` with FEWER than `n` elements: accepted; the tail is whatever the fresh array held -/
theorem deLockedArrOld_short_accepts (n : Nat) (init es : Bytes) (hi : init.length = n) (h : es.length ≤ n) :
    deLockedArrOld n (some n) init (.seq es) = .ok (es ++ init.drop es.length) := by
  simp only [deLockedArrOld, Option.getD_some, ne_eq, not_true_eq_false, if_false]
  have h0 := visitSeqLockedOldGo_spec es [] init
  simp only [List.length_nil, List.nil_append] at h0
  rw [h0, if_pos (by omega)]

/-- a hint of `n` with MORE than `n` elements: index-out-of-bounds panic -/
theorem deLockedArrOld_long_panics (n : Nat) (init es : Bytes) (hi : init.length = n) (h : n < es.length) :
    deLockedArrOld n (some n) init (.seq es) = .panic := by
  simp only [deLockedArrOld, Option.getD_some, ne_eq, not_true_eq_false, if_false]
  have h0 := visitSeqLockedOldGo_spec es [] init
  simp only [List.length_nil, List.nil_append] at h0
  rw [h0, if_neg (by omega)]

/-- so `fixed_len_strict` is false of it: with a matching hint a short sequence is accepted -/
theorem deLockedArrOld_not_strict (n : Nat) (init es : Bytes) (hi : init.length = n) (h : es.length < n) :
    ¬ (∀ a, deLockedArrOld n (some n) init (.seq es) = .ok a ↔
        (Enc.seq es).payload.length = n ∧ a = (Enc.seq es).payload) := by
  intro hall
  have := ((hall _).1 (deLockedArrOld_short_accepts n init es hi (by omega))).1
  simp only [Enc.payload] at this
  omega

#print axioms deVecFixed_not_strict
#print axioms deBoxK_serBoxK
#print axioms deBoxK_serBoxK'
#print axioms deSignedK_serSignedK'
#print axioms dePairK_serPairK'
#print axioms fromSlices_typed_ok_iff
#print axioms fromSlices_typed_err_iff
#print axioms deArray_ok_iff
#print axioms toBytesRaw_eq
#print axioms intoVecRaw_eq
#print axioms signedToBytesRaw_eq
#print axioms dePair_ok_iff
#print axioms visitSeqLockedOldGo_spec
#print axioms vecTag_short_decodes_then_decrypt_panics

end DryocVerif.Proofs.EncodingVecExtra
