import DryocVerif.Gen.Utils
import DryocVerif.Model.Utils
/-
Equivalence of the machine-generated `Gen/Utils.lean` (from /repo/src/utils.rs) with the hand model
(`Model/Utils.lean`) and with the byte-string primitive `le` used by the Nat-based models.  Core only.
-/
namespace DryocVerif.Proofs.GenUtils
open DryocVerif DryocVerif.Gen

/-! ### `byteAt` and `le` -/

theorem byteAt_lt (b : Bytes) (i : Nat) : byteAt b i < 256 := by
  unfold byteAt; exact UInt8.toNat_lt _

theorem byteAt_nil (i : Nat) : byteAt [] i = 0 := by
  simp [byteAt]

theorem byteAt_cons_zero (x : UInt8) (xs : Bytes) : byteAt (x :: xs) 0 = x.toNat := by
  simp [byteAt]

theorem byteAt_cons_succ (x : UInt8) (xs : Bytes) (i : Nat) : byteAt (x :: xs) (i + 1) = byteAt xs i := by
  simp [byteAt]

theorem byteAt_take (b : Bytes) (n i : Nat) (h : i < n) : byteAt (b.take n) i = byteAt b i := by
  induction b generalizing n i with
  | nil => simp
  | cons x xs ih =>
    cases n with
    | zero => omega
    | succ n =>
      cases i with
      | zero => simp [byteAt_cons_zero]
      | succ i => simp only [List.take_succ_cons, byteAt_cons_succ]; exact ih n i (by omega)

/-- `le` of a prefix, one byte at a time; a byte past the end reads as 0 -/
theorem le_take_succ (b : Bytes) (n : Nat) :
    le (b.take (n + 1)) = le (b.take n) + byteAt b n * 2^(8 * n) := by
  induction n generalizing b with
  | zero =>
    cases b with
    | nil => simp [le, byteAt_nil]
    | cons x xs => simp [le, byteAt_cons_zero]
  | succ n ih =>
    cases b with
    | nil => simp [le, byteAt_nil]
    | cons x xs =>
      simp only [List.take_succ_cons, le, byteAt_cons_succ] at ih ⊢
      rw [ih xs, Nat.mul_add 8 n 1, Nat.pow_add]
      simp only [Nat.mul_one, Nat.reducePow]
      rw [Nat.mul_add, Nat.mul_left_comm, ← Nat.mul_assoc, Nat.mul_comm 256, Nat.mul_assoc, Nat.add_assoc,
        Nat.mul_comm 256 (2 ^ (8 * n))]

theorem le_take_lt (b : Bytes) (n : Nat) : le (b.take n) < 2^(8 * n) := by
  induction n with
  | zero => simp [le]
  | succ n ih =>
    rw [le_take_succ]
    have hb := byteAt_lt b n
    have e : 2^(8 * (n + 1)) = 256 * 2^(8 * n) := by
      rw [Nat.mul_add, Nat.pow_add, Nat.mul_comm]
    rw [e]
    have h2 : byteAt b n * 2^(8 * n) ≤ 255 * 2^(8 * n) := Nat.mul_le_mul_right _ (by omega)
    omega

/-- one `| (bytes[i] as uN) << 8*i` step of the Rust loaders, over an accumulator below `2^(8*i)` -/
theorem or_shl_step (a x k w : Nat) (ha : a < 2^k) (hx : x * 2^k < 2^w) :
    a ||| ((x <<< k) % 2^w) = a + x * 2^k := by
  rw [Nat.shiftLeft_eq, Nat.mod_eq_of_lt hx]
  have h := Nat.two_pow_add_eq_or_of_lt ha x
  rw [Nat.or_comm, Nat.mul_comm x, ← h, Nat.add_comm]

/-! ### `load_u64_le`, `load_u32_le` -/

/-- the generated `load_u64_le` is the little-endian value of the first 8 bytes, for EVERY slice
(missing bytes read as 0 on both sides; the Rust panics on a slice shorter than 8) -/
theorem load_u64_le_eq_le (b : Bytes) : Gen.Utils.load_u64_le b = le (b.take 8) := by
  have h0 := byteAt_lt b 0; have h1 := byteAt_lt b 1; have h2 := byteAt_lt b 2; have h3 := byteAt_lt b 3
  have h4 := byteAt_lt b 4; have h5 := byteAt_lt b 5; have h6 := byteAt_lt b 6; have h7 := byteAt_lt b 7
  have t1 := le_take_succ b 0; have t2 := le_take_succ b 1; have t3 := le_take_succ b 2
  have t4 := le_take_succ b 3; have t5 := le_take_succ b 4; have t6 := le_take_succ b 5
  have t7 := le_take_succ b 6; have t8 := le_take_succ b 7
  have l1 := le_take_lt b 1; have l2 := le_take_lt b 2; have l3 := le_take_lt b 3; have l4 := le_take_lt b 4
  have l5 := le_take_lt b 5; have l6 := le_take_lt b 6; have l7 := le_take_lt b 7
  have z : le (b.take 0) = 0 := by simp [le]
  simp only [Nat.zero_add, Nat.reduceAdd, Nat.reduceMul, Nat.reducePow, Nat.mul_one] at *
  unfold Gen.Utils.load_u64_le U64
  have e1 : byteAt b 0 = le (b.take 1) := by omega
  rw [e1, or_shl_step _ _ 8 64 (by omega) (by omega), ← t2,
    or_shl_step _ _ 16 64 (by omega) (by omega), ← t3,
    or_shl_step _ _ 24 64 (by omega) (by omega), ← t4,
    or_shl_step _ _ 32 64 (by omega) (by omega), ← t5,
    or_shl_step _ _ 40 64 (by omega) (by omega), ← t6,
    or_shl_step _ _ 48 64 (by omega) (by omega), ← t7,
    or_shl_step _ _ 56 64 (by omega) (by omega), ← t8]

theorem load_u32_le_eq_le (b : Bytes) : Gen.Utils.load_u32_le b = le (b.take 4) := by
  have h0 := byteAt_lt b 0; have h1 := byteAt_lt b 1; have h2 := byteAt_lt b 2; have h3 := byteAt_lt b 3
  have t1 := le_take_succ b 0; have t2 := le_take_succ b 1; have t3 := le_take_succ b 2
  have t4 := le_take_succ b 3
  have l1 := le_take_lt b 1; have l2 := le_take_lt b 2; have l3 := le_take_lt b 3
  have z : le (b.take 0) = 0 := by simp [le]
  simp only [Nat.zero_add, Nat.reduceAdd, Nat.reduceMul, Nat.reducePow, Nat.mul_one] at *
  unfold Gen.Utils.load_u32_le U32
  have e1 : byteAt b 0 = le (b.take 1) := by omega
  rw [e1, or_shl_step _ _ 8 32 (by omega) (by omega), ← t2,
    or_shl_step _ _ 16 32 (by omega) (by omega), ← t3,
    or_shl_step _ _ 24 32 (by omega) (by omega), ← t4]

theorem load_u64_le_lt (b : Bytes) : Gen.Utils.load_u64_le b < 2^64 := by
  rw [load_u64_le_eq_le]; exact le_take_lt b 8

theorem load_u32_le_lt (b : Bytes) : Gen.Utils.load_u32_le b < 2^32 := by
  rw [load_u32_le_eq_le]; exact le_take_lt b 4

/-- `load_u64_le (s.take 8)` — the form the generated call sites `load_u64_le(&s[a..a+8])` take -/
theorem load_u64_le_take8 (b : Bytes) : Gen.Utils.load_u64_le (b.take 8) = le (b.take 8) := by
  rw [load_u64_le_eq_le, List.take_take, Nat.min_self]

/-- sanity test: generated loader on a concrete 9-byte and on a short slice -/
example : Gen.Utils.load_u64_le [1, 2, 3, 4, 5, 6, 7, 0x88, 9] = le ([1, 2, 3, 4, 5, 6, 7, 0x88, 9].take 8) := by decide
example : Gen.Utils.load_u64_le [0xff, 2, 3] = 0x0302ff := by decide
example : Gen.Utils.load_u32_le [0xff, 2, 3, 0x84, 5] = 0x840302ff := by decide

/-! ### the UInt64 hand model of the loader -/

/-- the UInt64 hand model `Model.Utils.loadU64LE` agrees with the generated Nat loader on every slice -/
theorem loadU64LE_eq_gen (b : Bytes) : (Model.Utils.loadU64LE b).toNat = Gen.Utils.load_u64_le b := by
  have h0 := byteAt_lt b 0; have h1 := byteAt_lt b 1; have h2 := byteAt_lt b 2; have h3 := byteAt_lt b 3
  have h4 := byteAt_lt b 4; have h5 := byteAt_lt b 5; have h6 := byteAt_lt b 6; have h7 := byteAt_lt b 7
  unfold byteAt at *
  simp only [Model.Utils.loadU64LE, Gen.Utils.load_u64_le, byteAt, U64, UInt64.toNat_or,
    UInt64.toNat_shiftLeft, UInt8.toNat_toUInt64, UInt64.toNat_ofNat, Nat.reducePow, Nat.reduceMod]

example : (Model.Utils.loadU64LE [1, 2, 3, 4, 5, 6, 7, 0x88, 9]).toNat
    = Gen.Utils.load_u64_le [1, 2, 3, 4, 5, 6, 7, 0x88, 9] := by decide

/-! ### `rotr64` -/

/-- the generated `rotr64` is the 64-bit rotation, as a Nat formula (the `>>>` needs no reduction for `x < 2^64`) -/
theorem rotr64_eq (x b : Nat) : Gen.Utils.rotr64 x b = (x >>> b ||| (x <<< (64 - b)) % 2^64) := rfl

/-- … and against the UInt64 hand model `Model.Utils.rotr64` (wrapping `64 - b`, shift amounts mod 64):
equal for every shift `b < 64` (the Rust panics for `b = 0` in the dev profile and for `b > 64`; for
`b ≥ 64` the two sides genuinely differ, the callers use the constants 32, 24, 16, 63). -/
theorem rotr64_eq_model (x b : UInt64) (hb : b.toNat < 64) :
    (Model.Utils.rotr64 x b).toNat = Gen.Utils.rotr64 x.toNat b.toNat := by
  unfold Model.Utils.rotr64 Gen.Utils.rotr64 U64
  rw [UInt64.toNat_or, UInt64.toNat_shiftRight, UInt64.toNat_shiftLeft, Nat.mod_eq_of_lt hb]
  by_cases h0 : b.toNat = 0
  · have : b = 0 := UInt64.toNat_inj.mp h0
    subst this
    have hx := x.toNat_lt
    simp only [UInt64.toNat_zero, Nat.sub_zero, UInt64.sub_zero]
    have e : (64 : UInt64).toNat % 64 = 0 := by decide
    rw [e, Nat.shiftLeft_zero, Nat.mod_eq_of_lt (by simpa using hx), Nat.shiftLeft_eq]
    have : x.toNat * 2^64 % 2^64 = 0 := Nat.mul_mod_left _ _
    rw [this, Nat.or_zero]; simp
  · have e : (64 - b).toNat = 64 - b.toNat := by
      rw [UInt64.toNat_sub_of_le]
      · rfl
      · rw [UInt64.le_iff_toNat_le]; have : (64 : UInt64).toNat = 64 := rfl; omega
    rw [e, Nat.mod_eq_of_lt (show 64 - b.toNat < 64 by omega)]

example : (Model.Utils.rotr64 0x0123456789abcdef 24).toNat = Gen.Utils.rotr64 0x0123456789abcdef 24 := by decide

/-! ### `pad16` -/

theorem pad16_eq_model (n : Nat) : Gen.Utils.pad16 n = Model.Utils.pad16 n := rfl

example : Gen.Utils.pad16 37 = 11 ∧ Model.Utils.pad16 37 = 11 := by decide

/-! ### `increment_bytes` -/

/-- the loop body of the generated `increment_bytes` (state = carry, rebuilt prefix) -/
def incStep (x : Nat × Bytes) (b : UInt8) : Nat × Bytes :=
  (((x.1 + b.toNat) >>> 8), x.2 ++ [UInt8.ofNat (((x.1 + b.toNat) &&& 255) % 256)])

theorem and255_mod (c : Nat) : (c &&& 255) % 256 = c &&& 255 :=
  Nat.mod_eq_of_lt (Nat.lt_of_le_of_lt Nat.and_le_right (by decide))

/-- the fold, generalised over the carry and the accumulated prefix -/
theorem incFold_snd (bs : Bytes) (c : Nat) (acc : Bytes) :
    (bs.foldl incStep (c, acc)).2 = acc ++ Model.Utils.incrementGo c bs := by
  induction bs generalizing c acc with
  | nil => simp [Model.Utils.incrementGo]
  | cons b bs ih =>
    rw [List.foldl_cons]
    show (List.foldl incStep ((c + b.toNat) >>> 8, acc ++ [UInt8.ofNat (((c + b.toNat) &&& 255) % 256)]) bs).2 = _
    rw [ih, and255_mod, Model.Utils.incrementGo, List.append_assoc]
    rfl

/-- side lemma: the u16 `carry += *b as u16` cannot overflow — the carry entering every iteration is ≤ 1 -/
theorem incFold_carry_le (bs : Bytes) (c : Nat) (acc : Bytes) (hc : c ≤ 1) :
    (bs.foldl incStep (c, acc)).1 ≤ 1 := by
  induction bs generalizing c acc with
  | nil => simpa using hc
  | cons b bs ih =>
    rw [List.foldl_cons]
    apply ih
    show (c + b.toNat) >>> 8 ≤ 1
    have := b.toNat_lt
    rw [Nat.shiftRight_eq_div_pow]; omega

/-- … hence the checked u16 add of the Rust (`carry += *b as u16`) stays below 2^16 at every iteration -/
theorem incStep_no_overflow (c : Nat) (b : UInt8) (hc : c ≤ 1) : c + b.toNat < 2^16 := by
  have := b.toNat_lt; omega

/-- the generated `increment_bytes` is the hand model, for every byte string of every length -/
theorem increment_bytes_eq_model (bs : Bytes) :
    Gen.Utils.increment_bytes bs = Model.Utils.incrementBytes bs := by
  have h := incFold_snd bs 1 []
  rw [List.nil_append] at h
  unfold Model.Utils.incrementBytes
  rw [← h]
  rfl

/-- sanity tests: carry propagation, full wrap-around, empty slice -/
example : Gen.Utils.increment_bytes [0xff, 0xff, 0x01] = [0, 0, 2]
    ∧ Model.Utils.incrementBytes [0xff, 0xff, 0x01] = [0, 0, 2] := by decide
example : Gen.Utils.increment_bytes [0xff, 0xff] = [0, 0] ∧ Gen.Utils.increment_bytes [] = []
    ∧ Gen.Utils.increment_bytes [0x7f, 9] = Model.Utils.incrementBytes [0x7f, 9] := by decide

/-! ### `xor_buf` -/

/-- the generated loop of `xor_buf` over an arbitrary index list -/
def xorFold (inp : Bytes) (out : Bytes) (l : List Nat) : Bytes :=
  l.foldl (fun o i => setByte o i ((byteAt o i) ^^^ (byteAt inp i))) out

theorem xorFold_cons_shift (x y : UInt8) (xs ys : Bytes) (l : List Nat) :
    xorFold (y :: ys) (x :: xs) (l.map (· + 1)) = x :: xorFold ys xs l := by
  induction l generalizing xs with
  | nil => rfl
  | cons i l ih =>
    unfold xorFold at ih ⊢
    rw [List.map_cons, List.foldl_cons, List.foldl_cons]
    simp only [byteAt_cons_succ, setByte, List.set_cons_succ]
    exact ih _

theorem ofNat_xor_toNat (x y : UInt8) : UInt8.ofNat (x.toNat ^^^ y.toNat) = x ^^^ y := by
  rw [← UInt8.toNat_xor, UInt8.ofNat_toNat]

theorem xorFold_eq_model (out inp : Bytes) :
    xorFold inp out (List.range' 0 (min out.length inp.length)) = Model.Utils.xorBuf out inp := by
  induction out generalizing inp with
  | nil => simp [xorFold, Model.Utils.xorBuf, xorBytes]
  | cons x xs ih =>
    cases inp with
    | nil => simp [xorFold, Model.Utils.xorBuf, xorBytes]
    | cons y ys =>
      have hmin : min (x :: xs).length (y :: ys).length = min xs.length ys.length + 1 := by
        simp only [List.length_cons]; omega
      have hr : List.range' 0 (min xs.length ys.length + 1)
          = 0 :: (List.range' 0 (min xs.length ys.length)).map (· + 1) := by
        rw [List.range'_succ, Nat.zero_add, List.range'_succ_left]
      rw [hmin, hr]
      unfold xorFold
      rw [List.foldl_cons]
      have h0 : setByte (x :: xs) 0 (byteAt (x :: xs) 0 ^^^ byteAt (y :: ys) 0) = (x ^^^ y) :: xs := by
        simp only [byteAt_cons_zero, setByte, List.set_cons_zero, ofNat_xor_toNat]
      rw [h0]
      have h1 := xorFold_cons_shift (x ^^^ y) y xs ys (List.range' 0 (min xs.length ys.length))
      unfold xorFold at h1 ih
      rw [h1, ih ys]
      simp [Model.Utils.xorBuf, xorBytes]

/-- the generated `xor_buf` is the hand model, for all lengths (out longer, shorter, equal, empty) -/
theorem xor_buf_eq_model (out inp : Bytes) :
    Gen.Utils.xor_buf out inp = Model.Utils.xorBuf out inp := by
  rw [← xorFold_eq_model]
  rfl

/-- sanity tests: `out` longer, `out` shorter, equal lengths, empty -/
example : Gen.Utils.xor_buf [1, 2, 3, 4, 5] [0xff, 0x0f, 3] = [0xfe, 0x0d, 0, 4, 5]
    ∧ Model.Utils.xorBuf [1, 2, 3, 4, 5] [0xff, 0x0f, 3] = [0xfe, 0x0d, 0, 4, 5] := by decide
example : Gen.Utils.xor_buf [1, 2] [0xff, 0x0f, 3, 7] = [0xfe, 0x0d]
    ∧ Gen.Utils.xor_buf [0xaa, 0x55] [0x55, 0xaa] = Model.Utils.xorBuf [0xaa, 0x55] [0x55, 0xaa]
    ∧ Gen.Utils.xor_buf [] [1, 2] = [] ∧ Gen.Utils.xor_buf [1, 2] [] = [1, 2] := by decide

end DryocVerif.Proofs.GenUtils
