import DryocVerif.Gen.Blake2b
import DryocVerif.Model.Blake2b
/-!
# The generated BLAKE2b kernel (`Gen/Blake2b.lean`, machine-translated from
`/repo/src/blake2b/blake2b_soft.rs`) agrees with the hand model (`Model/Blake2b.lean`)

Main results (all for ALL inputs of the stated shape, `.toNat` of machine words fed to the generated code):

* `IV_eq_model`, `SIGMA_eq_model` : the generated tables are the model's tables;
* `round_0_eq_model` … `round_11_eq_model` : the outlined closure `round(r)`;
* `compress_eq_model` : `compress` (no hypothesis on the block: both sides read a missing byte as 0,
  where the Rust panics; `sh.size = 8` is the Rust type `[u64; 8]`);
* `increment_counter_eq_model` : `increment_counter` (no hypothesis, see the comment there), and
  `increment_counter_value` (the no-`u128`-overflow hypothesis under which the generated unbounded
  arithmetic is literally the Rust arithmetic).

Structure of the round proof (uniform in `r`): the eight generated lines of one `g` call are `gN`
(over `Nat`), the eight statements of the model's `g` are `G` (over `UInt64`); `gN_toNat` relates them
operation by operation.  `roundG g x v` is the column step + diagonal step built from an arbitrary
mixing function `g`, message words `x` in order of use.  The model's `round` on a 16-word vector is
`roundG G` (`model_round`, from one lemma per index pattern `g_p0 … g_p7`); the generated `round_r` is
`roundG gN` with the message words selected through `SIGMA[r]` (`gen_round_r`, by unfolding: `rfl`);
`round_bridge` glues the two, once, for every `r`.
-/
namespace DryocVerif.Proofs.GenBlake2b
open DryocVerif
open DryocVerif.Model.Utils (loadU64LE rotr64 slice)

/-! ## 1. tables -/

/-- the generated `IV` is the model's `IV` -/
theorem IV_eq_model : Gen.Blake2b.IV = Model.Blake2b.IV.toList.map (·.toNat) := by decide

/-- the generated `SIGMA` is the model's `SIGMA` -/
theorem SIGMA_eq_model : Gen.Blake2b.SIGMA = Model.Blake2b.SIGMA.toList.map (·.toList) := by decide

/-! ## 2. `UInt64` ↔ `Nat`, operation by operation (right-to-left: generated form ↦ `.toNat` of the model form) -/

/-- `a.wrapping_add(b)` -/
theorem add_toNat (a b : UInt64) : (a.toNat + b.toNat) % Gen.U64 = (a + b).toNat := by
  rw [UInt64.toNat_add]; rfl

/-- `a ^ b` -/
theorem xor_toNat (a b : UInt64) : a.toNat ^^^ b.toNat = (a ^^^ b).toNat := (UInt64.toNat_xor a b).symm

/-- `rotr64(x, 32)` -/
theorem rotr_toNat32 (x : UInt64) : Gen.Utils.rotr64 x.toNat 32 = (rotr64 x 32).toNat := by
  simp [Gen.Utils.rotr64, Model.Utils.rotr64, Gen.U64]
/-- `rotr64(x, 24)` -/
theorem rotr_toNat24 (x : UInt64) : Gen.Utils.rotr64 x.toNat 24 = (rotr64 x 24).toNat := by
  simp [Gen.Utils.rotr64, Model.Utils.rotr64, Gen.U64]
/-- `rotr64(x, 16)` -/
theorem rotr_toNat16 (x : UInt64) : Gen.Utils.rotr64 x.toNat 16 = (rotr64 x 16).toNat := by
  simp [Gen.Utils.rotr64, Model.Utils.rotr64, Gen.U64]
/-- `rotr64(x, 63)` -/
theorem rotr_toNat63 (x : UInt64) : Gen.Utils.rotr64 x.toNat 63 = (rotr64 x 63).toNat := by
  simp [Gen.Utils.rotr64, Model.Utils.rotr64, Gen.U64]

/-- `load_u64_le(bytes)`, for every byte string (both sides read a missing byte as 0) -/
theorem load_eq (bs : Bytes) : Gen.Utils.load_u64_le bs = (loadU64LE bs).toNat := by
  simp [Gen.Utils.load_u64_le, loadU64LE, Gen.byteAt, Gen.U64]

/-! ## 3. the mixing function -/

/-- four words `(tv[a], tv[b], tv[c], tv[d])` -/
structure Q (α : Type) where
  a : α
  b : α
  c : α
  d : α

/-- the eight statements of the model's closure `g`, on scalars -/
def G (a b c d x y : UInt64) : Q UInt64 :=
  let a := a + (b + x)
  let d := rotr64 (d ^^^ a) 32
  let c := c + d
  let b := rotr64 (b ^^^ c) 24
  let a := a + (b + y)
  let d := rotr64 (d ^^^ a) 16
  let c := c + d
  let b := rotr64 (b ^^^ c) 63
  ⟨a, b, c, d⟩

/-- the eight generated lines of one inlined `g` call, on naturals -/
def gN (a b c d x y : Nat) : Q Nat :=
  let a := ((a + ((b + x) % Gen.U64)) % Gen.U64)
  let d := (Gen.Utils.rotr64 (d ^^^ a) 32)
  let c := ((c + d) % Gen.U64)
  let b := (Gen.Utils.rotr64 (b ^^^ c) 24)
  let a := ((a + ((b + y) % Gen.U64)) % Gen.U64)
  let d := (Gen.Utils.rotr64 (d ^^^ a) 16)
  let c := ((c + d) % Gen.U64)
  let b := (Gen.Utils.rotr64 (b ^^^ c) 63)
  ⟨a, b, c, d⟩

theorem gN_toNat (a b c d x y : UInt64) :
    gN a.toNat b.toNat c.toNat d.toNat x.toNat y.toNat =
      ⟨(G a b c d x y).a.toNat, (G a b c d x y).b.toNat, (G a b c d x y).c.toNat, (G a b c d x y).d.toNat⟩ := by
  simp only [gN, G, add_toNat, xor_toNat, rotr_toNat32, rotr_toNat24, rotr_toNat16, rotr_toNat63]

/-! ## 4. one round -/

/-- 16 words (the work vector `tv`, or the 16 message words of a round) -/
structure W (α : Type) where
  (w0 w1 w2 w3 w4 w5 w6 w7 w8 w9 w10 w11 w12 w13 w14 w15 : α)

def W.map {α β : Type} (f : α → β) (s : W α) : W β :=
  ⟨f s.w0, f s.w1, f s.w2, f s.w3, f s.w4, f s.w5, f s.w6, f s.w7, f s.w8, f s.w9, f s.w10, f s.w11,
   f s.w12, f s.w13, f s.w14, f s.w15⟩

def W.toArr {α : Type} (s : W α) : Array α :=
  #[s.w0, s.w1, s.w2, s.w3, s.w4, s.w5, s.w6, s.w7, s.w8, s.w9, s.w10, s.w11, s.w12, s.w13, s.w14, s.w15]

def W.ofArr (s : Array UInt64) : W UInt64 :=
  ⟨s[0]!, s[1]!, s[2]!, s[3]!, s[4]!, s[5]!, s[6]!, s[7]!, s[8]!, s[9]!, s[10]!, s[11]!, s[12]!, s[13]!,
   s[14]!, s[15]!⟩

/-- the tuple order in which the generated `round_r` returns the work vector -/
def W.out {α : Type} (s : W α) :=
  (s.w0, s.w12, s.w8, s.w4, s.w1, s.w13, s.w9, s.w5, s.w2, s.w14, s.w10, s.w6, s.w3, s.w15, s.w11, s.w7)

/-- column step then diagonal step, for a mixing function `g`; `x` = the 16 message words in order of use -/
def roundG {α : Type} (g : α → α → α → α → α → α → Q α) (x v : W α) : W α :=
  let q0 := g v.w0 v.w4 v.w8 v.w12 x.w0 x.w1
  let q1 := g v.w1 v.w5 v.w9 v.w13 x.w2 x.w3
  let q2 := g v.w2 v.w6 v.w10 v.w14 x.w4 x.w5
  let q3 := g v.w3 v.w7 v.w11 v.w15 x.w6 x.w7
  let p0 := g q0.a q1.b q2.c q3.d x.w8 x.w9
  let p1 := g q1.a q2.b q3.c q0.d x.w10 x.w11
  let p2 := g q2.a q3.b q0.c q1.d x.w12 x.w13
  let p3 := g q3.a q0.b q1.c q2.d x.w14 x.w15
  ⟨p0.a, p1.a, p2.a, p3.a, p3.b, p0.b, p1.b, p2.b, p2.c, p3.c, p0.c, p1.c, p1.d, p2.d, p3.d, p0.d⟩

theorem roundG_toNat (x v : W UInt64) :
    roundG gN (x.map (·.toNat)) (v.map (·.toNat)) = (roundG G x v).map (·.toNat) := by
  simp only [roundG, W.map, gN_toNat]

/-- the 16 message words of round `r`, in order of use: `tm[SIGMA[r][k]]`, `k = 0..15` (model's `SIGMA`) -/
def msg {α : Type} [Inhabited α] (tm : Array α) (r : Nat) : W α :=
  ⟨tm[Model.Blake2b.SIGMA[r]![0]!]!, tm[Model.Blake2b.SIGMA[r]![1]!]!, tm[Model.Blake2b.SIGMA[r]![2]!]!, tm[Model.Blake2b.SIGMA[r]![3]!]!,
   tm[Model.Blake2b.SIGMA[r]![4]!]!, tm[Model.Blake2b.SIGMA[r]![5]!]!, tm[Model.Blake2b.SIGMA[r]![6]!]!, tm[Model.Blake2b.SIGMA[r]![7]!]!,
   tm[Model.Blake2b.SIGMA[r]![8]!]!, tm[Model.Blake2b.SIGMA[r]![9]!]!, tm[Model.Blake2b.SIGMA[r]![10]!]!, tm[Model.Blake2b.SIGMA[r]![11]!]!,
   tm[Model.Blake2b.SIGMA[r]![12]!]!, tm[Model.Blake2b.SIGMA[r]![13]!]!, tm[Model.Blake2b.SIGMA[r]![14]!]!, tm[Model.Blake2b.SIGMA[r]![15]!]!⟩

theorem toNat_default : (default : UInt64).toNat = (default : Nat) := rfl

theorem getElem!_map_toNat (a : Array UInt64) (k : Nat) : (a.map (·.toNat))[k]! = a[k]!.toNat := by
  by_cases h : k < a.size
  · simp [h]
  · simp [h, toNat_default]

theorem msg_map (m : W UInt64) (r : Nat) : msg (m.map (·.toNat)).toArr r = (msg m.toArr r).map (·.toNat) := by
  have e : (m.map (·.toNat)).toArr = m.toArr.map (·.toNat) := by simp [W.toArr, W.map]
  rw [e]
  simp only [msg, W.map, getElem!_map_toNat]

theorem ofArr_toArr (v : W UInt64) : W.ofArr v.toArr = v := rfl

theorem toArr_ofArr (a : Array UInt64) (h : a.size = 16) : (W.ofArr a).toArr = a := by
  obtain ⟨l⟩ := a
  match l, h with
  | [a0,a1,a2,a3,a4,a5,a6,a7,a8,a9,a10,a11,a12,a13,a14,a15], _ => rfl

/-! model side: the closure `g` on a literal work vector, for the eight index patterns used by `round` -/
section
variable (tm : Array UInt64) (r i : Nat) (v : W UInt64)

theorem g_p0 : Model.Blake2b.g tm v.toArr r i 0 4 8 12 =
    (let q := G v.w0 v.w4 v.w8 v.w12 tm[Model.Blake2b.SIGMA[r]![2*i]!]! tm[Model.Blake2b.SIGMA[r]![2*i+1]!]!
     ({ v with w0 := q.a, w4 := q.b, w8 := q.c, w12 := q.d } : W UInt64).toArr) := by
  simp [Model.Blake2b.g, G, W.toArr]

theorem g_p1 : Model.Blake2b.g tm v.toArr r i 1 5 9 13 =
    (let q := G v.w1 v.w5 v.w9 v.w13 tm[Model.Blake2b.SIGMA[r]![2*i]!]! tm[Model.Blake2b.SIGMA[r]![2*i+1]!]!
     ({ v with w1 := q.a, w5 := q.b, w9 := q.c, w13 := q.d } : W UInt64).toArr) := by
  simp [Model.Blake2b.g, G, W.toArr]

theorem g_p2 : Model.Blake2b.g tm v.toArr r i 2 6 10 14 =
    (let q := G v.w2 v.w6 v.w10 v.w14 tm[Model.Blake2b.SIGMA[r]![2*i]!]! tm[Model.Blake2b.SIGMA[r]![2*i+1]!]!
     ({ v with w2 := q.a, w6 := q.b, w10 := q.c, w14 := q.d } : W UInt64).toArr) := by
  simp [Model.Blake2b.g, G, W.toArr]

theorem g_p3 : Model.Blake2b.g tm v.toArr r i 3 7 11 15 =
    (let q := G v.w3 v.w7 v.w11 v.w15 tm[Model.Blake2b.SIGMA[r]![2*i]!]! tm[Model.Blake2b.SIGMA[r]![2*i+1]!]!
     ({ v with w3 := q.a, w7 := q.b, w11 := q.c, w15 := q.d } : W UInt64).toArr) := by
  simp [Model.Blake2b.g, G, W.toArr]

theorem g_p4 : Model.Blake2b.g tm v.toArr r i 0 5 10 15 =
    (let q := G v.w0 v.w5 v.w10 v.w15 tm[Model.Blake2b.SIGMA[r]![2*i]!]! tm[Model.Blake2b.SIGMA[r]![2*i+1]!]!
     ({ v with w0 := q.a, w5 := q.b, w10 := q.c, w15 := q.d } : W UInt64).toArr) := by
  simp [Model.Blake2b.g, G, W.toArr]

theorem g_p5 : Model.Blake2b.g tm v.toArr r i 1 6 11 12 =
    (let q := G v.w1 v.w6 v.w11 v.w12 tm[Model.Blake2b.SIGMA[r]![2*i]!]! tm[Model.Blake2b.SIGMA[r]![2*i+1]!]!
     ({ v with w1 := q.a, w6 := q.b, w11 := q.c, w12 := q.d } : W UInt64).toArr) := by
  simp [Model.Blake2b.g, G, W.toArr]

theorem g_p6 : Model.Blake2b.g tm v.toArr r i 2 7 8 13 =
    (let q := G v.w2 v.w7 v.w8 v.w13 tm[Model.Blake2b.SIGMA[r]![2*i]!]! tm[Model.Blake2b.SIGMA[r]![2*i+1]!]!
     ({ v with w2 := q.a, w7 := q.b, w8 := q.c, w13 := q.d } : W UInt64).toArr) := by
  simp [Model.Blake2b.g, G, W.toArr]

theorem g_p7 : Model.Blake2b.g tm v.toArr r i 3 4 9 14 =
    (let q := G v.w3 v.w4 v.w9 v.w14 tm[Model.Blake2b.SIGMA[r]![2*i]!]! tm[Model.Blake2b.SIGMA[r]![2*i+1]!]!
     ({ v with w3 := q.a, w4 := q.b, w9 := q.c, w14 := q.d } : W UInt64).toArr) := by
  simp [Model.Blake2b.g, G, W.toArr]

end

/-- the model's `round` on a literal work vector is the scalar round `roundG G` -/
theorem model_round (tm : Array UInt64) (v : W UInt64) (r : Nat) :
    Model.Blake2b.round tm v.toArr r = (roundG G (msg tm r) v).toArr := by
  unfold Model.Blake2b.round
  simp only [g_p0, g_p1, g_p2, g_p3, g_p4, g_p5, g_p6, g_p7]
  rfl

theorem round_size (tm tv : Array UInt64) (r : Nat) : (Model.Blake2b.round tm tv r).size = tv.size := by
  simp [Model.Blake2b.round, Model.Blake2b.g]

/-- one generated round (in the form `roundG gN`) on `.toNat` inputs = `.toNat` of the model round -/
theorem roundW (m : W UInt64) (tv : Array UInt64) (hv : tv.size = 16) (r : Nat) :
    roundG gN (msg (m.map (·.toNat)).toArr r) ((W.ofArr tv).map (·.toNat)) =
      (W.ofArr (Model.Blake2b.round m.toArr tv r)).map (·.toNat) := by
  rw [msg_map, roundG_toNat]
  conv => rhs; rw [← toArr_ofArr tv hv, model_round, ofArr_toArr]

/-- the 16 words of a model work vector as naturals, in the order in which the generated `round_r`
returns them: `(tv_0, tv_12, tv_8, tv_4, tv_1, tv_13, tv_9, tv_5, tv_2, tv_14, tv_10, tv_6, tv_3, tv_15, tv_11, tv_7)` -/
def outTuple (o : Array UInt64) :=
  (o[0]!.toNat, o[12]!.toNat, o[8]!.toNat, o[4]!.toNat, o[1]!.toNat, o[13]!.toNat, o[9]!.toNat, o[5]!.toNat,
   o[2]!.toNat, o[14]!.toNat, o[10]!.toNat, o[6]!.toNat, o[3]!.toNat, o[15]!.toNat, o[11]!.toNat, o[7]!.toNat)

/-- the uniform part of `round_r_eq_model` (every `r`) -/
theorem round_bridge (tm tv : Array UInt64) (hm : tm.size = 16) (hv : tv.size = 16) (r : Nat) :
    (roundG gN (msg #[tm[0]!.toNat, tm[1]!.toNat, tm[2]!.toNat, tm[3]!.toNat, tm[4]!.toNat, tm[5]!.toNat, tm[6]!.toNat, tm[7]!.toNat, tm[8]!.toNat, tm[9]!.toNat, tm[10]!.toNat, tm[11]!.toNat, tm[12]!.toNat, tm[13]!.toNat, tm[14]!.toNat, tm[15]!.toNat] r)
      ⟨tv[0]!.toNat, tv[1]!.toNat, tv[2]!.toNat, tv[3]!.toNat, tv[4]!.toNat, tv[5]!.toNat, tv[6]!.toNat, tv[7]!.toNat, tv[8]!.toNat, tv[9]!.toNat, tv[10]!.toNat, tv[11]!.toNat, tv[12]!.toNat, tv[13]!.toNat, tv[14]!.toNat, tv[15]!.toNat⟩).out =
      outTuple (Model.Blake2b.round tm tv r) := by
  have h := roundW (W.ofArr tm) tv hv r
  rw [toArr_ofArr tm hm] at h
  simp only [W.map, W.ofArr, W.toArr] at h
  rw [h]
  simp only [W.out, outTuple]

/-! ### the twelve instances

`gen_round_r`: the generated let-chain `round_r` IS `roundG gN` on the message words `tm[SIGMA[r][k]]` (the
`simp` evaluates the 16 table look-ups of the right-hand side, `rfl` unfolds the generated definition);
`round_r_eq_model`: the result, through `round_bridge`. -/

theorem gen_round_0 (m0 m1 m2 m3 m4 m5 m6 m7 m8 m9 m10 m11 m12 m13 m14 m15 v0 v1 v2 v3 v4 v5 v6 v7 v8 v9 v10 v11 v12 v13 v14 v15 : Nat) :
    Gen.Blake2b.round_0 m0 m1 m2 m3 m4 m5 m6 m7 m8 m9 m10 m11 m12 m13 m14 m15 v0 v1 v2 v3 v4 v5 v6 v7 v8 v9 v10 v11 v12 v13 v14 v15 =
      (roundG gN (msg #[m0, m1, m2, m3, m4, m5, m6, m7, m8, m9, m10, m11, m12, m13, m14, m15] 0) ⟨v0, v1, v2, v3, v4, v5, v6, v7, v8, v9, v10, v11, v12, v13, v14, v15⟩).out := by
  simp [msg, Model.Blake2b.SIGMA]
  rfl

/-- `round(0)`: the generated code on the `.toNat` of 16 + 16 words = the model's `round tm tv 0` -/
theorem round_0_eq_model (tm tv : Array UInt64) (hm : tm.size = 16) (hv : tv.size = 16) :
    Gen.Blake2b.round_0 tm[0]!.toNat tm[1]!.toNat tm[2]!.toNat tm[3]!.toNat tm[4]!.toNat tm[5]!.toNat tm[6]!.toNat tm[7]!.toNat tm[8]!.toNat tm[9]!.toNat tm[10]!.toNat tm[11]!.toNat tm[12]!.toNat tm[13]!.toNat tm[14]!.toNat tm[15]!.toNat
      tv[0]!.toNat tv[1]!.toNat tv[2]!.toNat tv[3]!.toNat tv[4]!.toNat tv[5]!.toNat tv[6]!.toNat tv[7]!.toNat tv[8]!.toNat tv[9]!.toNat tv[10]!.toNat tv[11]!.toNat tv[12]!.toNat tv[13]!.toNat tv[14]!.toNat tv[15]!.toNat = outTuple (Model.Blake2b.round tm tv 0) :=
  (gen_round_0 ..).trans (round_bridge tm tv hm hv 0)

theorem gen_round_1 (m0 m1 m2 m3 m4 m5 m6 m7 m8 m9 m10 m11 m12 m13 m14 m15 v0 v1 v2 v3 v4 v5 v6 v7 v8 v9 v10 v11 v12 v13 v14 v15 : Nat) :
    Gen.Blake2b.round_1 m0 m1 m2 m3 m4 m5 m6 m7 m8 m9 m10 m11 m12 m13 m14 m15 v0 v1 v2 v3 v4 v5 v6 v7 v8 v9 v10 v11 v12 v13 v14 v15 =
      (roundG gN (msg #[m0, m1, m2, m3, m4, m5, m6, m7, m8, m9, m10, m11, m12, m13, m14, m15] 1) ⟨v0, v1, v2, v3, v4, v5, v6, v7, v8, v9, v10, v11, v12, v13, v14, v15⟩).out := by
  simp [msg, Model.Blake2b.SIGMA]
  rfl

/-- `round(1)`: the generated code on the `.toNat` of 16 + 16 words = the model's `round tm tv 1` -/
theorem round_1_eq_model (tm tv : Array UInt64) (hm : tm.size = 16) (hv : tv.size = 16) :
    Gen.Blake2b.round_1 tm[0]!.toNat tm[1]!.toNat tm[2]!.toNat tm[3]!.toNat tm[4]!.toNat tm[5]!.toNat tm[6]!.toNat tm[7]!.toNat tm[8]!.toNat tm[9]!.toNat tm[10]!.toNat tm[11]!.toNat tm[12]!.toNat tm[13]!.toNat tm[14]!.toNat tm[15]!.toNat
      tv[0]!.toNat tv[1]!.toNat tv[2]!.toNat tv[3]!.toNat tv[4]!.toNat tv[5]!.toNat tv[6]!.toNat tv[7]!.toNat tv[8]!.toNat tv[9]!.toNat tv[10]!.toNat tv[11]!.toNat tv[12]!.toNat tv[13]!.toNat tv[14]!.toNat tv[15]!.toNat = outTuple (Model.Blake2b.round tm tv 1) :=
  (gen_round_1 ..).trans (round_bridge tm tv hm hv 1)

theorem gen_round_2 (m0 m1 m2 m3 m4 m5 m6 m7 m8 m9 m10 m11 m12 m13 m14 m15 v0 v1 v2 v3 v4 v5 v6 v7 v8 v9 v10 v11 v12 v13 v14 v15 : Nat) :
    Gen.Blake2b.round_2 m0 m1 m2 m3 m4 m5 m6 m7 m8 m9 m10 m11 m12 m13 m14 m15 v0 v1 v2 v3 v4 v5 v6 v7 v8 v9 v10 v11 v12 v13 v14 v15 =
      (roundG gN (msg #[m0, m1, m2, m3, m4, m5, m6, m7, m8, m9, m10, m11, m12, m13, m14, m15] 2) ⟨v0, v1, v2, v3, v4, v5, v6, v7, v8, v9, v10, v11, v12, v13, v14, v15⟩).out := by
  simp [msg, Model.Blake2b.SIGMA]
  rfl

/-- `round(2)`: the generated code on the `.toNat` of 16 + 16 words = the model's `round tm tv 2` -/
theorem round_2_eq_model (tm tv : Array UInt64) (hm : tm.size = 16) (hv : tv.size = 16) :
    Gen.Blake2b.round_2 tm[0]!.toNat tm[1]!.toNat tm[2]!.toNat tm[3]!.toNat tm[4]!.toNat tm[5]!.toNat tm[6]!.toNat tm[7]!.toNat tm[8]!.toNat tm[9]!.toNat tm[10]!.toNat tm[11]!.toNat tm[12]!.toNat tm[13]!.toNat tm[14]!.toNat tm[15]!.toNat
      tv[0]!.toNat tv[1]!.toNat tv[2]!.toNat tv[3]!.toNat tv[4]!.toNat tv[5]!.toNat tv[6]!.toNat tv[7]!.toNat tv[8]!.toNat tv[9]!.toNat tv[10]!.toNat tv[11]!.toNat tv[12]!.toNat tv[13]!.toNat tv[14]!.toNat tv[15]!.toNat = outTuple (Model.Blake2b.round tm tv 2) :=
  (gen_round_2 ..).trans (round_bridge tm tv hm hv 2)

theorem gen_round_3 (m0 m1 m2 m3 m4 m5 m6 m7 m8 m9 m10 m11 m12 m13 m14 m15 v0 v1 v2 v3 v4 v5 v6 v7 v8 v9 v10 v11 v12 v13 v14 v15 : Nat) :
    Gen.Blake2b.round_3 m0 m1 m2 m3 m4 m5 m6 m7 m8 m9 m10 m11 m12 m13 m14 m15 v0 v1 v2 v3 v4 v5 v6 v7 v8 v9 v10 v11 v12 v13 v14 v15 =
      (roundG gN (msg #[m0, m1, m2, m3, m4, m5, m6, m7, m8, m9, m10, m11, m12, m13, m14, m15] 3) ⟨v0, v1, v2, v3, v4, v5, v6, v7, v8, v9, v10, v11, v12, v13, v14, v15⟩).out := by
  simp [msg, Model.Blake2b.SIGMA]
  rfl

/-- `round(3)`: the generated code on the `.toNat` of 16 + 16 words = the model's `round tm tv 3` -/
theorem round_3_eq_model (tm tv : Array UInt64) (hm : tm.size = 16) (hv : tv.size = 16) :
    Gen.Blake2b.round_3 tm[0]!.toNat tm[1]!.toNat tm[2]!.toNat tm[3]!.toNat tm[4]!.toNat tm[5]!.toNat tm[6]!.toNat tm[7]!.toNat tm[8]!.toNat tm[9]!.toNat tm[10]!.toNat tm[11]!.toNat tm[12]!.toNat tm[13]!.toNat tm[14]!.toNat tm[15]!.toNat
      tv[0]!.toNat tv[1]!.toNat tv[2]!.toNat tv[3]!.toNat tv[4]!.toNat tv[5]!.toNat tv[6]!.toNat tv[7]!.toNat tv[8]!.toNat tv[9]!.toNat tv[10]!.toNat tv[11]!.toNat tv[12]!.toNat tv[13]!.toNat tv[14]!.toNat tv[15]!.toNat = outTuple (Model.Blake2b.round tm tv 3) :=
  (gen_round_3 ..).trans (round_bridge tm tv hm hv 3)

theorem gen_round_4 (m0 m1 m2 m3 m4 m5 m6 m7 m8 m9 m10 m11 m12 m13 m14 m15 v0 v1 v2 v3 v4 v5 v6 v7 v8 v9 v10 v11 v12 v13 v14 v15 : Nat) :
    Gen.Blake2b.round_4 m0 m1 m2 m3 m4 m5 m6 m7 m8 m9 m10 m11 m12 m13 m14 m15 v0 v1 v2 v3 v4 v5 v6 v7 v8 v9 v10 v11 v12 v13 v14 v15 =
      (roundG gN (msg #[m0, m1, m2, m3, m4, m5, m6, m7, m8, m9, m10, m11, m12, m13, m14, m15] 4) ⟨v0, v1, v2, v3, v4, v5, v6, v7, v8, v9, v10, v11, v12, v13, v14, v15⟩).out := by
  simp [msg, Model.Blake2b.SIGMA]
  rfl

/-- `round(4)`: the generated code on the `.toNat` of 16 + 16 words = the model's `round tm tv 4` -/
theorem round_4_eq_model (tm tv : Array UInt64) (hm : tm.size = 16) (hv : tv.size = 16) :
    Gen.Blake2b.round_4 tm[0]!.toNat tm[1]!.toNat tm[2]!.toNat tm[3]!.toNat tm[4]!.toNat tm[5]!.toNat tm[6]!.toNat tm[7]!.toNat tm[8]!.toNat tm[9]!.toNat tm[10]!.toNat tm[11]!.toNat tm[12]!.toNat tm[13]!.toNat tm[14]!.toNat tm[15]!.toNat
      tv[0]!.toNat tv[1]!.toNat tv[2]!.toNat tv[3]!.toNat tv[4]!.toNat tv[5]!.toNat tv[6]!.toNat tv[7]!.toNat tv[8]!.toNat tv[9]!.toNat tv[10]!.toNat tv[11]!.toNat tv[12]!.toNat tv[13]!.toNat tv[14]!.toNat tv[15]!.toNat = outTuple (Model.Blake2b.round tm tv 4) :=
  (gen_round_4 ..).trans (round_bridge tm tv hm hv 4)

theorem gen_round_5 (m0 m1 m2 m3 m4 m5 m6 m7 m8 m9 m10 m11 m12 m13 m14 m15 v0 v1 v2 v3 v4 v5 v6 v7 v8 v9 v10 v11 v12 v13 v14 v15 : Nat) :
    Gen.Blake2b.round_5 m0 m1 m2 m3 m4 m5 m6 m7 m8 m9 m10 m11 m12 m13 m14 m15 v0 v1 v2 v3 v4 v5 v6 v7 v8 v9 v10 v11 v12 v13 v14 v15 =
      (roundG gN (msg #[m0, m1, m2, m3, m4, m5, m6, m7, m8, m9, m10, m11, m12, m13, m14, m15] 5) ⟨v0, v1, v2, v3, v4, v5, v6, v7, v8, v9, v10, v11, v12, v13, v14, v15⟩).out := by
  simp [msg, Model.Blake2b.SIGMA]
  rfl

/-- `round(5)`: the generated code on the `.toNat` of 16 + 16 words = the model's `round tm tv 5` -/
theorem round_5_eq_model (tm tv : Array UInt64) (hm : tm.size = 16) (hv : tv.size = 16) :
    Gen.Blake2b.round_5 tm[0]!.toNat tm[1]!.toNat tm[2]!.toNat tm[3]!.toNat tm[4]!.toNat tm[5]!.toNat tm[6]!.toNat tm[7]!.toNat tm[8]!.toNat tm[9]!.toNat tm[10]!.toNat tm[11]!.toNat tm[12]!.toNat tm[13]!.toNat tm[14]!.toNat tm[15]!.toNat
      tv[0]!.toNat tv[1]!.toNat tv[2]!.toNat tv[3]!.toNat tv[4]!.toNat tv[5]!.toNat tv[6]!.toNat tv[7]!.toNat tv[8]!.toNat tv[9]!.toNat tv[10]!.toNat tv[11]!.toNat tv[12]!.toNat tv[13]!.toNat tv[14]!.toNat tv[15]!.toNat = outTuple (Model.Blake2b.round tm tv 5) :=
  (gen_round_5 ..).trans (round_bridge tm tv hm hv 5)

theorem gen_round_6 (m0 m1 m2 m3 m4 m5 m6 m7 m8 m9 m10 m11 m12 m13 m14 m15 v0 v1 v2 v3 v4 v5 v6 v7 v8 v9 v10 v11 v12 v13 v14 v15 : Nat) :
    Gen.Blake2b.round_6 m0 m1 m2 m3 m4 m5 m6 m7 m8 m9 m10 m11 m12 m13 m14 m15 v0 v1 v2 v3 v4 v5 v6 v7 v8 v9 v10 v11 v12 v13 v14 v15 =
      (roundG gN (msg #[m0, m1, m2, m3, m4, m5, m6, m7, m8, m9, m10, m11, m12, m13, m14, m15] 6) ⟨v0, v1, v2, v3, v4, v5, v6, v7, v8, v9, v10, v11, v12, v13, v14, v15⟩).out := by
  simp [msg, Model.Blake2b.SIGMA]
  rfl

/-- `round(6)`: the generated code on the `.toNat` of 16 + 16 words = the model's `round tm tv 6` -/
theorem round_6_eq_model (tm tv : Array UInt64) (hm : tm.size = 16) (hv : tv.size = 16) :
    Gen.Blake2b.round_6 tm[0]!.toNat tm[1]!.toNat tm[2]!.toNat tm[3]!.toNat tm[4]!.toNat tm[5]!.toNat tm[6]!.toNat tm[7]!.toNat tm[8]!.toNat tm[9]!.toNat tm[10]!.toNat tm[11]!.toNat tm[12]!.toNat tm[13]!.toNat tm[14]!.toNat tm[15]!.toNat
      tv[0]!.toNat tv[1]!.toNat tv[2]!.toNat tv[3]!.toNat tv[4]!.toNat tv[5]!.toNat tv[6]!.toNat tv[7]!.toNat tv[8]!.toNat tv[9]!.toNat tv[10]!.toNat tv[11]!.toNat tv[12]!.toNat tv[13]!.toNat tv[14]!.toNat tv[15]!.toNat = outTuple (Model.Blake2b.round tm tv 6) :=
  (gen_round_6 ..).trans (round_bridge tm tv hm hv 6)

theorem gen_round_7 (m0 m1 m2 m3 m4 m5 m6 m7 m8 m9 m10 m11 m12 m13 m14 m15 v0 v1 v2 v3 v4 v5 v6 v7 v8 v9 v10 v11 v12 v13 v14 v15 : Nat) :
    Gen.Blake2b.round_7 m0 m1 m2 m3 m4 m5 m6 m7 m8 m9 m10 m11 m12 m13 m14 m15 v0 v1 v2 v3 v4 v5 v6 v7 v8 v9 v10 v11 v12 v13 v14 v15 =
      (roundG gN (msg #[m0, m1, m2, m3, m4, m5, m6, m7, m8, m9, m10, m11, m12, m13, m14, m15] 7) ⟨v0, v1, v2, v3, v4, v5, v6, v7, v8, v9, v10, v11, v12, v13, v14, v15⟩).out := by
  simp [msg, Model.Blake2b.SIGMA]
  rfl

/-- `round(7)`: the generated code on the `.toNat` of 16 + 16 words = the model's `round tm tv 7` -/
theorem round_7_eq_model (tm tv : Array UInt64) (hm : tm.size = 16) (hv : tv.size = 16) :
    Gen.Blake2b.round_7 tm[0]!.toNat tm[1]!.toNat tm[2]!.toNat tm[3]!.toNat tm[4]!.toNat tm[5]!.toNat tm[6]!.toNat tm[7]!.toNat tm[8]!.toNat tm[9]!.toNat tm[10]!.toNat tm[11]!.toNat tm[12]!.toNat tm[13]!.toNat tm[14]!.toNat tm[15]!.toNat
      tv[0]!.toNat tv[1]!.toNat tv[2]!.toNat tv[3]!.toNat tv[4]!.toNat tv[5]!.toNat tv[6]!.toNat tv[7]!.toNat tv[8]!.toNat tv[9]!.toNat tv[10]!.toNat tv[11]!.toNat tv[12]!.toNat tv[13]!.toNat tv[14]!.toNat tv[15]!.toNat = outTuple (Model.Blake2b.round tm tv 7) :=
  (gen_round_7 ..).trans (round_bridge tm tv hm hv 7)

theorem gen_round_8 (m0 m1 m2 m3 m4 m5 m6 m7 m8 m9 m10 m11 m12 m13 m14 m15 v0 v1 v2 v3 v4 v5 v6 v7 v8 v9 v10 v11 v12 v13 v14 v15 : Nat) :
    Gen.Blake2b.round_8 m0 m1 m2 m3 m4 m5 m6 m7 m8 m9 m10 m11 m12 m13 m14 m15 v0 v1 v2 v3 v4 v5 v6 v7 v8 v9 v10 v11 v12 v13 v14 v15 =
      (roundG gN (msg #[m0, m1, m2, m3, m4, m5, m6, m7, m8, m9, m10, m11, m12, m13, m14, m15] 8) ⟨v0, v1, v2, v3, v4, v5, v6, v7, v8, v9, v10, v11, v12, v13, v14, v15⟩).out := by
  simp [msg, Model.Blake2b.SIGMA]
  rfl

/-- `round(8)`: the generated code on the `.toNat` of 16 + 16 words = the model's `round tm tv 8` -/
theorem round_8_eq_model (tm tv : Array UInt64) (hm : tm.size = 16) (hv : tv.size = 16) :
    Gen.Blake2b.round_8 tm[0]!.toNat tm[1]!.toNat tm[2]!.toNat tm[3]!.toNat tm[4]!.toNat tm[5]!.toNat tm[6]!.toNat tm[7]!.toNat tm[8]!.toNat tm[9]!.toNat tm[10]!.toNat tm[11]!.toNat tm[12]!.toNat tm[13]!.toNat tm[14]!.toNat tm[15]!.toNat
      tv[0]!.toNat tv[1]!.toNat tv[2]!.toNat tv[3]!.toNat tv[4]!.toNat tv[5]!.toNat tv[6]!.toNat tv[7]!.toNat tv[8]!.toNat tv[9]!.toNat tv[10]!.toNat tv[11]!.toNat tv[12]!.toNat tv[13]!.toNat tv[14]!.toNat tv[15]!.toNat = outTuple (Model.Blake2b.round tm tv 8) :=
  (gen_round_8 ..).trans (round_bridge tm tv hm hv 8)

theorem gen_round_9 (m0 m1 m2 m3 m4 m5 m6 m7 m8 m9 m10 m11 m12 m13 m14 m15 v0 v1 v2 v3 v4 v5 v6 v7 v8 v9 v10 v11 v12 v13 v14 v15 : Nat) :
    Gen.Blake2b.round_9 m0 m1 m2 m3 m4 m5 m6 m7 m8 m9 m10 m11 m12 m13 m14 m15 v0 v1 v2 v3 v4 v5 v6 v7 v8 v9 v10 v11 v12 v13 v14 v15 =
      (roundG gN (msg #[m0, m1, m2, m3, m4, m5, m6, m7, m8, m9, m10, m11, m12, m13, m14, m15] 9) ⟨v0, v1, v2, v3, v4, v5, v6, v7, v8, v9, v10, v11, v12, v13, v14, v15⟩).out := by
  simp [msg, Model.Blake2b.SIGMA]
  rfl

/-- `round(9)`: the generated code on the `.toNat` of 16 + 16 words = the model's `round tm tv 9` -/
theorem round_9_eq_model (tm tv : Array UInt64) (hm : tm.size = 16) (hv : tv.size = 16) :
    Gen.Blake2b.round_9 tm[0]!.toNat tm[1]!.toNat tm[2]!.toNat tm[3]!.toNat tm[4]!.toNat tm[5]!.toNat tm[6]!.toNat tm[7]!.toNat tm[8]!.toNat tm[9]!.toNat tm[10]!.toNat tm[11]!.toNat tm[12]!.toNat tm[13]!.toNat tm[14]!.toNat tm[15]!.toNat
      tv[0]!.toNat tv[1]!.toNat tv[2]!.toNat tv[3]!.toNat tv[4]!.toNat tv[5]!.toNat tv[6]!.toNat tv[7]!.toNat tv[8]!.toNat tv[9]!.toNat tv[10]!.toNat tv[11]!.toNat tv[12]!.toNat tv[13]!.toNat tv[14]!.toNat tv[15]!.toNat = outTuple (Model.Blake2b.round tm tv 9) :=
  (gen_round_9 ..).trans (round_bridge tm tv hm hv 9)

theorem gen_round_10 (m0 m1 m2 m3 m4 m5 m6 m7 m8 m9 m10 m11 m12 m13 m14 m15 v0 v1 v2 v3 v4 v5 v6 v7 v8 v9 v10 v11 v12 v13 v14 v15 : Nat) :
    Gen.Blake2b.round_10 m0 m1 m2 m3 m4 m5 m6 m7 m8 m9 m10 m11 m12 m13 m14 m15 v0 v1 v2 v3 v4 v5 v6 v7 v8 v9 v10 v11 v12 v13 v14 v15 =
      (roundG gN (msg #[m0, m1, m2, m3, m4, m5, m6, m7, m8, m9, m10, m11, m12, m13, m14, m15] 10) ⟨v0, v1, v2, v3, v4, v5, v6, v7, v8, v9, v10, v11, v12, v13, v14, v15⟩).out := by
  simp [msg, Model.Blake2b.SIGMA]
  rfl

/-- `round(10)`: the generated code on the `.toNat` of 16 + 16 words = the model's `round tm tv 10` -/
theorem round_10_eq_model (tm tv : Array UInt64) (hm : tm.size = 16) (hv : tv.size = 16) :
    Gen.Blake2b.round_10 tm[0]!.toNat tm[1]!.toNat tm[2]!.toNat tm[3]!.toNat tm[4]!.toNat tm[5]!.toNat tm[6]!.toNat tm[7]!.toNat tm[8]!.toNat tm[9]!.toNat tm[10]!.toNat tm[11]!.toNat tm[12]!.toNat tm[13]!.toNat tm[14]!.toNat tm[15]!.toNat
      tv[0]!.toNat tv[1]!.toNat tv[2]!.toNat tv[3]!.toNat tv[4]!.toNat tv[5]!.toNat tv[6]!.toNat tv[7]!.toNat tv[8]!.toNat tv[9]!.toNat tv[10]!.toNat tv[11]!.toNat tv[12]!.toNat tv[13]!.toNat tv[14]!.toNat tv[15]!.toNat = outTuple (Model.Blake2b.round tm tv 10) :=
  (gen_round_10 ..).trans (round_bridge tm tv hm hv 10)

theorem gen_round_11 (m0 m1 m2 m3 m4 m5 m6 m7 m8 m9 m10 m11 m12 m13 m14 m15 v0 v1 v2 v3 v4 v5 v6 v7 v8 v9 v10 v11 v12 v13 v14 v15 : Nat) :
    Gen.Blake2b.round_11 m0 m1 m2 m3 m4 m5 m6 m7 m8 m9 m10 m11 m12 m13 m14 m15 v0 v1 v2 v3 v4 v5 v6 v7 v8 v9 v10 v11 v12 v13 v14 v15 =
      (roundG gN (msg #[m0, m1, m2, m3, m4, m5, m6, m7, m8, m9, m10, m11, m12, m13, m14, m15] 11) ⟨v0, v1, v2, v3, v4, v5, v6, v7, v8, v9, v10, v11, v12, v13, v14, v15⟩).out := by
  simp [msg, Model.Blake2b.SIGMA]
  rfl

/-- `round(11)`: the generated code on the `.toNat` of 16 + 16 words = the model's `round tm tv 11` -/
theorem round_11_eq_model (tm tv : Array UInt64) (hm : tm.size = 16) (hv : tv.size = 16) :
    Gen.Blake2b.round_11 tm[0]!.toNat tm[1]!.toNat tm[2]!.toNat tm[3]!.toNat tm[4]!.toNat tm[5]!.toNat tm[6]!.toNat tm[7]!.toNat tm[8]!.toNat tm[9]!.toNat tm[10]!.toNat tm[11]!.toNat tm[12]!.toNat tm[13]!.toNat tm[14]!.toNat tm[15]!.toNat
      tv[0]!.toNat tv[1]!.toNat tv[2]!.toNat tv[3]!.toNat tv[4]!.toNat tv[5]!.toNat tv[6]!.toNat tv[7]!.toNat tv[8]!.toNat tv[9]!.toNat tv[10]!.toNat tv[11]!.toNat tv[12]!.toNat tv[13]!.toNat tv[14]!.toNat tv[15]!.toNat = outTuple (Model.Blake2b.round tm tv 11) :=
  (gen_round_11 ..).trans (round_bridge tm tv hm hv 11)

/-- sanity test (concrete input, evaluated by the kernel; `eq_of_beq` only because instance synthesis gives up on
`DecidableEq` of a 16-tuple): generated `round_3` vs model `round … 3` -/
example :
    Gen.Blake2b.round_3 11 22 33 44 55 66 77 88 99 1010 1111 1212 1313 1414 1515 18446744073709551615
      1 2 3 4 5 6 7 8 9 10 11 12 18446744073709551615 14 15 9223372036854775808 =
    outTuple (Model.Blake2b.round
      #[11, 22, 33, 44, 55, 66, 77, 88, 99, 1010, 1111, 1212, 1313, 1414, 1515, 18446744073709551615]
      #[1, 2, 3, 4, 5, 6, 7, 8, 9, 10, 11, 12, 18446744073709551615, 14, 15, 9223372036854775808] 3) :=
  eq_of_beq (by decide +kernel)

/-! ## 5. `compress` -/

theorem range8 : List.range 8 = [0,1,2,3,4,5,6,7] := by decide
theorem range16 : List.range 16 = [0,1,2,3,4,5,6,7,8,9,10,11,12,13,14,15] := by decide
theorem rep16 : Array.replicate 16 (0 : UInt64) = #[0,0,0,0,0,0,0,0,0,0,0,0,0,0,0,0] := by
  simp [Array.replicate, List.replicate]

theorem arr8 (h : Array UInt64) (hh : h.size = 8) :
    ∃ h0 h1 h2 h3 h4 h5 h6 h7, h = #[h0, h1, h2, h3, h4, h5, h6, h7] := by
  obtain ⟨l⟩ := h
  match l, hh with
  | [a0,a1,a2,a3,a4,a5,a6,a7], _ => exact ⟨a0,a1,a2,a3,a4,a5,a6,a7,rfl⟩

/-- the array `tm` of `compress` after its load loop (slices written as the generated code writes them;
`block[8i..8i+8]` of the model is the same list, for every block length) -/
def tmOf (block : Bytes) : Array UInt64 :=
  #[loadU64LE ((block.drop 0).take 8),
    loadU64LE ((block.drop 8).take 8),
    loadU64LE ((block.drop 16).take 8),
    loadU64LE ((block.drop 24).take 8),
    loadU64LE ((block.drop 32).take 8),
    loadU64LE ((block.drop 40).take 8),
    loadU64LE ((block.drop 48).take 8),
    loadU64LE ((block.drop 56).take 8),
    loadU64LE ((block.drop 64).take 8),
    loadU64LE ((block.drop 72).take 8),
    loadU64LE ((block.drop 80).take 8),
    loadU64LE ((block.drop 88).take 8),
    loadU64LE ((block.drop 96).take 8),
    loadU64LE ((block.drop 104).take 8),
    loadU64LE ((block.drop 112).take 8),
    loadU64LE ((block.drop 120).take 8)]

/-- the array `tv` of `compress` before the first round -/
def tv0 (sh : Array UInt64) (t0 t1 f0 f1 : UInt64) : Array UInt64 :=
  #[sh[0]!, sh[1]!, sh[2]!, sh[3]!, sh[4]!, sh[5]!, sh[6]!, sh[7]!,
    Model.Blake2b.IV[0]!, Model.Blake2b.IV[1]!, Model.Blake2b.IV[2]!, Model.Blake2b.IV[3]!,
    t0 ^^^ Model.Blake2b.IV[4]!, t1 ^^^ Model.Blake2b.IV[5]!, f0 ^^^ Model.Blake2b.IV[6]!, f1 ^^^ Model.Blake2b.IV[7]!]

-- (not by `rfl`: `simp` must be able to use these to discharge side conditions)
theorem tmOf_size (block : Bytes) : (tmOf block).size = 16 := by simp [tmOf]
theorem tv0_size (sh : Array UInt64) (t0 t1 f0 f1 : UInt64) : (tv0 sh t0 t1 f0 f1).size = 16 := by simp [tv0]

/-- the twelve rounds of the model -/
def rounds12 (tm tv : Array UInt64) : Array UInt64 :=
  Model.Blake2b.round tm (Model.Blake2b.round tm (Model.Blake2b.round tm (Model.Blake2b.round tm (Model.Blake2b.round tm (Model.Blake2b.round tm (Model.Blake2b.round tm (Model.Blake2b.round tm (Model.Blake2b.round tm (Model.Blake2b.round tm (Model.Blake2b.round tm (Model.Blake2b.round tm tv 0) 1) 2) 3) 4) 5) 6) 7) 8) 9) 10) 11

/-- the model's `compress` with its three loops unrolled (8-word `sh`) -/
theorem model_compress (sh : Array UInt64) (hs : sh.size = 8) (t0 t1 f0 f1 : UInt64) (block : Bytes) :
    Model.Blake2b.compress sh t0 t1 f0 f1 block =
      (let tv := rounds12 (tmOf block) (tv0 sh t0 t1 f0 f1)
       #[sh[0]! ^^^ tv[0]! ^^^ tv[8]!, sh[1]! ^^^ tv[1]! ^^^ tv[9]!, sh[2]! ^^^ tv[2]! ^^^ tv[10]!,
         sh[3]! ^^^ tv[3]! ^^^ tv[11]!, sh[4]! ^^^ tv[4]! ^^^ tv[12]!, sh[5]! ^^^ tv[5]! ^^^ tv[13]!,
         sh[6]! ^^^ tv[6]! ^^^ tv[14]!, sh[7]! ^^^ tv[7]! ^^^ tv[15]!]) := by
  obtain ⟨h0, h1, h2, h3, h4, h5, h6, h7, rfl⟩ := arr8 sh hs
  unfold Model.Blake2b.compress
  simp only [range16, range8, rep16, List.foldl_cons, List.foldl_nil]
  simp [tmOf, tv0, rounds12, slice, List.drop_take]

/-! the 16 generated loads are the entries of `tmOf block` -/
section
variable (block : Bytes)
theorem tm_get_0 : Gen.Utils.load_u64_le ((block.drop 0).take 8) = (tmOf block)[0]!.toNat := load_eq _
theorem tm_get_1 : Gen.Utils.load_u64_le ((block.drop 8).take 8) = (tmOf block)[1]!.toNat := load_eq _
theorem tm_get_2 : Gen.Utils.load_u64_le ((block.drop 16).take 8) = (tmOf block)[2]!.toNat := load_eq _
theorem tm_get_3 : Gen.Utils.load_u64_le ((block.drop 24).take 8) = (tmOf block)[3]!.toNat := load_eq _
theorem tm_get_4 : Gen.Utils.load_u64_le ((block.drop 32).take 8) = (tmOf block)[4]!.toNat := load_eq _
theorem tm_get_5 : Gen.Utils.load_u64_le ((block.drop 40).take 8) = (tmOf block)[5]!.toNat := load_eq _
theorem tm_get_6 : Gen.Utils.load_u64_le ((block.drop 48).take 8) = (tmOf block)[6]!.toNat := load_eq _
theorem tm_get_7 : Gen.Utils.load_u64_le ((block.drop 56).take 8) = (tmOf block)[7]!.toNat := load_eq _
theorem tm_get_8 : Gen.Utils.load_u64_le ((block.drop 64).take 8) = (tmOf block)[8]!.toNat := load_eq _
theorem tm_get_9 : Gen.Utils.load_u64_le ((block.drop 72).take 8) = (tmOf block)[9]!.toNat := load_eq _
theorem tm_get_10 : Gen.Utils.load_u64_le ((block.drop 80).take 8) = (tmOf block)[10]!.toNat := load_eq _
theorem tm_get_11 : Gen.Utils.load_u64_le ((block.drop 88).take 8) = (tmOf block)[11]!.toNat := load_eq _
theorem tm_get_12 : Gen.Utils.load_u64_le ((block.drop 96).take 8) = (tmOf block)[12]!.toNat := load_eq _
theorem tm_get_13 : Gen.Utils.load_u64_le ((block.drop 104).take 8) = (tmOf block)[13]!.toNat := load_eq _
theorem tm_get_14 : Gen.Utils.load_u64_le ((block.drop 112).take 8) = (tmOf block)[14]!.toNat := load_eq _
theorem tm_get_15 : Gen.Utils.load_u64_le ((block.drop 120).take 8) = (tmOf block)[15]!.toNat := load_eq _
end

/-! the 16 generated initial values of `tv_i` are the entries of `tv0` (this is where the eight `IV`
constants inlined in the generated code are compared with the model's `IV`) -/
section
variable (sh : Array UInt64) (t0 t1 f0 f1 : UInt64)
theorem tv0_get_0 : (tv0 sh t0 t1 f0 f1)[0]!.toNat = sh[0]!.toNat := rfl
theorem tv0_get_1 : (tv0 sh t0 t1 f0 f1)[1]!.toNat = sh[1]!.toNat := rfl
theorem tv0_get_2 : (tv0 sh t0 t1 f0 f1)[2]!.toNat = sh[2]!.toNat := rfl
theorem tv0_get_3 : (tv0 sh t0 t1 f0 f1)[3]!.toNat = sh[3]!.toNat := rfl
theorem tv0_get_4 : (tv0 sh t0 t1 f0 f1)[4]!.toNat = sh[4]!.toNat := rfl
theorem tv0_get_5 : (tv0 sh t0 t1 f0 f1)[5]!.toNat = sh[5]!.toNat := rfl
theorem tv0_get_6 : (tv0 sh t0 t1 f0 f1)[6]!.toNat = sh[6]!.toNat := rfl
theorem tv0_get_7 : (tv0 sh t0 t1 f0 f1)[7]!.toNat = sh[7]!.toNat := rfl
theorem tv0_get_8 : (tv0 sh t0 t1 f0 f1)[8]!.toNat = 7640891576956012808 := rfl
theorem tv0_get_9 : (tv0 sh t0 t1 f0 f1)[9]!.toNat = 13503953896175478587 := rfl
theorem tv0_get_10 : (tv0 sh t0 t1 f0 f1)[10]!.toNat = 4354685564936845355 := rfl
theorem tv0_get_11 : (tv0 sh t0 t1 f0 f1)[11]!.toNat = 11912009170470909681 := rfl
theorem tv0_get_12 : (tv0 sh t0 t1 f0 f1)[12]!.toNat = t0.toNat ^^^ 5840696475078001361 := UInt64.toNat_xor _ _
theorem tv0_get_13 : (tv0 sh t0 t1 f0 f1)[13]!.toNat = t1.toNat ^^^ 11170449401992604703 := UInt64.toNat_xor _ _
theorem tv0_get_14 : (tv0 sh t0 t1 f0 f1)[14]!.toNat = f0.toNat ^^^ 2270897969802886507 := UInt64.toNat_xor _ _
theorem tv0_get_15 : (tv0 sh t0 t1 f0 f1)[15]!.toNat = f1.toNat ^^^ 6620516959819538809 := UInt64.toNat_xor _ _
end

/-- the 8 words of a chaining value as naturals -/
def out8 (o : Array UInt64) :=
  (o[0]!.toNat, o[1]!.toNat, o[2]!.toNat, o[3]!.toNat, o[4]!.toNat, o[5]!.toNat, o[6]!.toNat, o[7]!.toNat)

/-- **`compress`**: for every 8-word `sh`, counter and flag words, and every `block` (any length: the
generated code and the model both read `block[8i..8i+8]` through a load that reads a missing byte as 0;
the Rust panics when `block.len() < 128`, and every call site passes exactly 128 bytes), the generated
`compress` on the `.toNat` of the words returns the `.toNat` of the 8 words of the model's `compress`. -/
theorem compress_eq_model (sh : Array UInt64) (hs : sh.size = 8) (t0 t1 f0 f1 : UInt64) (block : Bytes) :
    Gen.Blake2b.compress sh[0]!.toNat sh[1]!.toNat sh[2]!.toNat sh[3]!.toNat sh[4]!.toNat sh[5]!.toNat sh[6]!.toNat sh[7]!.toNat
      t0.toNat t1.toNat f0.toNat f1.toNat block = out8 (Model.Blake2b.compress sh t0 t1 f0 f1 block) := by
  rw [model_compress sh hs]
  unfold Gen.Blake2b.compress
  -- round 0 is called on the initial `tv_i`
  have h0 := round_0_eq_model (tmOf block) (tv0 sh t0 t1 f0 f1) (tmOf_size block) (tv0_size sh t0 t1 f0 f1)
  simp only [tv0_get_0, tv0_get_1, tv0_get_2, tv0_get_3, tv0_get_4, tv0_get_5, tv0_get_6, tv0_get_7, tv0_get_8, tv0_get_9, tv0_get_10, tv0_get_11, tv0_get_12, tv0_get_13, tv0_get_14, tv0_get_15] at h0
  -- one pass: loads ↦ `tmOf block`, each `round_r` call ↦ the model round (its tuple is then destructured
  -- by the `let (tv_0, tv_12, …) := …` of the generated code), side conditions `size = 16` by `round_size`
  simp only [tm_get_0, tm_get_1, tm_get_2, tm_get_3, tm_get_4, tm_get_5, tm_get_6, tm_get_7, tm_get_8, tm_get_9, tm_get_10, tm_get_11, tm_get_12, tm_get_13, tm_get_14, tm_get_15,
    h0, round_1_eq_model, round_2_eq_model, round_3_eq_model, round_4_eq_model, round_5_eq_model, round_6_eq_model, round_7_eq_model, round_8_eq_model, round_9_eq_model, round_10_eq_model, round_11_eq_model,
    outTuple, round_size, tmOf_size, tv0_size]
  -- feed-forward `sh[i] ^ tv[i] ^ tv[i + 8]`
  simp only [xor_toNat, out8, rounds12]
  rfl

set_option maxRecDepth 100000 in
/-- sanity test (concrete input, evaluated by the kernel): generated `compress` vs model `compress` -/
example :
    Gen.Blake2b.compress 7640891576956012808 13503953896175478587 4354685564936845355 11912009170470909681
      5840696475078001361 11170449401992604703 2270897969802886507 6620516959819538809
      128 0 18446744073709551615 0 ((List.range 128).map (fun i => UInt8.ofNat (7 * i + 3))) =
    out8 (Model.Blake2b.compress Model.Blake2b.IV 128 0 18446744073709551615 0
      ((List.range 128).map (fun i => UInt8.ofNat (7 * i + 3)))) :=
  eq_of_beq (by decide +kernel)

/-! ## 6. `increment_counter` -/

/-- **`increment_counter`**, for every `inc : Nat` — no hypothesis is needed for the equation:
the generated code computes `c + inc` in unbounded `Nat` and then truncates (`c as u64`, `(c >> 64) as u64`),
the model reduces `c + inc` mod `2^128` first; the two truncations coincide.  In the Rust, `inc: usize`
(`inc < 2^64`, so `inc as u128` is exact) and `c += inc as u128` is a CHECKED add: when
`c + inc ≥ 2^128` a debug build panics and a release build wraps — the model (and, after truncation, the
generated code) gives the wrapped value; `increment_counter_value` states the no-overflow case. -/
theorem increment_counter_eq_model (t0 t1 : UInt64) (inc : Nat) :
    Gen.Blake2b.increment_counter t0.toNat t1.toNat inc =
      ((Model.Blake2b.incrementCounter t0 t1 inc).1.toNat, (Model.Blake2b.incrementCounter t0 t1 inc).2.toNat) := by
  have h1 : t1.toNat <<< 64 % Gen.U128 = t1.toNat <<< 64 := by
    have := t1.toNat_lt
    rw [Nat.shiftLeft_eq]
    exact Nat.mod_eq_of_lt (by unfold Gen.U128; omega)
  simp only [Gen.Blake2b.increment_counter, Model.Blake2b.incrementCounter, h1, Gen.U64, Nat.reducePow]
  generalize (t1.toNat <<< 64 ||| t0.toNat) + inc = c
  simp only [UInt64.toNat_ofNat']
  rw [Prod.mk.injEq]
  constructor <;> omega

/-- when the `u128` addition of the Rust does not overflow (`t0 + 2^64·t1 + inc < 2^128`: the only case in
which the generated unbounded-`Nat` addition IS the Rust's checked addition), the new pair denotes
`c + inc` -/
theorem increment_counter_value (t0 t1 : UInt64) (inc : Nat)
    (h : t0.toNat + 2^64 * t1.toNat + inc < 2^128) :
    (Gen.Blake2b.increment_counter t0.toNat t1.toNat inc).1 +
      2^64 * (Gen.Blake2b.increment_counter t0.toNat t1.toNat inc).2 = t0.toNat + 2^64 * t1.toNat + inc := by
  have h0 := t0.toNat_lt
  have h1 := t1.toNat_lt
  have e : (t1.toNat <<< 64) % Gen.U128 ||| t0.toNat = t0.toNat + 2^64 * t1.toNat := by
    rw [Nat.shiftLeft_eq, Nat.mod_eq_of_lt (by unfold Gen.U128; omega), Nat.mul_comm,
      ← Nat.two_pow_add_eq_or_of_lt h0, Nat.add_comm]
  simp only [Gen.Blake2b.increment_counter, e]
  generalize t0.toNat + 2^64 * t1.toNat + inc = c at h ⊢
  simp only [Gen.U64, Nat.shiftRight_eq_div_pow, Nat.reducePow] at h ⊢
  omega

/-- sanity test (concrete input, evaluated): carry from `t[0]` into `t[1]` -/
example :
    Gen.Blake2b.increment_counter 18446744073709551600 5 128 =
      ((Model.Blake2b.incrementCounter 18446744073709551600 5 128).1.toNat,
       (Model.Blake2b.incrementCounter 18446744073709551600 5 128).2.toNat) := by
  decide +kernel

end DryocVerif.Proofs.GenBlake2b
