import DryocVerif.Proofs.SecretBox
import DryocVerif.Proofs.Inst
import DryocVerif.Proofs.SecretBoxExtra
import DryocVerif.Proofs.Curve
/-
Second strengthening round for C01:

* `guard_boxSeal`, `guard_sealOpen`, `guard_objSeal`, `guard_objUnseal`: the sealed-box functions agree with
  their guarded versions whenever the 24-byte digest has its 24 bytes, so the general round trips transfer to
  `Model.boxPrims`;
* closed forms for OVER-LONG caller buffers of the sealing functions (`*_oversized`): the trailing buffer
  bytes are treated as message bytes (encrypted and authenticated);
* with the driver's primitives the output is then NaCl's box of `m ‖ trailing bytes`, which is not NaCl's box
  of `m`; its body prefix is the right ciphertext, its tag is over more bytes.

Core only.
-/
namespace DryocVerif.Proofs.SecretBoxExtra2
open DryocVerif DryocVerif.Model.SecretBox DryocVerif.Proofs.SecretBox
open DryocVerif.Model (boxPrims)
open DryocVerif.Proofs.Inst (boxPrims_guard_wf)
open DryocVerif.Proofs.Inst.Box

/-! ### guard lemmas for the sealed-box functions -/

theorem guard_sealNonce (P : Prims) (epk rpk : Bytes) : sealNonce (guard P) epk rpk = sealNonce P epk rpk := rfl

theorem guard_boxSeal (P : Prims) (hh : ∀ x, 24 ≤ (P.h24 x).length) (ct m rpk esk : Bytes) :
    boxSeal (guard P) ct m rpk esk = boxSeal P ct m rpk esk := by
  have hn : 24 ≤ (sealNonce P (P.dhBase esk) rpk).length := hh _
  simp only [boxSeal, guard_sealNonce]
  rw [show (guard P).dhBase esk = P.dhBase esk from rfl, guard_boxEasy P _ hn]

theorem guard_sealOpen (P : Prims) (hh : ∀ x, 24 ≤ (P.h24 x).length) (buf ct rpk rsk : Bytes) :
    sealOpen (guard P) buf ct rpk rsk = sealOpen P buf ct rpk rsk := by
  have hn : 24 ≤ (sealNonce P (ct.take 32) rpk).length := hh _
  simp only [sealOpen, guard_sealNonce]
  rw [guard_boxOpenEasy P _ hn]

theorem guard_objSeal (P : Prims) (hh : ∀ x, 24 ≤ (P.h24 x).length) (m rpk esk : Bytes) :
    objSeal (guard P) m rpk esk = objSeal P m rpk esk := by
  have hn : 24 ≤ (sealNonce P (P.dhBase esk) rpk).length := hh _
  simp only [objSeal, guard_sealNonce]
  rw [show (guard P).dhBase esk = P.dhBase esk from rfl, guard_objBoxEncrypt P _ hn]

theorem guard_objUnseal (P : Prims) (hh : ∀ x, 24 ≤ (P.h24 x).length) (b : Box) (rpk rsk : Bytes) :
    objUnseal (guard P) b rpk rsk = objUnseal P b rpk rsk := by
  unfold objUnseal
  cases b.epk with
  | none => rfl
  | some e =>
    have hn : 24 ≤ (sealNonce P e rpk).length := hh _
    simp only [guard_sealNonce]
    rw [guard_objBoxDecrypt P _ hn]

theorem boxPrims_h24_length (x : Bytes) : 24 ≤ (boxPrims.h24 x).length := by
  have := SecretBoxExtra.sealNonce_boxPrims_length x []
  have e : boxPrims.h24 (x ++ []) = boxPrims.h24 x := by rw [List.append_nil]
  have h : (boxPrims.h24 (x ++ [])).length = 24 := this
  rw [e] at h
  omega

theorem x25519Base_length (sk : Bytes) : (Spec.X25519.x25519Base sk).length = 32 :=
  Proofs.Curve.toLE_length _ _

/-! ### sealed-box round trips for the driver's primitives -/

/-- the general sealed-box round trip (same statement as `C01.open_seal_boxSeal`; Properties files are not
imported from Proofs) -/
theorem open_seal_boxSeal_gen (P : Prims) (wf : WF P) (ct0 buf m rpk rsk esk ct : Bytes)
    (hpk : (P.dhBase esk).length = 32)
    (hdh : P.dh esk rpk = P.dh rsk (P.dhBase esk))
    (hct0 : ct0.length = m.length + 48) (hbuf : buf.length = m.length)
    (hseal : boxSeal P ct0 m rpk esk = .ok ct) :
    sealOpen P buf ct rpk rsk = ⟨.ok (), m⟩ := by
  rw [boxSeal_eq P ct0 m rpk esk hct0] at hseal
  injection hseal with hseal
  subst hseal
  have hk : beforenm P (P.dhBase esk) rsk = beforenm P rpk esk := by simp only [beforenm, hdh]
  have ht : (P.dhBase esk ++ (sealTag P (beforenm P rpk esk) (sealNonce P (P.dhBase esk) rpk) m
      ++ cryptXor P (beforenm P rpk esk) (sealNonce P (P.dhBase esk) rpk) m)).take 32
        = P.dhBase esk := List.take_left' hpk
  have hd : (P.dhBase esk ++ (sealTag P (beforenm P rpk esk) (sealNonce P (P.dhBase esk) rpk) m
      ++ cryptXor P (beforenm P rpk esk) (sealNonce P (P.dhBase esk) rpk) m)).drop 32
        = sealTag P (beforenm P rpk esk) (sealNonce P (P.dhBase esk) rpk) m
          ++ cryptXor P (beforenm P rpk esk) (sealNonce P (P.dhBase esk) rpk) m :=
    List.drop_left' hpk
  obtain ⟨-, -, h3⟩ := combined_parts
    (c := cryptXor P (beforenm P rpk esk) (sealNonce P (P.dhBase esk) rpk) m)
    (sealTag_length wf (beforenm P rpk esk) (sealNonce P (P.dhBase esk) rpk) m)
  have hl := cryptXor_length wf (beforenm P rpk esk) (sealNonce P (P.dhBase esk) rpk) m
  have hlen : (P.dhBase esk ++ (sealTag P (beforenm P rpk esk) (sealNonce P (P.dhBase esk) rpk) m
      ++ cryptXor P (beforenm P rpk esk) (sealNonce P (P.dhBase esk) rpk) m)).length
        = m.length + 48 := by
    rw [List.length_append, h3, hl, hpk]; omega
  have h1 : ¬ m.length + 48 < SEALBYTES := by simp [SEALBYTES]
  have h2 : ¬ buf.length ≠ m.length + 48 - SEALBYTES := by simp [SEALBYTES]; omega
  unfold sealOpen
  simp only [hlen, h1, h2, if_false, ht, hd, boxOpenEasy_eq_openEasy, hk]
  rw [openEasy_sealed wf buf m _ _ (by omega), drop_length_eq_nil hbuf, List.append_nil]

theorem seal_roundtrip_boxPrims (rpk rsk esk m buf : Bytes) (hbuf : buf.length = m.length)
    (hdh : Spec.X25519.x25519 esk rpk = Spec.X25519.x25519 rsk (Spec.X25519.x25519Base esk)) :
    ∃ ct, boxSeal boxPrims (zeros (m.length + 48)) m rpk esk = .ok ct ∧ ct.length = m.length + 48 ∧
      ct.take 32 = Spec.X25519.x25519Base esk ∧
      sealOpen boxPrims buf ct rpk rsk = ⟨.ok (), m⟩ := by
  have hz : (zeros (m.length + 48)).length = m.length + 48 := by simp [zeros]
  have hg := boxSeal_eq (guard boxPrims) _ m rpk esk hz
  have hpk : ((guard boxPrims).dhBase esk).length = 32 := x25519Base_length esk
  refine ⟨_, by rw [← guard_boxSeal boxPrims boxPrims_h24_length]; exact hg, ?_, ?_, ?_⟩
  · rw [List.length_append, hpk,
      (combined_parts (sealTag_length boxPrims_guard_wf _ _ m)).2.2, cryptXor_length boxPrims_guard_wf]
    omega
  · exact List.take_left' hpk
  · rw [← guard_sealOpen boxPrims boxPrims_h24_length]
    exact open_seal_boxSeal_gen (guard boxPrims) boxPrims_guard_wf _ buf m rpk rsk esk _ hpk hdh hz hbuf hg

theorem objSeal_roundtrip_boxPrims (rpk rsk esk m : Bytes)
    (hdh : Spec.X25519.x25519 esk rpk = Spec.X25519.x25519 rsk (Spec.X25519.x25519Base esk)) :
    ∃ b, objSeal boxPrims m rpk esk = .ok b ∧ b.epk = some (Spec.X25519.x25519Base esk) ∧
      b.tag.length = 16 ∧ objUnseal boxPrims b rpk rsk = .ok m := by
  have hg := objSeal_eq (guard boxPrims) m rpk esk
  refine ⟨_, by rw [← guard_objSeal boxPrims boxPrims_h24_length]; exact hg, rfl,
    sealTag_length boxPrims_guard_wf _ _ m, ?_⟩
  rw [← guard_objUnseal boxPrims boxPrims_h24_length]
  have hk : beforenm (guard boxPrims) ((guard boxPrims).dhBase esk) rsk
      = beforenm (guard boxPrims) rpk esk := by
    show boxPrims.hsalsa (Spec.X25519.x25519 rsk (Spec.X25519.x25519Base esk)) _
      = boxPrims.hsalsa (Spec.X25519.x25519 esk rpk) _
    rw [hdh]
  simp only [objUnseal_eq, hk, sealTag_eq_expectedTag boxPrims_guard_wf, if_true,
    cryptXor_cryptXor boxPrims_guard_wf]

/-! ### over-long caller buffers: the trailing bytes are sealed as if they were message bytes -/

theorem detached_oversized (P : Prims) (ct m n k : Bytes) (h : m.length ≤ ct.length) :
    detached P ct m n k
      = .ok (cryptXor P k n (m ++ ct.drop m.length), sealTag P k n (m ++ ct.drop m.length)) := by
  have h1 : ¬ ct.length < m.length := by omega
  simp only [detached, h1, if_false, detachedInplace_eq]

theorem oversized_length (ct m : Bytes) (h : m.length ≤ ct.length) :
    (m ++ ct.drop m.length).length = ct.length := by
  rw [List.length_append, List.length_drop]; omega

theorem easy_oversized (P : Prims) (ct m n k : Bytes) (h : m.length + 16 ≤ ct.length) :
    easy P ct m n k
      = .ok (sealTag P k n (m ++ ct.drop (m.length + 16))
              ++ cryptXor P k n (m ++ ct.drop (m.length + 16))) := by
  have h1 : ¬ ct.length < MACBYTES := by simp [MACBYTES]; omega
  have h2 : m.length ≤ (ct.drop MACBYTES).length := by simp [MACBYTES]; omega
  have h3 : (ct.drop MACBYTES).drop m.length = ct.drop (m.length + 16) := by
    rw [List.drop_drop, MACBYTES]; congr 1; omega
  simp only [easy, h1, if_false, detached_oversized P _ m n k h2, h3]

theorem boxEasy_oversized (P : Prims) (ct m n pk sk : Bytes) (h : m.length + 16 ≤ ct.length) :
    boxEasy P ct m n pk sk
      = .ok (sealTag P (beforenm P pk sk) n (m ++ ct.drop (m.length + 16))
              ++ cryptXor P (beforenm P pk sk) n (m ++ ct.drop (m.length + 16))) := by
  rw [boxEasy_eq_easy P ct m n pk sk (by omega), easy_oversized P ct m n _ h]

theorem boxSeal_oversized (P : Prims) (ct m rpk esk : Bytes) (h : m.length + 48 ≤ ct.length) :
    boxSeal P ct m rpk esk
      = .ok (P.dhBase esk ++
          (sealTag P (beforenm P rpk esk) (sealNonce P (P.dhBase esk) rpk) (m ++ ct.drop (m.length + 48))
            ++ cryptXor P (beforenm P rpk esk) (sealNonce P (P.dhBase esk) rpk)
                (m ++ ct.drop (m.length + 48)))) := by
  have h1 : ¬ ct.length < m.length + SEALBYTES := by simp [SEALBYTES]; omega
  have h2 : m.length + 16 ≤ (ct.drop 32).length := by simp; omega
  have h3 : (ct.drop 32).drop (m.length + 16) = ct.drop (m.length + 48) := by
    rw [List.drop_drop]; congr 1; omega
  simp only [boxSeal, h1, if_false, boxEasy_oversized P _ m _ rpk esk h2, h3]

/-- the over-long call is the exactly sized call on the message extended by the trailing buffer bytes -/
theorem easy_oversized_eq_exact (P : Prims) (ct ct' m n k : Bytes) (h : m.length + 16 ≤ ct.length)
    (hct' : ct'.length = ct.length) :
    easy P ct m n k = easy P ct' (m ++ ct.drop (m.length + 16)) n k := by
  rw [easy_oversized P ct m n k h, easy_eq P ct' _ n k]
  rw [List.length_append, List.length_drop, hct']; omega

/-! ### … with the driver's primitives -/

theorem easy_oversized_boxPrims (ct m n k : Bytes) (h : m.length + 16 ≤ ct.length) :
    easy boxPrims ct m n k = .ok (Spec.NaCl.secretbox k n (m ++ ct.drop (m.length + 16))) := by
  rw [easy_oversized boxPrims ct m n k h, SecretBoxExtra.secretbox_eq]

theorem detached_oversized_boxPrims (ct m n k : Bytes) (h : m.length ≤ ct.length) :
    detached boxPrims ct m n k
      = .ok ((Spec.NaCl.secretbox k n (m ++ ct.drop m.length)).drop 16,
             (Spec.NaCl.secretbox k n (m ++ ct.drop m.length)).take 16) := by
  rw [detached_oversized boxPrims ct m n k h, SecretBoxExtra.secretbox_take, SecretBoxExtra.secretbox_drop]

theorem boxEasy_oversized_boxPrims (ct m n pk sk : Bytes) (h : m.length + 16 ≤ ct.length) :
    boxEasy boxPrims ct m n pk sk = .ok (Spec.NaCl.box pk sk n (m ++ ct.drop (m.length + 16))) := by
  rw [boxEasy_eq_easy boxPrims ct m n pk sk (by omega), easy_oversized_boxPrims ct m n _ h]
  rfl

theorem boxSeal_oversized_boxPrims (ct m rpk esk : Bytes) (h : m.length + 48 ≤ ct.length) :
    boxSeal boxPrims ct m rpk esk = .ok (Spec.NaCl.boxSeal rpk esk (m ++ ct.drop (m.length + 48))) := by
  rw [boxSeal_oversized boxPrims ct m rpk esk h, ← SecretBoxExtra.secretbox_eq]
  rfl

/-- length of NaCl's secretbox under a 24-byte nonce -/
theorem secretbox_length (k n m : Bytes) (hn : 24 ≤ n.length) :
    (Spec.NaCl.secretbox k n m).length = m.length + 16 := by
  rw [SecretBoxExtra.secretbox_eq, List.length_append, SecretBoxExtra.sealTag_boxPrims_length]
  have : cryptXor boxPrims k n m = cryptXor (guard boxPrims) k n m := by
    simp only [cryptXor, guard_stream boxPrims k n hn]
  rw [this, cryptXor_length boxPrims_guard_wf]
  omega

/-- a strictly over-long buffer does NOT receive NaCl's box of `m`: it receives a longer string -/
theorem easy_oversized_ne_spec_boxPrims (ct m n k : Bytes) (hn : 24 ≤ n.length)
    (h : m.length + 16 < ct.length) :
    easy boxPrims ct m n k ≠ .ok (Spec.NaCl.secretbox k n m) := by
  rw [easy_oversized_boxPrims ct m n k (by omega)]
  intro e
  injection e with e
  have := congrArg List.length e
  rw [secretbox_length _ _ _ hn, secretbox_length _ _ _ hn, List.length_append, List.length_drop] at this
  omega

theorem xorBytes_take (a b : Bytes) (l : Nat) : (xorBytes a b).take l = xorBytes (a.take l) (b.take l) := by
  unfold xorBytes
  exact List.take_zipWith

theorem xorBytes_take_right (a b : Bytes) : xorBytes a (b.take a.length) = xorBytes a b := by
  induction a generalizing b with
  | nil => simp [xorBytes]
  | cons x a ih =>
    cases b with
    | nil => simp [xorBytes]
    | cons y b =>
      have := ih b
      simp only [xorBytes, List.length_cons, List.take_succ_cons, List.zipWith_cons_cons] at this ⊢
      rw [this]

/-- … whose BODY starts with NaCl's ciphertext of `m` (prefix law of the key stream); the 16-byte tag in
front of it authenticates the trailing bytes too -/
theorem secretbox_oversized_body_prefix (k n m t : Bytes) (hn : 24 ≤ n.length) :
    ((Spec.NaCl.secretbox k n (m ++ t)).drop 16).take m.length = (Spec.NaCl.secretbox k n m).drop 16 := by
  rw [SecretBoxExtra.secretbox_drop, SecretBoxExtra.secretbox_drop, cryptXor_def, cryptXor_def,
    xorBytes_take, List.take_left' rfl]
  have hp := SecretBoxExtra.boxPrims_stream_prefix k n hn (32 + m.length) (32 + (m ++ t).length)
    (by rw [List.length_append]; omega)
  rw [← hp, List.drop_take, Nat.add_sub_cancel_left, xorBytes_take_right]

end DryocVerif.Proofs.SecretBoxExtra2
