import DryocVerif.Proofs.ProtectedStep2
/-
A generic preservation principle for properties of the MACHINE (kernel + oracle + counters) that do not look at the
slots: a property `Q` that every system-call wrapper and both allocator calls preserve — `dryoc_mlock` only when it
SUCCEEDS; after a failed lock only the weaker `Q'` is left — is preserved by every token whose outcome is neither
`err` nor `panic`, and `Q'` holds after any token.

Instances: `NoFF` (the oracle never answers `failFlagged`; `Q' = Q`), and the core-dump flag `DumpEq`
(`VM_DONTDUMP` = `VM_LOCKED`, page by page; `Q' = True`: a failed lock breaks it).
-/
namespace DryocVerif.Proofs.Protected
open DryocVerif DryocVerif.Model.Protected

/-- closed under the calls that cannot fail in the model -/
structure Closed0 (c : Cfg) (Q : Mach → Prop) : Prop where
  alloc : ∀ {m : Mach} (n : Nat), Q m → Q (alloc c m n).1
  dealloc : ∀ {m : Mach} (v : PVec), Q m → Q (dealloc c m v)
  mprotect : ∀ {m : Mach} (a l : Nat) (p : Perm), Q m → Q (dryocMprotect c m a l p)
  munlock : ∀ {m : Mach} (a l : Nat), Q m → Q (dryocMunlock c m a l)
  /-- `failfrom:K` -/
  setOracle : ∀ {m : Mach} (K : Int), Q m → Q { m with oracle := failOracle K, cnt := 0 }
  /-- the release log is irrelevant -/
  setRel : ∀ {m : Mach} (r : List (Nat × Nat)), Q m → Q { m with rel := r }

structure MachClosed (c : Cfg) (Q Q' : Mach → Prop) : Prop where
  q : Closed0 c Q
  q' : Closed0 c Q'
  weaken : ∀ {m : Mach}, Q m → Q' m
  mlock : ∀ {m : Mach} (a l : Nat), Q m → (dryocMlock c m a l).2 = true → Q (dryocMlock c m a l).1
  mlock' : ∀ {m : Mach} (a l : Nat), Q' m → Q' (dryocMlock c m a l).1

/-- a property that even a failed lock request preserves -/
theorem MachClosed.uniform {c : Cfg} {Q : Mach → Prop} (h : Closed0 c Q)
    (hm : ∀ {m : Mach} (a l : Nat), Q m → Q (dryocMlock c m a l).1) : MachClosed c Q Q :=
  ⟨h, h, id, fun a l hq _ => hm a l hq, hm⟩

theorem closed0_true (c : Cfg) : Closed0 c (fun _ => True) :=
  ⟨fun _ _ => trivial, fun _ _ => trivial, fun _ _ _ _ => trivial, fun _ _ _ => trivial, fun _ _ => trivial,
   fun _ _ => trivial⟩

/-- a property that only successful lock requests preserve -/
theorem MachClosed.ofSuccess {c : Cfg} {Q : Mach → Prop} (h : Closed0 c Q)
    (hm : ∀ {m : Mach} (a l : Nat), Q m → (dryocMlock c m a l).2 = true → Q (dryocMlock c m a l).1) :
    MachClosed c Q (fun _ => True) :=
  ⟨h, closed0_true c, fun _ => trivial, hm, fun _ _ _ => trivial⟩

section prim
variable {c : Cfg} {Q : Mach → Prop} (h : Closed0 c Q)
include h

theorem Closed0.on_vecDrop {m : Mach} (v : PVec) (hq : Q m) : Q (vecDrop c m v) := by
  unfold Model.Protected.vecDrop; split
  · exact hq
  · exact h.dealloc v hq

theorem Closed0.on_vecResize {m : Mach} (v : PVec) (n : Nat) (b : UInt8) (hq : Q m) : Q (vecResize c m v n b).1 := by
  unfold Model.Protected.vecResize; split
  · exact hq
  split
  · exact hq
  · exact h.on_vecDrop v (h.alloc _ hq)

theorem Closed0.on_vecClone {m : Mach} (v : PVec) (hq : Q m) : Q (vecClone c m v).1 := by
  unfold Model.Protected.vecClone; split
  · exact hq
  · exact h.alloc _ hq

theorem Closed0.on_newBytes {m : Mach} (hq : Q m) : Q (newBytes c m).1 := by
  unfold Model.Protected.newBytes; split
  · exact h.on_vecResize _ _ _ hq
  · exact hq

theorem Closed0.on_plainDrop {m : Mach} (v : PVec) (hq : Q m) : Q (plainDrop c m v) := h.on_vecDrop _ hq

theorem Closed0.on_protAtWipe {m : Mach} (v : PVec) (pm : PM) (hq : Q m) : Q (protAtWipe c m v pm) := by
  unfold Model.Protected.protAtWipe; split
  · exact hq
  · exact h.mprotect _ _ _ hq

theorem Closed0.on_protZeroize {m : Mach} (v : PVec) (lm : LM) (pm : PM) (hq : Q m) : Q (protZeroize c m v lm pm).1 := by
  unfold Model.Protected.protZeroize; simp only []; split
  · exact h.munlock _ _ (h.on_protAtWipe v pm hq)
  · exact h.on_protAtWipe v pm hq

theorem Closed0.on_protDrop {m : Mach} (v : PVec) (lm : LM) (pm : PM) (hq : Q m) : Q (protDrop c m v lm pm) :=
  h.on_plainDrop _ (h.on_protZeroize v lm pm hq)

theorem Closed0.on_objDrop {m : Mach} (o : Obj) (hq : Q m) : Q (objDrop c m o) := by
  unfold Model.Protected.objDrop; split
  · exact h.on_plainDrop _ hq
  · exact h.on_protDrop _ _ _ hq

theorem Closed0.on_seqFill (b : UInt8) (k : Nat) : ∀ r : Mach × PVec, Q r.1 → Q (seqFill c b k r).1 := by
  induction k with
  | zero => intro r hq; exact hq
  | succ k ih => intro r hq; simp only [Model.Protected.seqFill]; exact ih _ (h.on_vecResize _ _ _ hq)

theorem Closed0.on_dropAllM (slots : List Slot) : ∀ {m : Mach}, Q m → Q (dropAllM c m slots) := by
  induction slots with
  | nil => intro m hq; exact hq
  | cons sl rest ih =>
    intro m hq
    unfold Model.Protected.dropAllM
    split
    · exact ih hq
    · exact ih (h.on_objDrop _ hq)

theorem Closed0.on_finish (s : State) (hq : Q s.m) : Q (finish c s).m :=
  h.on_dropAllM _ (h.setRel [] hq)

end prim

section lock
variable {c : Cfg} {Q Q' : Mach → Prop} (h : MachClosed c Q Q')
include h

/-- outcome-indexed form: `Q` after success, `Q'` after failure -/
def MachClosed.After (_ : MachClosed c Q Q') (ok : Bool) (m : Mach) : Prop := if ok then Q m else Q' m

theorem MachClosed.on_lockV {m : Mach} (v : PVec) (rc : LM × PM) (hq : Q m) :
    h.After (lockV c m v rc).2 (lockV c m v rc).1 := by
  unfold Model.Protected.lockV MachClosed.After
  by_cases hr : (dryocMlock c m (ptr c v) v.len).2 = true
  · simp only [hr, if_true]; exact h.mlock _ _ hq hr
  · simp only [hr, Bool.false_eq_true, if_false]
    exact h.q'.on_protDrop _ _ _ (h.mlock' _ _ (h.weaken hq))

theorem MachClosed.on_lockV' {m : Mach} (v : PVec) (rc : LM × PM) (hq : Q' m) : Q' (lockV c m v rc).1 := by
  unfold Model.Protected.lockV
  simp only []; split
  · exact h.mlock' _ _ hq
  · exact h.q'.on_protDrop _ _ _ (h.mlock' _ _ hq)

theorem MachClosed.on_lockedResize {m : Mach} (v : PVec) (rc : LM × PM) (n : Nat) (b : UInt8) (hq : Q m) :
    h.After (lockedResize c m v rc n b).2.isSome (lockedResize c m v rc n b).1 := by
  have h1 := h.on_lockV (vecResize c m PVec.empty n b).2 recNew (h.q.on_vecResize PVec.empty n b hq)
  unfold Model.Protected.lockedResize
  unfold MachClosed.After at h1 ⊢
  by_cases hr : (lockV c (vecResize c m PVec.empty n b).1 (vecResize c m PVec.empty n b).2 recNew).2 = true
  · simp only [hr, if_true] at h1 ⊢
    simp only [Option.isSome_some, if_true]
    exact h.q.on_protDrop _ _ _ h1
  · simp only [hr, Bool.false_eq_true, if_false] at h1 ⊢
    simp only [Option.isSome_none, Bool.false_eq_true, if_false]
    exact h1

theorem MachClosed.on_lockedResize' {m : Mach} (v : PVec) (rc : LM × PM) (n : Nat) (b : UInt8) (hq : Q' m) :
    Q' (lockedResize c m v rc n b).1 := by
  have h1 := h.on_lockV' (vecResize c m PVec.empty n b).2 recNew (h.q'.on_vecResize PVec.empty n b hq)
  unfold Model.Protected.lockedResize
  simp only []; split
  · exact h.q'.on_protDrop _ _ _ h1
  · exact h1

theorem MachClosed.on_cloneLockedObj {m : Mach} (o : Obj) (ro : Bool) (hq : Q m) :
    h.After (cloneLockedObj c m o ro).2.isSome (cloneLockedObj c m o ro).1 := by
  have h1 := h.on_lockedResize PVec.empty (.locked, .rw) o.v.len 0 hq
  unfold Model.Protected.cloneLockedObj
  unfold MachClosed.After at h1 ⊢
  cases hn : (lockedResize c m PVec.empty (.locked, .rw) o.v.len).2 with
  | none =>
    simp only [hn, Option.isSome_none, Bool.false_eq_true, if_false] at h1 ⊢
    exact h1
  | some nv =>
    simp only [hn, Option.isSome_some, if_true] at h1 ⊢
    split
    · exact h.q.mprotect _ _ _ h1
    · exact h1

theorem MachClosed.on_cloneLockedObj' {m : Mach} (o : Obj) (ro : Bool) (hq : Q' m) : Q' (cloneLockedObj c m o ro).1 := by
  have h1 := h.on_lockedResize' PVec.empty (.locked, .rw) o.v.len 0 hq
  unfold Model.Protected.cloneLockedObj
  simp only []; split
  · exact h1
  · simp only []; split
    · exact h.q'.mprotect _ _ _ h1
    · exact h1

theorem MachClosed.on_cloneObj {m : Mach} (o : Obj) (hq : Q m) :
    ∀ r, cloneObj c m o = some r → h.After r.2.isSome r.1 := by
  intro r hr
  unfold Model.Protected.cloneObj at hr
  split at hr
  · simp only [Option.some.injEq] at hr; rw [← hr]; exact h.q.on_vecClone _ hq
  · simp only [Option.some.injEq] at hr; rw [← hr]; exact h.q.on_vecClone _ hq
  · simp only [Option.some.injEq] at hr; rw [← hr]; exact h.q.mprotect _ _ _ (h.q.on_vecClone _ hq)
  · split at hr
    · simp at hr
    · simp only [Option.some.injEq] at hr; rw [← hr]; exact h.on_cloneLockedObj _ _ hq
  · split at hr
    · simp at hr
    · simp only [Option.some.injEq] at hr; rw [← hr]; exact h.on_cloneLockedObj _ _ hq
  · simp at hr

theorem MachClosed.on_cloneObj' {m : Mach} (o : Obj) (hq : Q' m) : ∀ r, cloneObj c m o = some r → Q' r.1 := by
  intro r hr
  unfold Model.Protected.cloneObj at hr
  split at hr
  · simp only [Option.some.injEq] at hr; rw [← hr]; exact h.q'.on_vecClone _ hq
  · simp only [Option.some.injEq] at hr; rw [← hr]; exact h.q'.on_vecClone _ hq
  · simp only [Option.some.injEq] at hr; rw [← hr]; exact h.q'.mprotect _ _ _ (h.q'.on_vecClone _ hq)
  · split at hr
    · simp at hr
    · simp only [Option.some.injEq] at hr; rw [← hr]; exact h.on_cloneLockedObj' _ _ hq
  · split at hr
    · simp at hr
    · simp only [Option.some.injEq] at hr; rw [← hr]; exact h.on_cloneLockedObj' _ _ hq
  · simp at hr

/-! ### tokens -/

/-- what a token does to the machine property: `Q'` always; `Q` unless the outcome is `err` / `panic` -/
def MachClosed.TokP (_ : MachClosed c Q Q') (r : Res × State) : Prop :=
  Q' r.2.m ∧ (r.1 ≠ .err → r.1 ≠ .panic → Q r.2.m)

theorem MachClosed.tok_same {s : State} (hq : Q s.m) (x : Res) : h.TokP (x, s) := ⟨h.weaken hq, fun _ _ => hq⟩

theorem MachClosed.tok_q {r : Res × State} (hq : Q r.2.m) : h.TokP r := ⟨h.weaken hq, fun _ _ => hq⟩

theorem MachClosed.tok_withLive {s : State} (hq : Q s.m) (i : Nat) (g : Res) (f : Slot → Res × State)
    (hf : ∀ sl, h.TokP (f sl)) : h.TokP (withLive s i g f) := by
  apply withLive_elim _ _ _ _ (h.tok_same hq _) (h.tok_same hq _)
  intro sl _ _ _ _ _; exact hf sl

theorem MachClosed.on_doLock {s : State} (hq : Q s.m) (i : Nat) (sl : Slot) (rc : LM × PM) (pm : PM) :
    h.TokP (doLock c s i sl rc pm) := by
  have h1 := h.on_lockV sl.o.v rc hq
  unfold Model.Protected.doLock
  unfold MachClosed.After at h1
  by_cases hr : (Model.Protected.lockV c s.m sl.o.v rc).2 = true
  · simp only [hr, if_true] at h1 ⊢; exact h.tok_q h1
  · simp only [hr, Bool.false_eq_true, if_false] at h1 ⊢; exact ⟨h1, fun he => absurd rfl he⟩

theorem MachClosed.on_doNewLocked {s : State} {m : Mach} (hq : Q m) (v : PVec) (src : Option Bytes) (ro rnd : Bool) :
    h.TokP (doNewLocked c s m v src ro rnd) := by
  have h1 := h.on_lockV v recNew hq
  unfold Model.Protected.doNewLocked
  unfold MachClosed.After at h1
  by_cases hr : (Model.Protected.lockV c m v recNew).2 = true
  · simp only [hr, if_true] at h1 ⊢
    apply h.tok_q
    simp only [push]
    split
    · exact h.q.mprotect _ _ _ h1
    · exact h1
  · simp only [hr, Bool.false_eq_true, if_false] at h1 ⊢; exact ⟨h1, fun he => absurd rfl he⟩

theorem MachClosed.on_doCloneLocked {s : State} (hq : Q s.m) (sl : Slot) (ro : Bool) :
    h.TokP (doCloneLocked c s sl ro) := by
  have h1 := h.on_lockedResize PVec.empty (.locked, .rw) sl.o.v.len 0 hq
  unfold Model.Protected.doCloneLocked
  unfold MachClosed.After at h1
  cases hn : (Model.Protected.lockedResize c s.m PVec.empty (.locked, .rw) sl.o.v.len).2 with
  | none =>
    simp only [hn, Option.isSome_none, Bool.false_eq_true, if_false] at h1 ⊢
    exact ⟨h1, fun _ hp => absurd rfl hp⟩
  | some nv =>
    simp only [hn, Option.isSome_some, if_true] at h1 ⊢
    apply h.tok_q
    simp only [push]
    split
    · exact h.q.mprotect _ _ _ h1
    · exact h1

theorem MachClosed.on_doFromSlice {s : State} (hq : Q s.m) (n : Nat) (ro : Bool) : h.TokP (doFromSlice c s n ro) := by
  unfold Model.Protected.doFromSlice
  split
  · split
    · exact ⟨h.weaken hq, fun he => absurd rfl he⟩
    · exact h.on_doNewLocked (h.q.on_newBytes hq) _ _ _ _
  · exact h.on_doNewLocked (h.q.on_vecResize _ _ _ hq) _ _ _ _

theorem MachClosed.on_opNew {s : State} (hq : Q s.m) : h.TokP (opNew c s) := by
  unfold Model.Protected.opNew
  simp only []
  split
  · exact h.tok_q (h.q.on_newBytes hq)
  split
  · exact h.tok_q (h.q.on_plainDrop _ (h.q.on_newBytes hq))
  · exact h.tok_q (h.q.on_vecResize _ _ _ (h.q.on_newBytes hq))

theorem MachClosed.on_opCloneFrom {s : State} (hq : Q s.m) (i j : Nat) : h.TokP (opCloneFrom c s i j) := by
  unfold Model.Protected.opCloneFrom
  split
  · exact h.tok_same hq _
  split
  · rename_i d src _ _
    split
    · exact h.tok_same hq _
    split
    · cases hp : Model.Protected.cloneObj c s.m src.o with
      | none => exact h.tok_same hq _
      | some r1 =>
        have h1 := h.on_cloneObj src.o hq r1 hp
        obtain ⟨m1, ot⟩ := r1
        unfold MachClosed.After at h1
        cases ot with
        | none =>
          simp only [Option.isSome_none, Bool.false_eq_true, if_false] at h1 ⊢
          exact ⟨h1, fun _ hp => absurd rfl hp⟩
        | some tmp =>
          simp only [Option.isSome_some, if_true] at h1 ⊢
          cases hq2 : Model.Protected.cloneObj c m1 src.o with
          | none => exact h.tok_q (h.q.on_objDrop _ h1)
          | some r2 =>
            have h2 := h.on_cloneObj src.o h1 r2 hq2
            obtain ⟨m2, oo⟩ := r2
            unfold MachClosed.After at h2
            cases oo with
            | none =>
              simp only [Option.isSome_none, Bool.false_eq_true, if_false] at h2 ⊢
              exact ⟨h.q'.on_objDrop _ h2, fun _ hp => absurd rfl hp⟩
            | some o =>
              simp only [Option.isSome_some, if_true] at h2 ⊢
              exact h.tok_q (h.q.on_objDrop _ (h.q.on_objDrop _ h2))
    · cases hp : Model.Protected.cloneObj c s.m src.o with
      | none => exact h.tok_same hq _
      | some r1 =>
        have h1 := h.on_cloneObj src.o hq r1 hp
        obtain ⟨m1, oo⟩ := r1
        unfold MachClosed.After at h1
        cases oo with
        | none =>
          simp only [Option.isSome_none, Bool.false_eq_true, if_false] at h1 ⊢
          exact ⟨h1, fun _ hp => absurd rfl hp⟩
        | some o =>
          simp only [Option.isSome_some, if_true] at h1 ⊢
          exact h.tok_q (h.q.on_objDrop _ h1)
  · exact h.tok_same hq _

theorem MachClosed.on_doSerdeArrJson {s : State} (hq : Q s.m) (n : Nat) : h.TokP (doSerdeArrJson c s n) := by
  have h1 := h.on_lockV (newBytes c s.m).2 recNew (h.q.on_newBytes hq)
  unfold Model.Protected.doSerdeArrJson
  unfold MachClosed.After at h1
  by_cases hr : (Model.Protected.lockV c (newBytes c s.m).1 (newBytes c s.m).2 recNew).2 = true
  · simp only [hr, if_true] at h1 ⊢
    split
    · exact h.tok_q h1
    · exact ⟨h.weaken (h.q.on_protDrop _ _ _ h1), fun he => absurd rfl he⟩
  · simp only [hr, Bool.false_eq_true, if_false] at h1 ⊢; exact ⟨h1, fun he => absurd rfl he⟩

theorem MachClosed.on_opSerde {s : State} (hq : Q s.m) (json : Bool) (n : Nat) : h.TokP (opSerde c s json n) := by
  unfold Model.Protected.opSerde
  split
  · split
    · exact h.on_doSerdeArrJson hq n
    · exact h.on_doNewLocked (h.q.on_seqFill 0x5a n (s.m, PVec.empty) hq) _ _ _ _
  · exact h.on_doFromSlice hq n false

theorem MachClosed.on_stepCore {s : State} (hq : Q s.m) (t : Tok) : h.TokP (stepCore c s t) := by
  unfold Model.Protected.stepCore
  cases hop : t.op <;> simp only []
  case new => exact h.on_opNew hq
  case wrap => exact h.tok_same hq _
  case bad => exact h.tok_same hq _
  case failfrom K => exact h.tok_q (h.q.setOracle K hq)
  case fill b =>
    unfold opFill; apply h.tok_withLive hq; intro sl
    split
    · exact h.tok_q hq
    · exact h.tok_q hq
    · exact h.tok_same hq _
  case lock =>
    unfold opLock; apply h.tok_withLive hq; intro sl
    split
    · exact h.on_doLock hq _ _ _ _
    · exact h.on_doLock hq _ _ _ _
    · exact h.tok_same hq _
  case unlock =>
    unfold opUnlock; apply h.tok_withLive hq; intro sl
    split
    · exact h.tok_same hq _
    · exact h.tok_q (h.q.munlock _ _ hq)
  case ro =>
    unfold opProtect; apply h.tok_withLive hq; intro sl
    split
    · exact h.tok_same hq _
    · exact h.tok_q (h.q.mprotect _ _ _ hq)
  case rw =>
    unfold opProtect; apply h.tok_withLive hq; intro sl
    split
    · exact h.tok_same hq _
    · exact h.tok_q (h.q.mprotect _ _ _ hq)
  case na =>
    unfold opNa; apply h.tok_withLive hq; intro sl
    split
    · exact h.tok_q (h.q.mprotect _ _ _ hq)
    · exact h.tok_same hq _
  case clone =>
    unfold opClone; apply h.tok_withLive hq; intro sl
    split
    · exact h.tok_q (h.q.on_vecClone _ hq)
    · exact h.tok_q (h.q.on_vecClone _ hq)
    · exact h.tok_q (h.q.mprotect _ _ _ (h.q.on_vecClone _ hq))
    · split
      · exact h.tok_same hq _
      · exact h.on_doCloneLocked hq _ _
    · split
      · exact h.tok_same hq _
      · exact h.on_doCloneLocked hq _ _
    · exact h.tok_same hq _
  case resize n b =>
    unfold opResize; apply h.tok_withLive hq; intro sl
    split
    · exact h.tok_same hq _
    split
    · exact h.tok_q (h.q.on_vecResize _ _ _ hq)
    · exact h.tok_q (h.q.on_vecResize _ _ _ hq)
    · have h1 := h.on_lockedResize sl.o.v sl.o.rcd n b hq
      unfold MachClosed.After at h1
      cases hn : (Model.Protected.lockedResize c s.m sl.o.v sl.o.rcd n b).2 with
      | none =>
        simp only [hn, Option.isSome_none, Bool.false_eq_true, if_false] at h1 ⊢
        exact ⟨h1, fun _ hp => absurd rfl hp⟩
      | some nv =>
        simp only [hn, Option.isSome_some, if_true] at h1 ⊢
        exact h.tok_q h1
    · exact h.tok_same hq _
  case drop =>
    unfold opDrop; apply h.tok_withLive hq; intro sl
    exact h.tok_q (h.q.on_objDrop _ hq)
  case panicdrop =>
    unfold opDrop; apply h.tok_withLive hq; intro sl
    exact h.tok_q (h.q.on_objDrop _ hq)
  case fsl n => exact h.on_doFromSlice hq _ _
  case fsro n => exact h.on_doFromSlice hq _ _
  case newlocked => exact h.on_doNewLocked (h.q.on_newBytes hq) _ _ _ _
  case genlocked => exact h.on_doNewLocked (h.q.on_newBytes hq) _ _ _ _
  case newrolocked => exact h.on_doNewLocked (h.q.on_newBytes hq) _ _ _ _
  case genrolocked => exact h.on_doNewLocked (h.q.on_newBytes hq) _ _ _ _
  case wprobe off =>
    unfold opWProbe; apply h.tok_withLive hq; intro sl
    split
    · exact h.tok_same hq _
    · split <;> exact h.tok_same hq _
  case rprobe off =>
    unfold opRProbe; apply h.tok_withLive hq; intro sl
    split
    · exact h.tok_same hq _
    · split <;> exact h.tok_same hq _
  case gprobe f =>
    unfold opGProbe; apply h.tok_withLive hq; intro sl
    split
    · exact h.tok_same hq _
    · simp only []; repeat' split
      all_goals exact h.tok_same hq _
  case zeroize =>
    unfold opZeroize; apply h.tok_withLive hq; intro sl
    split
    · exact h.tok_q hq
    · exact h.tok_q (h.q.on_protZeroize _ _ _ hq)
  case clonefrom j => exact h.on_opCloneFrom hq _ _
  case stacklock =>
    unfold opStackLock
    split
    · exact h.on_doNewLocked (h.q.on_newBytes hq) _ _ _ _
    · exact h.tok_same hq _
  case serde js n => exact h.on_opSerde hq _ _

theorem MachClosed.on_step {s : State} (hq : Q s.m) (t : Tok) : h.TokP (step c s t) :=
  h.on_stepCore (s := resetRel s) (h.q.setRel [] hq) t

end lock

/-! ### instance: the oracle never answers `failFlagged` -/

theorem noFF_ofBool (f : Nat → Bool) (k : Kernel) (n : Nat) (r : List (Nat × Nat)) :
    NoFF ⟨k, n, (f : Nat → LockAns), r⟩ := by
  intro i; show LockAns.ofBool (f i) ≠ _; cases f i <;> simp [LockAns.ofBool]

theorem noFF_closed0 (c : Cfg) : Closed0 c NoFF where
  alloc := fun _ hq => noFF_of_oracle_eq (by simp) hq
  dealloc := fun _ hq => noFF_of_oracle_eq (by simp) hq
  mprotect := fun _ _ _ hq => noFF_of_oracle_eq (by simp) hq
  munlock := fun _ _ hq => noFF_of_oracle_eq (by simp) hq
  setOracle := fun K _ => noFF_ofBool _ _ _ _
  setRel := fun _ hq => hq

theorem noFF_closed (c : Cfg) : MachClosed c NoFF NoFF :=
  MachClosed.uniform (noFF_closed0 c) (fun _ _ hq => noFF_of_oracle_eq (by simp) hq)

/-- an oracle that never answers `failFlagged` stays one (`failfrom` installs a `Bool` oracle) -/
theorem noFF_step {c : Cfg} {s : State} (hq : NoFF s.m) (t : Tok) : NoFF (step c s t).2.m :=
  ((noFF_closed c).on_step hq t).1

theorem noFF_init (oracle : Nat → Bool) : NoFF (State.init oracle).m := noFF_ofBool _ _ _ _

end DryocVerif.Proofs.Protected
