import DryocVerif.Gen.Stream
import DryocVerif.Model.SecretStream
import DryocVerif.Model.SecretStreamRaw
import DryocVerif.Proofs.RawExtra
import DryocVerif.Proofs.StreamPushRawExtra
/-
The length guards of `crypto_secretstream_xchacha20poly1305_push` / `_pull` and the constants they compare with, as translated from
the source by `tools/rs2lean.py` on every run (`Gen/Stream.lean`), are the ones of the hand-written code-shaped model
(`Model/SecretStreamRaw.lean`), and they decide the `Err` of `pushRaw` / the length `Err`s of `pullRaw`.  An edit of the source such as
comparing with `CRYPTO_SECRETSTREAM_XCHACHA20POLY1305_MESSAGEBYTES_MAX` again (the code before fix E16), comparing
`ciphertext.len()` instead of `ciphertext.len() - ABYTES`, dropping or reordering a guard, or changing the value of
`KEYSTREAM_MESSAGEBYTES_MAX` changes the generated definitions and these equalities stop checking.  Core only.
-/
namespace DryocVerif.Proofs.GenStream
open DryocVerif DryocVerif.Model.SecretStream DryocVerif.Proofs.SecretStream

/-- the guards of `push` as translated: ciphertext-buffer size, then `message.len() > KEYSTREAM_MESSAGEBYTES_MAX` with the value
of the constant being the ChaCha20 crate's key-stream limit `STREAM_BODY_MAX = 64·(2^32 − 3)` -/
theorem push_guards_eq (ml cl : Nat) :
    Gen.Stream.push_guards ml cl = [decide (cl ≠ ml + 17), decide (ml > STREAM_BODY_MAX)] := by
  simp only [Gen.Stream.push_guards, STREAM_BODY_MAX_eq]

/-- the guards of `pull` as translated: `ciphertext.len() < ABYTES`, `message.len() < ciphertext.len() - ABYTES`,
`ciphertext.len() - ABYTES > KEYSTREAM_MESSAGEBYTES_MAX` — the MESSAGE length is compared, with the same bound as in `push` -/
theorem pull_guards_eq (ml cl : Nat) :
    Gen.Stream.pull_guards ml cl =
      [decide (cl < 17), decide (ml < cl - 17), decide (cl - 17 > STREAM_BODY_MAX)] := by
  simp only [Gen.Stream.pull_guards, STREAM_BODY_MAX_eq]

/-- the constants as translated: `KEYSTREAM_MESSAGEBYTES_MAX` (evaluated from `…_MESSAGEBYTES_MAX - 64`) is `STREAM_BODY_MAX`, the
public `…_MESSAGEBYTES_MAX` is libsodium's `64·(2^32 − 2)`, `…_ABYTES` is 17; and they are the constants of the total model -/
theorem constants_eq :
    Gen.Stream.constants.lookup "KEYSTREAM_MESSAGEBYTES_MAX" = some STREAM_BODY_MAX ∧
    Gen.Stream.constants.lookup "CRYPTO_SECRETSTREAM_XCHACHA20POLY1305_MESSAGEBYTES_MAX" = some MESSAGEBYTES_MAX_RAW ∧
    Gen.Stream.constants.lookup "CRYPTO_SECRETSTREAM_XCHACHA20POLY1305_ABYTES" = some ABYTES ∧
    Gen.Stream.constants.lookup "KEYSTREAM_MESSAGEBYTES_MAX" = some KEYSTREAM_MESSAGEBYTES_MAX ∧
    Gen.Stream.constants.lookup "CRYPTO_SECRETSTREAM_XCHACHA20POLY1305_MESSAGEBYTES_MAX" = some MESSAGEBYTES_MAX ∧
    Gen.Stream.constants.lookup "SODIUM_SIZE_MAX" = some SODIUM_SIZE_MAX := by
  decide

/-- **the `Err` of the code-shaped `push` is decided by the translated guards**: for every state, ciphertext buffer, message a
slice can hold (`message.len() + 17 < 2^64`), AD and tag byte, `pushRaw` returns `Err` iff one of the two translated guards is
true.  (`.err` has no other cause; without the slice-length hypothesis the model has one more outcome, the `usize` overflow panic
of `message.len() + ABYTES`, see `pushRaw_panic_iff`.  `WF P`: otherwise an `Ok` could be a panic, never an `Err`.) -/
theorem pushRaw_err_iff_guard (P : Prims) (hP : WF P) (s : State) (ct msg ad : Bytes) (tag : UInt8)
    (hm : msg.length + 17 < 2 ^ 64) :
    pushRaw P s ct msg ad tag = .err ↔ (Gen.Stream.push_guards msg.length ct.length).any id = true := by
  rw [pushRaw_eq_pushChecked P hP s ct msg ad tag hm, push_guards_eq]
  simp only [List.any_cons, List.any_nil, id, Bool.or_false, Bool.or_eq_true, decide_eq_true_eq]
  unfold pushChecked ABYTES
  rw [KEYSTREAM_MESSAGEBYTES_MAX_eq]
  by_cases h1 : ct.length ≠ msg.length + 17
  · rw [if_pos h1]; exact ⟨fun _ => Or.inl h1, fun _ => rfl⟩
  · rw [if_neg h1]
    by_cases h2 : msg.length > STREAM_BODY_MAX
    · rw [if_pos h2]; exact ⟨fun _ => Or.inr h2, fun _ => rfl⟩
    · rw [if_neg h2]
      have hl : ct.length = msg.length + 17 := by omega
      rw [hl, push_eq]
      constructor
      · intro h; cases h
      · rintro (h | h) <;> contradiction

/-- … and when no guard is true the result is `Ok` of what the total model computes -/
theorem pushRaw_no_guard_ok (P : Prims) (hP : WF P) (s : State) (ct msg ad : Bytes) (tag : UInt8)
    (h : (Gen.Stream.push_guards msg.length ct.length).any id = false) :
    pushRaw P s ct msg ad tag = push P s (msg.length + 17) msg ad tag ∧
      ∃ c s', pushRaw P s ct msg ad tag = .ok (c, s') := by
  rw [push_guards_eq] at h
  simp only [List.any_cons, List.any_nil, id, Bool.or_false, Bool.or_eq_false_iff, decide_eq_false_iff_not] at h
  have hl : ct.length = msg.length + 17 := by omega
  have e : pushRaw P s ct msg ad tag = push P s (msg.length + 17) msg ad tag := by
    rw [pushRaw_eq_push P hP s ct msg ad tag (by omega), hl]
  refine ⟨e, ?_⟩
  rw [e, push_eq]
  exact ⟨_, _, rfl⟩

/-- **the three length guards of the code-shaped `pull` are the translated ones** — for every state, message buffer, tag variable,
ciphertext (any length) and AD: if some translated guard is true the result is `Err` and nothing else has changed; if none is true
the result is the one of the body behind the guards (the total model `pull`, whose own copies of the first two guards then do not
fire: `pullRaw_no_guard_body`).  `pull` can also return `Err` from the body (authenticator mismatch), with the same untouched
buffers, so this — not an `iff` on the outcome — is the exact statement. -/
theorem pullRaw_length_err_iff_guard (P : Prims) (s : State) (m : Bytes) (tagv : UInt8) (ct ad : Bytes) :
    pullRaw P s m tagv ct ad =
      if (Gen.Stream.pull_guards m.length ct.length).any id = true then ⟨.err, m, tagv, s⟩
      else pull P s m tagv ct ad := by
  rw [pullRaw_eq_pullChecked, pull_guards_eq]
  simp only [List.any_cons, List.any_nil, id, Bool.or_false, Bool.or_eq_true, decide_eq_true_eq]
  unfold pullChecked ABYTES
  rw [KEYSTREAM_MESSAGEBYTES_MAX_eq]
  by_cases h1 : ct.length < 17
  · rw [if_pos h1, if_pos (Or.inl h1)]
  rw [if_neg h1]
  by_cases h2 : m.length < ct.length - 17
  · rw [if_pos h2, if_pos (Or.inr (Or.inl h2))]
  rw [if_neg h2]
  by_cases h3 : ct.length - 17 > STREAM_BODY_MAX
  · rw [if_pos h3, if_pos (Or.inr (Or.inr h3))]
  rw [if_neg h3, if_neg (by rintro (h | h | h) <;> contradiction)]

/-- some translated guard is true: `Err`, state, message buffer and tag variable untouched -/
theorem pullRaw_guard_err (P : Prims) (s : State) (m : Bytes) (tagv : UInt8) (ct ad : Bytes)
    (h : (Gen.Stream.pull_guards m.length ct.length).any id = true) :
    pullRaw P s m tagv ct ad = ⟨.err, m, tagv, s⟩ := by
  rw [pullRaw_length_err_iff_guard, if_pos h]

/-- no translated guard is true: the result is decided by the authenticator alone -/
theorem pullRaw_no_guard_body (P : Prims) (s : State) (m : Bytes) (tagv : UInt8) (ct ad : Bytes)
    (h : (Gen.Stream.pull_guards m.length ct.length).any id = false) :
    pullRaw P s m tagv ct ad =
      if ct.drop (1 + (ct.length - 17)) ≠ pullMac P s ct ad then ⟨.err, m, tagv, s⟩
      else ⟨.ok (ct.length - 17),
        xorBytes ((ct.drop 1).take (ct.length - 17)) (P.chacha s.k s.nonce 2 (ct.length - 17)) ++ m.drop (ct.length - 17),
        pullTag P s ct, advance P s (pullMac P s ct ad) (pullTag P s ct)⟩ := by
  rw [pullRaw_length_err_iff_guard, if_neg (by rw [h]; simp)]
  rw [pull_guards_eq] at h
  simp only [List.any_cons, List.any_nil, id, Bool.or_false, Bool.or_eq_false_iff, decide_eq_false_iff_not] at h
  rw [pull_eq, if_neg h.1, if_neg h.2.1]

/-! ### non-vacuity -/

/-- both sides of `pushRaw_err_iff_guard` on the toy instance: a right-sized buffer (no guard true, `Ok`), a wrong-sized one … -/
example : (Gen.Stream.push_guards 3 20).any id = false ∧ (Gen.Stream.push_guards 3 19).any id = true := by decide
example : pushRaw toyPrims toyState (zeros 20) [0x41, 0x42, 0x43] [] 0 ≠ .err ∧
    pushRaw toyPrims toyState (zeros 19) [0x41, 0x42, 0x43] [] 0 = .err := by decide
/-- … and a message one byte above the limit into a right-sized buffer: the SECOND guard alone is true (lengths only, nothing is
evaluated) -/
example : ∃ msg ct : Bytes, msg.length + 17 < 2 ^ 64 ∧
    Gen.Stream.push_guards msg.length ct.length = [false, true] :=
  ⟨List.replicate (STREAM_BODY_MAX + 1) 0, List.replicate (STREAM_BODY_MAX + 1 + 17) 0, by
    rw [List.length_replicate]; decide, by
    rw [List.length_replicate, List.length_replicate]; decide⟩

/-- `pullRaw_guard_err` / `pullRaw_no_guard_body`: each guard alone, and none, are inhabited -/
example : Gen.Stream.pull_guards 8 3 = [true, false, false] ∧ Gen.Stream.pull_guards 2 20 = [false, true, false] ∧
    Gen.Stream.pull_guards 3 20 = [false, false, false] := by decide
example : ∃ m ct : Bytes, Gen.Stream.pull_guards m.length ct.length = [false, false, true] :=
  ⟨List.replicate (STREAM_BODY_MAX + 1) 0, List.replicate (STREAM_BODY_MAX + 1 + 17) 0, by
    rw [List.length_replicate, List.length_replicate]; decide⟩

end DryocVerif.Proofs.GenStream
