import DryocVerif.Model.SecretStream
/-
Helper lemmas for C03 / C04 (secretstream model).  Core-only.
-/
namespace DryocVerif.Proofs.SecretStream
open DryocVerif DryocVerif.Model.Utils DryocVerif.Model.SecretStream

/-- length contracts of the primitive parameters -/
structure WF (P : Prims) : Prop where
  chacha_len : ∀ k n c l, (P.chacha k n c l).length = l
  mac_len : ∀ k m, (P.mac k m).length = 16

/-- the Rust `State { k: [u8;32], nonce: [u8;12] }` array lengths -/
structure StateWF (s : State) : Prop where
  k_len : s.k.length = 32
  nonce_len : s.nonce.length = 12

/-! ### bytes -/

theorem xor_cancel (a b : UInt8) : a ^^^ b ^^^ b = a := by
  rw [UInt8.xor_assoc, UInt8.xor_self, UInt8.xor_zero]

theorem xorBytes_length (a b : Bytes) : (xorBytes a b).length = min a.length b.length := by
  simp [xorBytes]

theorem xorBytes_nil_left (b : Bytes) : xorBytes [] b = [] := by simp [xorBytes]

theorem xorBytes_cons (x y : UInt8) (a b : Bytes) :
    xorBytes (x :: a) (y :: b) = (x ^^^ y) :: xorBytes a b := by simp [xorBytes]

theorem xorBytes_cancel : ∀ (a b : Bytes), a.length ≤ b.length → xorBytes (xorBytes a b) b = a
  | [], _, _ => by simp [xorBytes]
  | _ :: _, [], h => by simp at h
  | x :: a, y :: b, h => by
    have ih := xorBytes_cancel a b (by simpa using h)
    rw [xorBytes_cons, xorBytes_cons, ih, xor_cancel]

theorem zeros_length (n : Nat) : (zeros n).length = n := by simp [zeros]

theorem zeros_succ (n : Nat) : zeros (n + 1) = 0 :: zeros n := by simp [zeros, List.replicate_succ]

theorem xorBuf_length (out inp : Bytes) : (xorBuf out inp).length = out.length := by
  simp [xorBuf, xorBytes_length]; omega

/-! ### little-endian, increment (copied from C07 to keep this file light) -/

theorem mod_mul_aux (r x M : Nat) (hr : r < 256) (hM : 0 < M) :
    (r + 256 * x) % (256 * M) = r + 256 * (x % M) := by
  have h := Nat.div_add_mod x M
  have hlt : x % M < M := Nat.mod_lt _ hM
  have e : r + 256 * x = (r + 256 * (x % M)) + (256 * M) * (x / M) := by
    conv => lhs; rw [← h]
    rw [Nat.mul_add, Nat.mul_assoc]; omega
  rw [e, Nat.add_mul_mod_self_left]
  apply Nat.mod_eq_of_lt
  have : 256 * (x % M) + 256 ≤ 256 * M := by
    have := Nat.mul_le_mul_left 256 (Nat.succ_le_of_lt hlt)
    rw [Nat.mul_succ] at this; exact this
  omega

theorem incrementGo_spec (bs : Bytes) (c : Nat) (hc : c ≤ 1) :
    le (incrementGo c bs) = (le bs + c) % 256 ^ bs.length := by
  induction bs generalizing c with
  | nil => simp [incrementGo, le, Nat.mod_one]
  | cons b bs ih =>
    have hb := b.toNat_lt
    simp only [incrementGo, le, List.length_cons]
    have h1 : (c + b.toNat) >>> 8 ≤ 1 := by
      rw [Nat.shiftRight_eq_div_pow]; omega
    rw [ih _ h1]
    have h2 : (c + b.toNat) &&& 0xff = (c + b.toNat) % 256 := Nat.and_two_pow_sub_one_eq_mod _ 8
    rw [h2]
    have hs : (c + b.toNat) >>> 8 = (c + b.toNat) / 256 := by rw [Nat.shiftRight_eq_div_pow]
    rw [hs]
    have h3 : (UInt8.ofNat ((c + b.toNat) % 256)).toNat = (c + b.toNat) % 256 := by
      simp [UInt8.toNat_ofNat']
    rw [h3]
    have hp : 256 ^ (bs.length + 1) = 256 * 256 ^ bs.length := by rw [Nat.pow_succ, Nat.mul_comm]
    rw [hp]
    have hM : 0 < 256 ^ bs.length := Nat.pow_pos (by decide)
    rw [← mod_mul_aux _ _ _ (Nat.mod_lt _ (by decide)) hM]
    congr 1
    omega

theorem increment_spec (bs : Bytes) :
    le (incrementBytes bs) = (le bs + 1) % 256 ^ bs.length :=
  incrementGo_spec bs 1 (Nat.le_refl 1)

theorem incrementGo_length (bs : Bytes) (c : Nat) : (incrementGo c bs).length = bs.length := by
  induction bs generalizing c with
  | nil => rfl
  | cons b bs ih => simp [incrementGo, ih]

theorem incrementBytes_length (bs : Bytes) : (incrementBytes bs).length = bs.length :=
  incrementGo_length bs 1

theorem le_lt (bs : Bytes) : le bs < 256 ^ bs.length := by
  induction bs with
  | nil => simp [le]
  | cons b bs ih =>
    have hb := b.toNat_lt
    simp only [le, List.length_cons, Nat.pow_succ]
    omega

theorem le_eq_zero (bs : Bytes) (h : le bs = 0) : bs = zeros bs.length := by
  induction bs with
  | nil => simp [zeros]
  | cons b bs ih =>
    simp only [le] at h
    have hb : b.toNat = 0 := by omega
    have hr : le bs = 0 := by omega
    have : b = 0 := UInt8.toNat_inj.mp (by simpa using hb)
    rw [List.length_cons, zeros_succ, this, ← ih hr]

theorem le_zeros (n : Nat) : le (zeros n) = 0 := by
  induction n with
  | zero => simp [zeros, le]
  | succ n ih => rw [zeros_succ]; simp [le, ih]

theorem toLE_length (n v : Nat) : (toLE n v).length = n := by
  induction n generalizing v with
  | zero => simp [toLE]
  | succ n ih => simp [toLE, ih]

theorem le_toLE (n v : Nat) : le (toLE n v) = v % 256 ^ n := by
  induction n generalizing v with
  | zero => simp [toLE, le, Nat.mod_one]
  | succ n ih =>
    simp only [toLE, le, ih]
    have h3 : (UInt8.ofNat (v % 256)).toNat = v % 256 := by simp [UInt8.toNat_ofNat']
    rw [h3]
    have hp : 256 ^ (n + 1) = 256 * 256 ^ n := by rw [Nat.pow_succ, Nat.mul_comm]
    rw [hp]
    have hM : 0 < 256 ^ n := Nat.pow_pos (by decide)
    rw [← mod_mul_aux _ _ _ (Nat.mod_lt _ (by decide)) hM]
    congr 1
    omega

theorem toLE_inj (n a b : Nat) (ha : a < 256 ^ n) (hb : b < 256 ^ n) (h : toLE n a = toLE n b) : a = b := by
  have := congrArg le h
  rwa [le_toLE, le_toLE, Nat.mod_eq_of_lt ha, Nat.mod_eq_of_lt hb] at this


/-! ### padding formulas -/

theorem bufferMacPad_eq (n : Nat) : bufferMacPad n = n % 16 := by
  unfold bufferMacPad; omega

theorem pad16_eq (n : Nat) : pad16 n = (16 - n % 16) % 16 := by
  unfold pad16
  exact Nat.and_two_pow_sub_one_eq_mod _ 4

/-! ### state well-formedness -/

theorem counter_length (s : State) (hs : StateWF s) : s.counter.length = 4 := by
  simp [State.counter, hs.nonce_len]

theorem inonce_length (s : State) (hs : StateWF s) : s.inonce.length = 8 := by
  simp [State.inonce, hs.nonce_len]

theorem nonce_split (s : State) (hs : StateWF s) : s.nonce = s.counter ++ s.inonce := by
  unfold State.counter State.inonce
  have : (s.nonce.drop 4).length ≤ 8 := by simp [hs.nonce_len]
  rw [List.take_of_length_le this, List.take_append_drop]

theorem rekey_counter (P : Prims) (s : State) : (rekey P s).counter = [1, 0, 0, 0] := by
  simp [rekey, counterReset, State.counter]

theorem rekey_wf (P : Prims) (hP : WF P) (s : State) (hs : StateWF s) : StateWF (rekey P s) := by
  have hi := inonce_length s hs
  have hc := counter_length s hs
  constructor
  · simp [rekey, counterReset, xorBytes_length, hP.chacha_len, hs.k_len, hi]
  · simp [rekey, counterReset, xorBytes_length, hP.chacha_len, hs.k_len, hi, hc]

theorem advance_wf (P : Prims) (hP : WF P) (s : State) (hs : StateWF s) (mac : Bytes) (tag : UInt8) :
    StateWF (advance P s mac tag) := by
  have hi := inonce_length s hs
  have hc := counter_length s hs
  have h' : StateWF { s with nonce := incrementBytes s.counter ++ xorBuf s.inonce mac } :=
    ⟨hs.k_len, by simp [incrementBytes_length, xorBuf_length, hi, hc]⟩
  unfold advance
  simp only
  split
  · exact rekey_wf P hP _ h'
  · exact h'

theorem initState_wf (P : Prims) (header key : Bytes) (hh : 24 ≤ header.length)
    (hk : (P.hchacha key (header.take 16)).length = 32) : StateWF (initState P header key) :=
  ⟨hk, by simp [initState]; omega⟩

/-! ### counter epochs -/

theorem le_ff4 (c : Bytes) (hc : c.length = 4) :
    incrementBytes c = [0, 0, 0, 0] ↔ le c = 2 ^ 32 - 1 := by
  have hl := le_lt c
  have hs := increment_spec c
  rw [hc] at hl hs
  constructor
  · intro h
    rw [h] at hs
    simp [le] at hs
    omega
  · intro h
    have h0 : le (incrementBytes c) = 0 := by rw [hs, h]
    have := le_eq_zero _ h0
    rw [incrementBytes_length, hc] at this
    simpa [zeros] using this

theorem advance_counter (P : Prims) (s : State) (hs : StateWF s) (mac : Bytes) (tag : UInt8) :
    let s' := advance P s mac tag
    (tag.toNat &&& TAG_REKEY = TAG_REKEY ∨ le s.counter = 2 ^ 32 - 1 → s'.counter = [1, 0, 0, 0]) ∧
    (¬ (tag.toNat &&& TAG_REKEY = TAG_REKEY ∨ le s.counter = 2 ^ 32 - 1) →
      le s'.counter = le s.counter + 1 ∧ le s'.counter < 2 ^ 32 ∧ s'.counter ≠ [0, 0, 0, 0]) := by
  have hc := counter_length s hs
  have hff := le_ff4 s.counter hc
  have hl := le_lt s.counter
  have hsp := increment_spec s.counter
  rw [hc] at hl hsp
  intro s'
  show (_ → (advance P s mac tag).counter = _) ∧ (_ → le (advance P s mac tag).counter = _ ∧
    le (advance P s mac tag).counter < _ ∧ (advance P s mac tag).counter ≠ _)
  unfold advance
  simp only
  constructor
  · intro h
    rw [if_pos (h.imp id hff.mpr)]
    exact rekey_counter P _
  · intro h
    rw [if_neg (fun h' => h (h'.imp id hff.mp))]
    have hcnt : State.counter { s with nonce := incrementBytes s.counter ++ xorBuf s.inonce mac }
        = incrementBytes s.counter := by
      show List.take 4 (incrementBytes s.counter ++ xorBuf s.inonce mac) = _
      exact List.take_left' (by rw [incrementBytes_length, hc])
    rw [hcnt]
    have hne : le s.counter ≠ 2 ^ 32 - 1 := fun e => h (Or.inr e)
    have h1 : le (incrementBytes s.counter) = le s.counter + 1 := by
      rw [hsp]; apply Nat.mod_eq_of_lt; omega
    refine ⟨h1, by omega, ?_⟩
    intro e
    rw [e] at h1
    simp [le] at h1


/-! ### pull, decomposed -/

/-- the one-time Poly1305 key of the message at this stream position -/
def macKey (P : Prims) (s : State) : Bytes := P.chacha s.k s.nonce 0 32

/-- the 64-byte tag block exactly as `pull` reconstructs it from the first ciphertext byte -/
def pullBlock (P : Prims) (s : State) (ct : Bytes) : Bytes :=
  ct.take 1 ++ (xorBytes (ct.take 1 ++ zeros 63) (P.chacha s.k s.nonce 1 64)).drop 1

/-- the authenticator `pull` expects for `ct` under `ad` -/
def pullMac (P : Prims) (s : State) (ct ad : Bytes) : Bytes :=
  P.mac (macKey P s) (macInput ad (pullBlock P s ct) ((ct.drop 1).take (ct.length - 17)))

/-- the tag byte `pull` decrypts -/
def pullTag (P : Prims) (s : State) (ct : Bytes) : UInt8 :=
  (xorBytes (ct.take 1 ++ zeros 63) (P.chacha s.k s.nonce 1 64)).headD 0

theorem pull_eq (P : Prims) (s : State) (buf : Bytes) (tagv : UInt8) (ct ad : Bytes) :
    pull P s buf tagv ct ad =
      if ct.length < 17 then ⟨.err, buf, tagv, s⟩
      else if buf.length < ct.length - 17 then ⟨.err, buf, tagv, s⟩
      else if ct.drop (1 + (ct.length - 17)) ≠ pullMac P s ct ad then ⟨.err, buf, tagv, s⟩
      else ⟨.ok (ct.length - 17),
            xorBytes ((ct.drop 1).take (ct.length - 17)) (P.chacha s.k s.nonce 2 (ct.length - 17))
              ++ buf.drop (ct.length - 17),
            pullTag P s ct, advance P s (pullMac P s ct ad) (pullTag P s ct)⟩ := rfl

theorem pull_ok_iff (P : Prims) (s : State) (buf : Bytes) (tagv : UInt8) (ct ad : Bytes) (n : Nat) :
    (pull P s buf tagv ct ad).res = .ok n ↔
      17 ≤ ct.length ∧ n = ct.length - 17 ∧ n ≤ buf.length ∧ ct.drop (1 + n) = pullMac P s ct ad := by
  rw [pull_eq]
  constructor
  · intro h
    split at h
    · simp at h
    split at h
    · simp at h
    split at h
    · simp at h
    · simp only [Outcome.ok.injEq] at h
      subst h
      rename_i h1 h2 h3
      exact ⟨by omega, rfl, by omega, by simpa using h3⟩
  · rintro ⟨h1, rfl, h3, h4⟩
    rw [if_neg (by omega), if_neg (by omega), if_neg (by simpa using h4)]

theorem pull_err_iff (P : Prims) (s : State) (buf : Bytes) (tagv : UInt8) (ct ad : Bytes) :
    (pull P s buf tagv ct ad).res = .err ↔
      ¬ (17 ≤ ct.length ∧ ct.length - 17 ≤ buf.length ∧ ct.drop (1 + (ct.length - 17)) = pullMac P s ct ad) := by
  rw [pull_eq]
  split
  · simp; omega
  split
  · simp; omega
  split
  · rename_i h; simp; intro _ _; exact h
  · rename_i h1 h2 h3
    simp only [reduceCtorEq, false_iff, Classical.not_not]
    exact ⟨by omega, by omega, by simpa using h3⟩

theorem pull_ok_eq (P : Prims) (s : State) (buf : Bytes) (tagv : UInt8) (ct ad : Bytes)
    (h1 : 17 ≤ ct.length) (h2 : ct.length - 17 ≤ buf.length)
    (h3 : ct.drop (1 + (ct.length - 17)) = pullMac P s ct ad) :
    pull P s buf tagv ct ad =
      ⟨.ok (ct.length - 17),
        xorBytes ((ct.drop 1).take (ct.length - 17)) (P.chacha s.k s.nonce 2 (ct.length - 17))
          ++ buf.drop (ct.length - 17),
        pullTag P s ct, advance P s (pullMac P s ct ad) (pullTag P s ct)⟩ := by
  rw [pull_eq, if_neg (by omega), if_neg (by omega), if_neg (by simpa using h3)]

/-! ### push followed by pull -/

/-- first-block algebra: what `pull` recomputes from the first ciphertext byte is what `push` built -/
theorem block_roundtrip (tag : UInt8) (ks : Bytes) (hks : ks.length = 64) :
    let block := xorBytes (tag :: zeros 63) ks
    let dec := xorBytes (block.take 1 ++ zeros 63) ks
    block.length = 64 ∧ dec.headD 0 = tag ∧ block.take 1 ++ dec.drop 1 = block := by
  match ks, hks with
  | k0 :: r, hks =>
    intro block dec
    refine ⟨by simp [block, xorBytes_length, zeros_length, hks], ?_, ?_⟩
    · simp [dec, block, xorBytes_cons, xor_cancel]
    · simp [dec, block, xorBytes_cons]

theorem push_eq (P : Prims) (s : State) (m ad : Bytes) (tag : UInt8) :
    push P s (m.length + 17) m ad tag =
      let block := xorBytes (tag :: zeros 63) (P.chacha s.k s.nonce 1 64)
      let c := xorBytes m (P.chacha s.k s.nonce 2 m.length)
      let mac := P.mac (macKey P s) (macInput ad block c)
      .ok (block.take 1 ++ c ++ mac, advance P s mac tag) := by
  unfold push
  rw [if_neg (by simp [ABYTES])]
  rfl

theorem pull_push (P : Prims) (hP : WF P) (s : State) (m ad : Bytes) (tag : UInt8) (c : Bytes) (s' : State)
    (h : push P s (m.length + 17) m ad tag = .ok (c, s'))
    (buf : Bytes) (tagv : UInt8) (hb : m.length ≤ buf.length) :
    pull P s buf tagv c ad = ⟨.ok m.length, m ++ buf.drop m.length, tag, s'⟩ := by
  rw [push_eq] at h
  simp only [Outcome.ok.injEq, Prod.mk.injEq] at h
  obtain ⟨hc, hs'⟩ := h
  obtain ⟨hbl, hhd, hblk⟩ := block_roundtrip tag (P.chacha s.k s.nonce 1 64) (hP.chacha_len _ _ _ _)
  generalize hblock : xorBytes (tag :: zeros 63) (P.chacha s.k s.nonce 1 64) = block at *
  have hcl : (xorBytes m (P.chacha s.k s.nonce 2 m.length)).length = m.length := by
    rw [xorBytes_length, hP.chacha_len]; omega
  generalize hcc : xorBytes m (P.chacha s.k s.nonce 2 m.length) = cc at *
  have hml := hP.mac_len (macKey P s) (macInput ad block cc)
  generalize hmac : P.mac (macKey P s) (macInput ad block cc) = mac at *
  have hb1 : (block.take 1).length = 1 := by rw [List.length_take, hbl]; rfl
  have hlen : c.length = m.length + 17 := by
    rw [← hc]; simp only [List.length_append, hb1, hcl, hml]; omega
  have hn : c.length - 17 = m.length := by omega
  have ht1 : c.take 1 = block.take 1 := by
    rw [← hc, List.append_assoc]; exact List.take_left' hb1
  have hd1 : c.drop 1 = cc ++ mac := by
    rw [← hc, List.append_assoc]; exact List.drop_left' hb1
  have hcm : (c.drop 1).take (c.length - 17) = cc := by
    rw [hd1, hn]; exact List.take_left' hcl
  have hdm : c.drop (1 + (c.length - 17)) = mac := by
    rw [hn, ← List.drop_drop, hd1]; exact List.drop_left' hcl
  have hpb : pullBlock P s c = block := by
    unfold pullBlock; rw [ht1]; exact hblk
  have hpt : pullTag P s c = tag := by
    unfold pullTag; rw [ht1]; exact hhd
  have hpm : pullMac P s c ad = mac := by
    unfold pullMac; rw [hpb, hcm]; exact hmac
  rw [pull_ok_eq P s buf tagv c ad (by omega) (by omega) (by rw [hdm, hpm])]
  rw [hpt, hpm, hcm, hn, ← hcc, xorBytes_cancel _ _ (by rw [hP.chacha_len]; omega), hs']


/-! ### the MAC input is an injective encoding -/

theorem macInput_injective (ad block c ad' block' c' : Bytes)
    (hb : block.length = 64) (hb' : block'.length = 64)
    (had : ad.length < 2 ^ 64) (had' : ad'.length < 2 ^ 64)
    (hc : 64 + c.length < 2 ^ 64) (hc' : 64 + c'.length < 2 ^ 64)
    (h : macInput ad block c = macInput ad' block' c') :
    ad = ad' ∧ block = block' ∧ c = c' := by
  unfold macInput at h
  -- peel the two length words
  obtain ⟨h, hL2⟩ := List.append_inj' h (by rw [toLE_length, toLE_length])
  obtain ⟨h, hL1⟩ := List.append_inj' h (by rw [toLE_length, toLE_length])
  have hcl : c.length = c'.length := by
    have := toLE_inj 8 _ _ hc hc' hL2
    omega
  have hal : ad.length = ad'.length := toLE_inj 8 _ _ had had' hL1
  -- now everything splits by length
  obtain ⟨h, _⟩ := List.append_inj' h (by rw [zeros_length, zeros_length, hcl])
  obtain ⟨h, hcc⟩ := List.append_inj' h hcl
  obtain ⟨h, hbb⟩ := List.append_inj' h (by rw [hb, hb'])
  obtain ⟨haa, _⟩ := List.append_inj h hal
  exact ⟨haa, hbb, hcc⟩

/-! ### tampering with the authenticator -/

theorem tag_tamper_rejected (P : Prims) (s : State) (buf : Bytes) (tagv : UInt8) (ct ad : Bytes) (n : Nat)
    (hok : (pull P s buf tagv ct ad).res = .ok n)
    (t : Bytes) (htl : t.length = 16) (hne : t ≠ ct.drop (ct.length - 16)) (buf' : Bytes) (tagv' : UInt8) :
    (pull P s buf' tagv' (ct.take (ct.length - 16) ++ t) ad).res = .err := by
  obtain ⟨h1, rfl, _, h4⟩ := (pull_ok_iff P s buf tagv ct ad _).mp hok
  have e16 : 1 + (ct.length - 17) = ct.length - 16 := by omega
  rw [e16] at h4
  generalize hct' : ct.take (ct.length - 16) ++ t = ct'
  have hpl : (ct.take (ct.length - 16)).length = ct.length - 16 := by
    rw [List.length_take]; omega
  have hlen : ct'.length = ct.length := by
    rw [← hct', List.length_append, hpl, htl]; omega
  have ht1 : ct'.take 1 = ct.take 1 := by
    rw [← hct', List.take_append_of_le_length (by rw [hpl]; omega), List.take_take]
    congr 1; omega
  have hd : (ct'.drop 1).take (ct'.length - 17) = (ct.drop 1).take (ct.length - 17) := by
    rw [hlen, List.take_drop, List.take_drop, e16, ← hct', List.take_left' hpl]
  have hpm : pullMac P s ct' ad = pullMac P s ct ad := by
    unfold pullMac pullBlock; rw [hd, ht1]
  have hdr : ct'.drop (1 + (ct'.length - 17)) = t := by
    rw [hlen, e16, ← hct']; exact List.drop_left' hpl
  rw [pull_err_iff]
  rintro ⟨_, _, h⟩
  rw [hdr, hpm, ← h4] at h
  exact hne h


/-! ### object layer -/

theorem push_ct_length (P : Prims) (hP : WF P) (s : State) (m ad : Bytes) (tag : UInt8) (c : Bytes) (s' : State)
    (h : push P s (m.length + 17) m ad tag = .ok (c, s')) : c.length = m.length + 17 := by
  rw [push_eq] at h
  simp only [Outcome.ok.injEq, Prod.mk.injEq] at h
  rw [← h.1]
  simp only [List.length_append, List.length_take, xorBytes_length, hP.chacha_len, hP.mac_len,
    List.length_cons, zeros_length]
  omega

theorem objPull_objPush (P : Prims) (hP : WF P) (s : State) (m ad : Bytes) (tag : UInt8) (c : Bytes) (s' : State)
    (h : objPush P s m ad tag = .ok (c, s')) : objPull P s c ad = (.ok (m, tag), s') := by
  unfold objPush ABYTES at h
  have hl := push_ct_length P hP s m ad tag c s' h
  have hp := pull_push P hP s m ad tag c s' h (zeros (c.length - 17)) 0 (by rw [zeros_length]; omega)
  unfold objPull ABYTES
  rw [if_neg (by omega), hp]
  have : c.length - 17 = m.length := by omega
  simp [this, zeros]

theorem objPull_cases (P : Prims) (s : State) (ct ad : Bytes) :
    objPull P s ct ad = (.err, s) ∨
      ∃ r : Pulled, r = pull P s (zeros (ct.length - 17)) 0 ct ad ∧ r.res = .ok (ct.length - 17) ∧
        objPull P s ct ad = (.ok (r.buf, r.tag), r.st) := by
  unfold objPull ABYTES
  split
  · exact Or.inl rfl
  · simp only
    split
    · rename_i n h
      have := (pull_ok_iff P s _ _ _ _ _).mp h
      exact Or.inr ⟨_, rfl, this.2.1 ▸ h, rfl⟩
    · exact Or.inl rfl
    · rename_i h
      rw [pull_eq] at h
      split at h
      · simp at h
      split at h
      · simp at h
      split at h <;> simp at h

end DryocVerif.Proofs.SecretStream
