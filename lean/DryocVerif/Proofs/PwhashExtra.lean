import DryocVerif.Model.PwhashApi
import DryocVerif.Proofs.Argon2Spec
import DryocVerif.Proofs.PwhashStr
/-
Helper lemmas for the strengthened C09 / C10 statements: totality of `crypto_pwhash`, the object
API's `verify`, the producer `crypto_pwhash_str`, the code-shaped `from_string`/`to_string` and
`from_string`/`verify` routes, and the instance of the string layer with the project's Argon2
model.  Core Lean only.
-/
namespace DryocVerif.Proofs.PwhashExtra
open DryocVerif DryocVerif.Model.Argon2 DryocVerif.Model.PwhashStr DryocVerif.Proofs.Argon2

/-! ### `crypto_pwhash`: total on the documented domain -/

theorem cryptoPwhash_spec {outlen : Nat} {pwd salt : Bytes} {opslimit memlimit alg : Nat}
    (halg : alg = 1 ∨ alg = 2)
    (hv : PwhashValid outlen pwd.length salt.length opslimit memlimit)
    (hout : outlen < 0xFFFFFFFF) (h7 : 7 * (memlimit / 1024 / 4) < 2 ^ 32 + 3) :
    cryptoPwhash outlen pwd salt opslimit memlimit alg
      = .ok (Spec.Argon2.argon2 alg pwd salt [] [] opslimit (memlimit / 1024) 1 outlen) := by
  rw [cryptoPwhash_ok halg hv hout h7,
    argon2HashN_eq_spec pwd salt none none outlen halg (by decide) (by decide)
      (by have := hv.mem_ge; omega) (by have := hv.mem_le; omega)]
  rfl

/-- on the documented domain `crypto_pwhash` is a total function: the RFC tag on `PwhashValid`,
`Err` off it — never a panic -/
theorem cryptoPwhash_total {outlen : Nat} {pwd salt : Bytes} {opslimit memlimit alg : Nat}
    (halg : alg = 1 ∨ alg = 2) (hout : outlen < 0xFFFFFFFF)
    (h7 : 7 * (memlimit / 1024 / 4) < 2 ^ 32 + 3) :
    (PwhashValid outlen pwd.length salt.length opslimit memlimit ∧
      cryptoPwhash outlen pwd salt opslimit memlimit alg
        = .ok (Spec.Argon2.argon2 alg pwd salt [] [] opslimit (memlimit / 1024) 1 outlen)) ∨
    (¬ PwhashValid outlen pwd.length salt.length opslimit memlimit ∧
      cryptoPwhash outlen pwd salt opslimit memlimit alg = .err) := by
  by_cases hv : PwhashValid outlen pwd.length salt.length opslimit memlimit
  · exact .inl ⟨hv, cryptoPwhash_spec halg hv hout h7⟩
  · exact .inr ⟨hv, cryptoPwhash_err halg hv⟩

theorem cryptoPwhash_ne_panic {outlen : Nat} {pwd salt : Bytes} {opslimit memlimit alg : Nat}
    (halg : alg = 1 ∨ alg = 2) (hout : outlen < 0xFFFFFFFF)
    (h7 : 7 * (memlimit / 1024 / 4) < 2 ^ 32 + 3) :
    cryptoPwhash outlen pwd salt opslimit memlimit alg ≠ .panic := by
  rcases cryptoPwhash_total (pwd := pwd) (salt := salt) (opslimit := opslimit) halg hout h7 with
    ⟨_, e⟩ | ⟨_, e⟩ <;> rw [e] <;> simp

/-! ### output lengths -/

theorem hprimeChain_length (r last : Nat) (v : Bytes) (hl : last ≤ 64) :
    (Spec.Argon2.hprimeChain r last v).length = 32 * r + last := by
  induction r generalizing v with
  | zero => simp [Spec.Argon2.hprimeChain, hash_length _ _ _ hl]
  | succ r ih =>
    simp only [Spec.Argon2.hprimeChain, List.length_append, List.length_take,
      hash_length 64 _ _ (Nat.le_refl _), ih]
    omega

/-- `H'` returns exactly the requested number of bytes -/
theorem hprime_length (outlen : Nat) (inp : Bytes) : (Spec.Argon2.hprime outlen inp).length = outlen := by
  unfold Spec.Argon2.hprime
  by_cases h64 : outlen ≤ 64
  · rw [if_pos h64]; exact hash_length _ _ _ h64
  · rw [if_neg h64]
    obtain ⟨a1, a2, a3, a4, a5, a6, a7, a8⟩ := longhash_arith outlen (by omega)
    simp only [List.length_append, List.length_take, hash_length 64 _ _ (Nat.le_refl _)]
    rw [hprimeChain_length _ _ _ a8]
    omega

theorem argon2HashN_length (ty t m p : Nat) (pwd salt : Bytes) (secret ad : Option Bytes) (outlen : Nat) :
    (argon2HashN ty t m p pwd salt secret ad outlen).length = outlen := by
  unfold argon2HashN
  exact hprime_length _ _

theorem spec_argon2_length (ty : Nat) (pwd salt secret ad : Bytes) (t m p outlen : Nat) :
    (Spec.Argon2.argon2 ty pwd salt secret ad t m p outlen).length = outlen := by
  unfold Spec.Argon2.argon2
  exact hprime_length _ _

/-! ### `PwHash::verify` -/

theorem objVerify_iff (hash salt : Bytes) (hashLength opslimit memlimit alg : Nat) (pwd : Bytes) :
    objVerify hash salt hashLength opslimit memlimit alg pwd = .ok () ↔
      cryptoPwhash hashLength pwd salt opslimit memlimit alg = .ok hash := by
  unfold objVerify objHashWithSalt
  cases h : cryptoPwhash hashLength pwd salt opslimit memlimit alg with
  | ok c =>
    by_cases hc : hash = c
    · simp [hc]
    · have : c ≠ hash := fun e => hc e.symm
      simp [hc, this]
  | err => simp
  | panic => simp

theorem objVerify_err_iff (hash salt : Bytes) (hashLength opslimit memlimit alg : Nat) (pwd : Bytes) :
    objVerify hash salt hashLength opslimit memlimit alg pwd = .err ↔
      cryptoPwhash hashLength pwd salt opslimit memlimit alg = .err ∨
      ∃ c, cryptoPwhash hashLength pwd salt opslimit memlimit alg = .ok c ∧ c ≠ hash := by
  unfold objVerify objHashWithSalt
  cases h : cryptoPwhash hashLength pwd salt opslimit memlimit alg with
  | ok c =>
    by_cases hc : hash = c
    · simp [hc]
    · have : c ≠ hash := fun e => hc e.symm
      simp [hc, this]
  | err => simp
  | panic => simp

theorem objVerify_panic_iff (hash salt : Bytes) (hashLength opslimit memlimit alg : Nat) (pwd : Bytes) :
    objVerify hash salt hashLength opslimit memlimit alg pwd = .panic ↔
      cryptoPwhash hashLength pwd salt opslimit memlimit alg = .panic := by
  unfold objVerify objHashWithSalt
  cases h : cryptoPwhash hashLength pwd salt opslimit memlimit alg with
  | ok c => by_cases hc : hash = c <;> simp [hc]
  | err => simp
  | panic => simp

/-! ### `crypto_pwhash_str` -/

/-- `crypto_pwhash_str` unfolded: the two range checks, then Argon2id with
`(t, m) = (opslimit, memlimit / 1024)`, one lane, 32 output bytes, then the encoder -/
theorem pwhashStr_eq (argon2 : Argon2Fn) (pwd salt : Bytes) (opslimit memlimit : Nat) :
    pwhashStr argon2 pwd salt opslimit memlimit =
      if (1 ≤ opslimit ∧ opslimit ≤ 4294967295) then
        if (8192 ≤ memlimit ∧ memlimit ≤ 4398046510080) then
          match argon2 2 opslimit (memlimit / 1024) 1 pwd salt 32 with
          | .ok hash => .ok (encode .argon2id opslimit (memlimit / 1024) salt hash)
          | .err => .err
          | .panic => .panic
        else .err
      else .err := by
  unfold pwhashStr
  simp only [CRYPTO_PWHASH_OPSLIMIT_MIN, CRYPTO_PWHASH_OPSLIMIT_MAX, CRYPTO_PWHASH_MEMLIMIT_MIN,
    CRYPTO_PWHASH_MEMLIMIT_MAX]
  rw [validateRange_eq, validateRange_eq, ite_unit_bind]
  by_cases h1 : 1 ≤ opslimit ∧ opslimit ≤ 4294967295
  · rw [if_pos h1, if_pos h1, ite_unit_bind]
    by_cases h2 : 8192 ≤ memlimit ∧ memlimit ≤ 4398046510080
    · rw [if_pos h2, if_pos h2, convertCosts_eq h1.2 h2.2]
      show (argon2 2 opslimit (memlimit / 1024) 1 pwd salt 32 >>= fun hash =>
        pure (encode .argon2id opslimit (memlimit / 1024) salt hash)) = _
      cases argon2 2 opslimit (memlimit / 1024) 1 pwd salt 32 <;> rfl
    · rw [if_neg h2, if_neg h2]
  · rw [if_neg h1, if_neg h1]

/-- what a successful `crypto_pwhash_str` returned, exactly -/
theorem pwhashStr_ok_iff (argon2 : Argon2Fn) (pwd salt : Bytes) (opslimit memlimit : Nat) (s : Str) :
    pwhashStr argon2 pwd salt opslimit memlimit = .ok s ↔
      (1 ≤ opslimit ∧ opslimit ≤ 4294967295) ∧ (8192 ≤ memlimit ∧ memlimit ≤ 4398046510080) ∧
      ∃ hash, argon2 2 opslimit (memlimit / 1024) 1 pwd salt 32 = .ok hash ∧
        s = encode .argon2id opslimit (memlimit / 1024) salt hash := by
  rw [pwhashStr_eq]
  by_cases h1 : 1 ≤ opslimit ∧ opslimit ≤ 4294967295
  · by_cases h2 : 8192 ≤ memlimit ∧ memlimit ≤ 4398046510080
    · rw [if_pos h1, if_pos h2]
      cases h : argon2 2 opslimit (memlimit / 1024) 1 pwd salt 32 with
      | ok c =>
        simp only [Outcome.ok.injEq, h1, h2, true_and, and_self]
        constructor
        · intro e; exact ⟨c, rfl, e.symm⟩
        · rintro ⟨c', e1, e2⟩; subst e1; exact e2.symm
      | err => simp
      | panic => simp
    · rw [if_pos h1, if_neg h2]; simp [h2]
  · rw [if_neg h1]; simp [h1]

theorem pwhashStr_err_iff (argon2 : Argon2Fn) (pwd salt : Bytes) (opslimit memlimit : Nat) :
    pwhashStr argon2 pwd salt opslimit memlimit = .err ↔
      ¬ ((1 ≤ opslimit ∧ opslimit ≤ 4294967295) ∧ (8192 ≤ memlimit ∧ memlimit ≤ 4398046510080)) ∨
      argon2 2 opslimit (memlimit / 1024) 1 pwd salt 32 = .err := by
  rw [pwhashStr_eq]
  by_cases h1 : 1 ≤ opslimit ∧ opslimit ≤ 4294967295
  · by_cases h2 : 8192 ≤ memlimit ∧ memlimit ≤ 4398046510080
    · rw [if_pos h1, if_pos h2]
      cases h : argon2 2 opslimit (memlimit / 1024) 1 pwd salt 32 <;> simp [h1, h2]
    · rw [if_pos h1, if_neg h2]; simp [h2]
  · rw [if_neg h1]; simp [h1]

theorem pwhashStr_panic_iff (argon2 : Argon2Fn) (pwd salt : Bytes) (opslimit memlimit : Nat) :
    pwhashStr argon2 pwd salt opslimit memlimit = .panic ↔
      ((1 ≤ opslimit ∧ opslimit ≤ 4294967295) ∧ (8192 ≤ memlimit ∧ memlimit ≤ 4398046510080)) ∧
      argon2 2 opslimit (memlimit / 1024) 1 pwd salt 32 = .panic := by
  rw [pwhashStr_eq]
  by_cases h1 : 1 ≤ opslimit ∧ opslimit ≤ 4294967295
  · by_cases h2 : 8192 ≤ memlimit ∧ memlimit ≤ 4398046510080
    · rw [if_pos h1, if_pos h2]
      cases h : argon2 2 opslimit (memlimit / 1024) 1 pwd salt 32 <;> simp [h1, h2]
    · rw [if_pos h1, if_neg h2]; simp [h2]
  · rw [if_neg h1]; simp [h1]

/-- the record a `crypto_pwhash_str` output parses to -/
def producedRecord (opslimit memlimit : Nat) (salt hash : Bytes) : Parsed :=
  { pwhash := some hash, salt := some salt, ty := some .argon2id, t := some opslimit,
    m := some (memlimit / 1024), p := some 1, version := some 19 }

/-- (a) self-describing: the string parses to exactly the algorithm, costs, salt and hash used -/
theorem pwhashStr_parse {argon2 : Argon2Fn} {pwd salt : Bytes} {opslimit memlimit : Nat} {s : Str}
    (hs : salt ≠ [])
    (hne : ∀ h, argon2 2 opslimit (memlimit / 1024) 1 pwd salt 32 = .ok h → h ≠ [])
    (h : pwhashStr argon2 pwd salt opslimit memlimit = .ok s) :
    ∃ hash, argon2 2 opslimit (memlimit / 1024) 1 pwd salt 32 = .ok hash ∧
      s = encode .argon2id opslimit (memlimit / 1024) salt hash ∧
      parse s = .ok (producedRecord opslimit memlimit salt hash) := by
  obtain ⟨h1, h2, hash, ha, rfl⟩ := (pwhashStr_ok_iff ..).1 h
  exact ⟨hash, ha, rfl, parse_encode .argon2id opslimit (memlimit / 1024) salt hash (by omega)
    (by omega) hs (hne hash ha)⟩

/-- `strVerify` on a string with known parse -/
theorem strVerify_of_parse {argon2 : Argon2Fn} {s : Str} {ty : Alg} {t m : Nat} {salt hash : Bytes}
    (pwd : Bytes)
    (hp : parse s = .ok { pwhash := some hash, salt := some salt, ty := some ty, t := some t,
                          m := some m, p := some 1, version := some 19 }) :
    strVerify argon2 s pwd = .ok () ↔ argon2 ty.num t m 1 pwd salt 32 = .ok hash := by
  unfold strVerify
  rw [hp]
  simp only
  cases h : argon2 ty.num t m 1 pwd salt 32 with
  | ok c => by_cases hc : c = hash <;> simp [hc]
  | err => simp
  | panic => simp

/-- (c) for *any* candidate password: accepted iff Argon2 reproduces the recorded hash -/
theorem pwhashStr_verify_iff {argon2 : Argon2Fn} {pwd salt : Bytes} {opslimit memlimit : Nat} {s : Str}
    (hs : salt ≠ [])
    (hne : ∀ h, argon2 2 opslimit (memlimit / 1024) 1 pwd salt 32 = .ok h → h ≠ [])
    (h : pwhashStr argon2 pwd salt opslimit memlimit = .ok s) (pwd' : Bytes) :
    strVerify argon2 s pwd' = .ok () ↔
      argon2 2 opslimit (memlimit / 1024) 1 pwd' salt 32
        = argon2 2 opslimit (memlimit / 1024) 1 pwd salt 32 := by
  obtain ⟨hash, ha, _, hp⟩ := pwhashStr_parse hs hne h
  rw [strVerify_of_parse pwd' hp, ha]
  rfl

/-- (b) the password that was hashed verifies -/
theorem pwhashStr_verify {argon2 : Argon2Fn} {pwd salt : Bytes} {opslimit memlimit : Nat} {s : Str}
    (hs : salt ≠ [])
    (hne : ∀ h, argon2 2 opslimit (memlimit / 1024) 1 pwd salt 32 = .ok h → h ≠ [])
    (h : pwhashStr argon2 pwd salt opslimit memlimit = .ok s) :
    strVerify argon2 s pwd = .ok () :=
  (pwhashStr_verify_iff hs hne h pwd).2 rfl

/-- (d) `needs_rehash` against arbitrary limits: "some cost differs after `convert_costs`" -/
theorem pwhashStr_needsRehash {argon2 : Argon2Fn} {pwd salt : Bytes} {opslimit memlimit : Nat} {s : Str}
    (hs : salt ≠ [])
    (hne : ∀ h, argon2 2 opslimit (memlimit / 1024) 1 pwd salt 32 = .ok h → h ≠ [])
    (h : pwhashStr argon2 pwd salt opslimit memlimit = .ok s) (opslimit' memlimit' : Nat) :
    needsRehash s opslimit' memlimit' =
      .ok (decide (¬ (opslimit = opslimit' % 2 ^ 32 ∧ memlimit / 1024 = memlimit' / 1024 % 2 ^ 32))) := by
  obtain ⟨hash, _, _, hp⟩ := pwhashStr_parse hs hne h
  unfold needsRehash
  rw [hp]
  simp only [producedRecord, Option.some.injEq, ne_eq]
  congr 1
  rw [decide_eq_decide]
  omega

theorem pwhashStr_needsRehash_same {argon2 : Argon2Fn} {pwd salt : Bytes} {opslimit memlimit : Nat}
    {s : Str} (hs : salt ≠ [])
    (hne : ∀ h, argon2 2 opslimit (memlimit / 1024) 1 pwd salt 32 = .ok h → h ≠ [])
    (h : pwhashStr argon2 pwd salt opslimit memlimit = .ok s) :
    needsRehash s opslimit memlimit = .ok false := by
  obtain ⟨h1, h2, _⟩ := (pwhashStr_ok_iff ..).1 h
  rw [pwhashStr_needsRehash hs hne h, Nat.mod_eq_of_lt (by omega), Nat.mod_eq_of_lt (by omega)]
  simp

/-! ### what an `Ok` of `argon2_hash` implies, unconditionally -/

theorem bind_eq_ok {α β} {x : Outcome α} {f : α → Outcome β} {b : β} (h : (x >>= f) = .ok b) :
    ∃ a, x = .ok a ∧ f a = .ok b := by
  cases x with
  | ok a => exact ⟨a, rfl, h⟩
  | err => cases h
  | panic => cases h

theorem longhash_ok_length {outlen : Nat} {inp h : Bytes} (e : longhash outlen inp = .ok h) :
    h.length = outlen := by
  by_cases hb : 4 < outlen ∧ outlen < 0xFFFFFFFF
  · rw [longhash_eq_hprime inp hb.1 hb.2] at e
    cases e
    exact hprime_length _ _
  · rw [longhash_panic inp (by omega)] at e
    cases e

theorem finalize_ok_length {outlen : Nat} {inst : Instance} {mem : Array Block} {h : Bytes}
    (e : finalize outlen inst mem = .ok h) : h.length = outlen := by
  unfold finalize at e
  obtain ⟨b, _, e⟩ := bind_eq_ok e
  obtain ⟨b', _, e⟩ := bind_eq_ok e
  exact longhash_ok_length e

/-- whenever `argon2_hash` returns `Ok` — no side condition at all — the parameters had passed
`Argon2Context::new` and the output buffer was filled completely (`outlen` bytes) -/
theorem argon2Hash_ok_inv {ty t m p : Nat} {pwd salt : Bytes} {secret ad : Option Bytes} {outlen : Nat}
    {h : Bytes} (e : argon2Hash ty t m p pwd salt secret ad outlen = .ok h) :
    Valid outlen pwd.length salt.length (secret.map List.length) (ad.map List.length) t m p
      ∧ h.length = outlen := by
  unfold argon2Hash at e
  obtain ⟨⟨mb, sl⟩, _, e⟩ := bind_eq_ok e
  obtain ⟨u, hv, e⟩ := bind_eq_ok e
  obtain ⟨inst, _, e⟩ := bind_eq_ok e
  obtain ⟨mem, _, e⟩ := bind_eq_ok e
  obtain ⟨st, _, e⟩ := bind_eq_ok e
  exact ⟨(validate_ok_iff ..).1 hv, finalize_ok_length e⟩

/-! ### the string layer instantiated with the project's Argon2 model -/

-- the RFC function is only ever compared syntactically below; never let the unifier run it
attribute [local irreducible] Spec.Argon2.argon2

theorem argon2Model_ok_inv {ty t m p : Nat} {pwd salt : Bytes} {n : Nat} {h : Bytes}
    (e : argon2Model ty t m p pwd salt n = .ok h) :
    Valid n pwd.length salt.length none none t m p ∧ h.length = n :=
  argon2Hash_ok_inv (secret := none) (ad := none) e

/-- one lane, `m` a `u32`, `7·⌊max(m,8)/4⌋ − 3 < 2^32`: the model of `argon2_hash` is total —
`Ok` on the accepted parameters, `Err` on the others, never a panic -/
theorem argon2Model_one_lane {ty t m : Nat} {pwd salt : Bytes} {n : Nat} (hm : m < 2 ^ 32)
    (hn : n < 0xFFFFFFFF) (h7 : 7 * (max m 8 / 4) < 2 ^ 32 + 3) :
    (Valid n pwd.length salt.length none none t m 1 ∧
      argon2Model ty t m 1 pwd salt n = .ok (argon2HashN ty t m 1 pwd salt none none n)) ∨
    (¬ Valid n pwd.length salt.length none none t m 1 ∧ argon2Model ty t m 1 pwd salt n = .err) := by
  by_cases hv : Valid n pwd.length salt.length none none t m 1
  · exact .inl ⟨hv, argon2Hash_ok (secret := none) (ad := none) hv hn h7⟩
  · exact .inr ⟨hv, argon2Hash_err (secret := none) (ad := none) (by decide) (by decide) hm hv⟩

/-- the two facts the generic theorems ask of `argon2`, for the model — from `Ok` alone -/
theorem model_side {pwd salt : Bytes} {opslimit memlimit : Nat} {s : Str}
    (h : pwhashStr argon2Model pwd salt opslimit memlimit = .ok s) :
    salt ≠ [] ∧ ∀ h, argon2Model 2 opslimit (memlimit / 1024) 1 pwd salt 32 = .ok h → h ≠ [] := by
  obtain ⟨_, _, hash, ha, _⟩ := (pwhashStr_ok_iff ..).1 h
  constructor
  · have := (argon2Model_ok_inv ha).1.salt_ge
    intro e; rw [e] at this; simp at this
  · intro h' e
    have := (argon2Model_ok_inv e).2
    intro e'; rw [e'] at this; simp at this

/-- `argon2_hash` as called by `crypto_pwhash` / `crypto_pwhash_str`, in RFC terms -/
theorem argon2Hash_pwhash_spec {outlen : Nat} {pwd salt : Bytes} {opslimit memlimit alg : Nat}
    (halg : alg = 1 ∨ alg = 2)
    (hv : PwhashValid outlen pwd.length salt.length opslimit memlimit)
    (hout : outlen < 0xFFFFFFFF) (h7 : 7 * (memlimit / 1024 / 4) < 2 ^ 32 + 3) :
    argon2Hash alg opslimit (memlimit / 1024) 1 pwd salt none none outlen
      = .ok (Spec.Argon2.argon2 alg pwd salt [] [] opslimit (memlimit / 1024) 1 outlen) := by
  have h := cryptoPwhash_spec halg hv hout h7
  rw [cryptoPwhash_eq _ _ _ _ _ _ halg, if_pos ⟨hv.ops_ge, hv.ops_le⟩, if_pos ⟨hv.mem_ge, hv.mem_le⟩] at h
  exact h

/-- `crypto_pwhash_str` with the Argon2 model is `crypto_pwhash` (32 bytes, Argon2id) followed by
the encoder -/
theorem pwhashStr_model_eq_cryptoPwhash (pwd salt : Bytes) (opslimit memlimit : Nat) :
    pwhashStr argon2Model pwd salt opslimit memlimit =
      match cryptoPwhash 32 pwd salt opslimit memlimit 2 with
      | .ok hash => .ok (encode .argon2id opslimit (memlimit / 1024) salt hash)
      | .err => .err
      | .panic => .panic := by
  rw [pwhashStr_eq, cryptoPwhash_eq _ _ _ _ _ _ (.inr rfl)]
  by_cases h1 : 1 ≤ opslimit ∧ opslimit ≤ 4294967295
  · by_cases h2 : 8192 ≤ memlimit ∧ memlimit ≤ 4398046510080
    · rw [if_pos h1, if_pos h2, if_pos h1, if_pos h2]; rfl
    · rw [if_pos h1, if_neg h2, if_pos h1, if_neg h2]
  · rw [if_neg h1, if_neg h1]

/-- on the documented domain `crypto_pwhash_str` is total: the encoding of the RFC tag on
`PwhashValid 32 …`, `Err` off it -/
theorem pwhashStr_model_total {pwd salt : Bytes} {opslimit memlimit : Nat}
    (h7 : 7 * (memlimit / 1024 / 4) < 2 ^ 32 + 3) :
    (PwhashValid 32 pwd.length salt.length opslimit memlimit ∧
      pwhashStr argon2Model pwd salt opslimit memlimit
        = .ok (encode .argon2id opslimit (memlimit / 1024) salt
            (Spec.Argon2.argon2 2 pwd salt [] [] opslimit (memlimit / 1024) 1 32))) ∨
    (¬ PwhashValid 32 pwd.length salt.length opslimit memlimit ∧
      pwhashStr argon2Model pwd salt opslimit memlimit = .err) := by
  rw [pwhashStr_model_eq_cryptoPwhash]
  rcases cryptoPwhash_total (pwd := pwd) (salt := salt) (opslimit := opslimit) (outlen := 32)
    (.inr rfl) (by decide) h7 with ⟨hv, e⟩ | ⟨hv, e⟩
  · exact .inl ⟨hv, by rw [e]⟩
  · exact .inr ⟨hv, by rw [e]⟩

/-- `crypto_pwhash_str_verify` with the Argon2 model on a string whose parse is known: accepted
iff the candidate is short enough for `Argon2Context::new` and the RFC tag equals the stored hash -/
theorem strVerify_model_of_parse {s : Str} {ty : Alg} {t m : Nat} {salt hash : Bytes} (pwd : Bytes)
    (hp : parse s = .ok { pwhash := some hash, salt := some salt, ty := some ty, t := some t,
                          m := some m, p := some 1, version := some 19 })
    (ht : 1 ≤ t) (hm8 : 8 ≤ m) (hsalt : 8 ≤ salt.length ∧ salt.length ≤ 0xFFFFFFFF)
    (h7 : 7 * (m / 4) < 2 ^ 32 + 3) :
    strVerify argon2Model s pwd = .ok () ↔
      pwd.length ≤ 0xFFFFFFFF ∧ Spec.Argon2.argon2 ty.num pwd salt [] [] t m 1 32 = hash := by
  obtain ⟨ht', hm'⟩ := parse_ok_range hp
  have ht32 := ht' t rfl
  have hm32 := hm' m rfl
  have hmax : max m 8 = m := by omega
  have hty : ty.num = 1 ∨ ty.num = 2 := by cases ty <;> simp [Alg.num]
  rw [strVerify_of_parse pwd hp]
  rcases argon2Model_one_lane (ty := ty.num) (t := t) (pwd := pwd) (salt := salt) hm32
    (n := 32) (by decide) (by rw [hmax]; exact h7) with ⟨hv, e⟩ | ⟨hv, e⟩
  · rw [e, argon2HashN_eq_spec pwd salt none none 32 hty (by decide) (by decide) (by omega) hm32]
    simp only [Outcome.ok.injEq, Option.getD_none]
    exact ⟨fun h => ⟨hv.pwd_le, h⟩, fun h => h.2⟩
  · rw [e]
    constructor
    · intro h; cases h
    · rintro ⟨hl, _⟩
      exact absurd ⟨by decide, by decide, hl, hsalt.1, hsalt.2, by simp, by simp, by decide, by decide,
        hm8, by omega, ht, by omega⟩ hv

/-- (c), model instance, RFC terms: a candidate is accepted by `crypto_pwhash_str_verify` on the
output of `crypto_pwhash_str` iff it fits Argon2's length limit and collides with the hashed
password under Argon2id with the recorded salt and costs -/
theorem pwhashStr_model_verify_iff {pwd salt : Bytes} {opslimit memlimit : Nat} {s : Str}
    (h7 : 7 * (memlimit / 1024 / 4) < 2 ^ 32 + 3)
    (h : pwhashStr argon2Model pwd salt opslimit memlimit = .ok s) (pwd' : Bytes) :
    strVerify argon2Model s pwd' = .ok () ↔
      pwd'.length ≤ 0xFFFFFFFF ∧
      Spec.Argon2.argon2 2 pwd' salt [] [] opslimit (memlimit / 1024) 1 32
        = Spec.Argon2.argon2 2 pwd salt [] [] opslimit (memlimit / 1024) 1 32 := by
  obtain ⟨hs, hne⟩ := model_side h
  obtain ⟨hash, ha, _, hp⟩ := pwhashStr_parse hs hne h
  rcases pwhashStr_model_total (pwd := pwd) (salt := salt) (opslimit := opslimit) h7 with
    ⟨hv, e⟩ | ⟨_, e⟩
  · have hspec := argon2Hash_pwhash_spec (alg := 2) (.inr rfl) hv (by decide) h7
    have hh : hash = Spec.Argon2.argon2 2 pwd salt [] [] opslimit (memlimit / 1024) 1 32 := by
      have : argon2Hash 2 opslimit (memlimit / 1024) 1 pwd salt none none 32 = .ok hash := ha
      rw [hspec] at this
      exact (Outcome.ok.inj this).symm
    subst hh
    exact strVerify_model_of_parse (ty := .argon2id) pwd' hp hv.ops_ge (by have := hv.mem_ge; omega)
      ⟨hv.salt_ge, hv.salt_le⟩ h7
  · rw [e] at h; cases h

/-! ### `crypto_pwhash_str_verify` with the Argon2 model never panics -/

theorem strVerify_model_ne_panic (s : Str) (pwd : Bytes)
    (hmem : ∀ r m, parse s = .ok r → r.m = some m → 7 * (max m 8 / 4) < 2 ^ 32 + 3) :
    strVerify argon2Model s pwd ≠ .panic := by
  unfold strVerify
  cases h : parse s with
  | ok r =>
    obtain ⟨ty, t, m, salt, hash, _, _, hr⟩ := parse_ok_fields h
    have hrange := parse_ok_range h
    subst hr
    have h7 := hmem _ m h rfl
    simp only
    rcases argon2Model_one_lane (ty := ty.num) (t := t) (pwd := pwd) (salt := salt) (hrange.2 m rfl)
      (n := 32) (by decide) h7 with ⟨_, e⟩ | ⟨_, e⟩
    · rw [e]
      simp only
      split <;> simp
    · rw [e]; simp
  | err => simp
  | panic => exact absurd h (parse_ne_panic s)

/-! ### `from_string` / `to_string` along the code's path -/

/-- `convert_costs(t as u64, 1024 * m)` gives back `(t, m)` for `u32` costs -/
theorem convertCosts_roundtrip {t m : Nat} (ht : t < 2 ^ 32) (hm : m < 2 ^ 32) :
    convertCosts t (1024 * m) = (t, m) := by
  unfold convertCosts
  rw [U32_eq, Nat.mul_div_cancel_left m (by decide : 0 < 1024), Nat.mod_eq_of_lt (by omega),
    Nat.mod_eq_of_lt (by omega)]

/-- the `u32` range is needed: beyond it the second `convert_costs` truncates -/
theorem convertCosts_roundtrip_fails : convertCosts (2 ^ 32) (1024 * 2 ^ 32) = (0, 0) := by decide

theorem reencodeRaw_eq_reencode (s : Str) : reencodeRaw s = reencode s := by
  unfold reencodeRaw reencode
  cases h : parse s with
  | ok r =>
    obtain ⟨ty, t, m, salt, hash, _, _, hr⟩ := parse_ok_fields h
    have hrange := parse_ok_range h
    subst hr
    have ht := hrange.1 t rfl
    have hm := hrange.2 m rfl
    simp only
    rw [mulU64_ok (by omega)]
    simp only [convertCosts_roundtrip ht hm]
  | err => rfl
  | panic => rfl

/-! ### `from_string` / `verify` (through `crypto_pwhash`) versus `crypto_pwhash_str_verify` -/

/-- the object route on a string whose parse is known -/
theorem strVerifyRaw_of_parse {s : Str} {ty : Alg} {t m : Nat} {salt hash : Bytes} (pwd : Bytes)
    (hp : parse s = .ok { pwhash := some hash, salt := some salt, ty := some ty, t := some t,
                          m := some m, p := some 1, version := some 19 }) :
    strVerifyRaw s pwd = objVerify hash salt hash.length t (1024 * m) ty.num pwd := by
  have hm := (parse_ok_range hp).2 m rfl
  unfold strVerifyRaw
  rw [hp]
  simp only
  rw [mulU64_ok (by omega)]

theorem strVerifyRaw_iff {s : Str} {ty : Alg} {t m : Nat} {salt hash : Bytes} (pwd : Bytes)
    (hp : parse s = .ok { pwhash := some hash, salt := some salt, ty := some ty, t := some t,
                          m := some m, p := some 1, version := some 19 }) :
    strVerifyRaw s pwd = .ok () ↔
      cryptoPwhash hash.length pwd salt t (1024 * m) ty.num = .ok hash := by
  rw [strVerifyRaw_of_parse pwd hp, objVerify_iff]

/-- `crypto_pwhash(n, pwd, salt, t, 1024·m, alg)` for `u32` costs is `argon2_hash(t, m, 1, …)`:
the range checks of `crypto_pwhash` (`t ≥ 1`, `1024·m ≥ 8192`) reject nothing that
`Argon2Context::new` (`t ≥ 1`, `m ≥ 8`) would accept, and vice versa -/
theorem cryptoPwhash_of_costs {n : Nat} {pwd salt : Bytes} {t m alg : Nat} (halg : alg = 1 ∨ alg = 2)
    (ht : t < 2 ^ 32) (hm : m < 2 ^ 32) :
    cryptoPwhash n pwd salt t (1024 * m) alg = argon2Hash alg t m 1 pwd salt none none n := by
  rw [cryptoPwhash_eq _ _ _ _ _ _ halg, Nat.mul_div_cancel_left m (by decide : 0 < 1024)]
  by_cases h1 : 1 ≤ t ∧ t ≤ 4294967295
  · by_cases h2 : 8192 ≤ 1024 * m ∧ 1024 * m ≤ 4398046510080
    · rw [if_pos h1, if_pos h2]
    · rw [if_pos h1, if_neg h2]
      symm
      apply argon2Hash_err (by decide) (by decide) hm
      intro hv
      have := hv.m_ge
      omega
  · rw [if_neg h1]
    symm
    apply argon2Hash_err (by decide) (by decide) hm
    intro hv
    have := hv.t_ge
    omega

/-- **the two verification routes agree on every string whose hash field is 32 bytes long** -/
theorem strVerifyRaw_eq_strVerify (s : Str) (pwd : Bytes)
    (h32 : ∀ r h, parse s = .ok r → r.pwhash = some h → h.length = 32) :
    strVerifyRaw s pwd = strVerify argon2Model s pwd := by
  cases h : parse s with
  | ok r =>
    obtain ⟨ty, t, m, salt, hash, _, _, hr⟩ := parse_ok_fields h
    have hrange := parse_ok_range h
    subst hr
    have hl := h32 _ hash h rfl
    have hty : ty.num = 1 ∨ ty.num = 2 := by cases ty <;> simp [Alg.num]
    rw [strVerifyRaw_of_parse pwd h]
    unfold strVerify objVerify objHashWithSalt
    rw [h, hl, cryptoPwhash_of_costs hty (hrange.1 t rfl) (hrange.2 m rfl)]
    simp only [argon2Model]
    cases argon2Hash ty.num t m 1 pwd salt none none 32 with
    | ok c =>
      simp only
      by_cases hc : c = hash
      · rw [if_pos hc, if_pos hc.symm]
      · rw [if_neg hc, if_neg (fun e => hc e.symm)]
    | err => rfl
    | panic => rfl
  | err => unfold strVerifyRaw strVerify; rw [h]
  | panic => exact absurd h (parse_ne_panic s)

/-- … and on every other accepted string `crypto_pwhash_str_verify` rejects every password
(it compares a 32-byte buffer with the stored hash) -/
theorem strVerify_model_other_length {s : Str} {r : Parsed} {hash : Bytes} {m : Nat} (pwd : Bytes)
    (hp : parse s = .ok r) (hh : r.pwhash = some hash) (hm : r.m = some m)
    (hl : hash.length ≠ 32) (h7 : 7 * (max m 8 / 4) < 2 ^ 32 + 3) :
    strVerify argon2Model s pwd = .err := by
  obtain ⟨ty, t, m', salt, hash', _, _, hr⟩ := parse_ok_fields hp
  have hrange := parse_ok_range hp
  subst hr
  cases hh; cases hm
  unfold strVerify
  rw [hp]
  simp only
  rcases argon2Model_one_lane (ty := ty.num) (t := t) (pwd := pwd) (salt := salt) (hrange.2 m rfl)
    (n := 32) (by decide) h7 with ⟨_, e⟩ | ⟨_, e⟩
  · rw [e]
    simp only
    rw [if_neg]
    intro e'
    exact hl (by rw [← e', argon2HashN_length])
  · rw [e]

/-- whereas `PwHash::from_string(s)?.verify(pwd)` accepts the password a `PwHash` of any hash
length `16 ≤ n < 2^32 − 1` was made from -/
theorem strVerifyRaw_accepts_own {alg : Alg} {t m n : Nat} {pwd salt : Bytes}
    (hv : Valid n pwd.length salt.length none none t m 1) (hn : n < 0xFFFFFFFF)
    (h7 : 7 * (m / 4) < 2 ^ 32 + 3) :
    strVerifyRaw (encode alg t m salt (Spec.Argon2.argon2 alg.num pwd salt [] [] t m 1 n)) pwd
      = .ok () := by
  have ht : t < 2 ^ 32 := by have := hv.t_le; omega
  have hm : m < 2 ^ 32 := by have := hv.m_le; omega
  have hm8 := hv.m_ge
  have hty : alg.num = 1 ∨ alg.num = 2 := by cases alg <;> simp [Alg.num]
  have hs : salt ≠ [] := by
    have := hv.salt_ge
    intro e; rw [e] at this; simp at this
  have hlen := spec_argon2_length alg.num pwd salt [] [] t m 1 n
  have hh : Spec.Argon2.argon2 alg.num pwd salt [] [] t m 1 n ≠ [] := by
    have := hv.outlen_ge
    intro e; rw [e] at hlen; simp at hlen; omega
  rw [strVerifyRaw_iff pwd (parse_encode alg t m salt _ ht hm hs hh), hlen,
    cryptoPwhash_of_costs hty ht hm,
    argon2Hash_ok (secret := none) (ad := none) hv hn
      (by have : max m (8 * 1) = m := by omega
          rw [this]; exact h7),
    argon2HashN_eq_spec pwd salt none none n hty (by decide) (by decide) (by omega) hm]
  rfl

/-! ### `PwHash::verify` in RFC terms -/

/-- on the documented domain `PwHash::verify` is total, and says `Ok` exactly when the candidate
passes `crypto_pwhash`'s validation and its RFC tag (of `config.hash_length` bytes) is the stored
hash -/
theorem objVerify_total {hash salt : Bytes} {hashLength opslimit memlimit alg : Nat} {pwd : Bytes}
    (halg : alg = 1 ∨ alg = 2) (hout : hashLength < 0xFFFFFFFF)
    (h7 : 7 * (memlimit / 1024 / 4) < 2 ^ 32 + 3) :
    ((PwhashValid hashLength pwd.length salt.length opslimit memlimit ∧
        Spec.Argon2.argon2 alg pwd salt [] [] opslimit (memlimit / 1024) 1 hashLength = hash) ∧
      objVerify hash salt hashLength opslimit memlimit alg pwd = .ok ()) ∨
    (¬ (PwhashValid hashLength pwd.length salt.length opslimit memlimit ∧
        Spec.Argon2.argon2 alg pwd salt [] [] opslimit (memlimit / 1024) 1 hashLength = hash) ∧
      objVerify hash salt hashLength opslimit memlimit alg pwd = .err) := by
  unfold objVerify objHashWithSalt
  rcases cryptoPwhash_total (pwd := pwd) (salt := salt) (opslimit := opslimit) halg hout h7 with
    ⟨hv, e⟩ | ⟨hv, e⟩
  · rw [e]
    simp only
    by_cases hc : hash = Spec.Argon2.argon2 alg pwd salt [] [] opslimit (memlimit / 1024) 1 hashLength
    · rw [if_pos hc]; exact .inl ⟨⟨hv, hc.symm⟩, rfl⟩
    · rw [if_neg hc]; exact .inr ⟨fun h => hc h.2.symm, rfl⟩
  · rw [e]; exact .inr ⟨fun h => hv h.1, rfl⟩

theorem objVerify_iff_spec {hash salt : Bytes} {hashLength opslimit memlimit alg : Nat} {pwd : Bytes}
    (halg : alg = 1 ∨ alg = 2) (hout : hashLength < 0xFFFFFFFF)
    (h7 : 7 * (memlimit / 1024 / 4) < 2 ^ 32 + 3) :
    objVerify hash salt hashLength opslimit memlimit alg pwd = .ok () ↔
      PwhashValid hashLength pwd.length salt.length opslimit memlimit ∧
      Spec.Argon2.argon2 alg pwd salt [] [] opslimit (memlimit / 1024) 1 hashLength = hash := by
  rcases objVerify_total (hash := hash) (pwd := pwd) (salt := salt) (opslimit := opslimit) halg hout h7
    with ⟨h, e⟩ | ⟨h, e⟩
  · rw [e]; exact ⟨fun _ => h, fun _ => rfl⟩
  · rw [e]; exact ⟨fun x => (by cases x), fun x => absurd x h⟩

/-- a `PwHash` whose `config.hash_length` is not the length of its `hash` (possible through
`from_parts` only) verifies no password -/
theorem objVerify_len_mismatch {hash salt : Bytes} {hashLength opslimit memlimit alg : Nat} {pwd : Bytes}
    (halg : alg = 1 ∨ alg = 2) (hout : hashLength < 0xFFFFFFFF)
    (h7 : 7 * (memlimit / 1024 / 4) < 2 ^ 32 + 3) (hne : hashLength ≠ hash.length) :
    objVerify hash salt hashLength opslimit memlimit alg pwd = .err := by
  rcases objVerify_total (hash := hash) (pwd := pwd) (salt := salt) (opslimit := opslimit) halg hout h7
    with ⟨⟨_, e'⟩, _⟩ | ⟨_, e⟩
  · exact absurd (by rw [← e', spec_argon2_length]) hne
  · exact e

/-- a `PwHash` made by `hash_with_salt(pwd, salt, config)`: `verify(pwd')` says `Ok` iff `pwd'` is
not too long for Argon2 and collides with `pwd` -/
theorem objVerify_of_hashed {hash salt : Bytes} {hashLength opslimit memlimit alg : Nat} {pwd : Bytes}
    (halg : alg = 1 ∨ alg = 2) (hout : hashLength < 0xFFFFFFFF)
    (h7 : 7 * (memlimit / 1024 / 4) < 2 ^ 32 + 3)
    (hmade : objHashWithSalt hashLength salt opslimit memlimit alg pwd = .ok hash) (pwd' : Bytes) :
    objVerify hash salt hashLength opslimit memlimit alg pwd' = .ok () ↔
      pwd'.length ≤ 0xFFFFFFFF ∧
      Spec.Argon2.argon2 alg pwd' salt [] [] opslimit (memlimit / 1024) 1 hashLength
        = Spec.Argon2.argon2 alg pwd salt [] [] opslimit (memlimit / 1024) 1 hashLength := by
  unfold objHashWithSalt at hmade
  rcases cryptoPwhash_total (pwd := pwd) (salt := salt) (opslimit := opslimit) halg hout h7 with
    ⟨hv, e⟩ | ⟨_, e⟩
  · rw [e] at hmade
    have hh := Outcome.ok.inj hmade
    subst hh
    rw [objVerify_iff_spec halg hout h7]
    constructor
    · rintro ⟨hv', e'⟩; exact ⟨hv'.pwd_le, e'⟩
    · rintro ⟨hl, e'⟩
      exact ⟨⟨hv.ops_ge, hv.ops_le, hv.mem_ge, hv.mem_le, hv.outlen_ge, hv.outlen_le, hl,
        hv.salt_ge, hv.salt_le⟩, e'⟩
  · rw [e] at hmade; cases hmade

end DryocVerif.Proofs.PwhashExtra

/-! ### the producer side of the OBJECT API: `PwHash::hash_with_salt(..)?.to_string()` -/

namespace DryocVerif.Proofs.PwhashExtra
open DryocVerif DryocVerif.Model.Argon2 DryocVerif.Model.PwhashStr DryocVerif.Proofs.Argon2

theorem algNum_cases (alg : Alg) : alg.num = 1 ∨ alg.num = 2 := by cases alg <;> simp [Alg.num]

/-- what an `Ok` of `crypto_pwhash` implies, with no side condition: the limits were in range, the call WAS
`argon2_hash(opslimit, memlimit / 1024, 1, …)`, the Argon2 parameters were accepted, `outlen` bytes came back -/
theorem cryptoPwhash_ok_inv {n : Nat} {pwd salt : Bytes} {opslimit memlimit alg : Nat} {hash : Bytes}
    (halg : alg = 1 ∨ alg = 2) (e : cryptoPwhash n pwd salt opslimit memlimit alg = .ok hash) :
    (1 ≤ opslimit ∧ opslimit ≤ 4294967295) ∧ (8192 ≤ memlimit ∧ memlimit ≤ 4398046510080)
      ∧ argon2Hash alg opslimit (memlimit / 1024) 1 pwd salt none none n = .ok hash
      ∧ Valid n pwd.length salt.length none none opslimit (memlimit / 1024) 1 ∧ hash.length = n := by
  rw [cryptoPwhash_eq _ _ _ _ _ _ halg] at e
  by_cases h1 : 1 ≤ opslimit ∧ opslimit ≤ 4294967295
  · by_cases h2 : 8192 ≤ memlimit ∧ memlimit ≤ 4398046510080
    · rw [if_pos h1, if_pos h2] at e
      have := argon2Hash_ok_inv (secret := none) (ad := none) e
      exact ⟨h1, h2, e, this.1, this.2⟩
    · rw [if_pos h1, if_neg h2] at e; cases e
  · rw [if_neg h1] at e; cases e

/-- `to_string` of a `PwHash` whose limits passed `crypto_pwhash`'s range checks prints those limits untruncated -/
theorem objToString_eq (alg : Alg) {opslimit memlimit : Nat} (salt hash : Bytes)
    (ho : opslimit ≤ 4294967295) (hm : memlimit ≤ 4398046510080) :
    objToString alg opslimit memlimit salt hash = encode alg opslimit (memlimit / 1024) salt hash := by
  unfold objToString
  rw [convertCosts_eq ho hm]

/-- **the object API's producer is self-describing and self-verifying**, from `Ok` alone -/
theorem objHash_toString_self_describing {alg : Alg} {n : Nat} {pwd salt hash : Bytes} {opslimit memlimit : Nat}
    (hmade : objHashWithSalt n salt opslimit memlimit alg.num pwd = .ok hash) :
    parse (objToString alg opslimit memlimit salt hash)
        = .ok { pwhash := some hash, salt := some salt, ty := some alg, t := some opslimit,
                m := some (memlimit / 1024), p := some 1, version := some 19 }
      ∧ strVerifyRaw (objToString alg opslimit memlimit salt hash) pwd = .ok () := by
  obtain ⟨h1, h2, ha, hv, hlen⟩ := cryptoPwhash_ok_inv (algNum_cases alg) hmade
  have ht : opslimit < 2 ^ 32 := by omega
  have hm : memlimit / 1024 < 2 ^ 32 := by omega
  have hs : salt ≠ [] := by
    have := hv.salt_ge
    intro e; rw [e] at this; simp at this
  have hh : hash ≠ [] := by
    have := hv.outlen_ge
    intro e; rw [e] at hlen; simp at hlen; omega
  have hp := parse_encode alg opslimit (memlimit / 1024) salt hash ht hm hs hh
  rw [objToString_eq alg salt hash h1.2 h2.2]
  refine ⟨hp, ?_⟩
  rw [strVerifyRaw_iff pwd hp, hlen, cryptoPwhash_of_costs (algNum_cases alg) ht hm]
  exact ha

/-- **Observation.**  `crypto_pwhash_str_needs_rehash` truncates the requested limits with `convert_costs` BEFORE
comparing and never range-checks them: a request of `t + 2^32` operations is answered `Ok(false)` ("no rehash
needed") on a string recorded with `t`. -/
theorem needsRehash_wraps (alg : Alg) (t m : Nat) (salt hash : Bytes)
    (ht : t < 2 ^ 32) (hm : m < 2 ^ 32) (hs : salt ≠ []) (hh : hash ≠ []) :
    needsRehash (encode alg t m salt hash) (t + 2 ^ 32) (1024 * m) = .ok false := by
  unfold needsRehash
  rw [parse_encode alg t m salt hash ht hm hs hh]
  simp only [Outcome.ok.injEq, decide_eq_false_iff_not, not_or, Decidable.not_not, Option.some.injEq]
  omega

end DryocVerif.Proofs.PwhashExtra
