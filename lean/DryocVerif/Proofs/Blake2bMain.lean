import DryocVerif.Proofs.Blake2bSpec
import DryocVerif.Spec.Argon2
/-
Main theorems about the model of `blake2b_soft.rs`:

* `hashChunksC_eq`, `buf_le_128` … (re-exported from `Blake2bChunks`): chunking law and
  buffer bound for ANY compression function;
* `compress_eq_spec` (from `Blake2bCompress`): code-shaped `compress` = RFC 7693 `F`;
* `hashChunks_model_eq_spec`, `hash_model_eq_spec`: model = `Spec.Blake2b`;
* `longhash_eq_hprime`: `longhash` = Argon2 `H′`.
-/
namespace DryocVerif.Proofs.Blake2b
open DryocVerif
open DryocVerif.Model.Blake2b
open DryocVerif.Model.Utils (slice)

/-- the `Option<&[u8]>` passed for a spec-level key (`[]` = unkeyed) -/
def keyOpt (key : Bytes) : Option Bytes := if key.isEmpty then none else some key

/-- `init` succeeds on valid arguments -/
theorem initC_ok (C : Compress) (outlen : Nat) (key salt personal : Option Bytes)
    (ho : 1 ≤ outlen ∧ outlen ≤ 64) (hk : ∀ k, key = some k → k.length ≤ 64) :
    initC C outlen key salt personal =
      .ok (stateAfter C (initS0 outlen key salt personal) (keyBlock key)) := by
  rcases initC_cases C outlen key salt personal with h | h | h
  · exfalso
    unfold initC at h
    have h1 : ¬ (outlen = 0 ∨ outlen > OUTBYTES) := by simp only [OUTBYTES]; omega
    rw [if_neg h1] at h
    cases key with
    | none => simp at h
    | some k =>
      have := hk k rfl
      have h2 : ¬ (k.length % 256 > KEYBYTES) := by simp only [KEYBYTES]; omega
      have h3 : ¬ (k.length > BLOCKBYTES) := by simp only [BLOCKBYTES]; omega
      simp only [if_neg h2, if_neg h3] at h
      cases h
  · exfalso
    unfold initC at h
    have h1 : ¬ (outlen = 0 ∨ outlen > OUTBYTES) := by simp only [OUTBYTES]; omega
    rw [if_neg h1] at h
    cases key with
    | none => simp at h
    | some k =>
      have := hk k rfl
      have h2 : ¬ (k.length % 256 > KEYBYTES) := by simp only [KEYBYTES]; omega
      have h3 : ¬ (k.length > BLOCKBYTES) := by simp only [BLOCKBYTES]; omega
      simp only [if_neg h2, if_neg h3] at h
      cases h
  · exact h

theorem fit_short (n : Nat) (s : Bytes) (h : s.length ≤ n) :
    Spec.Blake2b.fit n s = s ++ zeros (n - s.length) := by
  unfold Spec.Blake2b.fit
  rw [List.take_append, List.take_of_length_le h]
  simp [zeros]

/-- the block list of the model (key block ‖ data) is the spec's `blocksOf` -/
theorem blocks_eq_blocksOf (key msg : Bytes) (hk : key.length ≤ 64) :
    blocks (keyBlock (keyOpt key) ++ msg) = Spec.Blake2b.blocksOf key msg := by
  unfold blocks Spec.Blake2b.blocksOf keyOpt
  by_cases he : key.isEmpty
  · simp only [he, if_true, keyBlock, Spec.Blake2b.blockBytes]
  · simp only [he, keyBlock, Spec.Blake2b.blockBytes, Bool.false_eq_true, if_false]
    rw [fit_short 128 key (by omega)]

/-- the initial chaining value of the model is the spec's `initState` -/
theorem initS0_h (outLen : Nat) (key : Bytes) (salt personal : Option Bytes)
    (ho : outLen ≤ 64) (hk : key.length ≤ 64)
    (hs : ∀ s, salt = some s → s.length = 16) (hp : ∀ s, personal = some s → s.length = 16) :
    (initS0 (outLen % 256) (keyOpt key) salt personal).h =
      Spec.Blake2b.initState outLen key.length (salt.getD []) (personal.getD []) := by
  have e1 : outLen % 256 = outLen := Nat.mod_eq_of_lt (by omega)
  have e2 : keyLength (keyOpt key) = key.length := by
    unfold keyOpt
    by_cases he : key.isEmpty
    · have : key = [] := List.isEmpty_iff.mp he
      subst this; rfl
    · simp only [he, Bool.false_eq_true, if_false, keyLength]
      exact Nat.mod_eq_of_lt (by omega)
  have e3 : orZeros salt SALTBYTES = Spec.Blake2b.fit 16 (salt.getD []) := by
    cases salt with
    | none => simp only [orZeros, Option.getD_none, fit_nil, SALTBYTES]
    | some s => simp only [orZeros, Option.getD_some, fit_self 16 s (hs s rfl)]
  have e4 : orZeros personal PERSONALBYTES = Spec.Blake2b.fit 16 (personal.getD []) := by
    cases personal with
    | none => simp only [orZeros, Option.getD_none, fit_nil, PERSONALBYTES]
    | some s => simp only [orZeros, Option.getD_some, fit_self 16 s (hp s rfl)]
  have l3 : (Spec.Blake2b.fit 16 (salt.getD [])).length = 16 := by simp [Spec.Blake2b.fit, zeros]
  have l4 : (Spec.Blake2b.fit 16 (personal.getD [])).length = 16 := by simp [Spec.Blake2b.fit, zeros]
  unfold initS0
  rw [e1, e2, e3, e4, paramBytes_eq, initParam_h _ (by simp [zeros, l3, l4])]
  rfl

/-- **Model = spec, incremental form with salt and personalisation**: `init` (valid output
length, key of ≤ 64 bytes — `[]` meaning `None` —, optional 16-byte salt / personalisation),
any sequence of `update`s, `finalize` computes `Spec.Blake2b.hashSP` of the concatenation. -/
theorem hashChunksC_model_eq_spec (outLen : Nat) (key : Bytes) (salt personal : Option Bytes)
    (cs : List Bytes) (ho : 1 ≤ outLen ∧ outLen ≤ 64) (hk : key.length ≤ 64)
    (hs : ∀ s, salt = some s → s.length = 16) (hp : ∀ s, personal = some s → s.length = 16)
    (hlen : cs.flatten.length + 128 < 2^128) :
    hashChunksC compress outLen (keyOpt key) salt personal cs =
      .ok (Spec.Blake2b.hashSP outLen key (salt.getD []) (personal.getD []) cs.flatten) := by
  have hko : ∀ k, keyOpt key = some k → k.length ≤ 64 := by
    intro k hk'
    unfold keyOpt at hk'
    by_cases he : key.isEmpty
    · simp [he] at hk'
    · simp only [he, Bool.false_eq_true, if_false, Option.some.injEq] at hk'
      rw [← hk']; exact hk
  have hinit := initC_ok compress (outLen % 256) (keyOpt key) salt personal
    (by rw [Nat.mod_eq_of_lt (by omega : outLen < 256)]; exact ho) hko
  rw [hashChunksC_eq_absorbSpec compress outLen (keyOpt key) salt personal cs _ ho hinit]
  have hh : (initS0 (outLen % 256) (keyOpt key) salt personal).h.size = 8 := by
    rw [initS0_h outLen key salt personal ho.2 hk hs hp]; simp [Spec.Blake2b.initState]
  have hkb : (keyBlock (keyOpt key)).length ≤ 128 := by
    unfold keyOpt
    by_cases he : key.isEmpty
    · simp [he, keyBlock]
    · simp [he, keyBlock, zeros]; omega
  rw [absorbSpec_eq _ hh _ (by rw [List.length_append]; omega),
    stateBytes_eq _ (spec_absorb_size _ _ _ hh), blocks_eq_blocksOf key _ hk,
    initS0_h outLen key salt personal ho.2 hk hs hp]
  rfl

/-- **Model = spec, incremental form** (`hashChunks` = `init`; `update c₁ … cₙ`; `finalize`) -/
theorem hashChunks_model_eq_spec (outLen : Nat) (key : Bytes) (cs : List Bytes)
    (ho : 1 ≤ outLen ∧ outLen ≤ 64) (hk : key.length ≤ 64)
    (hlen : cs.flatten.length + 128 < 2^128) :
    hashChunks outLen (keyOpt key) cs = .ok (Spec.Blake2b.hash outLen key cs.flatten) :=
  hashChunksC_model_eq_spec outLen key none none cs ho hk (by simp) (by simp) hlen

theorem hash_eq_hashChunks (outLen : Nat) (input : Bytes) (key : Option Bytes) :
    hash outLen input key = hashChunks outLen key [input] := rfl

/-- **Model = spec (B)**: the one-shot `blake2b::hash` of the model is RFC 7693 BLAKE2b. -/
theorem hash_model_eq_spec (outLen : Nat) (key msg : Bytes) (ho : 1 ≤ outLen ∧ outLen ≤ 64)
    (hk : key.length ≤ 64) (hlen : msg.length + 128 < 2^64) :
    hash outLen msg (if key.isEmpty then none else some key)
      = .ok (Spec.Blake2b.hash outLen key msg) := by
  have := hashChunks_model_eq_spec outLen key [msg] ho hk (by simp; omega)
  rw [List.flatten_cons, List.flatten_nil, List.append_nil] at this
  exact this

/-! ### chunking law, instantiated for `blake2b_soft.rs` -/

/-- **Chunking law** for the soft backend (instance of `hashChunksC_eq`) -/
theorem hashChunks_eq (outLen : Nat) (key : Option Bytes) (cs : List Bytes) :
    hashChunks outLen key cs = hashChunks outLen key [cs.flatten] :=
  hashChunksC_eq compress outLen key none none cs

/-- incremental hashing = one-shot `hash` of the concatenation, for all arguments (including
invalid output / key lengths, where both sides fail in the same way) -/
theorem hashChunks_eq_hash (outLen : Nat) (key : Option Bytes) (cs : List Bytes) :
    hashChunks outLen key cs = hash outLen cs.flatten key := by
  rw [hash_eq_hashChunks]; exact hashChunks_eq outLen key cs

/-- the byte counter of the canonical state is the number of consumed bytes,
`D.length − buf.length` (no overflow of the 128-bit counter below 2^128 bytes) -/
theorem foldl_stepC_ctr (C : Compress) (xs : List Bytes) : ∀ s : State,
    ctr s.t0 s.t1 + 128 * xs.length < 2^128 →
    ctr (xs.foldl (stepC C) s).t0 (xs.foldl (stepC C) s).t1 = ctr s.t0 s.t1 + 128 * xs.length := by
  induction xs with
  | nil => intro s _; simp
  | cons x xs ih =>
    intro s h
    simp only [List.length_cons] at h
    have hc := incrementCounter_ctr s.t0 s.t1 128 (by omega)
    have e : ctr (stepC C s x).t0 (stepC C s x).t1 = ctr s.t0 s.t1 + 128 := hc
    rw [List.foldl_cons, ih _ (by rw [e]; omega), e, List.length_cons]
    omega

theorem stateAfter_counter (C : Compress) (s0 : State) (D : Bytes) (h0 : s0.t0 = 0) (h1 : s0.t1 = 0)
    (hD : D.length < 2^128) :
    ctr (stateAfter C s0 D).t0 (stateAfter C s0 D).t1 = D.length - (stateAfter C s0 D).buf.length := by
  have hcl := consumed_le D.length
  have hcm := consumed_mod D.length
  have hPl : (D.take (consumed D.length)).length = consumed D.length := by
    rw [List.length_take]; omega
  have hxl := chunksExact_length 128 (by omega) _ (D.take (consumed D.length))
    (len_eq_mul 128 _ (by rw [hPl]; exact hcm))
  have hc0 : ctr s0.t0 s0.t1 = 0 := by rw [h0, h1]; decide
  have := foldl_stepC_ctr C (chunksExact 128 (D.take (consumed D.length))) s0 (by rw [hc0, hxl, hPl]; omega)
  rw [stateAfter_buf_length]
  unfold stateAfter held
  show ctr (List.foldl (stepC C) s0 _).t0 (List.foldl (stepC C) s0 _).t1 = _
  rw [this, hc0, hxl, hPl]
  omega

/-! ### generichash wrappers -/

/-- `crypto_generichash` on valid arguments (16 ≤ outLen ≤ 64; no key or 16 ≤ key ≤ 64) -/
theorem generichash_eq_spec (outLen : Nat) (key msg : Bytes) (ho : 16 ≤ outLen ∧ outLen ≤ 64)
    (hk : key = [] ∨ (16 ≤ key.length ∧ key.length ≤ 64)) (hlen : msg.length + 128 < 2^64) :
    generichash outLen msg (keyOpt key) = .ok (Spec.Blake2b.hash outLen key msg) := by
  have hk64 : key.length ≤ 64 := by
    rcases hk with h | h
    · subst h; simp
    · exact h.2
  unfold generichash
  have v1 : validateOutlen outLen = true := by simp [validateOutlen, ho.1, ho.2]
  have v2 : validateKey (keyOpt key) = true := by
    unfold keyOpt
    rcases hk with h | h
    · subst h; rfl
    · have : key.isEmpty = false := by cases key <;> simp_all
      simp only [this, Bool.false_eq_true, if_false, validateKey]
      simp; omega
  rw [v1, v2]
  exact hash_model_eq_spec outLen key msg (by omega) hk64 hlen

/-- `crypto_generichash_init` / `_update`* / `_final` on valid arguments -/
theorem generichash_inc_eq_spec (outLen : Nat) (key : Bytes) (salt personal : Option Bytes)
    (cs : List Bytes) (ho : 16 ≤ outLen ∧ outLen ≤ 64)
    (hk : key = [] ∨ (16 ≤ key.length ∧ key.length ≤ 64))
    (hs : ∀ s, salt = some s → s.length = 16) (hp : ∀ s, personal = some s → s.length = 16)
    (hlen : cs.flatten.length + 128 < 2^128) :
    ∃ st, generichashInit (keyOpt key) outLen salt personal = .ok st ∧
      generichashFinal (cs.foldl generichashUpdate st) outLen =
        .ok (Spec.Blake2b.hashSP outLen key (salt.getD []) (personal.getD []) cs.flatten) := by
  have hk64 : key.length ≤ 64 := by
    rcases hk with h | h
    · subst h; simp
    · exact h.2
  have v1 : validateOutlen outLen = true := by simp [validateOutlen, ho.1, ho.2]
  have v2 : validateKey (keyOpt key) = true := by
    unfold keyOpt
    rcases hk with h | h
    · subst h; rfl
    · have : key.isEmpty = false := by cases key <;> simp_all
      simp only [this, Bool.false_eq_true, if_false, validateKey]
      simp; omega
  have h := hashChunksC_model_eq_spec outLen key salt personal cs (by omega) hk64 hs hp hlen
  unfold hashChunksC at h
  have h1 : ¬ outLen > OUTBYTES := by simp only [OUTBYTES]; omega
  rw [if_neg h1] at h
  unfold generichashInit init
  rw [v1, v2]
  cases hi : initC compress (outLen % 256) (keyOpt key) salt personal with
  | ok st =>
    rw [hi] at h
    exact ⟨st, rfl, h⟩
  | err => rw [hi] at h; cases h
  | panic => rw [hi] at h; cases h

/-! ### `longhash` = Argon2 H′ -/

theorem toLE_length (n v : Nat) : (toLE n v).length = n := by
  induction n generalizing v with
  | zero => rfl
  | succ n ih => simp [toLE, ih]

theorem bytesOfWords_length (h : Array UInt64) (hh : h.size = 8) :
    (Spec.Blake2b.bytesOfWords h).length = 64 := by
  obtain ⟨h0, h1, h2, h3, h4, h5, h6, h7, rfl⟩ := arr8 h hh
  simp [Spec.Blake2b.bytesOfWords, toLE_length]

theorem spec_hash_length (outlen : Nat) (key msg : Bytes) (ho : outlen ≤ 64) :
    (Spec.Blake2b.hash outlen key msg).length = outlen := by
  unfold Spec.Blake2b.hash Spec.Blake2b.hashSP
  simp only []
  rw [List.length_take, bytesOfWords_length _ (spec_absorb_size _ _ _ (by simp [Spec.Blake2b.initState]))]
  omega

/-- **arithmetic of `longhash`** for `outLen > 64`: neither checked subtraction underflows,
the computed `chunk_count` is `⌈outLen/32⌉ − 3` (so `chunk_count + 1 = r = ⌈outLen/32⌉ − 2`
32-byte pieces precede the final one, counting the first half of `V₁`), the `split_at_mut`
index is in range and the final piece has `outLen − 32·r ∈ (32, 64]` bytes. -/
theorem longhash_arith (outLen : Nat) (h : 64 < outLen) :
    let outlen := outLen - HALFOUTBYTES
    let r := (outLen + 31) / 32 - 2
    (if outlen % HALFOUTBYTES = 0 then checkedSub (outlen / HALFOUTBYTES) 2
      else checkedSub (outlen / HALFOUTBYTES) 1) = some (r - 1)
    ∧ 1 ≤ r
    ∧ (r - 1) * HALFOUTBYTES ≤ outLen - HALFOUTBYTES
    ∧ outLen - HALFOUTBYTES - (r - 1) * HALFOUTBYTES = outLen - 32 * r
    ∧ 32 < outLen - 32 * r ∧ outLen - 32 * r ≤ 64 := by
  refine ⟨?_, by omega, by simp only [HALFOUTBYTES]; omega, by simp only [HALFOUTBYTES]; omega,
    by omega, by omega⟩
  unfold checkedSub
  by_cases hm : (outLen - HALFOUTBYTES) % HALFOUTBYTES = 0
  · rw [if_pos hm, if_pos (by simp only [HALFOUTBYTES] at hm ⊢; omega)]
    simp only [HALFOUTBYTES] at hm ⊢; congr 1; omega
  · rw [if_neg hm, if_pos (by simp only [HALFOUTBYTES] at hm ⊢; omega)]
    simp only [HALFOUTBYTES] at hm ⊢; congr 1; omega

/-- the chunk loop of `longhash` computes the `V₂ … ` chain of H′ -/
theorem longLoop_spec (L : Nat) (n : Nat) : ∀ (v : Bytes), v.length = 64 →
    ∃ S V, longLoop n v = .ok (S, V) ∧ V.length = 64 ∧
      S ++ Spec.Blake2b.hash L [] V = Spec.Argon2.hprimeChain n L v := by
  induction n with
  | zero => intro v hv; exact ⟨[], v, rfl, hv, rfl⟩
  | succ n ih =>
    intro v hv
    have hh := hash_model_eq_spec 64 [] v (by omega) (by simp) (by rw [hv]; omega)
    have hl := spec_hash_length 64 [] v (by omega)
    obtain ⟨S, V, h1, h2, h3⟩ := ih (Spec.Blake2b.hash 64 [] v) hl
    refine ⟨(Spec.Blake2b.hash 64 [] v).take 32 ++ S, V, ?_, h2, ?_⟩
    · simp only [longLoop, OUTBYTES]
      simp only [List.isEmpty_nil, if_true] at hh
      rw [hh]
      simp only [h1, HALFOUTBYTES, slice_zero]
    · simp only [Spec.Argon2.hprimeChain, List.append_assoc, h3]

/-- `init; update a; update b; finalize` as used by `longhash` -/
theorem init_update2_finalize (L : Nat) (a b : Bytes) (hL : 1 ≤ L ∧ L ≤ 64)
    (hlen : a.length + b.length + 128 < 2^64) :
    ∃ st, init L none none none = .ok st ∧
      finalize (update (update st a) b) L = .ok (Spec.Blake2b.hash L [] (a ++ b)) := by
  have h := hashChunks_model_eq_spec L [] [a, b] hL (by simp) (by simp; omega)
  unfold hashChunks hashChunksC at h
  have h1 : ¬ L > OUTBYTES := by simp only [OUTBYTES]; omega
  rw [if_neg h1, Nat.mod_eq_of_lt (by omega : L < 256)] at h
  have hk : keyOpt [] = none := rfl
  rw [hk] at h
  unfold init
  cases hi : initC compress L none none none with
  | ok st =>
    rw [hi] at h
    simp only [List.foldl_cons, List.foldl_nil, List.flatten_cons, List.flatten_nil, List.append_nil] at h
    exact ⟨st, rfl, h⟩
  | err => rw [hi] at h; cases h
  | panic => rw [hi] at h; cases h

/-- **C.** `longhash` (the Rust `blake2b::longhash`, used by Argon2) is RFC 9106 `H′`. -/
theorem longhash_eq_hprime (outLen : Nat) (inp : Bytes) (h4 : 4 < outLen)
    (h32 : outLen < 2^32 - 1) (hin : inp.length + 132 < 2^64) :
    longhash outLen inp = .ok (Spec.Argon2.hprime outLen inp) := by
  unfold longhash Spec.Argon2.hprime Spec.Argon2.le32
  have g1 : ¬ ¬ outLen > 4 := by omega
  have g2 : ¬ ¬ outLen < 4294967295 := by omega
  rw [if_neg g1, if_neg g2]
  by_cases hle : outLen ≤ 64
  · obtain ⟨st, hi, hf⟩ := init_update2_finalize outLen (toLE 4 outLen) inp (by omega)
      (by rw [toLE_length]; omega)
    have e : min outLen OUTBYTES % 256 = outLen := by simp only [OUTBYTES]; omega
    have hle' : outLen ≤ OUTBYTES := hle
    rw [e, hi]
    simp only []
    rw [if_pos hle', if_pos hle]
    exact hf
  · obtain ⟨st, hi, hf⟩ := init_update2_finalize 64 (toLE 4 outLen) inp (by omega)
      (by rw [toLE_length]; omega)
    have e : min outLen OUTBYTES % 256 = 64 := by simp only [OUTBYTES]; omega
    have hle' : ¬ outLen ≤ OUTBYTES := hle
    have hf' : finalize (update (update st (toLE 4 outLen)) inp) OUTBYTES
        = .ok (Spec.Blake2b.hash 64 [] (toLE 4 outLen ++ inp)) := hf
    rw [e, hi]
    simp only []
    rw [if_neg hle']
    simp only [hf']
    obtain ⟨a1, a2, a3, a4, a5, a6⟩ := longhash_arith outLen (by omega)
    rw [a1]
    simp only [if_neg (Nat.not_lt.mpr a3)]
    obtain ⟨S, V, l1, l2, l3⟩ := longLoop_spec (outLen - 32 * ((outLen + 31) / 32 - 2))
      ((outLen + 31) / 32 - 2 - 1) _ (spec_hash_length 64 [] (toLE 4 outLen ++ inp) (by omega))
    rw [l1]
    simp only [a4]
    have hh := hash_model_eq_spec (outLen - 32 * ((outLen + 31) / 32 - 2)) [] V (by omega) (by simp)
      (by rw [l2]; omega)
    simp only [List.isEmpty_nil, if_true] at hh
    rw [hh]
    simp only [HALFOUTBYTES, slice_zero, List.append_assoc, l3]
    rw [if_neg hle]


/-! ### the hypotheses are satisfiable -/

example : hash 32 [1, 2, 3] none = .ok (Spec.Blake2b.hash 32 [] [1, 2, 3]) :=
  hash_model_eq_spec 32 [] [1, 2, 3] (by omega) (by simp) (by simp)

example : hash 64 [] (some [7, 7, 7]) = .ok (Spec.Blake2b.hash 64 [7, 7, 7] []) :=
  hash_model_eq_spec 64 [7, 7, 7] [] (by omega) (by simp) (by simp)

example : hashChunks 16 none [[1], [], [2, 3]] = .ok (Spec.Blake2b.hash 16 [] [1, 2, 3]) :=
  hashChunks_model_eq_spec 16 [] [[1], [], [2, 3]] (by omega) (by simp) (by simp)

example : longhash 1024 [1, 2] = .ok (Spec.Argon2.hprime 1024 [1, 2]) :=
  longhash_eq_hprime 1024 [1, 2] (by omega) (by omega) (by simp)

example : longhash 5 [] = .ok (Spec.Argon2.hprime 5 []) :=
  longhash_eq_hprime 5 [] (by omega) (by omega) (by simp)

/-- `init` succeeds (the hypothesis `hinit` of `hashChunksC_eq_absorbSpec`), and the resulting
state and its successors are `Reachable` -/
example (C : Compress) : ∃ st, initC C 32 (some (zeros 32)) none none = .ok st ∧
    Reachable C (updateC C st [1, 2, 3]) :=
  ⟨_, initC_ok C 32 (some (zeros 32)) none none (by omega)
      (by intro k hk; injection hk with hk; subst hk; simp [zeros]),
    .update _ _ (.init 32 (some (zeros 32)) none none _ (initC_ok C 32 (some (zeros 32)) none none
      (by omega) (by intro k hk; injection hk with hk; subst hk; simp [zeros])))⟩

end DryocVerif.Proofs.Blake2b

#print axioms DryocVerif.Proofs.Blake2b.updateC_stateAfter
#print axioms DryocVerif.Proofs.Blake2b.hashChunksC_eq
#print axioms DryocVerif.Proofs.Blake2b.hashChunksC_eq_absorbSpec
#print axioms DryocVerif.Proofs.Blake2b.buf_le_128
#print axioms DryocVerif.Proofs.Blake2b.compress_eq_spec
#print axioms DryocVerif.Proofs.Blake2b.hashChunksC_model_eq_spec
#print axioms DryocVerif.Proofs.Blake2b.hash_model_eq_spec
#print axioms DryocVerif.Proofs.Blake2b.generichash_eq_spec
#print axioms DryocVerif.Proofs.Blake2b.generichash_inc_eq_spec
#print axioms DryocVerif.Proofs.Blake2b.longhash_arith
#print axioms DryocVerif.Proofs.Blake2b.longhash_eq_hprime
