import DryocVerif.Proofs.Blake2bMain
/-
* the slice indices computed by `State::update` are in range (the model `updateC` is totalised with `slice` and
  truncated subtraction; here: the Rust cannot panic on them),
* `crypto_generichash` returns `Err` exactly on the argument combinations it validates against,
* the classic incremental API equals the one-shot function.
-/
namespace DryocVerif.Proofs.Blake2b
open DryocVerif
open DryocVerif.Model.Blake2b
open DryocVerif.Model.Utils (slice)

/-! ### slice bounds of `update` -/

/-- the index `start` computed in the `else` branch of `State::update` -/
def updStart (st : State) : Nat :=
  if st.buf.length ≠ 0 ∧ st.buf.length < BLOCKBYTES then BLOCKBYTES - st.buf.length else 0

/-- the index `end` computed in the `else` branch of `State::update` -/
def updEnd (st : State) (input : Bytes) : Nat :=
  let start := updStart st
  let remaining := input.length - start
  if remaining > BLOCKBYTES ∧ remaining % BLOCKBYTES = 0 then input.length - BLOCKBYTES
  else if remaining > BLOCKBYTES then input.length - remaining % BLOCKBYTES
  else start

/-- `updStart` / `updEnd` ARE the indices the model's `updateC` slices with (in the branch that slices) -/
theorem updateC_indices (C : Compress) (st : State) (input : Bytes) (h0 : input.length ≠ 0)
    (h1 : ¬ input.length + st.buf.length ≤ BLOCKBYTES) :
    updateC C st input =
      { (chunksExact BLOCKBYTES (slice input (updStart st) (updEnd st input))).foldl (stepC C)
          ((chunksExact BLOCKBYTES
              (if st.buf.length ≠ 0 ∧ st.buf.length < BLOCKBYTES then st.buf ++ slice input 0 (updStart st)
               else st.buf)).foldl (stepC C) st)
        with buf := slice input (updEnd st input) input.length } := by
  unfold updateC
  rw [if_neg h0, if_neg h1]
  rfl

theorem idx_arith (b n : Nat) (h0 : n ≠ 0) (h1 : ¬ n + b ≤ 128) :
    ∀ start, (if b ≠ 0 ∧ b < 128 then 128 - b else 0) = start →
    ∀ e, (if n - start > 128 ∧ (n - start) % 128 = 0 then n - 128
      else if n - start > 128 then n - (n - start) % 128 else start) = e →
    (b ≠ 0 ∧ b < 128 → b ≤ 128 ∧ start ≤ n) ∧
    start ≤ n ∧
    (n - start > 128 ∧ (n - start) % 128 = 0 → 128 ≤ n) ∧
    (n - start > 128 → (n - start) % 128 ≤ n) ∧
    start ≤ e ∧ e ≤ n ∧ 1 ≤ n - e ∧ n - e ≤ 128 ∧ (e - start) % 128 = 0 := by
  intro start hs e he
  have hs' : start ≤ n ∧ (b ≠ 0 ∧ b < 128 → start = 128 - b) ∧ (¬ (b ≠ 0 ∧ b < 128) → start = 0) := by
    by_cases hc : b ≠ 0 ∧ b < 128
    · rw [if_pos hc] at hs; omega
    · rw [if_neg hc] at hs; omega
  by_cases hc1 : n - start > 128 ∧ (n - start) % 128 = 0
  · rw [if_pos hc1] at he; omega
  · rw [if_neg hc1] at he
    by_cases hc2 : n - start > 128
    · rw [if_pos hc2] at he; omega
    · rw [if_neg hc2] at he; omega

/-- **every index and `usize` subtraction of `State::update` is in range**, for ANY state (no reachability needed)
and any non-empty input that takes the slicing branch:
`BLOCKBYTES - buf.len()` (evaluated only when `buf.len() < BLOCKBYTES`), `input[..start]`, `input.len() - start`,
`input.len() - BLOCKBYTES` (first `end` branch), `input.len() - remaining % BLOCKBYTES` (second),
`input[start..end]`, `input[end..]`; moreover what is left in the buffer is between 1 and 128 bytes and the
compressed middle part is a whole number of blocks. -/
theorem update_slices_in_range (st : State) (input : Bytes) (h0 : input.length ≠ 0)
    (h1 : ¬ input.length + st.buf.length ≤ BLOCKBYTES) :
    let start := updStart st
    let remaining := input.length - start
    let end_ := updEnd st input
    (st.buf.length ≠ 0 ∧ st.buf.length < BLOCKBYTES → st.buf.length ≤ BLOCKBYTES ∧ start ≤ input.length) ∧
    start ≤ input.length ∧
    (remaining > BLOCKBYTES ∧ remaining % BLOCKBYTES = 0 → BLOCKBYTES ≤ input.length) ∧
    (remaining > BLOCKBYTES → remaining % BLOCKBYTES ≤ input.length) ∧
    start ≤ end_ ∧ end_ ≤ input.length ∧
    1 ≤ input.length - end_ ∧ input.length - end_ ≤ BLOCKBYTES ∧ (end_ - start) % BLOCKBYTES = 0 :=
  idx_arith st.buf.length input.length h0 h1 _ rfl _ rfl

/-- reachable states: the buffer holds at most one block before and after any `update` -/
theorem update_buf_le_128 (C : Compress) (st : State) (h : Reachable C st) (input : Bytes) :
    st.buf.length ≤ 128 ∧ (updateC C st input).buf.length ≤ 128 :=
  ⟨buf_le_128 C st h, buf_le_128 C _ (.update st input h)⟩

/-! ### `crypto_generichash`: `Err` exactly on invalid arguments -/

theorem hash_ok_of_valid (outLen : Nat) (input : Bytes) (key : Option Bytes)
    (ho : 1 ≤ outLen ∧ outLen ≤ 64) (hk : ∀ k, key = some k → k.length ≤ 64) :
    ∃ d, hash outLen input key = .ok d := by
  have hinit := initC_ok compress (outLen % 256) key none none
    (by rw [Nat.mod_eq_of_lt (by omega : outLen < 256)]; exact ho) hk
  exact ⟨_, hashChunksC_eq_absorbSpec compress outLen key none none [input] _ ho hinit⟩

theorem validateOutlen_iff (n : Nat) : validateOutlen n = true ↔ 16 ≤ n ∧ n ≤ 64 := by
  simp [validateOutlen]

theorem validateKey_iff (key : Option Bytes) :
    validateKey key = true ↔ ∀ k, key = some k → 16 ≤ k.length ∧ k.length ≤ 64 := by
  cases key with
  | none => simp [validateKey]
  | some k =>
    simp only [validateKey, Option.some.injEq, forall_eq']
    simp

/-- `crypto_generichash(output, input, key)` returns `Err` **iff** `output.len()` is outside 16..=64 or a key is
given whose length is outside 16..=64; otherwise it returns `Ok` (it never panics) -/
theorem generichash_err_iff (outLen : Nat) (input : Bytes) (key : Option Bytes) :
    (generichash outLen input key = .err ↔
      (outLen < 16 ∨ 64 < outLen) ∨ ∃ k, key = some k ∧ (k.length < 16 ∨ 64 < k.length)) ∧
    generichash outLen input key ≠ .panic := by
  unfold generichash
  by_cases v1 : validateOutlen outLen = true
  · by_cases v2 : validateKey key = true
    · have ho := (validateOutlen_iff _).mp v1
      have hk := (validateKey_iff _).mp v2
      obtain ⟨d, hd⟩ := hash_ok_of_valid outLen input key (by omega) (fun k e => (hk k e).2)
      simp only [v1, v2, Bool.not_true, Bool.false_eq_true, if_false, hd]
      refine ⟨⟨fun h => (by cases h), ?_⟩, fun h => (by cases h)⟩
      rintro (h | ⟨k, e, h⟩)
      · omega
      · have := hk k e; omega
    · simp only [v1, v2, Bool.not_true, Bool.false_eq_true, if_false, Bool.not_false, if_true]
      refine ⟨⟨fun _ => Or.inr ?_, fun _ => trivial⟩, fun h => (by cases h)⟩
      have : ¬ ∀ k, key = some k → 16 ≤ k.length ∧ k.length ≤ 64 := fun h => v2 ((validateKey_iff _).mpr h)
      cases key with
      | none => exact absurd (fun k e => by cases e) this
      | some k =>
        refine ⟨k, rfl, ?_⟩
        by_cases hk : 16 ≤ k.length ∧ k.length ≤ 64
        · exact absurd (fun k' e => by injection e with e; rw [← e]; exact hk) this
        · omega
  · simp only [v1, Bool.not_false, if_true]
    refine ⟨⟨fun _ => Or.inl ?_, fun _ => trivial⟩, fun h => (by cases h)⟩
    have := mt (validateOutlen_iff outLen).mpr v1
    omega

/-! ### classic incremental API = one-shot function -/

/-- for a state produced by `crypto_generichash_init(key, n, None, None)`:
`crypto_generichash_final` after any sequence of `crypto_generichash_update`s = the one-shot
`crypto_generichash` of the concatenation, with the same output length and key -/
theorem generichash_inc_eq_oneshot (key : Option Bytes) (n : Nat) (st : State)
    (hinit : generichashInit key n none none = .ok st) (cs : List Bytes) :
    generichashFinal (cs.foldl generichashUpdate st) n = generichash n cs.flatten key := by
  unfold generichashInit at hinit
  unfold generichash
  by_cases v1 : validateOutlen n = true
  · by_cases v2 : validateKey key = true
    · simp only [v1, v2, Bool.not_true, Bool.false_eq_true, if_false] at hinit ⊢
      have ho := (validateOutlen_iff _).mp v1
      rw [← hashChunks_eq_hash n key cs]
      unfold hashChunks hashChunksC
      have h1 : ¬ n > OUTBYTES := by simp only [OUTBYTES]; omega
      unfold init at hinit
      rw [if_neg h1, hinit]
      rfl
    · simp [v1, v2] at hinit
  · simp [v1] at hinit

end DryocVerif.Proofs.Blake2b

section AxiomCheck
open DryocVerif.Proofs.Blake2b
#print axioms update_slices_in_range
#print axioms generichash_err_iff
#print axioms generichash_inc_eq_oneshot
end AxiomCheck
